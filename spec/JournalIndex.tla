---------------------------- MODULE JournalIndex ----------------------------
(* C04: journal.idx is only an accelerator.  Extends Journal.tla (which already contains the index *writer*:
   lookups per chunk record, IndexFlush batches, Close flush, and the *loader*: LoadIndex = readJournalIndex with its
   three checks per batch - checksum over the addresses, contiguity, root record with the batch's hash at the batch
   end - plus corruptIndexRecovery and the truncation to the last good batch) with the fault model of the property:

     IndexFault kinds   missing | empty | truncated at an entry boundary | truncated inside an entry | junk appended |
                        unknown tag | address of a lookup | range of a lookup (unreadable / another chunk's range /
                        shorter than a checksum) | meta start | meta end (every other offset class) | meta checksum |
                        meta root | a lookup removed with the checksum adjusted (self-consistent but wrong)
     stale indexes      are prefixes (truncations); foreign indexes are modelled by the self-consistent faults.

   For a journal at rest (undamaged, clean tail) and every fault f:
        OpenWithIndex(j, f(idx)) = OpenWithoutIndex(j)          read-write and read-only,
   and a read-only open modifies nothing.  TLC checks this (IndexTransparent) for every fault outside the named deviation
   classes DevKinds - faults the loader cannot notice because the batch checksum covers only the addresses:
   there the spec predicts what the code does (pred) and the conformance engine still demands the property (ideal). *)
EXTENDS Journal

VARIABLE nprobe
ivars == <<vars, nprobe>>
iview == <<view, nprobe>>

NoIdx == [ex |-> FALSE, es |-> <<>>]
Boundaries(ds) == {Off(ds, i) : i \in 0..Len(ds)}

\* the M entry that closes the batch of entry n (0: trailing partial batch)
MetaOf(es, n) == LET M == {j \in (n + 1)..Len(es) : es[j].t = "M"} IN IF M = {} THEN 0 ELSE CHOOSE j \in M : \A j2 \in M : j <= j2
\* position of lookup n inside its batch
PosInBatch(es, n) == LET P == {j \in 1..(n - 1) : es[j].t = "M"} IN n - (IF P = {} THEN 0 ELSE CHOOSE j \in P : \A j2 \in P : j2 <= j)
RemoveAt(s, i) == [j \in 1..(Len(s) - 1) |-> IF j < i THEN s[j] ELSE s[j + 1]]

\* all faults of an index `es` lying next to the journal `ds`: [kind, n, k, es]
FaultsOf(es, ds) ==
  LET N == 1..Len(es)
      Ls == {n \in N : es[n].t = "L"}
      Ms == {n \in N : es[n].t = "M"}
      otherChunk(n) == \E i \in 1..Len(ds) : ds[i].k = "c" /\ ds[i].id # es[n].c
  IN  {[kind |-> "missing", n |-> 0, k |-> "", v |-> 0, ix |-> NoIdx], [kind |-> "empty", n |-> 0, k |-> "", v |-> 0, ix |-> [ex |-> TRUE, es |-> <<>>]]}
      \cup {[kind |-> "truncEntry", n |-> n, k |-> "", v |-> 0, ix |-> [ex |-> TRUE, es |-> SubSeq(es, 1, n)]] : n \in 1..(Len(es) - 1)}
      \cup {[kind |-> "truncMid", n |-> n, k |-> "", v |-> 0, ix |-> [ex |-> TRUE, es |-> Append(SubSeq(es, 1, n), [t |-> "P"])]] : n \in 0..(Len(es) - 1)}
      \cup {[kind |-> "appendJunk", n |-> Len(es), k |-> "", v |-> 0, ix |-> [ex |-> TRUE, es |-> Append(es, [t |-> "X"])]]}
      \cup {[kind |-> "tag", n |-> n, k |-> "", v |-> 0, ix |-> [ex |-> TRUE, es |-> [es EXCEPT ![n] = [t |-> "X"]]]] : n \in N}
      \cup {[kind |-> "addr", n |-> n, k |-> "", v |-> 0, ix |-> [ex |-> TRUE, es |-> [es EXCEPT ![n].c = 0]]] : n \in Ls}
      \cup {[kind |-> "rng", n |-> n, k |-> k, v |-> 0, ix |-> [ex |-> TRUE, es |-> [es EXCEPT ![n].r = k]]] :
              n \in Ls, k \in {"err", "panic"}}
      \cup {[kind |-> "rng", n |-> n, k |-> "wrong", v |-> 0, ix |-> [ex |-> TRUE, es |-> [es EXCEPT ![n].r = "wrong"]]] : n \in {x \in Ls : otherChunk(x)}}
      \cup {[kind |-> "dropfix", n |-> n, k |-> "", v |-> 0,
             ix |-> [ex |-> TRUE, es |-> RemoveAt([es EXCEPT ![MetaOf(es, n)].crc = RemoveAt(@, PosInBatch(es, n))], n)]] :
              n \in {x \in Ls : MetaOf(es, x) # 0}}
      \cup {[kind |-> "metaStart", n |-> n, k |-> "", v |-> 0, ix |-> [ex |-> TRUE, es |-> [es EXCEPT ![n].s = @ + 1]]] : n \in Ms}
      \cup {[kind |-> "metaCrc", n |-> n, k |-> "", v |-> 0, ix |-> [ex |-> TRUE, es |-> [es EXCEPT ![n].crc = <<0>>]]] : n \in Ms}
      \cup UNION {{[kind |-> "metaRoot", n |-> n, k |-> "", v |-> r, ix |-> [ex |-> TRUE, es |-> [es EXCEPT ![n].root = r]]] :
                     r \in {x \in Chunks \cup {NoRoot} : x # es[n].root}} : n \in Ms}
      \cup UNION {{[kind |-> "metaEnd", n |-> n, k |-> "", v |-> o, ix |-> [ex |-> TRUE, es |-> [es EXCEPT ![n].e = o]]] :
                     o \in {x \in Boundaries(ds) \cup {Bytes(ds) + RootSz} \cup {b + 1 : b \in Boundaries(ds)} : x # es[n].e}} : n \in Ms}

Outcome(o, ds) == [err |-> o.err, root |-> o.root, reads |-> Reads(o), jlen |-> Bytes(o.recs), man |-> o.man,
                   ifex |-> o.ifile.ex, ifile |-> IdxJson(o.ifile.es)]
SameOutcome(a, b) == a.err = b.err /\ a.root = b.root /\ a.reads = b.reads /\ a.jlen = b.jlen /\ a.man = b.man

\* faults the loader cannot notice (batch checksum = addresses only; batch end = any root record with the same hash)
DevKinds == {"rng", "dropfix", "metaEnd"}

FaultRow(f, ds, tl, m) ==
  LET prw == Outcome(RecoverOut(ds, tl, m, f.ix, TRUE), ds)
      pro == Outcome(RecoverOut(ds, tl, m, f.ix, FALSE), ds)
      irw == Outcome(RecoverOut(ds, tl, m, NoIdx, TRUE), ds)
      iro == Outcome(RecoverOut(ds, tl, m, NoIdx, FALSE), ds)
  IN [kind |-> f.kind, n |-> f.n, k |-> f.k, v |-> f.v, ex |-> f.ix.ex, es |-> IdxJson(f.ix.es), rw |-> prw, ro |-> pro,
      dev |-> ~SameOutcome(prw, irw) \/ ~SameOutcome(pro, iro)]

AtRest == st = "down" /\ hasJ /\ Undamaged /\ tail = NoTail

\* every fault of the index at rest leaves both kinds of open as if there were no index
IndexTransparent ==
  AtRest => \A f \in FaultsOf(ifile.es, recs) :
               LET r == FaultRow(f, recs, tail, man) IN r.dev => f.kind \in DevKinds
\* ... the deviation classes do occur in the model (the invariant is not vacuous about them): checked by a separate cfg as
\* an invariant that TLC must violate
NoDeviation == AtRest => \A f \in FaultsOf(ifile.es, recs) : ~FaultRow(f, recs, tail, man).dev
\* a read-only open with a faulted index still writes nothing
ReadOnlyFaultedWritesNothing ==
  AtRest => \A f \in FaultsOf(ifile.es, recs) :
               LET o == RecoverOut(recs, tail, man, f.ix, FALSE) IN o.recs = recs /\ o.tail = tail /\ o.man = man /\ o.ifile = f.ix
\* a read-write open leaves a well-formed index: what remains is a prefix of complete, valid batches of the faulted file
RepairedIndexLoads ==
  AtRest => \A f \in FaultsOf(ifile.es, recs) :
               LET o == RecoverOut(recs, tail, man, f.ix, TRUE)
               IN o.err = "none" => LoadIndex(o.ifile, o.recs).keep = o.ifile.es

\* generator: the fault table of a directory at rest, with the outcome of every fault and of the index-free open
IdxFaults ==
  /\ RecordHist /\ AtRest /\ ifile.ex /\ nprobe < 2
  /\ (Len(hist) = 0 \/ hist[Len(hist)].a # "IdxFaults")
  /\ nprobe' = nprobe + 1
  /\ hist' = Append(hist, [a |-> "IdxFaults",
                           base |-> IdxJson(ifile.es),
                           recs |-> [i \in 1..Len(recs) |-> <<recs[i].k, recs[i].id, Off(recs, i - 1), Sz(recs[i])>>],
                           ideal |-> [rw |-> Outcome(RecoverOut(recs, tail, man, NoIdx, TRUE), recs),
                                      ro |-> Outcome(RecoverOut(recs, tail, man, NoIdx, FALSE), recs)],
                           asis |-> [rw |-> Outcome(RecoverOut(recs, tail, man, ifile, TRUE), recs),
                                     ro |-> Outcome(RecoverOut(recs, tail, man, ifile, FALSE), recs)],
                           rows |-> {FaultRow(f, recs, tail, man) : f \in FaultsOf(ifile.es, recs)}])
  /\ UNCHANGED <<st, recs, written, synced, tail, hasJ, unsyncd, curRoot, mem, upRoot, cspec, jvis, man, todo, rng, nov, indexed, ilog, ifile, wrOld, base, infl, mfl, lastRec, ncrash, nopen, ndamage>>

IInit == Init /\ nprobe = 0
INext == (JNext /\ UNCHANGED nprobe)
ISimNext == (SimNext /\ UNCHANGED nprobe) \/ IdxFaults
=============================================================================
