--------------------------- MODULE PushOnWrite ---------------------------
(* Push-on-write replication (system variable dolt_replicate_to_remote), statement-granular:
     go/libraries/doltcore/sqle/replication.go      (getPushOnWriteHook / ApplyReplicationConfig)
     go/libraries/doltcore/sqle/commit_hooks.go     (DynamicPushOnWriteHook.Execute, PushOnWriteHook.Execute, pushDataset)
     go/libraries/doltcore/doltdb/hooksdatabase.go  (ExecuteCommitHooks after a successful dataset write;
                                                     ExecuteForWorkingSets() = false for this hook)

   A primary database with branches and tags, a remote with the same kind of refs.  Every statement that moves a ref
   (commit, branch create/delete, tag, reset --hard) runs the hook before it returns:
     * remote configured and reachable : pushDataset -> the remote's ref equals the local ref when the statement returns;
     * configured remote unknown       : "replication hook failed" warning (logrus), nothing pushed;
     * remote unreachable              : "error pushing: ..." written to the hook's logger, nothing pushed;
     * replication not configured ('') : nothing pushed, nothing said.
   Working-set-only writes (SQL without dolt_commit) do not run the hook.

   DynamicPushOnWriteHook re-reads the system variable at every Execute and keeps (m.remote, syncHook.destDb).
   Named deviation of dolt before commit 5c19ae0 (FixStaleDest = FALSE; the configs now use TRUE; commit_hooks.go DynamicPushOnWriteHook.Execute): m.remote is
   assigned BEFORE the new destination is resolved; when the resolution fails ("remote not found") the first write
   warns, but from then on "no change in config" holds and every write is pushed to the PREVIOUS destination without
   any warning (or fails with "invoked with nil destDB" when there was none).  FixStaleDest = TRUE models the repair
   (remember the new name only after the destination was resolved): every write warns until the setting is valid.

   Commits are numbers; parent[c] is the first parent.  Refs are strings "b:<branch>" / "t:<tag>" so that ToJson of
   a heads function is the object the engine projects.

   Property (C45, push-on-write clause): NoSilentLoss - whenever the remote's value of a ref differs from the local
   one, a warning was raised for (or replication was switched off during) the last write of that ref. *)
EXTENDS Integers, Sequences, FiniteSets, TLC, Json

CONSTANTS Branches,     \* branch names other than "main"
          Tags,         \* tag names
          MaxCommit,    \* commits are 0..MaxCommit (0 = the replicated initial commit)
          D,            \* behaviour length at which the history is emitted
          RecordHist,
          FixStaleDest  \* FALSE = the code as written

VARIABLES local,        \* [Refs -> commit | Absent]  refs of the primary
          remote,       \* [Refs -> commit | Absent]  refs of the remote
          parent,       \* [0..MaxCommit -> commit | Absent]
          nextC,        \* next commit id
          cfg,          \* "good" | "unknown" | "none"    value of dolt_replicate_to_remote
          up,           \* remote reachable
          unrepl,       \* refs whose last write was not replicated, with a warning or with replication off
          silent,       \* refs whose last write was not replicated WITHOUT a warning while replication was on (must stay {})
          remoteHad,    \* [Refs -> set of values the remote has had]   (history, used by ReadReplica)
          hookRemote,   \* m.remote of DynamicPushOnWriteHook: "good" | "unknown" | "none"
          hookDest,     \* syncHook.destDb # nil (it then is the database of the one existing remote)
          staleDestUsed,\* history: a write was pushed to the previous destination although the setting names another remote
          hist

pvars == <<local, remote, parent, nextC, cfg, up, unrepl, silent, remoteHad, hookRemote, hookDest, staleDestUsed>>
Absent == -1
BRef(b) == "b:" \o b
TRef(t) == "t:" \o t
AllBranches == Branches \cup {"main"}
Refs == {BRef(b) : b \in AllBranches} \cup {TRef(t) : t \in Tags}

Heads(f) == [r \in {x \in Refs : f[x] # Absent} |-> f[r]]

PInit ==
  /\ local = [r \in Refs |-> IF r = BRef("main") THEN 0 ELSE Absent]
  /\ remote = [r \in Refs |-> IF r = BRef("main") THEN 0 ELSE Absent]
  /\ parent = [c \in 0..MaxCommit |-> Absent]
  /\ nextC = 1 /\ cfg = "good" /\ up = TRUE /\ unrepl = {} /\ silent = {}
  /\ remoteHad = [r \in Refs |-> {remote[r]}]
  /\ hookRemote = "good" /\ hookDest = TRUE /\ staleDestUsed = FALSE

\* One run of DynamicPushOnWriteHook.Execute for a dataset whose head moved to v (Absent = deleted), starting from the
\* hook state hs = [rem, hr (m.remote), hd (destDb # nil), warned, stale].  |visible| = the dataset is a branch or tag
\* (a working-set dataset is pushed/deleted on the destination as well, but shows in no ref).
PushTo(rem, r, v, visible) == IF up /\ visible THEN [rem EXCEPT ![r] = v] ELSE rem
HookRun(hs, r, v, visible) ==
  IF cfg = hs.hr
  THEN \* "No change in config since last execution."
       IF cfg = "none" THEN hs
       ELSE IF ~hs.hd THEN [hs EXCEPT !.warned = TRUE]                                  \* "invoked with nil destDB"
       ELSE [hs EXCEPT !.rem = PushTo(hs.rem, r, v, visible), !.warned = (hs.warned \/ ~up), !.stale = (hs.stale \/ cfg = "unknown")]
  ELSE IF cfg = "none" THEN [hs EXCEPT !.hr = "none", !.hd = FALSE]
  ELSE IF cfg = "unknown"        \* getDestinationDb fails: "replication hook failed: remote not found"
       THEN [hs EXCEPT !.warned = TRUE, !.hr = (IF FixStaleDest THEN hs.hr ELSE "unknown")]
  ELSE [hs EXCEPT !.rem = PushTo(hs.rem, r, v, visible), !.warned = (hs.warned \/ ~up), !.hr = "good", !.hd = TRUE]

HookState == [rem |-> remote, hr |-> hookRemote, hd |-> hookDest, warned |-> FALSE, stale |-> FALSE]

\* the hook runs of a statement that moves ref r to v; deleting a branch deletes its working-set dataset first, and
\* hooksDatabase.Delete runs the commit hooks for that dataset too (ExecuteCommitHooks(..., onlyWS = false))
HookResult(r, v, wsFirst) ==
  IF wsFirst THEN HookRun(HookRun(HookState, r, Absent, FALSE), r, v, TRUE) ELSE HookRun(HookState, r, v, TRUE)

AfterWriteW(r, v, wsFirst) ==
  LET h == HookResult(r, v, wsFirst) IN
  /\ remote' = h.rem
  /\ hookRemote' = h.hr /\ hookDest' = h.hd
  /\ staleDestUsed' = (staleDestUsed \/ h.stale)
  /\ remoteHad' = [remoteHad EXCEPT ![r] = @ \cup {h.rem[r]}]
  /\ unrepl' = IF h.rem[r] = v THEN unrepl \ {r} ELSE unrepl \cup {r}
  /\ silent' = IF cfg # "none" /\ ~h.warned /\ (h.rem[r] # v \/ cfg = "unknown") THEN silent \cup {r} ELSE silent \ {r}
AfterWrite(r, v) == AfterWriteW(r, v, FALSE)

Warned(r, v) == HookResult(r, v, FALSE).warned

\* call dolt_checkout(b); insert ...; call dolt_commit('-Am', ...)
Commit(b) ==
  /\ local[BRef(b)] # Absent /\ nextC <= MaxCommit
  /\ local' = [local EXCEPT ![BRef(b)] = nextC]
  /\ parent' = [parent EXCEPT ![nextC] = local[BRef(b)]]
  /\ nextC' = nextC + 1
  /\ AfterWrite(BRef(b), nextC)
  /\ UNCHANGED <<cfg, up>>

\* SQL write without dolt_commit (working set only): the hook does not run
WsWrite(b) ==
  /\ local[BRef(b)] # Absent
  /\ UNCHANGED pvars

\* call dolt_branch(b, from)
CreateBranch(b, from) ==
  /\ b \in Branches /\ local[BRef(b)] = Absent /\ local[BRef(from)] # Absent
  /\ local' = [local EXCEPT ![BRef(b)] = local[BRef(from)]]
  /\ AfterWrite(BRef(b), local[BRef(from)])
  /\ UNCHANGED <<parent, nextC, cfg, up>>

\* call dolt_branch('-D', b)
DeleteBranch(b) ==
  /\ b \in Branches /\ local[BRef(b)] # Absent
  /\ local' = [local EXCEPT ![BRef(b)] = Absent]
  /\ AfterWriteW(BRef(b), Absent, TRUE)
  /\ UNCHANGED <<parent, nextC, cfg, up>>

\* call dolt_tag(t, b)
Tag(t, b) ==
  /\ local[TRef(t)] = Absent /\ local[BRef(b)] # Absent
  /\ local' = [local EXCEPT ![TRef(t)] = local[BRef(b)]]
  /\ AfterWrite(TRef(t), local[BRef(b)])
  /\ UNCHANGED <<parent, nextC, cfg, up>>

\* call dolt_reset('--hard', 'HEAD~1') on branch b: a non-fast-forward move of the ref
Reset(b) ==
  /\ local[BRef(b)] # Absent /\ local[BRef(b)] > 0 /\ parent[local[BRef(b)]] # Absent
  /\ local' = [local EXCEPT ![BRef(b)] = parent[local[BRef(b)]]]
  /\ AfterWrite(BRef(b), parent[local[BRef(b)]])
  /\ UNCHANGED <<parent, nextC, cfg, up>>

SetCfg(v) == /\ cfg # v /\ cfg' = v /\ UNCHANGED <<local, remote, parent, nextC, up, unrepl, silent, remoteHad, hookRemote, hookDest, staleDestUsed>>
RemoteDown == /\ up /\ up' = FALSE /\ UNCHANGED <<local, remote, parent, nextC, cfg, unrepl, silent, remoteHad, hookRemote, hookDest, staleDestUsed>>
RemoteUp == /\ ~up /\ up' = TRUE /\ UNCHANGED <<local, remote, parent, nextC, cfg, unrepl, silent, remoteHad, hookRemote, hookDest, staleDestUsed>>

\* ------------------------------------------------------------------ labelled steps (one label = one engine step)
PLabels ==
  {[a |-> "Commit", b |-> b, c |-> nextC] : b \in AllBranches}
  \cup {[a |-> "WsWrite", b |-> b] : b \in AllBranches}
  \cup {[a |-> "CreateBranch", b |-> b, from |-> f] : b \in Branches, f \in AllBranches}
  \cup {[a |-> "DeleteBranch", b |-> b] : b \in Branches}
  \cup {[a |-> "Tag", t |-> t, b |-> b] : t \in Tags, b \in AllBranches}
  \cup {[a |-> "Reset", b |-> b] : b \in AllBranches}
  \cup {[a |-> "SetCfg", v |-> v] : v \in {"good", "unknown", "none"}}
  \cup {[a |-> "RemoteDown"], [a |-> "RemoteUp"]}

PStep(l) ==
  CASE l.a = "Commit" -> Commit(l.b)
    [] l.a = "WsWrite" -> WsWrite(l.b)
    [] l.a = "CreateBranch" -> CreateBranch(l.b, l.from)
    [] l.a = "DeleteBranch" -> DeleteBranch(l.b)
    [] l.a = "Tag" -> Tag(l.t, l.b)
    [] l.a = "Reset" -> Reset(l.b)
    [] l.a = "SetCfg" -> SetCfg(l.v)
    [] l.a = "RemoteDown" -> RemoteDown
    [] l.a = "RemoteUp" -> RemoteUp

\* the ref a label writes and the value it gets, for the warning flag of the projection
PWarned(l) ==
  CASE l.a = "Commit" -> Warned(BRef(l.b), nextC)
    [] l.a = "CreateBranch" -> Warned(BRef(l.b), local[BRef(l.from)])
    [] l.a = "DeleteBranch" -> HookResult(BRef(l.b), Absent, TRUE).warned
    [] l.a = "Tag" -> Warned(TRef(l.t), local[BRef(l.b)])
    [] l.a = "Reset" -> Warned(BRef(l.b), parent[local[BRef(l.b)]])
    [] OTHER -> FALSE

\* projection after a primary step; the remote is only observable while it is reachable
PProj(l, loc, rem, u) ==
  IF u THEN [res |-> "ok", warned |-> PWarned(l), local |-> Heads(loc), remote |-> Heads(rem)]
       ELSE [res |-> "ok", warned |-> PWarned(l), local |-> Heads(loc)]

PNext == \E l \in PLabels :
           /\ PStep(l)
           /\ hist' = IF RecordHist THEN Append(hist, [a |-> l.a, args |-> l, exp |-> PProj(l, local', remote', up')]) ELSE hist

PSpecInit == PInit /\ hist = <<>>
PSpec == PSpecInit /\ [][PNext]_<<pvars, hist>>
\* remoteHad is history that only ReadReplica's invariant reads
pview == <<local, remote, parent, nextC, cfg, up, unrepl, silent, hookRemote, hookDest, staleDestUsed>>

\* ------------------------------------------------------------------ properties
PTypeOK == /\ \A r \in Refs : local[r] \in {Absent} \cup 0..MaxCommit /\ remote[r] \in {Absent} \cup 0..MaxCommit
           /\ nextC \in 1..(MaxCommit + 1) /\ unrepl \subseteq Refs

\* every successful commit is present on the remote when the statement returns, or a warning was raised
\* (or replication was switched off at that moment)
NoSilentLossStrict == /\ silent = {}
                      /\ \A r \in Refs : remote[r] # local[r] => r \in unrepl
NoSilentLoss == staleDestUsed \/ NoSilentLossStrict

\* the remote only ever holds values the primary's ref had
RemoteHeadsWereLocal == \A r \in Refs : remote[r] = Absent \/ remote[r] < nextC

\* generator constraint: behaviours on which the code and the repaired hook agree
NoStaleC == ~staleDestUsed

CfgGood == cfg = "good"

PEmit == Len(hist) < D \/ PrintT(ToJson(hist))
=============================================================================
