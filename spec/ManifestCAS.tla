--------------------------- MODULE ManifestCAS ---------------------------
(* Root commit of a NomsBlockStore as an optimistic compare-and-swap on the manifest
   (go/store/nbs/store.go commit/updateManifest, file_manifest.go Update/updateWithChecker,
   manifest.go generateLockHash, table_set.go append/rebase/flatten/toSpecs).

   N store instances (NomsBlockStore objects: goroutines of one process or separate processes)
   share ONE directory.  Shared state: the manifest file `man`, the table files `files`, the LOCK
   file `holder`.  Everything else is private to an instance and protected by its nbs.mu, which is
   held for a whole public call - therefore an instance executes one call at a time (pc[i]).

   A table file is named by a hash over its chunk index, which records the chunks in the order they
   were put into the memtable: a table IS its duplicate-free SEQUENCE of chunk addresses (two
   instances that put the same chunks in a different order write two different files); <<>> stands
   for emptyChunkSource (every chunk of the memtable was already present in a table of the instance).  The manifest lock hash is a pure function of
   (root, specs) (generateLockHash), so "lock equal" is modelled as equality of manifest contents.
   A root is the address of a chunk (errorIfDangling demands the root chunk be present) or None.

   One action per critical section / gate of the code.  A public call is split
       XCall  ->  internal steps (each one touches shared state at most once)  ->  XRet
   so that (G) a driver can replay TLC-chosen interleavings by opening one gate per step and
   (T) TraceManifestCAS.tla can search linearization points between logged call/return events.

   Commit(cur,last) as the code does it (store.go:1570-1725):
     CommitCall          same-root short cut?  last # upstream.root => false at once
     FlushMemtable       tables.append: memtable -> table file (minus chunks already in tables) -> novel
     ErrorIfDangling     root chunk must be in novel/upstream tables unless cached in hasCache
     UpdLock             fileManifest.Update: take dir/LOCK (UpdLockTimeout: 100 ms timeout => error)
     UpdCAS              under LOCK: read manifest, compare lock hashes, checkNewSpecsPresent, rename
     UpdUnlock           directory fsync, release LOCK (a step of its own when SplitUnlock)
     CommitFinish        Update returned our contents: flatten novel into upstream, return true
     HandleOLF           Update returned other contents: rebase; root moved => false; tables changed => retry
   Named deviations of the code from an ideal CAS register (modelled, not smoothed over):
     CommitSameRootNoCAS   cur = last and nothing novel: rebase, return true without any CAS (store.go:1588)
     CommitAlreadyApplied  CAS lost, but the manifest now holds exactly the contents we proposed
                           (same root, same table set => same lock hash): treated as success
                           (store.go:1711 compares newContents.lock with the returned lock only).
*)
EXTENDS Integers, Sequences, FiniteSets, TLC, Json

CONSTANTS Inst,          \* store instances, e.g. {"i1","i2"}
          Addr,          \* chunk addresses, e.g. {"a1","a2"}
          None,          \* the empty root hash, "none"
          MaxCommits, MaxPuts, MaxReopens, MaxRebases,   \* bounds on calls (totals)
          MemCap,        \* memtable capacity in chunks (Put flushes a full memtable first)
          LockTimeouts,  \* TRUE: model tryFileLock timing out while another instance holds LOCK
          SplitUnlock,   \* TRUE: releasing LOCK is a step of its own after the manifest rename (see UpdCAS)
          D, RecordHist  \* behaviour length for emission; FALSE in exhaustive configs

VARIABLES man,      \* persisted manifest [ex, root, specs]
          files,    \* table files present in the directory (set of nonempty tables)
          holder,   \* instance holding dir/LOCK, or None
          mem,      \* [Inst -> duplicate-free sequence of Addr]  memtable, in insertion order
          novel,    \* [Inst -> set of tables] tables written by the instance, not yet in a manifest it saw
          up,       \* [Inst -> manifest contents] nbs.upstream (tables.upstream = up.specs)
          hasCache, \* [Inst -> SUBSET Addr]
          pc, op, cur, last, ret, res, changed, via,
          pending,  \* [Inst -> SUBSET Addr] chunks Put by the instance and not yet covered by an acknowledged commit
          durable,  \* chunks covered by an acknowledged commit: must stay readable by every opener
          nCommits, nPuts, nReopens, nRebases,
          hist

svars == <<man, files, holder>>
ivars == <<mem, novel, up, hasCache, pc, op, cur, last, ret, res, changed, via>>
ovars == <<pending, durable>>
cvars == <<nCommits, nPuts, nReopens, nRebases>>
vars == <<svars, ivars, ovars, cvars, hist>>
view == <<svars, ivars, ovars, cvars>>

Range(t) == {t[k] : k \in 1..Len(t)}
IsTable(t) == t \in Seq(Addr) /\ \A j, k \in 1..Len(t) : j # k => t[j] # t[k]
Empty == <<>>
Root == Addr \cup {None}
NoMan == [ex |-> FALSE, root |-> None, specs |-> {}]
IsManifest(m) == /\ m.ex \in BOOLEAN /\ m.root \in Root /\ \A t \in m.specs : IsTable(t) /\ t # Empty

ChunksOf(S) == UNION {Range(t) : t \in S}
TableChunks(i) == ChunksOf(novel[i]) \cup ChunksOf(up[i].specs)
Vis(i) == Range(mem[i]) \cup TableChunks(i)
\* tables.toSpecs(): novel tables with count > 0 plus upstream
ToSpecs(i) == (novel[i] \ {Empty}) \cup up[i].specs
NewContents(i) == [ex |-> TRUE, root |-> cur[i], specs |-> ToSpecs(i)]
AnyNovel(i) == mem[i] # Empty \/ novel[i] # {}

PCs == {"idle", "sr", "flush", "dangling", "upd", "locked", "unl_ok", "unl_stale", "unl_err", "ret_ok", "ret_stale", "rebase", "reopen", "done"}
Results == {"none", "true", "false", "ok", "err_dangling", "err_locktimeout", "err_missing"}

\* ------------------------------------------------------------------ history (hidden by VIEW)
Proj == [man |-> man', files |-> files', holder |-> holder',
         inst |-> [i \in Inst |-> [pc |-> pc'[i], root |-> up'[i].root, upspecs |-> up'[i].specs,
                                   novel |-> novel'[i], mem |-> mem'[i], vis |-> Range(mem'[i]) \cup ChunksOf(novel'[i]) \cup ChunksOf(up'[i].specs),
                                   res |-> res'[i], via |-> via'[i]]],
         durable |-> durable']
Rec(a, i, args) == IF RecordHist THEN Append(hist, [a |-> a, i |-> i, args |-> args, exp |-> Proj]) ELSE hist

\* ------------------------------------------------------------------ initial state: empty directory, every instance freshly opened
Init == /\ man = NoMan /\ files = {} /\ holder = None
        /\ mem = [i \in Inst |-> Empty] /\ novel = [i \in Inst |-> {}] /\ up = [i \in Inst |-> NoMan]
        /\ hasCache = [i \in Inst |-> {}]
        /\ pc = [i \in Inst |-> "idle"] /\ op = [i \in Inst |-> "none"]
        /\ cur = [i \in Inst |-> None] /\ last = [i \in Inst |-> None]
        /\ ret = [i \in Inst |-> NoMan] /\ res = [i \in Inst |-> "none"]
        /\ changed = [i \in Inst |-> FALSE] /\ via = [i \in Inst |-> "none"]
        /\ pending = [i \in Inst |-> {}] /\ durable = {}
        /\ nCommits = 0 /\ nPuts = 0 /\ nReopens = 0 /\ nRebases = 0
        /\ hist = <<>>

\* memtable -> table: chunks already present in a table of this instance are dropped (mt.write with haver);
\* the others are written in insertion order
FlushedTable(i) == SelectSeq(mem[i], LAMBDA a : a \notin TableChunks(i))

\* ------------------------------------------------------------------ Put (atomic under nbs.mu; store.go addChunk)
Put(i, a) ==
    /\ pc[i] = "idle" /\ nPuts < MaxPuts
    /\ nPuts' = nPuts + 1
    /\ LET full == a \notin Range(mem[i]) /\ Len(mem[i]) + 1 > MemCap
           t == FlushedTable(i)
       IN IF full
          THEN /\ novel' = [novel EXCEPT ![i] = @ \cup {t}]
               /\ files' = IF t = Empty THEN files ELSE files \cup {t}
               /\ mem' = [mem EXCEPT ![i] = <<a>>]
          ELSE /\ mem' = [mem EXCEPT ![i] = IF a \in Range(@) THEN @ ELSE Append(@, a)]
               /\ UNCHANGED <<novel, files>>
    /\ pending' = [pending EXCEPT ![i] = @ \cup {a}]
    /\ UNCHANGED <<man, holder, up, hasCache, pc, op, cur, last, ret, res, changed, via, durable, nCommits, nReopens, nRebases>>
    /\ hist' = Rec("Put", i, [addr |-> a])

\* ------------------------------------------------------------------ Commit
\* where the commit goes after the memtable is flushed (or was empty)
AfterFlush(i, c, hc) == IF c # None /\ c \notin hc THEN "dangling" ELSE "upd"

CommitCall(i, c, l) ==
    /\ pc[i] = "idle" /\ nCommits < MaxCommits
    /\ nCommits' = nCommits + 1
    /\ cur' = [cur EXCEPT ![i] = c] /\ last' = [last EXCEPT ![i] = l]
    /\ op' = [op EXCEPT ![i] = "commit"]
    /\ changed' = [changed EXCEPT ![i] = FALSE] /\ via' = [via EXCEPT ![i] = "none"]
    /\ IF ~AnyNovel(i) /\ c = l
       THEN pc' = [pc EXCEPT ![i] = "sr"] /\ res' = [res EXCEPT ![i] = "none"]
       ELSE IF up[i].root # l
            THEN pc' = [pc EXCEPT ![i] = "done"] /\ res' = [res EXCEPT ![i] = "false"]      \* errLastRootMismatch
            ELSE /\ res' = [res EXCEPT ![i] = "none"]
                 /\ pc' = [pc EXCEPT ![i] = IF mem[i] # Empty THEN "flush" ELSE AfterFlush(i, c, hasCache[i])]
    /\ UNCHANGED <<man, files, holder, mem, novel, up, hasCache, ret, pending, durable, nPuts, nReopens, nRebases>>
    /\ hist' = Rec("CommitCall", i, [cur |-> c, last |-> l])

\* named deviation: store.go:1588
CommitSameRootNoCAS(i) ==
    /\ pc[i] = "sr"
    /\ up' = [up EXCEPT ![i] = IF man.ex THEN man ELSE @]
    /\ pc' = [pc EXCEPT ![i] = "done"] /\ res' = [res EXCEPT ![i] = "true"] /\ via' = [via EXCEPT ![i] = "sameroot"]
    /\ UNCHANGED <<man, files, holder, mem, novel, hasCache, op, cur, last, ret, changed, pending, durable, cvars>>
    /\ hist' = Rec("CommitSameRootNoCAS", i, <<>>)

FlushMemtable(i) ==
    /\ pc[i] = "flush"
    /\ LET t == FlushedTable(i)
       IN /\ novel' = [novel EXCEPT ![i] = @ \cup {t}]
          /\ files' = IF t = Empty THEN files ELSE files \cup {t}
    /\ mem' = [mem EXCEPT ![i] = Empty]
    /\ pc' = [pc EXCEPT ![i] = AfterFlush(i, cur[i], hasCache[i])]
    /\ UNCHANGED <<man, holder, up, hasCache, op, cur, last, ret, res, changed, via, pending, durable, cvars>>
    /\ hist' = Rec("FlushMemtable", i, <<>>)

ErrorIfDangling(i) ==
    /\ pc[i] = "dangling"
    /\ IF cur[i] \in TableChunks(i)
       THEN /\ hasCache' = [hasCache EXCEPT ![i] = @ \cup {cur[i]}]
            /\ pc' = [pc EXCEPT ![i] = "upd"] /\ UNCHANGED res
       ELSE /\ pc' = [pc EXCEPT ![i] = "done"] /\ res' = [res EXCEPT ![i] = "err_dangling"]
            /\ UNCHANGED hasCache
    /\ UNCHANGED <<man, files, holder, mem, novel, up, op, cur, last, ret, changed, via, pending, durable, cvars>>
    /\ hist' = Rec("ErrorIfDangling", i, <<>>)

\* fileManifest.Update: tryFileLock + temp manifest written (the temp file is not modelled here, see ManifestFS.tla)
UpdLock(i) ==
    /\ pc[i] = "upd" /\ holder = None
    /\ holder' = i
    /\ pc' = [pc EXCEPT ![i] = "locked"]
    /\ UNCHANGED <<man, files, mem, novel, up, hasCache, op, cur, last, ret, res, changed, via, pending, durable, cvars>>
    /\ hist' = Rec("UpdLock", i, <<>>)

\* fault: LOCK held by another instance for longer than lockFileTimeout => Commit returns an error
UpdLockTimeout(i) ==
    /\ LockTimeouts
    /\ pc[i] = "upd" /\ holder # None /\ holder # i
    /\ pc' = [pc EXCEPT ![i] = "done"] /\ res' = [res EXCEPT ![i] = "err_locktimeout"]
    /\ UNCHANGED <<man, files, holder, mem, novel, up, hasCache, op, cur, last, ret, changed, via, pending, durable, cvars>>
    /\ hist' = Rec("UpdLockTimeout", i, <<>>)

\* updateWithChecker under LOCK: read upstream; lastLock # upstream.lock => return upstream;
\* validate (checkNewSpecsPresent); rename.  THE linearization point of a root commit.
\* The new manifest is visible to readers from the rename on, but dir/LOCK is released only after the
\* directory fsync (file_manifest.go:586 and the deferred Unlock in Update): with SplitUnlock the release
\* is the separate step UpdUnlock (other instances can time out on LOCK although the manifest already moved);
\* without it (gated replay has no seam between rename and unlock) both happen in one step.
AfterCAS(p) == IF SplitUnlock THEN "unl_" \o p ELSE IF p = "err" THEN "done" ELSE "ret_" \o p
UpdCAS(i) ==
    /\ pc[i] = "locked" /\ holder = i
    /\ holder' = IF SplitUnlock THEN holder ELSE None
    /\ LET nc == NewContents(i)
       IN IF up[i] = man
          THEN IF (nc.specs \ man.specs) \subseteq files
               THEN /\ man' = nc
                    /\ changed' = [changed EXCEPT ![i] = TRUE]
                    /\ pc' = [pc EXCEPT ![i] = AfterCAS("ok")]
                    /\ UNCHANGED <<ret, res>>
               ELSE /\ pc' = [pc EXCEPT ![i] = AfterCAS("err")] /\ res' = [res EXCEPT ![i] = "err_missing"]   \* ErrManifestSpecMissingTableFile
                    /\ UNCHANGED <<man, changed, ret>>
          ELSE /\ ret' = [ret EXCEPT ![i] = man]
               /\ pc' = [pc EXCEPT ![i] = AfterCAS("stale")]
               /\ UNCHANGED <<man, changed, res>>
    /\ UNCHANGED <<files, mem, novel, up, hasCache, op, cur, last, via, pending, durable, cvars>>
    /\ hist' = Rec("UpdCAS", i, <<>>)

\* directory fsync done, deferred fm.lock.Unlock()
UpdUnlock(i) ==
    /\ pc[i] \in {"unl_ok", "unl_stale", "unl_err"} /\ holder = i
    /\ holder' = None
    /\ pc' = [pc EXCEPT ![i] = CASE pc[i] = "unl_ok" -> "ret_ok" [] pc[i] = "unl_stale" -> "ret_stale" [] OTHER -> "done"]
    /\ UNCHANGED <<man, files, mem, novel, up, hasCache, op, cur, last, ret, res, changed, via, pending, durable, cvars>>
    /\ hist' = Rec("UpdUnlock", i, <<>>)

\* Update returned the contents we proposed: tables.flatten, upstream = newContents
CommitFinish(i) ==
    /\ pc[i] = "ret_ok"
    /\ up' = [up EXCEPT ![i] = NewContents(i)]
    /\ novel' = [novel EXCEPT ![i] = {}]
    /\ pc' = [pc EXCEPT ![i] = "done"] /\ res' = [res EXCEPT ![i] = "true"] /\ via' = [via EXCEPT ![i] = "cas"]
    /\ UNCHANGED <<man, files, holder, mem, hasCache, op, cur, last, ret, changed, pending, durable, cvars>>
    /\ hist' = Rec("CommitFinish", i, <<>>)

\* Update returned somebody else's contents
HandleOLF(i) ==
    /\ pc[i] = "ret_stale"
    /\ IF ret[i] = NewContents(i)
       THEN \* named deviation CommitAlreadyApplied: returned lock = proposed lock => success path
            /\ up' = [up EXCEPT ![i] = NewContents(i)]
            /\ novel' = [novel EXCEPT ![i] = {}]
            /\ pc' = [pc EXCEPT ![i] = "done"] /\ res' = [res EXCEPT ![i] = "true"] /\ via' = [via EXCEPT ![i] = "already"]
       ELSE \* handleOptimisticLockFailure: tables.rebase keeps the non-empty novel tables
            /\ up' = [up EXCEPT ![i] = ret[i]]
            /\ novel' = [novel EXCEPT ![i] = @ \ {Empty}]
            /\ UNCHANGED via
            /\ IF last[i] # ret[i].root
               THEN pc' = [pc EXCEPT ![i] = "done"] /\ res' = [res EXCEPT ![i] = "false"]       \* root moved
               ELSE pc' = [pc EXCEPT ![i] = AfterFlush(i, cur[i], hasCache[i])] /\ UNCHANGED res \* tables changed: retry
    /\ UNCHANGED <<man, files, holder, mem, hasCache, op, cur, last, ret, changed, pending, durable, cvars>>
    /\ hist' = Rec("HandleOLF", i, <<>>)

\* ------------------------------------------------------------------ Rebase
RebaseCall(i) ==
    /\ pc[i] = "idle" /\ nRebases < MaxRebases
    /\ nRebases' = nRebases + 1
    /\ pc' = [pc EXCEPT ![i] = "rebase"] /\ op' = [op EXCEPT ![i] = "rebase"]
    /\ res' = [res EXCEPT ![i] = "none"] /\ via' = [via EXCEPT ![i] = "none"]
    /\ UNCHANGED <<man, files, holder, mem, novel, up, hasCache, cur, last, ret, changed, pending, durable, nCommits, nPuts, nReopens>>
    /\ hist' = Rec("RebaseCall", i, <<>>)

RebaseRead(i) ==
    /\ pc[i] = "rebase"
    /\ up' = [up EXCEPT ![i] = IF man.ex THEN man ELSE @]
    /\ novel' = [novel EXCEPT ![i] = IF man.ex /\ man # up[i] THEN @ \ {Empty} ELSE @]
    /\ pc' = [pc EXCEPT ![i] = "done"] /\ res' = [res EXCEPT ![i] = "ok"]
    /\ UNCHANGED <<man, files, holder, mem, hasCache, op, cur, last, ret, changed, via, pending, durable, cvars>>
    /\ hist' = Rec("RebaseRead", i, <<>>)

\* ------------------------------------------------------------------ Reopen: Close() + open a fresh store on the directory
ReopenCall(i) ==
    /\ pc[i] = "idle" /\ nReopens < MaxReopens
    /\ nReopens' = nReopens + 1
    /\ mem' = [mem EXCEPT ![i] = Empty] /\ novel' = [novel EXCEPT ![i] = {}]
    /\ hasCache' = [hasCache EXCEPT ![i] = {}] /\ up' = [up EXCEPT ![i] = NoMan]
    /\ pending' = [pending EXCEPT ![i] = {}]           \* unacknowledged writes may be lost
    /\ pc' = [pc EXCEPT ![i] = "reopen"] /\ op' = [op EXCEPT ![i] = "reopen"]
    /\ res' = [res EXCEPT ![i] = "none"] /\ via' = [via EXCEPT ![i] = "none"]
    /\ UNCHANGED <<man, files, holder, cur, last, ret, changed, durable, nCommits, nPuts, nRebases>>
    /\ hist' = Rec("ReopenCall", i, <<>>)

ReopenRead(i) ==
    /\ pc[i] = "reopen"
    /\ up' = [up EXCEPT ![i] = IF man.ex THEN man ELSE NoMan]
    /\ pc' = [pc EXCEPT ![i] = "done"] /\ res' = [res EXCEPT ![i] = "ok"]
    /\ UNCHANGED <<man, files, holder, mem, novel, hasCache, op, cur, last, ret, changed, via, pending, durable, cvars>>
    /\ hist' = Rec("ReopenRead", i, <<>>)

\* ------------------------------------------------------------------ return of any call; an acknowledged commit makes the caller's writes durable
Return(i) ==
    /\ pc[i] = "done"
    /\ pc' = [pc EXCEPT ![i] = "idle"]
    /\ IF op[i] = "commit" /\ res[i] = "true"
       THEN durable' = durable \cup pending[i] /\ pending' = [pending EXCEPT ![i] = {}]
       ELSE UNCHANGED <<durable, pending>>
    /\ UNCHANGED <<man, files, holder, mem, novel, up, hasCache, op, cur, last, ret, res, changed, via, cvars>>
    /\ hist' = Rec("Return", i, [op |-> op[i], res |-> res[i]])

\* `last` values that matter: what the instance believes, what is persisted, the empty root (any other value behaves like a mismatch)
LastChoices(i) == {up[i].root, man.root, None}

Internal(i) == \/ CommitSameRootNoCAS(i) \/ FlushMemtable(i) \/ ErrorIfDangling(i) \/ UpdLock(i) \/ UpdLockTimeout(i)
               \/ UpdCAS(i) \/ UpdUnlock(i) \/ CommitFinish(i) \/ HandleOLF(i) \/ RebaseRead(i) \/ ReopenRead(i)

Next == \E i \in Inst :
           \/ \E a \in Addr : Put(i, a)
           \/ \E c \in Root : \E l \in LastChoices(i) : CommitCall(i, c, l)
           \/ RebaseCall(i) \/ ReopenCall(i)
           \/ Internal(i)
           \/ Return(i)

Spec == Init /\ [][Next]_vars

\* generator variant (simulation only): commits that can succeed - the new root is a chunk the instance can see,
\* `last` is what the instance or the directory currently holds - so that instances race inside Update
\* (lost CAS, tables-changed retry, already-applied, LOCK timeout) instead of failing early.
NextRace == \E i \in Inst :
               \/ \E a \in Addr : Put(i, a)
               \/ \E c \in Vis(i) \cup {None} : \E l \in {up[i].root, man.root} : CommitCall(i, c, l)
               \/ RebaseCall(i)
               \/ Internal(i)
               \/ Return(i)

\* ------------------------------------------------------------------ what TLC checks on the model
TypeOK == /\ IsManifest(man) /\ (\A t \in files : IsTable(t) /\ t # Empty) /\ holder \in Inst \cup {None}
          /\ \A i \in Inst : /\ IsTable(mem[i]) /\ (\A t \in novel[i] : IsTable(t)) /\ IsManifest(up[i])
                             /\ pc[i] \in PCs /\ res[i] \in Results /\ IsManifest(ret[i])
                             /\ Len(mem[i]) <= MemCap

\* C02: every chunk written before an acknowledged commit is readable by whoever opens the directory now
\* (Reopen reads `man`; the files it names must exist), for every interleaving and any later reopen.
AckedCommitVisibleAfterReopen ==
    /\ durable \subseteq ChunksOf(man.specs)
    /\ man.specs \subseteq files

\* an instance's own upstream tables always exist on disk too (it has them open)
UpstreamFilesExist == \A i \in Inst : up[i].specs \subseteq files /\ (novel[i] \ {Empty}) \subseteq files

\* LOCK is held exactly while an instance is between UpdLock and the unlock
LockDiscipline == \A i \in Inst : (holder = i) <=> (pc[i] \in {"locked", "unl_ok", "unl_stale", "unl_err"})

\* A commit that reports failure (false or error) has not changed the manifest during the call;
\* a commit that reports success either installed its root by CAS or took a named deviation that changes nothing.
FailedCommitChangesNothing ==
    \A i \in Inst : (pc[i] = "done" /\ op[i] = "commit") =>
        /\ (res[i] # "true" => ~changed[i])
        /\ (res[i] = "true" => (changed[i] <=> via[i] = "cas"))
        /\ (res[i] = "true" /\ via[i] = "already" => man.ex /\ up[i].root = cur[i])

\* action properties -------------------------------------------------
\* the manifest changes only at a CAS step of an instance whose expected previous root is the persisted root,
\* and it then carries exactly that instance's proposed root and tables (old tables are never dropped).
CASStep(i) == pc[i] = "locked" /\ pc'[i] \in {"ret_ok", "unl_ok"}
RootHistoryIsChain ==
    [][man' # man => \E i \in Inst : /\ CASStep(i)
                                     /\ man.root = last[i]
                                     /\ man'.root = cur[i]
                                     /\ man.specs \subseteq man'.specs
                                     /\ ChunksOf(novel[i]) \subseteq ChunksOf(man'.specs)]_vars
\* no step other than a successful CAS changes the persisted manifest (in particular no failing commit step does)
OnlyCASChangesManifest == [][(\A i \in Inst : ~CASStep(i)) => man' = man]_vars
\* the persisted chunk set only grows (no GC in this spec)
PersistedChunksMonotone == [][ChunksOf(man.specs) \subseteq ChunksOf(man'.specs)]_vars

\* emission of finished behaviours in simulation mode
Emit == Len(hist) < D \/ PrintT(ToJson(hist))
=============================================================================
