------------------------------- MODULE Txn -------------------------------
(* SQL transactions of a dolt sql-server: K sessions on one database with several branches.

   Code modelled (go/libraries/doltcore/sqle/dsess):
     session.go       DoltSession.StartTransaction   snapshot of the noms root (= every branch head + working set)
                      DoltSession.CommitTransaction  dirty working sets: none -> no-op, >1 -> ErrDirtyWorkingSets,
                                                     @@dolt_transaction_commit -> stage all + DoltCommit
                      DoltSession.Rollback / clear, SetWorkingSet (dirty flag), SwitchWorkingSet (dolt_checkout),
                      CreateSavepoint / RollbackToSavepoint / ReleaseSavepoint
     transactions.go  DoltTransaction.doCommit       under the per-(db,working set) TxLock: read the persisted working
                                                     set; working+staged roots equal to the start state -> fast-forward,
                                                     else mergeRoots (three-way, cell-wise, ancestor = start state, ours =
                                                     persisted, theirs = session) for the working AND the staged root;
                                                     validateWorkingSetForCommit: conflict -> rollback + retryable error;
                                                     write with CAS on the working-set hash (retry loop)
                      doltCommit                     commit = staged root; if the branch head moved since the transaction
                                                     began the current head root is merged into the staged root first
   and the go-mysql-server statement loop around it (engine.go beginTransaction before every statement;
   rowexec.TransactionCommittingIter: commit after the statement when @@autocommit and not inside START TRANSACTION;
   buildStartTransaction commits a pending transaction first).

   One action = one SQL statement of one session (statement-granular interleavings are exactly what a driver that
   issues one statement at a time can realise). Persisted state = per branch the working root w, staged root s, head
   root h and the number of dolt commits n.  A table is [Rows -> row | Absent], a row is a tuple of NC cells.

   Properties (C22): RepeatableRead, NoDirtyRead, OtherCommitsInvisibleUntilNewTxn;
              (C23): NoLostCommittedChange + CommittedChangesApplied (= FinalStateIsMergeOfCommitted, per step),
                     FailedTxnLeavesNoTrace, DoltCommitIsStaged.
   They are stated on cells and snapshots and do NOT mention Merge3; TLC checks that the Merge3-based commit rule of the
   code satisfies them.

   Deliberate reading (constant StagedConflict = "retry"): a conflict in the merge of the STAGED root or of the moved HEAD
   is treated like a conflict in the working root (retryable error, rollback).  The code checks only the working root
   (validateWorkingSetForCommit: "TODO: should this validate staged as well?") and keeps "ours" for the conflicting row:
   StagedConflict = "ours" is that former behaviour as a named deviation, kept only for the negative control
   c23_neg_staged_ours.cfg (with it TLC reports StagedMerged violated -- a dolt commit that silently lacks some of the
   committing session's own changes).  Fixed in dolt by commit 5aeba12; every config that describes the code uses "retry".

   C24 hook: UniqueCols is the set of columns carrying a UNIQUE index ({} in the C22/C23 configs): statement-level
   duplicate checks and the commit-time violation outcome ("constraint") are already in place. *)
EXTENDS Integers, Sequences, FiniteSets, TLC, Json

CONSTANTS Sessions,     \* e.g. {"s1","s2"}
          Branches,     \* e.g. {"main","b1"}
          Main,         \* the branch every session starts on
          Rows,         \* primary keys (integers)
          NC,           \* number of non-key columns
          Vals,         \* cell values (integers >= 0)
          UniqueCols,   \* columns with a UNIQUE index (C24 hook)
          InitRowSets,  \* set of subsets of Rows: candidate sets of initially present rows
          ACs,          \* candidate initial autocommit settings, subset of BOOLEAN
          StagedConflict, \* "retry": a conflict while merging the staged root / a moved head rolls the transaction back (the reading
                          \* of C23 used for expectations); "ours": named deviation StagedConflictKeepsOurs = what the code does:
                          \* the conflicting ROW silently keeps the persisted ("ours") value and the commit succeeds
          MaxN,         \* exhaustive bound on dolt commits per branch (everything else is finite by itself)
          Acts,         \* enabled statement kinds (exhaustive configs split the families to stay bounded)
          WBranches,    \* branches that data statements may target
          Wt,           \* simulation weights: action kind -> n, the kind is offered in one state out of n (cfg: Wt <- WtMix)
          Sim,          \* TRUE: draw statement parameters with RandomElement (simulation), FALSE: all parameters
          D, RecordHist

VARIABLES store,   \* [Branches -> [w, s, h: Table, n: Nat]]  persisted
          sess,    \* [Sessions -> session record]
          last,    \* outcome of the last statement (observation only; hidden by VIEW, read primed only)
          hist

vars == <<store, sess, last, hist>>
view == <<store, sess>>

Absent == <<>>
RowVals == [1..NC -> Vals]
Table == [Rows -> RowVals \cup {Absent}]
Pres(row) == row # Absent
\* cell 0 = presence of the row
Cell(row, i) == IF i = 0 THEN (IF row = Absent THEN 0 ELSE 1) ELSE IF row = Absent THEN -1 ELSE row[i]

\* ------------------------------------------------------------------ three-way merge (merge.MergeRoots, cell-wise)
M3Row(a, o, t) ==
    IF t = a THEN [v |-> o, c |-> FALSE]
    ELSE IF o = a THEN [v |-> t, c |-> FALSE]
    ELSE IF o = t THEN [v |-> o, c |-> FALSE]
    ELSE IF a = Absent \/ o = Absent \/ t = Absent THEN [v |-> o, c |-> TRUE]     \* insert/insert, delete/modify
    ELSE IF \E i \in 1..NC : o[i] # a[i] /\ t[i] # a[i] /\ o[i] # t[i] THEN [v |-> o, c |-> TRUE]
    ELSE [v |-> [i \in 1..NC |-> IF t[i] # a[i] THEN t[i] ELSE o[i]], c |-> FALSE]

M3(a, o, t) == [t |-> [r \in Rows |-> M3Row(a[r], o[r], t[r]).v], c |-> \E r \in Rows : M3Row(a[r], o[r], t[r]).c]

UniqViol(tab) == \E r1, r2 \in Rows : r1 < r2 /\ Pres(tab[r1]) /\ Pres(tab[r2]) /\ \E i \in UniqueCols : tab[r1][i] = tab[r2][i]
UniqClash(tab, r, row) == \E r2 \in Rows \ {r} : Pres(tab[r2]) /\ \E i \in UniqueCols : tab[r2][i] = row[i]

\* ------------------------------------------------------------------ state
MinVal == CHOOSE v \in Vals : \A w \in Vals : v <= w
InitTable(P) == [r \in Rows |-> IF r \in P THEN [i \in 1..NC |-> MinVal] ELSE Absent]
BR(t) == [w |-> t, s |-> t, h |-> t, n |-> 0]
NilStore == [b \in Branches |-> BR(InitTable({}))]
NoSp == [b |-> "none", t |-> InitTable({})]

TRows(t) == LET P == {r \in Rows : Pres(t[r])}
                RECURSIVE Srt(_)
                Srt(S) == IF S = {} THEN <<>> ELSE LET m == CHOOSE x \in S : \A y \in S : x <= y IN <<<<m>> \o t[m]>> \o Srt(S \ {m})
            IN Srt(P)
BRProj(br) == [w |-> TRows(br.w), s |-> TRows(br.s), h |-> TRows(br.h), n |-> br.n]
StoreProj(st) == [b \in Branches |-> BRProj(st[b])]

Init == /\ \E P \in InitRowSets : store = [b \in Branches |-> BR(InitTable(P))]
        /\ \E f \in [Sessions -> ACs] :
             sess = [s \in Sessions |-> [txn |-> "none", expl |-> FALSE, ac |-> f[s], tc |-> FALSE, co |-> Main, usedb |-> "base",
                                          snap |-> NilStore, mine |-> NilStore, dirty |-> {}, sp |-> NoSp]]
        /\ last = [s |-> "none", a |-> "Init", res |-> "ok", att |-> FALSE]
        /\ hist = IF RecordHist THEN <<[a |-> "Init", s |-> "none", args |-> [ac |-> [s \in Sessions |-> sess[s].ac]],
                                        exp |-> [res |-> "ok", out |-> <<>>, store |-> StoreProj(store)]]>> ELSE <<>>

Open(s) == sess[s].txn = "open"
\* every statement begins a transaction when none is active (engine.go beginTransaction): snapshot of the store
Snap(s) == IF Open(s) THEN sess[s].snap ELSE store
Mine(s) == IF Open(s) THEN sess[s].mine ELSE store
Dirty(s) == IF Open(s) THEN sess[s].dirty ELSE {}
Sp(s) == IF Open(s) THEN sess[s].sp ELSE NoSp
EffOf(rec) == IF rec.usedb = "base" THEN rec.co ELSE rec.usedb
Eff(s) == EffOf(sess[s])

\* ------------------------------------------------------------------ DoltTransaction.doCommit
(* start = working set of the branch at the transaction's start root, cur = persisted now (read under the TxLock),
   myw/mys = the session's working and staged roots, dolt = a dolt commit is created too, myh = head root the
   session saw.  Fast-forward when cur equals start (working and staged); otherwise each root whose persisted value
   differs from the session's is merged three-way.  doltCommit: a moved head is merged into the staged root
   (ancestor = head at transaction start), the commit's root is the staged root. *)
DoCommit(sn, b, myw, mys, dolt, myh) ==
    LET start == sn[b]
        cur == store[b]
        ff == cur.w = start.w /\ cur.s = start.s
        mw == IF ff \/ cur.w = myw THEN [t |-> myw, c |-> FALSE] ELSE M3(start.w, cur.w, myw)
        ms == IF ff \/ cur.s = mys THEN [t |-> mys, c |-> FALSE] ELSE M3(start.s, cur.s, mys)
        hm == IF dolt /\ cur.h # myh THEN M3(myh, ms.t, cur.h) ELSE [t |-> ms.t, c |-> FALSE]
    IN [ff |-> ff, wconf |-> mw.c, sconf |-> ms.c \/ hm.c, viol |-> UniqViol(mw.t),
        nb |-> IF dolt THEN [w |-> mw.t, s |-> hm.t, h |-> hm.t, n |-> cur.n + 1]
                       ELSE [w |-> mw.t, s |-> ms.t, h |-> cur.h, n |-> cur.n]]

NoAtt == [att |-> FALSE]
\* outcome of doCommit for branch b: closed = the transaction is over (committed, or rolled back by the code)
CommitBranch(sn, b, myw, mys, dolt, myh) ==
    LET dc == DoCommit(sn, b, myw, mys, dolt, myh)
        res == IF dc.wconf \/ (dc.sconf /\ StagedConflict = "retry") THEN "retry" ELSE IF dc.viol THEN "constraint" ELSE "ok"
    IN [res |-> res, closed |-> TRUE, st |-> IF res = "ok" THEN [store EXCEPT ![b] = dc.nb] ELSE store,
        obs |-> [att |-> TRUE, cb |-> b, cs |-> sn[b].w, cm |-> myw, ss |-> sn[b].s, sm |-> mys, dolt |-> dolt,
                 ff |-> dc.ff, sconf |-> dc.sconf /\ ~dc.wconf]]

\* DoltSession.CommitTransaction for a session record rec (fields tc, co, usedb), snapshot sn, view m, dirty set d
CommitResult(rec, sn, m, d) ==
    IF d = {} THEN [res |-> "ok", closed |-> TRUE, st |-> store, obs |-> NoAtt]
    ELSE IF Cardinality(d) > 1 THEN [res |-> "dirty2", closed |-> FALSE, st |-> store, obs |-> NoAtt]
    ELSE LET b == CHOOSE x \in d : TRUE IN
         IF rec.tc /\ b # EffOf(rec) THEN [res |-> "nochanges", closed |-> FALSE, st |-> store, obs |-> NoAtt]  \* validateDoltCommit
         ELSE LET dolt == rec.tc /\ m[b].w # m[b].h   \* PendingCommitAllStaged: nothing to stage -> plain working-set commit
              IN CommitBranch(sn, b, m[b].w, IF dolt THEN m[b].w ELSE m[b].s, dolt, m[b].h)

\* ------------------------------------------------------------------ bookkeeping
Rec(a, s, args, exp) == IF RecordHist THEN Append(hist, [a |-> a, s |-> s, args |-> args, exp |-> exp]) ELSE hist

ClosedRec(rec, expl) == [rec EXCEPT !.txn = "none", !.expl = expl, !.snap = NilStore, !.mine = NilStore, !.dirty = {}, !.sp = NoSp]
OpenRec(rec, sn, m, d, sp) == [rec EXCEPT !.txn = "open", !.snap = sn, !.mine = m, !.dirty = d, !.sp = sp]

Finish(s, a, args, rec, st, res, out, obs) ==
    /\ sess' = [sess EXCEPT ![s] = rec]
    /\ store' = st
    /\ last' = [s |-> s, a |-> a, res |-> res, args |-> args, out |-> out] @@ obs
    /\ hist' = Rec(a, s, args, [res |-> res, out |-> out, store |-> StoreProj(st),
                                \* classification only (non-triviality counters, fingerprint of the staged-conflict finding)
                                att |-> obs.att, ff |-> IF obs.att THEN obs.ff ELSE TRUE, sconf |-> IF obs.att THEN obs.sconf ELSE FALSE])

(* An ordinary statement of session s (everything but START TRANSACTION / COMMIT / ROLLBACK / dolt_commit):
   rec0 = session record with the statement's changes to co/usedb/ac/tc applied, m2/d2/sp2 = view, dirty set and
   savepoint after the statement, sres = "ok" or the statement's own error class (then m2 = view before),
   op = 1 for a data-changing statement.  Afterwards TransactionCommittingIter commits when @@autocommit is on
   (value AFTER the statement) and the session is not inside START TRANSACTION. *)
Stmt(s, a, args, rec, m2, d2, sp2, sres, out, op) ==
    LET sn == Snap(s) IN
    IF rec.ac /\ ~rec.expl
    THEN LET cr == CommitResult(rec, sn, m2, d2) IN
         (* Not generated: a statement whose autocommit is refused (ErrDirtyWorkingSets, validateDoltCommit). What is left
            behind then -- an implicit transaction that lingers or is dropped depending on where go-mysql-server raised
            the error -- is connection handling outside C22/C23; the refusals themselves are exercised by COMMIT. *)
         /\ cr.closed
         /\ Finish(s, a, args, ClosedRec(rec, FALSE), cr.st, IF sres # "ok" THEN sres ELSE cr.res, out, cr.obs)
    ELSE Finish(s, a, args, OpenRec(rec, sn, m2, d2, sp2), store, sres, out, NoAtt)

Pick(S) == IF Sim THEN {RandomElement(S)} ELSE S

\* ------------------------------------------------------------------ data statements (C22: reads; C23: writes)
\* SELECT of the three roots and the commit count of branch b as this session sees them
Read(s, b) ==
    LET m == Mine(s) IN
    Stmt(s, "Read", [b |-> b, q |-> b # Eff(s), stale |-> m[b] # store[b]], sess[s], m, Dirty(s), Sp(s), "ok", BRProj(m[b]), 0)

\* UPDATE t SET c_i = v WHERE pk = r   (on the current branch, or on `db/b` when b is not the current branch)
Update(s, b, r, i, v) ==
    LET m == Mine(s)
        row == m[b].w[r]
        new == IF row = Absent \/ row[i] = v THEN row ELSE [row EXCEPT ![i] = v]
        clash == new # row /\ i \in UniqueCols /\ UniqClash(m[b].w, r, new)
        m2 == IF clash THEN m ELSE [m EXCEPT ![b].w[r] = new]
        d2 == IF new # row /\ ~clash THEN Dirty(s) \cup {b} ELSE Dirty(s)
    IN Stmt(s, "Update", [b |-> b, q |-> b # Eff(s), r |-> r, i |-> i, v |-> v], sess[s], m2, d2, Sp(s),
            IF clash THEN "dupuniq" ELSE "ok", [aff |-> IF new # row /\ ~clash THEN 1 ELSE 0], 1)

Insert(s, b, r, rv) ==
    LET m == Mine(s)
        row == m[b].w[r]
        err == IF Pres(row) THEN "dup" ELSE IF UniqClash(m[b].w, r, rv) THEN "dupuniq" ELSE "ok"
        m2 == IF err = "ok" THEN [m EXCEPT ![b].w[r] = rv] ELSE m
        d2 == IF err = "ok" THEN Dirty(s) \cup {b} ELSE Dirty(s)
    IN Stmt(s, "Insert", [b |-> b, q |-> b # Eff(s), r |-> r, row |-> rv], sess[s], m2, d2, Sp(s), err,
            [aff |-> IF err = "ok" THEN 1 ELSE 0], 1)

Delete(s, b, r) ==
    LET m == Mine(s)
        row == m[b].w[r]
        m2 == [m EXCEPT ![b].w[r] = Absent]
        d2 == IF Pres(row) THEN Dirty(s) \cup {b} ELSE Dirty(s)
    IN Stmt(s, "Delete", [b |-> b, q |-> b # Eff(s), r |-> r], sess[s], m2, d2, Sp(s), "ok", [aff |-> IF Pres(row) THEN 1 ELSE 0], 1)

\* ------------------------------------------------------------------ transaction control
\* START TRANSACTION: commits a pending transaction first (buildStartTransaction), then snapshots; autocommit is suspended
Begin(s) ==
    LET rec == sess[s]
        cr == CommitResult(rec, Snap(s), Mine(s), Dirty(s))
    IN IF cr.res = "ok"
       THEN Finish(s, "Begin", <<>>, OpenRec([rec EXCEPT !.expl = TRUE], cr.st, cr.st, {}, NoSp), cr.st, "ok", <<>>, cr.obs)
       ELSE IF cr.closed
       THEN Finish(s, "Begin", <<>>, ClosedRec(rec, FALSE), store, cr.res, <<>>, cr.obs)
       ELSE Finish(s, "Begin", <<>>, OpenRec(rec, Snap(s), Mine(s), Dirty(s), Sp(s)), store, cr.res, <<>>, cr.obs)

Commit(s) ==
    LET rec == sess[s]
        cr == CommitResult(rec, Snap(s), Mine(s), Dirty(s))
    IN IF cr.closed
       THEN Finish(s, "Commit", <<>>, ClosedRec(rec, FALSE), cr.st, cr.res, <<>>, cr.obs)
       ELSE Finish(s, "Commit", <<>>, OpenRec(rec, Snap(s), Mine(s), Dirty(s), Sp(s)), store, cr.res, <<>>, cr.obs)

Rollback(s) ==
    Finish(s, "Rollback", <<>>, ClosedRec(sess[s], FALSE), store, "ok", <<>>, NoAtt)

(* CALL dolt_commit('-a' | staged only): DoltSession.DoltCommit -> doCommit with the doltCommit write function.
   all: every modified table is staged first.  "nothing to commit" when the staged root equals the head root.
   Success ends the transaction (commitBranchState clears it) whatever the autocommit mode; the START TRANSACTION
   marker (IgnoreAutoCommit) is NOT reset by this path -- named deviation KeepExplAfterDoltCommit. Changes of the
   session to other branches are dropped with the transaction. *)
DoltCommit(s, all) ==
    LET b == Eff(s)
        m == Mine(s)
        mys == IF all THEN m[b].w ELSE m[b].s
        rec == sess[s]
    IN IF mys = m[b].h
       THEN \* "Nothing to commit. Finalize the transaction": CommitTransaction, then the error (dolt_commit.go)
            LET cr == CommitResult(rec, Snap(s), m, Dirty(s))
                res == IF cr.res = "ok" THEN "nothing" ELSE cr.res
            IN IF cr.closed
               THEN Finish(s, "DoltCommit", [all |-> all], ClosedRec(rec, IF cr.res = "ok" THEN rec.expl ELSE FALSE), cr.st, res, <<>>, cr.obs)
               ELSE Finish(s, "DoltCommit", [all |-> all], OpenRec(rec, Snap(s), m, Dirty(s), Sp(s)), store, res, <<>>, cr.obs)
       ELSE LET cr == CommitBranch(Snap(s), b, m[b].w, mys, TRUE, m[b].h) IN
            Finish(s, "DoltCommit", [all |-> all], ClosedRec(rec, IF cr.res = "ok" THEN rec.expl ELSE FALSE), cr.st, cr.res, <<>>, cr.obs)

\* CALL dolt_add('-A'): staged := working in the session (SetRoots marks the branch dirty)
DoltAdd(s) ==
    LET b == Eff(s)
        m == Mine(s)
    IN Stmt(s, "DoltAdd", <<>>, sess[s], [m EXCEPT ![b].s = m[b].w], Dirty(s) \cup {b}, Sp(s), "ok", <<>>, 1)

\* CALL dolt_checkout(b): SwitchWorkingSet -- session-local; uncommitted changes stay with their branch
Checkout(s, b) ==
    LET rec == IF b = Eff(s) THEN sess[s] ELSE [sess[s] EXCEPT !.co = b, !.usedb = "base"] IN
    Stmt(s, "Checkout", [b |-> b], rec, Mine(s), Dirty(s), Sp(s), "ok", [already |-> b = Eff(s)], 0)

\* USE `db/b`  or  USE `db` (b = "base": back to the checked-out branch)
Use(s, b) ==
    Stmt(s, "Use", [b |-> b], [sess[s] EXCEPT !.usedb = b], Mine(s), Dirty(s), Sp(s), "ok", <<>>, 0)

SetAutocommit(s, v) ==
    Stmt(s, "SetAutocommit", [v |-> v], [sess[s] EXCEPT !.ac = v], Mine(s), Dirty(s), Sp(s), "ok", <<>>, 0)

\* SET @@dolt_transaction_commit: every SQL commit also creates a dolt commit
SetTc(s, v) ==
    Stmt(s, "SetTc", [v |-> v], [sess[s] EXCEPT !.tc = v], Mine(s), Dirty(s), Sp(s), "ok", <<>>, 0)

\* SAVEPOINT sp: records the working root of the CHECKED-OUT branch (CreateSavepoint looks the base database up)
Savepoint(s) ==
    Stmt(s, "Savepoint", <<>>, sess[s], Mine(s), Dirty(s), [b |-> sess[s].co, t |-> Mine(s)[sess[s].co].w], "ok", <<>>, 0)

(* ROLLBACK TO sp: SetWorkingRoot of the checked-out branch. Only generated while the checked-out branch is the one
   the savepoint was taken on (the code would write that root onto whatever branch is checked out now). *)
RollbackTo(s) ==
    LET sp == Sp(s)
        m == Mine(s)
    IN IF sp.b = "none"
       THEN Stmt(s, "RollbackTo", <<>>, sess[s], m, Dirty(s), sp, "nosavepoint", <<>>, 0)
       ELSE /\ sp.b = sess[s].co
            /\ Stmt(s, "RollbackTo", <<>>, sess[s], [m EXCEPT ![sp.b].w = sp.t],
                    IF m[sp.b].w # sp.t THEN Dirty(s) \cup {sp.b} ELSE Dirty(s), sp, "ok", <<>>, 0)

Release(s) ==
    Stmt(s, "Release", <<>>, sess[s], Mine(s), Dirty(s), NoSp, IF Sp(s).b = "none" THEN "nosavepoint" ELSE "ok", <<>>, 0)

\* ------------------------------------------------------------------ next-state relation
\* simulation mode: an action kind with weight n is offered in one state out of n (TLC picks uniformly among offered kinds)
WtMix == [Read |-> 2, Update |-> 1, Insert |-> 2, Delete |-> 3, Begin |-> 3, Commit |-> 1, Rollback |-> 5, DoltCommit |-> 2,
          DoltAdd |-> 4, Checkout |-> 4, Use |-> 5, SetAutocommit |-> 5, SetTc |-> 6, Savepoint |-> 4]
WtReads == [WtMix EXCEPT !.Read = 1, !.Update = 2, !.Commit = 2]
WtDolt == [WtMix EXCEPT !.DoltCommit = 1, !.DoltAdd = 2, !.SetTc = 3, !.Insert = 4, !.Delete = 5]
On(a) == a \in Acts /\ (~Sim \/ RandomElement(1..Wt[a]) = 1)

Next == \E s \in Sessions :
          \/ On("Read") /\ \E b \in Pick(Branches) : Read(s, b)
          \/ On("Update") /\ \E b \in Pick(WBranches), r \in Pick(Rows), i \in Pick(1..NC), v \in Pick(Vals) : Update(s, b, r, i, v)
          \/ On("Insert") /\ \E b \in Pick(WBranches), r \in Pick(Rows), rv \in Pick(RowVals) : Insert(s, b, r, rv)
          \/ On("Delete") /\ \E b \in Pick(WBranches), r \in Pick(Rows) : Delete(s, b, r)
          \/ On("Begin") /\ Begin(s)
          \/ On("Commit") /\ Commit(s)
          \/ On("Rollback") /\ Rollback(s)
          \/ On("DoltCommit") /\ \E all \in Pick(BOOLEAN) : DoltCommit(s, all)
          \/ On("DoltAdd") /\ DoltAdd(s)
          \/ On("Checkout") /\ \E b \in Pick(Branches) : Checkout(s, b)
          \/ On("Use") /\ \E b \in Pick(Branches \cup {"base"}) : Use(s, b)
          \/ On("SetAutocommit") /\ \E v \in Pick(BOOLEAN) : SetAutocommit(s, v)
          \/ On("SetTc") /\ \E v \in Pick(BOOLEAN) : SetTc(s, v)
          \/ On("Savepoint") /\ (Savepoint(s) \/ RollbackTo(s) \/ Release(s))

Spec == Init /\ [][Next]_vars

\* ------------------------------------------------------------------ what TLC checks
BRType == [w : Table, s : Table, h : Table, n : Nat]
TypeOK == /\ store \in [Branches -> BRType]
          /\ \A s \in Sessions : /\ sess[s].txn \in {"none", "open"}
                                 /\ sess[s].co \in Branches /\ sess[s].usedb \in Branches \cup {"base"}
                                 /\ sess[s].dirty \subseteq Branches
                                 /\ sess[s].snap \in [Branches -> BRType] /\ sess[s].mine \in [Branches -> BRType]
                                 /\ (sess[s].txn = "none" => sess[s].dirty = {} /\ sess[s].snap = NilStore /\ sess[s].mine = NilStore)

\* a session never sees head roots or commit counts other than its snapshot's
HeadsFrozen == \A s \in Sessions : Open(s) => \A b \in Branches : sess[s].mine[b].h = sess[s].snap[b].h /\ sess[s].mine[b].n = sess[s].snap[b].n

\* a transaction is replaced within one step only by a successful START TRANSACTION of its own session
SameTxn(s) == sess[s].txn = "open" /\ sess'[s].txn = "open" /\ ~(last'.s = s /\ last'.a = "Begin" /\ last'.res = "ok")
WriteKinds == {"Update", "Insert", "Delete"}

(* C22 RepeatableRead: within one transaction the rows a session reads (its view of any root of any branch) change
   only by its own writes: the one row named by its own data statement, its own dolt_add, its own ROLLBACK TO. *)
RepeatableRead ==
    \A s \in Sessions : SameTxn(s) =>
        /\ sess'[s].snap = sess[s].snap
        /\ \A b \in Branches :
            /\ sess'[s].mine[b].h = sess[s].mine[b].h
            /\ (sess'[s].mine[b].s # sess[s].mine[b].s => last'.s = s /\ last'.a = "DoltAdd")
            /\ \A r \in Rows : sess'[s].mine[b].w[r] # sess[s].mine[b].w[r] =>
                   /\ last'.s = s
                   /\ \/ last'.a \in WriteKinds /\ last'.args.b = b /\ last'.args.r = r
                      \/ last'.a = "RollbackTo"

(* C22 NoDirtyRead: a transaction's snapshot is the PERSISTED state at the moment it begins, and its view starts as
   that snapshot (plus the effect of the statement that opened it): it can never contain another session's
   uncommitted writes, which live only in sess[other].mine. *)
NoDirtyRead ==
    \A s \in Sessions : (sess'[s].txn = "open" /\ ~SameTxn(s)) =>
        /\ last'.s = s
        /\ sess'[s].snap = (IF last'.a = "Begin" THEN store' ELSE store)
        /\ \A b \in Branches :
             /\ sess'[s].mine[b].h = sess'[s].snap[b].h
             /\ \A r \in Rows : sess'[s].mine[b].w[r] # sess'[s].snap[b].w[r] =>
                   last'.a \in WriteKinds /\ last'.args.b = b /\ last'.args.r = r

\* C22 OtherCommitsInvisibleUntilNewTxn: no statement of one session changes anything in another session
OtherCommitsInvisibleUntilNewTxn == \A s \in Sessions : s # last'.s => sess'[s] = sess[s]

(* C23, per commit step.  cs/cm = working root of the committing transaction at its start / at commit, cb its branch.
   NoLostCommittedChange: a cell of the persisted working root changes only if the committing transaction changed
     that very cell, so every change committed earlier by anybody survives.
   CommittedChangesApplied: every cell the committing transaction changed has its value afterwards.
   Together: the persisted state is always the cell-wise merge of the committed transactions, in commit order. *)
\* ("nothing": dolt_commit found nothing to commit, committed the SQL transaction and then reported the error)
Committed == last'.att /\ last'.res \in {"ok", "nothing"}
NoLostCommittedChange ==
    \A b \in Branches : \A r \in Rows : \A i \in 0..NC :
        Cell(store'[b].w[r], i) # Cell(store[b].w[r], i) =>
            /\ Committed /\ last'.cb = b
            /\ Cell(last'.cm[r], i) # Cell(last'.cs[r], i)
CommittedChangesApplied ==
    Committed => \A r \in Rows : \A i \in 0..NC :
        Cell(last'.cm[r], i) # Cell(last'.cs[r], i) => Cell(store'[last'.cb].w[r], i) = Cell(last'.cm[r], i)
\* the same for the staged root, and the head only moves by a dolt commit, to the staged root, one commit at a time
StagedMerged ==
    /\ \A b \in Branches : \A r \in Rows : \A i \in 0..NC :
        Cell(store'[b].s[r], i) # Cell(store[b].s[r], i) =>
            /\ Committed /\ last'.cb = b
            /\ \/ Cell(last'.sm[r], i) # Cell(last'.ss[r], i)
               \/ last'.dolt /\ Cell(store'[b].s[r], i) = Cell(store[b].h[r], i)     \* moved head merged in
    /\ Committed => \A r \in Rows : \A i \in 0..NC :
        Cell(last'.sm[r], i) # Cell(last'.ss[r], i) => Cell(store'[last'.cb].s[r], i) = Cell(last'.sm[r], i)
DoltCommitIsStaged ==
    \A b \in Branches :
        IF Committed /\ last'.cb = b /\ last'.dolt
        THEN store'[b].h = store'[b].s /\ store'[b].n = store[b].n + 1
        ELSE store'[b].h = store[b].h /\ store'[b].n = store[b].n
\* C23 FailedTxnLeavesNoTrace: a statement that does not succeed changes nothing persisted; a refused commit ends the transaction
FailedTxnLeavesNoTrace ==
    /\ last'.res \notin {"ok", "nothing"} => store' = store
    /\ last'.res \in {"retry", "constraint"} => sess'[last'.s].txn = "none"
    /\ ~Committed => store' = store

ActionProps == [][/\ RepeatableRead /\ NoDirtyRead /\ OtherCommitsInvisibleUntilNewTxn /\ NoLostCommittedChange
                  /\ CommittedChangesApplied /\ StagedMerged /\ DoltCommitIsStaged /\ FailedTxnLeavesNoTrace]_vars

StagedProp == [][StagedMerged]_vars

Bound == \A b \in Branches : store[b].n <= MaxN

Emit == Len(hist) < D \/ PrintT(ToJson(hist))

(* Transition tours: breadth-first search of a bounded config with RecordHist = TRUE; the history (a shortest path) leading
   to a transition of the targeted class is emitted for one such transition out of TourK (cfg: TourK <- TourQ | TourT).
     EmitTour       non-fast-forward commit attempts: merges and conflicts (C23)
     EmitTourReads  reads inside an open transaction of a branch that another session's commit has changed meanwhile (C22)
   These behaviours reach the situations of the bounded model systematically, which a random walk rarely does (e.g. "only
   the staged root moved since the transaction began", "a branch first read after somebody committed to it"). *)
TourK == 40
TourQ == 400
TourT == 1500
EmitTour == /\ Bound
            /\ (last.att /\ ~last.ff /\ RandomElement(1..TourK) = 1) => PrintT(ToJson(hist))
EmitTourReads == /\ Bound
                 /\ (last.a = "Read" /\ last.args.stale /\ RandomElement(1..TourK) = 1) => PrintT(ToJson(hist))
=============================================================================
