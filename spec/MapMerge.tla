--------------------------- MODULE MapMerge ---------------------------
(* Three-way merge of prolly maps (go/store/prolly/tree/merge.go: ThreeWayMerge / SendPatches,
   patch_generator.go, tree_patcher.go: ApplyPatches; three_way_differ.go: ThreeWayDiffer.Next).
   Keys, values and order come from SortedMap.tla; the byte-level diff comes from MapDiff.tla.

   Three formulations of the same merge, and TLC checks that they agree on every (base, left, right, policy):
     * Merge3        - key-wise (the statement of C14): a key changed on one side only takes that side, a key
                       changed identically on both sides keeps the common value, a key changed differently on
                       both sides goes to the collision handler: resolved(v) is applied (v = 0 deletes), on
                       conflict the left value stays;
     * SendWalk      - what SendPatches does with the two key-level (level 0) patch streams
                       Diff(base, left) / Diff(base, right): left-only patches are dropped ("already on the left
                       map"), right-only patches are sent, equal keys with different `To` bytes go to the
                       collision callback; ApplyPatches writes the sent patches onto LEFT;
                       the soundness condition of a level > 0 (range) patch (RangePatchSound): replacing
                       (lo, hi] of left by right's rows is the key-wise merge whenever left = base on (lo, hi];
     * DifferWalk    - the ThreeWayDiffer state machine (dsCompare / dsNewLeft / dsNewRight / dsMatch) over
                       the same two diff streams, producing one op per changed key; ApplyOps is how
                       merge_prolly_rows.go turns ops into edits of the left map.
   Named deviation kept visible: the differ has no resolved value for a divergent delete
   (DiffOpDivergentDeleteResolved means "delete"), so the two formulations agree only for policies that
   resolve every divergent delete at hand to deletion (DeleteConsistent); Merge3 itself is checked for every policy.

   The state machine is the history of two branches with a common ancestor: edits on either side, the same
   edit on both, merge commits (left := merge, base := right), swapping the roles of the sides. *)
EXTENDS Integers, Sequences, SequencesExt, FiniteSets, TLC, Json

CONSTANTS F1, F2, NV,
          BlockCodes,      \* set of 10*f1+f2: keys realised as runs of whole chunks by the binding
          BaseCodes,       \* set of base-map numbers (MapNo) the behaviours start from; {} = all maps
          Policies,        \* names of collision-handler policies, subset of AllPolicies
          MaxEdits,        \* edits per side and round
          MaxMerges,       \* merge commits per behaviour (bounds the exhaustive model)
          EditRounds,      \* edits are enabled while fewer than EditRounds merge commits were made
          D, RecordHist,
          FocusOnly,       \* generator ("none" = all): "block" = only the triples of Focus (convergent edit next to a one-sided block edit),
                           \* "tail" = only the triples of TailFocus (right truncates the map, left appends past the end)
          Shard, NShards

VARIABLES base, left, right, pol, nl, nr, nm, hist

vars == <<base, left, right, pol, nl, nr, nm, hist>>
view == <<base, left, right, pol, nl, nr, nm>>

MD == INSTANCE MapDiff WITH Twin <- {}, NQ <- 0, Salt <- 0, from <- base, to <- left, hist <- <<>>

Key == MD!Key
Val == 1..NV
Maps == [Key -> 0..NV]
KLess(a, b) == MD!KLess(a, b)
KLeq(a, b) == MD!KLeq(a, b)
SortKeys(S) == MD!SortKeys(S)
Entries(c) == MD!Entries(c)
BlockKeys == MD!BlockKeys
PointKeys == Key \ BlockKeys
DType(x, y) == MD!DType(x, y)
Diff(a, b) == MD!RawDiff(a, b)           \* byte-level: the merge never looks inside values
KeyOrNone == Key \cup {<<>>}

\* ------------------------------------------------------------------ collision handler policies
\* outcome: -1 = conflict (callback returns ok = false), 0..NV = resolved to that value (0 = delete)
AllPolicies == {"conflict", "left", "right", "base", "delete", "other", "mixed"}
Other(l, r) == IF Val \ {l, r} = {} THEN -1 ELSE CHOOSE v \in Val \ {l, r} : \A w \in Val \ {l, r} : v <= w
PolicyOut(p, b, l, r) ==
    CASE p = "conflict" -> -1
      [] p = "left" -> l
      [] p = "right" -> r
      [] p = "base" -> b
      [] p = "delete" -> 0
      [] p = "other" -> Other(l, r)
      [] p = "mixed" -> LET h == (b + 2 * l + 3 * r) % 5 IN
                        CASE h = 0 -> -1 [] h = 1 -> r [] h = 2 -> Other(l, r) [] h = 3 -> 0 [] OTHER -> l
Collides(b, l, r) == l # b /\ r # b /\ l # r
\* the table shipped to the engine: every possible collision and its outcome
OutTable(p) == SetToSeq({<<t[1], t[2], t[3], PolicyOut(p, t[1], t[2], t[3])>> :
                            t \in {u \in (0..NV) \X (0..NV) \X (0..NV) : Collides(u[1], u[2], u[3])}})

\* ------------------------------------------------------------------ (1) key-wise merge: the statement
MergeVal(b, l, r, p) ==
    IF l = b THEN r
    ELSE IF r = b THEN l
    ELSE IF l = r THEN l
    ELSE LET o == PolicyOut(p, b, l, r) IN IF o = -1 THEN l ELSE o
Merge3(b, l, r, p) == [k \in Key |-> MergeVal(b[k], l[k], r[k], p)]
CollisionKeys(b, l, r) == {k \in Key : Collides(b[k], l[k], r[k])}
\* the differ cannot express "resolved to v" for a divergent delete (DiffOpDivergentDeleteResolved means delete):
\* the two formulations can only agree when every divergent delete is resolved to deletion or left in conflict
DeleteConsistent(b, l, r, p) == \A k \in CollisionKeys(b, l, r) : (l[k] = 0 \/ r[k] = 0) => PolicyOut(p, b[k], l[k], r[k]) \in {-1, 0}
CollisionRec(b, l, r, k) == [k |-> k, base |-> b[k], left |-> l[k], right |-> r[k],
                             ltype |-> DType(b[k], l[k]), rtype |-> DType(b[k], r[k])]
Collisions(b, l, r) == LET ks == SortKeys(CollisionKeys(b, l, r)) IN [i \in 1..Len(ks) |-> CollisionRec(b, l, r, ks[i])]

\* ------------------------------------------------------------------ (2) SendPatches on the level-0 streams + ApplyPatches
\* result: [patches |-> sequence of [k, to], calls |-> sequence of collision records]
RECURSIVE SendWalk(_, _, _, _, _)
SendWalk(ld, rd, i, j, p) ==
    IF i <= Len(ld) /\ j <= Len(rd) THEN
        IF KLess(ld[i].k, rd[j].k) THEN SendWalk(ld, rd, i + 1, j, p)                      \* already on the left map
        ELSE IF KLess(rd[j].k, ld[i].k) THEN
            LET rest == SendWalk(ld, rd, i, j + 1, p)
            IN [patches |-> <<[k |-> rd[j].k, to |-> rd[j].to]>> \o rest.patches, calls |-> rest.calls]
        ELSE LET rest == SendWalk(ld, rd, i + 1, j + 1, p) IN
            IF ld[i].to = rd[j].to THEN rest                                               \* convergent edit
            ELSE LET o == PolicyOut(p, ld[i].from, ld[i].to, rd[j].to)
                     call == [k |-> ld[i].k, base |-> ld[i].from, left |-> ld[i].to, right |-> rd[j].to,
                              ltype |-> ld[i].type, rtype |-> rd[j].type]
                 IN [patches |-> (IF o = -1 THEN <<>> ELSE <<[k |-> ld[i].k, to |-> o]>>) \o rest.patches,
                     calls |-> <<call>> \o rest.calls]
    ELSE IF j <= Len(rd) THEN
        LET rest == SendWalk(ld, rd, i, j + 1, p)
        IN [patches |-> <<[k |-> rd[j].k, to |-> rd[j].to]>> \o rest.patches, calls |-> rest.calls]
    ELSE [patches |-> <<>>, calls |-> <<>>]
Send(b, l, r, p) == SendWalk(Diff(b, l), Diff(b, r), 1, 1, p)
ApplyPatches(m, ps) == [k \in Key |-> IF \E i \in 1..Len(ps) : ps[i].k = k
                                      THEN (LET i == CHOOSE i \in 1..Len(ps) : ps[i].k = k IN ps[i].to)
                                      ELSE m[k]]
MergeByPatches(b, l, r, p) == ApplyPatches(l, Send(b, l, r, p).patches)

\* a range patch (lo, hi] -> right's rows is sound when the left side did not touch the range, and a left range
\* patch can be ignored when the right side did not touch it
Interval(lo, hi) == {k \in Key : (lo = <<>> \/ KLess(lo, k)) /\ KLeq(k, hi)}
RangePatchSound(b, l, r, p) ==
    \A lo \in KeyOrNone, hi \in Key :
        LET I == Interval(lo, hi) IN
        /\ (\A k \in I : l[k] = b[k]) => \A k \in I : Merge3(b, l, r, p)[k] = r[k]
        /\ (\A k \in I : r[k] = b[k]) => \A k \in I : Merge3(b, l, r, p)[k] = l[k]

\* ------------------------------------------------------------------ (3) ThreeWayDiffer
\* fields a ThreeWayDiff carries per op (three_way_differ.go: newLeftEdit ... newDivergentClashConflict); 0 = unset
Op(k, op, bs, lf, rt, mg) == [k |-> k, op |-> op, base |-> bs, left |-> lf, right |-> rt, merged |-> mg]
Suffix(t) == CASE t = "added" -> "Add" [] t = "modified" -> "Modify" [] OTHER -> "Delete"
RECURSIVE DifferWalk(_, _, _, _, _)
DifferWalk(ld, rd, i, j, p) ==
    IF i > Len(ld) /\ j > Len(rd) THEN <<>>                                                 \* dsDiffFinalize: EOF
    ELSE IF j > Len(rd) \/ (i <= Len(ld) /\ KLess(ld[i].k, rd[j].k)) THEN                    \* dsNewLeft
        <<Op(ld[i].k, "left" \o Suffix(ld[i].type), 0, ld[i].to, 0, 0)>> \o DifferWalk(ld, rd, i + 1, j, p)
    ELSE IF i > Len(ld) \/ KLess(rd[j].k, ld[i].k) THEN                                      \* dsNewRight
        <<Op(rd[j].k, "right" \o Suffix(rd[j].type), rd[j].from, 0, rd[j].to, 0)>> \o DifferWalk(ld, rd, i, j + 1, p)
    ELSE LET k == ld[i].k                                                                   \* dsMatch
             lt == ld[i].to
             rt == rd[j].to
             bs == ld[i].from
             o == PolicyOut(p, bs, lt, rt)
             this == IF lt = 0 /\ rt = 0 THEN Op(k, "convergent" \o Suffix(ld[i].type), 0, lt, 0, 0)
                     ELSE IF lt = 0 \/ rt = 0 THEN
                          (IF o = -1 THEN Op(k, "divergentDeleteConflict", bs, lt, rt, 0)
                           ELSE Op(k, "divergentDeleteResolved", bs, lt, rt, 0))
                     ELSE IF ld[i].type = rd[j].type /\ lt = rt THEN Op(k, "convergent" \o Suffix(ld[i].type), 0, lt, 0, 0)
                     ELSE IF o = -1 THEN Op(k, "divergentModifyConflict", bs, lt, rt, 0)
                     ELSE Op(k, "divergentModifyResolved", 0, lt, rt, o)
         IN <<this>> \o DifferWalk(ld, rd, i + 1, j + 1, p)
DifferOps(b, l, r, p) == DifferWalk(Diff(b, l), Diff(b, r), 1, 1, p)

\* merge_prolly_rows.go: how each op edits the left map (-1 = leave the left row alone)
OpEdit(o) == CASE o.op \in {"rightAdd", "rightModify"} -> o.right
               [] o.op \in {"rightDelete", "divergentDeleteResolved"} -> 0
               [] o.op = "divergentModifyResolved" -> o.merged
               [] OTHER -> -1
ApplyOps(m, ops) == [k \in Key |-> IF \E i \in 1..Len(ops) : ops[i].k = k /\ OpEdit(ops[i]) # -1
                                   THEN (LET i == CHOOSE i \in 1..Len(ops) : ops[i].k = k IN OpEdit(ops[i]))
                                   ELSE m[k]]
MergeByOps(b, l, r, p) == ApplyOps(l, DifferOps(b, l, r, p))
\* declarative classification of one key
ClassOf(b, l, r, p) ==
    IF l = b /\ r = b THEN "none"
    ELSE IF r = b THEN "left" \o Suffix(DType(b, l))
    ELSE IF l = b THEN "right" \o Suffix(DType(b, r))
    ELSE IF l = r THEN "convergent" \o Suffix(DType(b, l))
    ELSE IF l = 0 \/ r = 0 THEN (IF PolicyOut(p, b, l, r) = -1 THEN "divergentDeleteConflict" ELSE "divergentDeleteResolved")
    ELSE (IF PolicyOut(p, b, l, r) = -1 THEN "divergentModifyConflict" ELSE "divergentModifyResolved")
Divergent(op) == op \in {"divergentDeleteConflict", "divergentDeleteResolved", "divergentModifyConflict", "divergentModifyResolved"}

\* ------------------------------------------------------------------ projection shipped to the engine
CompactC(cs) == [i \in 1..Len(cs) |-> <<cs[i].k[1], cs[i].k[2], cs[i].base, cs[i].left, cs[i].right, cs[i].ltype, cs[i].rtype>>]
CompactO(os) == [i \in 1..Len(os) |-> <<os[i].k[1], os[i].k[2], os[i].op, os[i].base, os[i].left, os[i].right, os[i].merged>>]
CompactP(ps) == [i \in 1..Len(ps) |-> <<ps[i].k[1], ps[i].k[2], ps[i].to>>]
Proj(b, l, r, p) == [base |-> Entries(b), left |-> Entries(l), right |-> Entries(r), pol |-> p, outs |-> OutTable(p),
                     merged |-> Entries(Merge3(b, l, r, p)),
                     collisions |-> CompactC(Collisions(b, l, r)),
                     ops |-> CompactO(DifferOps(b, l, r, p)),
                     opsmerged |-> Entries(MergeByOps(b, l, r, p)), agree |-> DeleteConsistent(b, l, r, p),
                     patches |-> CompactP(Send(b, l, r, p).patches)]
Rec(a, args) == IF RecordHist THEN Append(hist, [a |-> a, args |-> args, exp |-> Proj(base', left', right', pol')]) ELSE hist

\* ------------------------------------------------------------------ actions
RECURSIVE MapNo(_, _)
MapNo(m, ks) == IF ks = <<>> THEN 0 ELSE m[Head(ks)] + (NV + 1) * MapNo(m, Tail(ks))
No(m) == MapNo(m, SortKeys(Key))
BaseMaps == IF BaseCodes = {} THEN Maps ELSE {m \in Maps : No(m) \in BaseCodes}

Init == /\ base \in BaseMaps /\ left = base /\ right = base /\ pol \in Policies
        /\ nl = 0 /\ nr = 0 /\ nm = 0 /\ hist = <<>>

KArgs(k, v, tag) == [f1 |-> k[1], f2 |-> k[2], v |-> v, steer |-> tag]
\* v = 0 deletes
EditL(k, v, tag) == /\ nl < MaxEdits /\ nm < EditRounds /\ left' = [left EXCEPT ![k] = v] /\ nl' = nl + 1
               /\ UNCHANGED <<base, right, pol, nr, nm>>
               /\ hist' = Rec(IF k \in BlockKeys THEN "BlockEditL" ELSE "EditL", KArgs(k, v, tag))
EditR(k, v, tag) == /\ nr < MaxEdits /\ nm < EditRounds /\ right' = [right EXCEPT ![k] = v] /\ nr' = nr + 1
               /\ UNCHANGED <<base, left, pol, nl, nm>>
               /\ hist' = Rec(IF k \in BlockKeys THEN "BlockEditR" ELSE "EditR", KArgs(k, v, tag))
\* the same edit made independently on both sides (convergent)
EditBoth(k, v) == /\ nl < MaxEdits /\ nr < MaxEdits /\ nm < EditRounds
                  /\ left' = [left EXCEPT ![k] = v] /\ right' = [right EXCEPT ![k] = v]
                  /\ nl' = nl + 1 /\ nr' = nr + 1 /\ UNCHANGED <<base, pol, nm>>
                  /\ hist' = Rec("EditBoth", KArgs(k, v, 0))
SwapSides == /\ left' = right /\ right' = left /\ nl' = nr /\ nr' = nl /\ UNCHANGED <<base, pol, nm>>
             /\ hist' = Rec("SwapSides", <<>>)
SetPolicy(p) == /\ p # pol /\ pol' = p /\ UNCHANGED <<base, left, right, nl, nr, nm>> /\ hist' = Rec("SetPolicy", [p |-> p])
\* merge commit on the left branch: the merge result becomes left, the merged-in tip becomes the next merge base
MergeIntoLeft == /\ nm < MaxMerges /\ (nl > 0 \/ nr > 0)
                 /\ left' = Merge3(base, left, right, pol) /\ base' = right /\ UNCHANGED <<right, pol>>
                 /\ nl' = 0 /\ nr' = 0 /\ nm' = nm + 1
                 /\ hist' = Rec("MergeIntoLeft", <<>>)

Next == \/ \E k \in Key, v \in 0..NV : EditL(k, v, 0) \/ EditR(k, v, 0) \/ EditBoth(k, v)
        \/ SwapSides \/ MergeIntoLeft
        \/ \E p \in Policies : SetPolicy(p)
\* simulation: TLC picks uniformly among successor states.  Every edit is a successor (edits outnumber the structural
\* actions until the per-round budget MaxEdits is used up); edits that hit a key the other side already changed are
\* offered a second time (steer = 1 makes the successor distinct) so that collisions are frequent; the policy moves
\* to one pseudo-randomly chosen other policy.  No RandomElement: TLC re-seeds it at every evaluation.
LChanged == {k \in Key : left[k] # base[k]}
RChanged == {k \in Key : right[k] # base[k]}
PolSeq == SetToSeq(Policies)
NextSim == \/ \E k \in Key, v \in 0..NV : EditL(k, v, 0) \/ EditR(k, v, 0)
           \/ \E k \in Key : EditBoth(k, (No(left) + No(right) + k[1] + k[2]) % (NV + 1))
           \/ \E k \in LChanged, v \in 0..NV : v # left[k] /\ v # base[k] /\ EditR(k, v, 1)
           \/ \E k \in RChanged, v \in 0..NV : v # right[k] /\ v # base[k] /\ EditL(k, v, 1)
           \/ SwapSides \/ MergeIntoLeft
           \/ SetPolicy(PolSeq[((No(left) + 3 * No(right) + 5 * No(base) + Len(hist)) % Len(PolSeq)) + 1])
Spec == Init /\ [][Next]_vars

\* ------------------------------------------------------------------ generator: every triple within MaxEdits of a base
Hamming(a, b) == Cardinality({k \in Key : a[k] # b[k]})
Near(b) == {m \in Maps : Hamming(m, b) <= MaxEdits}
\* structurally delicate triples: one side alone rewrites / adds / removes a block key (whole chunks) while both sides make
\* the same edit to the point key right before or right after it (the two patch streams then carry the same chunk with
\* different start keys)
KeySeqM == SortKeys(Key)
Adjacent(k1, k2) == \E i \in 1..(Len(KeySeqM) - 1) : {KeySeqM[i], KeySeqM[i + 1]} = {k1, k2}
Focus(b, l, r) == \E k \in BlockKeys, k2 \in PointKeys :
                     /\ Adjacent(k, k2)
                     /\ ((l[k] = b[k] /\ r[k] # b[k]) \/ (r[k] = b[k] /\ l[k] # b[k]))
                     /\ l[k2] = r[k2] /\ l[k2] # b[k2]
\* ... or one side alone edits the block key while the other side alone edits the point key next to it (when that point
\* key ends a chunk, a range patch of one side ends exactly at the point patch of the other side)
EdgeFocus(b, l, r) == \E k \in BlockKeys, k2 \in PointKeys :
                         /\ Adjacent(k, k2)
                         /\ ((l[k] = b[k] /\ r[k] # b[k] /\ l[k2] # b[k2] /\ r[k2] = b[k2])
                             \/ (r[k] = b[k] /\ l[k] # b[k] /\ r[k2] # b[k2] /\ l[k2] = b[k2]))
\* tail triples: the right side truncates the map (deletes every row from some cut key on, nothing else), the left side
\* leaves the deleted rows alone and has a row after the right side's new last row (it appended past the old end)
LastKeyOf(m) == LET ks == SortKeys({k \in Key : m[k] # 0}) IN IF ks = <<>> THEN <<>> ELSE ks[Len(ks)]
TailFocus(b, l, r) == /\ r # b
                      /\ \E cut \in Key : \A k \in Key : r[k] = (IF KLeq(cut, k) THEN 0 ELSE b[k])
                      /\ \A k \in Key : (b[k] # 0 /\ r[k] = 0) => l[k] = b[k]
                      /\ \E k \in Key : l[k] # 0 /\ b[k] = 0 /\ (IF LastKeyOf(r) = <<>> THEN TRUE ELSE KLess(LastKeyOf(r), k))
GenInit == /\ base \in BaseMaps /\ left \in Near(base) /\ right \in Near(base)
           /\ (FocusOnly = "block" => (Focus(base, left, right) \/ EdgeFocus(base, left, right)))
           /\ (FocusOnly = "tail" => TailFocus(base, left, right))
           /\ (No(left) + 3 * No(right) + 5 * No(base)) % NShards = Shard
           /\ pol \in (IF CollisionKeys(base, left, right) = {} THEN {CHOOSE p \in Policies : TRUE} ELSE Policies)
           /\ nl = Hamming(left, base) /\ nr = Hamming(right, base) /\ nm = 0
           /\ hist = <<[a |-> "Case", args |-> <<>>, exp |-> Proj(base, left, right, pol)]>>
GenNext == FALSE /\ UNCHANGED vars      \* the cases are the initial states; nothing follows

\* ------------------------------------------------------------------ invariants: C14 on the model
TypeOK == base \in Maps /\ left \in Maps /\ right \in Maps /\ pol \in Policies /\ nl \in 0..MaxEdits /\ nr \in 0..MaxEdits

\* the statement, key by key
MergeIsKeywise ==
    LET m == Merge3(base, left, right, pol) IN
    \A k \in Key :
        LET b == base[k]  l == left[k]  r == right[k] IN
        /\ (l = b /\ r = b) => m[k] = b
        /\ (l # b /\ r = b) => m[k] = l                    \* changed on the left only
        /\ (l = b /\ r # b) => m[k] = r                    \* changed on the right only
        /\ (l # b /\ l = r) => m[k] = l                    \* changed identically
        /\ Collides(b, l, r) => m[k] = (IF PolicyOut(pol, b, l, r) = -1 THEN l ELSE PolicyOut(pol, b, l, r))

\* the patch stream formulation computes the key-wise merge and calls the handler exactly for the collisions,
\* once each, ascending, with the sides not swapped
PatchesAgree ==
    LET s == Send(base, left, right, pol) IN
    /\ MergeByPatches(base, left, right, pol) = Merge3(base, left, right, pol)
    /\ s.calls = Collisions(base, left, right)
    /\ \A i \in 1..Len(s.calls) : s.calls[i].left = left[s.calls[i].k] /\ s.calls[i].right = right[s.calls[i].k]
                                   /\ s.calls[i].base = base[s.calls[i].k]
    /\ \A i \in 1..(Len(s.patches) - 1) : KLess(s.patches[i].k, s.patches[i + 1].k)
    /\ RangePatchSound(base, left, right, pol)

\* the differ classifies every changed key once, ascending, as the declarative classification says; its divergent
\* ops are exactly the collisions; applying its ops is the key-wise merge when the policy is delete-consistent
DifferAgrees ==
    LET ops == DifferOps(base, left, right, pol) IN
    /\ \A i \in 1..(Len(ops) - 1) : KLess(ops[i].k, ops[i + 1].k)
    /\ {ops[i].k : i \in 1..Len(ops)} = {k \in Key : left[k] # base[k] \/ right[k] # base[k]}
    /\ \A i \in 1..Len(ops) : ops[i].op = ClassOf(base[ops[i].k], left[ops[i].k], right[ops[i].k], pol)
    /\ {ops[i].k : i \in {j \in 1..Len(ops) : Divergent(ops[j].op)}} = CollisionKeys(base, left, right)
    /\ DeleteConsistent(base, left, right, pol) => MergeByOps(base, left, right, pol) = Merge3(base, left, right, pol)

\* algebra of the merge (sanity of the statement itself)
MergeAlgebra ==
    /\ Merge3(base, left, base, pol) = left                                  \* nothing to merge
    /\ Merge3(base, base, right, pol) = right                                \* fast-forward
    /\ Merge3(base, left, left, pol) = left                                  \* same change on both sides
    /\ (CollisionKeys(base, left, right) = {}) => Merge3(base, left, right, pol) = Merge3(base, right, left, pol)
    /\ CollisionKeys(base, left, right) = CollisionKeys(base, right, left)

Emit == Len(hist) < D \/ PrintT(ToJson(hist))
EmitCase == PrintT(ToJson(hist))
=============================================================================
