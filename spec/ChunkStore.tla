--------------------------- MODULE ChunkStore ---------------------------
(* Single-instance view of a dolt chunk store (go/store/nbs/store.go, table_set.go, mem_table.go,
   generational_chunk_store.go, ghost_store.go, journal.go; go/store/chunks/memory_store.go).

   One NomsBlockStore instance ("the instance") with its memtable, its novel and upstream table sets,
   its has-cache and its *view* of the manifest (root, upstream), next to the persisted manifest
   (mroot, mtabs) that other openers of the same directory may move (ExtCommit).  The multi-instance
   CAS protocol itself is ManifestCAS.tla (C02/C05); here foreign writers appear only as the atomic
   environment action ExtCommit, which is what makes Rebase, the optimistic-lock branches of Commit,
   AddTableFile and Conjoin reachable.

   Tables are SEQUENCES of addresses in insertion order, because the name of a table file is the hash
   of its address suffixes in insertion order (table_writer.go finish()): two flushes of the same
   addresses in the same order are the same file, in a different order they are two files.  Tables whose
   physical order the model does not know (conjoin results, GC results) carry a leading sentinel.
   A table may hold an address more than once (conjoin is a bag union, planTableConjoin/planArchiveConjoin).

   Backends (cfg.b):  "tab"  table files behind a manifest (local files or a blobstore),
                      "jrnl" chunk journal (flushes append to the one journal chunk source),
                      "mem"  chunks.MemoryStoreView (a different, simpler machine: no flush, refs checked at Commit).
   Generations (cfg.g): "no", "gen" (GenerationalNBS without ghost store), "ghost" (with ghost store).

   Properties: C01 (reads are functions of Visible/kind and agree), C07 (PersistedClosed,
   RejectedWriteLeavesRootUnchanged); C06 re-uses the table algebra (TableFile.tla). *)
EXTENDS Integers, Sequences, FiniteSets, TLC, Json

CONSTANTS NAddr,       \* number of model addresses a1..aN; their order is a topological order of every reference DAG
          DataKinds,   \* subset of {"t", "c", "r"}: tiny / compressible / incompressible payload classes
          MaxEdges,    \* reference DAGs have at most this many edges
          Backends, Gens, MemCaps,
          MaxN,        \* bound on the number of steps (exhaustive configs; 0 = unbounded)
          MaxTab,      \* longest table handed to AddTableFile / ExtCommit
          MemVouch,    \* TRUE: as the code does, chunks of the memtable and of novel (uncommitted) tables satisfy the
                       \* reference check of AddTableFile although the file lands in the manifest without them;
                       \* FALSE: the corrected design (only manifest-backed tables, old generation and ghosts count)
          D,           \* behaviour length at which the history is emitted
          RecordHist, Sim

VARIABLES cfg,        \* [b, g, cap] chosen by Setup
          refs,       \* [Addr -> SUBSET Addr] reference DAG, chosen by Setup
          kind,       \* [Addr -> DataKinds] payload class of every address, chosen by Setup
          mem,        \* memtable: sequence of addresses (<<>> = nil memtable)
          novel,      \* set of tables flushed by the instance and not yet in the manifest
          upstream,   \* set of tables of the instance's view of the manifest
          root,       \* root of the instance's view
          hasCache,   \* addresses known to have landed (NomsBlockStore.hasCache)
          mroot, mtabs,  \* persisted manifest
          mcanon,     \* the manifest lists its tables in the canonical (name-sorted) order a Commit writes; the manifest
                      \* lock is a hash of root and table list *in order*, so only then can a second writer of the same
                      \* contents be recognised as "already there"
          gcsnap,     \* <<root, tables>> the manifest's gcGen was computed from (<<>> = never collected)
          jlimbo,     \* journal only: tables whose records are in the journal file but which no table set lists
                      \* (flushed, not committed, then the store was reopened while the manifest did not list the journal);
                      \* they come back the next time the journal chunk source joins a table set
          old,        \* tables of the old generation
          ghost,      \* ghost addresses
          last,       \* [a, res] of the last step
          n, hist

vars == <<cfg, refs, kind, mem, novel, upstream, root, hasCache, mroot, mtabs, mcanon, gcsnap, jlimbo, old, ghost, last, n, hist>>
view == <<cfg, refs, kind, mem, novel, upstream, root, hasCache, mroot, mtabs, mcanon, gcsnap, jlimbo, old, ghost, last, n>>

AddrSeq == SubSeq(<<"a1", "a2", "a3", "a4", "a5", "a6", "a7", "a8">>, 1, NAddr)
Addr == {AddrSeq[i] : i \in DOMAIN AddrSeq}
None == "none"
Sentinels == {"cj", "gc", "ar", "tf"} \* conjoined / collected (physical order unknown), archive / table file handed to a journal store
Idx(a) == CHOOSE i \in DOMAIN AddrSeq : AddrSeq[i] = a
SizeOf(k) == CASE k = "t" -> 1 [] k = "c" -> 3 [] OTHER -> 2
Pick(S) == IF Sim THEN {RandomElement(S)} ELSE S

\* ------------------------------------------------------------------ tables
Elems(t) == {t[i] : i \in DOMAIN t} \ Sentinels
Mult(t, a) == Cardinality({i \in DOMAIN t : t[i] = a})
TLen(t) == Cardinality({i \in DOMAIN t : t[i] \notin Sentinels})
Opaque(t) == Len(t) > 0 /\ t[1] \in {"cj", "gc"}
Bag(t) == [a \in Addr |-> Mult(t, a)]
ChunksOf(T) == UNION {Elems(t) : t \in T}
RECURSIVE CountT(_)
CountT(T) == IF T = {} THEN 0 ELSE LET t == CHOOSE x \in T : TRUE IN TLen(t) + CountT(T \ {t})
RECURSIVE MultT(_, _)
MultT(T, a) == IF T = {} THEN 0 ELSE LET t == CHOOSE x \in T : TRUE IN Mult(t, a) + MultT(T \ {t}, a)
RECURSIVE OrdSeq(_)
OrdSeq(S) == IF S = {} THEN <<>> ELSE LET m == CHOOSE x \in S : \A y \in S : Idx(x) <= Idx(y) IN <<m>> \o OrdSeq(S \ {m})
RECURSIVE Rep(_, _)
Rep(a, k) == IF k = 0 THEN <<>> ELSE <<a>> \o Rep(a, k - 1)
RECURSIVE BagSeqFrom(_, _)
BagSeqFrom(T, i) == IF i > Len(AddrSeq) THEN <<>> ELSE Rep(AddrSeq[i], MultT(T, AddrSeq[i])) \o BagSeqFrom(T, i + 1)
Conj(T) == <<"cj">> \o BagSeqFrom(T, 1)       \* conjoin = bag union; physical order unknown to the model
GcTab(S) == <<"gc">> \o OrdSeq(S)              \* table written by a collection; walk order unknown to the model
\* all duplicate-free sequences over S of length 1..k
RECURSIVE SeqsUpTo(_, _)
SeqsUpTo(S, k) == IF k = 0 THEN {<<>>} ELSE
                    LET p == SeqsUpTo(S, k - 1) IN p \cup {Append(s, x) : s \in {q \in p : Len(q) = k - 1}, x \in S}
NewSeqs(S, k) == {s \in SeqsUpTo(S, k) : s # <<>> /\ Cardinality(Elems(s)) = Len(s)}

\* ------------------------------------------------------------------ derived state
MemSet == Elems(mem)
RECURSIVE SizeSum(_)
SizeSum(s) == IF s = <<>> THEN 0 ELSE SizeOf(kind[Head(s)]) + SizeSum(Tail(s))
MemRefs == UNION {refs[x] : x \in MemSet}
NewChunks == ChunksOf(novel \cup upstream)
OldChunks == ChunksOf(old)
Visible == MemSet \cup NewChunks \cup OldChunks       \* addresses whose bytes the store holds
Present == Visible \cup ghost                          \* addresses Has() answers true for
ViewCurrent == <<mroot, mtabs>> = <<root, upstream>>
NoNovelty == mem = <<>> /\ novel = {}
GcClean == gcsnap = <<root, upstream>>
JTabs(T) == {t \in T : t # <<>> /\ t[1] \notin Sentinels}        \* journal-resident tables (journal backend)
\* what a fresh opener of the directory holds: the manifest's tables, and - the journal being one file - every record of
\* the journal as soon as the manifest lists the journal at all
PersChunks == ChunksOf(mtabs) \cup OldChunks
              \cup (IF cfg.b = "jrnl" /\ JTabs(mtabs) # {} THEN ChunksOf(novel \cup jlimbo) ELSE {})

\* pending references of the memtable that the has-cache does not vouch for and that are nowhere to be found
Dangling == MemRefs \ (hasCache \cup Present)
\* the table a flush of the memtable writes: chunks already in a table of this store are skipped (memTable.write)
\* If nothing is left an *empty* chunk source joins the novel set: it holds no chunk, but it counts as novelty
\* (len(tables.novel) > 0) until the next rebase / flatten drops it.
FlushTab == {SelectSeq(mem, LAMBDA x : x \notin NewChunks)}
NonEmpty(T) == T \ {<<>>}

\* reference walk of markAndSweeper.SaveHashes: addresses in |stop| are filtered out before they are read,
\* only chunks whose bytes are held can be parsed for children. Returns every address that was requested.
RECURSIVE Walk(_, _, _, _)
Walk(front, seen, stop, held) ==
    LET f == front \ (seen \cup stop) IN
    IF f = {} THEN seen ELSE Walk(UNION {refs[x] : x \in f \cap held}, seen \cup f, stop, held)

\* ------------------------------------------------------------------ read operators (what C01 talks about)
GetOp(a) == IF a \in Visible THEN kind[a] ELSE IF a \in ghost THEN "ghost" ELSE None
HasOp(a) == a \in Present
HasManyOp(S) == S \ Present                                   \* absent set
GetManyOp(S) == [a \in S \cap Present |-> GetOp(a)]
CountOp == IF cfg.b = "mem" THEN Len(mem)                     \* MemoryStoreView.Count = len(pending)
           ELSE Len(mem) + CountT(novel) + CountT(upstream) + CountT(old)
IterMult(a) == MultT(novel, a) + MultT(upstream, a) + MultT(old, a)   \* IterateAllChunks: tables only, no memtable

PersistedClosed ==
    mroot # None => Walk({mroot}, {}, {}, PersChunks) \subseteq PersChunks \cup ghost

Proj == [root |-> root, vis |-> Visible, ghost |-> ghost, get |-> [a \in Addr |-> GetOp(a)],
         count |-> CountOp, iter |-> [a \in Addr |-> IterMult(a)],
         mem |-> mem, novel |-> novel, upstream |-> upstream, old |-> old, hc |-> hasCache,
         mroot |-> mroot, pvis |-> PersChunks, mtabs |-> mtabs, closed |-> PersistedClosed]

Rec(a, args, res) ==
    /\ n' = n + 1
    /\ last' = [a |-> a, res |-> res]
    /\ hist' = IF RecordHist THEN Append(hist, [a |-> a, args |-> args, res |-> res, exp |-> Proj']) ELSE hist

\* ------------------------------------------------------------------ Init / Setup
Pairs == {p \in Addr \X Addr : Idx(p[1]) < Idx(p[2])}
RECURSIVE EdgeSetsUpTo(_)
EdgeSetsUpTo(k) == IF k = 0 THEN {{}} ELSE LET P == EdgeSetsUpTo(k - 1) IN P \cup {E \cup {p} : E \in P, p \in Pairs}
EdgeSets == EdgeSetsUpTo(MaxEdges)        \* every set of at most MaxEdges forward edges = every DAG (up to renaming) with that many edges
Cfgs == {c \in [b : Backends, g : Gens, cap : MemCaps] : c.b = "mem" => c.g = "no"}

Init == /\ cfg = [b |-> "tab", g |-> "no", cap |-> 0] /\ refs = [a \in Addr |-> {}] /\ kind = [a \in Addr |-> "c"]
        /\ mem = <<>> /\ novel = {} /\ upstream = {} /\ root = None /\ hasCache = {}
        /\ mroot = None /\ mtabs = {} /\ mcanon = TRUE /\ gcsnap = <<>> /\ jlimbo = {} /\ old = {} /\ ghost = {}
        /\ last = [a |-> "Init", res |-> "ok"] /\ n = 0 /\ hist = <<>>

\* first step of every behaviour: the configuration, the reference DAG and the payload classes
Setup == /\ n = 0
         /\ \E c \in Pick(Cfgs), E \in Pick(EdgeSets), k \in Pick([Addr -> DataKinds]) :
               /\ cfg' = c /\ kind' = k
               /\ refs' = [a \in Addr |-> {b \in Addr : <<a, b>> \in E}]
               /\ UNCHANGED <<mem, novel, upstream, root, hasCache, mroot, mtabs, mcanon, gcsnap, jlimbo, old, ghost>>
               /\ Rec("Setup", [b |-> c.b, g |-> c.g, cap |-> c.cap, refs |-> refs', kind |-> k], "ok")

IsNbs == cfg.b # "mem"

\* ------------------------------------------------------------------ Put (store.go addChunk; memory_store.go Put)
Put(a) ==
    /\ n > 0
    /\ LET inMem == a \in MemSet
           flush == IsNbs /\ ~inMem /\ SizeSum(mem) + SizeOf(kind[a]) > cfg.cap
       IN \/ /\ ~flush
             /\ mem' = IF inMem THEN mem ELSE Append(mem, a)
             /\ UNCHANGED <<novel, hasCache>>
             /\ UNCHANGED <<cfg, refs, kind, upstream, root, mroot, mtabs, mcanon, gcsnap, jlimbo, old, ghost>>
             /\ Rec("Put", [addr |-> a, flush |-> FALSE], "ok")
          \/ \* memtable full, its reference check fails: the whole memtable is thrown away, |a| is not stored
             /\ flush /\ Dangling # {}
             /\ mem' = <<>>
             /\ UNCHANGED <<novel, hasCache>>
             /\ UNCHANGED <<cfg, refs, kind, upstream, root, mroot, mtabs, mcanon, gcsnap, jlimbo, old, ghost>>
             /\ Rec("Put", [addr |-> a, flush |-> TRUE], "dangling")
          \/ /\ flush /\ Dangling = {}
             /\ novel' = novel \cup FlushTab \cup jlimbo      \* the journal chunk source joins novel with all its records
             /\ jlimbo' = {}
             /\ hasCache' = hasCache \cup MemRefs
             /\ mem' = <<a>>
             /\ UNCHANGED <<cfg, refs, kind, upstream, root, mroot, mtabs, mcanon, gcsnap, old, ghost>>
             /\ Rec("Put", [addr |-> a, flush |-> TRUE], "ok")

\* ------------------------------------------------------------------ Commit
\* MemoryStoreView.Commit: CAS on the shared root, then the pending references, nothing is dropped on failure
CommitMem(cur, lst) ==
    /\ n > 0 /\ cfg.b = "mem"
    /\ LET bad == MemRefs \ (MemSet \cup ChunksOf(upstream)) IN
       \/ /\ lst # root
          /\ UNCHANGED <<mem, upstream, root, mroot, mtabs>>
          /\ UNCHANGED <<cfg, refs, kind, novel, hasCache, mcanon, gcsnap, jlimbo, old, ghost>>
          /\ Rec("Commit", [cur |-> cur, last |-> lst], "false")
       \/ /\ lst = root /\ bad # {}
          /\ UNCHANGED <<mem, upstream, root, mroot, mtabs>>
          /\ UNCHANGED <<cfg, refs, kind, novel, hasCache, mcanon, gcsnap, jlimbo, old, ghost>>
          /\ Rec("Commit", [cur |-> cur, last |-> lst], "dangling")
       \/ /\ lst = root /\ bad = {}
          /\ upstream' = upstream \cup (IF mem = <<>> THEN {} ELSE {mem})
          /\ mem' = <<>> /\ root' = cur /\ mroot' = cur /\ mtabs' = upstream'
          /\ UNCHANGED <<cfg, refs, kind, novel, hasCache, mcanon, gcsnap, jlimbo, old, ghost>>
          /\ Rec("Commit", [cur |-> cur, last |-> lst], "true")

\* NomsBlockStore.commit / updateManifest
CommitNbs(cur, lst) ==
    /\ n > 0 /\ IsNbs
    /\ LET args == [cur |-> cur, last |-> lst]
           novel1 == IF mem = <<>> THEN novel ELSE novel \cup FlushTab \cup jlimbo
           jl1 == IF mem = <<>> THEN jlimbo ELSE {}
           hc1 == hasCache \cup MemRefs
           rootGone == cur # None /\ cur \notin (hc1 \cup ChunksOf(novel1 \cup upstream) \cup OldChunks \cup ghost)
           hc2 == hc1 \cup (IF cur = None THEN {} ELSE {cur})
           wanted == <<cur, NonEmpty(novel1) \cup upstream>>      \* the manifest contents this commit asks for
           normal == ~(NoNovelty /\ cur = lst) /\ root = lst /\ (mem = <<>> \/ Dangling = {}) /\ ~rootGone
       IN
       \/ \* store.go:1588 CommitSameRootNoCAS: nothing novel and current = last: rebase, answer true, no compare-and-swap
          /\ NoNovelty /\ cur = lst
          /\ upstream' = mtabs /\ root' = mroot
          /\ UNCHANGED <<mem, novel, hasCache, mroot, mtabs, mcanon, gcsnap, jlimbo>>
          /\ UNCHANGED <<cfg, refs, kind, old, ghost>>
          /\ Rec("Commit", args, "true")
       \/ \* errLastRootMismatch: answered from the view, the view is not refreshed
          /\ ~(NoNovelty /\ cur = lst) /\ root # lst
          /\ UNCHANGED <<mem, novel, upstream, root, hasCache, mroot, mtabs, mcanon, gcsnap, jlimbo>>
          /\ UNCHANGED <<cfg, refs, kind, old, ghost>>
          /\ Rec("Commit", args, "false")
       \/ \* the memtable's reference check fails: memtable dropped, nothing else happens
          /\ ~(NoNovelty /\ cur = lst) /\ root = lst /\ mem # <<>> /\ Dangling # {}
          /\ mem' = <<>>
          /\ UNCHANGED <<novel, upstream, root, hasCache, mroot, mtabs, mcanon, gcsnap, jlimbo>>
          /\ UNCHANGED <<cfg, refs, kind, old, ghost>>
          /\ Rec("Commit", args, "dangling")
       \/ \* memtable flushed, but the new root is nowhere to be found (errorIfDangling)
          /\ ~(NoNovelty /\ cur = lst) /\ root = lst /\ (mem = <<>> \/ Dangling = {}) /\ rootGone
          /\ mem' = <<>> /\ novel' = novel1 /\ hasCache' = hc1 /\ jlimbo' = jl1
          /\ UNCHANGED <<upstream, root, mroot, mtabs, mcanon, gcsnap>>
          /\ UNCHANGED <<cfg, refs, kind, old, ghost>>
          /\ Rec("Commit", args, "dangling")
       \/ \* manifest written: the view is current, or stale only in its table set (the retry after the rebase wins)
          /\ normal /\ (ViewCurrent \/ (mroot = lst /\ wanted # <<mroot, mtabs>>))
          /\ mem' = <<>> /\ novel' = {} /\ hasCache' = hc2
          /\ mtabs' = NonEmpty(novel1) \cup mtabs /\ mroot' = cur /\ mcanon' = TRUE
          /\ upstream' = mtabs' /\ root' = cur /\ jlimbo' = jl1
          /\ UNCHANGED gcsnap
          /\ UNCHANGED <<cfg, refs, kind, old, ghost>>
          /\ Rec("Commit", args, "true")
       \/ \* CommitAlreadyThere: the view is stale, but the manifest already holds exactly the contents asked for:
          \* the lock hashes coincide and the commit is reported successful without a write
          /\ normal /\ ~ViewCurrent /\ wanted = <<mroot, mtabs>> /\ mcanon
          /\ mem' = <<>> /\ novel' = {} /\ hasCache' = hc2 /\ jlimbo' = jl1
          /\ upstream' = mtabs /\ root' = mroot
          /\ UNCHANGED <<mroot, mtabs, mcanon, gcsnap>>
          /\ UNCHANGED <<cfg, refs, kind, old, ghost>>
          /\ Rec("Commit", args, "true")
       \/ \* optimistic lock failure on the root: view rebased (novel tables kept), commit refused
          /\ normal /\ ~ViewCurrent /\ mroot # lst /\ wanted # <<mroot, mtabs>>
          /\ mem' = <<>> /\ novel' = NonEmpty(novel1) /\ hasCache' = hc2 /\ jlimbo' = jl1
          /\ upstream' = mtabs /\ root' = mroot
          /\ UNCHANGED <<mroot, mtabs, mcanon, gcsnap>>
          /\ UNCHANGED <<cfg, refs, kind, old, ghost>>
          /\ Rec("Commit", args, "false")
       \* (normal /\ ~ViewCurrent /\ wanted = <<mroot, mtabs>> /\ ~mcanon: outcome depends on the order in which an
       \*  AddTableFile / Conjoin left the table list; not modelled, no step)

Commit(cur, lst) == CommitMem(cur, lst) \/ CommitNbs(cur, lst)

\* ------------------------------------------------------------------ Rebase, Reopen
Rebase ==
    /\ n > 0
    /\ upstream' = mtabs /\ root' = mroot
    /\ novel' = IF ViewCurrent THEN novel ELSE NonEmpty(novel)     \* unchanged lock: short-circuit, nothing is rebuilt
    /\ UNCHANGED <<mem, hasCache, mroot, mtabs, mcanon, gcsnap, jlimbo>>
    /\ UNCHANGED <<cfg, refs, kind, old, ghost>>
    /\ Rec("Rebase", <<>>, "ok")

\* Close and open again. Unflushed chunks are gone; flushed-but-uncommitted table files are unreferenced garbage.
\* Flushed-but-uncommitted journal records stay in the journal file: if the manifest lists the journal they are
\* simply there again (the journal is one chunk source), otherwise nothing lists them until the journal chunk source
\* next joins a table set (jlimbo).
Reopen ==
    /\ n > 0 /\ IsNbs
    /\ mem' = <<>> /\ novel' = {} /\ hasCache' = {}
    /\ LET back == NonEmpty(novel) \cup jlimbo
           listed == cfg.b = "jrnl" /\ JTabs(mtabs) # {}
       IN /\ mtabs' = IF listed THEN mtabs \cup back ELSE mtabs
          /\ jlimbo' = IF cfg.b = "jrnl" /\ ~listed THEN back ELSE {}
    /\ upstream' = mtabs' /\ root' = mroot
    /\ UNCHANGED <<mroot, mcanon, gcsnap>>
    /\ UNCHANGED <<cfg, refs, kind, old, ghost>>
    /\ Rec("Reopen", <<>>, "ok")

\* ------------------------------------------------------------------ environment: another opener of the directory commits
\* It writes the chunks of |s| (none of them in the manifest's tables, references closed over what it can see)
\* and moves the root to the last of them.
ExtCommit(s) ==
    /\ n > 0 /\ cfg.b = "tab"
    /\ Elems(s) \cap ChunksOf(mtabs) = {}
    /\ \A x \in Elems(s) : refs[x] \subseteq Elems(s) \cup ChunksOf(mtabs)
    /\ mtabs' = mtabs \cup {s} /\ mroot' = s[Len(s)] /\ mcanon' = TRUE
    /\ UNCHANGED <<mem, novel, upstream, root, hasCache, gcsnap, jlimbo>>
    /\ UNCHANGED <<cfg, refs, kind, old, ghost>>
    /\ Rec("ExtCommit", [tab |-> s], "ok")

\* ------------------------------------------------------------------ AddTableFile (WriteTableFile + AddTableFilesToManifest)
OpaqueBags == {Bag(t) : t \in {x \in mtabs \cup upstream \cup novel : Opaque(x)}}
AddTableFile(s, arch) ==
    /\ n > 0 /\ IsNbs
    /\ Bag(s) \notin OpaqueBags          \* an opaque table with these chunks might or might not be the same file
    /\ (cfg.b = "jrnl" => mroot # None)  \* not modelled: with an empty journal root ChunkJournal.ParseIfExists answers from the
                                         \* backing manifest, whose lock Update then refuses: updateManifestAddFiles never returns (LEADS.md)
    /\ LET t == IF arch THEN <<"ar">> \o s ELSE IF cfg.b = "jrnl" THEN <<"tf">> \o s ELSE s
           vouch == IF MemVouch THEN Present ELSE ChunksOf(upstream) \cup OldChunks \cup ghost
           closedIn == \A x \in Elems(s) : refs[x] \subseteq vouch \cup Elems(s)
           args == [tab |-> s, arch |-> arch]
       IN
       \/ \* references of the file's chunks are checked against the store (skipped for a store without a root,
          \* store.go:2121 - there the pusher is trusted: enabling condition)
          /\ closedIn
          /\ mtabs' = mtabs \cup {t}
          /\ mcanon' = IF t \in mtabs THEN mcanon ELSE Cardinality(mtabs') <= 1
          /\ upstream' = mtabs' /\ root' = mroot
          /\ novel' = IF t \in mtabs /\ ViewCurrent THEN novel ELSE NonEmpty(novel)
          /\ UNCHANGED <<mem, hasCache, mroot, gcsnap, jlimbo>>
          /\ UNCHANGED <<cfg, refs, kind, old, ghost>>
          /\ Rec("AddTableFile", args, "ok")
       \/ /\ ~closedIn /\ root # None
          /\ UNCHANGED <<mem, novel, upstream, root, hasCache, mroot, mtabs, mcanon, gcsnap, jlimbo>>
          /\ UNCHANGED <<cfg, refs, kind, old, ghost>>
          /\ Rec("AddTableFile", args, "err")

\* ------------------------------------------------------------------ Conjoin (ConjoinTableFiles)
Conjoin(T) ==
    /\ n > 0 /\ cfg.b = "tab"
    /\ T \subseteq upstream /\ Cardinality(T) >= 2
    /\ Bag(Conj(T)) \notin {Bag(t) : t \in (mtabs \cup upstream \cup novel) \ T}
    /\ mtabs' = IF T \subseteq mtabs THEN (mtabs \ T) \cup {Conj(T)} ELSE mtabs   \* lands only if all conjoinees are still there
    /\ mcanon' = IF T \subseteq mtabs THEN Cardinality(mtabs') <= 1 ELSE mcanon
    /\ upstream' = mtabs' /\ root' = mroot
    /\ novel' = NonEmpty(novel)
    /\ UNCHANGED <<mem, hasCache, mroot, gcsnap, jlimbo>>
    /\ UNCHANGED <<cfg, refs, kind, old, ghost>>
    /\ Rec("Conjoin", [tabs |-> T], "ok")

\* ------------------------------------------------------------------ collection of a non-generational store
\* BeginGC; MarkAndSweepChunks; SaveHashes(extra + root); Finalize; SwapChunksInStore; EndGC; PruneTableFiles
GC(extra, arch) ==
    /\ n > 0 /\ IsNbs /\ cfg.g = "no"
    /\ root # None
    /\ ~(GcClean /\ NoNovelty)                 \* otherwise ErrNothingToCollect
    /\ LET req == Walk(extra \cup {root}, {}, {}, Visible)
           args == [extra |-> extra, arch |-> arch]
       IN \/ /\ ~(req \subseteq Visible)
             /\ UNCHANGED <<mem, novel, upstream, root, hasCache, mroot, mtabs, mcanon, gcsnap, jlimbo>>
             /\ UNCHANGED <<cfg, refs, kind, old, ghost>>
             /\ Rec("GC", args, "gcerr")
          \/ /\ req \subseteq Visible /\ ~ViewCurrent
             /\ UNCHANGED <<mem, novel, upstream, root, hasCache, mroot, mtabs, mcanon, gcsnap, jlimbo>>
             /\ UNCHANGED <<cfg, refs, kind, old, ghost>>
             /\ Rec("GC", args, "gcconflict")
          \/ /\ req \subseteq Visible /\ ViewCurrent
             /\ upstream' = {GcTab(req)} /\ mtabs' = upstream' /\ mcanon' = TRUE
             /\ novel' = {} /\ mem' = <<>> /\ hasCache' = {} /\ jlimbo' = {}     \* the journal file is deleted
             /\ gcsnap' = <<root, upstream'>>
             /\ UNCHANGED <<root, mroot>>
             /\ UNCHANGED <<cfg, refs, kind, old, ghost>>
             /\ Rec("GC", args, "ok")

\* ------------------------------------------------------------------ generational collection (ValueStore.GC, default mode)
GenGC(oR, nR, arch) ==
    /\ n > 0 /\ cfg.g # "no"
    /\ root # None
    /\ ~(GcClean /\ NoNovelty)
    /\ LET args == [oldRoots |-> oR, newRoots |-> nR, arch |-> arch]
           req1 == Walk(oR, {}, OldChunks, Visible)
           k1 == req1 \cap Visible
           old1 == IF k1 = {} THEN old ELSE old \cup {GcTab(k1)}
           req2 == Walk(nR \cup {root}, {}, ChunksOf(old1), Visible)
           k2 == req2 \cap Visible
       IN \/ /\ ~(req1 \subseteq Present)
             /\ UNCHANGED <<mem, novel, upstream, root, hasCache, mroot, mtabs, mcanon, gcsnap, jlimbo, old>>
             /\ UNCHANGED <<cfg, refs, kind, ghost>>
             /\ Rec("GenGC", args, "gcerr")
          \/ /\ req1 \subseteq Present /\ ~(req2 \subseteq Present /\ ViewCurrent)
             /\ old' = old1
             /\ UNCHANGED <<mem, novel, upstream, root, hasCache, mroot, mtabs, mcanon, gcsnap, jlimbo>>
             /\ UNCHANGED <<cfg, refs, kind, ghost>>
             /\ Rec("GenGC", args, IF req2 \subseteq Present THEN "gcconflict" ELSE "gcerr")
          \/ /\ req1 \subseteq Present /\ req2 \subseteq Present /\ ViewCurrent
             /\ old' = old1
             /\ upstream' = IF k2 = {} THEN {} ELSE {GcTab(k2)}
             /\ mtabs' = upstream' /\ mcanon' = TRUE /\ novel' = {} /\ mem' = <<>> /\ hasCache' = {} /\ jlimbo' = {}
             /\ gcsnap' = <<root, upstream'>>
             /\ UNCHANGED <<root, mroot>>
             /\ UNCHANGED <<cfg, refs, kind, ghost>>
             /\ Rec("GenGC", args, "ok")

\* ------------------------------------------------------------------ ghosts (shallow clone): the set is replaced, only ever grown
SetGhosts(S) ==
    /\ n > 0 /\ cfg.g = "ghost"
    /\ S # {} /\ ghost \subseteq S /\ S # ghost
    /\ ghost' = S
    /\ UNCHANGED <<mem, novel, upstream, root, hasCache, mroot, mtabs, mcanon, gcsnap, jlimbo, old>>
    /\ UNCHANGED <<cfg, refs, kind>>
    /\ Rec("SetGhosts", [ghosts |-> S], "ok")

\* ------------------------------------------------------------------ Next
RootOrNone == Addr \cup {None}
CommitSteps ==
    \/ \E cur \in Pick(Visible \cup {root}) : Commit(cur, root)                       \* the usual commit
    \/ \E cur \in Pick(RootOrNone) : Commit(cur, root)                                \* possibly an absent root
    \/ \E cur \in Pick(RootOrNone) : \E lst \in Pick(RootOrNone \ {root}) : Commit(cur, lst)   \* stale |last|
TabArgs == NewSeqs(Addr, MaxTab)
ExtArgs == {s \in TabArgs : Elems(s) \cap ChunksOf(mtabs) = {} /\ \A x \in Elems(s) : refs[x] \subseteq Elems(s) \cup ChunksOf(mtabs)}
ConjArgs == {T \in SUBSET upstream : Cardinality(T) >= 2}
RootSets == IF Sim THEN SUBSET Visible ELSE {S \in SUBSET Visible : Cardinality(S) <= 1}
GcFormats == IF Sim THEN {RandomElement(BOOLEAN)} ELSE {FALSE}   \* table or archive output: a binding detail, no effect on the model state
GhostArgs == {S \in SUBSET Addr : S # {} /\ ghost \subseteq S /\ S # ghost /\ Cardinality(S \ ghost) <= 2}

Next == \/ Setup
        \/ \E a \in Addr : Put(a)
        \/ CommitSteps
        \/ Rebase
        \/ Reopen
        \/ (n > 0 /\ cfg.b = "tab" /\ ExtArgs # {} /\ \E s \in Pick(ExtArgs) : ExtCommit(s))
        \/ (n > 0 /\ \E s \in Pick(TabArgs) : \E ar \in Pick(BOOLEAN) : AddTableFile(s, ar))
        \/ (n > 0 /\ ConjArgs # {} /\ \E T \in Pick(ConjArgs) : Conjoin(T))
        \/ (n > 0 /\ \E x \in Pick(RootSets) : \E ar \in GcFormats : GC(x, ar))
        \/ (n > 0 /\ \E x \in Pick(RootSets) : \E y \in Pick(RootSets) : \E ar \in GcFormats : GenGC(x, y, ar))
        \/ (n > 0 /\ cfg.g = "ghost" /\ GhostArgs # {} /\ \E S \in Pick(GhostArgs) : SetGhosts(S))

\* the sub-machine in which the AddTableFile hole lives (used by the directed hazard search of C07)
NextHazard == \/ Setup
              \/ \E a \in Addr : Put(a)
              \/ (n > 0 /\ \E cur \in Visible \cup {root} : Commit(cur, root))
              \/ Reopen
              \/ (n > 0 /\ \E s \in TabArgs : AddTableFile(s, FALSE))

Spec == Init /\ [][Next]_vars
Bound == MaxN = 0 \/ n <= MaxN

\* ------------------------------------------------------------------ what TLC checks on the model
TypeOK == /\ MemSet \subseteq Addr /\ Cardinality(MemSet) = Len(mem)
          /\ root \in RootOrNone /\ mroot \in RootOrNone
          /\ hasCache \subseteq Addr /\ ghost \subseteq Addr
          /\ (cfg.g # "ghost" => ghost = {}) /\ (cfg.g = "no" => old = {})
          /\ (cfg.b = "mem" => (novel = {} /\ hasCache = {}))
          /\ (SizeSum(mem) <= cfg.cap \/ ~IsNbs \/ n = 0)

\* C01: every read operator is a function of the same Visible/ghost sets and they agree with each other
ReadsAgree ==
    /\ \A a \in Addr :
          /\ (HasOp(a) <=> (GetOp(a) # None))
          /\ ((GetOp(a) \notin {None, "ghost"}) <=> (a \in Visible))
          /\ ((GetOp(a) \notin {None, "ghost"}) => (GetOp(a) = kind[a]))
          /\ ((IsNbs /\ IterMult(a) > 0) => (a \in Visible))
          /\ ((IsNbs /\ a \in Visible \ MemSet) => (IterMult(a) > 0))
    /\ \A S \in SUBSET Addr :
          /\ HasManyOp(S) = {a \in S : ~HasOp(a)}
          /\ DOMAIN GetManyOp(S) = {a \in S : HasOp(a)}
          /\ \A a \in DOMAIN GetManyOp(S) : GetManyOp(S)[a] = GetOp(a)
    /\ (IsNbs => (CountOp >= Cardinality(Visible \ OldChunks)))

\* the has-cache only vouches for addresses that are really there
HasCacheSound == hasCache \subseteq Present

\* the view's root is always backed by the view's chunks
ViewRootPresent == (IsNbs /\ root # None) => root \in Present

\* C07 (only the nbs stores make the promise; MemoryStoreView has no root check)
C07Closed == IsNbs => PersistedClosed

\* C07: a refused write leaves the persisted root alone
RejectedWriteLeavesRootUnchanged ==
    [][last'.res \in {"dangling", "false", "err", "gcerr", "gcconflict"} => mroot' = mroot /\ (last'.a # "GenGC" => mtabs' = mtabs)]_vars

\* C01: bytes disappear only through a collection, a reopen or a rejected memtable
OnlyCollectorsRemove ==
    [][~(Visible \subseteq Visible') => (last'.a \in {"GC", "GenGC", "Reopen"} \/ last'.res = "dangling")]_vars

\* emission of finished behaviours in simulation mode
Emit == Len(hist) < D \/ PrintT(ToJson(hist))
\* exhaustive search (history kept in the state) for behaviours that end in a persisted root with a missing
\* descendant: every such behaviour is printed and not extended (used with MemVouch = TRUE to aim the replay)
EmitBroken == (IsNbs => PersistedClosed) \/ ~PrintT(ToJson(hist))
=============================================================================
