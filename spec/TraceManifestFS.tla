--------------------------- MODULE TraceManifestFS ---------------------------
(* Syscall-trace validation (mode S) for ManifestFS.tla.

   A scenario of sequential store operations runs under `strace -f -y`; the syscalls that touch the store
   directory are mapped 1:1 (mechanically, by path and flags) to events, marker writes delimit the operations:

     begin(w,kind)                      operation of writer w starts: kind add (Commit / AddTableFilesToManifest), conjoin, gc, reopen
     tcreate(t) tsync trename           table-file landing: openat(nbs_table_N, O_CREAT) / fsync / renameat -> <table name>
     mread                              openat(manifest, O_RDONLY)
     lock lockbusy unlock               flock(LOCK, LOCK_EX|LOCK_NB) / flock(LOCK_UN)
     mwrite(specs) msync                write of nbs_manifest_N (the specs are parsed from the payload) / fsync
     stat(t,exists)                     newfstatat(<table name>) without AT_SYMLINK_NOFOLLOW
     mrename dsync munlink              renameat(nbs_manifest_N -> manifest) / fsync(directory) / unlinkat(nbs_manifest_N) = 0
     tunlink(t)                         unlinkat(<table name>) = 0
     end(specs, files)                  operation over: parsed manifest and directory listing as the engine sees them

   Every event must be the next step of ManifestFS for the current writer, in the order the specification has the
   steps - that is what carries TLC's crash-consistency result (every prefix of that step order) over to the code:
     lock -> write temp -> fsync temp -> read upstream -> stat every new spec -> rename -> fsync directory -> unlock
     table: create/write -> fsync -> rename, and before the manifest rename that names it.
   Steps without a syscall of their own are silent (UpdRead uses the cached upstream; UpdCheckNewSpecsPresent is the
   conclusion drawn from the stat events and is enabled only when every new spec has been stat'ed).

   After each consumed event the module prints the crash images of the model at that point
   (CRASHIMGS <l> <json>): one per number of pending directory operations kept; the check rebuilds the same images
   from the syscall prefix and opens them with the real code. *)
EXTENDS ManifestFS, TLCExt

VARIABLES l, cw, ck, statted

tvars == <<l, cw, ck, statted>>
allvars == <<vars, tvars>>

TraceLog == ndJsonDeserialize("trace.ndjson")
N == Len(TraceLog)
SetOf(s) == {s[k] : k \in 1..Len(s)}
TableOf(a) == SetOf(a)
SpecsOf(a) == {SetOf(a[k]) : k \in 1..Len(a)}

E == TraceLog[l]
Is(name) == l <= N /\ TraceLog[l].ev = name

\* crash images of the state AFTER the step (primed variables)
ImgOf(d) == [man |-> IF d[Manifest] = NoIno THEN [ex |-> FALSE, ok |-> TRUE, specs |-> {}]
                     ELSE LET i == d[Manifest] IN
                          [ex |-> TRUE, ok |-> ino'[i].synced /\ ino'[i].data.k = "man",
                           specs |-> IF ino'[i].synced /\ ino'[i].data.k = "man" THEN ino'[i].data.s ELSE {}],
             files |-> {[t |-> n[2], ok |-> ino'[d[n]].synced] : n \in {x \in Names : x[1] = "t" /\ d[x] # NoIno}}]
Imgs == [j \in 0..Len(pend') |-> ImgOf(ApplyOps(ddir', SubSeq(pend', 1, j)))]
Mark == IF l > TLCGet(1)
        THEN /\ TLCSet(1, l)
             /\ PrintT("TRACE_MATCHED " \o ToString(l))
             /\ PrintT("CRASHIMGS " \o ToString(l) \o " " \o ToJson([j \in 1..(Len(pend') + 1) |-> Imgs[j - 1]]))
        ELSE TRUE
Adv == l' = l + 1 /\ Mark

TInit == /\ Init /\ l = 1 /\ cw = (CHOOSE w \in Writer : TRUE) /\ ck = "none" /\ statted = {}
         /\ TLCSet(1, 0)

Base == UNCHANGED vars
W == cw

TBegin == /\ Is("begin") /\ cw' = E.w /\ ck' = E.kind /\ statted' = {}
          /\ Base /\ Adv

\* reopen: Close + open; the new store reads the manifest
TReopenRead == /\ Is("mread") /\ ck = "reopen" /\ wpc[W] = "idle"
               /\ wup' = [wup EXCEPT ![W] = ManifestOf(vdir)] /\ wprot' = [wprot EXCEPT ![W] = ManifestOf(vdir).specs]
               /\ UNCHANGED <<fsvars, wpc, wnew, wkind, wold, wtmp, hvars, clock, cnt, hist>>
               /\ UNCHANGED <<cw, ck, statted>> /\ Adv

\* a manifest read by an idle store: Rebase (or a read that changes nothing)
TIdleRead == /\ Is("mread") /\ ck # "reopen" /\ wpc[W] \in {"idle", "land_sync", "land_ren", "read", "lock", "done", "cleanup", "prune"}
             /\ \/ WRebase(W)
                \/ (~(wpc[W] = "idle" /\ ManifestOf(vdir) # wup[W] /\ ManifestOf(vdir).ex) /\ Base)
             /\ UNCHANGED <<cw, ck, statted>> /\ Adv

TLandCreate == /\ Is("tcreate")
               /\ LandCreate(W, TableOf(E.t), ck)
               /\ UNCHANGED <<cw, ck, statted>> /\ Adv
TLandSync == /\ Is("tsync") /\ LandSync(W) /\ UNCHANGED <<cw, ck, statted>> /\ Adv
TLandRename == /\ Is("trename") /\ LandRename(W) /\ UNCHANGED <<cw, ck, statted>> /\ Adv

\* silent: the update starts from the store's cached upstream
TSilentRead == /\ wpc[W] = "read" /\ UpdRead(W) /\ UNCHANGED tvars

TLock == /\ Is("lock") /\ UpdLock(W) /\ UNCHANGED <<cw, ck, statted>> /\ Adv
TLockBusy == /\ Is("lockbusy") /\ Base /\ UNCHANGED <<cw, ck, statted>> /\ Adv
\* the temp manifest must carry exactly what the specification proposes
TWriteTemp == /\ Is("mwrite") /\ UpdWriteTemp(W)
              /\ SpecsOf(E.specs) = Proposed(W, wup[W]).specs
              /\ UNCHANGED <<cw, ck, statted>> /\ Adv
TSyncTemp == /\ Is("msync") /\ UpdSyncTemp(W) /\ UNCHANGED <<cw, ck, statted>> /\ Adv
TReadUpstream == /\ Is("mread") /\ wpc[W] = "rup" /\ UpdReadUpstream(W) /\ statted' = {} /\ UNCHANGED <<cw, ck>> /\ Adv
\* stat of a table name: under the lock in the check phase it is part of checkNewSpecsPresent; its answer must be the model's
TStat == /\ Is("stat")
         /\ E.exists = (vdir[TName(TableOf(E.t))] # NoIno)
         /\ statted' = IF wpc[W] = "check" THEN statted \cup {TableOf(E.t)} ELSE statted
         /\ Base /\ UNCHANGED <<cw, ck>> /\ Adv
\* silent: every new spec has been looked at
TSilentCheck == /\ wpc[W] = "check"
                /\ (Proposed(W, wup[W]).specs \ wup[W].specs) \subseteq statted
                /\ UpdCheckNewSpecsPresent(W) /\ UNCHANGED tvars
TRename == /\ Is("mrename") /\ UpdRename(W) /\ UNCHANGED <<cw, ck, statted>> /\ Adv
TDirSync == /\ Is("dsync") /\ UpdDirSync(W) /\ UNCHANGED <<cw, ck, statted>> /\ Adv
TUnlock == /\ Is("unlock")
           /\ \/ UpdUnlock(W)
              \/ (wpc[W] \notin {"unlock", "stale", "missing"} /\ holder = "none" /\ Base)     \* the unlock that follows an abort
           /\ UNCHANGED <<cw, ck, statted>> /\ Adv
TAbort == /\ Is("munlink") /\ UpdAbort(W) /\ UNCHANGED <<cw, ck, statted>> /\ Adv
\* unlink of table files: the first one is the group action (conjoin cleanup / PruneTableFiles), the others its remaining files
TUnlink == /\ Is("tunlink")
           /\ \/ (ConjoinCleanup(W) /\ vdir'[TName(TableOf(E.t))] = NoIno /\ vdir[TName(TableOf(E.t))] # NoIno)
              \/ (PruneTableFiles(W) /\ vdir'[TName(TableOf(E.t))] = NoIno /\ vdir[TName(TableOf(E.t))] # NoIno)
              \/ (vdir[TName(TableOf(E.t))] = NoIno /\ Base)
           /\ UNCHANGED <<cw, ck, statted>> /\ Adv
\* cleanup / prune that had nothing to unlink
TSilentCleanup == /\ wpc[W] \in {"cleanup", "prune"}
                  /\ (ConjoinCleanup(W) \/ PruneTableFiles(W)) /\ vdir' = vdir /\ UNCHANGED tvars
TSilentDone == /\ wpc[W] = "done" /\ WDone(W) /\ UNCHANGED tvars

\* end of the operation: what the engine reads back must be the model's directory
TEnd == /\ Is("end") /\ wpc[W] = "idle"
        /\ SpecsOf(E.specs) = ManifestOf(vdir).specs
        /\ SpecsOf(E.files) = {n[2] : n \in {x \in Names : x[1] = "t" /\ vdir[x] # NoIno}}
        /\ Base /\ UNCHANGED <<cw, ck, statted>> /\ Adv

TNext == \/ TBegin \/ TReopenRead \/ TIdleRead \/ TLandCreate \/ TLandSync \/ TLandRename \/ TSilentRead \/ TLock \/ TLockBusy
         \/ TWriteTemp \/ TSyncTemp \/ TReadUpstream \/ TStat \/ TSilentCheck \/ TRename \/ TDirSync \/ TUnlock \/ TAbort
         \/ TUnlink \/ TSilentCleanup \/ TSilentDone \/ TEnd

tview == <<view, tvars>>
=============================================================================
