------------------------------ MODULE CommitGraph ------------------------------
(* Abstract machine of dolt's commit graph and of everything that is *derived* from it:

     go/store/datas/commit.go            newCommitForValue (stored height), FindCommonAncestor (closure
                                         iterators), findCommonAncestorUsingParentsList, FindClosureCommonAncestor
     go/store/datas/commit_closure.go    writeFbCommitParentClosure (stored parent closure), closure iterator
     go/store/datas/ref_closure.go       transitiveClosure / Set- and LazyCommitClosure
     go/libraries/doltcore/doltdb/commit.go         GetCommitAncestor, CanFastForwardTo, CanFastReverseTo, GetAncestor
     go/libraries/doltcore/doltdb/ancestor_spec.go  parseInstructions (~n, ^k strings)
     go/libraries/doltcore/doltdb/doltdb.go         CommitWithParentCommits, FastForward, SetHead, DeleteBranch, Resolve
     go/store/datas/database_common.go              BuildNewCommit, doFastForward

   Commits are numbered in creation order (a parent always has a smaller number than its child), so the
   state `par` IS the DAG.  The *stored* metadata (ht, clo) is computed by AddCommit exactly the way the code
   computes it - from the metadata stored in the parents, never from the graph - and the invariants state
   that it equals the graph-theoretic truth (C18).  Merge bases are specified twice: declaratively (HCA, the
   set of common ancestors of maximal height) and operationally (the two algorithms of commit.go, parametrised
   by the address order `r`, which the model cannot know and therefore quantifies over) (C19).

   Configurations:
     * DAG enumeration (NEXT NextDag, Branches = {}): the reachable states are ALL DAGs with <= MaxCommits
       commits whose parent lists are sequences (duplicates allowed) of length <= MaxParents; every DAG with
       exactly MaxCommits commits is printed as a conformance case (every smaller DAG is a prefix of one).
     * histories (NEXT NextRefs, simulation): commits are made on branches the way doltdb does it, branches
       are fast-forwarded, force-set and deleted; the history is printed with the expected projection. *)
EXTENDS Integers, Sequences, FiniteSets, TLC, Json, SequencesExt, AncestorSpec

CONSTANTS MaxCommits,    \* bound on the number of commits
          MaxParents,    \* longest parent list (AddCommit)
          SpecChars,     \* alphabet of ancestor-spec strings, e.g. {"^","~","0","1","2","3"}
          MaxSpecLen,    \* longest ancestor-spec string that is tabulated
          Branches,      \* branch names ({} in DAG-enumeration configs)
          CheckAlgs,     \* TRUE: the algorithm invariants quantify over every address order
          EmitDags,      \* "full" / "meta": print every DAG with exactly MaxCommits commits as a case; "none"
          D              \* history length at which a history is printed (simulation), 0 = never

VARIABLES par,     \* par[c] = parent list of commit c (sequence over 1..c-1, duplicates allowed)
          ht,      \* ht[c]  = height STORED in commit c
          clo,     \* clo[c] = parent closure STORED with commit c: set of <<height, commit>>
          head,    \* head[b] = commit a branch points to, 0 = branch does not exist
          hist     \* history (simulation only)

vars == <<par, ht, clo, head, hist>>
view == <<par, ht, clo, head>>

N == Len(par)
Commits == 1..N
PSet(c) == {par[c][i] : i \in 1..Len(par[c])}
MaxOf(S) == CHOOSE x \in S : \A y \in S : y <= x
SeqToSet(s) == {s[i] : i \in 1..Len(s)}

\* ------------------------------------------------------------------ graph-theoretic truth (independent of ht, clo)
\* AncSeq(n)[c] = c together with all its ancestors, LpSeq(n)[c] = number of commits on the longest path from c to a
\* root; both by recursion over the parents (tabulated in creation order so that TLC evaluates each commit once)
RECURSIVE AncSeq(_)
AncSeq(n) == IF n = 0 THEN <<>> ELSE
             LET prev == AncSeq(n - 1) IN Append(prev, {n} \cup UNION {prev[p] : p \in PSet(n)})
RECURSIVE LpSeq(_)
LpSeq(n) == IF n = 0 THEN <<>> ELSE
            LET prev == LpSeq(n - 1) IN Append(prev, IF par[n] = <<>> THEN 1 ELSE 1 + MaxOf({prev[p] : p \in PSet(n)}))
AncTab == AncSeq(N)
LpTab == LpSeq(N)
AncIncl(c) == AncTab[c]
Anc(c) == AncIncl(c) \ {c}                                   \* proper ancestors
LongestPath(c) == LpTab[c]

\* merge-base candidates: the common ancestors (a and b included) than which no common ancestor is higher
HCAof(anc, lp, a, b) == LET cm == anc[a] \cap anc[b] IN {x \in cm : \A y \in cm : lp[y] <= lp[x]}
HCA(a, b) == HCAof(AncTab, LpTab, a, b)
Common(a, b) == AncIncl(a) \cap AncIncl(b)
CanFF(a, b) == a \in AncIncl(b)                              \* "current head a is an ancestor of the target b"

\* ------------------------------------------------------------------ what newCommitForValue stores
\* commit_flatbuffer: height = max(parent heights as stored in the parents, 0 if none) + 1
NewHeight(ps) == IF ps = <<>> THEN 1 ELSE 1 + MaxOf({ht[ps[i]] : i \in 1..Len(ps)})
\* writeFbCommitParentClosure: no closure for a parent-less commit; otherwise start from the first parent's stored
\* closure, add what the other parents' closures have in addition (DiffCommitClosures, AddedDiff only), add the parents.
NewClosure(ps) == IF ps = <<>> THEN {} ELSE
                  LET base == clo[ps[1]]
                      added == UNION {clo[ps[i]] \ base : i \in 2..Len(ps)}
                      selfs == {<<ht[ps[i]], ps[i]>> : i \in 1..Len(ps)}
                  IN base \cup added \cup selfs
HasClosure(c) == par[c] # <<>>        \* a root commit carries the empty closure address

\* ------------------------------------------------------------------ merge base, operationally (commit.go)
\* address orders: r[c] = rank of the address of commit c
Ranks == Permutations(Commits)
KeyLess(k1, k2, r) == k1[1] < k2[1] \/ (k1[1] = k2[1] /\ r[k1[2]] < r[k2[2]])   \* commitClosureKeyOrdering
RECURSIVE SortDesc(_, _)
SortDesc(S, r) == IF S = {} THEN <<>> ELSE
                  LET m == CHOOSE x \in S : \A y \in S : y = x \/ KeyLess(y, x, r)
                  IN <<m>> \o SortDesc(S \ {m}, r)
\* newParentsClosureIterator: the commit itself, then its stored closure in descending key order
ClosureIter(c, r) == <<<<ht[c], c>>>> \o SortDesc(clo[c], r)
RECURSIVE MergeWalk(_, _, _, _, _)
MergeWalk(s1, i, s2, j, r) ==
    IF s1[i][2] = s2[j][2] THEN s1[i][2]
    ELSE IF KeyLess(s1[i], s2[j], r) THEN (IF j = Len(s2) THEN 0 ELSE MergeWalk(s1, i, s2, j + 1, r))
    ELSE (IF i = Len(s1) THEN 0 ELSE MergeWalk(s1, i + 1, s2, j, r))

TopOf(Q) == {c \in Q : ht[c] = MaxOf({ht[x] : x \in Q})}
ParentsOf(T) == UNION {PSet(c) : c \in T}
MinRank(S, r) == CHOOSE x \in S : \A y \in S : r[x] <= r[y]
MaxRank(S, r) == CHOOSE x \in S : \A y \in S : r[y] <= r[x]
\* findCommonAncestorUsingParentsList: two height-ordered queues, popped one height level at a time
RECURSIVE ParentsWalk(_, _, _)
ParentsWalk(Q1, Q2, r) ==
    IF Q1 = {} \/ Q2 = {} THEN 0 ELSE
    LET h1 == MaxOf({ht[x] : x \in Q1})
        h2 == MaxOf({ht[x] : x \in Q2})
        T1 == TopOf(Q1)
        T2 == TopOf(Q2)
    IN IF h1 = h2 THEN (IF T1 \cap T2 # {} THEN MinRank(T1 \cap T2, r)      \* findCommonCommit: smallest address
                        ELSE ParentsWalk((Q1 \ T1) \cup ParentsOf(T1), (Q2 \ T2) \cup ParentsOf(T2), r))
       ELSE IF h1 > h2 THEN ParentsWalk((Q1 \ T1) \cup ParentsOf(T1), Q2, r)
       ELSE ParentsWalk(Q1, (Q2 \ T2) \cup ParentsOf(T2), r)

AlgParentsList(a, b, r) == ParentsWalk({a}, {b}, r)
\* FindCommonAncestor: closure iterators, falling back to the parents-list walk when either commit has no closure
AlgClosure(a, b, r) == IF ~HasClosure(a) \/ ~HasClosure(b) THEN AlgParentsList(a, b, r)
                       ELSE MergeWalk(ClosureIter(a, r), 1, ClosureIter(b, r), 1, r)
\* FindClosureCommonAncestor(transitiveClosure(a), b): walk b's ancestry level by level, first member of a's closure
RECURSIVE ClosureWalk(_, _)
ClosureWalk(S, Q) == IF Q = {} THEN {} ELSE
                     IF TopOf(Q) \cap S # {} THEN TopOf(Q) \cap S
                     ELSE ClosureWalk(S, (Q \ TopOf(Q)) \cup ParentsOf(TopOf(Q)))
AlgSetClosure(a, b) == ClosureWalk(AncIncl(a), {b})          \* set of admissible answers (heap order decides)

\* Commit.CanFastForwardTo / CanFastReverseTo classify by comparing the merge base with both arguments
FFClassOf(H, a, b) == IF H = {} THEN "unrelated"
                      ELSE IF H = {a} THEN (IF a = b THEN "uptodate" ELSE "ff")
                      ELSE IF H = {b} THEN "ahead"
                      ELSE "diverged"
FFClass(a, b) == FFClassOf(HCA(a, b), a, b)
CanFFCode(a, b) == FFClass(a, b) \in {"uptodate", "ff"}

\* ------------------------------------------------------------------ ancestor specs: Parse, ParseErr come from AncestorSpec.tla
\* Commit.GetAncestor: follow parent indices; an index beyond the parent list is ErrInvalidAncestorSpec
RECURSIVE WalkI(_, _)
WalkI(c, ins) == IF ins = <<>> THEN c
                 ELSE IF ins[1] >= Len(par[c]) THEN 0
                 ELSE WalkI(par[c][ins[1] + 1], Tail(ins))
\* result of resolving <commit c><spec s>: a commit, 0 = no such ancestor, -1 = the spec string is rejected
WalkP(c, p) == IF p = ParseErr THEN -1 ELSE WalkI(c, p)
Walk(c, s) == WalkP(c, Parse(s))

AllStrs == UNION {[1..k -> SpecChars] : k \in 0..MaxSpecLen}
SpecStrs == {s \in AllStrs : s = <<>> \/ s[1] \in {"^", "~"}}    \* what SplitAncestorSpec can hand to the parser
SpecSeq == SetToSeq(SpecStrs)
RECURSIVE Join(_)
Join(s) == IF s = <<>> THEN "" ELSE s[1] \o Join(Tail(s))
\* constant-level tables, built with Append so that TLC holds them as explicit sequences (a function expression would be
\* re-evaluated at every application)
RECURSIVE NamesUpTo(_)
NamesUpTo(k) == IF k = 0 THEN <<>> ELSE Append(NamesUpTo(k - 1), Join(SpecSeq[k]))
RECURSIVE ParsedUpTo(_)
ParsedUpTo(k) == IF k = 0 THEN <<>> ELSE Append(ParsedUpTo(k - 1), Parse(SpecSeq[k]))
SpecNames == NamesUpTo(Len(SpecSeq))
SpecParsed == ParsedUpTo(Len(SpecSeq))
\* pairs of accepted spec strings whose concatenation is still within the bound
SpecPairSeq == SetToSeq({st \in SpecStrs \X SpecStrs : Len(st[1]) + Len(st[2]) <= MaxSpecLen /\ Parse(st[1]) # ParseErr /\ Parse(st[2]) # ParseErr})

\* ------------------------------------------------------------------ projection shipped to the engines
SortKeys(S) == SortSeq(SetToSeq(S), LAMBDA x, y : x[1] < y[1] \/ (x[1] = y[1] /\ x[2] < y[2]))
SortInts(S) == SortSeq(SetToSeq(S), LAMBDA x, y : x < y)
HcaTab == LET anc == AncTab
              lp == LpTab
          IN [a \in Commits |-> [b \in Commits |-> HCAof(anc, lp, a, b)]]
MetaRec == [n |-> N, par |-> par, ht |-> ht, clo |-> [c \in Commits |-> SortKeys(clo[c])]]
GraphRecOf(H) == [n |-> N, par |-> par, ht |-> ht,
                  clo |-> [c \in Commits |-> SortKeys(clo[c])],
                  hca |-> [a \in Commits |-> [b \in Commits |-> SortInts(H[a][b])]],
                  ff |-> [a \in Commits |-> [b \in Commits |-> FFClassOf(H[a][b], a, b)]],
                  specs |-> SpecNames,
                  walk |-> [c \in Commits |-> [i \in 1..Len(SpecSeq) |-> WalkP(c, SpecParsed[i])]]]
GraphRec == GraphRecOf(HcaTab)

\* ------------------------------------------------------------------ actions
Init == par = <<>> /\ ht = <<>> /\ clo = <<>> /\ head = [b \in Branches |-> 0] /\ hist = <<>>

ParentSeqs == UNION {[1..k -> Commits] : k \in 0..MaxParents}

Push(ps) == /\ par' = Append(par, ps)
            /\ ht' = Append(ht, NewHeight(ps))
            /\ clo' = Append(clo, NewClosure(ps))

Rec(a, args, res) == IF D > 0 THEN Append(hist, [a |-> a, args |-> args, res |-> res, head |-> head', n |-> Len(par'),
                                                  newpar |-> IF Len(par') > N THEN par'[N + 1] ELSE <<-1>>,
                                                  newht |-> IF Len(par') > N THEN ht'[N + 1] ELSE 0])
                     ELSE hist

\* a commit that no ref points to (datas.NewCommitForValue / db.Commit on a fresh dataset): any parent list
AddCommit(ps) == /\ N < MaxCommits /\ Push(ps) /\ UNCHANGED head
                 /\ hist' = Rec("AddCommit", [ps |-> ps], "ok")

\* FAULT ACTION: a chunk of a parent's stored closure cannot be read while the closures are merged (I/O error, remote store):
\* writeFbCommitParentClosure returns the error, newCommitForValue fails, nothing is written - the graph is unchanged. (A
\* commit that "succeeds" with whatever part of the closure was read would violate MetaExact.) The engine realises it in the
\* amplified binding with a fault-injecting chunk store: the commit must fail without recording a head and the retry must be
\* exact, or it must be exact straight away.
AddCommitReadFault(ps) == /\ N < MaxCommits /\ Len(ps) >= 2
                          /\ UNCHANGED <<par, ht, clo, head>>
                          /\ hist' = Rec("AddCommitReadFault", [ps |-> ps], "error")

\* DoltDB.CommitWithParentCommits on branch b: the branch head becomes the first parent, the given parents follow
\* except those equal to the head (doltdb.go: `if addr != headAddr`); the branch moves to the new commit.
BranchParents(b, extra) == IF head[b] = 0 THEN extra
                           ELSE <<head[b]>> \o SelectSeq(extra, LAMBDA x : x # head[b])
BranchCommit(b, extra) == /\ N < MaxCommits
                          /\ Push(BranchParents(b, extra))
                          /\ head' = [head EXCEPT ![b] = N + 1]
                          /\ hist' = Rec("BranchCommit", [b |-> b, extra |-> extra], "ok")

\* DoltDB.FastForward: allowed iff the branch does not exist yet or its head is an ancestor of the target
FastForward(b, c) == LET ok == head[b] = 0 \/ CanFFCode(head[b], c) IN
                     /\ head' = IF ok THEN [head EXCEPT ![b] = c] ELSE head
                     /\ UNCHANGED <<par, ht, clo>>
                     /\ hist' = Rec("FastForward", [b |-> b, c |-> c], IF ok THEN "ok" ELSE "mergeneeded")

\* DoltDB.SetHead: force
SetHead(b, c) == /\ head' = [head EXCEPT ![b] = c] /\ UNCHANGED <<par, ht, clo>>
                 /\ hist' = Rec("SetHead", [b |-> b, c |-> c], "ok")

\* DoltDB.DeleteBranch: ErrBranchNotFound for a missing branch, refuses to delete the last branch (deleteRef)
DeleteBranch(b) == LET res == IF head[b] = 0 THEN "notfound"
                              ELSE IF Cardinality({x \in Branches : head[x] # 0}) = 1 THEN "lastbranch"
                              ELSE "ok"
                   IN /\ head' = IF res = "ok" THEN [head EXCEPT ![b] = 0] ELSE head
                      /\ UNCHANGED <<par, ht, clo>>
                      /\ hist' = Rec("DeleteBranch", [b |-> b], res)

NextDag == \E ps \in ParentSeqs : AddCommit(ps)

\* simulation: parameters of the rarely interesting choices are drawn once (RandomElement under a singleton \E)
ExtraSeqs == UNION {[1..k -> Commits] : k \in 0..(MaxParents - 1)}
NextRefs == \/ \E b \in Branches : \E e \in {RandomElement(ExtraSeqs)} : BranchCommit(b, e)
            \/ \E b \in Branches : BranchCommit(b, <<>>)
            \/ \E ps \in {RandomElement(ParentSeqs)} : AddCommit(ps)
            \/ (N > 0 /\ \E b \in Branches : \E c \in {RandomElement(Commits)} : FastForward(b, c))
            \/ (N > 0 /\ \E b \in {RandomElement(Branches)} : \E c \in {RandomElement(Commits)} : SetHead(b, c))
            \/ \E b \in Branches : DeleteBranch(b)

Spec == Init /\ [][NextDag]_vars

\* ------------------------------------------------------------------ what TLC checks on every DAG
TypeOK == /\ Len(ht) = N /\ Len(clo) = N
          /\ \A c \in Commits : \A i \in 1..Len(par[c]) : par[c][i] \in 1..(c - 1)
          /\ \A b \in Branches : head[b] \in 0..N

\* C18: stored height is one more than the highest parent (one for a root) ...
HeightRule == \A c \in Commits : ht[c] = IF par[c] = <<>> THEN 1 ELSE 1 + MaxOf({ht[p] : p \in PSet(c)})
\* ... equals the longest path to a root, and the stored closure lists exactly the proper ancestors with their heights
MetaExactOf(anc, lp) == \A c \in Commits : /\ ht[c] = lp[c]
                                           /\ clo[c] = {<<lp[x], x>> : x \in anc[c] \ {c}}
                                           /\ \A x \in anc[c] \ {c} : ht[x] < ht[c]
MetaExact == MetaExactOf(AncTab, LpTab)

\* C19 (declarative): merge-base candidates are common ancestors, none higher, symmetric, empty iff nothing in common
HCAPropsOf(anc, H) == \A a, b \in Commits :
              /\ H[a][b] \subseteq (anc[a] \cap anc[b])
              /\ H[a][b] = H[b][a]
              /\ (H[a][b] = {}) <=> (anc[a] \cap anc[b] = {})
              /\ \A x \in H[a][b], y \in H[a][b] : ht[x] = ht[y]
              /\ \A x \in H[a][b] : \A y \in anc[a] \cap anc[b] : ht[y] <= ht[x]
              /\ (a \in anc[b] => H[a][b] = {a})
FFPropsOf(anc, H) == \A a, b \in Commits :
              LET cls == FFClassOf(H[a][b], a, b) IN
              /\ (cls \in {"uptodate", "ff"}) <=> (a \in anc[b])          \* CanFastForwardTo = "a is an ancestor of b"
              /\ (cls = "ahead") <=> (b \in anc[a] \ {a})
              /\ (cls = "uptodate") <=> (a = b)
HCAProps == HCAPropsOf(AncTab, HcaTab)
FFProps == FFPropsOf(AncTab, HcaTab)

\* the cheap invariants evaluated together on shared tables; prints the conformance case of a complete DAG
DagInv == LET anc == AncTab
              lp == LpTab
              H == [a \in Commits |-> [b \in Commits |-> HCAof(anc, lp, a, b)]]
          IN /\ MetaExactOf(anc, lp)
             /\ (EmitDags # "meta" => (HCAPropsOf(anc, H) /\ FFPropsOf(anc, H)))
             /\ CASE EmitDags = "full" /\ N = MaxCommits -> PrintT(ToJson(GraphRecOf(H)))
                  [] EmitDags = "meta" /\ N = MaxCommits -> PrintT(ToJson(MetaRec))
                  [] OTHER -> TRUE

\* C19 (operational): for EVERY address order both algorithms return a candidate, independent of argument order,
\* "none" exactly when there is no candidate; the closure walk picks the largest address among the candidates,
\* the parents-list walk the smallest (so the two routes may legitimately differ on criss-cross histories).
AlgsCorrect == CheckAlgs =>
    LET anc == AncTab
        lp == LpTab
    IN \A a, b \in Commits : a <= b =>
        LET H == HCAof(anc, lp, a, b) IN
        /\ AlgSetClosure(a, b) = H /\ AlgSetClosure(b, a) = H
        /\ \A r \in Ranks :
              LET x == AlgClosure(a, b, r)
                  y == AlgParentsList(a, b, r)
              IN /\ (H = {}) <=> (x = 0)
                 /\ (H = {}) <=> (y = 0)
                 /\ H # {} => (x = (IF HasClosure(a) /\ HasClosure(b) THEN MaxRank(H, r) ELSE MinRank(H, r)) /\ y = MinRank(H, r))
                 /\ x = AlgClosure(b, a, r)
                 /\ y = AlgParentsList(b, a, r)

\* ancestor specs: every resolved commit is an ancestor; concatenation of specs = composition of walks (this is what
\* lets C44 resolve `name<spec>` as "resolve name, then walk"); ~n is n times ^1; ^0 and ^3 are rejected
WalkProps == /\ \A c \in Commits : \A i \in 1..Len(SpecSeq) :
                    LET w == WalkP(c, SpecParsed[i]) IN w > 0 => w \in AncIncl(c)
             /\ \A c \in Commits : \A k \in 1..Len(SpecPairSeq) :
                    LET st == SpecPairSeq[k] IN
                    Walk(c, st[1] \o st[2]) = (IF Walk(c, st[1]) > 0 THEN Walk(Walk(c, st[1]), st[2]) ELSE 0)
             /\ (N = 0 => \A k \in 1..Len(SpecPairSeq) :
                    LET st == SpecPairSeq[k] IN Parse(st[1] \o st[2]) = Parse(st[1]) \o Parse(st[2]))
SpecFacts == /\ Parse(<<>>) = <<>>
             /\ Parse(<<"~">>) = <<0>> /\ Parse(<<"^">>) = <<0>> /\ Parse(<<"~", "0">>) = <<>>
             /\ Parse(<<"^", "0">>) = ParseErr /\ Parse(<<"^", "3">>) = ParseErr /\ Parse(<<"^", "2">>) = <<1>>
             /\ Parse(<<"~", "2">>) = <<0, 0>> /\ Parse(<<"~", "^", "2">>) = <<0, 1>>

\* ------------------------------------------------------------------ emission of histories (simulation)
EmitHist == D = 0 \/ Len(hist) < D \/ PrintT(ToJson([steps |-> hist, final |-> GraphRec]))
=============================================================================
