--------------------------- MODULE Blobstore ---------------------------
(* The Blobstore interface of go/store/blobstore (blobstore.go) as implemented by InMemoryBlobstore (inmem.go),
   LocalBlobstore (local.go) and GitBlobstore (git_blobstore.go), and as used by nbs.blobstoreManifest.Update
   (store/nbs/bs_manifest.go: read version + contents, then CheckAndPutManifest(version)).

   Register layer (the manifest key):  mver = current version (0 = the key does not exist), mcon = contents.
     RegRead                 Get(manifest)  -> (version, contents) | NotFound
     RegCAS(exp, new, con)   CheckAndPutManifest(exp, con): succeeds iff exp = mver, then installs (new, con);
                             otherwise CheckAndPutError{expected, actual = mver} and nothing changes
     versions: "unique"  a fresh version per successful write (uuid of inmem, mtime of local);
               "content" the version is a function of the contents (git blob id of GitBlobstore): writing the contents that
                         are already there yields the same version again.
   Blob layer (every other key): Put (unconditional), Get(key, BlobRange), Concatenate(key, sources), Exists.
     BlobRange (range.go): offset >= 0: [offset, offset+length) clipped to the size, length 0 = to the end;
                           offset < 0: distance from the end; AllRange = (0, 0).
   Client layer: every client repeats  ReadVersion ; CheckAndPut(seen)  - the protocol of updateBSWithChecker.
   Local refinement (FineGrained): LocalBlobstore.CheckAndPutManifest = flock ; Get version ; compare ; write temp ; rename ;
     unlock (local.go:186) as separate steps, plus the NAMED FAULT RoguePut: a plain Put on the manifest key, which takes no
     lock (blobstore.go documents Put on an existing key as implementation-defined; nbs never issues it).
   Properties: C42. *)
EXTENDS Integers, Sequences, FiniteSets, TLC, Json

CONSTANTS Clients,        \* client ids
          Keys,           \* non-manifest keys
          MaxWrites,      \* bound on successful manifest writes
          MaxAttempts,    \* bound on CAS attempts per client
          VersionMode,    \* "unique" | "content"
          Contents,       \* manifest contents a client may write: integers >= 100 ("content" mode: the version IS the contents)
          FineGrained,    \* TRUE: the local lock protocol in separate steps
          AllowRoguePut,  \* TRUE: the named fault is enabled
          MaxSize,        \* blobs are sequences over 1..MaxSize positions (bytes = their own position within the source blob)
          RangeOffs, RangeLens,   \* the BlobRange space checked by RangeIsSlice
          D, RecordHist

VARIABLES mver, mcon,     \* the manifest register
          nextv,          \* next fresh version ("unique" mode)
          blobs,          \* [Keys -> sequence of bytes, or Absent]
          pc, seen, tries,\* per client: "idle" | "cas" | "locked" | "checked";  version read;  attempts made
          lockh,          \* holder of the manifest file lock (FineGrained), or None
          writes,         \* history of manifest writes: [kind, c, exp, new]  (the property is stated on it)
          hist

vars == <<mver, mcon, nextv, blobs, pc, seen, tries, lockh, writes, hist>>
view == <<mver, mcon, nextv, blobs, pc, seen, tries, lockh, writes>>

None == "none"
Absent == <<0 - 1>>     \* (bytes are positive integers)

\* ------------------------------------------------------------------ register layer (shared with TraceBlobstore)
VersionOf(con, fresh) == IF VersionMode = "content" THEN con ELSE fresh
CasSucceeds(cur, exp) == exp = cur
\* ------------------------------------------------------------------ BlobRange (range.go)
\* positiveRange, transcribed
PosRange(size, off, len) ==
    LET o == IF off < 0 THEN size + off ELSE off
        l == IF o + len > size \/ len = 0 THEN size - o ELSE len IN
    <<o, l>>
\* the domain on which every backend defines a range: the offset addresses a position of the blob or its end
RangeDefined(size, off) == (0 - size) <= off /\ off <= size
RangeOf(data, off, len) == LET pr == PosRange(Len(data), off, len) IN SubSeq(data, pr[1] + 1, pr[1] + pr[2])
\* what the documentation of BlobRange says, stated directly
Min(a, b) == IF a < b THEN a ELSE b
Slice(data, off, len) ==
    LET size == Len(data)
        start == IF off < 0 THEN size + off ELSE off
        stop == IF len = 0 THEN size ELSE Min(start + len, size) IN
    [i \in 1..(stop - start) |-> data[start + i]]
RECURSIVE Concat(_, _)
Concat(bs, srcs) == IF srcs = <<>> THEN <<>> ELSE bs[Head(srcs)] \o Concat(bs, Tail(srcs))

\* ------------------------------------------------------------------ actions
Rec(a, c, args, res) == IF RecordHist THEN Append(hist, [a |-> a, c |-> c, args |-> args, res |-> res]) ELSE hist
W(kind, c, exp, new) == Append(writes, [kind |-> kind, c |-> c, exp |-> exp, new |-> new])

Init == /\ mver = 0 /\ mcon = None /\ nextv = 1
        /\ blobs = [k \in Keys |-> Absent]
        /\ pc = [c \in Clients |-> "idle"] /\ seen = [c \in Clients |-> 0] /\ tries = [c \in Clients |-> 0]
        /\ lockh = None /\ writes = <<>> /\ hist = <<>>

\* manifestVersionAndContents: Get(manifest, AllRange)
ReadVersion(c) ==
    /\ pc[c] = "idle" /\ tries[c] < MaxAttempts
    /\ seen' = [seen EXCEPT ![c] = mver] /\ pc' = [pc EXCEPT ![c] = "cas"]
    /\ hist' = Rec("ReadVersion", c, <<>>, [ver |-> mver, con |-> mcon])
    /\ UNCHANGED <<mver, mcon, nextv, blobs, tries, lockh, writes>>

\* CheckAndPutManifest as one atomic step (inmem: under bs.mutex; git: push with lease)
CheckAndPut(c, con) ==
    /\ ~FineGrained /\ pc[c] = "cas"
    /\ tries' = [tries EXCEPT ![c] = @ + 1] /\ pc' = [pc EXCEPT ![c] = "idle"]
    /\ IF CasSucceeds(mver, seen[c])
       THEN LET nv == VersionOf(con, nextv) IN
            /\ Len(writes) < MaxWrites
            /\ mver' = nv /\ mcon' = con /\ nextv' = nextv + 1
            /\ writes' = W("cas", c, seen[c], nv)
            /\ hist' = Rec("CheckAndPut", c, [exp |-> seen[c], con |-> con], [ok |-> TRUE, ver |-> nv])
       ELSE /\ UNCHANGED <<mver, mcon, nextv, writes>>
            /\ hist' = Rec("CheckAndPut", c, [exp |-> seen[c], con |-> con], [ok |-> FALSE, actual |-> mver])
    /\ UNCHANGED <<blobs, seen, lockh>>

\* ---- LocalBlobstore.CheckAndPutManifest in steps
LLock(c) == /\ FineGrained /\ pc[c] = "cas" /\ lockh = None
            /\ lockh' = c /\ pc' = [pc EXCEPT ![c] = "locked"]
            /\ UNCHANGED <<mver, mcon, nextv, blobs, seen, tries, writes, hist>>
\* Get current version under the lock and compare; on mismatch unlock and fail
LCheck(c) == /\ FineGrained /\ pc[c] = "locked"
             /\ tries' = [tries EXCEPT ![c] = @ + 1]
             /\ IF mver = seen[c]
                THEN /\ pc' = [pc EXCEPT ![c] = "checked"] /\ UNCHANGED <<lockh, hist>>
                ELSE /\ pc' = [pc EXCEPT ![c] = "idle"] /\ lockh' = None
                     /\ hist' = Rec("CheckAndPut", c, [exp |-> seen[c]], [ok |-> FALSE, actual |-> mver])
             /\ UNCHANGED <<mver, mcon, nextv, blobs, seen, writes>>
\* Put = temp file, sleep, rename (atomic), stat; then unlock
LWrite(c, con) == /\ FineGrained /\ pc[c] = "checked" /\ Len(writes) < MaxWrites
                  /\ LET nv == VersionOf(con, nextv) IN
                     /\ mver' = nv /\ mcon' = con /\ nextv' = nextv + 1
                     /\ writes' = W("cas", c, seen[c], nv)
                     /\ hist' = Rec("CheckAndPut", c, [exp |-> seen[c], con |-> con], [ok |-> TRUE, ver |-> nv])
                  /\ pc' = [pc EXCEPT ![c] = "idle"] /\ lockh' = None
                  /\ UNCHANGED <<blobs, seen, tries>>
\* the named fault: Put(manifest) takes no lock
RoguePut(con) == /\ AllowRoguePut /\ Len(writes) < MaxWrites
                 /\ LET nv == VersionOf(con, nextv) IN
                    /\ mver' = nv /\ mcon' = con /\ nextv' = nextv + 1
                    /\ writes' = W("put", None, mver, nv)
                    /\ hist' = Rec("RoguePut", None, [con |-> con], [ver |-> nv])
                 /\ UNCHANGED <<blobs, pc, seen, tries, lockh>>

\* ---- blob layer
Datas == {[i \in 1..n |-> i] : n \in 0..MaxSize}
PutBlob(k, d) == /\ blobs[k] = Absent            \* table files are written once (content addressed)
                 /\ blobs' = [blobs EXCEPT ![k] = d]
                 /\ hist' = Rec("Put", None, [key |-> k, size |-> Len(d)], [ok |-> TRUE])
                 /\ UNCHANGED <<mver, mcon, nextv, pc, seen, tries, lockh, writes>>
ConcatBlob(k, srcs) == /\ blobs[k] = Absent /\ \A i \in 1..Len(srcs) : blobs[srcs[i]] # Absent
                       /\ Len(Concat(blobs, srcs)) <= MaxSize
                       /\ blobs' = [blobs EXCEPT ![k] = Concat(blobs, srcs)]
                       /\ hist' = Rec("Concatenate", None, [key |-> k, srcs |-> srcs], [size |-> Len(Concat(blobs, srcs))])
                       /\ UNCHANGED <<mver, mcon, nextv, pc, seen, tries, lockh, writes>>

Next == \/ \E c \in Clients : ReadVersion(c)
        \/ \E c \in Clients, con \in Contents : CheckAndPut(c, con)
        \/ \E c \in Clients : LLock(c) \/ LCheck(c)
        \/ \E c \in Clients, con \in Contents : LWrite(c, con)
        \/ \E con \in Contents : RoguePut(con)
        \/ \E k \in Keys, d \in Datas : PutBlob(k, d)
        \/ \E k \in Keys, s1 \in Keys, s2 \in Keys : k # s1 /\ k # s2 /\ ConcatBlob(k, <<s1, s2>>)
Spec == Init /\ [][Next]_vars

\* ------------------------------------------------------------------ what TLC checks
TypeOK == /\ mver \in Nat /\ pc \in [Clients -> {"idle", "cas", "locked", "checked"}]
          /\ lockh \in Clients \cup {None}
          /\ (lockh # None => pc[lockh] \in {"locked", "checked"})
          /\ \A c \in Clients : pc[c] \in {"locked", "checked"} => lockh = c
\* every successful conditional write was made against the version installed by the write just before it
CASChain == \A i \in 1..Len(writes) :
               writes[i].kind = "cas" => writes[i].exp = (IF i = 1 THEN 0 ELSE writes[i - 1].new)
\* no two conditional writers win against the same version (with unique versions)
AtMostOneWinnerPerVersion ==
    VersionMode = "unique" =>
      \A i \in 1..Len(writes), j \in 1..Len(writes) :
         (i # j /\ writes[i].kind = "cas" /\ writes[j].kind = "cas") => writes[i].exp # writes[j].exp
\* the register holds what the last write installed
RegisterIsLastWrite == IF writes = <<>> THEN mver = 0 ELSE mver = writes[Len(writes)].new
\* positiveRange + slicing returns exactly the documented bytes, for every blob and every range of the space
RangeIsSlice ==
    \A d \in Datas, off \in RangeOffs, len \in RangeLens :
       RangeDefined(Len(d), off) =>
          /\ RangeOf(d, off, len) = Slice(d, off, len)
          \* suffix / open / all ranges
          /\ (len = 0 /\ off >= 0 => RangeOf(d, off, len) = SubSeq(d, off + 1, Len(d)))
          /\ (len = 0 /\ off < 0 => RangeOf(d, off, len) = SubSeq(d, Len(d) + off + 1, Len(d)))
          /\ (off >= 0 /\ len > 0 /\ off + len <= Len(d) => RangeOf(d, off, len) = SubSeq(d, off + 1, off + len))
\* a split read gives back the whole
RangesCompose == \A d \in Datas, k \in 1..MaxSize : k < Len(d) => RangeOf(d, 0, k) \o RangeOf(d, k, 0) = d
ConcatIsConcat == \A k \in Keys : blobs[k] # Absent => Len(blobs[k]) <= MaxSize

Emit == Len(hist) < D \/ PrintT(ToJson(hist))

\* ------------------------------------------------------------------ enumeration of the range space for the engine (mode R)
\* expectation for (size, off, len): <<lo, hi>> = the half-open interval of positions returned, or <<-1, -1>> when the range
\* is outside the documented domain (the backends then answer with an error, an empty read or a panic - not part of C42)
RangeCase(size, off, len) ==
    IF RangeDefined(size, off)
    THEN LET pr == PosRange(size, off, len) IN [size |-> size, off |-> off, len |-> len, lo |-> pr[1], hi |-> pr[1] + pr[2]]
    ELSE [size |-> size, off |-> off, len |-> len, lo |-> 0 - 1, hi |-> 0 - 1]
\* (state-level on purpose: TLC evaluates constant-level definitions at start-up of every configuration)
EmitRanges == mver = 0 => PrintT(ToJson([ranges |-> {RangeCase(n, off, len) : n \in 0..MaxSize, off \in RangeOffs, len \in RangeLens},
                             concats |-> {[srcs |-> s, size |-> s[1] + s[2] + s[3]] : s \in (0..2) \X (0..2) \X (0..2)}]))

\* range spaces for the configurations (cfg files cannot spell negative numbers)
OffsFull == (0 - 7)..7
LensFull == 0..8
OffsSmall == (0 - 4)..4
LensSmall == 0..4
=============================================================================
