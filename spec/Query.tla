--------------------------- MODULE Query ---------------------------
(* Read queries over tiny tables with SQL three-valued logic: the *generator* and third opinion of C26
   (dolt returns the same result as go-mysql-server's in-memory engine on the same data and query).

     t (pk INT PRIMARY KEY, a INT NULL, s VARCHAR(8) NULL, KEY ia (a))
     u (pk INT PRIMARY KEY, a INT NULL, c INT NULL,        KEY ua (a))          -- u.c is not indexed

   Code on dolt's side that these queries reach: index range scans and point lookups
   (sqle/index/dolt_index.go prollyRanges, prolly/tuple_range.go), lookup and merge joins of the key-value
   executors (sqle/kvexec), the COUNT-star fast path (kvexec/count_agg.go), reads AS OF an earlier commit.

   A row is a record; SQL NULL is the sentinel NullI (ints) / NullS (strings); truth values are "T", "F", "U".
   Eval(q) is the result as a sequence of rows (each row a sequence of printable cells); `ord` says whether the
   sequence order is determined (ORDER BY on the primary key), otherwise it is to be read as a multiset.
   The state machine: state = (data, query); Init chooses data, Next chooses a query.  TLC checks algebraic laws
   of the evaluator on every (data, query) of the exhaustive bound and emits SQL text + expected result. *)
EXTENDS Integers, Sequences, FiniteSets, TLC, Json, Randomization

CONSTANTS PKs,       \* primary key values (set of ints)
          AVals,     \* non-null values of the int columns a, c
          SVals,     \* non-null values of the string column s
          MaxRows,   \* rows of t
          MaxRowsU,  \* rows of u
          MaxDepth,  \* nesting depth of predicates
          NQ,        \* simulation: queries per data set
          EmitMod

VARIABLES tt, uu,    \* current contents (sets of rows)
          t0, u0,    \* contents at the earlier commit c0
          q,         \* the query of this state (or NoQuery)
          hist

vars == <<tt, uu, t0, u0, q, hist>>
view == <<tt, uu, t0, u0, q>>

NullI == -99
NullS == "~"
IntCells == AVals \cup {NullI}
StrCells == SVals \cup {NullS}
\* a table = for every primary key value either no row (<<>>) or its two other cells
TFuns == [PKs -> {<<>>} \cup (IntCells \X StrCells)]
UFuns == [PKs -> {<<>>} \cup (IntCells \X IntCells)]
Used(f) == {k \in PKs : f[k] # <<>>}
TTab(f) == {[pk |-> k, a |-> f[k][1], s |-> f[k][2]] : k \in Used(f)}
UTab(f) == {[pk |-> k, a |-> f[k][1], c |-> f[k][2]] : k \in Used(f)}
TTabs == {TTab(f) : f \in {g \in TFuns : Cardinality(Used(g)) <= MaxRows}}
UTabs == {UTab(f) : f \in {g \in UFuns : Cardinality(Used(g)) <= MaxRowsU}}

\* ------------------------------------------------------------------ three-valued logic
And3(x, y) == IF x = "F" \/ y = "F" THEN "F" ELSE IF x = "U" \/ y = "U" THEN "U" ELSE "T"
Or3(x, y) == IF x = "T" \/ y = "T" THEN "T" ELSE IF x = "U" \/ y = "U" THEN "U" ELSE "F"
Not3(x) == IF x = "T" THEN "F" ELSE IF x = "F" THEN "T" ELSE "U"
B3(b) == IF b THEN "T" ELSE "F"

\* ------------------------------------------------------------------ predicates over one row of t
\* [k |-> "cmp", col, op, v] | [k |-> "in", col, vs] | [k |-> "null", col, neg] | [k |-> "seq", v] (s = 'v')
\* | [k |-> "and"/"or", l, r] | [k |-> "not", l]
CmpOps == {"=", "<", "<=", ">", ">=", "<>"}
Cmp(op, x, y) == CASE op = "=" -> x = y [] op = "<" -> x < y [] op = "<=" -> x <= y
                   [] op = ">" -> x > y [] op = ">=" -> x >= y [] OTHER -> x # y
IntCol(r, col) == IF col = "pk" THEN r.pk ELSE r.a

RECURSIVE Truth(_, _)
Truth(p, r) ==
    CASE p.k = "cmp" -> (IF IntCol(r, p.col) = NullI THEN "U" ELSE B3(Cmp(p.op, IntCol(r, p.col), p.v)))
      [] p.k = "in" -> (IF IntCol(r, p.col) = NullI THEN "U" ELSE B3(IntCol(r, p.col) \in p.vs))
      [] p.k = "null" -> B3((IntCol(r, p.col) = NullI) # p.neg)
      [] p.k = "seq" -> (IF r.s = NullS THEN "U" ELSE B3(r.s = p.v))
      [] p.k = "and" -> And3(Truth(p.l, r), Truth(p.r, r))
      [] p.k = "or" -> Or3(Truth(p.l, r), Truth(p.r, r))
      [] p.k = "not" -> Not3(Truth(p.l, r))
      [] OTHER -> "T"                                   \* [k |-> "true"]

PTrue == [k |-> "true"]
Consts == AVals \cup {0, 9}                              \* constants compared with: the values and one below / above all of them
Atoms == {[k |-> "cmp", col |-> c, op |-> o, v |-> v] : c \in {"pk", "a"}, o \in CmpOps, v \in Consts}
         \cup {[k |-> "in", col |-> c, vs |-> vs] : c \in {"pk", "a"}, vs \in {S \in SUBSET Consts : Cardinality(S) = 2}}
         \cup {[k |-> "null", col |-> "a", neg |-> n] : n \in BOOLEAN}
         \cup {[k |-> "seq", v |-> v] : v \in SVals}
\* exhaustive bound: every atom, and every and/or/not over a small set of atoms (range, equality, NULL test)
SmallAtoms == {[k |-> "cmp", col |-> "a", op |-> o, v |-> 2] : o \in {"=", "<", ">="}}
              \cup {[k |-> "null", col |-> "a", neg |-> FALSE], [k |-> "cmp", col |-> "pk", op |-> ">", v |-> 1]}
Preds(d) == IF d = 0 THEN Atoms
            ELSE Atoms \cup {[k |-> "and", l |-> x, r |-> y] : x \in SmallAtoms, y \in SmallAtoms}
                       \cup {[k |-> "or", l |-> x, r |-> y] : x \in SmallAtoms, y \in SmallAtoms}
                       \cup {[k |-> "not", l |-> x] : x \in SmallAtoms}

\* ------------------------------------------------------------------ SQL text
IntLit(v) == IF v = NullI THEN "NULL" ELSE ToString(v)
StrLit(v) == IF v = NullS THEN "NULL" ELSE "'" \o v \o "'"
RECURSIVE JoinStr(_, _)
JoinStr(ss, sep) == IF ss = <<>> THEN "" ELSE IF Len(ss) = 1 THEN ss[1] ELSE ss[1] \o sep \o JoinStr(Tail(ss), sep)
RECURSIVE SortInts(_)
SortInts(S) == IF S = {} THEN <<>> ELSE LET m == CHOOSE x \in S : \A y \in S : x <= y IN <<m>> \o SortInts(S \ {m})
RECURSIVE PredSQL(_)
PredSQL(p) ==
    CASE p.k = "cmp" -> "t." \o p.col \o " " \o p.op \o " " \o ToString(p.v)
      [] p.k = "in" -> "t." \o p.col \o " IN (" \o JoinStr([i \in 1..Cardinality(p.vs) |-> ToString(SortInts(p.vs)[i])], ", ") \o ")"
      [] p.k = "null" -> "t." \o p.col \o (IF p.neg THEN " IS NOT NULL" ELSE " IS NULL")
      [] p.k = "seq" -> "t.s = '" \o p.v \o "'"
      [] p.k = "and" -> "(" \o PredSQL(p.l) \o " AND " \o PredSQL(p.r) \o ")"
      [] p.k = "or" -> "(" \o PredSQL(p.l) \o " OR " \o PredSQL(p.r) \o ")"
      [] p.k = "not" -> "NOT (" \o PredSQL(p.l) \o ")"
      [] OTHER -> "TRUE"

\* ------------------------------------------------------------------ queries
\* kind: "sel" rows of t matching p, ORDER BY pk (dir) LIMIT lim (lim = 0: none; ord = FALSE: no ORDER BY)
\*       "agg" COUNT(star), COUNT(a), SUM(a), MIN(a), MAX(a) over the matching rows
\*       "grp" a, COUNT(star), SUM(pk) GROUP BY a
\*       "dis" DISTINCT a
\*       "cnt" COUNT(star) of the whole table, "cnta" COUNT(a) of the whole table (key-value count fast path)
\*       "ij"  t JOIN u ON t.a = u.a (both indexed)        "ijc" t JOIN u ON t.a = u.c (u.c not indexed)
\*       "lj"  t LEFT JOIN u ON t.a = u.a                   "ljc" t LEFT JOIN u ON t.a = u.c
\*       "pkj" t JOIN u ON t.pk = u.pk (merge join on the primary keys)
\* asof: evaluate against the earlier commit
Kinds == {"sel", "agg", "grp", "dis", "cnt", "cnta", "ij", "ijc", "lj", "ljc", "pkj"}
NoQuery == [kind |-> "none"]

Matching(T, p) == {r \in T : Truth(p, r) = "T"}
RECURSIVE SortByPk(_, _)
SortByPk(T, desc) == IF T = {} THEN <<>>
                     ELSE LET m == CHOOSE x \in T : \A y \in T : IF desc THEN x.pk >= y.pk ELSE x.pk <= y.pk
                          IN <<m>> \o SortByPk(T \ {m}, desc)
Take(s, n) == IF n = 0 \/ n >= Len(s) THEN s ELSE SubSeq(s, 1, n)
TRow(r) == <<IntLit(r.pk), IntLit(r.a), StrLit(r.s)>>
RECURSIVE SumA(_), SumPk(_)
SumA(T) == IF T = {} THEN 0 ELSE LET r == CHOOSE r \in T : TRUE IN r.a + SumA(T \ {r})
SumPk(T) == IF T = {} THEN 0 ELSE LET r == CHOOSE r \in T : TRUE IN r.pk + SumPk(T \ {r})
NonNullA(T) == {r \in T : r.a # NullI}
MinA(T) == CHOOSE x \in {r.a : r \in T} : \A y \in {r.a : r \in T} : x <= y
MaxA(T) == CHOOSE x \in {r.a : r \in T} : \A y \in {r.a : r \in T} : x >= y
SetToSeq(S) == LET RECURSIVE F(_) F(U) == IF U = {} THEN <<>> ELSE LET e == CHOOSE e \in U : TRUE IN <<e>> \o F(U \ {e}) IN F(S)

JoinOn(T, U, ucol) == {<<x, y>> \in T \X U : x.a # NullI /\ (IF ucol = "a" THEN y.a ELSE y.c) = x.a}

\* result: sequence of rows, each row a sequence of cell texts ("NULL" for SQL NULL)
Eval(qq, T, U) ==
    LET M == Matching(T, qq.p) IN
    CASE qq.kind = "sel" -> LET s == SortByPk(M, qq.desc) IN
                            IF qq.ord THEN [i \in 1..Len(Take(s, qq.lim)) |-> TRow(Take(s, qq.lim)[i])]
                            ELSE [i \in 1..Len(s) |-> TRow(s[i])]
      [] qq.kind = "agg" -> LET N == NonNullA(M) IN
                            << <<ToString(Cardinality(M)), ToString(Cardinality(N)),
                                 IF N = {} THEN "NULL" ELSE ToString(SumA(N)),
                                 IF N = {} THEN "NULL" ELSE ToString(MinA(N)),
                                 IF N = {} THEN "NULL" ELSE ToString(MaxA(N))>> >>
      [] qq.kind = "grp" -> LET ks == SetToSeq({r.a : r \in M}) IN
                            [i \in 1..Len(ks) |-> LET G == {r \in M : r.a = ks[i]} IN
                                <<IntLit(ks[i]), ToString(Cardinality(G)), ToString(SumPk(G))>>]
      [] qq.kind = "dis" -> LET ks == SetToSeq({r.a : r \in M}) IN [i \in 1..Len(ks) |-> <<IntLit(ks[i])>>]
      [] qq.kind = "cnt" -> << <<ToString(Cardinality(T))>> >>
      [] qq.kind = "cnta" -> << <<ToString(Cardinality(NonNullA(T)))>> >>
      [] qq.kind \in {"ij", "ijc"} ->
             LET J == SetToSeq(JoinOn(M, U, IF qq.kind = "ij" THEN "a" ELSE "c")) IN
             [i \in 1..Len(J) |-> <<IntLit(J[i][1].pk), IntLit(J[i][2].pk)>>]
      [] qq.kind \in {"lj", "ljc"} ->
             LET col == IF qq.kind = "lj" THEN "a" ELSE "c"
                 J == JoinOn(M, U, col)
                 lone == {r \in M : ~\E y \in U : <<r, y>> \in J}
                 js == SetToSeq(J) ls == SetToSeq(lone) IN
             [i \in 1..(Len(js) + Len(ls)) |-> IF i <= Len(js) THEN <<IntLit(js[i][1].pk), IntLit(js[i][2].pk)>>
                                               ELSE <<IntLit(ls[i - Len(js)].pk), "NULL">>]
      [] qq.kind = "pkj" -> LET J == SetToSeq({<<x, y>> \in M \X U : x.pk = y.pk}) IN
                            [i \in 1..Len(J) |-> <<IntLit(J[i][1].pk), IntLit(J[i][2].a)>>]
      [] OTHER -> <<>>

\* SQL text; {t} and {u} are replaced by the engine: `t` / `t AS OF 'c0'` on dolt, `t` / `t_c0` on the memory engine
SQL(qq) ==
    LET w == " WHERE " \o PredSQL(qq.p) IN
    CASE qq.kind = "sel" -> "SELECT t.pk, t.a, t.s FROM {t} t" \o w \o
                            (IF qq.ord THEN " ORDER BY t.pk" \o (IF qq.desc THEN " DESC" ELSE "") \o
                                            (IF qq.lim > 0 THEN " LIMIT " \o ToString(qq.lim) ELSE "") ELSE "")
      [] qq.kind = "agg" -> "SELECT COUNT(" \o "*), COUNT(t.a), SUM(t.a), MIN(t.a), MAX(t.a) FROM {t} t" \o w
      [] qq.kind = "grp" -> "SELECT t.a, COUNT(" \o "*), SUM(t.pk) FROM {t} t" \o w \o " GROUP BY t.a"
      [] qq.kind = "dis" -> "SELECT DISTINCT t.a FROM {t} t" \o w
      [] qq.kind = "cnt" -> "SELECT COUNT(" \o "*) FROM {t} t"
      [] qq.kind = "cnta" -> "SELECT COUNT(t.a) FROM {t} t"
      [] qq.kind = "ij" -> "SELECT t.pk, u.pk FROM {t} t JOIN {u} u ON t.a = u.a" \o w
      [] qq.kind = "ijc" -> "SELECT t.pk, u.pk FROM {t} t JOIN {u} u ON t.a = u.c" \o w
      [] qq.kind = "lj" -> "SELECT t.pk, u.pk FROM {t} t LEFT JOIN {u} u ON t.a = u.a" \o w
      [] qq.kind = "ljc" -> "SELECT t.pk, u.pk FROM {t} t LEFT JOIN {u} u ON t.a = u.c" \o w
      [] qq.kind = "pkj" -> "SELECT t.pk, u.a FROM {t} t JOIN {u} u ON t.pk = u.pk" \o w
      [] OTHER -> ""

Cur(qq) == IF qq.asof THEN <<t0, u0>> ELSE <<tt, uu>>
Result(qq) == Eval(qq, Cur(qq)[1], Cur(qq)[2])
OutRows(T, f(_)) == LET s == SetToSeq(T) IN [i \in 1..Len(s) |-> f(s[i])]
URow(r) == <<IntLit(r.pk), IntLit(r.a), IntLit(r.c)>>
OutQuery(qq) == [sql |-> SQL(qq), kind |-> qq.kind, asof |-> qq.asof, ordered |-> qq.kind = "sel" /\ qq.ord, exp |-> Result(qq)]
OutData == [t |-> OutRows(tt, TRow), u |-> OutRows(uu, URow), t0 |-> OutRows(t0, TRow), u0 |-> OutRows(u0, URow)]

\* ------------------------------------------------------------------ machine
Init == /\ tt \in TTabs /\ uu \in UTabs /\ t0 = {} /\ u0 = {} /\ q = NoQuery /\ hist = <<>>
\* exhaustive: the earlier commit is the empty database except where the cfg says otherwise; simulation draws it
Ask(qq) == /\ q' = qq /\ UNCHANGED <<tt, uu, t0, u0, hist>>
Qry(kd, p, o, ds, lm) == [kind |-> kd, p |-> p, ord |-> o, desc |-> ds, lim |-> lm, asof |-> FALSE]
Next == /\ q = NoQuery
        /\ \/ \E p \in Preds(MaxDepth) \cup {PTrue} :
                 \/ Ask(Qry("sel", p, FALSE, FALSE, 0))
                 \/ \E ds \in BOOLEAN, lm \in 0..1 : Ask(Qry("sel", p, TRUE, ds, lm))
                 \/ \E kd \in Kinds \ {"sel", "cnt", "cnta"} : Ask(Qry(kd, p, FALSE, FALSE, 0))
           \/ Ask(Qry("cnt", PTrue, FALSE, FALSE, 0)) \/ Ask(Qry("cnta", PTrue, FALSE, FALSE, 0))

\* simulation: 8 x 8 x 3 x 3 random data sets per TLC process are the initial states; every behaviour asks NQ random queries of one of them
SimInit == \E f1 \in RandomSubset(8, TFuns), f2 \in RandomSubset(8, UFuns), f3 \in RandomSubset(3, TFuns), f4 \in RandomSubset(3, UFuns) :
           /\ tt = TTab(f1) /\ uu = UTab(f2) /\ t0 = TTab(f3) /\ u0 = UTab(f4)
           /\ q = NoQuery /\ hist = <<>>
\* Dep makes the draws state-dependent (TLC would otherwise evaluate the constant expression RandomElement(Kinds) once)
Dep(S) == IF Len(hist) >= 0 THEN S ELSE {}
RandPred(a, b, c, sh) ==
            CASE sh = 1 -> a [] sh = 2 -> [k |-> "and", l |-> a, r |-> b] [] sh = 3 -> [k |-> "or", l |-> a, r |-> b]
              [] sh = 4 -> [k |-> "not", l |-> [k |-> "or", l |-> a, r |-> b]]
              [] sh = 5 -> [k |-> "or", l |-> a, r |-> [k |-> "and", l |-> b, r |-> c]]
              [] sh = 6 -> [k |-> "and", l |-> [k |-> "not", l |-> a], r |-> [k |-> "or", l |-> b, r |-> c]]
              [] OTHER -> PTrue
SimNext == \E kd \in {RandomElement(Dep(Kinds))} : \E a \in {RandomElement(Dep(Atoms))} : \E b \in {RandomElement(Dep(Atoms))} :
           \E c \in {RandomElement(Dep(Atoms))} : \E sh \in {RandomElement(Dep(1..7))} : \E o \in {RandomElement(Dep(BOOLEAN))} :
           \E ds \in {RandomElement(Dep(BOOLEAN))} : \E lm \in {RandomElement(Dep(0..2))} : \E ao \in {RandomElement(Dep({1, 2, 3}))} :
               LET p == RandPred(a, b, c, sh)
                   qq == [kind |-> kd, p |-> IF kd \in {"cnt", "cnta"} THEN PTrue ELSE p, ord |-> (kd = "sel" /\ o),
                          desc |-> (kd = "sel" /\ o /\ ds), lim |-> IF kd = "sel" /\ o THEN lm ELSE 0, asof |-> ao = 3] IN
               /\ q' = qq /\ hist' = Append(hist, OutQuery(qq)) /\ UNCHANGED <<tt, uu, t0, u0>>
SimEmit == Len(hist) < NQ \/ PrintT(ToJson([data |-> OutData, queries |-> hist]))

\* ------------------------------------------------------------------ what TLC checks (laws of the evaluator)
AsBag(s) == [x \in {s[i] : i \in DOMAIN s} |-> Cardinality({i \in DOMAIN s : s[i] = x})]
Laws ==
    q = NoQuery \/
    LET T == Cur(q)[1] U == Cur(q)[2] p == q.p
        M == Matching(T, p) Mn == Matching(T, [k |-> "not", l |-> p])
        Mu == {r \in T : Truth(p, r) = "U"} IN
    \* WHERE p, WHERE NOT p and the unknown rows partition the table
    /\ M \cup Mn \cup Mu = T /\ M \cap Mn = {} /\ M \cap Mu = {} /\ Mn \cap Mu = {}
    \* De Morgan under three-valued logic
    /\ (p.k = "and" => \A r \in T : Truth([k |-> "not", l |-> p], r) = Or3(Not3(Truth(p.l, r)), Not3(Truth(p.r, r))))
    /\ (p.k = "or" => \A r \in T : Truth([k |-> "not", l |-> p], r) = And3(Not3(Truth(p.l, r)), Not3(Truth(p.r, r))))
    \* result shapes
    /\ (q.kind = "sel" => /\ Len(Result(q)) <= Cardinality(M)
                          /\ (q.lim = 0 => Len(Result(q)) = Cardinality(M))
                          /\ (q.ord /\ q.lim > 0 => Len(Result(q)) = (IF Cardinality(M) < q.lim THEN Cardinality(M) ELSE q.lim)))
    /\ (q.kind = "agg" => Result(q)[1][1] = ToString(Cardinality(M)))
    /\ (q.kind = "cnta" => Result(q) = << <<Eval([q EXCEPT !.kind = "agg"], T, U)[1][2]>> >>)
    /\ (q.kind = "dis" => Len(Result(q)) = Cardinality({r.a : r \in M}))
    /\ (q.kind = "grp" => Len(Result(q)) = Cardinality({r.a : r \in M}))
    \* a left join contains the inner join and keeps every matching left row
    /\ (q.kind = "lj" => /\ Len(Result(q)) >= Len(Eval([q EXCEPT !.kind = "ij"], T, U))
                         /\ {Result(q)[i][1] : i \in DOMAIN Result(q)} = {IntLit(r.pk) : r \in M})
    /\ (q.kind = "ij" => \A i \in DOMAIN Result(q) : Result(q)[i][2] # "NULL")
    \* NULL never joins
    /\ (q.kind \in {"ij", "ijc", "pkj"} => \A r \in M : r.a = NullI /\ q.kind # "pkj" => ~\E i \in DOMAIN Result(q) : Result(q)[i][1] = IntLit(r.pk))

Emit == q = NoQuery \/ EmitMod = 0 \/ (EmitMod > 1 /\ RandomElement(1..EmitMod) # 1)
        \/ PrintT(ToJson([data |-> OutData, queries |-> <<OutQuery(q)>>]))
=============================================================================
