--------------------------- MODULE RowMerge ---------------------------
(* Row-level three-way merge of ONE dolt table, as performed by CALL dolt_merge, and the life of the
   conflicts it leaves behind (dolt_conflicts_<t>, dolt_conflicts_resolve, manual resolution, abort).

   Transcribed from
     go/store/prolly/tree/three_way_differ.go        ThreeWayDiffer.Next        -> OpOf
     go/libraries/doltcore/merge/merge_prolly_rows.go
        valueMerger.TryMerge / processBaseColumn / processColumn               -> TryMerge / PBC / PC
        computeProllyTreePatches (switch diff.Op, primaryMerger, conflictMerger) -> MergeKey / Stats
        keyless branch of TryMerge and of the Convergent* ops                  -> KMergeMult
     go/libraries/doltcore/merge/merge_schema.go  mergeColumns                 -> MergedSch
     go/libraries/doltcore/merge/merge_rows.go    MaybeShortCircuit            -> ShortCircuit (statistics only)
     go/libraries/doltcore/sqle/dprocedures/dolt_conflicts_resolve.go          -> ResolveOurs / ResolveTheirs
     go/libraries/doltcore/sqle/dtables/conflicts_tables_prolly.go             -> ConfRec / ResolveKey

   A keyed table is  [Keys -> Row \cup {Absent}];  a row is a tuple indexed by COLUMN ID (1..3) whose entry is a cell
   value (0 = SQL NULL, 1..n = values) or NoCol (-1) when the table's schema does not have that column.  With this
   encoding "row differs from base" is TRUE for every present row as soon as one side added or dropped a column - which
   is exactly ThreeWayDiffInfo.{Left,Right}SchemaChange ("consider all rows modified").
   A keyless table is a bag  [KRows -> 0..MaxMult]  (dolt: key = hash of the row, value = cardinality).

   Schema deltas are one-sided (the other side keeps the base schema <<1,2>>):
     add     column 3 at storage position pos \in 1..3 with default def (0 = NULL)
     drop    column col
     reorder storage order <<2,1>>
     widen   type of column col is widened (no change of model values; binding picks the SQL types)

   Deliberate deviations of the code from the "ideal" reading, kept as NAMED operators:
     KeylessConvergentIsConflict   both sides making the same multiplicity change is a conflict (merge_rows.go:394,
                                   merge_prolly_rows.go:427)
     DeleteWinsOverNewColumnEdit   delete vs. a row whose only edit is in a column the base does not have: delete wins
                                   (processBaseColumn only looks at base columns)
     StatsFastPath                 the chunk-level fast path does not count Adds/Modifications/Deletes
     ByteAlias                     the differ compares value tuples as BYTES in storage order; with a one-sided
                                   reorder a logically changed row can be byte-equal to the base row (and a logically
                                   different pair of rows byte-equal to each other).  The model merges LOGICALLY (by column
                                   id); ByteAlias flags the triples on which the byte-level classification differs.
     PbcForeignIndex               processBaseColumn, branch "right deleted the row", indexes m.rightSchema with the LEFT
                                   column index; flagged on the triples that reach that branch with a shifted index.

   State machine (one action per SQL statement / procedure call):
     PickSides (triples mode)                          choose left and right for the (delta, base) of the initial state
     Insert / Update / Delete / Alter                   DML and the one-sided DDL on branch L or R (history mode)
     KIns / KDel / KUpd / KDelW / KUpdW                 keyless DML: INSERT n copies, DELETE..LIMIT n, UPDATE..LIMIT n, by-column
     Merge(o)                                           CALL dolt_merge with side o checked out
     DoResolveOurs / DoResolveTheirs / DoResolveKey     dolt_conflicts_resolve --ours / --theirs, manual resolution of one key
     Abort / CommitMerge                                dolt_merge('--abort') / dolt_commit once no conflict is left
   Invariants: TypeOK, MergeProps (= KeyedProps: MergeSymmetric, ConflictIff, CellWise, NoInvention, ResolveExact,
     StatsConsistent | KeylessProps), ConflictsKeepOurs, DoneClean.
   Configs (spec/cfg): c29_exh_* / c27_exh  exhaustive model checking (GenMode = "triples": every (delta, base, left, right));
     c29_gen_* / c27_gen_*  generators: CONSTRAINT EmitTriple / EmitHistory prints CaseRec (the case with every expectation the
     engine compares) - triples exhaustively (EmitOneIn = 1) or a random 1/EmitOneIn of them, histories in simulation mode.
*)
EXTENDS Integers, Sequences, FiniteSets, TLC, Json

CONSTANTS Keys,         \* primary-key model values (integers)
          CellVals,     \* cell domain, subset of 0..n; 0 is SQL NULL
          DeltaKinds,   \* subset of {"add","drop","reorder","widen"}; "none" is always included
          AddDefaults,  \* defaults of an added column (subset of CellVals \cup {0})
          Keyless,      \* TRUE: the table has no primary key (bag semantics), schema deltas are not generated
          KCols,        \* keyless: number of columns (1 or 2)
          MaxMult,      \* keyless: largest multiplicity of one row in a generated table
          MaxTotal,     \* keyless: largest total number of rows in a generated table
          GenMode,      \* "triples": Init enumerates every (delta, base, left, right); "history": Init chooses delta and base,
                        \*            the sides are edited by DML actions
          EmitOneIn,    \* triples generator: print one case in EmitOneIn (1 = all), chosen at random by TLC
          D,            \* history mode: number of DML/DDL steps after which the case is emitted
          RecordHist    \* FALSE in exhaustive configs: op histories stay empty

VARIABLES delta,        \* the one-sided schema change of this case
          base, left, right,   \* the three tables
          altered,      \* history mode: the ALTER of delta.side has been executed
          alterAt,      \* history mode with recorded histories: the ALTER is the (alterAt+1)-th statement of the case
          lops, rops,   \* history mode: DML/DDL executed on each side, each with the expected table after it
          phase,        \* "pick" (triples mode only) | "edit" | "merged" | "done"
          ours,         \* side that is "ours" in the merge ("L"/"R")
          work,         \* table in the working set after the merge (merged schema)
          conf          \* keys (keyless: rows) recorded as conflicts and not yet resolved

vars == <<delta, base, left, right, altered, alterAt, lops, rops, phase, ours, work, conf>>
view == <<delta, base, left, right, altered, alterAt, phase, ours, work, conf>>

Absent == <<>>
NoCol == -1
NewCol == 3
AllCols == 1..3
BaseSch == <<1, 2>>
Sides == {"L", "R"}
Other(s) == IF s = "L" THEN "R" ELSE "L"

Cols(s) == {s[i] : i \in 1..Len(s)}
InsertAt(s, p, x) == SubSeq(s, 1, p - 1) \o <<x>> \o SubSeq(s, p, Len(s))
SeqWithout(s, x) == SelectSeq(s, LAMBDA y : y # x)

RECURSIVE SortInts(_)
SortInts(S) == IF S = {} THEN <<>> ELSE LET m == CHOOSE x \in S : \A y \in S : x <= y IN <<m>> \o SortInts(S \ {m})
SKeys == SortInts(Keys)

\* ------------------------------------------------------------------ schemas and deltas
NoDelta == [kind |-> "none", side |-> "L", pos |-> 0, def |-> 0, col |-> 0]
Deltas == {NoDelta}
    \cup (IF "add" \in DeltaKinds THEN {[kind |-> "add", side |-> s, pos |-> p, def |-> d, col |-> NewCol] : s \in Sides, p \in 1..3, d \in AddDefaults} ELSE {})
    \cup (IF "drop" \in DeltaKinds THEN {[kind |-> "drop", side |-> s, pos |-> 0, def |-> 0, col |-> c] : s \in Sides, c \in {1, 2}} ELSE {})
    \cup (IF "reorder" \in DeltaKinds THEN {[kind |-> "reorder", side |-> s, pos |-> 0, def |-> 0, col |-> 0] : s \in Sides} ELSE {})
    \cup (IF "widen" \in DeltaKinds THEN {[kind |-> "widen", side |-> s, pos |-> 0, def |-> 0, col |-> c] : s \in Sides, c \in {1, 2}} ELSE {})

SchAfter(d) == CASE d.kind = "add" -> InsertAt(BaseSch, d.pos, NewCol)
                 [] d.kind = "drop" -> SeqWithout(BaseSch, d.col)
                 [] d.kind = "reorder" -> <<2, 1>>
                 [] OTHER -> BaseSch
SideSch(d, s) == IF d.kind # "none" /\ d.side = s THEN SchAfter(d) ELSE BaseSch
\* column types are part of schema equality (ColCollsAreEqual): a widened side is not "equal" to the base schema
SideWidened(d, s) == d.kind = "widen" /\ d.side = s

\* mergeColumns: our order; their new columns appended; a column dropped on either side is dropped
MergedSch(os, ts) ==
    SelectSeq(os, LAMBDA c : c \in Cols(ts) \/ c \notin Cols(BaseSch))
    \o SelectSeq(ts, LAMBDA c : c \notin Cols(os) /\ c \notin Cols(BaseSch))
MSch(d, o) == MergedSch(SideSch(d, o), SideSch(d, Other(o)))
DefaultOf(d, c) == IF c = NewCol THEN d.def ELSE 0

\* ------------------------------------------------------------------ rows and tables
RowsOver(s) == {[c \in AllCols |-> IF c \in Cols(s) THEN f[c] ELSE NoCol] : f \in [Cols(s) -> CellVals]}
TablesOver(s) == [Keys -> RowsOver(s) \cup {Absent}]
Present(t) == {k \in Keys : t[k] # Absent}

\* remapTupleWithColumnDefaults: move a row into schema ms; columns the row does not have get their DEFAULT
Remap(r, ms, d) == IF r = Absent THEN Absent
                   ELSE [c \in AllCols |-> IF c \notin Cols(ms) THEN NoCol ELSE IF r[c] # NoCol THEN r[c] ELSE DefaultOf(d, c)]
\* ALTER TABLE executed on one side: every existing row is rewritten
AlterTable(t, d) == [k \in Keys |-> Remap(t[k], SchAfter(d), d)]

\* ------------------------------------------------------------------ cell-wise merge (valueMerger)
\* processBaseColumn: does base column i, missing on one side (row or column), conflict with an edit of the other side?
PBC(i, l, r, b) ==
    IF b = Absent THEN FALSE
    ELSE IF l = Absent THEN (r[i] # NoCol /\ r[i] # b[i])
    ELSE IF r = Absent THEN (l[i] # NoCol /\ l[i] # b[i])
    ELSE IF (l[i] # NoCol) = (r[i] # NoCol) THEN FALSE
    ELSE IF l[i] = NoCol THEN r[i] # b[i] ELSE l[i] # b[i]

\* processColumn for column c of the merged schema; l and r are present
PC(c, l, r, b) ==
    IF b = Absent \/ b[c] = NoCol THEN
        IF r[c] = NoCol THEN [v |-> l[c], cf |-> FALSE]
        ELSE IF l[c] = NoCol THEN [v |-> r[c], cf |-> FALSE]
        ELSE IF l[c] = r[c] THEN [v |-> l[c], cf |-> FALSE]
        ELSE [v |-> 0, cf |-> TRUE]                                  \* conflicting inserts
    ELSE IF l[c] = r[c] THEN [v |-> l[c], cf |-> FALSE]
    ELSE IF l[c] # b[c] /\ r[c] # b[c] THEN [v |-> 0, cf |-> TRUE]   \* concurrent modification
    ELSE IF l[c] # b[c] THEN [v |-> l[c], cf |-> FALSE]
    ELSE [v |-> r[c], cf |-> FALSE]

\* TryMerge: [ok, row]; ok = FALSE is a conflict; row = Absent with ok is "divergent delete resolved"
TryMerge(l, r, b, ms) ==
    IF \E i \in Cols(BaseSch) : PBC(i, l, r, b) THEN [ok |-> FALSE, row |-> Absent]
    ELSE IF b # Absent /\ ((l = Absent) # (r = Absent)) THEN [ok |-> TRUE, row |-> Absent]
    ELSE IF \E c \in Cols(ms) : PC(c, l, r, b).cf THEN [ok |-> FALSE, row |-> Absent]
    ELSE [ok |-> TRUE, row |-> [c \in AllCols |-> IF c \in Cols(ms) THEN PC(c, l, r, b).v ELSE NoCol]]

\* ThreeWayDiffer.Next: classification of one key
OpOf(l, r, b, ms) ==
    IF l = b /\ r = b THEN "none"
    ELSE IF r = b THEN (IF b = Absent THEN "leftAdd" ELSE IF l = Absent THEN "leftDelete" ELSE "leftModify")
    ELSE IF l = b THEN (IF b = Absent THEN "rightAdd" ELSE IF r = Absent THEN "rightDelete" ELSE "rightModify")
    ELSE IF l = Absent /\ r = Absent THEN "convergentDelete"
    ELSE IF l = Absent \/ r = Absent THEN
        (IF TryMerge(l, r, b, ms).ok THEN "divergentDeleteResolved" ELSE "divergentDeleteConflict")
    ELSE IF l = r THEN (IF b = Absent THEN "convergentAdd" ELSE "convergentModify")
    ELSE IF TryMerge(l, r, b, ms).ok THEN "divergentModifyResolved" ELSE "divergentModifyConflict"

ConflictOps == {"divergentDeleteConflict", "divergentModifyConflict"}

\* computeProllyTreePatches: what ends up in the merged (left) table for this key
MergeKey(l, r, b, ms, d) ==
    LET op == OpOf(l, r, b, ms) IN
    [op |-> op,
     row |-> CASE op \in {"rightAdd", "rightModify"} -> Remap(r, ms, d)
               [] op \in {"rightDelete", "convergentDelete", "divergentDeleteResolved"} -> Absent
               [] op = "divergentModifyResolved" -> TryMerge(l, r, b, ms).row
               [] OTHER -> Remap(l, ms, d)]      \* left edits, convergent edits, conflicts: our row stays (migrated)

\* merge of the whole table with side o as "ours"
TableOf(s) == IF s = "L" THEN left ELSE right
MergeT(d, b, l, r, o) ==
    LET ot == IF o = "L" THEN l ELSE r
        tt == IF o = "L" THEN r ELSE l
        ms == MSch(d, o)
        mk == [k \in Keys |-> MergeKey(ot[k], tt[k], b[k], ms, d)] IN
    [sch |-> ms,
     rows |-> [k \in Keys |-> mk[k].row],
     conf |-> {k \in Keys : mk[k].op \in ConflictOps},
     ops |-> [k \in Keys |-> mk[k].op]]

\* one row of dolt_conflicts_<t>: base from the ancestor, ours = CURRENT row of the table, theirs from their commit
DiffType(b, x) == IF b = Absent THEN "added" ELSE IF x = Absent THEN "removed" ELSE "modified"
ConfRec(k, b, cur, t) == [k |-> k, base |-> b[k], ours |-> cur[k], theirs |-> t[k],
                          odt |-> DiffType(b[k], cur[k]), tdt |-> DiffType(b[k], t[k])]

\* ------------------------------------------------------------------ conflict resolution
\* dolt_conflicts_resolve --ours: rows stay, conflicts are cleared
ResolveOurs(w) == w
\* dolt_conflicts_resolve --theirs: every conflicted key takes their row (deleted when they have none), others untouched;
\* refused (ErrConfSchIncompatible) unless their schema equals the table's schema
\* (a widened column keeps the wider type in the merged schema: equal to theirs only when THEY widened)
TheirsCompatible(d, o) == MSch(d, o) = SideSch(d, Other(o)) /\ ~SideWidened(d, o)
ResolveTheirs(w, cf, t) == [k \in Keys |-> IF k \in cf THEN t[k] ELSE w[k]]
\* manual resolution of ONE key through SQL on the table, then DELETE of its dolt_conflicts_<t> row
Hows == {"keep", "theirs", "base"}
ResolveKey(w, k, how, b, t, ms, d) ==
    [w EXCEPT ![k] = CASE how = "keep" -> w[k] [] how = "theirs" -> Remap(t[k], ms, d) [] OTHER -> Remap(b[k], ms, d)]

\* ------------------------------------------------------------------ statistics (merge.MergeStats)
Count(S) == Cardinality(S)
\* table-level short circuits of MaybeShortCircuit (keyed tables; schema deltas excluded: only used without delta)
ShortCircuit(b, o, t) == IF o = t THEN "unmodified" ELSE IF t = b THEN "unmodified" ELSE IF o = b THEN "ff" ELSE "merge"
Stats(b, o, t, ms, d) ==
    LET sc == ShortCircuit(b, o, t)
        op == [k \in Keys |-> OpOf(o[k], t[k], b[k], ms)] IN
    CASE sc = "unmodified" -> [op |-> "unmodified", adds |-> 0, mods |-> 0, dels |-> 0, confs |-> 0]
      [] sc = "ff" -> [op |-> "modified", adds |-> Count({k \in Keys : op[k] = "rightAdd"}),
                       mods |-> Count({k \in Keys : op[k] = "rightModify"}),
                       dels |-> Count({k \in Keys : op[k] = "rightDelete"}), confs |-> 0]   \* calcTableMergeStats = diff.Stat
      [] OTHER -> [op |-> "modified", adds |-> Count({k \in Keys : op[k] = "rightAdd"}),
                   mods |-> Count({k \in Keys : op[k] \in {"rightModify", "divergentModifyResolved"}}),
                   dels |-> Count({k \in Keys : op[k] \in {"rightDelete", "divergentDeleteResolved"}}),
                   confs |-> Count({k \in Keys : op[k] \in ConflictOps})]
\* named deviation: the chunk-level fast path only counts conflicts
StatsFastPath(st) == IF st.op = "unmodified" THEN st ELSE [st EXCEPT !.adds = 0, !.mods = 0, !.dels = 0]
\* what the user sees with dolt_diff_stat between the first parent and the merge result
UserStats(o, m) == [adds |-> Count({k \in Keys : o[k] = Absent /\ m[k] # Absent}),
                    dels |-> Count({k \in Keys : o[k] # Absent /\ m[k] = Absent}),
                    mods |-> Count({k \in Keys : o[k] # Absent /\ m[k] # Absent /\ o[k] # m[k]})]

\* ------------------------------------------------------------------ named deviations as predicates on a triple
\* stored value tuple: cells in storage order, the NULL suffix truncated (val.NewTuple / trimNullSuffix)
RECURSIVE TrimNulls(_)
TrimNulls(q) == IF q = <<>> THEN q ELSE IF q[Len(q)] = 0 THEN TrimNulls(SubSeq(q, 1, Len(q) - 1)) ELSE q
Bytes(r, s) == IF r = Absent THEN <<-9>> ELSE TrimNulls([i \in 1..Len(s) |-> r[s[i]]])
\* byte-level view of the differ: a side's diff contains k iff the stored tuples differ (or the side flagged SchemaChange)
SchemaChangeFlag(d, s) == d.kind \in {"add", "drop", "widen"} /\ d.side = s
ByteDiffers(x, b, xs, d, s) == (x # Absent \/ b # Absent) /\ (SchemaChangeFlag(d, s) \/ Bytes(x, xs) # Bytes(b, BaseSch))
ByteAlias(d, b, l, r) ==
    \E k \in Keys :
        \/ ByteDiffers(l[k], b[k], SideSch(d, "L"), d, "L") # (l[k] # b[k])
        \/ ByteDiffers(r[k], b[k], SideSch(d, "R"), d, "R") # (r[k] # b[k])
        \/ (l[k] # Absent /\ r[k] # Absent /\ l[k] # b[k] /\ r[k] # b[k]
            /\ (Bytes(l[k], SideSch(d, "L")) = Bytes(r[k], SideSch(d, "R"))) # (l[k] = r[k]))
\* "right (theirs) deleted the row, left (ours) has it": the code looks the type of OUR column up in THEIR schema by OUR
\* column position (m.rightSchema.GetNonPKCols().GetByIndex(leftColIdx)); flagged when that position holds another column
\* (or none) in their schema
PbcForeignIndex(d, b, o, t, os, ts) ==
    /\ \E k \in Keys : b[k] # Absent /\ o[k] # Absent /\ t[k] = Absent
    /\ \E i \in 1..Len(BaseSch) : BaseSch[i] \in Cols(os) /\
          LET j == CHOOSE j \in 1..Len(os) : os[j] = BaseSch[i] IN j > Len(ts) \/ ts[j] # BaseSch[i]
DeleteWinsOverNewColumnEdit(d, b, l, r) ==
    d.kind = "add" /\ \E k \in Keys :
        LET x == IF d.side = "L" THEN l[k] ELSE r[k]
            y == IF d.side = "L" THEN r[k] ELSE l[k] IN
        b[k] # Absent /\ y = Absent /\ x # Absent /\ x[NewCol] # d.def /\ \A c \in Cols(BaseSch) : x[c] = b[k][c]

\* ------------------------------------------------------------------ keyless tables (bags)
KRows == [1..KCols -> CellVals]
RECURSIVE SumOver(_, _)
SumOver(f, S) == IF S = {} THEN 0 ELSE LET x == CHOOSE y \in S : TRUE IN f[x] + SumOver(f, S \ {x})
Bags == {g \in [KRows -> 0..MaxMult] : SumOver(g, KRows) <= MaxTotal}
\* ThreeWayDiffer + keyless TryMerge + keyless Convergent* branch: any two-sided change of a row's cardinality is a conflict
KOp(lm, rm, bm) == IF lm = bm /\ rm = bm THEN "none" ELSE IF rm = bm THEN "left" ELSE IF lm = bm THEN "right"
                   ELSE IF lm = rm THEN "convergent" ELSE "divergent"
KMergeMult(lm, rm, bm) == IF KOp(lm, rm, bm) = "right" THEN rm ELSE lm
KeylessConvergentIsConflict(lm, rm, bm) == KOp(lm, rm, bm) = "convergent"
KMergeT(b, l, r, o) ==
    LET ot == IF o = "L" THEN l ELSE r
        tt == IF o = "L" THEN r ELSE l IN
    [rows |-> [x \in KRows |-> KMergeMult(ot[x], tt[x], b[x])],
     conf |-> {x \in KRows : KOp(ot[x], tt[x], b[x]) \in {"convergent", "divergent"}}]
KDiffType(bm, xm) == IF bm = 0 THEN "added" ELSE IF xm = 0 THEN "removed" ELSE "modified"
KResolveTheirs(w, cf, t) == [x \in KRows |-> IF x \in cf THEN t[x] ELSE w[x]]
\* DML on a bag
KInsert(g, x, n) == [g EXCEPT ![x] = @ + n]
Min(a, c) == IF a < c THEN a ELSE c
KDeleteLim(g, x, n) == [g EXCEPT ![x] = @ - Min(n, @)]
KUpdateLim(g, x, y, n) == IF x = y THEN g ELSE [g EXCEPT ![x] = @ - Min(n, g[x]), ![y] = @ + Min(n, g[x])]
KDeleteWhere(g, c, v) == [x \in KRows |-> IF x[c] = v THEN 0 ELSE g[x]]
KUpdateWhere(g, c, v, c2, v2) ==
    [y \in KRows |-> SumOver([x \in KRows |-> IF (IF x[c] = v THEN [x EXCEPT ![c2] = v2] ELSE x) = y THEN g[x] ELSE 0], KRows)]
KTotal(g) == SumOver(g, KRows)

\* ------------------------------------------------------------------ projections shipped to the engine (JSON)
TableSeq(t) == LET ks == SelectSeq(SKeys, LAMBDA k : t[k] # Absent) IN [i \in 1..Len(ks) |-> [k |-> ks[i], r |-> t[ks[i]]]]
SetSeq(S) == SortInts(S)
ConfSeq(cf, b, cur, t) == LET ks == SortInts(cf) IN [i \in 1..Len(ks) |-> ConfRec(ks[i], b, cur, t)]

\* fixed enumeration order of keyless rows: lexicographic
KLess(x, y) == \E i \in 1..KCols : x[i] < y[i] /\ \A j \in 1..(i - 1) : x[j] = y[j]
RECURSIVE KSortSeq(_)
KSortSeq(S) == IF S = {} THEN <<>> ELSE LET m == CHOOSE x \in S : \A y \in S : x = y \/ KLess(x, y) IN <<m>> \o KSortSeq(S \ {m})
BagSeq(g) == LET xs == KSortSeq({x \in KRows : g[x] > 0}) IN [i \in 1..Len(xs) |-> [r |-> xs[i], n |-> g[xs[i]]]]
KConfSeq(cf, b, cur, t) == LET xs == KSortSeq(cf) IN
    [i \in 1..Len(xs) |-> [r |-> xs[i], bn |-> b[xs[i]], on |-> cur[xs[i]], tn |-> t[xs[i]],
                           odt |-> KDiffType(b[xs[i]], cur[xs[i]]), tdt |-> KDiffType(b[xs[i]], t[xs[i]])]]

\* canonical DML turning table |from| into table |to| (same schema), one statement per differing key, ascending
RECURSIVE CanonOps(_, _, _)
CanonOps(from, to, ks) ==
    IF ks = <<>> THEN <<>>
    ELSE LET k == Head(ks)
             nxt == [from EXCEPT ![k] = to[k]] IN
         IF from[k] = to[k] THEN CanonOps(from, to, Tail(ks))
         ELSE <<(IF to[k] = Absent THEN [op |-> "delete", k |-> k, exp |-> TableSeq(nxt)]
                 ELSE IF from[k] = Absent THEN [op |-> "insert", k |-> k, row |-> to[k], exp |-> TableSeq(nxt)]
                 ELSE [op |-> "update", k |-> k, row |-> to[k],
                       set |-> SortInts({c \in AllCols : to[k][c] # from[k][c]}), exp |-> TableSeq(nxt)])>>
              \o CanonOps(nxt, to, Tail(ks))
AlterOp(d, t) == [op |-> "alter", kind |-> d.kind, pos |-> d.pos, def |-> d.def, col |-> d.col, exp |-> TableSeq(AlterTable(t, d))]
SideOps(d, s, b, t) == IF d.kind # "none" /\ d.side = s THEN <<AlterOp(d, b)>> \o CanonOps(AlterTable(b, d), t, SKeys)
                       ELSE CanonOps(b, t, SKeys)

RECURSIVE KCanonOps(_, _, _)
KCanonOps(from, to, xs) ==
    IF xs = <<>> THEN <<>>
    ELSE LET x == Head(xs)
             nxt == [from EXCEPT ![x] = to[x]] IN
         IF from[x] = to[x] THEN KCanonOps(from, to, Tail(xs))
         ELSE <<(IF to[x] > from[x] THEN [op |-> "kinsert", r |-> x, n |-> to[x] - from[x], exp |-> BagSeq(nxt)]
                 ELSE [op |-> "kdelete", r |-> x, n |-> from[x] - to[x], exp |-> BagSeq(nxt)])>> \o KCanonOps(nxt, to, Tail(xs))

\* manual path: conflicts resolved one by one (ascending), the way of resolving rotates with the position
HowSeq == <<"theirs", "keep", "base">>
RECURSIVE ManualSteps(_, _, _, _, _, _, _)
ManualSteps(w, cs, i, b, t, ms, d) ==
    IF cs = <<>> THEN <<>>
    ELSE LET k == Head(cs)
             how == HowSeq[(i % 3) + 1]
             w2 == ResolveKey(w, k, how, b, t, ms, d) IN
         <<[k |-> k, how |-> how, row |-> w2[k], rows |-> TableSeq(w2), conf |-> Tail(cs)]>>
         \o ManualSteps(w2, Tail(cs), i + 1, b, t, ms, d)

MergeExp(d, b, l, r, o) ==
    LET m == MergeT(d, b, l, r, o)
        ot == IF o = "L" THEN l ELSE r
        tt == IF o = "L" THEN r ELSE l IN
    [ours |-> o, sch |-> m.sch, rows |-> TableSeq(m.rows), conf |-> ConfSeq(m.conf, b, m.rows, tt),
     ops |-> [i \in 1..Len(SKeys) |-> m.ops[SKeys[i]]],
     resOurs |-> TableSeq(ResolveOurs(m.rows)),
     theirsOK |-> TheirsCompatible(d, o),
     resTheirs |-> TableSeq(ResolveTheirs(m.rows, m.conf, tt)),
     manual |-> ManualSteps(m.rows, SortInts(m.conf), 0, b, tt, m.sch, d),
     aborted |-> TableSeq(ot),
     stats |-> Stats(b, ot, tt, m.sch, d), fast |-> StatsFastPath(Stats(b, ot, tt, m.sch, d)),
     ustats |-> UserStats([k \in Keys |-> Remap(ot[k], m.sch, d)], m.rows),
     pbc |-> PbcForeignIndex(d, b, ot, tt, SideSch(d, o), SideSch(d, Other(o)))]

KMergeExp(b, l, r, o) ==
    LET m == KMergeT(b, l, r, o)
        ot == IF o = "L" THEN l ELSE r
        tt == IF o = "L" THEN r ELSE l IN
    [ours |-> o, rows |-> BagSeq(m.rows), total |-> KTotal(m.rows), conf |-> KConfSeq(m.conf, b, m.rows, tt),
     resOurs |-> BagSeq(m.rows), resTheirs |-> BagSeq(KResolveTheirs(m.rows, m.conf, tt)), aborted |-> BagSeq(ot),
     convergent |-> \E x \in KRows : KeylessConvergentIsConflict(ot[x], tt[x], b[x])]

CaseRec == IF Keyless
    THEN [keyless |-> TRUE, kcols |-> KCols, base |-> BagSeq(base),
          lops |-> IF GenMode = "triples" THEN KCanonOps(base, left, KSortSeq(KRows)) ELSE lops,
          rops |-> IF GenMode = "triples" THEN KCanonOps(base, right, KSortSeq(KRows)) ELSE rops,
          left |-> BagSeq(left), right |-> BagSeq(right),
          m |-> <<KMergeExp(base, left, right, "L"), KMergeExp(base, left, right, "R")>>]
    ELSE [keyless |-> FALSE, delta |-> delta, base |-> TableSeq(base),
          lsch |-> SideSch(delta, "L"), rsch |-> SideSch(delta, "R"),
          lops |-> IF GenMode = "triples" THEN SideOps(delta, "L", base, left) ELSE lops,
          rops |-> IF GenMode = "triples" THEN SideOps(delta, "R", base, right) ELSE rops,
          left |-> TableSeq(left), right |-> TableSeq(right),
          m |-> <<MergeExp(delta, base, left, right, "L"), MergeExp(delta, base, left, right, "R")>>,
          alias |-> ByteAlias(delta, base, left, right),
          newcoldel |-> DeleteWinsOverNewColumnEdit(delta, base, left, right)]

\* ------------------------------------------------------------------ state machine
EmptyK == [k \in Keys |-> Absent]
InitCommon == /\ phase = "edit" /\ ours = "L" /\ conf = {} /\ lops = <<>> /\ rops = <<>>
\* triples mode: Init chooses the delta and the base; PickSides chooses left and right (two levels so that TLC's workers share
\* the enumeration); every (delta, base, left, right) is reached exactly once, in phase "edit".
InitTriples ==
    /\ GenMode = "triples"
    /\ IF Keyless THEN delta = NoDelta /\ base \in Bags ELSE delta \in Deltas /\ base \in TablesOver(BaseSch)
    /\ left = base /\ right = base /\ altered = TRUE /\ alterAt = 0 /\ work = base
    /\ phase = "pick" /\ ours = "L" /\ conf = {} /\ lops = <<>> /\ rops = <<>>
PickSides ==
    /\ phase = "pick" /\ phase' = "edit"
    /\ IF Keyless THEN left' \in Bags /\ right' \in Bags
       ELSE left' \in TablesOver(SideSch(delta, "L")) /\ right' \in TablesOver(SideSch(delta, "R"))
    /\ UNCHANGED <<delta, base, altered, alterAt, lops, rops, ours, work, conf>>
InitHistory ==
    /\ GenMode = "history"
    /\ IF Keyless THEN delta = NoDelta /\ base \in Bags /\ altered = TRUE
       ELSE delta \in Deltas /\ base \in TablesOver(BaseSch) /\ altered = (delta.kind = "none")
    /\ alterAt \in (IF RecordHist /\ ~altered THEN 0..(D - 1) ELSE {0})
    /\ left = base /\ right = base /\ work = base /\ InitCommon
Init == InitTriples \/ InitHistory

Rec(s, o) == IF ~RecordHist THEN UNCHANGED <<lops, rops>>
             ELSE IF s = "L" THEN lops' = Append(lops, o) /\ UNCHANGED rops
             ELSE rops' = Append(rops, o) /\ UNCHANGED lops
SetSide(s, t) == IF s = "L" THEN left' = t /\ UNCHANGED right ELSE right' = t /\ UNCHANGED left
CurSch(s) == IF altered THEN SideSch(delta, s) ELSE BaseSch
Editing == phase = "edit" /\ GenMode = "history"

\* --- DML on one branch (keyed)
Insert(s, k, row) == /\ Editing /\ ~Keyless /\ TableOf(s)[k] = Absent
                     /\ LET t == [TableOf(s) EXCEPT ![k] = row] IN
                        SetSide(s, t) /\ Rec(s, [op |-> "insert", k |-> k, row |-> row, exp |-> TableSeq(t)])
                     /\ UNCHANGED <<delta, base, altered, alterAt, phase, ours, work, conf>>
Update(s, k, row) == /\ Editing /\ ~Keyless /\ TableOf(s)[k] # Absent /\ TableOf(s)[k] # row
                     /\ LET t == [TableOf(s) EXCEPT ![k] = row] IN
                        SetSide(s, t) /\ Rec(s, [op |-> "update", k |-> k, row |-> row,
                                                 set |-> SortInts({c \in AllCols : row[c] # TableOf(s)[k][c]}), exp |-> TableSeq(t)])
                     /\ UNCHANGED <<delta, base, altered, alterAt, phase, ours, work, conf>>
Delete(s, k) == /\ Editing /\ ~Keyless /\ TableOf(s)[k] # Absent
                /\ LET t == [TableOf(s) EXCEPT ![k] = Absent] IN
                   SetSide(s, t) /\ Rec(s, [op |-> "delete", k |-> k, exp |-> TableSeq(t)])
                /\ UNCHANGED <<delta, base, altered, alterAt, phase, ours, work, conf>>
\* --- DDL: the one-sided ALTER, at any point of that side's history
NOps == Len(lops) + Len(rops)
AlterDue == RecordHist /\ ~altered /\ NOps = alterAt
Alter == /\ Editing /\ ~Keyless /\ ~altered /\ (RecordHist => AlterDue) /\ altered' = TRUE
         /\ LET t == AlterTable(TableOf(delta.side), delta) IN SetSide(delta.side, t) /\ Rec(delta.side, AlterOp(delta, TableOf(delta.side)))
         /\ UNCHANGED <<delta, base, alterAt, phase, ours, work, conf>>
\* --- DML on a keyless branch
KBounded(g) == \A x \in KRows : g[x] <= MaxMult + 1
KStep(s, g, o) == /\ KBounded(g) /\ SetSide(s, g) /\ Rec(s, o @@ [exp |-> BagSeq(g)])
                  /\ UNCHANGED <<delta, base, altered, alterAt, phase, ours, work, conf>>
KIns(s, x, n) == Editing /\ Keyless /\ KStep(s, KInsert(TableOf(s), x, n), [op |-> "kinsert", r |-> x, n |-> n])
KDel(s, x, n) == Editing /\ Keyless /\ KStep(s, KDeleteLim(TableOf(s), x, n), [op |-> "kdelete", r |-> x, n |-> n])
KUpd(s, x, y, n) == Editing /\ Keyless /\ KStep(s, KUpdateLim(TableOf(s), x, y, n), [op |-> "kupdate", r |-> x, to |-> y, n |-> n])
KDelW(s, c, v) == Editing /\ Keyless /\ KStep(s, KDeleteWhere(TableOf(s), c, v), [op |-> "kdelwhere", c |-> c, v |-> v])
KUpdW(s, c, v, c2, v2) == Editing /\ Keyless /\ KStep(s, KUpdateWhere(TableOf(s), c, v, c2, v2), [op |-> "kupdwhere", c |-> c, v |-> v, c2 |-> c2, v2 |-> v2])

\* --- CALL dolt_merge with side o checked out
Merge(o) == /\ phase = "edit" /\ (GenMode = "triples" \/ altered) /\ phase' = "merged" /\ ours' = o
            /\ IF Keyless THEN LET m == KMergeT(base, left, right, o) IN work' = m.rows /\ conf' = m.conf
               ELSE LET m == MergeT(delta, base, left, right, o) IN work' = m.rows /\ conf' = m.conf
            /\ UNCHANGED <<delta, base, left, right, altered, alterAt, lops, rops>>
Theirs == TableOf(Other(ours))
\* --- CALL dolt_conflicts_resolve('--ours' | '--theirs', t)
DoResolveOurs == /\ phase = "merged" /\ conf # {} /\ conf' = {} /\ work' = ResolveOurs(work)
                 /\ UNCHANGED <<delta, base, left, right, altered, alterAt, lops, rops, phase, ours>>
DoResolveTheirs == /\ phase = "merged" /\ conf # {} /\ (Keyless \/ TheirsCompatible(delta, ours)) /\ conf' = {}
                   /\ work' = IF Keyless THEN KResolveTheirs(work, conf, Theirs) ELSE ResolveTheirs(work, conf, Theirs)
                   /\ UNCHANGED <<delta, base, left, right, altered, alterAt, lops, rops, phase, ours>>
\* --- manual: fix the row by DML, then DELETE FROM dolt_conflicts_<t> for that key
DoResolveKey(k, how) == /\ phase = "merged" /\ ~Keyless /\ k \in conf /\ conf' = conf \ {k}
                        /\ work' = ResolveKey(work, k, how, base, Theirs, MSch(delta, ours), delta)
                        /\ UNCHANGED <<delta, base, left, right, altered, alterAt, lops, rops, phase, ours>>
\* --- CALL dolt_merge('--abort'): our table comes back, conflicts are gone
Abort == /\ phase = "merged" /\ phase' = "edit" /\ conf' = {} /\ work' = base   \* (work is only meaningful while merged)
         /\ UNCHANGED <<delta, base, left, right, altered, alterAt, lops, rops, ours>>
\* --- CALL dolt_commit after all conflicts are resolved: the working table becomes our branch head
CommitMerge == /\ phase = "merged" /\ conf = {} /\ phase' = "done"
               /\ UNCHANGED <<delta, base, left, right, altered, alterAt, lops, rops, ours, work, conf>>

\* Parameter choice. Exhaustive configs (RecordHist = FALSE) quantify over the whole parameter set. Generator configs run
\* in simulation mode, where TLC picks uniformly among successor STATES: one random parameter per statement kind keeps
\* inserts, updates, deletes (and the keyless LIMIT / by-column statements) equally likely.
Pick(S) == IF RecordHist /\ S # {} THEN {RandomElement(S)} ELSE S
KPresent(s) == {x \in KRows : TableOf(s)[x] > 0}
\* mostly rows that exist (a statement matching nothing is legal but teaches little)
KTarget(s) == IF RecordHist THEN (IF KPresent(s) = {} \/ RandomElement(1..5) = 1 THEN KRows ELSE KPresent(s)) ELSE KRows
Edit == Editing /\
        \/ ~Keyless /\ ~AlterDue /\ \E s \in Sides, k \in Keys :
                \/ \E row \in Pick(RowsOver(CurSch(s))) : Insert(s, k, row)
                \/ \E row \in Pick(RowsOver(CurSch(s)) \ {TableOf(s)[k]}) : Update(s, k, row)
                \/ Delete(s, k)
        \/ Alter
        \/ Keyless /\ \E s \in Sides :
                \/ \E x \in Pick(KRows), n \in Pick(1..2) : KIns(s, x, n)
                \/ \E x \in Pick(KTarget(s)), n \in Pick(1..2) : KDel(s, x, n)
                \/ \E x \in Pick(KTarget(s)), y \in Pick(KRows), n \in Pick(1..2) : KUpd(s, x, y, n)
                \/ \E c \in Pick(1..KCols), v \in Pick(CellVals) : KDelW(s, c, v)
                \/ \E c \in Pick(1..KCols), v \in Pick(CellVals), c2 \in Pick(1..KCols), v2 \in Pick(CellVals) : KUpdW(s, c, v, c2, v2)
PostMerge == DoResolveOurs \/ DoResolveTheirs \/ (\E k \in Keys, how \in Hows : DoResolveKey(k, how)) \/ Abort \/ CommitMerge
Next == PickSides \/ Edit \/ (\E o \in Sides : Merge(o)) \/ PostMerge
\* generator configs: cases are emitted from the edit phase; nothing else is explored
GenNext == PickSides \/ Edit
NoNext == FALSE /\ UNCHANGED vars
Spec == Init /\ [][Next]_vars

\* ------------------------------------------------------------------ what TLC checks on the model
TypeOK == /\ phase \in {"pick", "edit", "merged", "done"} /\ ours \in Sides /\ delta \in Deltas
          /\ IF Keyless THEN conf \subseteq KRows ELSE conf \subseteq Keys

\* the properties below are stated on the (base, left, right) of the current state: with InitTriples they are checked
\* for EVERY triple of the bounded table space (once per triple: in the edit phase).
ML == MergeT(delta, base, left, right, "L")
MR == MergeT(delta, base, left, right, "R")
SameCellDifferently(l, r, b) ==
    IF b = Absent THEN l # Absent /\ r # Absent /\ \E c \in AllCols : l[c] # NoCol /\ r[c] # NoCol /\ l[c] # r[c]
    ELSE /\ l # Absent /\ r # Absent
         /\ \/ \E c \in AllCols : l[c] # NoCol /\ r[c] # NoCol /\ b[c] # NoCol /\ l[c] # b[c] /\ r[c] # b[c] /\ l[c] # r[c]
            \/ \E c \in Cols(BaseSch) : (l[c] = NoCol /\ r[c] # b[c]) \/ (r[c] = NoCol /\ l[c] # b[c])   \* column dropped vs. cell edited
DeleteVsModify(l, r, b) == b # Absent /\ ((l = Absent /\ r # Absent /\ \E c \in Cols(BaseSch) : r[c] # NoCol /\ r[c] # b[c])
                                          \/ (r = Absent /\ l # Absent /\ \E c \in Cols(BaseSch) : l[c] # NoCol /\ l[c] # b[c]))
KeyedProps ==
    LET ml == ML  mr == MR
        rt == ResolveTheirs(ml.rows, ml.conf, right) IN
    \* C29 MergeSymmetric: swapping the sides gives the same table data and mirrored conflicts
    /\ \A k \in Keys : k \notin ml.conf => ml.rows[k] = mr.rows[k]
    /\ ml.conf = mr.conf
    /\ \A k \in ml.conf : ml.rows[k] = Remap(left[k], ml.sch, delta) /\ mr.rows[k] = Remap(right[k], mr.sch, delta)
    /\ Cols(ml.sch) = Cols(mr.sch)
    \* C29 ConflictIff: a conflict exactly when both sides changed the same cell differently, or one side deleted a row the
    \* other modified (modified = changed a column of the base row; see DeleteWinsOverNewColumnEdit)
    /\ \A k \in Keys : (k \in ml.conf) <=> (SameCellDifferently(left[k], right[k], base[k]) \/ DeleteVsModify(left[k], right[k], base[k]))
    \* C29 CellWise: value changed on one side only / common value / cell-wise combination
    /\ \A k \in Keys : k \notin ml.conf =>
        LET l == left[k] r == right[k] b == base[k] m == ml.rows[k] IN
        /\ (l = b => m = Remap(r, ml.sch, delta))
        /\ (r = b => m = Remap(l, ml.sch, delta))
        /\ (l = r => m = Remap(l, ml.sch, delta))
        /\ (l # Absent /\ r # Absent /\ b # Absent => m # Absent /\ \A c \in Cols(ml.sch) :
                IF l[c] # NoCol /\ r[c] # NoCol THEN m[c] = (IF l[c] # b[c] THEN l[c] ELSE r[c])
                ELSE m[c] = (IF l[c] # NoCol THEN l[c] ELSE r[c]))
        /\ ((l = Absent \/ r = Absent) /\ l # r /\ l # b /\ r # b => m = Absent)
    \* NoInvention: every merged cell comes from one of the three rows or is a column default
    /\ \A k \in Keys : LET m == ml.rows[k] IN m # Absent => \A c \in Cols(ml.sch) :
        \/ (left[k] # Absent /\ m[c] = left[k][c]) \/ (right[k] # Absent /\ m[c] = right[k][c]) \/ m[c] = DefaultOf(delta, c)
    \* C43 ResolveExact
    /\ \A k \in Keys : rt[k] = (IF k \in ml.conf THEN right[k] ELSE ml.rows[k])
    /\ (delta.kind = "none" => /\ rt = ResolveOurs(mr.rows)
                               /\ ResolveTheirs(mr.rows, mr.conf, left) = ResolveOurs(ml.rows))
    \* C30 StatsConsistent: statistics agree with what the user can observe (dolt_diff_stat first parent .. merge)
    /\ (delta.kind = "none" =>
        LET st == Stats(base, left, right, ml.sch, delta) us == UserStats(left, ml.rows) IN
        /\ st.confs = Cardinality(ml.conf)
        /\ (st.op = "unmodified" => us = [adds |-> 0, dels |-> 0, mods |-> 0])
        \* Modifications counts merge operations: a resolved divergent edit whose result equals our row is counted, not visible
        /\ (st.op # "unmodified" => st.adds = us.adds /\ st.dels = us.dels /\ st.mods >= us.mods
                                    /\ st.mods <= Cardinality({k \in Keys : left[k] # Absent /\ right[k] # Absent})))
\* C27: bag merge laws
KL == KMergeT(base, left, right, "L")
KR == KMergeT(base, left, right, "R")
KeylessProps ==
    LET kl == KL  kr == KR IN
    /\ kl.conf = kr.conf
    /\ \A x \in KRows : x \notin kl.conf => kl.rows[x] = kr.rows[x] /\ kl.rows[x] = base[x] + (left[x] - base[x]) + (right[x] - base[x])
    /\ \A x \in KRows : (x \in kl.conf) <=> (left[x] # base[x] /\ right[x] # base[x])
    /\ \A x \in kl.conf : kl.rows[x] = left[x] /\ kr.rows[x] = right[x]
    /\ KResolveTheirs(kl.rows, kl.conf, right) = kr.rows
MergeProps == phase = "edit" => IF Keyless THEN KeylessProps ELSE KeyedProps
\* state-machine invariants
ConflictsKeepOurs == (phase = "merged" /\ ~Keyless) => \A k \in conf : work[k] = Remap(TableOf(ours)[k], MSch(delta, ours), delta)
DoneClean == phase = "done" => conf = {}

\* ------------------------------------------------------------------ emission
EmitTriple == phase # "edit" \/ (EmitOneIn > 1 /\ RandomElement(1..EmitOneIn) # 1) \/ PrintT(ToJson(CaseRec))
EmitHistory == (NOps < D \/ ~altered) \/ PrintT(ToJson(CaseRec))
HistoryBound == NOps <= D
=============================================================================
