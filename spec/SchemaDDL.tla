----------------------------- MODULE SchemaDDL -----------------------------
(* C37: storing and reloading a table schema preserves every column, type, default, NOT NULL, index, check and collation; the
   same CREATE TABLE / ALTER TABLE sequence run on independent branches or databases assigns the same column tags and gives
   the same schema, so such branches merge without a schema conflict.

   Code transcribed:
     sqle/tables.go / sqle/alterschema.go          CREATE TABLE, ADD COLUMN [FIRST | AFTER], DROP COLUMN (takes the indexes that
                                                   cover the column with it), MODIFY COLUMN (type widening), RENAME COLUMN,
                                                   ADD / DROP INDEX, ADD / DROP CHECK, SET / DROP DEFAULT
     schema/encoding/serialization.go:42,94        SerializeSchema / DeserializeSchema: what a fresh session reads back
     schema/tag.go:85                              AutoGenerateTag: seeded by table name, column name, kinds of the existing columns
     merge/merge_schema.go                         identical schemas on both sides merge without conflict

   Lines = independent histories: branches of one database and a second database.  Every DDL statement is followed by
   dolt_commit('-A').  The schema of table s on a line is a sequence of columns [n, ty, nn, df], a set of single-column
   indexes and a set of checks.  log[l] is the sequence of DDL statements run on line l since the common (empty) start.

   The engine reloads the schema after every step in a FRESH session (SHOW CREATE TABLE parsed into the same structure) and,
   whenever two lines have run the same statements (log equal), demands identical column tags and schema hashes (doltdb API);
   Merge is generated between branches with equal logs and must succeed without conflicts and leave the schema unchanged. *)
EXTENDS Integers, Sequences, FiniteSets, TLC, Json

CONSTANTS Lines,       \* e.g. {"main", "b1", "d2"}; "d2" is a second database
          Branches,    \* the lines that are branches of the first database (Merge is between these)
          ColNames,    \* names ADD COLUMN may use
          Types,       \* subset of {"int","bigint","vc10","vc20","vcci","dec","dt"}
          MaxLog,      \* bound on Len(log[l])
          Acts, Sim, D, RecordHist

VARIABLES sch,    \* [Lines -> [ex : BOOLEAN, cols : Seq(col), ix : SUBSET ColNames+, ck : SUBSET {"ck1","ck2"}]]
          log,    \* [Lines -> Seq(statement)]
          last, hist
vars == <<sch, log, last, hist>>
view == <<sch, log>>

NoTable == [ex |-> FALSE, cols |-> <<>>, ix |-> {}, ck |-> {}]
PkCol == [n |-> "pk", ty |-> "int", nn |-> TRUE, df |-> 0]
Widen(ty) == CASE ty = "int" -> "bigint" [] ty = "vc10" -> "vc20" [] OTHER -> ty
NamesOf(cols) == {cols[i].n : i \in 1..Len(cols)}
PosOf(cols, n) == CHOOSE i \in 1..Len(cols) : cols[i].n = n
InsertAt(s, p, x) == SubSeq(s, 1, p - 1) \o <<x>> \o SubSeq(s, p, Len(s))
RemoveAt(s, p) == SubSeq(s, 1, p - 1) \o SubSeq(s, p + 1, Len(s))
AllNames == ColNames \cup {"r1"}

RE(S) == RandomElement(IF Len(hist) >= 0 THEN S ELSE {})
Pick(S) == IF Sim THEN (IF S = {} THEN {} ELSE {RE(S)}) ELSE S
On(a) == a \in Acts
SchProj(s) == [ex |-> s.ex, cols |-> s.cols, ix |-> s.ix, ck |-> s.ck]
\* lines that have run exactly the same statements as l (and at least one)
SameAs(l) == {m \in Lines \ {l} : log[m] = log[l] /\ log[l] # <<>>}
Rec(a, l, args, res) ==
    /\ last' = [a |-> a, l |-> l, args |-> args, res |-> res]
    /\ hist' = IF RecordHist THEN Append(hist, [a |-> a, l |-> l, args |-> args, res |-> res,
                     exp |-> [sch |-> [m \in Lines |-> SchProj(sch'[m])],
                              same |-> {p \in Lines \X Lines : p[1] # p[2] /\ log'[p[1]] = log'[p[2]] /\ log'[p[1]] # <<>>}]]) ELSE hist
Do(a, l, args, s2) ==
    /\ Len(log[l]) < MaxLog
    /\ sch' = [sch EXCEPT ![l] = s2]
    /\ log' = [log EXCEPT ![l] = Append(@, [a |-> a] @@ args)]
    /\ Rec(a, l, args, "ok")

Init == /\ sch = [l \in Lines |-> NoTable] /\ log = [l \in Lines |-> <<>>]
        /\ last = [a |-> "Init", l |-> "", args |-> <<>>, res |-> "ok"] /\ hist = <<>>

\* CREATE TABLE s (pk INT PRIMARY KEY, c <ty> [NOT NULL] [DEFAULT ..])  -- one extra column from the start
CreateTable(l, c, ty, nn, df) ==
    /\ On("CreateTable") /\ ~sch[l].ex
    /\ Do("CreateTable", l, [c |-> c, ty |-> ty, nn |-> nn, df |-> df],
          [ex |-> TRUE, cols |-> <<PkCol, [n |-> c, ty |-> ty, nn |-> nn, df |-> df]>>, ix |-> {}, ck |-> {}])
\* ALTER TABLE s ADD COLUMN c <ty> [NOT NULL] [DEFAULT ..] [FIRST | AFTER pk]   (pos: "first", "afterpk", "last")
AddColumn(l, c, ty, nn, df, pos) ==
    LET s == sch[l]
        col == [n |-> c, ty |-> ty, nn |-> nn, df |-> df]
        p == CASE pos = "first" -> 1 [] pos = "afterpk" -> PosOf(s.cols, "pk") + 1 [] OTHER -> Len(s.cols) + 1 IN
    /\ On("AddColumn") /\ s.ex /\ c \notin NamesOf(s.cols) /\ Len(s.cols) < 4
    /\ Do("AddColumn", l, [c |-> c, ty |-> ty, nn |-> nn, df |-> df, pos |-> pos], [s EXCEPT !.cols = InsertAt(s.cols, p, col)])
DropColumn(l, c) ==
    LET s == sch[l] IN
    /\ On("DropColumn") /\ s.ex /\ c \in NamesOf(s.cols) /\ c # "pk"
    /\ Do("DropColumn", l, [c |-> c], [s EXCEPT !.cols = RemoveAt(s.cols, PosOf(s.cols, c)), !.ix = @ \ {c}])
\* ALTER TABLE s MODIFY COLUMN c <wider type> (keeps NOT NULL and the default)
ModifyType(l, c) ==
    LET s == sch[l]  p == PosOf(s.cols, c) IN
    /\ On("ModifyType") /\ s.ex /\ c \in NamesOf(s.cols) /\ c # "pk" /\ Widen(s.cols[p].ty) # s.cols[p].ty /\ Widen(s.cols[p].ty) \in Types
    /\ Do("ModifyType", l, [c |-> c, ty |-> Widen(s.cols[p].ty)], [s EXCEPT !.cols[p].ty = Widen(@)])
\* ALTER TABLE s RENAME COLUMN c TO r1  (an index on the column follows the new name)
RenameColumn(l, c) ==
    LET s == sch[l]  p == PosOf(s.cols, c) IN
    /\ On("RenameColumn") /\ s.ex /\ c \in NamesOf(s.cols) /\ c # "pk" /\ "r1" \notin NamesOf(s.cols)
    /\ Do("RenameColumn", l, [c |-> c], [s EXCEPT !.cols[p].n = "r1", !.ix = IF c \in @ THEN (@ \ {c}) \cup {"r1"} ELSE @])
\* CREATE INDEX i_<c> ON s (c) / DROP INDEX
AddIndex(l, c) ==
    LET s == sch[l] IN
    /\ On("AddIndex") /\ s.ex /\ c \in NamesOf(s.cols) /\ c # "pk" /\ c \notin s.ix
    /\ Do("AddIndex", l, [c |-> c], [s EXCEPT !.ix = @ \cup {c}])
DropIndex(l, c) ==
    LET s == sch[l] IN
    /\ On("DropIndex") /\ s.ex /\ c \in s.ix
    /\ Do("DropIndex", l, [c |-> c], [s EXCEPT !.ix = @ \ {c}])
\* ALTER TABLE s ADD CONSTRAINT ck CHECK (..) / DROP CONSTRAINT
AddCheck(l, k) ==
    /\ On("AddCheck") /\ sch[l].ex /\ k \notin sch[l].ck
    /\ Do("AddCheck", l, [k |-> k], [sch[l] EXCEPT !.ck = @ \cup {k}])
DropCheck(l, k) ==
    /\ On("DropCheck") /\ sch[l].ex /\ k \in sch[l].ck
    /\ Do("DropCheck", l, [k |-> k], [sch[l] EXCEPT !.ck = @ \ {k}])
\* ALTER TABLE s ALTER COLUMN c SET DEFAULT .. / DROP DEFAULT
SetDefault(l, c, df) ==
    LET s == sch[l]  p == PosOf(s.cols, c) IN
    /\ On("SetDefault") /\ s.ex /\ c \in NamesOf(s.cols) /\ c # "pk" /\ s.cols[p].df # df
    /\ Do("SetDefault", l, [c |-> c, df |-> df], [s EXCEPT !.cols[p].df = df])
\* CALL dolt_merge(m) on branch l: generated between branches that ran the same statements
Merge(l, m) ==
    /\ On("Merge") /\ l \in Branches /\ m \in Branches /\ l # m /\ log[l] = log[m] /\ log[l] # <<>>
    /\ UNCHANGED <<sch, log>> /\ Rec("Merge", l, [m |-> m], "ok")

Next == \E l \in Pick(Lines) :
          \/ \E c \in Pick(ColNames), ty \in Pick(Types), nn \in Pick(BOOLEAN), df \in Pick({0, 1}) :
                \/ CreateTable(l, c, ty, nn, df)
                \/ \E pos \in Pick({"first", "afterpk", "last"}) : AddColumn(l, c, ty, nn, df, pos)
          \/ \E c \in Pick(NamesOf(sch[l].cols) \ {"pk"}) :
                \/ DropColumn(l, c) \/ ModifyType(l, c) \/ RenameColumn(l, c) \/ AddIndex(l, c) \/ DropIndex(l, c)
                \/ \E df \in Pick({0, 1}) : SetDefault(l, c, df)
          \/ \E k \in Pick({"ck1", "ck2"}) : AddCheck(l, k) \/ DropCheck(l, k)
          \/ \E m \in Pick(Lines) : Merge(l, m)
\* replay generator: line m re-runs, statement by statement, what line l has run (same DDL on an independent history)
Follow(m, l) ==
    LET i == Len(log[m]) + 1
        st == log[l][i] IN
    /\ On("Follow") /\ m # l /\ Len(log[m]) < Len(log[l]) /\ SubSeq(log[l], 1, Len(log[m])) = log[m]
    /\ \/ st.a = "CreateTable" /\ CreateTable(m, st.c, st.ty, st.nn, st.df)
       \/ st.a = "AddColumn" /\ AddColumn(m, st.c, st.ty, st.nn, st.df, st.pos)
       \/ st.a = "DropColumn" /\ DropColumn(m, st.c)
       \/ st.a = "ModifyType" /\ ModifyType(m, st.c)
       \/ st.a = "RenameColumn" /\ RenameColumn(m, st.c)
       \/ st.a = "AddIndex" /\ AddIndex(m, st.c)
       \/ st.a = "DropIndex" /\ DropIndex(m, st.c)
       \/ st.a = "AddCheck" /\ AddCheck(m, st.k)
       \/ st.a = "DropCheck" /\ DropCheck(m, st.k)
       \/ st.a = "SetDefault" /\ SetDefault(m, st.c, st.df)
\* simulation: line "main" works freely, the other lines re-run its statements (mostly right away)
Lag == {x \in Lines \ {"main"} : Len(log[x]) < Len(log["main"])}
FreeDDL(l) ==
    \/ \E c \in Pick(ColNames), ty \in Pick(Types), nn \in Pick(BOOLEAN), df \in Pick({0, 1}) :
          \/ CreateTable(l, c, ty, nn, df)
          \/ \E pos \in Pick({"first", "afterpk", "last"}) : AddColumn(l, c, ty, nn, df, pos)
    \/ \E c \in Pick(NamesOf(sch[l].cols) \ {"pk"}) :
          \/ DropColumn(l, c) \/ ModifyType(l, c) \/ RenameColumn(l, c) \/ AddIndex(l, c) \/ DropIndex(l, c)
          \/ \E df \in Pick({0, 1}) : SetDefault(l, c, df)
    \/ \E k \in Pick({"ck1", "ck2"}) : AddCheck(l, k) \/ DropCheck(l, k)
NextSim == \/ (Lag = {} \/ RE(1..3) = 1) /\ FreeDDL("main")
           \/ \E m \in Pick(Lag) : Follow(m, "main")
           \/ \E l \in Pick(Branches), m \in Pick(Branches) : Merge(l, m)
Spec == Init /\ [][Next]_vars

-----------------------------------------------------------------------------
WellFormed(s) == /\ \A i, j \in 1..Len(s.cols) : s.cols[i].n = s.cols[j].n => i = j
                 /\ s.ix \subseteq NamesOf(s.cols)
                 /\ (s.ex => "pk" \in NamesOf(s.cols))
                 /\ (~s.ex => s = NoTable)
TypeOK == \A l \in Lines : WellFormed(sch[l]) /\ Len(log[l]) <= MaxLog
\* the model's statement of tag/schema determinism: the schema is a function of the statements run (what the engine demands
\* of the real tags and schema hashes whenever two logs are equal)
SameDDLSameSchema == \A l, m \in Lines : log[l] = log[m] => sch[l] = sch[m]
\* a merge of branches with the same statements changes nothing
MergeOfEqualsIsNoOp == [][last'.a = "Merge" => UNCHANGED <<sch, log>>]_vars

Emit == Len(hist) < D \/ PrintT(ToJson(hist))
=============================================================================
