--------------------------- MODULE ClusterHookMC ---------------------------
(* Model-checking wrapper of ClusterHook.tla: the symmetry set of the exhaustive configs lives here because TLC
   evaluates constant definitions eagerly (Permutations of the call ids of a long trace would be enormous). *)
EXTENDS ClusterHook
Symm == Permutations(Calls)
=============================================================================
