--------------------------- MODULE RefStore ---------------------------
(* Abstract machine of the dataset map ("refs") of a dolt database: go/store/datas/database_common.go.

   The store root is a content-addressed map  name -> value  (branch heads, tags, working sets, tuples).
   Every mutating call of datas.Database runs the optimistic loop database.update (l.841):

        for { root := rt.Root();  m := load(root);  m2, err := edit(m);  if err: return err
              if rt.Commit(hash(m2), root) { break } }                      -- CAS on the chunk-store root

   One spec action per critical section: Begin (checks made before the loop, against the caller's captured
   Dataset), ReadRoot (Root() + the edit closure, which is a pure function of what was read), CAS (the store
   Commit), PostRead (the GetDataset that doHeadUpdate performs after a successful update). The edit closures
   (Edit* below) follow the code line by line, including doDelete's firstHash rule, the working-set cleanliness
   check of FastForward/Delete, SetHead's type check, CommitWithWorkingSet's parent prepending.

   Because the root is content-addressed, "root" in the model IS the map: a CAS succeeds whenever the map read
   equals the persisted map, also after A-B-A.  With Shared = FALSE every client owns a store instance whose
   Root() is a cached value (MemoryStoreView.rootHash, NomsBlockStore.upstream.root of another process) that is
   refreshed by Commit (success or failure) and Rebase only.

   Named deviation: NomsBlockStore.commit returns true WITHOUT any comparison when current == last and the
   store has nothing novel (store.go:1588); reachable here when an edit does not change the map (Delete of an
   absent dataset, SetTuple of the same value ...): CASNoopLenient.  A second one, CASSameContents, exists for several
   instances on one file manifest (two byte-identical updates racing from the same state both report success).

   The sequential (atomic) specification of every operation is given separately (Succeeds / Writes); the
   properties compare the loop with it at the linearization points:
     Linearizable                          seqm (atomic spec applied at the successful CAS) = root, failures justified
     ConditionalOpsCheckWhatTheyApplied    the condition holds on the PERSISTED map at the moment of the CAS
     NonForcedMovesToDescendant            Commit / FastForward / CommitWithWorkingSet move a head to a descendant
     NoLostUpdate                          a successful CAS changes exactly the op's writes relative to the latest
                                           persisted map; nothing else changes the root
     HeadWsAtomic (C21)                    a CommitWithWorkingSet changes head and working set in ONE root change,
                                           exactly one successful CAS iff it reports success *)
EXTENDS Integers, Sequences, FiniteSets, TLC, Json

CONSTANTS Clients,     \* set of strings
          Branches,    \* set of strings
          Tags,        \* set of strings
          Tuples,      \* set of strings
          NewVals,     \* root values used by new commits / working sets / tuples (strings "r0".."r2")
          PreIds,      \* which of the pre-built commits 0..4 exist (targets of FF / SetHead / Tag, explicit parents)
          InitIds,     \* which initial roots are explored
          Kinds,       \* enabled operation kinds
          Metas,       \* working-set meta variants used by UpdWS / CWW (0 = nil meta, 1 = named meta)
          MaxOps,      \* operations of client "A"
          MaxOpsRest,  \* operations of every other client
          Shared,      \* TRUE: one store instance for all clients; FALSE: one instance (cached root) per client
          NoopCAS,     \* "strict" | "lenient" | "either"  (see CASNoopLenient)
          SimPick,     \* TRUE: draw one menu entry per client with RandomElement (simulation mode)
          Faults,      \* TRUE: a Root()/Commit() call of the store may fail (manifest lock timeout, I/O error): action StoreFault
          SplitCWW,    \* TRUE: model the WRONG design (two update loops) - only used to show HeadWsAtomic is not vacuous
          D,           \* maximal behaviour length (simulation)
          RecordHist

VARIABLES root,     \* persisted dataset map  Names -> Value
          croot,    \* [Clients -> map]  cached root of the client's store instance (ignored when Shared)
          view,     \* [Clients -> map]  the Dataset handles the client holds (captured earlier)
          pc,       \* [Clients -> {"idle","read","cas","post","done"}]
          op,       \* [Clients -> operation record] (resolved by Begin)
          snap,     \* [Clients -> map] what the current loop iteration read
          newm,     \* [Clients -> map] what the current loop iteration wants to write
          first,    \* [Clients -> Value] doDelete's firstHash
          res,      \* [Clients -> result class of the last finished op]
          ret,      \* [Clients -> [h, w]] datasets returned by the last finished op
          nops,     \* [Clients -> Nat]
          casn,     \* [Clients -> Nat] successful store commits of the current op   (ghost)
          seqm,     \* the sequential specification's map                            (ghost)
          bad,      \* set of violated property names                                (ghost; {} in every reachable state iff the properties hold)
          hist

OpsOf(c) == IF c = "A" THEN MaxOps ELSE MaxOpsRest

vars == <<root, croot, view, pc, op, snap, newm, first, res, ret, nops, casn, seqm, bad, hist>>
hview == <<root, croot, view, pc, op, snap, newm, first, res, ret, nops, casn, seqm, bad>>

\* ------------------------------------------------------------------ names and values
H(b) == <<"h", b>>     \* refs/heads/b
W(b) == <<"w", b>>     \* workingSets/heads/b
T(t) == <<"t", t>>     \* refs/tags/t
U(k) == <<"u", k>>     \* tuples/k
NoName == <<"-", "-">>
Names == {H(b) : b \in Branches} \cup {W(b) : b \in Branches} \cup {T(t) : t \in Tags} \cup {U(k) : k \in Tuples}

None == [k |-> "n"]
Cm(r, ps, a) == [k |-> "c", r |-> r, ps |-> ps, a |-> a]     \* commit: root value, parent list, author
Tg(c) == [k |-> "t", c |-> c]                                \* tag object pointing at commit c
Ws(w, s, m) == [k |-> "w", w |-> w, s |-> s, m |-> m]        \* working set: working root, staged root, meta variant
Tu(v) == [k |-> "u", v |-> v]

P0 == Cm("r0", <<>>, "pre")
P1 == Cm("r1", <<P0>>, "pre")
P2 == Cm("r2", <<P0>>, "pre")
P3 == Cm("r0", <<P1>>, "pre")
P4 == Cm("r1", <<P1, P2>>, "pre")
PreAll == <<P0, P1, P2, P3, P4>>
Pre == {PreAll[i + 1] : i \in PreIds}

Range(s) == {s[i] : i \in 1..Len(s)}
RECURSIVE AncSelf(_)
AncSelf(x) == {x} \cup UNION {AncSelf(x.ps[i]) : i \in 1..Len(x.ps)}
IsAnc(a, x) == a \in AncSelf(x)      \* FindCommonAncestor(a, x) = a

EmptyMap == [n \in Names |-> None]
InitRoot(i) ==
    CASE i = 0 -> [EmptyMap EXCEPT ![H("b1")] = P0, ![W("b1")] = Ws("r0", "r0", 0)]
      [] i = 1 -> [n \in Names |-> IF n = H("b1") THEN P1 ELSE IF n = W("b1") THEN Ws("r2", "r1", 1)
                                   ELSE IF n[1] = "t" THEN Tg(P0) ELSE None]
      [] i = 2 -> [n \in Names |-> IF n[1] = "h" THEN (IF n[2] = "b1" THEN P1 ELSE P2)
                                   ELSE IF n[1] = "w" /\ n[2] # "b1" THEN Ws("r2", "r2", 0) ELSE None]
      [] OTHER -> EmptyMap

\* ------------------------------------------------------------------ operations
\* one record shape for every kind; unused fields hold None / <<>> / FALSE
MkOp(kind, ds, ws, vh, prev, x, r, ps, nws, wws, dirty, force, amend) ==
    [kind |-> kind, ds |-> ds, ws |-> ws, vh |-> vh, prev |-> prev, x |-> x, r |-> r, ps |-> ps, nws |-> nws,
     wws |-> wws, dirty |-> dirty, force |-> force, amend |-> amend, n |-> None]

AllKinds == {"Commit", "CommitForce", "Amend", "FF", "SetHead", "Tag", "Delete", "UpdWS", "CWW", "SetTuple", "Get"}
NonForcedKinds == {"Commit", "FF", "CWW"}
ConditionalKinds == {"Commit", "CommitForce", "Amend", "FF", "Tag", "Delete", "UpdWS", "CWW"}

\* Operation templates: everything a caller chooses freely.  The parts taken from the Dataset handles the caller
\* holds (vh = head it believes current, prev = working-set value it believes current) are filled in by Resolve.
\* ps of a template is a parent MODE: <<>> = none given (auto-fill), <<p>> = a pre-built commit alone,
\* <<"vh", p>> = the view head plus a pre-built commit (a merge commit).
\* Constant-level: TLC evaluates each TemplatesOfKind once.
Tm(kind, ds, ws, x, r, ps, nws, wws, dirty, force, amend) == MkOp(kind, ds, ws, None, None, x, r, ps, nws, wws, dirty, force, amend)
ParentModes == {<<>>} \cup {<<p>> : p \in Pre} \cup {<<"vh", p>> : p \in Pre}

TemplatesOfKind(kind) ==
    CASE kind = "Commit" ->
           {Tm("Commit", H(b), NoName, None, r, ps, None, FALSE, FALSE, FALSE, FALSE) : b \in Branches, r \in NewVals, ps \in ParentModes}
      [] kind = "CommitForce" ->
           {Tm("CommitForce", H(b), NoName, None, r, <<p>>, None, FALSE, FALSE, TRUE, FALSE) : b \in Branches, r \in NewVals, p \in Pre}
      [] kind = "Amend" ->
           {Tm("Amend", H(b), NoName, None, r, <<>>, None, FALSE, FALSE, FALSE, TRUE) : b \in Branches, r \in NewVals}
      [] kind = "FF" ->
           {Tm("FF", H(b), IF w THEN W(b) ELSE NoName, x, "-", <<>>, None, w, dy, FALSE, FALSE) :
              b \in Branches, x \in Pre, w \in BOOLEAN, dy \in BOOLEAN}
      [] kind = "SetHead" ->
           {Tm("SetHead", H(b), IF w THEN W(b) ELSE NoName, x, "-", <<>>, None, w, FALSE, FALSE, FALSE) :
              b \in Branches, x \in Pre, w \in BOOLEAN}
           \cup {Tm("SetHead", T(t), NoName, x, "-", <<>>, None, FALSE, FALSE, FALSE, FALSE) : t \in Tags, x \in Pre}
      [] kind = "Tag" ->
           {Tm("Tag", T(t), NoName, x, "-", <<>>, None, FALSE, FALSE, FALSE, FALSE) : t \in Tags, x \in Pre}
      [] kind = "Delete" ->
           {Tm("Delete", H(b), IF w THEN W(b) ELSE NoName, None, "-", <<>>, None, w, FALSE, FALSE, FALSE) : b \in Branches, w \in BOOLEAN}
           \cup {Tm("Delete", T(t), NoName, None, "-", <<>>, None, FALSE, FALSE, FALSE, FALSE) : t \in Tags}
      [] kind = "UpdWS" ->
           {Tm("UpdWS", W(b), NoName, None, "-", <<>>, Ws(w, s, m), FALSE, FALSE, FALSE, FALSE) :
              b \in Branches, w \in NewVals, s \in NewVals, m \in Metas}
      [] kind = "CWW" ->
           {Tm("CWW", H(b), W(b), None, r, ps, Ws(r, r, m), TRUE, FALSE, FALSE, FALSE) :
              b \in Branches, r \in NewVals, m \in Metas, ps \in {<<>>} \cup {<<p>> : p \in Pre}}
      [] kind = "SetTuple" ->
           {Tm("SetTuple", U(k), NoName, None, r, <<>>, None, FALSE, FALSE, FALSE, FALSE) : k \in Tuples, r \in NewVals}
      [] kind = "Get" ->
           {Tm("Get", n, NoName, None, "-", <<>>, None, FALSE, FALSE, FALSE, FALSE) : n \in Names}
      [] OTHER -> {}

Templates == UNION {TemplatesOfKind(k) : k \in Kinds}
TemplatesByKind == [k \in Kinds |-> TemplatesOfKind(k)]

\* can the caller issue template t with the handles v it holds?  (an Amend needs a head; a merge commit needs a head other than p)
Issuable(t, v) ==
    /\ t.kind = "Amend" => v[t.ds] # None
    /\ (t.kind = "Commit" /\ Len(t.ps) = 2) => (v[t.ds] # None /\ v[t.ds] # t.ps[2])

Resolve(t, v) ==
    LET vh == IF t.kind \in {"UpdWS", "SetTuple", "Get"} THEN None ELSE v[t.ds]
        prev == IF t.kind = "UpdWS" THEN v[t.ds] ELSE IF t.kind = "CWW" THEN v[t.ws] ELSE None
        ps == IF t.kind = "Amend" THEN vh.ps ELSE IF Len(t.ps) = 2 THEN <<vh, t.ps[2]>> ELSE t.ps
    IN [t EXCEPT !.vh = vh, !.prev = prev, !.ps = ps]

\* ------------------------------------------------------------------ checks made before the loop (against the captured Dataset)
\* CommitWithWorkingSet l.762: prepend the view head to explicitly given parents
CwwParents(o) == IF o.kind = "CWW" /\ o.ps # <<>> /\ o.vh # None /\ o.vh \notin Range(o.ps) THEN <<o.vh>> \o o.ps ELSE o.ps

\* BuildNewCommit l.520.  Returns <<error class, parent list>>
BuildParents(o, author) ==
    LET ps == CwwParents(o) IN
    IF o.amend THEN (IF o.vh = None THEN <<"merge", <<>>>> ELSE <<"ok", ps>>)      \* AmendedCommit = view head by construction
    ELSE IF o.vh # None /\ ~o.force THEN
            (IF ps = <<>> THEN <<"ok", <<o.vh>>>> ELSE IF o.vh \notin Range(ps) THEN <<"merge", <<>>>> ELSE <<"ok", ps>>)
    ELSE <<"ok", ps>>

CommitKinds == {"Commit", "CommitForce", "Amend", "CWW"}

\* <<error class, resolved op>>
PreCheck(o, c) ==
    IF o.kind \in CommitKinds THEN
        LET bp == BuildParents(o, c) IN
        IF bp[1] # "ok" THEN <<bp[1], o>> ELSE <<"ok", [o EXCEPT !.n = Cm(o.r, bp[2], c)]>>
    ELSE IF o.kind = "FF" THEN
        (IF o.vh # None /\ ~IsAnc(o.vh, o.x) THEN <<"merge", o>> ELSE <<"ok", o>>)       \* doFastForward l.387-400
    ELSE <<"ok", o>>

\* ------------------------------------------------------------------ the edit closures (code order)
Err(e, f) == [t |-> "err", err |-> e, m |-> EmptyMap, first |-> f]
App(m2, f) == [t |-> "apply", err |-> "ok", m |-> m2, first |-> f]
NoCas(f) == [t |-> "nocas", err |-> "ok", m |-> EmptyMap, first |-> f]

\* doCommit l.576
EditCommit(o, m, f) ==
    LET curr == m[o.ds] IN
    IF curr # o.vh THEN Err("merge", f)
    ELSE IF curr # None /\ curr = o.n THEN Err("already", f)
    ELSE App([m EXCEPT ![o.ds] = o.n], f)

\* working-set cleanliness check shared by doFastForward l.433-468 and doDelete l.906-940; "ok" or an error class
WsCheck(m, wsn, curr, allowDirty) ==
    LET w == m[wsn] IN
    IF w = None THEN "ok"
    ELSE IF ~allowDirty /\ w.s # w.w THEN "dirty"
    ELSE IF curr = None THEN "other"            \* ReadValue(empty hash) = nil -> GetCommitRootHash fails
    ELSE IF curr.k # "c" THEN "other"
    ELSE IF w.s # curr.r THEN "dirty"
    ELSE "ok"

\* doFastForward l.403
EditFF(o, m, f) ==
    LET curr == m[o.ds] IN
    IF curr # o.vh THEN Err("merge", f)
    ELSE IF curr # None /\ curr = o.x THEN NoCas(f)                     \* ErrAlreadyCommitted is swallowed (l.510)
    ELSE IF o.wws THEN
        LET chk == WsCheck(m, o.ws, curr, o.dirty) IN
        IF chk # "ok" THEN Err(chk, f)
        ELSE App([m EXCEPT ![o.ds] = o.x, ![o.ws] = Ws(o.x.r, o.x.r, 0)], f)
    ELSE App([m EXCEPT ![o.ds] = o.x], f)

\* doSetHead l.265
EditSetHead(o, m, f) ==
    LET curr == m[o.ds] IN
    IF curr # None /\ curr.k # o.x.k THEN Err("type", f)
    ELSE IF o.wws THEN App([m EXCEPT ![o.ds] = o.x, ![o.ws] = Ws(o.x.r, o.x.r, 0)], f)
    ELSE App([m EXCEPT ![o.ds] = o.x], f)

\* doTag l.625
EditTag(o, m, f) == IF m[o.ds] # None THEN Err("exists", f) ELSE App([m EXCEPT ![o.ds] = Tg(o.x)], f)

\* doDelete l.883: firstHash is op-local state that survives retries
EditDelete(o, m, f) ==
    LET curr == m[o.ds]
        f2 == IF curr # None /\ f = None THEN curr ELSE f IN
    IF curr # f2 THEN Err("merge", f2)
    ELSE IF o.wws THEN
        LET chk == WsCheck(m, o.ws, curr, FALSE) IN
        IF chk # "ok" THEN Err(chk, f2)
        ELSE App([m EXCEPT ![o.ds] = None, ![o.ws] = None], f2)
    ELSE App([m EXCEPT ![o.ds] = None], f2)

\* doUpdateWorkingSet l.715
EditUpdWS(o, m, f) == IF m[o.ds] # o.prev THEN Err("lock", f) ELSE App([m EXCEPT ![o.ds] = o.nws], f)

\* CommitWithWorkingSet l.788.  ph = number of successful store commits of this op so far: always 0 in the real design;
\* with SplitCWW (the WRONG design: doCommit, then doUpdateWorkingSet) the second loop runs with ph = 1.
EditCWW(o, m, f, ph) ==
    IF SplitCWW /\ ph > 0 THEN (IF m[o.ws] # o.prev THEN Err("lock", f) ELSE App([m EXCEPT ![o.ws] = o.nws], f))
    ELSE IF m[o.ws] # o.prev THEN Err("lock", f)
    ELSE IF m[o.ds] # o.vh THEN Err("merge", f)
    ELSE IF SplitCWW THEN App([m EXCEPT ![o.ds] = o.n], f)
    ELSE App([m EXCEPT ![o.ds] = o.n, ![o.ws] = o.nws], f)

Edit(o, m, f, ph) ==
    CASE o.kind \in {"Commit", "CommitForce", "Amend"} -> EditCommit(o, m, f)
      [] o.kind = "FF" -> EditFF(o, m, f)
      [] o.kind = "SetHead" -> EditSetHead(o, m, f)
      [] o.kind = "Tag" -> EditTag(o, m, f)
      [] o.kind = "Delete" -> EditDelete(o, m, f)
      [] o.kind = "UpdWS" -> EditUpdWS(o, m, f)
      [] o.kind = "CWW" -> EditCWW(o, m, f, ph)
      [] o.kind = "SetTuple" -> App([m EXCEPT ![o.ds] = Tu(o.r)], f)

\* ------------------------------------------------------------------ the sequential specification (what "applied one at a time" means)
\* Succeeds(o, m): the operation, executed atomically on m, takes effect.   Writes(o, m): its effect then.
Clean(m, b, head) == m[W(b)] = None \/ (head # None /\ head.k = "c" /\ m[W(b)].w = m[W(b)].s /\ m[W(b)].s = head.r)
CleanOrUnstaged(m, b, head) == m[W(b)] = None \/ (head # None /\ head.k = "c" /\ m[W(b)].s = head.r)

Succeeds(o, m) ==
    CASE o.kind \in {"Commit", "CommitForce", "Amend"} -> m[o.ds] = o.vh
      [] o.kind = "FF" -> /\ m[o.ds] = o.vh
                          /\ o.wws => IF o.dirty THEN CleanOrUnstaged(m, o.ds[2], m[o.ds]) ELSE Clean(m, o.ds[2], m[o.ds])
      [] o.kind = "SetHead" -> m[o.ds] = None \/ m[o.ds].k = o.x.k
      [] o.kind = "Tag" -> m[o.ds] = None
      [] o.kind = "Delete" -> o.wws => Clean(m, o.ds[2], m[o.ds])
      [] o.kind = "UpdWS" -> m[o.ds] = o.prev
      [] o.kind = "CWW" -> m[o.ws] = o.prev /\ m[o.ds] = o.vh
      [] o.kind = "SetTuple" -> TRUE

\* set of <<name, value>> written
Writes(o, m) ==
    CASE o.kind \in {"Commit", "CommitForce", "Amend"} -> {<<o.ds, o.n>>}
      [] o.kind = "FF" -> IF m[o.ds] = o.x THEN {} ELSE {<<o.ds, o.x>>} \cup (IF o.wws THEN {<<o.ws, Ws(o.x.r, o.x.r, 0)>>} ELSE {})
      [] o.kind = "SetHead" -> {<<o.ds, o.x>>} \cup (IF o.wws THEN {<<o.ws, Ws(o.x.r, o.x.r, 0)>>} ELSE {})
      [] o.kind = "Tag" -> {<<o.ds, Tg(o.x)>>}
      [] o.kind = "Delete" -> {<<o.ds, None>>} \cup (IF o.wws THEN {<<o.ws, None>>} ELSE {})
      [] o.kind = "UpdWS" -> {<<o.ds, o.nws>>}
      [] o.kind = "CWW" -> {<<o.ds, o.n>>, <<o.ws, o.nws>>}
      [] o.kind = "SetTuple" -> {<<o.ds, Tu(o.r)>>}

ApplyWrites(ws, m) == [n \in Names |-> IF \E p \in ws : p[1] = n THEN (CHOOSE p \in ws : p[1] = n)[2] ELSE m[n]]
Atomic(o, m) == ApplyWrites(Writes(o, m), m)

\* ------------------------------------------------------------------ projections shipped to the engine
ProjMap(m) == [heads |-> [b \in Branches |-> m[H(b)]], ws |-> [b \in Branches |-> m[W(b)]],
               tags |-> [t \in Tags |-> m[T(t)]], tuples |-> [k \in Tuples |-> m[U(k)]]]
ProjOp(o) == o
Rec(a, c, o, extra) ==
    IF RecordHist THEN Append(hist, [a |-> a, c |-> c, args |-> o,
                                     exp |-> [root |-> ProjMap(root'), pc |-> pc', res |-> res'[c], ret |-> ret'[c],
                                              view |-> ProjMap(view'[c]), x |-> extra]])
    ELSE hist

ViewRoot(c) == IF Shared THEN root ELSE croot[c]
NoRet == [h |-> None, w |-> None]

\* ------------------------------------------------------------------ actions
Init == /\ \E i \in InitIds : root = InitRoot(i)
        /\ croot = [c \in Clients |-> root] /\ view = [c \in Clients |-> root]
        /\ pc = [c \in Clients |-> "idle"]
        /\ op = [c \in Clients |-> MkOp("Get", NoName, NoName, None, None, None, "-", <<>>, None, FALSE, FALSE, FALSE, FALSE)]
        /\ snap = [c \in Clients |-> EmptyMap] /\ newm = [c \in Clients |-> EmptyMap]
        /\ first = [c \in Clients |-> None] /\ res = [c \in Clients |-> "ok"] /\ ret = [c \in Clients |-> NoRet]
        /\ nops = [c \in Clients |-> 0] /\ casn = [c \in Clients |-> 0]
        /\ seqm = root /\ bad = {}
        /\ hist = IF RecordHist THEN <<[a |-> "Init", c |-> "-", args |-> <<>>, exp |-> [root |-> ProjMap(root)]]>> ELSE <<>>

\* the public call starts: pre-loop checks; a failing one returns at once (no Root()/Commit() call is made)
BeginOp(c, o) ==
    /\ pc[c] \in {"idle", "done"} /\ nops[c] < OpsOf(c)
    /\ LET pr == PreCheck(o, c) IN
       /\ op' = [op EXCEPT ![c] = pr[2]]
       /\ IF pr[1] # "ok" THEN /\ pc' = [pc EXCEPT ![c] = "done"] /\ res' = [res EXCEPT ![c] = pr[1]]
                               /\ ret' = [ret EXCEPT ![c] = NoRet]
          ELSE /\ pc' = [pc EXCEPT ![c] = IF o.kind = "Get" THEN "post" ELSE "read"] /\ UNCHANGED <<res, ret>>
    /\ nops' = [nops EXCEPT ![c] = @ + 1] /\ first' = [first EXCEPT ![c] = None] /\ casn' = [casn EXCEPT ![c] = 0]
    /\ UNCHANGED <<root, croot, view, snap, newm, seqm, bad>>
    /\ hist' = Rec("Begin", c, ProjOp(op'[c]), <<>>)

Begin(c) == /\ pc[c] \in {"idle", "done"} /\ nops[c] < OpsOf(c)
            /\ IF SimPick THEN \E k \in {RandomElement(Kinds)} : \E t \in {RandomElement(TemplatesByKind[k])} :
                                  Issuable(t, view[c]) /\ BeginOp(c, Resolve(t, view[c]))
               ELSE \E t \in Templates : Issuable(t, view[c]) /\ BeginOp(c, Resolve(t, view[c]))

\* rt.Root() + loadDatasetsRefmap + the edit closure
ReadRoot(c) ==
    /\ pc[c] = "read"
    /\ LET m == ViewRoot(c)
           e == Edit(op[c], m, first[c], casn[c]) IN
       /\ snap' = [snap EXCEPT ![c] = m] /\ first' = [first EXCEPT ![c] = e.first]
       /\ CASE e.t = "err" -> /\ pc' = [pc EXCEPT ![c] = "done"] /\ res' = [res EXCEPT ![c] = e.err]
                              /\ ret' = [ret EXCEPT ![c] = NoRet] /\ UNCHANGED newm
                              \* ghost: a failure needs a justification: the sequential op would not take effect either on
                              \* the state that was read (which is the persisted state when Shared)
                              /\ bad' = bad \cup (IF Succeeds(op[c], m) /\ e.err # "already" /\ ~(op[c].kind = "Delete" /\ e.err = "merge")
                                                  THEN {"Linearizable:unjustified-failure"} ELSE {})
                                            \cup (IF casn[c] # 0 THEN {"HeadWsAtomic:failed-op-changed-root"} ELSE {})
            [] e.t = "nocas" -> /\ pc' = [pc EXCEPT ![c] = "post"] /\ UNCHANGED <<res, ret, newm, bad>>
            [] e.t = "apply" -> /\ pc' = [pc EXCEPT ![c] = "cas"] /\ newm' = [newm EXCEPT ![c] = e.m] /\ UNCHANGED <<res, ret, bad>>
    /\ UNCHANGED <<root, croot, view, op, nops, casn, seqm>>
    /\ hist' = Rec("ReadRoot", c, <<>>, <<>>)

\* ghost bookkeeping of a successful store commit by c that replaces the persisted map by m2
Judge(c, m2) ==
    LET o == op[c] IN
       (IF o.kind \in ConditionalKinds /\ ~Succeeds(o, root) THEN {"ConditionalOpsCheckWhatTheyApplied"} ELSE {})
  \cup (IF o.kind \in NonForcedKinds /\ root[o.ds] # None /\ m2[o.ds] # None /\ ~IsAnc(root[o.ds], m2[o.ds]) THEN {"NonForcedMovesToDescendant"} ELSE {})
  \cup (IF m2 # Atomic(o, root) THEN {"NoLostUpdate"} ELSE {})
  \cup (IF o.kind = "CWW" /\ ~(m2[o.ds] = o.n /\ m2[o.ws] = o.nws) THEN {"HeadWsAtomic:torn"} ELSE {})
  \cup (IF casn[c] # 0 THEN {"HeadWsAtomic:second-cas"} ELSE {})

\* rt.Commit(new, last): succeeds iff the persisted root still is what was read
CASOk(c) ==
    /\ pc[c] = "cas" /\ snap[c] = root /\ (Shared \/ croot[c] = snap[c])
    /\ root' = newm[c] /\ croot' = IF Shared THEN croot ELSE [croot EXCEPT ![c] = newm[c]]
    /\ bad' = bad \cup Judge(c, newm[c])
    /\ seqm' = IF Succeeds(op[c], seqm) THEN Atomic(op[c], seqm) ELSE seqm
    /\ casn' = [casn EXCEPT ![c] = @ + 1]
    /\ pc' = [pc EXCEPT ![c] = IF SplitCWW /\ op[c].kind = "CWW" /\ casn[c] = 0 THEN "read" ELSE "post"]
    /\ UNCHANGED <<view, op, snap, newm, first, res, ret, nops>>
    /\ hist' = Rec("CAS", c, <<>>, [casok |-> TRUE, noop |-> newm[c] = snap[c], same |-> FALSE])

CASFail(c) ==
    /\ pc[c] = "cas" /\ ~(snap[c] = root /\ (Shared \/ croot[c] = snap[c]))
    /\ ~(NoopCAS = "lenient" /\ Shared /\ newm[c] = snap[c])
    \* a Commit that loses the race at the persisted root leaves the instance rebased (store.go handleOptimisticLockFailure,
    \* memory_store.go:329); one whose |last| is not even the instance's own cached root (the instance was rebased between
    \* Root() and Commit()) is refused without looking at the persisted root (store.go:1616 errLastRootMismatch, memory_store.go:316)
    /\ croot' = IF Shared \/ croot[c] # snap[c] THEN croot ELSE [croot EXCEPT ![c] = root]
    /\ pc' = [pc EXCEPT ![c] = "read"]
    /\ UNCHANGED <<root, view, op, snap, newm, first, res, ret, nops, casn, seqm, bad>>
    /\ hist' = Rec("CAS", c, <<>>, [casok |-> FALSE, noop |-> newm[c] = snap[c], same |-> newm[c] = root])

\* store.go:1588: current == last and nothing novel => "true" without comparing with the persisted root.
\* The edit did not change the map it read, so the operation linearizes at its ReadRoot.
CASNoopLenient(c) ==
    /\ pc[c] = "cas" /\ Shared /\ NoopCAS \in {"lenient", "either"}
    /\ newm[c] = snap[c] /\ snap[c] # root
    /\ casn' = [casn EXCEPT ![c] = @ + 1]
    /\ pc' = [pc EXCEPT ![c] = "post"]
    /\ UNCHANGED <<root, croot, view, op, snap, newm, first, res, ret, nops, seqm, bad>>
    /\ hist' = Rec("CAS", c, <<>>, [casok |-> TRUE, noop |-> TRUE, same |-> FALSE])

\* Named deviation (file manifest shared by several store instances): the manifest CAS is on a lock hash of (root, table
\* specs), and NomsBlockStore.updateManifest decides success by comparing the lock it proposed with the lock the manifest
\* has after the call (store.go:1711). An instance that proposes exactly the contents the manifest already holds - another
\* instance has just written the same root and the same (content-addressed) table file, i.e. the same operation with
\* byte-identical values racing from the same state - is therefore told "success" although its |last| is stale. Nothing is
\* written; the persisted map IS the map the caller was about to write, so no update is lost, but two identical
\* conditional updates both report success (found by replay on 2026-09-22; see LEADS.md).
CASSameContents(c) ==
    /\ pc[c] = "cas" /\ ~Shared /\ NoopCAS \in {"lenient", "either"}
    /\ croot[c] = snap[c] /\ snap[c] # root /\ newm[c] = root
    /\ croot' = [croot EXCEPT ![c] = root]
    /\ casn' = [casn EXCEPT ![c] = @ + 1]
    /\ pc' = [pc EXCEPT ![c] = "post"]
    /\ UNCHANGED <<root, view, op, snap, newm, first, res, ret, nops, seqm, bad>>
    /\ hist' = Rec("CAS", c, <<>>, [casok |-> TRUE, noop |-> FALSE, same |-> TRUE])

CAS(c) == CASOk(c) \/ CASFail(c) \/ CASNoopLenient(c) \/ CASSameContents(c)

\* doHeadUpdate's GetDataset (CommitWithWorkingSet: one Datasets() for both) after the update returned nil
PostRead(c) ==
    /\ pc[c] = "post"
    /\ LET m == ViewRoot(c) o == op[c]
           two == o.kind = "CWW" IN
       /\ ret' = [ret EXCEPT ![c] = [h |-> m[o.ds], w |-> IF two THEN m[o.ws] ELSE None]]
       /\ view' = [view EXCEPT ![c] = [n \in Names |-> IF n = o.ds \/ (two /\ n = o.ws) THEN m[n] ELSE @[n]]]
    /\ res' = [res EXCEPT ![c] = "ok"] /\ pc' = [pc EXCEPT ![c] = "done"]
    /\ bad' = bad \cup (IF op[c].kind = "CWW" /\ casn[c] # 1 THEN {"HeadWsAtomic:ok-without-one-cas"} ELSE {})
    /\ UNCHANGED <<root, croot, op, snap, newm, first, nops, casn, seqm>>
    /\ hist' = Rec("PostRead", c, <<>>, <<>>)

Finished == \A c \in Clients : pc[c] \in {"idle", "done"} /\ nops[c] = OpsOf(c)

\* the client re-reads all its Dataset handles (GetDataset per name while nobody else moves)
Refresh(c) ==
    /\ pc[c] \in {"idle", "done"} /\ ~Finished /\ view[c] # ViewRoot(c)
    /\ view' = [view EXCEPT ![c] = ViewRoot(c)]
    /\ UNCHANGED <<root, croot, pc, op, snap, newm, first, res, ret, nops, casn, seqm, bad>>
    /\ hist' = Rec("Refresh", c, <<>>, <<>>)

\* ChunkStore.Rebase of the client's instance
Rebase(c) ==
    /\ ~Shared /\ ~Finished /\ croot[c] # root
    /\ croot' = [croot EXCEPT ![c] = root]
    /\ UNCHANGED <<root, view, pc, op, snap, newm, first, res, ret, nops, casn, seqm, bad>>
    /\ hist' = Rec("Rebase", c, <<>>, <<>>)

\* Fault action: the store call the client is about to make (Root() in "read", Commit() in "cas") returns an error, e.g.
\* fileManifest's 100 ms lock timeout under contention (file_manifest.go:594) or an I/O error. database.update returns
\* it to the caller at once; nothing was written. (In simulation mode the fault is drawn with probability 1/6.)
StoreFault(c) ==
    /\ Faults /\ pc[c] \in {"read", "cas"}
    /\ (SimPick => RandomElement(1..6) = 1)
    /\ pc' = [pc EXCEPT ![c] = "done"] /\ res' = [res EXCEPT ![c] = "other"] /\ ret' = [ret EXCEPT ![c] = NoRet]
    /\ bad' = bad \cup (IF casn[c] # 0 THEN {"HeadWsAtomic:failed-op-changed-root"} ELSE {})
    /\ UNCHANGED <<root, croot, view, op, snap, newm, first, nops, casn, seqm>>
    /\ hist' = Rec("StoreFault", c, <<>>, <<>>)

Step(c) == Begin(c) \/ ReadRoot(c) \/ CAS(c) \/ PostRead(c) \/ Refresh(c) \/ Rebase(c) \/ StoreFault(c)
Next == \E c \in Clients : Step(c)
Spec == Init /\ [][Next]_vars

\* ------------------------------------------------------------------ what TLC checks
Values == UNION {{root[n], seqm[n]} : n \in Names}
TypeOK == /\ \A c \in Clients : pc[c] \in {"idle", "read", "cas", "post", "done"} /\ nops[c] \in 0..OpsOf(c) /\ casn[c] \in 0..1
          /\ \A n \in Names : root[n].k \in (CASE n[1] = "h" -> {"n", "c"} [] n[1] = "w" -> {"n", "w"} [] n[1] = "t" -> {"n", "t", "c"} [] OTHER -> {"n", "u"})

Linearizable == seqm = root /\ "Linearizable:unjustified-failure" \notin bad
ConditionalOpsCheckWhatTheyApplied == "ConditionalOpsCheckWhatTheyApplied" \notin bad
NonForcedMovesToDescendant == "NonForcedMovesToDescendant" \notin bad
NoLostUpdate == "NoLostUpdate" \notin bad
HeadWsAtomic == bad \cap {"HeadWsAtomic:torn", "HeadWsAtomic:second-cas", "HeadWsAtomic:ok-without-one-cas", "HeadWsAtomic:failed-op-changed-root"} = {}
\* root only ever changes through a successful CAS of some client (action property)
RootChangesOnlyByCAS == [][root' # root => \E c \in Clients : casn'[c] = casn[c] + 1 /\ pc[c] = "cas"]_vars
\* a successful result of a mutating op implies exactly one successful store commit, a failure none
ResultMatchesCAS == \A c \in Clients : pc[c] = "done" /\ op[c].kind \notin {"Get", "FF"} =>
                        (res[c] = "ok" <=> casn[c] = 1)

\* emission of finished behaviours in simulation mode
Emit == ~(Finished \/ Len(hist) >= D) \/ PrintT(ToJson(hist))
=============================================================================
