--------------------------- MODULE AncestorSpec ---------------------------
(* Ancestor-spec strings (go/libraries/doltcore/doltdb/ancestor_spec.go, parseInstructions), shared by
   CommitGraph.tla (C19: Walk) and RefNames.tla (C44: NewCommitSpec / SplitAncestorSpec).
   A string is a sequence of one-character strings (TLC cannot index into a TLA+ string). *)
EXTENDS Integers, Sequences

Digits == {"0", "1", "2", "3", "4", "5", "6", "7", "8", "9"}
DigitVal(ch) == CASE ch = "0" -> 0 [] ch = "1" -> 1 [] ch = "2" -> 2 [] ch = "3" -> 3 [] ch = "4" -> 4
                  [] ch = "5" -> 5 [] ch = "6" -> 6 [] ch = "7" -> 7 [] ch = "8" -> 8 [] ch = "9" -> 9
RECURSIVE Atoi(_, _)
Atoi(ds, acc) == IF ds = <<>> THEN acc ELSE Atoi(Tail(ds), 10 * acc + DigitVal(ds[1]))
RECURSIVE DigitRunEnd(_, _)
DigitRunEnd(s, i) == IF i + 1 <= Len(s) /\ s[i + 1] \in Digits THEN DigitRunEnd(s, i + 1) ELSE i
ParseErr == <<-1>>
\* parseInstructions: a marker (^ or ~) followed by a maximal run of digits; ^ and ^1 = first parent, ^2 = second
\* parent, every other ^k is rejected (isValidMergeSpec); ~n = n first-parent steps (~ = ~1, ~0 = no step).
RECURSIVE ParseFrom(_, _, _)
ParseFrom(s, i, acc) ==
    IF i > Len(s) THEN acc ELSE
    LET j == DigitRunEnd(s, i)
        num == IF j = i THEN 1 ELSE Atoi(SubSeq(s, i + 1, j), 0)
    IN CASE s[i] = "^" -> IF num \in {1, 2} THEN ParseFrom(s, j + 1, Append(acc, num - 1)) ELSE ParseErr
         [] s[i] = "~" -> ParseFrom(s, j + 1, acc \o [k \in 1..num |-> 0])
         [] OTHER -> ParseErr
Parse(s) == ParseFrom(s, 1, <<>>)
=============================================================================
