--------------------------- MODULE TraceRefStore ---------------------------
(* Trace specification for RefStore.tla (T-mode of C20/C21).
   The engine logs, for ungated concurrent clients (goroutines or OS processes) of one store, one event when a public
   call of datas.Database STARTS (with the complete operation record, including what the caller's captured Datasets
   said) and one when it RETURNS (error class, returned heads).  Events are totally ordered by the logger; a call is
   logged before it starts and a return after it returned, so the logged order respects real time.
   The internal steps of RefStore (ReadRoot, CAS, PostRead) are not logged: TLC searches for an interleaving of them
   that explains every logged result and the final persisted dataset map.  A history for which no such interleaving
   exists is not linearizable w.r.t. the model (or a result/returned head differs) and the trace is rejected.
   Several traces are concatenated; a "reset" event starts the next one. *)
EXTENDS RefStore, TLCExt

VARIABLE l       \* number of trace lines consumed

TraceLog == ndJsonDeserialize("trace.ndjson")
NL == Len(TraceLog)

tvars == <<root, croot, view, pc, op, snap, newm, first, res, ret, nops, casn, seqm, bad, hist, l>>

\* <<name, value>> pairs -> dataset map
MapOfPairs(ps) == [n \in Names |-> IF \E i \in 1..Len(ps) : <<ps[i][1][1], ps[i][1][2]>> = n
                                   THEN ps[CHOOSE i \in 1..Len(ps) : <<ps[i][1][1], ps[i][1][2]>> = n][2] ELSE None]
NameOf(a) == <<a[1], a[2]>>
\* JSON arrays arrive as tuples already; rebuild the operation record with tuple-typed names
OpOf(o) == [o EXCEPT !.ds = NameOf(o.ds), !.ws = NameOf(o.ws)]

ResetTo(m) ==
    /\ root' = m /\ croot' = [c \in Clients |-> m] /\ view' = [c \in Clients |-> m]
    /\ pc' = [c \in Clients |-> "idle"]
    /\ op' = [c \in Clients |-> MkOp("Get", NoName, NoName, None, None, None, "-", <<>>, None, FALSE, FALSE, FALSE, FALSE)]
    /\ snap' = [c \in Clients |-> EmptyMap] /\ newm' = [c \in Clients |-> EmptyMap]
    /\ first' = [c \in Clients |-> None] /\ res' = [c \in Clients |-> "ok"] /\ ret' = [c \in Clients |-> NoRet]
    /\ nops' = [c \in Clients |-> 0] /\ casn' = [c \in Clients |-> 0]
    /\ seqm' = m /\ bad' = {} /\ hist' = <<>>

TInit == /\ l = 0
         /\ root = EmptyMap /\ croot = [c \in Clients |-> EmptyMap] /\ view = [c \in Clients |-> EmptyMap]
         /\ pc = [c \in Clients |-> "idle"]
         /\ op = [c \in Clients |-> MkOp("Get", NoName, NoName, None, None, None, "-", <<>>, None, FALSE, FALSE, FALSE, FALSE)]
         /\ snap = [c \in Clients |-> EmptyMap] /\ newm = [c \in Clients |-> EmptyMap]
         /\ first = [c \in Clients |-> None] /\ res = [c \in Clients |-> "ok"] /\ ret = [c \in Clients |-> NoRet]
         /\ nops = [c \in Clients |-> 0] /\ casn = [c \in Clients |-> 0]
         /\ seqm = EmptyMap /\ bad = {} /\ hist = <<>>

Quiet == \A c \in Clients : pc[c] \in {"idle", "done"}

Logged ==
    /\ l < NL
    /\ LET e == TraceLog[l + 1] IN
       /\ l' = l + 1
       /\ CASE e.ev = "reset" -> Quiet /\ ResetTo(MapOfPairs(e.root))
            [] e.ev = "call" -> BeginOp(e.c, OpOf(e.op))
            [] e.ev = "ret" -> /\ pc[e.c] = "done" /\ res[e.c] = e.res
                               /\ (e.res = "ok" => ret[e.c] = [h |-> e.h, w |-> e.w])
                               /\ pc' = [pc EXCEPT ![e.c] = "idle"]
                               /\ UNCHANGED <<root, croot, view, op, snap, newm, first, res, ret, nops, casn, seqm, bad, hist>>
            [] e.ev = "final" -> /\ Quiet /\ root = MapOfPairs(e.root)
                                 /\ UNCHANGED <<root, croot, view, pc, op, snap, newm, first, res, ret, nops, casn, seqm, bad, hist>>

Silent == /\ l < NL /\ UNCHANGED l
          /\ \E c \in Clients : ReadRoot(c) \/ CAS(c) \/ PostRead(c) \/ StoreFault(c)

TNext == Logged \/ Silent

\* high-water mark of matched lines (silent steps exist, so the diameter is not usable); -workers 1
ASSUME TLCSet(42, 0)
HighWater == IF l > TLCGet(42) THEN TLCSet(42, l) ELSE TRUE
Matched == PrintT("TRACE_MATCHED " \o ToString(TLCGet(42)))

\* the model's own properties must hold along the explanation that was found
TraceProps == bad = {} /\ seqm = root
=============================================================================
