------------------------------- MODULE Remote -------------------------------
(* Push, pull, fetch and clone between dolt repositories (property C35).

   Stores: the remote "r" and the clients (each a dolt repository with remote "origin" = r). Every store is a
   chunk store (set of visible chunks = chunks of the table files named in its manifest) plus a ref map: branch heads,
   tags, and (clients) remote-tracking refs refs/remotes/origin/<b>.  Commits form ONE content-addressed DAG; a commit c
   is the chunks Cm(c) -> {Cm(parents), Rt(c)}, Rt(c) -> {Dt(a) : a ancestor-or-self of c with own data} (tables share the
   chunks of their history), a tag object Tg(n, c) -> {Cm(c)}.  Refs(x) is the reference relation the Puller walks
   (types.WalkAddrsForNBF).

   Transcribed code (one action per critical section / public call; the Go function is named at each action):
     env/actions/remotes.go      Push (CanFastForward, PullChunks, FastForwardWithWorkspaceCheck | SetHeadAndWorkingSetToCommit,
                                 SetHeadToCommit(remote ref)), PushTag, DeleteRemoteBranch, fetchRefSpecsWithDepth,
                                 FetchFollowTags;  env/actions/clone.go CloneRemote/fullClone; dprocedures/dolt_pull.go
     store/datas/pull/puller.go  NewPuller (sink.HasMany(targets) => ErrDBUpToDate), Pull = PullChunkTracker walk with
                                 sink.HasMany pruning; pull_table_file_writer.go: table files cut at TargetFileSize, uploaded
                                 one by one with WriteTableFile, then ONE AddTableFilesToManifest (nbs/store.go:1997, with its
                                 one-level reference check refCheckAllSources)
     store/datas/database_common.go  doFastForward (ancestor check against the dataset head read by the caller, then the
                                 update loop: curr # head read => ErrMergeNeeded; same commit => ErrAlreadyCommitted = success),
                                 doSetHead (no head comparison), update (optimistic loop on the store root: Root, edit, Commit(new,last))

   Granularities (constant Gran):
     "stmt"  every dolt_* procedure call is one action (Push, PushTag, PushDelete, Fetch, Pull, Clone): what a single SQL
             session observes; generator of the SQL-level behaviours;
     "fine"  a push / fetch is the process  TStart ; TUpload^n ; TAddFiles ; TRefRead ; TEdit ; TCas ; TTrack  of a client,
             interleaved with the other clients' steps and interruptible (TInterrupt) anywhere: the exhaustive configs;
     "gate"  as "fine", but a client that left a gate runs alone until it reaches its next gate (gates = the calls the
             engine's ChunkStore wrapper can block: AddTableFilesToManifest and Commit): generator of the gated behaviours.

   Deliberately broken designs (constant Variant; "code" is what dolt does) used to show that the invariants are not vacuous:
     "ref-before-add"  the ref update precedes AddTableFilesToManifest (an interruption in between leaves a dangling ref);
     "add-one-by-one"  every uploaded file is added to the manifest at once (an interruption leaves a store that is not
                       closed under Refs, and the NEXT transfer's HasMany pruning then completes a dangling ref);
     "no-cas"          the update loop of FastForward does not compare the branch head with the head it validated;
   and the fault action LoseChunk (a sink that is NOT closed under Refs: the premise C07 of HasMany pruning is false). *)
EXTENDS Integers, Sequences, FiniteSets, TLC, Json

CONSTANTS Clients,      \* client stores (strings); the remote is "r"
          InitClients,  \* clients that exist initially (clones of r); the others come into existence by Clone
          Branches,     \* branch names; "main" must be one
          TagNames,
          MaxCommits,
          FileSize,     \* chunks per uploaded table file (the Puller's target file size)
          Acts,         \* names of the enabled actions
          RareActs,     \* actions the simulator takes only now and then
          Variant,      \* "code" | "ref-before-add" | "add-one-by-one" | "no-cas"
          Gran,         \* "stmt" | "fine" | "gate"
          RefreshModes, \* subset of BOOLEAN: does AddTableFilesToManifest refresh the pusher's cached root of r?  TRUE: the pusher's
                        \* own NomsBlockStore on a file remote (updateManifestAddFiles re-reads the manifest); FALSE: a gRPC client
          MaxGen,       \* bound on gen (state constraint Bounded)
          D, RecordHist

VARIABLES commits,   \* sequence of [parents : Seq(Cid)]; commit id = index; commit 1 = the initial commit
          exists,    \* [Stores -> BOOLEAN]
          present,   \* [Stores -> SUBSET Chunk]  chunks visible through the manifest
          head,      \* [Stores -> [Branches -> 0..MaxCommits]]  0 = no such branch
          rt,        \* [Stores -> [Branches -> 0..MaxCommits]]  remote-tracking refs of the clients (r: all 0)
          tag,       \* [Stores -> [TagNames -> 0..MaxCommits]]
          cur,       \* [Stores -> Branches] checked-out branch of a client
          wsr,       \* [Branches -> 0..MaxCommits] working set that r holds for a branch (0 = none): a FORCED push creates / resets it
                     \* (SetHeadAndWorkingSetToCommit); a fast-forward push to a file / IGNORE_WORKING_SET remote leaves it alone
          xf,        \* [Clients -> transfer in progress]
          hold,      \* "-" or the client that is running between two gates (Gran = "gate")
          wins,      \* audit: <<branch, compared head, generation>> of every successful non-forced head move on r
          gen,       \* audit: [Branches -> Nat] number of forced / deleting updates of r's branch
          dbl,       \* audit: two successful non-forced pushes compared against the same old head in one generation
          last,      \* record of the last action (the invariants read it)
          hist

vars == <<commits, exists, present, head, rt, tag, cur, wsr, xf, hold, wins, gen, dbl, last, hist>>
view == <<commits, exists, present, head, rt, tag, cur, wsr, xf, hold, wins, gen, dbl, last>>

R == "r"
Stores == Clients \cup {R}
NCommits == Len(commits)
Cids == 1..NCommits
Room == NCommits < MaxCommits

-----------------------------------------------------------------------------
(* Commit graph *)
Parents(c) == commits[c].parents
ParentSet(c) == {Parents(c)[i] : i \in 1..Len(Parents(c))}
RECURSIVE AncSet(_)
AncSet(c) == {c} \cup UNION {AncSet(p) : p \in ParentSet(c)}
IsAnc(a, c) == a \in AncSet(c)          \* reflexive
RECURSIVE AncIn(_, _)                   \* the same over an explicit commit sequence (for the primed state)
AncIn(cm, c) == {c} \cup UNION {AncIn(cm, cm[c].parents[i]) : i \in 1..Len(cm[c].parents)}

(* Chunks and the reference relation *)
Cm(c) == [k |-> "cm", c |-> c, n |-> ""]
Rt(c) == [k |-> "rt", c |-> c, n |-> ""]
Dt(c) == [k |-> "d", c |-> c, n |-> ""]
Tg(n, c) == [k |-> "tg", c |-> c, n |-> n]
Refs(x) == CASE x.k = "cm" -> {Cm(p) : p \in ParentSet(x.c)} \cup {Rt(x.c)}
             [] x.k = "rt" -> {Dt(a) : a \in AncSet(x.c) \ {1}}
             [] x.k = "tg" -> {Cm(x.c)}
             [] OTHER -> {}
NewChunks(c) == {Cm(c), Rt(c), Dt(c)}       \* what creating commit c > 1 writes

RECURSIVE Clo(_, _)
Clo(F, acc) == LET N == F \ acc IN IF N = {} THEN acc ELSE Clo(UNION {Refs(x) : x \in N}, acc \cup N)
Closure(T) == Clo(T, {})
\* the Puller's walk from targets T into a sink whose visible chunks are P: an address the sink has is not fetched and
\* NOT descended into (pull_chunk_tracker.go: only absent addresses are returned by GetChunksToFetch)
RECURSIVE Walk(_, _, _)
Walk(F, P, acc) == LET N == (F \ P) \ acc IN IF N = {} THEN acc ELSE Walk(UNION {Refs(x) : x \in N}, P, acc \cup N)
WalkNeed(T, P) == Walk(T, P, {})

\* table files: the fetched chunks in walk order (top down), FileSize chunks per file
Rank(x) == (CASE x.k = "tg" -> 0 [] x.k = "cm" -> 1 [] x.k = "rt" -> 2 [] OTHER -> 3) * 100 + (MaxCommits - x.c)
RECURSIVE SeqOf(_)
SeqOf(S) == IF S = {} THEN <<>> ELSE LET m == CHOOSE x \in S : \A y \in S : Rank(x) <= Rank(y) IN <<m>> \o SeqOf(S \ {m})
NFiles(S) == (Cardinality(S) + FileSize - 1) \div FileSize
FileOf(S, i) == LET sq == SeqOf(S) IN {sq[j] : j \in {j \in 1..Len(sq) : (j - 1) \div FileSize = i - 1}}

(* Refs of a store *)
BranchTargets(s) == {Cm(head[s][b]) : b \in {x \in Branches : head[s][x] # 0}}
TrackTargets(s) == {Cm(rt[s][b]) : b \in {x \in Branches : rt[s][x] # 0}}
TagTargets(s) == {Tg(n, tag[s][n]) : n \in {x \in TagNames : tag[s][x] # 0}}
RefTargets(s) == BranchTargets(s) \cup TrackTargets(s) \cup TagTargets(s)
RefsValid(s) == Closure(RefTargets(s)) \subseteq present[s]
StoreClosed(s) == \A x \in present[s] : Refs(x) \subseteq present[s]
\* the root of a store = its whole ref map (the store root hash is the hash of the datasets map: content based)
RootOf(s) == <<head[s], rt[s], tag[s], IF s = R THEN wsr ELSE <<>> >>
\* the root value of a commit is determined by the rows of its table
RowsOf(c) == {a \in AncSet(c) : Len(Parents(a)) = 1}

-----------------------------------------------------------------------------
(* Transfer process state *)
\* view: the root (= ref map) of r that the pusher's handle on r has cached: taken when the handle is opened (Rebase), re-read
\* only when one of its Commit calls fails (NomsBlockStore.Commit rebases; DoltChunkStore.Commit reloads the root) and, for a
\* NomsBlockStore, by AddTableFilesToManifest. Dataset heads are read from it (database.GetDataset / update via Root()).
Idle == [pc |-> "idle", kind |-> "", b |-> "main", tgt |-> 0, force |-> FALSE, need |-> {}, n |-> 0, sent |-> 0,
         cmp |-> 0, snap |-> <<>>, pend |-> 0, heads |-> <<>>, idx |-> 0, dirty |-> FALSE, view |-> <<>>, refresh |-> FALSE]
Free(p) == xf[p].pc = "idle"
GatePcs == {"addfiles", "cas"}
MayStep(p) == hold \in {"-", p}
HoldAfter(p, x) == IF Gran = "gate" /\ x.pc \notin (GatePcs \cup {"idle"}) THEN p ELSE "-"

NoAud == [b |-> "", tgt |-> 0, force |-> FALSE, old |-> 0, new |-> 0, cmp |-> 0, dst |-> ""]
Aud(b, tgt, force, old, new, cmp, dst) == [b |-> b, tgt |-> tgt, force |-> force, old |-> old, new |-> new, cmp |-> cmp, dst |-> dst]

HeadsOf(s, hd) == [b \in {x \in Branches : hd[s][x] # 0} |-> hd[s][b]]
TagsOf(s, tg) == [n \in {x \in TagNames : tg[s][x] # 0} |-> tg[s][n]]
\* projection compared by the engine after every step
ProjOf(cm, ex, pr, hd, tr, tg, cu) ==
    [cm |-> [c \in 1..Len(cm) |-> cm[c].parents],
     rows |-> [c \in 1..Len(cm) |-> {a \in AncIn(cm, c) : Len(cm[a].parents) = 1}],   \* keys of table t at commit c
     st |-> [s \in {x \in Stores : ex[x]} |->
               [head |-> HeadsOf(s, hd), rt |-> HeadsOf(s, tr), tag |-> TagsOf(s, tg), cur |-> cu[s],
                has |-> {c \in 1..Len(cm) : Cm(c) \in pr[s]}]]]

Pick(S) == IF RecordHist THEN (IF S = {} THEN {} ELSE {RandomElement(IF Len(hist) >= 0 THEN S ELSE {})}) ELSE S
Rarely == ~RecordHist \/ RandomElement(1..(IF Len(hist) >= 0 THEN 4 ELSE 1)) = 1
On(a) == a \in Acts /\ (a \in RareActs => Rarely)

Rec(a, p, args, res, aud) ==
    /\ last' = [a |-> a, p |-> p, res |-> res] @@ aud
    /\ hist' = IF RecordHist
               THEN Append(hist, [a |-> a, p |-> p, args |-> args, res |-> res,
                                  exp |-> ProjOf(commits', exists', present', head', rt', tag', cur')])
               ELSE hist
NoAudit == UNCHANGED <<wins, gen, dbl>>
NoXf == UNCHANGED <<xf, hold>>
Quiet(p) == exists[p] /\ Free(p) /\ hold = "-"      \* a client issues one statement at a time

Init == /\ commits = <<[parents |-> <<>>]>>
        /\ exists = [s \in Stores |-> s = R \/ s \in InitClients]
        /\ present = [s \in Stores |-> IF s = R \/ s \in InitClients THEN {Cm(1), Rt(1)} ELSE {}]
        /\ head = [s \in Stores |-> [b \in Branches |-> IF (s = R \/ s \in InitClients) /\ b = "main" THEN 1 ELSE 0]]
        /\ rt = [s \in Stores |-> [b \in Branches |-> IF s \in InitClients /\ b = "main" THEN 1 ELSE 0]]
        /\ tag = [s \in Stores |-> [n \in TagNames |-> 0]]
        /\ cur = [s \in Stores |-> "main"]
        /\ wsr = [b \in Branches |-> 0]
        /\ xf = [p \in Clients |-> Idle]
        /\ hold = "-"
        /\ wins = {} /\ gen = [b \in Branches |-> 0] /\ dbl = FALSE
        /\ last = [a |-> "Init", p |-> "", res |-> "ok"] @@ NoAud
        /\ hist = <<>>

-----------------------------------------------------------------------------
(* Local history (SQL on the client's own repository) *)
Commit(p) ==      \* INSERT one row; dolt_commit('-Am') on the checked-out branch
    LET b == cur[p]  n == NCommits + 1 IN
    /\ On("Commit") /\ Quiet(p) /\ Room /\ head[p][b] # 0
    /\ commits' = Append(commits, [parents |-> <<head[p][b]>>])
    /\ present' = [present EXCEPT ![p] = @ \cup NewChunks(n)]
    /\ head' = [head EXCEPT ![p][b] = n]
    /\ UNCHANGED <<exists, rt, tag, cur, wsr>> /\ NoXf /\ NoAudit
    /\ Rec("Commit", p, [b |-> b, c |-> n], "ok", NoAud)

\* merge of commit t into the checked-out branch (dolt_merge / the merge half of dolt_pull); rows never conflict
MergeInto(p, t, act, args) ==
    LET b == cur[p]  o == head[p][b]  n == NCommits + 1 IN
    IF IsAnc(t, o) THEN /\ UNCHANGED <<commits, present, head>> /\ Rec(act, p, args, "uptodate", NoAud)
    ELSE IF IsAnc(o, t) THEN /\ head' = [head EXCEPT ![p][b] = t] /\ UNCHANGED <<commits, present>>
                             /\ Rec(act, p, args, "ff", NoAud)
    ELSE /\ Room
         /\ commits' = Append(commits, [parents |-> <<o, t>>])
         /\ present' = [present EXCEPT ![p] = @ \cup NewChunks(n)]
         /\ head' = [head EXCEPT ![p][b] = n]
         /\ Rec(act, p, args, "merge", NoAud)
MergeLocal(p, b2) ==
    /\ On("MergeLocal") /\ Quiet(p) /\ b2 # cur[p] /\ head[p][b2] # 0 /\ head[p][cur[p]] # 0
    /\ (IsAnc(head[p][b2], head[p][cur[p]]) => Rarely)
    /\ UNCHANGED <<exists, rt, tag, cur, wsr>> /\ NoXf /\ NoAudit
    /\ MergeInto(p, head[p][b2], "MergeLocal", [b |-> b2])
Branch(p, b2) ==   \* dolt_branch(b2): at the head of the checked-out branch
    /\ On("Branch") /\ Quiet(p) /\ head[p][b2] = 0 /\ head[p][cur[p]] # 0
    /\ head' = [head EXCEPT ![p][b2] = head[p][cur[p]]]
    /\ UNCHANGED <<commits, exists, present, rt, tag, cur, wsr>> /\ NoXf /\ NoAudit
    /\ Rec("Branch", p, [b |-> b2], "ok", NoAud)
Checkout(p, b2) ==
    /\ On("Checkout") /\ Quiet(p) /\ head[p][b2] # 0 /\ b2 # cur[p]
    /\ cur' = [cur EXCEPT ![p] = b2]
    /\ UNCHANGED <<commits, exists, present, head, rt, tag, wsr>> /\ NoXf /\ NoAudit
    /\ Rec("Checkout", p, [b |-> b2], "ok", NoAud)
\* dolt_checkout(b2) when only the remote-tracking branch exists: creates the local branch from it
CheckoutTrack(p, b2) ==
    /\ On("Checkout") /\ Quiet(p) /\ head[p][b2] = 0 /\ rt[p][b2] # 0
    /\ head' = [head EXCEPT ![p][b2] = rt[p][b2]]
    /\ cur' = [cur EXCEPT ![p] = b2]
    /\ UNCHANGED <<commits, exists, present, rt, tag, wsr>> /\ NoXf /\ NoAudit
    /\ Rec("CheckoutTrack", p, [b |-> b2], "ok", NoAud)
Tag(p, n) ==       \* dolt_tag(n): tags the head of the checked-out branch
    LET c == head[p][cur[p]] IN
    /\ On("Tag") /\ Quiet(p) /\ tag[p][n] = 0 /\ c # 0
    /\ tag' = [tag EXCEPT ![p][n] = c]
    /\ present' = [present EXCEPT ![p] = @ \cup {Tg(n, c)}]
    /\ UNCHANGED <<commits, exists, head, rt, cur, wsr>> /\ NoXf /\ NoAudit
    /\ Rec("Tag", p, [n |-> n, c |-> c], "ok", NoAud)

-----------------------------------------------------------------------------
(* Statement-level remote operations (Gran = "stmt") *)

\* audit of a head move of r's branch b from old to new
AuditMove(b, force, old, new, cmp) ==
    IF force \/ new = 0
    THEN /\ gen' = [gen EXCEPT ![b] = @ + 1] /\ UNCHANGED <<wins, dbl>>
    ELSE /\ wins' = wins \cup {<<b, cmp, gen[b]>>}
         /\ dbl' = (dbl \/ <<b, cmp, gen[b]>> \in wins)
         /\ UNCHANGED gen

\* actions.Push: CanFastForward on the destination, PullChunks, ref update, remote-tracking ref
Push(p, b, force) ==
    LET t == head[p][b]  h0 == head[R][b]
        a == IF force THEN "PushForce" ELSE "Push"
        args == [b |-> b, force |-> force]
        No(res) == /\ UNCHANGED <<present, head, rt>> /\ NoAudit /\ Rec(a, p, args, res, Aud(b, t, force, h0, h0, h0, R))
    IN
    /\ On(a) /\ Quiet(p) /\ t # 0
    /\ UNCHANGED <<commits, exists, tag, cur>> /\ NoXf
    /\ wsr' = IF force THEN [wsr EXCEPT ![b] = t] ELSE wsr
    /\ IF ~force /\ h0 = t THEN Rarely /\ No("uptodate")
       ELSE IF ~force /\ h0 # 0 /\ ~IsAnc(h0, t) THEN No("rejected")
       ELSE /\ present' = [present EXCEPT ![R] = @ \cup WalkNeed({Cm(t)}, present[R])]
            /\ head' = [head EXCEPT ![R][b] = t]
            /\ rt' = [rt EXCEPT ![p][b] = t]
            /\ (IF h0 = t THEN NoAudit ELSE AuditMove(b, force, h0, t, h0))
            /\ Rec(a, p, args, "ok", Aud(b, t, force, h0, t, h0, R))

\* actions.PushTag: PullChunks(tag address), SetHead(tag ref) -- no comparison with an existing tag of that name
PushTag(p, n) ==
    LET c == tag[p][n] IN
    /\ On("PushTag") /\ Quiet(p) /\ c # 0
    /\ present' = [present EXCEPT ![R] = @ \cup WalkNeed({Tg(n, c)}, present[R])]
    /\ tag' = [tag EXCEPT ![R][n] = c]
    /\ UNCHANGED <<commits, exists, head, rt, cur, wsr>> /\ NoXf /\ NoAudit
    /\ Rec("PushTag", p, [n |-> n], "ok", Aud("", c, TRUE, tag[R][n], c, 0, R))

\* dolt_push('origin', ':b'): actions.DeleteRemoteBranch
\* (not forced: DeleteBranchWithWorkspaceCheck refuses when r's working set of the branch is not at the branch head --
\* which is the case after a forced push followed by a fast-forward push, since the latter does not move the working set)
PushDelete(p, b) ==
    /\ On("PushDelete") /\ Quiet(p) /\ b # "main" /\ head[R][b] # 0 /\ rt[p][b] # 0
    /\ UNCHANGED <<commits, exists, present, tag, cur>> /\ NoXf
    /\ IF wsr[b] # 0 /\ RowsOf(wsr[b]) # RowsOf(head[R][b])
       THEN /\ UNCHANGED <<head, rt, wsr>> /\ NoAudit
            /\ Rec("PushDelete", p, [b |-> b], "err:dirtyws", Aud(b, 0, TRUE, head[R][b], head[R][b], 0, R))
       ELSE /\ head' = [head EXCEPT ![R][b] = 0]
            /\ rt' = [rt EXCEPT ![p][b] = 0]
            /\ wsr' = [wsr EXCEPT ![b] = 0]
            /\ AuditMove(b, TRUE, head[R][b], 0, 0)
            /\ Rec("PushDelete", p, [b |-> b], "ok", Aud(b, 0, TRUE, head[R][b], 0, 0, R))

\* actions.FetchFollowTags as a function of the destination's visible chunks pr and tags tg: a tag of r whose tag
\* object the destination already HAS is skipped (whether or not the ref exists); otherwise it is fetched iff its
\* commit is already there, and its ref is set
FollowSet(pr) == {n \in TagNames : tag[R][n] # 0 /\ Tg(n, tag[R][n]) \notin pr /\ Cm(tag[R][n]) \in pr}
FollowChunks(pr) == pr \cup WalkNeed({Tg(n, tag[R][n]) : n \in FollowSet(pr)}, pr)
FollowTags(pr, tg) == [n \in TagNames |-> IF n \in FollowSet(pr) THEN tag[R][n] ELSE tg[n]]

\* dolt_fetch('origin'): every branch of r -> refs/remotes/origin/*, forced; then follow tags
Fetch(p) ==
    LET hs == {b \in Branches : head[R][b] # 0}
        pr1 == present[p] \cup WalkNeed({Cm(head[R][b]) : b \in hs}, present[p])
    IN
    /\ On("Fetch") /\ Quiet(p)
    /\ present' = [present EXCEPT ![p] = FollowChunks(pr1)]
    /\ rt' = [rt EXCEPT ![p] = [b \in Branches |-> IF b \in hs THEN head[R][b] ELSE @[b]]]
    /\ tag' = [tag EXCEPT ![p] = FollowTags(pr1, @)]
    /\ UNCHANGED <<commits, exists, head, cur, wsr>> /\ NoXf /\ NoAudit
    /\ Rec("Fetch", p, <<>>, "ok", Aud("", 0, TRUE, 0, 0, 0, p))

\* dolt_pull('origin', b): fetch of that branch only (forced), merge of the remote-tracking ref into the
\* checked-out branch (up to date / fast-forward / merge commit), then follow tags
Pull(p, b) ==
    LET t == head[R][b]
        pr1 == present[p] \cup WalkNeed({Cm(t)}, present[p])
        o == head[p][cur[p]]  n == NCommits + 1
        merged == ~IsAnc(t, o) /\ ~IsAnc(o, t)
        pr2 == IF merged THEN pr1 \cup NewChunks(n) ELSE pr1
        args == [b |-> b]
    IN
    /\ On("Pull") /\ Quiet(p) /\ o # 0
    /\ UNCHANGED <<exists, cur, wsr>> /\ NoXf /\ NoAudit
    /\ IF t = 0 THEN /\ Rarely /\ UNCHANGED <<commits, present, head, rt, tag>>
                     /\ Rec("Pull", p, args, "err:nobranch", Aud(b, 0, TRUE, 0, 0, 0, p))
       ELSE /\ (merged => Room)
            /\ (IsAnc(t, o) => Rarely)
            /\ commits' = IF merged THEN Append(commits, [parents |-> <<o, t>>]) ELSE commits
            /\ head' = IF merged THEN [head EXCEPT ![p][cur[p]] = n]
                       ELSE IF IsAnc(t, o) THEN head ELSE [head EXCEPT ![p][cur[p]] = t]
            /\ rt' = [rt EXCEPT ![p][b] = t]
            /\ present' = [present EXCEPT ![p] = FollowChunks(pr2)]
            /\ tag' = [tag EXCEPT ![p] = FollowTags(pr2, @)]
            /\ Rec("Pull", p, args, IF merged THEN "merge" ELSE IF IsAnc(t, o) THEN "uptodate" ELSE "ff", Aud(b, t, TRUE, 0, 0, 0, p))

\* dolt_clone: every table file of r's manifest is copied (pull/clone.go), r's root is installed, then all refs are
\* deleted and re-created: a remote-tracking ref per branch, the local default branch, every tag (actions/clone.go)
Clone(k) ==
    /\ On("Clone") /\ ~exists[k] /\ hold = "-" /\ head[R]["main"] # 0
    /\ exists' = [exists EXCEPT ![k] = TRUE]
    /\ present' = [present EXCEPT ![k] = present[R]]
    /\ head' = [head EXCEPT ![k] = [b \in Branches |-> IF b = "main" THEN head[R][b] ELSE 0]]
    /\ rt' = [rt EXCEPT ![k] = head[R]]
    /\ tag' = [tag EXCEPT ![k] = tag[R]]
    /\ UNCHANGED <<commits, cur, wsr>> /\ NoXf /\ NoAudit
    /\ Rec("Clone", k, <<>>, "ok", Aud("", 0, TRUE, 0, 0, 0, k))

-----------------------------------------------------------------------------
(* The transfer process (Gran = "fine" / "gate") *)
SetXf(p, x) == /\ xf' = [xf EXCEPT ![p] = x] /\ hold' = HoldAfter(p, x)
Dst(p) == IF xf[p].kind = "push" THEN R ELSE p
Src(p) == IF xf[p].kind = "push" THEN p ELSE R
\* pc after the chunks are (or need not be) transferred, and after the ref update
AfterChunks(x) == IF x.kind = "fetch" THEN "fref" ELSE IF Variant = "ref-before-add" THEN "track" ELSE "refread"
AfterRef(x) == IF Variant = "ref-before-add" /\ x.need # {} /\ ~x.dirty THEN "upload" ELSE "track"
FirstPc(x) == IF Variant = "ref-before-add" /\ x.kind = "push" THEN "refread"
              ELSE IF x.need = {} THEN AfterChunks(x) ELSE "upload"

\* Push up to the start of the walk: destDB.CanFastForward (reads r's head NOW), NewPuller (HasMany on the sink), the walk
TStartPushX(p, b, force, always) ==
    LET t == head[p][b]  h0 == head[R][b]
        a == IF force THEN "TPushForce" ELSE "TPush"
        args == [b |-> b, force |-> force]
        x0 == [Idle EXCEPT !.kind = "push", !.b = b, !.tgt = t, !.force = force, !.need = WalkNeed({Cm(t)}, present[R]),
                            !.view = RootOf(R)]
        x1(rf) == [x0 EXCEPT !.n = NFiles(x0.need), !.pc = FirstPc(x0), !.refresh = rf]
    IN
    /\ (always \/ On(a)) /\ a \in Acts /\ Quiet(p) /\ t # 0
    /\ UNCHANGED <<commits, exists, present, head, rt, tag, cur, wsr>> /\ NoAudit
    /\ IF ~force /\ h0 = t THEN (always \/ Rarely) /\ NoXf /\ Rec(a, p, args, "uptodate", Aud(b, t, force, h0, h0, h0, R))
       ELSE IF ~force /\ h0 # 0 /\ ~IsAnc(h0, t) THEN NoXf /\ Rec(a, p, args, "rejected", Aud(b, t, force, h0, h0, h0, R))
       ELSE \E rf \in RefreshModes : SetXf(p, x1(rf)) /\ Rec(a, p, args, "started", Aud(b, t, force, h0, h0, h0, R))

TStartPush(p, b, force) == TStartPushX(p, b, force, FALSE)

\* fetchRefSpecsWithDepth up to the start of the walk: r's branch heads are read once (srcDB.VisitRefsOfType)
TStartFetchX(p, always) ==
    LET hs == [b \in Branches |-> head[R][b]]
        x0 == [Idle EXCEPT !.kind = "fetch", !.heads = hs, !.force = TRUE,
                            !.need = WalkNeed({Cm(hs[b]) : b \in {y \in Branches : hs[y] # 0}}, present[p])]
        x1 == [x0 EXCEPT !.n = NFiles(x0.need), !.pc = FirstPc(x0), !.idx = 1]
    IN
    /\ (always \/ On("TFetch")) /\ "TFetch" \in Acts /\ Quiet(p)
    /\ SetXf(p, x1)
    /\ UNCHANGED <<commits, exists, present, head, rt, tag, cur, wsr>> /\ NoAudit
    /\ Rec("TFetch", p, <<>>, "started", Aud("", 0, TRUE, 0, 0, 0, p))

TStartFetch(p) == TStartFetchX(p, FALSE)

\* WriteTableFile of the next file: the file is in the destination's directory, not in its manifest
TUpload(p) ==
    LET x == xf[p]  d == Dst(p)
        y == [x EXCEPT !.sent = @ + 1, !.pc = IF x.sent + 1 = x.n THEN "addfiles" ELSE "upload"]
    IN
    /\ exists[p] /\ MayStep(p) /\ x.pc = "upload"
    /\ IF Variant = "add-one-by-one"
       THEN present' = [present EXCEPT ![d] = @ \cup FileOf(x.need, x.sent + 1)]
       ELSE UNCHANGED present
    /\ SetXf(p, y)
    /\ UNCHANGED <<commits, exists, head, rt, tag, cur, wsr>> /\ NoAudit
    /\ Rec("TUpload", p, [i |-> x.sent + 1, n |-> x.n], "ok", Aud(x.b, x.tgt, x.force, 0, 0, 0, d))

\* the ONE AddTableFilesToManifest, with its reference check (every address in an added chunk must be in the store or
\* among the added chunks)
TAddFiles(p) ==
    LET x == xf[p]  d == Dst(p)
        ok == \A c \in x.need : Refs(c) \subseteq (present[d] \cup x.need)
        nxt == IF x.kind = "push" /\ Variant = "ref-before-add" THEN "track" ELSE AfterChunks(x)
    IN
    /\ exists[p] /\ MayStep(p) /\ x.pc = "addfiles"
    /\ UNCHANGED <<commits, exists, head, rt, tag, cur, wsr>> /\ NoAudit
    /\ IF ok THEN /\ present' = [present EXCEPT ![d] = @ \cup x.need]
                  /\ SetXf(p, [x EXCEPT !.pc = nxt, !.dirty = TRUE, !.view = IF x.kind = "push" /\ x.refresh THEN RootOf(R) ELSE @])
                  /\ Rec("TAddFiles", p, <<>>, "ok", Aud(x.b, x.tgt, x.force, 0, 0, 0, d))
       ELSE /\ UNCHANGED present /\ SetXf(p, Idle)
            /\ Rec("TAddFiles", p, <<>>, "err:refcheck", Aud(x.b, x.tgt, x.force, 0, 0, 0, d))

\* FastForwardWithWorkspaceCheck: GetDataset (the head the caller compares with) + the ancestor check of doFastForward;
\* a forced push (SetHeadAndWorkingSetToCommit) reads nothing
TRefRead(p) ==
    LET x == xf[p]  h == x.view[1][x.b] IN
    /\ exists[p] /\ MayStep(p) /\ x.pc = "refread" /\ x.kind = "push"
    /\ UNCHANGED <<commits, exists, present, head, rt, tag, cur, wsr>> /\ NoAudit
    /\ IF ~x.force /\ h # 0 /\ ~IsAnc(h, x.tgt)
       THEN SetXf(p, Idle) /\ Rec("TRefRead", p, <<>>, "mergeneeded", Aud(x.b, x.tgt, x.force, h, h, h, R))
       ELSE SetXf(p, [x EXCEPT !.cmp = h, !.pc = "edit"]) /\ Rec("TRefRead", p, <<>>, "ok", Aud(x.b, x.tgt, x.force, h, h, h, R))

\* one iteration of database.update up to the Commit call: read the store root, run the edit function on its datasets
TEdit(p) ==
    LET x == xf[p]  h == x.view[1][x.b] IN
    /\ exists[p] /\ MayStep(p) /\ x.pc = "edit"
    /\ UNCHANGED <<commits, exists, present, head, rt, tag, cur, wsr>> /\ NoAudit
    /\ IF ~x.force /\ Variant # "no-cas" /\ h # x.cmp
       THEN SetXf(p, Idle) /\ Rec("TEdit", p, <<>>, "mergeneeded", Aud(x.b, x.tgt, x.force, h, h, x.cmp, R))
       ELSE IF ~x.force /\ h = x.tgt            \* ErrAlreadyCommitted: reported as success, nothing written
       THEN SetXf(p, [x EXCEPT !.pc = AfterRef(x)]) /\ Rec("TEdit", p, <<>>, "already", Aud(x.b, x.tgt, x.force, h, h, x.cmp, R))
       ELSE SetXf(p, [x EXCEPT !.snap = x.view, !.pend = x.tgt, !.pc = "cas"])
            /\ Rec("TEdit", p, <<>>, "ok", Aud(x.b, x.tgt, x.force, h, h, x.cmp, R))

\* ChunkStore.Commit(new root, root read by TEdit): compare-and-swap on the store root.
\* (Content addressing: if the other client has just installed exactly the root AND table files this client is about to
\* install -- two forced pushes of the same commit -- a NomsBlockStore finds the wanted manifest in place and reports success
\* at once; the model takes one more retry round and installs the same root. Same resulting state; the engine accepts both.)
TCas(p) ==
    LET x == xf[p]  h == head[R][x.b] IN
    /\ exists[p] /\ MayStep(p) /\ x.pc = "cas"
    /\ UNCHANGED <<commits, exists, present, rt, tag, cur>>
    /\ wsr' = IF RootOf(R) = x.snap /\ x.force THEN [wsr EXCEPT ![x.b] = x.pend] ELSE wsr
    /\ IF RootOf(R) = x.snap
       THEN /\ head' = [head EXCEPT ![R][x.b] = x.pend]
            /\ AuditMove(x.b, x.force, h, x.pend, x.cmp)
            /\ SetXf(p, [x EXCEPT !.pc = AfterRef(x), !.view = <<[head[R] EXCEPT ![x.b] = x.pend], rt[R], tag[R],
                                                                       IF x.force THEN [wsr EXCEPT ![x.b] = x.pend] ELSE wsr>>])
            /\ Rec("TCas", p, <<>>, "ok", Aud(x.b, x.tgt, x.force, h, x.pend, x.cmp, R))
       ELSE /\ UNCHANGED head /\ NoAudit
            /\ SetXf(p, [x EXCEPT !.pc = "edit", !.view = RootOf(R)])
            /\ Rec("TCas", p, <<>>, "retry", Aud(x.b, x.tgt, x.force, h, h, x.cmp, R))

\* srcDB.SetHeadToCommit(remote ref): the pusher's remote-tracking ref; the push call returns
TTrack(p) ==
    LET x == xf[p] IN
    /\ exists[p] /\ MayStep(p) /\ x.pc = "track"
    /\ rt' = [rt EXCEPT ![p][x.b] = x.tgt]
    /\ SetXf(p, Idle)
    /\ UNCHANGED <<commits, exists, present, head, tag, cur, wsr>> /\ NoAudit
    /\ Rec("TTrack", p, <<>>, "ok", Aud(x.b, x.tgt, x.force, 0, 0, 0, R))

\* fetch: the remote-tracking refs are set one update at a time (SetHeadToCommit per ref), in ref order
BranchSeq == CHOOSE sq \in [1..Cardinality(Branches) -> Branches] : {sq[i] : i \in DOMAIN sq} = Branches
TFRef(p) ==
    LET x == xf[p]  b == BranchSeq[x.idx]
        y == [x EXCEPT !.idx = @ + 1, !.pc = IF x.idx = Len(BranchSeq) THEN "ftags" ELSE "fref"]
    IN
    /\ exists[p] /\ MayStep(p) /\ x.pc = "fref"
    /\ rt' = IF x.heads[b] # 0 THEN [rt EXCEPT ![p][b] = x.heads[b]] ELSE rt
    /\ SetXf(p, y)
    /\ UNCHANGED <<commits, exists, present, head, tag, cur, wsr>> /\ NoAudit
    /\ Rec("TFRef", p, [b |-> b], "ok", Aud(b, x.heads[b], TRUE, 0, 0, 0, p))
TFTags(p) ==
    LET x == xf[p] IN
    /\ exists[p] /\ MayStep(p) /\ x.pc = "ftags"
    /\ present' = [present EXCEPT ![p] = FollowChunks(@)]
    /\ tag' = [tag EXCEPT ![p] = FollowTags(present[p], @)]
    /\ SetXf(p, Idle)
    /\ UNCHANGED <<commits, exists, head, rt, cur, wsr>> /\ NoAudit
    /\ Rec("TFTags", p, <<>>, "ok", Aud("", 0, TRUE, 0, 0, 0, p))

\* the transferring process dies / loses its connection / is cancelled: nothing of it continues
\* positions at which the engine's store wrapper can make the process die (Gran = "gate"): a WriteTableFile, the
\* AddTableFilesToManifest, the Commit of a push's ref update, the first ref update of a fetch (between two gates the real
\* process runs on by itself; those positions are covered by the exhaustive "fine" configs only)
Realisable(x) == \/ x.pc \in {"upload", "addfiles", "cas"}
                 \/ (x.pc = "fref" /\ \A j \in 1..(x.idx - 1) : x.heads[BranchSeq[j]] = 0)
TInterrupt(p) ==
    LET x == xf[p] IN
    /\ On("TInterrupt") /\ exists[p] /\ MayStep(p) /\ x.pc # "idle"
    /\ (Gran = "gate" => Realisable(x))
    /\ SetXf(p, Idle)
    /\ UNCHANGED <<commits, exists, present, head, rt, tag, cur, wsr>> /\ NoAudit
    /\ Rec("TInterrupt", p, [pc |-> x.pc, sent |-> x.sent, n |-> x.n, kind |-> x.kind, idx |-> x.idx], "interrupted",
           Aud(x.b, x.tgt, x.force, 0, 0, 0, Dst(p)))

\* FAULT: the remote loses a chunk that its refs still need (a store that is not closed under Refs: premise C07 false)
LoseChunk ==
    /\ On("LoseChunk") /\ hold = "-"
    /\ \E c \in Pick({x \in present[R] : x.k \in {"rt", "d"}}) :
          present' = [present EXCEPT ![R] = @ \ {c}]
    /\ UNCHANGED <<commits, exists, head, rt, tag, cur, wsr>> /\ NoXf /\ NoAudit
    /\ Rec("LoseChunk", R, <<>>, "ok", NoAud)

-----------------------------------------------------------------------------
\* simulation only: after an interruption the same client often retries the same transfer at once
RetryNext == IF last.dst = R THEN TStartPushX(last.p, last.b, last.force, TRUE) ELSE TStartFetchX(last.p, TRUE)
RetryBias == RecordHist /\ last.a = "TInterrupt" /\ RandomElement(1..(IF Len(hist) >= 0 THEN 3 ELSE 1)) # 1
Live == {p \in Clients : exists[p]}
NormalNext ==
    \/ \E p \in Pick(Live) :
         \/ Commit(p)
         \/ \E b \in Pick(Branches) : MergeLocal(p, b) \/ Branch(p, b) \/ Checkout(p, b) \/ CheckoutTrack(p, b)
                                      \/ Push(p, b, FALSE) \/ Push(p, b, TRUE) \/ PushDelete(p, b) \/ Pull(p, b)
                                      \/ TStartPush(p, b, FALSE) \/ TStartPush(p, b, TRUE)
         \/ \E n \in Pick(TagNames) : Tag(p, n) \/ PushTag(p, n)
         \/ Fetch(p) \/ TStartFetch(p)
    \/ \E k \in Pick(Clients \ Live) : Clone(k)
    \/ \E p \in Clients : TUpload(p) \/ TAddFiles(p) \/ TRefRead(p) \/ TEdit(p) \/ TCas(p) \/ TTrack(p) \/ TFRef(p) \/ TFTags(p)
                          \/ TInterrupt(p)
    \/ LoseChunk
Next == IF RetryBias THEN RetryNext ELSE NormalNext
Spec == Init /\ [][Next]_vars

-----------------------------------------------------------------------------
(* What TLC checks *)
TypeOK == /\ \A s \in Stores : present[s] \subseteq ({Cm(c) : c \in Cids} \cup {Rt(c) : c \in Cids} \cup {Dt(c) : c \in Cids}
                                                      \cup {Tg(n, c) : n \in TagNames, c \in Cids})
          /\ \A s \in Stores, b \in Branches : head[s][b] \in 0..NCommits /\ rt[s][b] \in 0..NCommits
          /\ \A s \in Stores : ~exists[s] => present[s] = {}
          /\ hold \in Clients \cup {"-"}

\* premise of HasMany pruning, maintained by the code's design (all files of a transfer enter the manifest at once)
StoresClosed == \A s \in Stores : StoreClosed(s)

\* C35, every ref of every store, at every moment (in particular after an interrupted transfer and in the middle of
\* one): the whole reachable closure of the ref's target is in that store
AllRefsValid == \A s \in Stores : RefsValid(s)

\* a completed transfer step: the transferred ref points at the transferred target and its closure is at the destination
TransferredRefClosed ==
    /\ (last.a \in {"Push", "PushForce", "TCas"} /\ last.res = "ok") => (head[R][last.b] = last.tgt /\ Closure({Cm(last.tgt)}) \subseteq present[R])
    /\ (last.a = "TFRef" /\ last.tgt # 0) => (rt[last.p][last.b] = last.tgt /\ Closure({Cm(last.tgt)}) \subseteq present[last.p])
    /\ (last.a \in {"Fetch", "Pull", "Clone"} /\ last.res # "err:nobranch") => RefsValid(last.p)
\* ... and is the source's: content addressing makes equal addresses equal bytes, so "identical" is: both have all of it
DestEqualsSourceOnClosure ==
    /\ (last.a \in {"Push", "PushForce", "TCas", "TTrack"} /\ last.res = "ok") =>
           LET cl == Closure({Cm(last.tgt)}) IN cl \subseteq present[last.p] /\ (last.a # "TTrack" => cl \subseteq present[R])
    /\ (last.a \in {"Fetch", "Clone"}) =>
           \A b \in Branches : head[R][b] # 0 => (rt[last.p][b] = head[R][b] /\ Closure({Cm(head[R][b])}) \subseteq (present[R] \cap present[last.p]))
    /\ (last.a = "Clone") => (tag[last.p] = tag[R] /\ present[last.p] = present[R])

\* a non-forced push moves r's branch only forward
FFPushNeverRemovesCommits ==
    (last.a \in {"Push", "TCas"} /\ last.res = "ok" /\ ~last.force) => (last.old = 0 \/ IsAnc(last.old, last.new))
\* ... and only against the head it validated; no two of them against the same old head
AtMostOnePushWinsPerOldHead ==
    /\ ~dbl
    /\ (last.a = "TCas" /\ last.res = "ok" /\ ~last.force) => last.cmp = last.old

\* an interruption changes nothing, leaves every ref valid, and the retry can complete: the source still has the
\* whole closure and what the retry would add passes the destination's reference check and leaves it closed
InterruptedTransferLeavesRefsValid ==
    (last.a = "TInterrupt") =>
        /\ AllRefsValid
        /\ ((last.tgt # 0 /\ last.dst = R) => LET need == WalkNeed({Cm(last.tgt)}, present[R]) IN
                              /\ Closure({Cm(last.tgt)}) \subseteq present[last.p]
                              /\ \A c \in need : Refs(c) \subseteq present[R] \cup need
                              /\ Closure({Cm(last.tgt)}) \subseteq present[R] \cup need)

Bounded == \A b \in Branches : gen[b] <= MaxGen
\* simulation: emit finished behaviours
Emit == Len(hist) < D \/ PrintT(ToJson(hist))
=============================================================================
