--------------------------- MODULE ManifestFS ---------------------------
(* The file-system protocol of a bare local NBS directory (go/store/nbs/file_manifest.go updateWithChecker /
   checkNewSpecsPresent, file_table_persister.go writeAndProtect / ConjoinAll cleanup / PruneTableFiles,
   store.go updateManifestAddFiles / swapTables, conjoiner.go updateManifest) over a POSIX directory model with
   volatile and durable directory entries.  Prune.tla extends it with the grace-period pruner of another process.

   DIRECTORY MODEL (DESIGN 3.3).  Files are inodes [data, synced, mtime]; the directory maps names to inodes.
   `vdir` is what running processes see.  `ddir` is what is on the platter; `pend` is the sequence of directory
   operations (create / rename / unlink) not yet durable.  fsync(file) makes that inode's DATA durable;
   fsync(directory) makes every pending directory operation durable.  A crash keeps a prefix of `pend`
   (OrderedDirents: the ext4/xfs ordered-metadata behaviour the code relies on - the table-file rename is never
   followed by a directory fsync of its own) or, in the pessimistic configuration, any subset; the data of an
   inode that was never fsynced is junk.

   PROCESSES.  Writers w (one NomsBlockStore each, possibly in different OS processes): land a table file
   (temp create+write / fsync / rename - no lock), then publish it with a manifest update whose steps are
   exactly those of fileManifest.Update + updateWithChecker:
       UpdLock  UpdWriteTemp  UpdSyncTemp  UpdReadUpstream(compare lock)  UpdCheckNewSpecsPresent  UpdRename
       UpdDirSync  UpdUnlock     (stale / missing-file exits remove the temp file and unlock)
   conjoin (write conjoined file, manifest update replacing the conjoinees, cleanup unlinking unprotected
   conjoinees), GC swap (land the compacted file, manifest update to exactly that file) followed by
   PruneTableFiles of the SAME store (removes every table/temp-table file the store does not protect), Crash.

   The manifest content is the set of table names (the root plays no role for C05; ManifestCAS.tla has it);
   its lock hash is a function of the content, so lock comparison is content comparison. *)
EXTENDS Integers, Sequences, FiniteSets, TLC, Json

CONSTANTS Writer,         \* writer processes/stores, e.g. {"w1","w2"}
          Addr,           \* chunk addresses; a table file is a nonempty set of them
          MaxIno,         \* bound on inodes ever created
          MaxLands,       \* bound on table files landed (total)
          MaxCrashes,
          EnableConjoin, EnableGC,  \* BOOLEAN
          FullPruneWithForeignWriters, \* FALSE: PruneTableFiles only when the pruning store is the only writer (documented scope)
          OrderedDirents, \* TRUE: a crash keeps a prefix of the pending directory operations
          D, RecordHist

VARIABLES vdir, ddir, pend, ino, nextIno, holder,
          wpc, wup, wnew, wprot, wkind, wold, wtmp,
          mlog,      \* sequence of manifest contents installed (rename), in order
          acked,     \* index in mlog of the newest update whose Update call returned (after the directory fsync)
          clock,
          nLands, nCrashes,
          hist

fsvars == <<vdir, ddir, pend, ino, nextIno, holder>>
wvars == <<wpc, wup, wnew, wprot, wkind, wold, wtmp>>
hvars == <<mlog, acked>>
cnt == <<nLands, nCrashes>>
vars == <<fsvars, wvars, hvars, clock, cnt, hist>>
view == <<fsvars, wvars, hvars, clock, cnt>>

Table == SUBSET Addr \ {{}}
\* names are tagged pairs so that the directory is a function over a homogeneous domain
Manifest == <<"m", "">>
Probe == <<"p", "">>
TName(t) == <<"t", t>>
TmpM(w) == <<"tm", w>>
TmpT(w) == <<"tt", w>>
Names == {Manifest, Probe} \cup {TName(t) : t \in Table} \cup {TmpM(w) : w \in Writer} \cup {TmpT(w) : w \in Writer}
NoIno == 0
\* file data: [k |-> kind, s |-> set of tables]; a table file holds {t}, a manifest its specs
DTable(t) == [k |-> "table", s |-> {t}]
DMan(specs) == [k |-> "man", s |-> specs]
Junk == [k |-> "junk", s |-> {}]
DNone == [k |-> "none", s |-> {}]
NoManifest == [ex |-> FALSE, specs |-> {}]
MC(s) == [ex |-> TRUE, specs |-> s]

\* ------------------------------------------------------------------ directory operations
OpCreate(n, i) == [op |-> "create", a |-> n, b |-> n, i |-> i]
OpRename(from, to) == [op |-> "rename", a |-> from, b |-> to, i |-> NoIno]
OpUnlink(n) == [op |-> "unlink", a |-> n, b |-> n, i |-> NoIno]

ApplyOp(d, o) == CASE o.op = "create" -> [d EXCEPT ![o.a] = o.i]
                   [] o.op = "rename" -> IF d[o.a] = NoIno THEN d ELSE [d EXCEPT ![o.b] = d[o.a], ![o.a] = NoIno]
                   [] o.op = "unlink" -> [d EXCEPT ![o.a] = NoIno]
RECURSIVE ApplyOps(_, _)
ApplyOps(d, ops) == IF ops = <<>> THEN d ELSE ApplyOps(ApplyOp(d, Head(ops)), Tail(ops))

\* every directory a crash may leave behind
RECURSIVE SubSeqs(_)
SubSeqs(s) == IF s = <<>> THEN {<<>>}
              ELSE LET r == SubSeqs(Tail(s)) IN r \cup {<<Head(s)>> \o x : x \in r}
CrashDirs == IF OrderedDirents THEN {ApplyOps(ddir, SubSeq(pend, 1, k)) : k \in 0..Len(pend)}
             ELSE {ApplyOps(ddir, s) : s \in SubSeqs(pend)}
\* data of an inode as found after a crash
CrashData(i) == IF ino[i].synced THEN ino[i].data ELSE Junk

\* what a reader finds under a name in directory d (volatile data)
ManifestOf(d) == IF d[Manifest] = NoIno \/ ino[d[Manifest]].data.k # "man" THEN NoManifest ELSE MC(ino[d[Manifest]].data.s)

RECURSIVE SetToSeq(_)
SetToSeq(S) == IF S = {} THEN <<>> ELSE LET x == CHOOSE y \in S : TRUE IN <<x>> \o SetToSeq(S \ {x})

UnlinkAll(S) == LET q == SetToSeq(S) IN [k \in 1..Len(q) |-> OpUnlink(q[k])]

\* the directory effects of a step, applied to vdir and appended to pend
DirDo(ops) == /\ vdir' = ApplyOps(vdir, ops)
              /\ pend' = pend \o ops

\* ------------------------------------------------------------------ history
\* projection after the step: what an observer of the directory sees
Proj == [files |-> {n[2] : n \in {x \in Names : x[1] = "t" /\ vdir'[x] # NoIno}},
         man |-> [ex |-> vdir'[Manifest] # NoIno,
                  specs |-> IF vdir'[Manifest] # NoIno /\ ino'[vdir'[Manifest]].data.k = "man" THEN ino'[vdir'[Manifest]].data.s ELSE {}],
         holder |-> holder', wpc |-> wpc']
Rec(a, w, args) == IF RecordHist THEN Append(hist, [a |-> a, w |-> w, args |-> args, exp |-> Proj]) ELSE hist

EmptyDir == [n \in Names |-> NoIno]
Init == /\ vdir = EmptyDir /\ ddir = EmptyDir /\ pend = <<>>
        /\ ino = [i \in 1..MaxIno |-> [data |-> DNone, synced |-> FALSE, mtime |-> 0]] /\ nextIno = 1
        /\ holder = "none"
        /\ wpc = [w \in Writer |-> "idle"] /\ wup = [w \in Writer |-> NoManifest] /\ wnew = [w \in Writer |-> {}]
        /\ wprot = [w \in Writer |-> {}] /\ wkind = [w \in Writer |-> "add"] /\ wold = [w \in Writer |-> {}]
        /\ wtmp = [w \in Writer |-> NoIno]
        /\ mlog = <<>> /\ acked = 0
        /\ clock = 0 /\ nLands = 0 /\ nCrashes = 0
        /\ hist = <<>>

NewIno(data) == /\ nextIno <= MaxIno
                /\ ino' = [ino EXCEPT ![nextIno] = [data |-> data, synced |-> FALSE, mtime |-> clock]]
                /\ nextIno' = nextIno + 1

\* ------------------------------------------------------------------ landing a table file (writeAndProtect: no manifest lock)
\* kind "add": a new table to append;  "conjoin": the conjoinment of every table of the writer's upstream;
\* "gc": the compacted table that will replace everything
LandCreate(w, t, kind) ==
    /\ wpc[w] = "idle" /\ nLands < MaxLands
    /\ kind = "add" \/ (kind = "conjoin" /\ EnableConjoin /\ Cardinality(wup[w].specs) >= 2 /\ t = UNION wup[w].specs)
                    \/ (kind = "gc" /\ EnableGC /\ wup[w].ex /\ wup[w].specs # {} /\ t \subseteq UNION wup[w].specs /\ t \notin wup[w].specs)
    /\ nLands' = nLands + 1
    /\ NewIno(DTable(t))
    /\ DirDo(<<OpCreate(TmpT(w), nextIno)>>)
    /\ wtmp' = [wtmp EXCEPT ![w] = nextIno]
    /\ wnew' = [wnew EXCEPT ![w] = t] /\ wkind' = [wkind EXCEPT ![w] = kind]
    /\ wold' = [wold EXCEPT ![w] = IF kind = "add" THEN {} ELSE wup[w].specs]
    /\ wpc' = [wpc EXCEPT ![w] = "land_sync"]
    /\ UNCHANGED <<ddir, holder, wup, wprot, hvars, clock, nCrashes>>
    /\ hist' = Rec("LandCreate", w, [t |-> t, kind |-> kind])

LandSync(w) ==
    /\ wpc[w] = "land_sync"
    /\ ino' = [ino EXCEPT ![wtmp[w]].synced = TRUE]
    /\ wpc' = [wpc EXCEPT ![w] = "land_ren"]
    /\ UNCHANGED <<vdir, ddir, pend, nextIno, holder, wup, wnew, wprot, wkind, wold, wtmp, hvars, clock, cnt>>
    /\ hist' = Rec("LandSync", w, <<>>)

\* rename temp -> final name; the landed file is protected by a pending handle / by being opened
LandRename(w) ==
    /\ wpc[w] = "land_ren"
    /\ IF vdir[TmpT(w)] = wtmp[w]
       THEN /\ DirDo(<<OpRename(TmpT(w), TName(wnew[w]))>>)
            /\ wprot' = [wprot EXCEPT ![w] = @ \cup {wnew[w]}]
            /\ wpc' = [wpc EXCEPT ![w] = "read"]
       ELSE \* the temp file was swept by a pruner: rename fails, the landing is abandoned
            /\ UNCHANGED <<vdir, pend, wprot>>
            /\ wpc' = [wpc EXCEPT ![w] = "idle"]
    /\ UNCHANGED <<ddir, ino, nextIno, holder, wup, wnew, wkind, wold, wtmp, hvars, clock, cnt>>
    /\ hist' = Rec("LandRename", w, <<>>)

\* ------------------------------------------------------------------ the manifest update of the landed table
\* contents proposed against upstream u
Proposed(w, u) == CASE wkind[w] = "add" -> MC(u.specs \cup {wnew[w]})
                    [] wkind[w] = "conjoin" -> MC((u.specs \ wold[w]) \cup {wnew[w]})
                    [] wkind[w] = "gc" -> MC({wnew[w]})

\* ParseIfExists without the lock (updateManifestAddFiles loop head / conjoin's upstream / swapTables' nbs.upstream)
UpdRead(w) ==
    /\ wpc[w] = "read"
    /\ LET m == ManifestOf(vdir) IN
       /\ wup' = [wup EXCEPT ![w] = m]
       /\ wpc' = [wpc EXCEPT ![w] =
              IF wkind[w] = "add" /\ wnew[w] \in m.specs THEN "done"                \* already there: no work
              ELSE IF wkind[w] = "conjoin" /\ ~(wold[w] \subseteq m.specs) THEN "done"  \* conjoinees gone: give up
              ELSE IF wkind[w] = "gc" /\ m.specs # wold[w] THEN "done"               \* concurrent edit: GC fails
              ELSE "lock"]
    /\ UNCHANGED <<fsvars, wnew, wprot, wkind, wold, wtmp, hvars, clock, cnt>>
    /\ hist' = Rec("UpdRead", w, <<>>)

UpdLock(w) ==
    /\ wpc[w] = "lock" /\ holder = "none"
    /\ holder' = w
    /\ wpc' = [wpc EXCEPT ![w] = "wtemp"]
    /\ UNCHANGED <<vdir, ddir, pend, ino, nextIno, wup, wnew, wprot, wkind, wold, wtmp, hvars, clock, cnt>>
    /\ hist' = Rec("UpdLock", w, <<>>)

UpdLockTimeout(w) ==
    /\ wpc[w] = "lock" /\ holder # "none" /\ holder # w
    /\ wpc' = [wpc EXCEPT ![w] = "done"]
    /\ UNCHANGED <<fsvars, wup, wnew, wprot, wkind, wold, wtmp, hvars, clock, cnt>>
    /\ hist' = Rec("UpdLockTimeout", w, <<>>)

UpdWriteTemp(w) ==
    /\ wpc[w] = "wtemp"
    /\ NewIno(DMan(Proposed(w, wup[w]).specs))
    /\ DirDo(<<OpCreate(TmpM(w), nextIno)>>)
    /\ wtmp' = [wtmp EXCEPT ![w] = nextIno]
    /\ wpc' = [wpc EXCEPT ![w] = "stemp"]
    /\ UNCHANGED <<ddir, holder, wup, wnew, wprot, wkind, wold, hvars, clock, cnt>>
    /\ hist' = Rec("UpdWriteTemp", w, <<>>)

UpdSyncTemp(w) ==
    /\ wpc[w] = "stemp"
    /\ ino' = [ino EXCEPT ![wtmp[w]].synced = TRUE]
    /\ wpc' = [wpc EXCEPT ![w] = "rup"]
    /\ UNCHANGED <<vdir, ddir, pend, nextIno, holder, wup, wnew, wprot, wkind, wold, wtmp, hvars, clock, cnt>>
    /\ hist' = Rec("UpdSyncTemp", w, <<>>)

\* read the manifest under LOCK and compare lock hashes; a stale caller gets the upstream back
UpdReadUpstream(w) ==
    /\ wpc[w] = "rup"
    /\ wpc' = [wpc EXCEPT ![w] = IF ManifestOf(vdir) = wup[w] THEN "check" ELSE "stale"]
    /\ UNCHANGED <<fsvars, wup, wnew, wprot, wkind, wold, wtmp, hvars, clock, cnt>>
    /\ hist' = Rec("UpdReadUpstream", w, <<>>)

\* checkNewSpecsPresent: every table the new contents name that upstream does not must be in the directory (stat)
UpdCheckNewSpecsPresent(w) ==
    /\ wpc[w] = "check"
    /\ LET newSpecs == Proposed(w, wup[w]).specs \ wup[w].specs IN
       wpc' = [wpc EXCEPT ![w] = IF \A t \in newSpecs : vdir[TName(t)] # NoIno THEN "rename" ELSE "missing"]
    /\ UNCHANGED <<fsvars, wup, wnew, wprot, wkind, wold, wtmp, hvars, clock, cnt>>
    /\ hist' = Rec("UpdCheckNewSpecsPresent", w, <<>>)

UpdRename(w) ==
    /\ wpc[w] = "rename"
    /\ DirDo(<<OpRename(TmpM(w), Manifest)>>)
    /\ mlog' = Append(mlog, Proposed(w, wup[w]))
    /\ wpc' = [wpc EXCEPT ![w] = "dsync"]
    /\ UNCHANGED <<ddir, ino, nextIno, holder, wup, wnew, wprot, wkind, wold, wtmp, acked, clock, cnt>>
    /\ hist' = Rec("UpdRename", w, <<>>)

UpdDirSync(w) ==
    /\ wpc[w] = "dsync"
    /\ ddir' = ApplyOps(ddir, pend) /\ pend' = <<>>
    /\ wpc' = [wpc EXCEPT ![w] = "unlock"]
    /\ UNCHANGED <<vdir, ino, nextIno, holder, wup, wnew, wprot, wkind, wold, wtmp, hvars, clock, cnt>>
    /\ hist' = Rec("UpdDirSync", w, <<>>)

\* successful return of Update: unlock; the caller rebases (opens the new tables, closes dropped ones)
UpdUnlock(w) ==
    /\ wpc[w] = "unlock" /\ holder = w
    /\ holder' = "none"
    /\ acked' = Len(mlog)
    /\ wup' = [wup EXCEPT ![w] = Proposed(w, wup[w])]
    /\ wprot' = [wprot EXCEPT ![w] = Proposed(w, wup[w]).specs]
    /\ wpc' = [wpc EXCEPT ![w] = IF wkind[w] = "conjoin" THEN "cleanup" ELSE IF wkind[w] = "gc" THEN "prune" ELSE "done"]
    /\ UNCHANGED <<vdir, ddir, pend, ino, nextIno, wnew, wkind, wold, wtmp, mlog, clock, cnt>>
    /\ hist' = Rec("UpdUnlock", w, <<>>)

\* stale or missing-file exit: deferred file.Remove(temp) and Unlock. stale => retry from the read; missing => error
UpdAbort(w) ==
    /\ wpc[w] \in {"stale", "missing"} /\ holder = w
    /\ holder' = "none"
    /\ DirDo(<<OpUnlink(TmpM(w))>>)
    /\ wpc' = [wpc EXCEPT ![w] = IF wpc[w] = "stale" THEN "read" ELSE "done"]
    /\ UNCHANGED <<ddir, ino, nextIno, wup, wnew, wprot, wkind, wold, wtmp, hvars, clock, cnt>>
    /\ hist' = Rec("UpdAbort", w, [why |-> wpc[w]])

\* conjoin cleanup (file_table_persister.go:366): unlink every conjoinee this persister does not protect any more
ConjoinCleanup(w) ==
    /\ wpc[w] = "cleanup"
    /\ LET dead == {TName(t) : t \in {u \in wold[w] : u \notin wprot[w] /\ vdir[TName(u)] # NoIno}}
       IN DirDo(UnlinkAll(dead))
    /\ wpc' = [wpc EXCEPT ![w] = "done"]
    /\ UNCHANGED <<ddir, ino, nextIno, holder, wup, wnew, wprot, wkind, wold, wtmp, hvars, clock, cnt>>
    /\ hist' = Rec("ConjoinCleanup", w, <<>>)

\* PruneTableFiles of the store that just swapped (file_table_persister.go:405): every table file and temp table
\* file in the directory that this persister does not protect is removed - the manifest is not consulted.
PruneTableFiles(w) ==
    /\ wpc[w] = "prune"
    /\ FullPruneWithForeignWriters \/ \A v \in Writer \ {w} : wpc[v] = "idle" /\ wprot[v] \subseteq wprot[w]
    /\ LET dead == {TName(t) : t \in {u \in Table : vdir[TName(u)] # NoIno /\ u \notin wprot[w]}}
                   \cup {n \in {TmpT(v) : v \in Writer} : vdir[n] # NoIno}
       IN DirDo(UnlinkAll(dead))
    /\ wpc' = [wpc EXCEPT ![w] = "done"]
    /\ UNCHANGED <<ddir, ino, nextIno, holder, wup, wnew, wprot, wkind, wold, wtmp, hvars, clock, cnt>>
    /\ hist' = Rec("PruneTableFiles", w, <<>>)

\* Rebase of an idle store: re-read the manifest, open its tables
WRebase(w) ==
    /\ wpc[w] = "idle"
    /\ ManifestOf(vdir) # wup[w] /\ ManifestOf(vdir).ex
    /\ wup' = [wup EXCEPT ![w] = ManifestOf(vdir)]
    /\ wprot' = [wprot EXCEPT ![w] = ManifestOf(vdir).specs]
    /\ UNCHANGED <<fsvars, wpc, wnew, wkind, wold, wtmp, hvars, clock, cnt>>
    /\ hist' = Rec("WRebase", w, <<>>)

WDone(w) ==
    /\ wpc[w] = "done"
    /\ wpc' = [wpc EXCEPT ![w] = "idle"]
    /\ UNCHANGED <<fsvars, wup, wnew, wprot, wkind, wold, wtmp, hvars, clock, cnt>>
    /\ hist' = Rec("WDone", w, <<>>)

\* ------------------------------------------------------------------ crash: every process dies, the platter is what remains
Crash ==
    /\ nCrashes < MaxCrashes
    /\ nCrashes' = nCrashes + 1
    /\ \E d \in CrashDirs :
          /\ vdir' = d /\ ddir' = d
    /\ pend' = <<>>
    /\ ino' = [i \in 1..MaxIno |-> [ino[i] EXCEPT !.data = CrashData(i), !.synced = TRUE]]
    /\ holder' = "none"
    /\ wpc' = [w \in Writer |-> "idle"] /\ wnew' = [w \in Writer |-> {}] /\ wkind' = [w \in Writer |-> "add"]
    /\ wold' = [w \in Writer |-> {}] /\ wtmp' = [w \in Writer |-> NoIno]
    \* the processes restart and open the directory: upstream = the manifest found, its tables opened
    /\ wup' = [w \in Writer |-> IF vdir'[Manifest] = NoIno \/ ino'[vdir'[Manifest]].data.k # "man" THEN NoManifest ELSE MC(ino'[vdir'[Manifest]].data.s)]
    /\ wprot' = [w \in Writer |-> wup'[w].specs]
    /\ acked' = acked /\ mlog' = mlog
    /\ UNCHANGED <<nextIno, clock, nLands>>
    /\ hist' = Rec("Crash", "none", <<>>)

WriterStep(w) == \/ \E t \in Table : \E k \in {"add", "conjoin", "gc"} : LandCreate(w, t, k)
                 \/ LandSync(w) \/ LandRename(w) \/ UpdRead(w) \/ UpdLock(w) \/ UpdLockTimeout(w) \/ UpdWriteTemp(w)
                 \/ UpdSyncTemp(w) \/ UpdReadUpstream(w) \/ UpdCheckNewSpecsPresent(w) \/ UpdRename(w) \/ UpdDirSync(w)
                 \/ UpdUnlock(w) \/ UpdAbort(w) \/ ConjoinCleanup(w) \/ PruneTableFiles(w) \/ WDone(w) \/ WRebase(w)

Next == (\E w \in Writer : WriterStep(w)) \/ Crash
Spec == Init /\ [][Next]_vars

\* ------------------------------------------------------------------ properties (C05)
TypeOK == /\ \A n \in Names : vdir[n] \in 0..MaxIno /\ ddir[n] \in 0..MaxIno
          /\ holder \in Writer \cup {"none", "pruner"}
          /\ acked \in 0..Len(mlog)

\* a directory (volatile or any crash image) is consistent when its manifest, if any, is complete and every table it names exists with its data
Consistent(d, dataOf(_)) ==
    d[Manifest] # NoIno =>
        /\ dataOf(d[Manifest]).k = "man"
        /\ \A t \in dataOf(d[Manifest]).s : d[TName(t)] # NoIno /\ dataOf(d[TName(t)]) = DTable(t)
VData(i) == ino[i].data

\* at every moment the manifest names only files that exist (running system)
ManifestNamesOnlyExistingFiles == Consistent(vdir, VData)
\* ... and after a crash at this moment, whatever the platter kept
ManifestNamesOnlyExistingFilesAfterCrash == \A d \in CrashDirs : Consistent(d, CrashData)

\* the manifest a crash leaves is a complete version that was installed, not older than the newest acknowledged one
\* (or no manifest at all before the first acknowledged update)
ManifestIsOldOrNew ==
    \A d \in CrashDirs :
        IF d[Manifest] = NoIno THEN acked = 0
        ELSE /\ CrashData(d[Manifest]).k = "man"
             /\ \E k \in (IF acked = 0 THEN 1 ELSE acked)..Len(mlog) : mlog[k] = MC(CrashData(d[Manifest]).s)
\* and the running system always sees the newest installed version
ManifestIsNewest == (nCrashes = 0 /\ vdir[Manifest] # NoIno) => ManifestOf(vdir) = mlog[Len(mlog)]

\* temp manifests exist only under LOCK (a crash may leave one behind; the pruner sweeps it)
TempManifestOnlyUnderLock == nCrashes = 0 => \A w \in Writer : (vdir[TmpM(w)] # NoIno => holder = w)

Emit == Len(hist) < D \/ PrintT(ToJson(hist))
=============================================================================
