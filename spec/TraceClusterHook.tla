--------------------------- MODULE TraceClusterHook ---------------------------
(* Trace validation (mode T) for ClusterHook.tla.

   The in-package engine (inpkg/libraries/doltcore/sqle/cluster/replication) runs the REAL commithook with its
   replicate goroutine, a real cluster.Controller (setRoleAndEpoch, graceful transitions), real writes on a source
   DoltDB whose commit hooks call commithook.Execute, and a fault-injecting standby store.  It logs one event per
   critical section, most of them AT the linearization point (inside h.mu) without touching dolt's source:

     * the hook's logrus logger is ours: log lines that the code emits while it holds h.mu ("signaling replication
       thread to push new head", "successfully Committed chunks on destDB", "failed to commit chunks on destDB",
       "waiting for signal.", "woken up.", "fetching current head.", "not role primary", ...) fire a logrus Hook
       which reads the hook's fields (role, nextHead, lastPushedHead, fastFailReplicationWait, progressNotifier,
       nextPushAttempt) in that very critical section -> field "s" of the event;
     * h.nowFunc is ours: Execute calls it under h.mu after updating nextHead (event ExecNow), the wait closure
       calls it under h.mu after a timed-out wait (WaitFailNow);
     * sqlCtxFactory, destDBF and the chunk stores of both databases are ours (AttemptCtx, DestFetch, DestCommit,
       HB, SrcCommit, ExecRead, InitRead; store events are serialised by the store wrapper's own lock);
     * the controller's IsStandbyCallback / killQuery callbacks are ours (ReadOnly, Kill).

   Critical sections that emit nothing (first section of attemptReplicate, setRole, setWaitNotify, NotifyWaitFailed,
   the wait closure after a closed channel, the end of an attempt when the hook is no longer primary) are unlogged
   steps which TLC places between the surrounding logged events (call start / call end).

   A trace is accepted iff every line is consumed (TRACE_MATCHED n = number of lines) and the invariants of the
   cfg hold in every state on the way. *)
EXTENDS ClusterHook, Json, TLCExt

VARIABLES l,     \* next line
          xph,   \* [Calls -> "" | "set" ]   an ExecSet event was consumed, ExecNow may follow
          tn,    \* calls between NotifyStart and NotifyEnd
          treq   \* role transition requested by the harness

tvars == <<l, xph, tn, treq>>
allvars == <<vars, tvars>>

TraceLog == ndJsonDeserialize("trace.ndjson")
N == Len(TraceLog)
Ev == TraceLog[l]
Is(k) == l <= N /\ Ev.ev = k
Mark == IF l > TLCGet(1) THEN TLCSet(1, l) /\ PrintT("TRACE_MATCHED " \o ToString(l)) ELSE TRUE
Step == l' = l + 1 /\ Mark
NoReq == [to |-> "none", graceful |-> FALSE, active |-> FALSE]

\* the hook's fields as read inside the critical section
SnapOK(s) == /\ s.role = role /\ s.next = nextHead /\ s.last = lastPushed /\ s.ff = fastFail
             /\ s.pend = (pend # {}) /\ (~s.bo => ~backoff)

TInit == /\ Init /\ role = "primary" /\ destUp
         /\ l = 1 /\ xph = [c \in Calls |-> ""] /\ tn = {} /\ treq = NoReq
         /\ TLCSet(1, 0)

Keep == UNCHANGED <<xph, tn, treq>>

\* ------------------------------------------------------------------ start of a trace: everything back to the initial state
TReset ==
  /\ Is("Reset")
  /\ src' = <<Ev.src>>
  /\ cst' = [c \in Calls |-> "idle"] /\ cver' = [c \in Calls |-> 0] /\ cread' = [c \in Calls |-> None]
  /\ creadPos' = [c \in Calls |-> 0] /\ cwait' = [c \in Calls |-> "none"] /\ cres' = [c \in Calls |-> "none"]
  /\ cprobe' = [c \in Calls |-> FALSE] /\ cstart' = [c \in Calls |-> 0] /\ killed' = {}
  /\ role' = Ev.role /\ nextHead' = None /\ lastPushed' = None /\ backoff' = FALSE
  /\ fastFail' = FALSE /\ nextProbeAt' = 0 /\ probeBudget' = 0 /\ pend' = {} /\ closed' = {} /\ haveDest' = FALSE
  /\ rpc' = "top" /\ att' = NoAtt /\ shouldHB' = FALSE
  /\ destRoot' = Ev.dest /\ destUp' = Ev.destUp
  /\ ctl' = "idle" /\ readOnly' = (Ev.role # "primary") /\ grace' = FALSE /\ graceCU' = FALSE /\ now' = 0
  /\ destPosMax' = 0 /\ hiExec' = 0 /\ staleHappened' = FALSE /\ abaHappened' = FALSE /\ graceOK' = TRUE /\ graceDone' = FALSE
  /\ nFaults' = 0 /\ nRoles' = 0
  /\ xph' = [c \in Calls |-> ""] /\ tn' = {} /\ treq' = NoReq
  /\ Step

\* ------------------------------------------------------------------ clients
TClock == /\ Is("Clock") /\ now' = Ev.t
          /\ UNCHANGED <<cvars, hvars, rvars, dvars, ctl, readOnly, grace, graceCU, histv>> /\ Keep /\ Step

TWriteBegin == /\ Is("WriteBegin") /\ ClientBegin(Ev.x) /\ Keep /\ Step
TWriteRejected == /\ Is("WriteRejected") /\ WriteRejectedOnStandby(Ev.x) /\ Keep /\ Step
TSrcCommit == /\ Is("SrcCommit") /\ ClientWrite(Ev.x, Ev.root) /\ Keep /\ Step
TExecRead == /\ Is("ExecRead") /\ Ev.root = CurRoot /\ ExecRead(Ev.x) /\ Keep /\ Step

\* Execute's critical section is applied at its first event
TExecNotPrimary ==
  /\ Is("ExecNotPrimary") /\ role # "primary" /\ SnapOK(Ev.s)
  /\ ExecLocked(Ev.x) /\ Keep /\ Step
TExecSet ==
  /\ Is("ExecSet") /\ role = "primary" /\ SnapOK(Ev.s)
  /\ cread[Ev.x] = Ev.root /\ Ev.root # nextHead
  /\ ExecLocked(Ev.x)
  /\ xph' = [xph EXCEPT ![Ev.x] = "set"] /\ UNCHANGED <<tn, treq>> /\ Step
TExecNowFirst ==      \* root = nextHead already, but not caught up: only the registration happens
  /\ Is("ExecNow") /\ xph[Ev.x] = "" /\ cst[Ev.x] = "read" /\ role = "primary"
  /\ cread[Ev.x] = nextHead /\ SnapOK(Ev.s)
  /\ ExecLocked(Ev.x) /\ cwait'[Ev.x] \in {"real", "ff"}
  /\ Keep /\ Step
TExecNowSecond ==     \* same critical section as the preceding ExecSet
  /\ Is("ExecNow") /\ xph[Ev.x] = "set" /\ cst[Ev.x] = "executed" /\ cwait[Ev.x] \in {"real", "ff"}
  /\ Ev.s.next = nextHead /\ Ev.s.role = role
  /\ xph' = [xph EXCEPT ![Ev.x] = ""] /\ UNCHANGED <<vars, tn, treq>> /\ Step
TExecEnd ==
  /\ Is("ExecEnd")
  /\ IF cst[Ev.x] = "read"
     THEN \* nothing was logged: root = nextHead and the hook was caught up (no-op on the hook)
          /\ role = "primary" /\ cread[Ev.x] = nextHead /\ ExecLocked(Ev.x) /\ cwait'[Ev.x] = "none" /\ ~Ev.wait
     ELSE /\ cst[Ev.x] = "executed"
          /\ (xph[Ev.x] = "" \/ (xph[Ev.x] = "set" /\ cwait[Ev.x] = "none"))
          /\ Ev.wait = (cwait[Ev.x] \in {"real", "ff"})
          /\ UNCHANGED vars
  /\ xph' = [xph EXCEPT ![Ev.x] = ""] /\ UNCHANGED <<tn, treq>> /\ Step

TWaitFailNow == /\ Is("WaitFailNow") /\ ClientTimeout(Ev.x) /\ Keep /\ Step
TWaitEnd ==
  /\ Is("WaitEnd")
  /\ CASE Ev.res = "ack"      -> cres[Ev.x] = "ack" /\ UNCHANGED vars            \* after the unlogged ClientAck
       [] Ev.res = "ff"       -> ClientWaitFF(Ev.x)
       [] Ev.res = "none"     -> ClientReturn(Ev.x)
       [] Ev.res = "timeout"  -> cst[Ev.x] = "notify" /\ UNCHANGED vars         \* after WaitFailNow
       [] Ev.res = "canceled" -> \E nf \in BOOLEAN : ClientCanceled(Ev.x, nf)
  /\ Keep /\ Step
TClientDone == /\ Is("ClientDone") /\ cst[Ev.x] = "done"
               /\ Ev.warned = (cres[Ev.x] = "warn" /\ cwait[Ev.x] # "lost")
               /\ UNCHANGED vars /\ Keep /\ Step
TAckSilent == /\ \E c \in Calls : ClientAck(c)
              /\ UNCHANGED tvars
TNotifyStart == /\ Is("NotifyStart") /\ cst[Ev.x] = "notify" /\ tn' = tn \cup {Ev.x}
                /\ UNCHANGED <<vars, xph, treq>> /\ Step
TNotifySilent == /\ \E c \in tn : ClientNotify(c)
                 /\ UNCHANGED tvars
TNotifyEnd == /\ Is("NotifyEnd") /\ Ev.x \in tn /\ cst[Ev.x] = "done" /\ tn' = tn \ {Ev.x}
              /\ UNCHANGED <<vars, xph, treq>> /\ Step
TKill == /\ Is("Kill") /\ killed' = killed \cup {Ev.x}
         /\ UNCHANGED <<src, cst, cver, cread, creadPos, cwait, cres, cprobe, cstart, hvars, rvars, dvars, ctvars, histv>> /\ Keep /\ Step

\* ------------------------------------------------------------------ replicate goroutine
TInit0 == /\ Is("Init") /\ rpc = "top" /\ NeedsInit /\ SnapOK(Ev.s) /\ UNCHANGED vars /\ Keep /\ Step
TInitRead == /\ Is("InitRead") /\ Ev.root = CurRoot /\ ReplInit /\ Keep /\ Step
TAttemptBeginSilent == AttemptBegin /\ UNCHANGED tvars
TAttemptCtx == /\ Is("AttemptCtx") /\ AttemptCtx(Ev.ok) /\ Keep /\ Step
TDestFetch ==
  /\ Is("DestFetch") /\ rpc = "attempt" /\ att.stage = "ctx" /\ ~haveDest /\ Ev.ok = destUp
  /\ DestFetch /\ Keep /\ Step
TPushing ==
  /\ Is("Pushing") /\ rpc = "attempt" /\ Ev.root = att.toPush
  /\ att.stage = "fetched" \/ (att.stage = "ctx" /\ haveDest)
  /\ att' = [att EXCEPT !.stage = "fetched"]
  /\ UNCHANGED <<cvars, hvars, rpc, shouldHB, dvars, ctvars, histv>> /\ Keep /\ Step
TPulled ==            \* PullChunks returned nil (its store operations all happened earlier)
  /\ Is("Pulled") /\ rpc = "attempt" /\ att.stage = "fetched"
  /\ att' = [att EXCEPT !.stage = "pulled"]
  /\ UNCHANGED <<cvars, hvars, rpc, shouldHB, dvars, ctvars, histv>> /\ Keep /\ Step
TDestCommit ==
  /\ Is("DestCommit") /\ rpc = "attempt" /\ att.stage = "pulled" /\ Ev.new = att.toPush
  /\ IF Ev.ok THEN Ev.last = destRoot /\ DestCommit
     ELSE UNCHANGED vars
  /\ Keep /\ Step
TAttemptOK ==
  /\ Is("AttemptOK") /\ rpc = "attempt" /\ att.stage = "committed" /\ role = "primary" /\ SnapOK(Ev.s)
  /\ AttemptEndWith(TRUE) /\ Keep /\ Step
TAttemptFail ==
  /\ Is("AttemptFail") /\ rpc = "attempt" /\ SnapOK(Ev.s)
  /\ IF Ev.kind = "push" THEN att.stage \in {"fetched", "pulled"} /\ role = "primary" /\ AttemptEndWith(FALSE)
     ELSE att.stage = "earlyfail" /\ AttemptEndEarly
  /\ Keep /\ Step
TAttemptEndQuiet ==   \* the hook is no longer primary: the result is dropped without a log line
  /\ rpc = "attempt" /\ att.stage \in {"fetched", "pulled", "committed"} /\ role # "primary"
  /\ AttemptEndWith(FALSE) /\ UNCHANGED tvars
TQuiesce == /\ Is("Quiesce") /\ SnapOK(Ev.s) /\ Quiesce /\ Keep /\ Step
\* cs.Commit(x, x): the heartbeat - or the root update of an attempt whose root the standby already holds
THB == /\ Is("HB")
       /\ \/ rpc = "hb" /\ PosOf(Ev.root) > 0 /\ UNCHANGED vars
          \/ rpc = "attempt" /\ att.stage = "pulled" /\ Ev.root = att.toPush /\ destRoot = Ev.root /\ DestCommit
       /\ Keep /\ Step
TWoken == /\ Is("Woken") /\ rpc \in {"wait", "hb"} /\ SnapOK(Ev.s)
          /\ rpc' = "top" /\ UNCHANGED <<cvars, hvars, att, shouldHB, dvars, ctvars, histv>> /\ Keep /\ Step
TBackoffSilent == BackoffElapse /\ UNCHANGED tvars

\* ------------------------------------------------------------------ controller
TRoleStart == /\ Is("RoleStart") /\ ctl = "idle" /\ ~treq.active
              /\ treq' = [to |-> Ev.to, graceful |-> Ev.graceful, active |-> TRUE]
              /\ UNCHANGED <<vars, xph, tn>> /\ Step
TReadOnly ==
  /\ Is("ReadOnly") /\ treq.active
  /\ readOnly' = Ev.v
  /\ \/ /\ ctl = "idle" /\ Ev.v = (treq.to # "primary")
        /\ ctl' = CASE treq.to = "primary" -> "setPrimary"
                    [] treq.to = "broken" -> "setBroken"
                    [] treq.graceful -> "graceInstall"
                    [] OTHER -> "setStandby"
     \/ /\ ctl = "graceFail" /\ ~Ev.v /\ ctl' = "idle"
  /\ UNCHANGED <<cvars, hvars, rvars, dvars, grace, graceCU, now, histv>> /\ Keep /\ Step
TCtlSilent == /\ treq.active /\ (CtlGraceInstall \/ CtlGraceUninstall \/ CtlSetRole)
              /\ UNCHANGED tvars
TRoleEnd == /\ Is("RoleEnd") /\ treq.active /\ ctl = "idle"
            /\ IF Ev.ok THEN role = treq.to ELSE role = "primary" /\ ~readOnly
            /\ treq' = NoReq /\ UNCHANGED <<vars, xph, tn>> /\ Step

\* ------------------------------------------------------------------ environment
TFault == /\ Is("Fault") /\ destUp' = Ev.up
          /\ UNCHANGED <<cvars, hvars, rvars, destRoot, ctvars, histv>> /\ Keep /\ Step
TSnap == /\ Is("Snap") /\ SnapOK(Ev.s) /\ Ev.src = CurRoot /\ Ev.dest = destRoot
         /\ UNCHANGED vars /\ Keep /\ Step

TNext == \/ TReset \/ TClock \/ TWriteBegin \/ TWriteRejected \/ TSrcCommit \/ TExecRead \/ TExecNotPrimary \/ TExecSet
         \/ TExecNowFirst \/ TExecNowSecond \/ TExecEnd \/ TWaitFailNow \/ TWaitEnd \/ TAckSilent \/ TNotifyStart
         \/ TNotifySilent \/ TNotifyEnd \/ TKill \/ TClientDone
         \/ TInit0 \/ TInitRead \/ TAttemptBeginSilent \/ TAttemptCtx \/ TDestFetch \/ TPushing \/ TPulled \/ TDestCommit
         \/ TAttemptOK \/ TAttemptFail \/ TAttemptEndQuiet \/ TQuiesce \/ THB \/ TWoken \/ TBackoffSilent
         \/ TRoleStart \/ TReadOnly \/ TCtlSilent \/ TRoleEnd \/ TFault \/ TSnap

TSpec == TInit /\ [][TNext]_allvars
tview == <<view, tvars>>
=============================================================================
