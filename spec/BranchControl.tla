--------------------------- MODULE BranchControl ---------------------------
(* Branch permissions of dolt (go/libraries/doltcore/branch_control/*.go and the SQL layer in
   sqle/dtables/branch_control_table.go, branch_namespace_control.go).

   Part 1 - pure functions over characters:
     characters are classes [base, up, accent] (letters) plus the three special characters % _ \ ;
     Key(co, c)      the collation key of a character ("ci" = utf8mb4_0900_ai_ci: base only,
                     "bin" = utf8mb4_0900_bin: the character itself);
     Fold(t)         transcription of FoldExpression (expr_parser.go:68): %% -> %, %_ -> _%, escapes skipped,
                     repeated until nothing changes;
     Parse(t)        transcription of ParseExpression / MatchNode.parseExpression: text -> tokens any/one/lit;
     LikeSQL(t,s,co) SQL LIKE: '_' one character, '%' any run, backslash escapes, under collation co.
                     THIS is what the property statement demands of every column.
   Named deviations of the code from LikeSQL (they are actions/operators of their own, not smoothed over):
     LikeParsed      Access.Match runs the REQUEST strings through parseExpression too (documented in
                     expr_parser_node.go:72 "if the parameters represent expressions ..."): a '_', '%' or '\' inside
                     a request string is a wildcard token / an escape, not a character;
     LikeFree        the free function Match (expr_parser.go:159, used by Namespace.CanCreate) decodes the first
                     rune of an EMPTY request as U+FFFD with size 0, i.e. evaluates "" as a one-character string.
   Part 2 - the two rule tables as a state machine:
     acc  dolt_branch_control            (Access.Insert / Access.Delete / SQL insert with subset rejection)
     ns   dolt_branch_namespace_control  (BranchNamespaceControlTable.insert / delete)
     Perms(acc, req)     union of the permissions of the matching rules with the longest pattern, closed under
                         Admin > Write > Merge > Read (access.go:82)
     CanCreate(ns, req)  namespace.go:66
   Properties: C38. *)
EXTENDS Integers, Sequences, FiniteSets, TLC, Json

CONSTANTS Letters,       \* subset of DOMAIN Cls used by this configuration
          MaxText,       \* like-mode: raw pattern texts up to this length are enumerated
          MaxStr,        \* like-mode: request strings up to this length
          DbPats, BrPats, UsPats, HoPats,   \* table-mode: pools of raw pattern texts per column (sets of sequences)
          PermPool,      \* table-mode: set of permission sets a rule may carry (subsets of PermNames)
          ReqDb, ReqBr, ReqUs, ReqHo,       \* table-mode: request strings per column (SEQUENCES of sequences: ordered)
          MaxAcc, MaxNs, \* bounds on the number of rules
          MaxOps,        \* bound on the length of ops when TrackOps
          TrackOps,      \* TRUE: the operation history is part of the state (IncrementalEqualsDirect over all orders)
          EmitStates,    \* TRUE: print the projection of every distinct state (exhaustive enumeration of rule sets)
          GrowOnly,      \* TRUE: rules are only added, in increasing key order (every table of the bound is reached exactly once)
          D, RecordHist  \* behaviour export (simulation mode)

VARIABLES acc,    \* set of access rules [db, br, us, ho, perm] in stored (folded, lower-cased) form
          ns,     \* set of namespace rules [db, br, us, ho] in stored form
          ops,    \* sequence of table operations (only when TrackOps)
          txt,    \* like-mode: the raw pattern text under enumeration
          hist

vars == <<acc, ns, ops, txt, hist>>
view == <<acc, ns, ops, txt>>

\* ------------------------------------------------------------------ characters
Cls == ("a"  :> [base |-> "a", up |-> FALSE, accent |-> FALSE]) @@
       ("A"  :> [base |-> "a", up |-> TRUE,  accent |-> FALSE]) @@
       ("a'" :> [base |-> "a", up |-> FALSE, accent |-> TRUE ]) @@
       ("A'" :> [base |-> "a", up |-> TRUE,  accent |-> TRUE ]) @@
       ("b"  :> [base |-> "b", up |-> FALSE, accent |-> FALSE]) @@
       ("B"  :> [base |-> "b", up |-> TRUE,  accent |-> FALSE]) @@
       ("b'" :> [base |-> "b", up |-> FALSE, accent |-> TRUE ])
Specials == {"%", "_", "\\"}
Chars == Letters \cup Specials
IsLetter(c) == c \in DOMAIN Cls

\* collation key: ai_ci compares base letters only; bin compares code points
Key(co, c) == IF IsLetter(c) /\ co = "ci" THEN <<"L", Cls[c].base>> ELSE <<"C", c>>
\* strings.ToLower on one character
Lower(c) == IF IsLetter(c) THEN CHOOSE d \in DOMAIN Cls : Cls[d] = [Cls[c] EXCEPT !.up = FALSE] ELSE c
LowerText(t) == [i \in 1..Len(t) |-> Lower(t[i])]
\* UTF-8 width of the concrete characters the engine binds to (plain letters and specials are ASCII, accented are 2 bytes)
Width(c) == IF IsLetter(c) /\ Cls[c].accent THEN 2 ELSE 1
RECURSIVE ByteLen(_)
ByteLen(t) == IF t = <<>> THEN 0 ELSE Width(Head(t)) + ByteLen(Tail(t))

RECURSIVE SeqsUpTo(_, _)
SeqsUpTo(S, n) == IF n = 0 THEN {<<>>}
                  ELSE LET P == SeqsUpTo(S, n - 1) IN P \cup {Append(s, x) : s \in {q \in P : Len(q) = n - 1}, x \in S}

\* ------------------------------------------------------------------ FoldExpression (expr_parser.go:68)
RECURSIVE FoldScan(_, _, _, _)
FoldScan(t, skip, cons, out) ==      \* skip = skipNext, cons = considerNext
    IF t = <<>> THEN (IF cons THEN Append(out, "%") ELSE out)
    ELSE LET r == Head(t)
             rest == Tail(t) IN
         IF skip THEN FoldScan(rest, FALSE, cons, Append(out, r))
         ELSE IF cons THEN
              CASE r = "\\" -> FoldScan(rest, TRUE, FALSE, out \o <<"%", r>>)
                [] r = "_"  -> FoldScan(rest, FALSE, FALSE, out \o <<r, "%">>)
                [] r = "%"  -> FoldScan(rest, FALSE, FALSE, Append(out, r))
                [] OTHER    -> FoldScan(rest, FALSE, FALSE, out \o <<"%", r>>)
         ELSE CASE r = "\\" -> FoldScan(rest, TRUE, FALSE, Append(out, r))
                [] r = "%"  -> FoldScan(rest, FALSE, TRUE, out)
                [] OTHER    -> FoldScan(rest, FALSE, FALSE, Append(out, r))
RECURSIVE Fold(_)
Fold(t) == LET n == FoldScan(t, FALSE, FALSE, <<>>) IN IF n = t THEN t ELSE Fold(n)

\* ------------------------------------------------------------------ ParseExpression (expr_parser.go:124, expr_parser_node.go:449)
\* tokens: <<"any", "">>, <<"one", "">>, <<"lit", c>>.  A lone trailing backslash is dropped (as the code does).
RECURSIVE Parse(_)
Parse(t) == IF t = <<>> THEN <<>>
            ELSE CASE Head(t) = "\\" -> IF Len(t) = 1 THEN <<>> ELSE << <<"lit", t[2]>> >> \o Parse(SubSeq(t, 3, Len(t)))
                   [] Head(t) = "%"  -> << <<"any", "">> >> \o Parse(Tail(t))
                   [] Head(t) = "_"  -> << <<"one", "">> >> \o Parse(Tail(t))
                   [] OTHER          -> << <<"lit", Head(t)>> >> \o Parse(Tail(t))
EndsInLoneEscape(t) == Len(Parse(t \o <<"a">>)) = Len(Parse(t))    \* the appended character would be swallowed
\* the stored identity of an expression inside the trie: tokens with literals replaced by their collation key
Canon(t, co) == LET p == Parse(t) IN [i \in 1..Len(p) |-> IF p[i][1] = "lit" THEN <<"lit", Key(co, p[i][2])>> ELSE p[i]]

\* ------------------------------------------------------------------ SQL LIKE (the property)
RECURSIVE LikeT(_, _, _)
LikeT(P, S, co) ==
    IF P = <<>> THEN S = <<>>
    ELSE LET h == Head(P) IN
         CASE h[1] = "any" -> \E i \in 0..Len(S) : LikeT(Tail(P), SubSeq(S, i + 1, Len(S)), co)
           [] h[1] = "one" -> S # <<>> /\ LikeT(Tail(P), Tail(S), co)
           [] OTHER        -> S # <<>> /\ Key(co, Head(S)) = Key(co, h[2]) /\ LikeT(Tail(P), Tail(S), co)
LikeSQL(t, s, co) == LikeT(Parse(t), s, co)

\* ------------------------------------------------------------------ named deviation 1: the request is parsed as an expression
RECURSIVE LikeP(_, _, _)
LikeP(P, Q, co) ==      \* P pattern tokens, Q request TOKENS
    IF P = <<>> THEN Q = <<>>
    ELSE LET h == Head(P) IN
         CASE h[1] = "any" -> \E i \in 0..Len(Q) : LikeP(Tail(P), SubSeq(Q, i + 1, Len(Q)), co)
           [] h[1] = "one" -> Q # <<>> /\ Head(Q)[1] # "any" /\ LikeP(Tail(P), Tail(Q), co)
           [] OTHER        -> Q # <<>> /\ Head(Q)[1] = "lit" /\ Key(co, Head(Q)[2]) = Key(co, h[2]) /\ LikeP(Tail(P), Tail(Q), co)
LikeParsed(t, s, co) == LikeP(Parse(t), Parse(s), co)
HasSpecial(s) == \E i \in 1..Len(s) : s[i] \in Specials

\* ------------------------------------------------------------------ named deviation 2: free Match on an empty request
\* utf8.DecodeRuneInString("") = (RuneError, 0): the first pass runs on U+FFFD, which equals no literal of any pattern.
LikeFree(t, s, co) == IF s = <<>> THEN LikeT(Parse(t), <<"\\uFFFD">>, co) ELSE LikeT(Parse(t), s, co)

\* ------------------------------------------------------------------ rules
PermNames == {"admin", "write", "merge", "read"}
Cols == <<"db", "br", "us", "ho">>
ColCo == [db |-> "ci", br |-> "ci", us |-> "bin", ho |-> "ci"]
\* Access.Insert / the SQL tables: FoldExpression, then strings.ToLower on database, branch and host
Stored(col, t) == IF ColCo[col] = "ci" THEN LowerText(Fold(t)) ELSE Fold(t)
\* identity inside the namespace table: the stored strings (Namespace.GetIndex)
NsKey(r) == <<r.db, r.br, r.us, r.ho>>

MatchesWith(Lk(_, _, _), r, q) == /\ Lk(r.db, q.db, "ci") /\ Lk(r.br, q.br, "ci")
                                  /\ Lk(r.us, q.us, "bin") /\ Lk(r.ho, q.ho, "ci")

\* table-mode evaluates the three Like relations once, over the pattern pools and request strings of the configuration
\* (a constant of the model: TLC computes it a single time), and the table operators below look the answers up
Range(f) == {f[i] : i \in DOMAIN f}
ListOf(S) == LET RECURSIVE Lst(_)
                 Lst(T) == IF T = {} THEN <<>> ELSE LET x == CHOOSE y \in T : TRUE IN <<x>> \o Lst(T \ {x}) IN Lst(S)
PatAll == {LowerText(Fold(t)) : t \in DbPats \cup BrPats \cup HoPats} \cup {Fold(t) : t \in UsPats}
StrAll == Range(ReqDb) \cup Range(ReqBr) \cup Range(ReqUs) \cup Range(ReqHo) \cup PatAll
TabSQL == [co \in {"ci", "bin"} |-> [t \in PatAll |-> [s \in StrAll |-> LikeSQL(t, s, co)]]]
TabParsed == [co \in {"ci", "bin"} |-> [t \in PatAll |-> [s \in StrAll |-> LikeParsed(t, s, co)]]]
TabFree == [co \in {"ci", "bin"} |-> [t \in PatAll |-> [s \in StrAll |-> LikeFree(t, s, co)]]]
TabLen == [t \in PatAll |-> Len(Parse(t))]
\* Stored / Canon of every pool text (raw or already stored), evaluated once
RawAll == DbPats \cup BrPats \cup UsPats \cup HoPats \cup PatAll
StoredTab == [co \in {"ci", "bin"} |-> [t \in RawAll |-> IF co = "ci" THEN LowerText(Fold(t)) ELSE Fold(t)]]
CanonTab == [co \in {"ci", "bin"} |-> [t \in PatAll |-> Canon(t, co)]]
\* identity inside the access trie (AccKey): the concatenated sort orders
StoreRule(r) == [db |-> StoredTab["ci"][r.db], br |-> StoredTab["ci"][r.br], us |-> StoredTab["bin"][r.us], ho |-> StoredTab["ci"][r.ho]]
AccKey(r) == <<CanonTab["ci"][r.db], CanonTab["ci"][r.br], CanonTab["bin"][r.us], CanonTab["ci"][r.ho]>>
\* number of sort orders of the rule (the four column markers are a constant and left out)
RuleLen(r) == TabLen[r.db] + TabLen[r.br] + TabLen[r.us] + TabLen[r.ho]
LkSQL(t, s, co) == TabSQL[co][t][s]
LkParsed(t, s, co) == TabParsed[co][t][s]
LkFree(t, s, co) == TabFree[co][t][s]
MatchesSQL(r, q) == MatchesWith(LkSQL, r, q)
MatchesParsed(r, q) == MatchesWith(LkParsed, r, q)

Imply(p) == IF "admin" \in p THEN PermNames
            ELSE IF "write" \in p THEN p \cup {"merge", "read"}
            ELSE IF "merge" \in p THEN p \cup {"read"} ELSE p
MaxOf(S) == CHOOSE x \in S : \A y \in S : y <= x
\* access.go:82  MatchIgnoringRow
PermsWith(M(_, _), A, q) ==
    LET ms == {r \in A : M(r, q)} IN
    IF ms = {} THEN [matched |-> FALSE, perms |-> {}]
    ELSE LET L == MaxOf({RuleLen(r) : r \in ms})
             top == {r \in ms : RuleLen(r) = L} IN
         [matched |-> TRUE, perms |-> Imply(UNION {r.perm : r \in top})]
Perms(A, q) == PermsWith(MatchesSQL, A, q)              \* the property
PermsParsed(A, q) == PermsWith(MatchesParsed, A, q)     \* with deviation 1

\* namespace.go:66
CanCreateWith(Lk(_, _, _), N, q) ==
    LET dbs == {r \in N : Lk(r.db, q.db, "ci")} IN
    IF dbs = {} THEN TRUE ELSE
    LET brs == {r \in dbs : Lk(r.br, q.br, "ci")} IN
    IF brs = {} THEN TRUE ELSE
    LET L == MaxOf({ByteLen(r.br) : r \in brs})          \* len(matchedValue.Branch): bytes of the stored branch expression
        top == {r \in brs : ByteLen(r.br) = L} IN
    \E r \in top : Lk(r.us, q.us, "bin") /\ Lk(r.ho, q.ho, "ci")
CanCreate(N, q) == CanCreateWith(LkSQL, N, q)          \* the property
CanCreateFree(N, q) == CanCreateWith(LkFree, N, q)     \* with deviation 2

\* classes of requests on which a deviation can show (shipped to the engine as the fingerprint class)
ReqHasSpecial(q) == HasSpecial(q.db) \/ HasSpecial(q.br) \/ HasSpecial(q.us) \/ HasSpecial(q.ho)
ReqHasEmpty(q) == q.db = <<>> \/ q.br = <<>> \/ q.us = <<>> \/ q.ho = <<>>
\* ------------------------------------------------------------------ named deviation 3: the trie misses an empty final '%'
\* MatchNode.Match (expr_parser_node.go:77) only enters a child node when a further sort order arrives.  A '%' that ends the
\* host expression (the very last sort order of a rule) and sits in a child node of its own - which happens exactly when
\* another rule shares everything before that '%' - is therefore never tried against the empty rest of the request:
\* the rule is found only if its final '%' can consume at least one request token.
EndsAny(t) == LET p == Parse(t) IN p # <<>> /\ p[Len(p)][1] = "any"
Front(q) == SubSeq(q, 1, Len(q) - 1)
IsPrefix(a, b) == Len(a) <= Len(b) /\ SubSeq(b, 1, Len(a)) = a
SplitBeforeFinalAny(r, A) ==
    /\ EndsAny(r.ho)
    /\ \E x \in A : /\ x # r /\ AccKey(x)[1] = AccKey(r)[1] /\ AccKey(x)[2] = AccKey(r)[2] /\ AccKey(x)[3] = AccKey(r)[3]
                     /\ IsPrefix(Front(AccKey(r)[4]), AccKey(x)[4])
FinalAnyMustBeEmpty(r, q) ==
    LET P == Front(Parse(r.ho))
        Q == Parse(q.ho) IN
    ~\E i \in 0..(Len(Q) - 1) : LikeP(P, SubSeq(Q, 1, i), "ci")
PermsTrie(A, q) ==
    LET split == {r \in A : SplitBeforeFinalAny(r, A)}
        M(r, qq) == MatchesParsed(r, qq) /\ ~(r \in split /\ FinalAnyMustBeEmpty(r, qq)) IN
    PermsWith(M, A, q)

\* ------------------------------------------------------------------ table-mode: universes and the request list
RawRules == [db : DbPats, br : BrPats, us : UsPats, ho : HoPats]
NReq == Len(ReqDb) * Len(ReqBr) * Len(ReqUs) * Len(ReqHo)
ReqAt(i) == LET j == i - 1
                h == (j % Len(ReqHo)) + 1
                u == ((j \div Len(ReqHo)) % Len(ReqUs)) + 1
                b == ((j \div (Len(ReqHo) * Len(ReqUs))) % Len(ReqBr)) + 1
                d == (j \div (Len(ReqHo) * Len(ReqUs) * Len(ReqBr))) + 1 IN
            [db |-> ReqDb[d], br |-> ReqBr[b], us |-> ReqUs[u], ho |-> ReqHo[h]]
PermBits(p) == (IF "admin" \in p THEN 1 ELSE 0) + (IF "write" \in p THEN 2 ELSE 0)
             + (IF "merge" \in p THEN 4 ELSE 0) + (IF "read" \in p THEN 8 ELSE 0)
\* answer code: -1 = no rule matched, else the permission bits
Code(a) == IF a.matched THEN PermBits(a.perms) ELSE 0 - 1
B(x) == IF x THEN 1 ELSE 0

RowsAcc(A) == {<<r.db, r.br, r.us, r.ho, PermBits(r.perm)>> : r \in A}
RowsNs(N) == {<<r.db, r.br, r.us, r.ho>> : r \in N}
\* constant tables over the request list
ReqTab == [i \in 1..NReq |-> ReqAt(i)]
ReqSpecialTab == [i \in 1..NReq |-> ReqHasSpecial(ReqAt(i))]
ReqEmptyTab == [i \in 1..NReq |-> ReqHasEmpty(ReqAt(i))]
Proj(A, N) == LET split == {r \in A : SplitBeforeFinalAny(r, A)}
                  \* the property: SQL LIKE semantics
                  ans == [i \in 1..NReq |-> Code(Perms(A, ReqTab[i]))]
                  cc == [i \in 1..NReq |-> B(CanCreate(N, ReqTab[i]))] IN
              [accRows |-> RowsAcc(A), nsRows |-> RowsNs(N), ans |-> ans, cc |-> cc,
               \* what the named deviations give (only used to CLASSIFY a mismatch of the real code against ans/cc);
               \* outside their request classes the deviations coincide with the property (DecisionsWellFormed)
               ansP |-> [i \in 1..NReq |-> IF ReqSpecialTab[i] THEN Code(PermsParsed(A, ReqTab[i])) ELSE ans[i]],
               ccF  |-> [i \in 1..NReq |-> IF ReqEmptyTab[i] THEN B(CanCreateFree(N, ReqTab[i])) ELSE cc[i]],
               \* deviations 1 + 3 together (what the trie answers); only worth evaluating when some rule is split before its final '%'
               ansT |-> IF split = {} THEN <<>> ELSE [i \in 1..NReq |-> Code(PermsTrie(A, ReqTab[i]))]]

Rec(a, args, res) == IF RecordHist THEN Append(hist, [a |-> a, args |-> args, res |-> res, exp |-> Proj(acc', ns')]) ELSE hist
Op(o) == IF TrackOps THEN Append(ops, o) ELSE ops

\* ------------------------------------------------------------------ actions
\* a total order on rule identities, used only by GrowOnly configurations
AccKeyList == ListOf({AccKey(StoreRule(r)) : r \in RawRules})
AccRank == [k \in Range(AccKeyList) |-> CHOOSE i \in 1..Len(AccKeyList) : AccKeyList[i] = k]
NsKeyList == ListOf({NsKey(StoreRule(r)) : r \in RawRules})
NsRank == [k \in Range(NsKeyList) |-> CHOOSE i \in 1..Len(NsKeyList) : NsKeyList[i] = k]
ReqLists == [db |-> ReqDb, br |-> ReqBr, us |-> ReqUs, ho |-> ReqHo]
Init == /\ acc = {} /\ ns = {} /\ ops = <<>> /\ txt = <<>>
        \* the first record of a behaviour carries the ordered request lists the answer vectors refer to
        /\ hist = IF RecordHist THEN <<[a |-> "Init", args |-> <<>>, res |-> "ok", exp |-> Proj({}, {}), reqs |-> ReqLists]>> ELSE <<>>

\* Access.Insert (access.go:181): fold, lower-case, Root.Add overwrites an entry with the same sort orders
AccInsert(r, p) ==
    LET s == StoreRule(r) @@ [perm |-> p] IN
    /\ (\E x \in acc : AccKey(x) = AccKey(s)) \/ Cardinality(acc) < MaxAcc
    /\ GrowOnly => \A x \in acc : AccRank[AccKey(x)] < AccRank[AccKey(s)]
    /\ acc' = {x \in acc : AccKey(x) # AccKey(s)} \cup {s}
    /\ ops' = Op([o |-> "ins", k |-> AccKey(s), perm |-> p])
    /\ UNCHANGED <<ns, txt>>
    /\ hist' = Rec("AccInsert", [db |-> r.db, br |-> r.br, us |-> r.us, ho |-> r.ho, perm |-> PermBits(p)], "ok")

\* Access.Delete (access.go:241): removing an absent expression is a no-op
AccDelete(r) ==
    LET s == StoreRule(r) IN
    /\ acc' = {x \in acc : AccKey(x) # AccKey(s)}
    /\ ops' = Op([o |-> "del", k |-> AccKey(s), perm |-> {}])
    /\ UNCHANGED <<ns, txt>>
    /\ hist' = Rec("AccDelete", [db |-> r.db, br |-> r.br, us |-> r.us, ho |-> r.ho], "ok")

\* BranchControlTable.Insert (branch_control_table.go:163) without a session: a row is refused as a duplicate key when
\* the table already answers the (folded) row, read as a request, with the same consolidated permission, or holds the
\* very same expressions.  The row is read as an EXPRESSION here, which is what LikeParsed is for.
Consolidate(p) == IF "admin" \in p THEN "admin" ELSE IF "write" \in p THEN "write" ELSE IF "merge" \in p THEN "merge" ELSE "read"
SqlAccInsert(r, p) ==
    LET s == StoreRule(r) @@ [perm |-> p]
        m == PermsParsed(acc, [db |-> s.db, br |-> s.br, us |-> s.us, ho |-> s.ho])
        dup == (m.matched /\ Consolidate(p) = Consolidate(m.perms)) \/ (\E x \in acc : AccKey(x) = AccKey(s)) IN
    /\ Cardinality(acc) < MaxAcc
    /\ acc' = IF dup THEN acc ELSE acc \cup {s}
    /\ ops' = IF dup THEN ops ELSE Op([o |-> "ins", k |-> AccKey(s), perm |-> p])
    /\ UNCHANGED <<ns, txt>>
    /\ hist' = Rec("SqlAccInsert", [db |-> r.db, br |-> r.br, us |-> r.us, ho |-> r.ho, perm |-> PermBits(p)], IF dup THEN "dup" ELSE "ok")

\* BranchNamespaceControlTable.Insert / insert (branch_namespace_control.go:170,313): duplicate stored strings are refused
NsInsert(r) ==
    LET s == StoreRule(r)
        dup == \E x \in ns : NsKey(x) = NsKey(s) IN
    /\ dup \/ Cardinality(ns) < MaxNs
    /\ GrowOnly => \A x \in ns : NsRank[NsKey(x)] < NsRank[NsKey(s)]
    /\ ns' = ns \cup {s}
    /\ UNCHANGED <<acc, ops, txt>>
    /\ hist' = Rec("NsInsert", [db |-> r.db, br |-> r.br, us |-> r.us, ho |-> r.ho], IF dup THEN "dup" ELSE "ok")

NsDelete(r) ==
    LET s == StoreRule(r) IN
    /\ ns' = {x \in ns : NsKey(x) # NsKey(s)}
    /\ UNCHANGED <<acc, ops, txt>>
    /\ hist' = Rec("NsDelete", [db |-> r.db, br |-> r.br, us |-> r.us, ho |-> r.ho], "ok")

\* Controller.SaveData + LoadData: serialise to the flatbuffer and rebuild both tables from the binlog / value vectors
SaveLoad == /\ RecordHist /\ UNCHANGED <<acc, ns, ops, txt>> /\ hist' = Rec("SaveLoad", <<>>, "ok")

Next == \/ (GrowOnly => Cardinality(acc) < MaxAcc) /\ \E r \in RawRules, p \in PermPool : AccInsert(r, p)
        \/ ~GrowOnly /\ \E r \in RawRules : AccDelete(r)
        \/ RecordHist /\ \E r \in RawRules, p \in PermPool : SqlAccInsert(r, p)
        \/ MaxNs > 0 /\ (GrowOnly => Cardinality(ns) < MaxNs) /\ \E r \in RawRules : NsInsert(r)
        \/ MaxNs > 0 /\ ~GrowOnly /\ \E r \in RawRules : NsDelete(r)
        \/ SaveLoad

\* simulation mode: one successor per action kind (uniform choice among successor states would otherwise be
\* dominated by the size of RawRules); deletes prefer rules that are present
\* (TLC evaluates constant-level expressions once per run; Salt makes the draws state-level so that they are redrawn)
Salt == 0 * Cardinality(acc)
RawRuleList == ListOf(RawRules)
PermList == ListOf(PermPool)
PickRule == RawRuleList[RandomElement(1..(Len(RawRuleList) + Salt))]
PickPerm == PermList[RandomElement(1..(Len(PermList) + Salt))]
PickPresent(S) == IF S = {} \/ RandomElement(1..(3 + Salt)) = 1 THEN PickRule
                  ELSE LET x == RandomElement(S) IN [db |-> x.db, br |-> x.br, us |-> x.us, ho |-> x.ho]
\* the action kind is drawn first, so that only one successor (and one projection) is computed per step
NextSim == \E k \in {RandomElement(1..(9 + Salt))} :
           \/ k \in {1, 2, 3} /\ \E r \in {PickRule}, p \in {PickPerm} : AccInsert(r, p)
           \/ k = 4 /\ \E r \in {PickPresent(acc)} : AccDelete(r)
           \/ k = 5 /\ \E r \in {PickPresent(acc)}, p \in {PickPerm} : SqlAccInsert(r, p)
           \/ k = 6 /\ \E r \in {PickRule} : NsInsert(r)
           \/ k = 7 /\ \E r \in {PickPresent(ns)} : NsInsert(r)
           \/ k = 8 /\ \E r \in {PickPresent(ns)} : NsDelete(r)
           \/ k = 9 /\ SaveLoad

Bound == (TrackOps => Len(ops) <= MaxOps)

\* ------------------------------------------------------------------ what TLC checks on the table model
TypeOK == /\ \A r \in acc : r.perm \subseteq PermNames /\ StoreRule(r) = [db |-> r.db, br |-> r.br, us |-> r.us, ho |-> r.ho]
          /\ \A r \in ns : StoreRule(r) = r
          /\ Cardinality(acc) <= MaxAcc /\ Cardinality(ns) <= MaxNs
\* one entry per trie path / per stored string tuple
KeysUnique == /\ \A x \in acc, y \in acc : AccKey(x) = AccKey(y) => x = y
              /\ \A x \in ns, y \in ns : NsKey(x) = NsKey(y) => x = y
\* "Adding and removing rules in any order gives the same decisions as evaluating the current rule set directly":
\* the incrementally maintained table equals the table determined by the LAST operation on every key.
LastOp(k) == LET I == {i \in 1..Len(ops) : ops[i].k = k} IN IF I = {} THEN 0 ELSE MaxOf(I)
DirectKeys == {ops[i].k : i \in 1..Len(ops)}
IncrementalEqualsDirect ==
    TrackOps =>
      /\ {AccKey(r) : r \in acc} = {k \in DirectKeys : ops[LastOp(k)].o = "ins"}
      /\ \A r \in acc : r.perm = ops[LastOp(AccKey(r))].perm
\* decisions depend on the rule set only, and follow the documented shape
DecisionsWellFormed ==
    \A i \in 1..NReq :
      LET q == ReqTab[i]
          a == Perms(acc, q) IN
      /\ a.matched = (\E r \in acc : MatchesSQL(r, q))
      /\ (a.matched => \E r \in acc : MatchesSQL(r, q) /\ r.perm \subseteq a.perms
                                     /\ \A r2 \in acc : MatchesSQL(r2, q) => RuleLen(r2) <= RuleLen(r))
      /\ Imply(a.perms) = a.perms
      /\ (ns = {} => CanCreate(ns, q))
      \* the deviations are confined to their request classes
      /\ (~ReqHasSpecial(q) => PermsParsed(acc, q) = a)
      /\ (~ReqHasEmpty(q) => CanCreateFree(ns, q) = CanCreate(ns, q))
EmitState == EmitStates => /\ (acc # {} \/ ns # {} \/ PrintT(ToJson([reqs |-> ReqLists])))
                           /\ PrintT(ToJson(Proj(acc, ns)))
Emit == Len(hist) < D \/ PrintT(ToJson(hist))

\* ------------------------------------------------------------------ like-mode: enumerate every raw pattern text
Strs == SeqsUpTo(Chars, MaxStr)
StrList == LET RECURSIVE Lst(_)
               Lst(S) == IF S = {} THEN <<>> ELSE LET x == CHOOSE y \in S : TRUE IN <<x>> \o Lst(S \ {x}) IN Lst(Strs)
InitLike == acc = {} /\ ns = {} /\ ops = <<>> /\ txt = <<>> /\ hist = <<>>
NextLike == /\ Len(txt) < MaxText /\ \E c \in Chars : txt' = Append(txt, c)
            /\ UNCHANGED <<acc, ns, ops, hist>>
\* single-rule tables built from the text under enumeration, observed through the table operators
AnyT == <<"%">>
RuleIn(col, t) == [db |-> IF col = "db" THEN t ELSE AnyT, br |-> IF col = "br" THEN t ELSE AnyT,
                   us |-> IF col = "us" THEN t ELSE AnyT, ho |-> IF col = "ho" THEN t ELSE AnyT]
Filler == <<"b">>
ReqIn(col, s) == [db |-> IF col = "db" THEN s ELSE Filler, br |-> IF col = "br" THEN s ELSE Filler,
                  us |-> IF col = "us" THEN s ELSE Filler, ho |-> IF col = "ho" THEN s ELSE Filler]
Bits(f) == [i \in 1..Len(StrList) |-> B(f[StrList[i]])]
ShortStrs == {x \in Strs : Len(x) <= 2}
\* the four Like relations of the text under enumeration, each evaluated once per state
RowCi == [s \in Strs |-> LikeSQL(txt, s, "ci")]
RowBin == [s \in Strs |-> LikeSQL(txt, s, "bin")]
\* (the deviation acts on the STORED, i.e. folded, expression: a request token '%' is matched by a pattern '%' but not by '_',
\*  so "%_" and its folded form "_%" differ on requests that hold a '%')
RowPci == [s \in Strs |-> LikeParsed(Fold(txt), s, "ci")]
RowPbin == [s \in Strs |-> LikeParsed(Fold(txt), s, "bin")]
LikeRow(ci, bin, pci, pbin) ==
    [t |-> txt, fold |-> Fold(txt),
     ci |-> Bits(ci), bin |-> Bits(bin), pci |-> Bits(pci), pbin |-> Bits(pbin),
     fci |-> B(LikeFree(txt, <<>>, "ci"))]
\* emission and the properties of Fold / Parse / Like for this text share the four rows
LikeChecks ==
    LET ci == RowCi
        bin == RowBin
        pci == RowPci
        pbin == RowPbin
        f == Fold(txt)
        lf == LowerText(f) IN
    \* FoldIdempotent
    /\ Fold(f) = f
    \* FoldNormalForm: no "%%", no "%_" left
    /\ LET p == Parse(f) IN \A i \in 1..(Len(p) - 1) : ~(p[i][1] = "any" /\ p[i + 1][1] \in {"any", "one"})
    \* FoldPreservesLanguage, LowerPreservesCi
    /\ (f # txt => \A s \in Strs : LikeSQL(f, s, "ci") = ci[s] /\ LikeSQL(f, s, "bin") = bin[s])
    /\ (lf # f => \A s \in Strs : LikeSQL(lf, s, "ci") = ci[s])
    \* NoSpecialsAgree: the deviation is confined to requests holding a special character
    /\ \A s \in Strs : ~HasSpecial(s) => (pci[s] = ci[s] /\ pbin[s] = bin[s])
    \* FreeAgreesOnNonEmpty holds by construction of LikeFree; its empty-request value is a one-character LIKE
    /\ LikeFree(txt, <<>>, "ci") = LikeT(Parse(txt), <<"\\uFFFD">>, "bin")
    \* SubsumptionSound: reading a request as an expression is a sound subsumption test: if the stored text "matches"
    \* the expression e, every string matched by e is matched by the text (the duplicate-key check of the SQL table)
    /\ \A e \in ShortStrs : (~EndsInLoneEscape(e) /\ pci[e]) => \A s \in ShortStrs : LikeSQL(e, s, "ci") => ci[s]
    /\ (EmitStates => /\ (txt # <<>> \/ PrintT(ToJson([strs |-> StrList])))
                       /\ (EndsInLoneEscape(txt) \/ PrintT(ToJson(LikeRow(ci, bin, pci, pbin)))))

\* a table holding the single rule (t in one column, % elsewhere) decides exactly LIKE(t, .) of that column: this is how
\* the engine observes LikeRow through Access.Match and Namespace.CanCreate
Never == <<"A'", "A'", "A'", "A'", "A'">>
SingleRuleIsLike ==
    \A col \in {"db", "br", "us", "ho"}, s \in ShortStrs :
       LET r == RuleIn(col, txt)
           q == ReqIn(col, s)
           lk == LikeSQL(txt, s, ColCo[col]) IN
       /\ MatchesWith(LikeSQL, r, q) = lk
       /\ CanCreateWith(LikeSQL, {r}, q) = IF col \in {"db", "br"} THEN TRUE ELSE lk
       /\ (col \in {"db", "br"} => CanCreateWith(LikeSQL, {[r EXCEPT !.us = Never]}, q) = ~lk)

\* ------------------------------------------------------------------ pools used by the configurations (cfg: X <- Pool)
NoSeqs == {}
NoList == <<>>
\* quick / exhaustive emission: 2 * 6 * 2 * 4 = 96 raw rules
DbPatsA == { <<"%">>, <<"a">> }
BrPatsA == { <<"%">>, <<"a">>, <<"a", "%">>, <<"_">>, <<"\\", "_">>, <<"A'", "%", "%">> }
BrPatsA5 == { <<"%">>, <<"a">>, <<"a", "%">>, <<"_">>, <<"\\", "_">> }
UsPatsA == { <<"%">>, <<"a">> }
HoPatsA == { <<"%">>, <<>>, <<"a">>, <<"a", "%">> }
ReqDbA == << <<"a">>, <<"b">> >>
ReqBrA == << <<>>, <<"a">>, <<"A'">>, <<"a", "b">>, <<"_">>, <<"b">> >>
ReqUsA == << <<"a">>, <<"A">> >>
ReqHoA == << <<>>, <<"a">>, <<"a", "b">>, <<"b">> >>
PermsA == { {"write"}, {"merge"}, {"admin"} }
PermsA2 == { {"write"}, {"merge"} }
\* pools "C": tables of three rules
DbPatsC == { <<"a">> }
BrPatsC == { <<"%">>, <<"a">>, <<"a", "%">>, <<"_">>, <<"\\", "_">> }
ReqDbC == << <<"a">> >>
\* larger pools (simulation)
DbPatsB == { <<"%">>, <<"a">>, <<"A", "%">>, <<"_">>, <<>> }
BrPatsB == { <<"%">>, <<>>, <<"a">>, <<"a", "%">>, <<"%", "a">>, <<"a", "_">>, <<"_">>, <<"_", "%">>, <<"%", "_">>, <<"\\", "_">>,
             <<"\\", "%">>, <<"a", "\\", "_", "b">>, <<"a", "_", "b">>, <<"A'">>, <<"a'", "%", "%">>, <<"a", "b">>, <<"%", "b">>,
             <<"a", "%", "b">>, <<"\\", "\\">>, <<"\\", "a">>, <<"%", "%", "_">> }
UsPatsB == { <<"%">>, <<"a">>, <<"A">>, <<"a'">>, <<"_">>, <<"a", "%">>, <<>> }
HoPatsB == { <<"%">>, <<>>, <<"a">>, <<"a", "%">>, <<"_">>, <<"a", "b">>, <<"a", "b", "%">>, <<"%", "b">>, <<"A'">>, <<"_", "%">> }
ReqDbB == << <<"a">>, <<>> >>
ReqBrB == << <<>>, <<"a">>, <<"A'">>, <<"a", "b">>, <<"a", "a", "b">>, <<"_">>, <<"a", "_", "b">>, <<"b">> >>
ReqUsB == << <<"a">>, <<"A">> >>
ReqHoB == << <<>>, <<"a">>, <<"a", "b">>, <<"b">> >>
PermsB == { {"write"}, {"merge"}, {"admin"}, {"read"}, {}, {"merge", "write"} }
\* tiny pools for the history check (ops is part of the state)
DbPatsH == { <<"%">> }
BrPatsH == { <<"a">>, <<"A'">>, <<"a", "%">>, <<"a", "%", "%">> }
UsPatsH == { <<"a">>, <<"A">> }
HoPatsH == { <<"%">> }
PermsH == { {"write"}, {"admin"} }
ReqOne == << <<"a">> >>
=============================================================================
