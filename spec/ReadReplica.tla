--------------------------- MODULE ReadReplica ---------------------------
(* A read replica of the remote that PushOnWrite.tla's primary replicates to (system variable
   dolt_read_replica_remote), statement-granular:
     go/libraries/doltcore/sqle/dsess/session.go          (DoltSession.StartTransaction: PullFromRemote for every
                                                            RemoteReadReplicaDatabase; dolt_skip_replication_errors)
     go/libraries/doltcore/sqle/read_replica_database.go   (PullFromRemote, pullBranches, pullLocalBranch,
                                                            createNewBranchFromRemote, refsToDelete, deleteBranches)

   Every statement of a replica session starts a transaction, which first pulls:
     * dolt_replicate_all_heads = 1: every remote branch and tag, in the order of their ref strings; local branches
       and tags that the remote does not have are deleted afterwards;
     * dolt_replicate_heads = list: only the listed branches (an entry the remote lacks is an error before anything
       is pulled); nothing is deleted, tags are not pulled;
     * a branch that exists locally with another head: dolt_read_replica_force_pull = 1 sets it, otherwise it is
       fast-forwarded - when that is impossible the pull stops AT THAT REF with an error (refs before it stay pulled);
     * an existing local tag is never moved;
     * an error fails the statement, or is only logged when dolt_skip_replication_errors = 1.

   Property (C45, read replica clause): ReplicaHeadsWereRemoteHeads - every branch head and tag a replica session
   can see is a value the remote had for that ref at some time. *)
EXTENDS PushOnWrite

VARIABLES rep,       \* [Refs -> commit | Absent]  refs of the replica
          mode,      \* "all" | "heads"
          hlist,     \* sequence of branch names (dolt_replicate_heads) when mode = "heads"
          force,     \* dolt_read_replica_force_pull
          skip       \* dolt_skip_replication_errors

rvars == <<rep, mode, hlist, force, skip>>
allv == <<pvars, rvars, hist>>

HeadLists == {<<"main">>} \cup {<<"main", b>> : b \in Branches}
\* the replica configurations the model walks through: <<mode, heads, force, skip>>
ReplicaCfgs == {<<"all", <<"main">>, TRUE, FALSE>>, <<"all", <<"main">>, FALSE, FALSE>>, <<"all", <<"main">>, FALSE, TRUE>>,
                <<"heads", <<"main">>, TRUE, FALSE>>}
               \cup {<<"heads", <<"main", b>>, FALSE, FALSE>> : b \in Branches}
               \cup {<<"heads", <<"main", b>>, TRUE, TRUE>> : b \in Branches}

RECURSIVE IsAnc(_, _)
IsAnc(a, c) == IF c = Absent THEN FALSE ELSE IF a = c THEN TRUE ELSE IsAnc(a, parent[c])

\* ref strings in the order pullBranches walks them (sort.Slice on Ref.String()).  TLC has no order on strings, so
\* the order of the refs this model may use is listed explicitly (Branches \subseteq {b1, b2, z1}, Tags \subseteq {t1, t2});
\* b1/b2 sort before main, z1 after it: refsToDelete is a sorted two-pointer merge whose TAIL handles local refs that sort after
\* every remaining remote ref.
RefOrder == <<"b:b1", "b:b2", "b:main", "b:z1", "t:t1", "t:t2">>
PosRef(r) == CHOOSE i \in 1..Len(RefOrder) : RefOrder[i] = r
RECURSIVE SortRefs(_)
SortRefs(S) == IF S = {} THEN <<>>
               ELSE LET m == CHOOSE x \in S : \A y \in S : PosRef(x) <= PosRef(y)
                    IN <<m>> \o SortRefs(S \ {m})

IsBranchRef(r) == \E b \in AllBranches : r = BRef(b)

\* pull one ref; returns <<new rep, ok>>
PullRef(rp, r) ==
  IF rp[r] = Absent THEN <<[rp EXCEPT ![r] = remote[r]], TRUE>>           \* createNewBranchFromRemote / SetHead of a tag
  ELSE IF ~IsBranchRef(r) \/ rp[r] = remote[r] THEN <<rp, TRUE>>          \* existing tag / up to date
  ELSE IF force THEN <<[rp EXCEPT ![r] = remote[r]], TRUE>>               \* SetHead
  ELSE IF IsAnc(rp[r], remote[r]) THEN <<[rp EXCEPT ![r] = remote[r]], TRUE>>   \* FastForwardToHash
  ELSE <<rp, FALSE>>                                                     \* "dataset head is not ancestor of commit"

RECURSIVE PullSeq(_, _)
PullSeq(rp, s) == IF s = <<>> THEN <<rp, TRUE>>
                  ELSE LET one == PullRef(rp, s[1]) IN
                       IF one[2] THEN PullSeq(one[1], Tail(s)) ELSE <<one[1], FALSE>>

SeqToSet(s) == {s[i] : i \in 1..Len(s)}

\* PullFromRemote: returns <<new rep, ok>>
PullResult ==
  IF mode = "all"
  THEN LET todo == SortRefs({r \in Refs : remote[r] # Absent})
           p == PullSeq(rep, todo)
       IN IF p[2] THEN <<[r \in Refs |-> IF remote[r] = Absent THEN Absent ELSE p[1][r]], TRUE>>   \* deleteBranches
          ELSE p
  ELSE LET want == {BRef(b) : b \in SeqToSet(hlist)}
       IN IF \E r \in want : remote[r] = Absent THEN <<rep, FALSE>>      \* "unable to find ... branch not found"
          ELSE PullSeq(rep, SortRefs(want))

\* any statement of a replica session (here: select from dolt_branches / dolt_tags), remote reachable
ReplicaRead ==
  /\ up
  /\ rep' = PullResult[1]
  /\ UNCHANGED <<pvars, mode, hlist, force, skip>>

SetReplicaCfg(m, hl, f, s) ==
  /\ <<m, hl, f, s>> # <<mode, hlist, force, skip>>
  /\ mode' = m /\ hlist' = hl /\ force' = f /\ skip' = s
  /\ UNCHANGED <<pvars, rep>>

RInit == /\ PInit /\ rep = [r \in Refs |-> IF r = BRef("main") THEN 0 ELSE Absent]
         /\ mode = "all" /\ hlist = <<"main">> /\ force = TRUE /\ skip = FALSE /\ hist = <<>>

Join(s) == IF Len(s) = 1 THEN s[1] ELSE s[1] \o "," \o s[2]

\* projection after a replica statement: the statement fails on a pull error unless errors are skipped; when it
\* succeeds the session sees rep'
\* the pull removes a ref that sorts after every ref the remote still has (the tail of the merge in refsToDelete)
TailDelete(pr) == mode = "all" /\ pr[2] /\ \E r \in Refs : /\ rep[r] # Absent /\ remote[r] = Absent
                                                       /\ \A q \in Refs : remote[q] # Absent => PosRef(q) < PosRef(r)
\* ... or one that sorts before a surviving remote ref (decided inside the merge loop)
HeadDelete(pr) == mode = "all" /\ pr[2] /\ \E r \in Refs : /\ rep[r] # Absent /\ remote[r] = Absent
                                                       /\ \E q \in Refs : remote[q] # Absent /\ PosRef(q) > PosRef(r)
RProj(pr) ==
  IF pr[2] THEN [res |-> "ok", warned |-> FALSE, rep |-> Heads(pr[1]), tail |-> TailDelete(pr), head |-> HeadDelete(pr)]
  ELSE IF skip THEN [res |-> "ok", warned |-> TRUE, rep |-> Heads(pr[1])]
  ELSE [res |-> "err", warned |-> FALSE]

Rec(a, args, e) == IF RecordHist THEN Append(hist, [a |-> a, args |-> args, exp |-> e]) ELSE hist

Next ==
  \/ \E l \in PLabels : /\ PStep(l) /\ UNCHANGED rvars
                        /\ hist' = Rec(l.a, l, PProj(l, local', remote', up'))
  \/ /\ ReplicaRead /\ hist' = Rec("ReplicaRead", [a |-> "ReplicaRead"], RProj(PullResult))
  \/ \E c \in ReplicaCfgs :
        /\ SetReplicaCfg(c[1], c[2], c[3], c[4])
        /\ hist' = Rec("SetReplicaCfg", [a |-> "SetReplicaCfg", mode |-> c[1], heads |-> Join(c[2]), force |-> c[3], skip |-> c[4]],
                       [res |-> "ok", warned |-> FALSE])

\* simulation: TLC's simulator first picks one disjunct of the next-state relation, then a successor of it; one
\* disjunct per kind of statement (commits twice) keeps the mix of the generated behaviours balanced
PKind(k) == \E l \in {x \in PLabels : x.a = k} :
              /\ PStep(l) /\ UNCHANGED rvars
              /\ hist' = Rec(l.a, l, PProj(l, local', remote', up'))
RRead == /\ ReplicaRead /\ hist' = Rec("ReplicaRead", [a |-> "ReplicaRead"], RProj(PullResult))
SimNext ==
  \/ PKind("Commit") \/ PKind("Commit") \/ PKind("Commit") \/ PKind("WsWrite") \/ PKind("CreateBranch") \/ PKind("DeleteBranch")
  \/ PKind("Tag") \/ PKind("Reset") \/ PKind("Reset") \/ PKind("SetCfg") \/ PKind("RemoteDown") \/ PKind("RemoteUp") \/ PKind("RemoteUp")
  \/ RRead \/ RRead \/ RRead \/ RRead
  \/ \E c \in {RandomElement(ReplicaCfgs)} :
        /\ SetReplicaCfg(c[1], c[2], c[3], c[4])
        /\ hist' = Rec("SetReplicaCfg", [a |-> "SetReplicaCfg", mode |-> c[1], heads |-> Join(c[2]), force |-> c[3], skip |-> c[4]],
                       [res |-> "ok", warned |-> FALSE])

Spec == RInit /\ [][Next]_allv
view == <<pvars, rvars>>

\* ------------------------------------------------------------------ properties
ReplicaHeadsWereRemoteHeads == \A r \in Refs : rep[r] = Absent \/ rep[r] \in remoteHad[r]

\* a ref deleted on the remote is gone from the replica after the next successful all-heads pull
DeletedOnRemoteGoneAfterPull == (mode = "all" /\ PullResult[2]) => \A r \in Refs : remote[r] = Absent => PullResult[1][r] = Absent
\* and after such a pull with force the replica's branches are exactly the remote's
FullPullEqualsRemote == (mode = "all" /\ force /\ PullResult[2]) => \A r \in Refs : IsBranchRef(r) => PullResult[1][r] = remote[r]

ASSUME \A r \in Refs : \E i \in 1..Len(RefOrder) : RefOrder[i] = r
Emit == Len(hist) < D \/ PrintT(ToJson(hist))
\* generator constraint: only behaviours on which the code and the repaired push hook agree (never the stale destination)
EmitAgreed == ~staleDestUsed /\ (Len(hist) < D \/ PrintT(ToJson(hist)))
\* generator constraint of the asynchronous push mode (dolt_async_replication = 1): the driver waits at a flush barrier after
\* every statement, which needs a valid, reachable remote; with the barrier the asynchronous pusher must give exactly the
\* remote refs the synchronous hook gives
EmitAsync == cfg = "good" /\ up /\ EmitAgreed
=============================================================================
