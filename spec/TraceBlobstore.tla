--------------------------- MODULE TraceBlobstore ---------------------------
(* Trace validation (mode T) for the manifest register of Blobstore.tla.

   Real, ungated clients - goroutines sharing one blobstore object, several blobstore objects on one directory / one git
   remote, separate OS processes on one directory - run the protocol of nbs.updateBSWithChecker
       (ver, contents) := Get(manifest) ;  CheckAndPutManifest(ver, fresh contents)
   and log one line when a call is invoked and one when it returns, through one O_APPEND file (pipe for processes), so the
   file order is a total order consistent with real time.  Nothing inside a call is logged: TLC searches for a
   linearization point of every call between its two lines (TLin).  Versions and contents are interned by the engine to
   integers in first-seen order (0 = the manifest does not exist).
     {"ev":"call","p":proc,"op":"read"}                      {"ev":"ret","p":proc,"ver":v,"con":c}
     {"ev":"call","p":proc,"op":"cas","exp":v,"con":c}       {"ev":"ret","p":proc,"ok":1,"ver":new} | {"ev":"ret","p":proc,"ok":0,"actual":v}
     {"ev":"reset"}                                          next trace of the batch (fresh store)
   The engine copies the fields of the "ret" line into the "call" line as res (the log is validated offline), so that
   the linearization step can install the version the implementation chose.
   A trace is accepted iff every line is consumed; the high-water mark is printed as TRACE_MATCHED <n>. *)
EXTENDS Integers, Sequences, FiniteSets, TLC, TLCExt, Json

CONSTANTS Procs, VersionMode

VARIABLES l,       \* next line
          mver, mcon,
          pend,    \* [Procs -> pending call record or NoCall]
          lin,     \* [Procs -> the pending call has taken effect]
          wins     \* expected versions of the successful conditional writes so far

tvars == <<l, mver, mcon, pend, lin, wins>>
tview == <<l, mver, mcon, pend, lin>>

TraceLog == ndJsonDeserialize("trace.ndjson")
N == Len(TraceLog)
NoCall == [op |-> "none"]
Mark == IF l > TLCGet(1) THEN TLCSet(1, l) /\ PrintT("TRACE_MATCHED " \o ToString(l)) ELSE TRUE

TInit == /\ l = 1 /\ mver = 0 /\ mcon = 0
         /\ pend = [p \in Procs |-> NoCall] /\ lin = [p \in Procs |-> FALSE] /\ wins = {}
         /\ TLCSet(1, 0)

TCall(p) == /\ l <= N /\ TraceLog[l].ev = "call" /\ TraceLog[l].p = p
            /\ pend[p] = NoCall
            /\ pend' = [pend EXCEPT ![p] = TraceLog[l]] /\ lin' = [lin EXCEPT ![p] = FALSE]
            /\ l' = l + 1 /\ Mark
            /\ UNCHANGED <<mver, mcon, wins>>

\* the call takes effect atomically, with the result the implementation reported
TLin(p) ==
    /\ pend[p] # NoCall /\ ~lin[p]
    /\ LET e == pend[p] IN
       \/ /\ e.op = "read"                                   \* Get(manifest): version and contents of one instant
          /\ e.res.ver = mver /\ e.res.con = mcon
          /\ UNCHANGED <<mver, mcon, wins>>
       \/ /\ e.op = "cas" /\ e.res.ok = 1                    \* succeeds only when the stored version equals the expected one
          /\ e.exp = mver
          /\ (VersionMode = "unique" => e.res.ver # mver /\ e.exp \notin wins)
          /\ mver' = e.res.ver /\ mcon' = e.con /\ wins' = wins \cup {e.exp}
       \/ /\ e.op = "cas" /\ e.res.ok = 0                    \* fails only when it differs, and reports the stored one
          /\ e.exp # mver /\ e.res.actual = mver
          /\ UNCHANGED <<mver, mcon, wins>>
    /\ lin' = [lin EXCEPT ![p] = TRUE]
    /\ UNCHANGED <<l, pend>>

TRet(p) == /\ l <= N /\ TraceLog[l].ev = "ret" /\ TraceLog[l].p = p
           /\ pend[p] # NoCall /\ lin[p]
           /\ pend' = [pend EXCEPT ![p] = NoCall]
           /\ l' = l + 1 /\ Mark
           /\ UNCHANGED <<mver, mcon, lin, wins>>

TReset == /\ l <= N /\ TraceLog[l].ev = "reset"
          /\ \A p \in Procs : pend[p] = NoCall
          /\ mver' = 0 /\ mcon' = 0 /\ wins' = {} /\ lin' = [p \in Procs |-> FALSE]
          /\ l' = l + 1 /\ Mark
          /\ UNCHANGED pend

TNext == \/ \E p \in Procs : TCall(p) \/ TLin(p) \/ TRet(p)
         \/ TReset

\* on the accepted prefix: at most one winner per version (the model-level statement of AtMostOneWinnerPerVersion)
TraceOK == TRUE
=============================================================================
