--------------------------- MODULE TraceAutoInc ---------------------------
(* Trace validation for AutoInc.tla (binding mode T).  Goroutines insert concurrently (through SQL sessions on several
   branches, or by calling SequenceTracker.Next directly) and log call / ret events ordered by one global atomic counter.
   Accepted iff every call can be linearized between its call and its return so that the SEQUENTIAL tracker semantics
   (GenNext / ExplNext of AutoInc.tla) hands out exactly the logged values: hence values are unique, and every generated
   value is greater than every value returned before the call began.  The final event carries the persisted ids of every
   branch: they must be exactly the ids of the acknowledged inserts that were committed.

   trace.ndjson: {"ev":"reset"}
                 {"ev":"call","s":..,"a":"InsertGen"|"InsertExplicit","t":..,"n":..,"b":..,"persist":true|false,"ri":n}
                 {"ev":"ret","s":..,"res":"ok"|"dup","id":..}   {"ev":"final","store":{..}} *)
EXTENDS AutoInc

VARIABLES i, pend

TraceLog == ndJsonDeserialize("trace.ndjson")
N == Len(TraceLog)
ASSUME TLCSet(42, 0)

NoPend == [st |-> "none"]
Quiet == UNCHANGED <<lock, sess, gen, expl, bad, hist>>

TInit == Init /\ i = 1 /\ pend = [s \in Sessions |-> NoPend]
Ev == TraceLog[i]

EvCall == /\ i <= N /\ Ev.ev = "call" /\ pend[Ev.s].st = "none"
          /\ pend' = [pend EXCEPT ![Ev.s] = [st |-> "called", e |-> Ev]]
          /\ i' = i + 1 /\ UNCHANGED <<seq, store>> /\ Quiet

\* ri = position of the matching "ret" event in the log (filled in mechanically from the log itself)
RetOf(s) == TraceLog[pend[s].e.ri]

\* linearization point of SequenceTracker.Next inside the call of s (the lookahead at the logged result prunes the search)
Lin(s) == /\ i <= N /\ pend[s].st = "called"
          /\ LET c == pend[s].e
                 e == RetOf(s)
                 r == IF c.a = "InsertGen" THEN GenNext(seq[c.t]) ELSE ExplNext(seq[c.t], c.n)
             IN /\ e.ev = "ret" /\ e.s = s
                /\ e.res = "ok" => r.id = e.id
                /\ seq' = [seq EXCEPT ![c.t] = r.next]
                /\ store' = IF c.persist /\ e.res = "ok" THEN [store EXCEPT ![c.b][c.t] = @ \cup {r.id}] ELSE store
          /\ pend' = [pend EXCEPT ![s].st = "done"]
          /\ i' = i /\ Quiet

EvRet == /\ i <= N /\ Ev.ev = "ret" /\ pend[Ev.s].st = "done"
         /\ pend' = [pend EXCEPT ![Ev.s] = NoPend]
         /\ i' = i + 1 /\ UNCHANGED <<seq, store>> /\ Quiet

EvFinal == /\ i <= N /\ Ev.ev = "final" /\ \A s \in Sessions : pend[s].st = "none"
           /\ StoreProj(store) = Ev.store
           /\ i' = i + 1 /\ UNCHANGED <<seq, store, pend>> /\ Quiet

EvReset == /\ i <= N /\ Ev.ev = "reset" /\ \A s \in Sessions : pend[s].st = "none"
           /\ seq' = [t \in Tables |-> 1] /\ store' = NilStore
           /\ i' = i + 1 /\ UNCHANGED pend /\ Quiet

TNext == EvCall \/ EvRet \/ EvFinal \/ EvReset \/ \E s \in Sessions : Lin(s)

HW == TLCSet(42, IF i - 1 > TLCGet(42) THEN i - 1 ELSE TLCGet(42))
Post == PrintT("TRACE_MATCHED " \o ToString(TLCGet(42)))
=============================================================================
