------------------------------- MODULE RepoGC -------------------------------
(* Garbage collection as seen from the repository (properties C08 and C09): Repo.tla (builder bI) extended by

     GC(s, mode)     call dolt_gc(...) issued by session s -- a STUTTERING step of the abstract repository: every
                     branch, tag, working set (with its merge / cherry-pick / revert state and conflicts), stash and
                     commit is exactly what it was (dprocedures/dolt_gc.go doDoltGC, doltdb.DoltDB.GC);
     Reopen(s)       the process ends and the database directory is opened again: also a stuttering step (sessions
                     come back on the branch they were on -- the engine re-issues their checkout);

   and by a second history track ghist, parallel to hist: for the composite step Rebase (Repo.tla runs
   dolt_rebase('-i'), the plan edit and dolt_rebase('--continue') / '--abort' as one step) it names the collection, if
   any, that the engine runs WHILE the rebase is in progress (rebase state in the working set, the dolt_rebase_<branch>
   branch, the dolt_rebase plan table) -- chosen by TLC, like every other point at which a collection happens.

   The collector itself is specified in GC.tla; what this module contributes to C08 is the statement "GC changes
   nothing" on the repository machine (GCIsStutter) and the generator of repository histories with collections at
   arbitrary points; to C09 the repositories on which the walker/loader comparison runs and the list of optional
   fields those histories populate (Populates). *)
EXTENDS Repo

CONSTANTS GCModes      \* e.g. {"default", "full", "shallow", "arch0", "full-arch0"}

VARIABLES ghist,       \* sequence of strings, Len(ghist) = Len(hist): "" or the mode of a collection inside the step
          dead         \* commits that were unreachable when a collection ran: they may be gone (or not: the old generation
                       \* keeps what it has) -- the histories never name them again

gvars == <<vars, ghist, dead>>

\* what a collection must keep: the history of every branch, tag, stash and of a commit being merged / picked / reverted
Reach == UNION {AncSet(head[b]) : b \in {x \in Branches : Exists(x)}}
         \cup UNION {AncSet(tags[n]) : n \in {x \in TagNames : tags[x] # 0}}
         \cup UNION {AncSet(stashes[i].head) : i \in 1..Len(stashes)}
         \cup UNION {AncSet(ws[b].mcommit) : b \in {x \in Branches : Exists(x) /\ ws[x].mcommit # 0}}
\* the commits a step names
Named(st) == IF st.a \in {"Branch", "Tag", "ResetHard", "ResetSoft", "ResetMixed", "CherryPick", "Revert"} THEN {st.args.c}
             ELSE IF st.a = "Rebase" THEN {st.args.up} ELSE {}

NoteFor(h, m) == IF Len(h) > 0 /\ h[Len(h)].a = "Rebase" THEN m ELSE ""
Track(m) == ghist' = IF RecordHist THEN Append(ghist, NoteFor(hist', m)) ELSE ghist

\* draws of this module come from the state and the step number (TLC's RandomElement repeats the same sequence of draws
\* in every behaviour)
MixG(salt) == Len(hist) * 7919 + NCommits * 131 + Len(stashes) * 31 + Cardinality({b \in Branches : Exists(b)}) * 17
              + Cardinality({b \in Branches : ws[b].mkind # "none"}) * 13 + salt * 97 + salt * salt * 13
RECURSIVE NthOfG(_, _)
NthOfG(S, n) == LET x == CHOOSE y \in S : TRUE IN IF n <= 1 THEN x ELSE NthOfG(S \ {x}, n - 1)
PickG(S, salt) == IF RecordHist THEN {NthOfG(S, (MixG(salt) % Cardinality(S)) + 1)} ELSE S

GC(s, mode) ==
    /\ On("GC")
    /\ Unchanged
    /\ Rec(Step("GC", s, [mode |-> mode], "ok", NoQ))
    /\ Track("")
    /\ dead' = IF mode = "shallow" THEN dead ELSE dead \cup (Cids \ Reach)
Reopen(s) ==
    /\ On("Reopen") /\ (RecordHist => MixG(2) % 4 = 0)
    /\ Unchanged
    /\ Rec(Step("Reopen", s, <<>>, "ok", NoQ))
    /\ Track("") /\ UNCHANGED dead

MidChoice == IF RecordHist THEN PickG(GCModes \cup {""}, 1) ELSE {""}

InitG == Init /\ ghist = <<>> /\ dead = {}
NextG ==
    \/ (Next /\ Named(last') \cap dead = {} /\ (\E m \in MidChoice : Track(m))
        \* a collection inside the rebase sees the rebase branch and its state, but commits that only the OLD head reached ...
        /\ dead' = dead)
    \/ \E s \in PickG(Sessions, 3) : \E mode \in PickG(GCModes, 4) : GC(s, mode)
    \/ \E s \in PickG(Sessions, 5) : Reopen(s)
SpecG == InitG /\ [][NextG]_gvars

\* C08 on the repository machine: a collection (and a reopen) is invisible
GCIsStutter == [][(last'.a \in {"GC", "Reopen"}) => Holds(UNCHANGED view)]_gvars

\* C09: which action populates which optional address field of which object kind (the engine's coverage table lists the
\* same pairs and is inconclusive when a required one never was non-empty). Documentation operator, not evaluated.
Populates ==
    [Merge       |-> {"workingset.merge_state.pre_working_root_addr", "workingset.merge_state.from_commit_addr",
                      "table.conflicts", "table.artifacts", "commit.parents[2]"},
     CherryPick  |-> {"workingset.merge_state (is_cherry_pick)", "workingset.merge_state.pre_merge_head_commit_addr", "table.artifacts"},
     Revert      |-> {"workingset.merge_state (is_revert)", "table.artifacts"},
     Rebase      |-> {"workingset.rebase_state.pre_working_root_addr", "workingset.rebase_state.onto_commit_addr"},
     StashPush   |-> {"stashlist.address_map", "stash.stash_root_addr", "stash.head_commit_addr"},
     Tag         |-> {"tag.commit_addr"},
     Commit      |-> {"commit.root", "commit.parents[1]", "commit.parent_closure"},
     Add         |-> {"workingset.staged_root_addr"},
     CreateTable |-> {"rootvalue.tables", "table.schema", "table.primary_index"},
     AddColumn   |-> {"table.schema (second version)"}]

EmitG == Len(hist) < D \/ PrintT(ToJson([steps |-> hist, mid |-> ghist]))
viewG == <<view, dead>>
=============================================================================
