------------------------------- MODULE RefNames -------------------------------
(* Names and revision specs (C44):

     go/store/datas/dataset.go                      ValidateDatasetId / validateDatasetIdComponent
     go/libraries/doltcore/ref/branchname.go        InvalidBranchNameRegex, IsValidBranchName
     go/libraries/doltcore/ref/tag_ref.go           InvalidTagNameRegex, IsValidTagName
     go/libraries/doltcore/doltdb/commit_spec.go    IsValidUserBranchName, IsValidTagRef, IsValidCommitHash, NewCommitSpec
     go/libraries/doltcore/doltdb/ancestor_spec.go  SplitAncestorSpec, NewAncestorSpec (parser: AncestorSpec.tla)

   A string is a sequence of *characters*; a character is either a literal one-character string or the NAME OF A
   CHARACTER CLASS whose members the code cannot tell apart (the engine binds a class to a concrete member,
   a different one per run):
       LET       letter that is not a commit-hash character (w-z, upper case)        HEX  hash letter (a-v)
       OKP       punctuation that git/dolt allow ( ! " # $ % & ' ( ) + , ; < = > ] _ ` | } )
       BAD       one of  : ? [ \ *                SP  space         TAB  tab
       WSCTRL    a control character that unicode.IsSpace accepts (\n \v \f \r)
       CTRL      any other ASCII control character (0x00-0x08, 0x0e-0x1f)          DEL  0x7f
       NONASCII  a non-ASCII rune that is not white space (also an invalid UTF-8 byte)
       UWS       non-ASCII white space (U+0085, U+00A0, U+2003, ...)
   The strings are enumerated over *symbols*; a symbol is a character or one of the multi-character tokens the
   rules mention (HEAD in three spellings, ".lock", a 32-character hash, a 31-character almost-hash).

   The validators are specified twice: operationally (a transcription of the scanning code) and declaratively (the
   documented rules); TLC checks on every enumerated string that the two agree, and prints the verdicts, which the
   engine compares with the real functions. *)
EXTENDS Integers, Sequences, FiniteSets, TLC, Json, AncestorSpec

CONSTANTS Syms,      \* symbols the strings are built from
          MaxLen,    \* longest symbol string
          EmitAll    \* TRUE: print the verdict record of every string

VARIABLE s           \* the symbol string (the state space IS the set of strings)

Expand(y) == CASE y = "HEAD" -> <<"H", "E", "A", "D">>
               [] y = "head" -> <<"h", "e", "a", "d">>
               [] y = "HeAd" -> <<"H", "e", "A", "d">>
               [] y = ".lock" -> <<".", "l", "o", "c", "k">>
               [] y = "H32" -> [i \in 1..32 |-> "HEX"]
               [] y = "H31" -> [i \in 1..31 |-> "HEX"]
               [] OTHER -> <<y>>
RECURSIVE Flatten(_)
Flatten(ys) == IF ys = <<>> THEN <<>> ELSE Expand(ys[1]) \o Flatten(Tail(ys))

\* ------------------------------------------------------------------ character classes
HashChars == {"HEX", "0", "1", "2", "3", "4", "5", "6", "7", "8", "9", "h", "e", "a", "d", "l", "o", "c", "k"}   \* [0-9a-v]
NonAscii(ch) == ch \in {"NONASCII", "UWS"}
IsSpace(ch) == ch \in {"SP", "TAB", "WSCTRL", "UWS"}                    \* unicode.IsSpace
\* refnameActions (dataset.go:88): 4 = illegal, 1 = '/', 2 = '.', 3 = '{', 0 = acceptable
Act(ch) == CASE ch \in {"CTRL", "WSCTRL", "TAB", "DEL", "SP", "BAD", "^", "~"} -> 4
             [] ch = "/" -> 1
             [] ch = "." -> 2
             [] ch = "{" -> 3
             [] OTHER -> 0
DotLock == <<".", "l", "o", "c", "k">>
EndsWith(cs, suf) == Len(cs) >= Len(suf) /\ SubSeq(cs, Len(cs) - Len(suf) + 1, Len(cs)) = suf
HasSub(cs, sub) == \E i \in 1..(Len(cs) - Len(sub) + 1) : SubSeq(cs, i, i + Len(sub) - 1) = sub

\* ------------------------------------------------------------------ ValidateDatasetId, operationally
\* validateDatasetIdComponent on the suffix of cs that starts at st; k characters consumed; returns the component
\* length (including the terminating '/') or -1
RECURSIVE CompScan(_, _, _, _)
CompScan(cs, st, k, last) ==
    IF st + k > Len(cs)
    THEN (IF EndsWith(SubSeq(cs, st, st + k - 1), DotLock) THEN -1 ELSE k)
    ELSE LET ch == cs[st + k] IN
         IF NonAscii(ch) THEN -1
         ELSE CASE Act(ch) = 0 -> CompScan(cs, st, k + 1, ch)
                [] Act(ch) = 1 -> IF EndsWith(SubSeq(cs, st, st + k - 1), DotLock) THEN -1 ELSE k + 1
                [] Act(ch) = 2 -> IF last = "." THEN -1 ELSE CompScan(cs, st, k + 1, ch)
                [] Act(ch) = 3 -> IF last = "@" THEN -1 ELSE CompScan(cs, st, k + 1, ch)
                [] OTHER -> -1
Component(cs, st) == IF cs[st] = "." THEN -1 ELSE CompScan(cs, st, 0, "")
RECURSIVE ComponentLoop(_, _)
ComponentLoop(cs, st) == IF st > Len(cs) THEN TRUE
                         ELSE LET n == Component(cs, st) IN IF n = -1 THEN FALSE ELSE ComponentLoop(cs, st + n)
ValidDatasetId(cs) == /\ cs # <<>>
                      /\ cs # <<"@">>
                      /\ cs[Len(cs)] \notin {"/", "."}
                      /\ ComponentLoop(cs, 1)

\* ------------------------------------------------------------------ ValidateDatasetId, as documented (dataset.go:99-109 + :52-63)
DocDatasetId(cs) ==
    /\ cs # <<>> /\ cs # <<"@">>
    /\ cs[Len(cs)] # "/"                                                  \* ends with "/"
    /\ cs[Len(cs)] # "."                                                  \* (git: cannot end with a dot)
    /\ \A i \in 1..Len(cs) : ~NonAscii(cs[i]) /\ Act(cs[i]) # 4            \* ascii only; no control, : ? [ \ ^ ~ * SP TAB
    /\ ~HasSub(cs, <<".", ".">>)                                         \* double dots
    /\ ~HasSub(cs, <<"@", "{">>)                                         \* "@{"
    /\ \A i \in 1..Len(cs) : cs[i] = "." => (i > 1 /\ cs[i - 1] # "/")    \* a component begins with "."
    /\ ~EndsWith(cs, DotLock) /\ ~HasSub(cs, DotLock \o <<"/">>)          \* a component ends with ".lock"

\* ------------------------------------------------------------------ branch and tag names
IsHash32(cs) == Len(cs) = 32 /\ \A i \in 1..32 : cs[i] \in HashChars     \* ^[0-9a-v]{32}$
HasEmptyComponent(cs) == cs # <<>> /\ (cs[1] = "/" \/ cs[Len(cs)] = "/" \/ HasSub(cs, <<"/", "/">>))
BranchRegexHit(cs) == cs = <<>> \/ cs = <<"H", "E", "A", "D">> \/ cs = <<"-">> \/ IsHash32(cs) \/ HasEmptyComponent(cs)
ValidBranch(cs) == ~BranchRegexHit(cs) /\ ValidDatasetId(cs)              \* ref.IsValidBranchName

TagBadChar(ch) == ch \in {"BAD", "^", "~", "SP", "TAB", "CTRL", "WSCTRL", "DEL"}
TagRegexHit(cs) == \/ \E i \in 1..Len(cs) : TagBadChar(cs[i])
                   \/ EndsWith(cs, DotLock) \/ HasSub(cs, DotLock \o <<"/">>)
                   \/ cs = <<>> \/ cs = <<"H", "E", "A", "D">> \/ cs = <<"-">>
                   \/ IsHash32(cs)
                   \/ HasSub(cs, <<".", ".">>) \/ HasSub(cs, <<"@", "{">>)
                   \/ HasEmptyComponent(cs)
ValidTag(cs) == ~TagRegexHit(cs)                                          \* ref.IsValidTagName

LowerHead == <<"h", "e", "a", "d">>
ValidUserBranch(cs) == cs # LowerHead /\ ~IsHash32(cs) /\ ValidBranch(cs) \* doltdb.IsValidUserBranchName
ValidTagRef(cs) == cs # LowerHead /\ ~IsHash32(cs) /\ ValidTag(cs)        \* doltdb.IsValidTagRef (path part)

\* the rules the property statement lists, for a branch name
DocBranch(cs) == /\ cs # <<>> /\ ~HasEmptyComponent(cs)                   \* no empty components
                 /\ cs # <<"H", "E", "A", "D">> /\ cs # <<"-">>          \* not HEAD (nor "-")
                 /\ ~IsHash32(cs)                                         \* not a commit hash
                 /\ DocDatasetId(cs)                                      \* no "..", no "@{", no control or forbidden character, ...

\* ------------------------------------------------------------------ commit specs
RECURSIVE TrimLeft(_)
TrimLeft(cs) == IF cs # <<>> /\ IsSpace(cs[1]) THEN TrimLeft(Tail(cs)) ELSE cs
RECURSIVE TrimRight(_)
TrimRight(cs) == IF cs # <<>> /\ IsSpace(cs[Len(cs)]) THEN TrimRight(SubSeq(cs, 1, Len(cs) - 1)) ELSE cs
Trim(cs) == TrimRight(TrimLeft(cs))                                       \* strings.TrimSpace
Markers == {"^", "~"}
FirstMarker(cs) == IF \E i \in 1..Len(cs) : cs[i] \in Markers
                   THEN CHOOSE i \in 1..Len(cs) : cs[i] \in Markers /\ \A j \in 1..(i - 1) : cs[j] \notin Markers
                   ELSE 0
FoldsToHead(cs) == Len(cs) = 4 /\ cs[1] \in {"h", "H"} /\ cs[2] \in {"e", "E"} /\ cs[3] \in {"a", "A"} /\ cs[4] \in {"d", "D"}

\* SplitAncestorSpec(str): the name is cut from the TRIMMED string, the ancestor part from the UNTRIMMED one at the
\* index found in the trimmed one (ancestor_spec.go:110-125).  With leading or trailing white space the parser
\* is handed a piece that does not start at the marker / still carries the white space and rejects it - named
\* deviation; NewCommitSpec trims before it calls, so it never sees the deviation.
SplitCode(cs) == LET clean == Trim(cs)
                     i == FirstMarker(clean)
                 IN IF i = 0 THEN [ok |-> TRUE, name |-> clean, ins |-> <<>>]
                    ELSE LET ins == Parse(SubSeq(cs, i, Len(cs))) IN
                         IF ins = ParseErr THEN [ok |-> FALSE, name |-> <<>>, ins |-> <<>>]
                         ELSE [ok |-> TRUE, name |-> SubSeq(clean, 1, i - 1), ins |-> ins]
\* what the documentation of SplitAncestorSpec describes: split the trimmed string
SplitIdeal(cs) == SplitCode(Trim(cs))

\* NewCommitSpec (asp = the ancestor part as written, kept for the end-to-end comparison)
NoSpec == [kind |-> "err", base |-> <<>>, ins |-> <<>>, asp |-> <<>>]
CSpec(cs) == LET t == Trim(cs)
                 sp == SplitCode(t)
                 i == FirstMarker(t)
                 asp == IF i = 0 THEN <<>> ELSE SubSeq(t, i, Len(t))
             IN
             IF ~sp.ok THEN NoSpec
             ELSE IF FoldsToHead(sp.name) THEN [kind |-> "head", base |-> LowerHead, ins |-> sp.ins, asp |-> asp]
             ELSE IF IsHash32(sp.name) THEN [kind |-> "hash", base |-> sp.name, ins |-> sp.ins, asp |-> asp]
             ELSE IF ~ValidBranch(sp.name) THEN NoSpec
             ELSE [kind |-> "ref", base |-> sp.name, ins |-> sp.ins, asp |-> asp]

\* ------------------------------------------------------------------ the state space: all symbol strings
Chars == Flatten(s)
Init == s = <<>>
Next == Len(s) < MaxLen /\ \E y \in Syms : s' = Append(s, y)

\* ------------------------------------------------------------------ what TLC checks on every string
\* (operators take the character sequence and the already computed verdicts so that TLC evaluates each validator once)
Verdicts(cs) == LET ds == ValidDatasetId(cs)
                    br == ~BranchRegexHit(cs) /\ ds
                    tg == ValidTag(cs)
                    hs == IsHash32(cs)
                IN [dsid |-> ds, branch |-> br, tag |-> tg, isHash |-> hs,
                    userBranch |-> (cs # LowerHead /\ ~hs /\ br), tagRef |-> (cs # LowerHead /\ ~hs /\ tg),
                    \* a tag is stored as dataset refs/tags/<name>: creating it succeeds iff that is a valid dataset id as well
                    tagCreate |-> (cs # LowerHead /\ ~hs /\ tg /\ ValidDatasetId(<<"r", "e", "f", "s", "/", "t", "a", "g", "s", "/">> \o cs)),
                    cspec |-> CSpec(cs), split |-> SplitCode(cs)]

OpEqualsDocOf(cs, v) == v.dsid <=> DocDatasetId(cs)
BranchAsDocumentedOf(cs, v) == v.branch <=> DocBranch(cs)
\* tags are checked by a separate, laxer expression: every valid branch name is a valid tag name, and a valid tag name
\* fails as a branch name only for the dataset-id rules the tag expression lacks
TagVersusBranchOf(cs, v) ==
    /\ v.branch => v.tag
    /\ (v.tag /\ ~v.branch) =>
          \/ \E i \in 1..Len(cs) : NonAscii(cs[i])
          \/ \E i \in 1..Len(cs) : cs[i] = "." /\ (i = 1 \/ cs[i - 1] = "/")
          \/ cs[Len(cs)] = "."
          \/ cs = <<"@">>
    /\ v.tagCreate => (v.branch \/ cs = <<"@">>)   \* what can actually be created as a tag obeys the branch rules too ("@" alone excepted)
\* C44, second sentence, on the model: an accepted spec is its separately parsed base name followed by its separately
\* parsed ancestor part
SpecIsBasePlusWalkOf(cs, v) ==
    LET c == v.cspec IN
    c.kind # "err" =>
         LET t == Trim(cs)
             i == FirstMarker(t)
             name == IF i = 0 THEN t ELSE SubSeq(t, 1, i - 1)
             b == CSpec(name)
         IN /\ b.kind = c.kind /\ b.base = c.base /\ b.ins = <<>>
            /\ c.ins = Parse(c.asp)
            /\ name \o c.asp = t
            /\ (c.kind = "ref" => ValidBranch(c.base))
            /\ (c.kind = "hash" => IsHash32(c.base))
\* the deviation of SplitAncestorSpec is confined to strings with leading or trailing white space and an ancestor part,
\* and there it only ever rejects (it never yields a different name or walk)
SplitDeviationOf(cs, v) ==
    LET a == v.split
        b == SplitIdeal(cs)
    IN a # b => /\ cs # <<>> /\ (IsSpace(cs[1]) \/ IsSpace(cs[Len(cs)]))
                /\ FirstMarker(Trim(cs)) # 0
                /\ ~a.ok /\ b.ok

NamesInv == LET cs == Flatten(s)
                v == Verdicts(cs)
            IN /\ OpEqualsDocOf(cs, v)
               /\ BranchAsDocumentedOf(cs, v)
               /\ TagVersusBranchOf(cs, v)
               /\ SpecIsBasePlusWalkOf(cs, v)
               /\ SplitDeviationOf(cs, v)
               /\ (EmitAll => PrintT(ToJson([syms |-> s, chars |-> cs, v |-> v])))
=============================================================================
