------------------------------ MODULE Journal ------------------------------
(* The chunk journal of a journaling NomsBlockStore (go/store/nbs/journal.go, journal_writer.go,
   journal_record.go, journal_index_record.go, journal_chunk_source.go) as one state machine:

     store level    Put (memtable, memtable-full flush), Commit (flush memtable, first-commit manifest flush,
                    commitRootHash, acknowledge), CommitNoop, CommitStale, Close, Open (read-write / read-only)
     writer level   one micro-step per system call of journalWriter: WriteChunk (getBytes -> pwrite when the
                    buffer is full, append, unsyncd accounting, maybe-sync threshold), AppendRoot, Flush (pwrite),
                    Sync (fsync), IndexFlush (flushIndexRecord), ManifestFlush (rename of the manifest), Ack
     faults         Crash(k, part, fill)  the process stops between two micro-steps; the journal keeps k complete
                    records, synced <= k <= written, followed by junk of class part/fill
                    Damage(i)            a record inside the durable region is corrupted
     recovery       RecoverOut transcribes bootstrapJournalWriter: loadJournalIndex/readJournalIndex,
                    processJournalRecords from the indexed offset, possibleDataLossCheck, truncation,
                    root-less fallback to the manifest root, trueUpBackingManifest.

   Offsets are bytes.  A record never straddles two pwrites (getBytes flushes whole buffers), hence `written`
   and `synced` are record counts; Off(..) turns them into byte offsets for the engine.

   C03 is stated by the invariants at the end; C04 (JournalIndex.tla) extends this module with index faults.
   Named deviations of the code from the property (see LEADS.md) are explicit predicates Dev*; the invariants
   hold outside them, and the conformance engine expects the property (not the deviation) inside them. *)
EXTENDS Integers, Sequences, FiniteSets, TLC, Json

CONSTANTS RecSz,            \* <<s1,..,sn>> journal record size (bytes) of chunk i; Chunks == 1..n
          DataSz,           \* <<d1,..,dn>> uncompressed data length of chunk i (memtable accounting)
          RootSz,           \* rootHashRecordSize() = 40
          BufCap,           \* journalWriterBuffSize
          MemCap,           \* memtable capacity in data bytes
          SyncThreshold,    \* journalMaybeSyncThreshold
          MaxNovel,         \* wr.maxNovel as set by the harness on an existing writer
          DefaultMaxNovel,  \* journalIndexDefaultMaxNovel (writer created or bootstrapped inside the operation)
          MaxRecs,          \* bound: records in the journal
          MaxCrashes,       \* bound: Crash actions per behaviour
          MaxOpens,         \* bound: Open actions per behaviour
          ScanMin,          \* possibleDataLossCheck examines a position only if at least ScanMin bytes follow it:
                            \* 8 (smallest valid record) since dolt 748c3d0, rootHashRecordSize() = 40 before (DevTinyTail)
          MaxDamage,        \* bound: Damage actions per behaviour
          D, RecordHist

Chunks == 1..Len(RecSz)
NoRoot == 0                     \* the empty hash

VARIABLES
  st,        \* "open" | "down" (no process; the disk image stands) | "failed" (last open returned ErrJournalDataLoss)
  recs,      \* journal stream: records on disk followed (while open) by the records still in wr.buf
  written,   \* number of records handed to pwrite   (wr.off)
  synced,    \* number of records covered by the last fsync
  tail,      \* junk after the last complete on-disk record (only when not open): [part, fill]
  hasJ,      \* the journal file exists (wr # nil while open)
  unsyncd,   \* wr.unsyncd
  curRoot,   \* wr.currentRoot
  mem,       \* memtable, insertion order
  upRoot,    \* nbs.upstream.root = j.contents.root : what Root() answers
  cspec,     \* j.contents.specs names the journal
  jvis,      \* the journal chunk source is in nbs.tables (reads see journal chunks)
  man,       \* durable manifest file [ex, root, jspec]
  todo,      \* micro-steps left of the operation in progress
  rng,       \* wr.ranges: [Chunks -> {"none","ok","wrong","err","panic"}] what a read through the range map yields
  nov,       \* keys of wr.ranges.novel
  indexed,   \* wr.indexed (byte offset)
  ilog,      \* logical content of journal.idx as seen by the writer: file content ++ bufio buffer
  ifile,     \* on-disk journal.idx: [ex, es]; bufio (16 KiB) never spills in model-sized sessions, so the file
             \* changes only at Open (truncate to the last good batch) and at Close (Flush)
  wrOld,     \* the writer existed when the current operation started (harness has set wr.maxNovel := MaxNovel)
  base,      \* [root, reach, idx] the root the store is committed to: last acknowledged commit or the root shown by
             \* the last open; reach = chunks reachable from it (harness reference encoding: everything present)
  infl,      \* [root, reach] commit in flight (root = NoRoot: none)
  mfl,       \* the manifest was flushed by the commit in flight (first-commit window)
  lastRec,   \* outcome record of the last Open (for the invariants)
  ncrash, nopen, ndamage,
  hist

vars == <<st, recs, written, synced, tail, hasJ, unsyncd, curRoot, mem, upRoot, cspec, jvis, man, todo, rng, nov,
          indexed, ilog, ifile, wrOld, base, infl, mfl, lastRec, ncrash, nopen, ndamage, hist>>
view == <<st, recs, written, synced, tail, hasJ, unsyncd, curRoot, mem, upRoot, cspec, jvis, man, todo, rng, nov,
          indexed, ilog, ifile, wrOld, base, infl, mfl, lastRec, ncrash, nopen, ndamage>>

\* ------------------------------------------------------------------ records and offsets
ChunkRec(c) == [k |-> "c", id |-> c, ok |-> TRUE]
RootRec(r)  == [k |-> "r", id |-> r, ok |-> TRUE]
Sz(rec) == IF rec.k = "r" THEN RootSz ELSE RecSz[rec.id]

RECURSIVE Off(_, _)
Off(s, n) == IF n = 0 THEN 0 ELSE Off(s, n - 1) + Sz(s[n])          \* byte offset of the end of record n
Bytes(s) == Off(s, Len(s))
Buffered == Off(recs, Len(recs)) - Off(recs, written)                \* len(wr.buf)

RECURSIVE SumData(_)
SumData(s) == IF s = <<>> THEN 0 ELSE DataSz[Head(s)] + SumData(Tail(s))

Range(s) == {s[i] : i \in 1..Len(s)}
ChunkIds(s, a, b) == {s[i].id : i \in {j \in a..b : s[j].k = "c"}}
\* index of the last root record in s[a..b], 0 if none
LastRootIdx(s, a, b) == LET R == {i \in a..b : s[i].k = "r"} IN IF R = {} THEN 0 ELSE CHOOSE i \in R : \A j \in R : j <= i

NoTail == [part |-> "none", fill |-> "none"]
NoneRng == [c \in Chunks |-> "none"]
NoInfl == [root |-> NoRoot, reach |-> {}]

\* ------------------------------------------------------------------ journal.idx
\* lookup  [t |-> "L", c, r, ri]   r = what reading through this range yields ("ok" unless a fault of JournalIndex.tla changed it)
\* meta    [t |-> "M", s, e, root, crc]  s,e byte offsets; crc = the batch's address sequence (the CRC covers addresses only)
\* junk    [t |-> "X"] unknown tag / unparsable,  [t |-> "P"] a record cut short by end of file
Lk(c, ri) == [t |-> "L", c |-> c, r |-> "ok", ri |-> ri]      \* ri: the journal record the range points into
Mt(s, e, r, crc) == [t |-> "M", s |-> s, e |-> e, root |-> r, crc |-> crc]

\* addresses of the lookups since the last meta of an index stream (wr.batchCrc)
RECURSIVE BatchOf(_)
BatchOf(es) == IF es = <<>> \/ es[Len(es)].t # "L" THEN <<>>
               ELSE Append(BatchOf(SubSeq(es, 1, Len(es) - 1)), es[Len(es)].c)

\* peekRootHashAt(journal, off) = root : a complete, undamaged root record starts at byte `off` of the on-disk journal
RootAt(ds, off, root) == \E i \in 1..Len(ds) : Off(ds, i - 1) = off /\ ds[i].k = "r" /\ ds[i].ok /\ ds[i].id = root
RecsBefore(ds, off) == CHOOSE n \in 0..Len(ds) : Off(ds, n) = off

\* readJournalIndex/processIndexRecords: fold over the entries.
\* acc = [ok, prev, batch, lk, safe, n]  safe = number of entries up to the last accepted meta
RECURSIVE LoadFold(_, _, _, _)
LoadFold(es, i, ds, acc) ==
  IF i > Len(es) \/ ~acc.ok \/ acc.stop THEN acc
  ELSE LET e == es[i] IN
    CASE e.t = "L" -> LoadFold(es, i + 1, ds, [acc EXCEPT !.batch = Append(@, e)])
      [] e.t = "P" -> [acc EXCEPT !.stop = TRUE]                       \* benign EOF inside a record
      [] e.t = "X" -> [acc EXCEPT !.ok = FALSE]                        \* ErrMalformedIndex
      [] e.t = "M" ->
           IF /\ e.crc = [j \in 1..Len(acc.batch) |-> acc.batch[j].c]      \* checksum over the addresses
              /\ e.s = acc.prev                                         \* contiguous
              /\ RootAt(ds, e.e, e.root)                                \* batch end is a root record with that hash
           THEN LoadFold(es, i + 1, ds,
                  [acc EXCEPT !.prev = e.e, !.batch = <<>>, !.safe = i,
                              !.lk = [c \in Chunks |->
                                        LET H == {j \in 1..Len(acc.batch) : acc.batch[j].c = c} IN
                                        IF H = {} THEN acc.lk[c]
                                        ELSE LET l == acc.batch[CHOOSE j \in H : \A j2 \in H : j2 <= j]
                                             \* the indexed prefix is not re-validated: a damaged chunk record under a good
                                             \* lookup surfaces only as a checksum error when the chunk is read
                                             IN IF l.ri \in 1..Len(ds) /\ ~ds[l.ri].ok THEN "err" ELSE l.r]])
           ELSE [acc EXCEPT !.ok = FALSE]

\* result of loadJournalIndex: [f (records skipped = indexed prefix), off, lk, keep (entries kept in the file when rw), used]
LoadIndex(ixf, ds) ==
  IF ~ixf.ex THEN [f |-> 0, off |-> 0, lk |-> NoneRng, keep |-> <<>>, used |-> FALSE]
  ELSE LET a == LoadFold(ixf.es, 1, ds, [ok |-> TRUE, stop |-> FALSE, prev |-> 0, batch |-> <<>>, lk |-> NoneRng, safe |-> 0])
       IN IF a.ok THEN [f |-> RecsBefore(ds, a.prev), off |-> a.prev, lk |-> a.lk, keep |-> SubSeq(ixf.es, 1, a.safe), used |-> a.safe > 0]
          ELSE [f |-> 0, off |-> 0, lk |-> NoneRng, keep |-> <<>>, used |-> FALSE]          \* corruptIndexRecovery

\* ------------------------------------------------------------------ recovery (bootstrapJournalWriter)
\* number of consecutive undamaged records of ds starting after record f
RECURSIVE ValidRun(_, _)
ValidRun(ds, f) == IF f < Len(ds) /\ ds[f + 1].ok THEN 1 + ValidRun(ds, f + 1) ELSE 0

\* possibleDataLossCheck scans the bytes after the first unreadable record for parsable records.
\* `seen(j)`: the scan can see record j.  The rule of the code's own comment: every parsable record.
ValidAfter(ds, vp, seen(_)) == SelectSeq([j \in 1..(Len(ds) - vp - 1) |-> vp + 1 + j], LAMBDA j : ds[j].ok /\ seen(j))
RootThenRecord(ds, idxs) == \E a, b \in 1..Len(idxs) : a < b /\ ds[idxs[a]].k = "r"
\* transcription of the loop bound `idx <= len(buf) - ScanMin`: a record that starts less than ScanMin bytes before the
\* end of the file is never examined.  With ScanMin = 40 (before 748c3d0) a 37/39-byte last record was missed: DevTinyTail.
SeenByCode(ds, tl, j) == tl.part # "none" \/ tl.fill # "none" \/ Bytes(ds) - Off(ds, j - 1) >= ScanMin

RecoverWith(ds, tl, m, ixf, canWrite, seen(_)) ==
  LET li == LoadIndex(ixf, ds)
      vp == li.f + ValidRun(ds, li.f)
      damaged == vp < Len(ds)
      va == IF damaged THEN ValidAfter(ds, vp, seen) ELSE <<>>
      loss == damaged /\ RootThenRecord(ds, va)
      lr == LastRootIdx(ds, li.f + 1, vp)
      jroot == IF lr = 0 THEN NoRoot ELSE ds[lr].id
      fallback == jroot = NoRoot                      \* journal.go:202 root.IsEmpty()
      appendRoot == fallback /\ m.ex /\ canWrite       \* commitRootHash(contents.root)
      kept == SubSeq(ds, 1, vp)
      replayed == ChunkIds(ds, li.f + 1, vp)
  IN [err |-> IF loss THEN "dataloss" ELSE "none",
      recs |-> IF loss \/ ~canWrite THEN ds ELSE IF appendRoot THEN Append(kept, RootRec(m.root)) ELSE kept,
      n |-> IF loss THEN Len(ds) ELSE IF appendRoot THEN vp + 1 ELSE vp,      \* records the open session sees
      tail |-> IF loss \/ ~canWrite THEN tl ELSE NoTail,
      trunc |-> ~loss /\ canWrite,
      root |-> IF loss THEN NoRoot ELSE IF m.ex THEN (IF fallback THEN m.root ELSE jroot) ELSE NoRoot,
      curRoot |-> IF fallback THEN (IF appendRoot THEN m.root ELSE NoRoot) ELSE jroot,
      man |-> IF loss \/ ~canWrite \/ ~m.ex \/ fallback THEN m ELSE [m EXCEPT !.root = jroot],      \* trueUpBackingManifest
      jvis |-> m.ex /\ m.jspec,
      cspec |-> m.ex /\ m.jspec,
      rng |-> [c \in Chunks |-> IF c \in replayed THEN "ok" ELSE li.lk[c]],
      nov |-> replayed,
      indexed |-> li.off,
      ilog |-> IF canWrite
               THEN LET cis == SelectSeq([j \in 1..(vp - li.f) |-> li.f + j], LAMBDA j : ds[j].k = "c")     \* re-indexed lookups
                    IN li.keep \o [j \in 1..Len(cis) |-> Lk(ds[cis[j]].id, cis[j])]
               ELSE <<>>,
      ifile |-> IF canWrite THEN [ex |-> TRUE, es |-> li.keep] ELSE ixf,
      idxUsed |-> li.used,
      vp |-> vp, damaged |-> damaged, validAfter |-> Len(va)]

RecoverOut(ds, tl, m, ixf, canWrite) == RecoverWith(ds, tl, m, ixf, canWrite, LAMBDA j : SeenByCode(ds, tl, j))
RecoverRule(ds, tl, m, ixf, canWrite) == RecoverWith(ds, tl, m, ixf, canWrite, LAMBDA j : TRUE)

\* what a reader of the opened store gets for chunk c
ReadOf(o, c) == IF o.err # "none" THEN "fail" ELSE IF ~o.jvis THEN "absent" ELSE IF o.rng[c] = "none" THEN "absent" ELSE o.rng[c]
Reads(o) == [c \in Chunks |-> ReadOf(o, c)]

\* ------------------------------------------------------------------ projection shipped to the engine
ReadNow(c) == IF c \in Range(mem) THEN "ok" ELSE IF ~jvis THEN "absent" ELSE IF rng[c] = "none" THEN "absent" ELSE rng[c]
IdxJson(es) == [i \in 1..Len(es) |-> IF es[i].t = "L" THEN <<"L", es[i].c, es[i].r, es[i].ri>>
                                      ELSE IF es[i].t = "M" THEN <<"M", es[i].s, es[i].e, es[i].root, es[i].crc>> ELSE <<es[i].t>>]
Proj == [st |-> st', root |-> upRoot', hasJ |-> hasJ', off |-> Off(recs', written'),
         buffered |-> Off(recs', Len(recs')) - Off(recs', written'), synced |-> Off(recs', synced'),
         unsyncd |-> unsyncd', curRoot |-> curRoot', indexed |-> indexed', novel |-> Cardinality(nov'),
         man |-> man', reads |-> [c \in Chunks |-> IF c \in Range(mem') THEN "ok" ELSE IF ~jvis' THEN "absent"
                                                   ELSE IF rng'[c] = "none" THEN "absent" ELSE rng'[c]],
         recs |-> [i \in 1..Len(recs') |-> <<recs'[i].k, recs'[i].id, recs'[i].ok>>], nwritten |-> written', ilog |-> IdxJson(ilog'),
         ifex |-> ifile'.ex, ifile |-> IdxJson(ifile'.es), tail |-> tail', mem |-> mem',
         idle |-> todo' = <<>>, base |-> base'.root]

\* crash table of a state: for every number k of complete records the journal may keep, what the property allows
\* and what the transcribed recovery answers (with the index file as it is on disk, and with no index).
PropOK(o, allowed) == /\ o.err = "none"
                      /\ \E a \in allowed : a.root = o.root /\ \A c \in a.reach : ReadOf(o, c) = "ok"
Allowed(b, f) == {[root |-> b.root, reach |-> b.reach]} \cup (IF f.root = NoRoot THEN {} ELSE {f})
CrashRow(rs, w, s, m, ixf, b, f, fl, k) ==
  LET ds == SubSeq(rs, 1, k)
      o == RecoverOut(ds, NoTail, m, ixf, TRUE)
      o0 == RecoverOut(ds, NoTail, m, [ex |-> FALSE, es |-> <<>>], TRUE)
  IN [k |-> k, cut |-> Off(rs, k), next |-> IF k < w THEN Sz(rs[k + 1]) ELSE 0, wend |-> Off(rs, w),
      allowed |-> Allowed(b, f),
      ok |-> PropOK(o, Allowed(b, f)) /\ PropOK(o0, Allowed(b, f)),
      pred |-> [root |-> o.root, reads |-> Reads(o), err |-> o.err, n |-> o.n, jlen |-> Bytes(o.recs)],
      pred0 |-> [root |-> o0.root, reads |-> Reads(o0), err |-> o0.err, n |-> o0.n, jlen |-> Bytes(o0.recs)],
      \* named deviation DevFirstCommitWindow applies to this image
      \* media damage that an index had hidden lies inside the kept prefix: the image is a Damage image, not a crash image
      dmg |-> \E i \in 1..k : ~rs[i].ok,
      fcw |-> fl /\ (LastRootIdx(ds, 1, k) = 0 \/ ds[LastRootIdx(ds, 1, k)].id = NoRoot),
      man |-> m]
CrashTable == IF st' # "open" \/ ~hasJ' THEN <<>>
              ELSE [i \in 1..(written' - synced' + 1) |->
                      CrashRow(recs', written', synced', man', ifile', base', infl', mfl', synced' + i - 1)]

\* damage table of a down state with a clean tail: for every on-disk record i, the outcome of opening (without index)
\* after record i was corrupted; rule = the code's documented rule, pred = the transcription.
DamageRow(ds, m, i) ==
  LET dd == [ds EXCEPT ![i].ok = FALSE]
      noix == [ex |-> FALSE, es |-> <<>>]
      o == RecoverOut(dd, NoTail, m, noix, TRUE)
      q == RecoverRule(dd, NoTail, m, noix, TRUE)
  IN [i |-> i, off |-> Off(ds, i - 1), sz |-> Sz(ds[i]), validAfter |-> q.validAfter,
      rule |-> [err |-> q.err, root |-> q.root, reads |-> Reads(q), jlen |-> Bytes(q.recs)],
      pred |-> [err |-> o.err, root |-> o.root, reads |-> Reads(o), jlen |-> Bytes(o.recs)],
      tiny |-> Sz(ds[Len(ds)]) < RootSz,
      \* zone in which the statement's two clauses overlap (a lone trailing root / chunk records after the damage are
      \* exactly what a torn in-flight commit looks like): both outcomes are accepted there
      zone |-> q.err = "none" /\ q.validAfter > 0]
DamageTable == IF st' = "open" \/ tail' # NoTail \/ ~hasJ' THEN <<>>
               ELSE [i \in 1..Len(recs') |-> DamageRow(recs', man', i)]

Rec(a, args) == IF RecordHist
                THEN Append(hist, [a |-> a, args |-> args, exp |-> Proj, cr |-> CrashTable, dm |-> DamageTable])
                ELSE hist

\* ------------------------------------------------------------------ initial state: an empty directory, store opened read-write
Init == /\ st = "open" /\ recs = <<>> /\ written = 0 /\ synced = 0 /\ tail = NoTail /\ hasJ = FALSE
        /\ unsyncd = 0 /\ curRoot = NoRoot /\ mem = <<>> /\ upRoot = NoRoot /\ cspec = FALSE /\ jvis = FALSE
        /\ man = [ex |-> FALSE, root |-> NoRoot, jspec |-> FALSE] /\ todo = <<>> /\ rng = NoneRng /\ nov = {}
        /\ indexed = 0 /\ ilog = <<>> /\ ifile = [ex |-> FALSE, es |-> <<>>] /\ wrOld = FALSE
        /\ base = [root |-> NoRoot, reach |-> {}, idx |-> 0] /\ infl = NoInfl /\ mfl = FALSE
        /\ lastRec = [kind |-> "init"] /\ ncrash = 0 /\ nopen = 0 /\ ndamage = 0 /\ hist = <<>>

Idle == st = "open" /\ todo = <<>>
Present == Range(mem) \cup (IF jvis THEN {c \in Chunks : rng[c] # "none"} ELSE {})

UNCH_DISK == UNCHANGED <<tail, man, ifile>>
UNCH_CNT == UNCHANGED <<ncrash, nopen, ndamage>>

\* ------------------------------------------------------------------ store-level operations (enqueue micro-steps)
W(c) == [t |-> "W", c |-> c]
WritesOf(m) == [i \in 1..Len(m) |-> W(m[i])]
CreateIfNeeded == IF hasJ THEN <<>> ELSE <<[t |-> "CJ"]>>

\* NomsBlockStore.Put -> addChunk: a full memtable is persisted (tables.append -> ChunkJournal.Persist) without a commit
Put(c) ==
  /\ Idle /\ c \notin Range(mem) /\ Len(recs) + Len(mem) + 1 <= MaxRecs
  /\ IF SumData(mem) + DataSz[c] > MemCap
     THEN /\ todo' = CreateIfNeeded \o WritesOf(mem) \o <<[t |-> "PF", c |-> c]>>
          /\ UNCHANGED mem
     ELSE /\ mem' = Append(mem, c) /\ UNCHANGED todo
  /\ wrOld' = hasJ
  /\ UNCHANGED <<st, recs, written, synced, hasJ, unsyncd, curRoot, upRoot, cspec, jvis, rng, nov, indexed, ilog, base, infl, mfl, lastRec>>
  /\ UNCH_DISK /\ UNCH_CNT
  /\ hist' = Rec("Put", [c |-> c])

\* NomsBlockStore.Commit(current = r, last = Root()).  The root must not dangle: r is a present chunk.
Commit(r) ==
  /\ Idle /\ r \in Present /\ Len(recs) + Len(mem) + 1 <= MaxRecs
  /\ ~(mem = <<>> /\ r = upRoot)
  /\ todo' = (IF mem = <<>> THEN <<>> ELSE CreateIfNeeded \o WritesOf(mem))
             \o (IF cspec THEN <<>> ELSE <<[t |-> "MF", r |-> r]>>)
             \o <<[t |-> "AR", r |-> r], [t |-> "FL"], [t |-> "SY"], [t |-> "IX", r |-> r], [t |-> "AK", r |-> r]>>
  /\ infl' = [root |-> r, reach |-> Present]
  /\ wrOld' = hasJ /\ mfl' = FALSE
  /\ UNCHANGED <<st, recs, written, synced, hasJ, unsyncd, curRoot, mem, upRoot, cspec, jvis, rng, nov, indexed, ilog, base, lastRec>>
  /\ UNCH_DISK /\ UNCH_CNT
  /\ hist' = Rec("Commit", [r |-> r, last |-> upRoot])

\* current == last and nothing novel: rebase and return true without touching the journal (store.go:1588)
CommitNoop ==
  /\ Idle /\ mem = <<>>
  /\ UNCHANGED <<st, recs, written, synced, hasJ, unsyncd, curRoot, mem, upRoot, cspec, jvis, todo, rng, nov, indexed, ilog, wrOld, base, infl, mfl, lastRec>>
  /\ UNCH_DISK /\ UNCH_CNT
  /\ hist' = Rec("CommitNoop", [r |-> upRoot, last |-> upRoot])

\* last # Root(): errLastRootMismatch, returns false, nothing is written (not even the memtable).
\* Named deviation CommitSameRootNoCAS (store.go:1588): with nothing novel and current = last the store rebases and
\* answers true without comparing `last` with its root; nothing is written either.
CommitStale(r, l) ==
  /\ Idle /\ l # upRoot /\ (r \in Present \/ r = l)
  /\ UNCHANGED <<st, recs, written, synced, hasJ, unsyncd, curRoot, mem, upRoot, cspec, jvis, todo, rng, nov, indexed, ilog, wrOld, base, infl, mfl, lastRec>>
  /\ UNCH_DISK /\ UNCH_CNT
  /\ hist' = Rec("CommitStale", [r |-> r, last |-> l, res |-> (mem = <<>> /\ r = l)])

\* NomsBlockStore.Close: journalWriter.Close (flush, index flush, fsync) then the latest contents go to the manifest.
\* A read-only session and a session that never created a writer write nothing.
Close ==
  /\ Idle
  /\ todo' = (IF hasJ THEN <<[t |-> "FL"], [t |-> "CIX"], [t |-> "SY"], [t |-> "CMF"]>> ELSE <<>>) \o <<[t |-> "END"]>>
  /\ wrOld' = hasJ
  /\ UNCHANGED <<st, recs, written, synced, hasJ, unsyncd, curRoot, mem, upRoot, cspec, jvis, rng, nov, indexed, ilog, base, infl, mfl, lastRec>>
  /\ UNCH_DISK /\ UNCH_CNT
  /\ hist' = Rec("Close", <<>>)

\* ------------------------------------------------------------------ micro-steps (one per system call / critical section)
Busy == st = "open" /\ todo # <<>>
Step(t) == Busy /\ Head(todo).t = t

\* flush performed by getBytes when the record does not fit the rest of the buffer
WrittenAfterGetBytes(need) == IF need > BufCap - Buffered THEN Len(recs) ELSE written

\* bootstrapJournalWriter, create branch: new file; an existing manifest root is committed at once
CreateJournal ==
  /\ Step("CJ")
  /\ hasJ' = TRUE
  /\ IF man.ex THEN /\ recs' = <<RootRec(man.root)>> /\ written' = 1 /\ synced' = 1 /\ curRoot' = man.root
                    /\ cspec' = man.jspec
               ELSE UNCHANGED <<recs, written, synced, curRoot, cspec>>
  /\ ifile' = [ex |-> TRUE, es |-> <<>>] /\ ilog' = <<>>
  /\ todo' = Tail(todo)
  /\ UNCHANGED <<st, tail, unsyncd, mem, upRoot, jvis, man, rng, nov, indexed, wrOld, base, infl, mfl, lastRec>>
  /\ UNCH_CNT
  /\ hist' = Rec("CreateJournal", <<>>)

\* journalWriter.writeCompressedChunk; Persist skips chunks the table set already has
WriteChunk ==
  /\ Step("W")
  /\ LET c == Head(todo).c
         skip == jvis /\ rng[c] # "none"
         need == RecSz[c]
     IN IF skip
        THEN /\ todo' = Tail(todo)
             /\ UNCHANGED <<recs, written, unsyncd, rng, nov, ilog>>
        ELSE /\ written' = WrittenAfterGetBytes(need)
             /\ recs' = Append(recs, ChunkRec(c))
             /\ unsyncd' = unsyncd + need
             /\ rng' = [rng EXCEPT ![c] = "ok"]
             /\ nov' = nov \cup {c}
             /\ ilog' = Append(ilog, Lk(c, Len(recs) + 1))
             \* maybe-sync: re-commit the current root when too much is unsynced (journal_writer.go:520)
             /\ todo' = (IF unsyncd + need > SyncThreshold /\ curRoot # NoRoot
                         THEN <<[t |-> "AR", r |-> curRoot], [t |-> "FL"], [t |-> "SY"], [t |-> "IX", r |-> curRoot]>> ELSE <<>>)
                        \o Tail(todo)
  /\ UNCHANGED <<st, synced, tail, hasJ, curRoot, mem, upRoot, cspec, jvis, man, indexed, ifile, wrOld, base, infl, mfl, lastRec>>
  /\ UNCH_CNT
  /\ hist' = Rec("WriteChunk", [c |-> Head(todo).c, skip |-> jvis /\ rng[Head(todo).c] # "none"])

\* end of a memtable-full flush: the journal source joins the table set, the new chunk opens a fresh memtable
PutFlushed ==
  /\ Step("PF")
  /\ jvis' = TRUE /\ mem' = <<Head(todo).c>> /\ todo' = Tail(todo)
  /\ UNCHANGED <<st, recs, written, synced, tail, hasJ, unsyncd, curRoot, upRoot, cspec, man, rng, nov, indexed, ilog, ifile, wrOld, base, infl, mfl, lastRec>>
  /\ UNCH_CNT
  /\ hist' = Rec("PutFlushed", [c |-> Head(todo).c])

\* ChunkJournal.Update, specs changed: the *next* contents (new root included) go to the manifest file
\* before the root record is written (journal.go:429).  tables now name the journal.
ManifestFlush ==
  /\ Step("MF")
  /\ man' = [ex |-> TRUE, root |-> Head(todo).r, jspec |-> TRUE]
  /\ mfl' = TRUE /\ jvis' = TRUE
  /\ todo' = Tail(todo)
  /\ UNCHANGED <<st, recs, written, synced, tail, hasJ, unsyncd, curRoot, mem, upRoot, cspec, rng, nov, indexed, ilog, ifile, wrOld, base, infl, lastRec>>
  /\ UNCH_CNT
  /\ hist' = Rec("ManifestFlush", [r |-> Head(todo).r])

AppendRoot ==
  /\ Step("AR")
  /\ written' = WrittenAfterGetBytes(RootSz)
  /\ recs' = Append(recs, RootRec(Head(todo).r))
  /\ curRoot' = Head(todo).r
  /\ todo' = Tail(todo)
  /\ UNCHANGED <<st, synced, tail, hasJ, unsyncd, mem, upRoot, cspec, jvis, man, rng, nov, indexed, ilog, ifile, wrOld, base, infl, mfl, lastRec>>
  /\ UNCH_CNT
  /\ hist' = Rec("AppendRoot", [r |-> Head(todo).r])

Flush ==
  /\ Step("FL")
  /\ written' = Len(recs) /\ todo' = Tail(todo)
  /\ UNCHANGED <<st, recs, synced, tail, hasJ, unsyncd, curRoot, mem, upRoot, cspec, jvis, man, rng, nov, indexed, ilog, ifile, wrOld, base, infl, mfl, lastRec>>
  /\ UNCH_CNT
  /\ hist' = Rec("Flush", <<>>)

Sync ==
  /\ Step("SY")
  /\ synced' = written /\ unsyncd' = 0 /\ todo' = Tail(todo)
  /\ UNCHANGED <<st, recs, written, tail, hasJ, curRoot, mem, upRoot, cspec, jvis, man, rng, nov, indexed, ilog, ifile, wrOld, base, infl, mfl, lastRec>>
  /\ UNCH_CNT
  /\ hist' = Rec("Sync", <<>>)

\* flushIndexRecord when more than maxNovel lookups are novel; batch end = offset of the root record just committed
IndexFlush ==
  /\ Step("IX")
  /\ LET mn == IF wrOld THEN MaxNovel ELSE DefaultMaxNovel
         o == Off(recs, Len(recs) - 1)
     IN IF Cardinality(nov) > mn
        THEN /\ ilog' = Append(ilog, Mt(indexed, o, Head(todo).r, BatchOf(ilog)))
             /\ indexed' = o /\ nov' = {}
        ELSE UNCHANGED <<ilog, indexed, nov>>
  /\ todo' = Tail(todo)
  /\ UNCHANGED <<st, recs, written, synced, tail, hasJ, unsyncd, curRoot, mem, upRoot, cspec, jvis, man, rng, ifile, wrOld, base, infl, mfl, lastRec>>
  /\ UNCH_CNT
  /\ hist' = Rec("IndexFlush", [flushed |-> Cardinality(nov) > (IF wrOld THEN MaxNovel ELSE DefaultMaxNovel)])

\* Commit returns true
Ack ==
  /\ Step("AK")
  /\ upRoot' = Head(todo).r /\ cspec' = TRUE /\ mem' = <<>>
  /\ base' = [root |-> infl.root, reach |-> infl.reach, idx |-> Len(recs)]
  /\ infl' = NoInfl /\ mfl' = FALSE
  /\ todo' = Tail(todo)
  /\ UNCHANGED <<st, recs, written, synced, tail, hasJ, unsyncd, curRoot, jvis, man, rng, nov, indexed, ilog, ifile, wrOld, lastRec>>
  /\ UNCH_CNT
  /\ hist' = Rec("Ack", [r |-> Head(todo).r])

\* journalWriter.Close: the index bufio is flushed to the file and closed
CloseIndex ==
  /\ Step("CIX")
  /\ ifile' = [ex |-> TRUE, es |-> ilog] /\ todo' = Tail(todo)
  /\ UNCHANGED <<st, recs, written, synced, tail, hasJ, unsyncd, curRoot, mem, upRoot, cspec, jvis, man, rng, nov, indexed, ilog, wrOld, base, infl, mfl, lastRec>>
  /\ UNCH_CNT
  /\ hist' = Rec("CloseIndex", <<>>)

\* ChunkJournal.Close: flushToBackingManifest(j.contents)
CloseManifest ==
  /\ Step("CMF")
  \* j.contents is still the zero value (no manifest was ever read or written by this session): writeManifest refuses
  \* the empty lock hash, Close returns that error and no manifest is written
  /\ man' = (IF man.ex THEN [ex |-> TRUE, root |-> upRoot, jspec |-> cspec] ELSE man) /\ todo' = Tail(todo)
  /\ UNCHANGED <<st, recs, written, synced, tail, hasJ, unsyncd, curRoot, mem, upRoot, cspec, jvis, rng, nov, indexed, ilog, ifile, wrOld, base, infl, mfl, lastRec>>
  /\ UNCH_CNT
  /\ hist' = Rec("CloseManifest", [err |-> ~man.ex])

\* the process is gone; buffered records and the memtable with it
Down(newRecs, newTail) ==
  /\ st' = "down" /\ recs' = newRecs /\ written' = Len(newRecs) /\ synced' = Len(newRecs) /\ tail' = newTail
  /\ mem' = <<>> /\ todo' = <<>> /\ unsyncd' = 0 /\ infl' = NoInfl /\ mfl' = FALSE

CloseEnd ==
  /\ Step("END")
  /\ Down(SubSeq(recs, 1, written), NoTail)
  /\ UNCHANGED <<hasJ, curRoot, upRoot, cspec, jvis, man, rng, nov, indexed, ilog, ifile, wrOld, base, lastRec>>
  /\ UNCH_CNT
  /\ hist' = Rec("CloseEnd", <<>>)

\* ------------------------------------------------------------------ faults
Parts == {"none", "len", "head"}         \* junk starts at a record boundary | 1..3 bytes of the next record | >= 4 bytes of it
Fills == {"dropped", "zeros", "partial", "garbage"}

\* Crash between two micro-steps of a read-write session.  k complete records survive (synced <= k <= written);
\* part: how much of record k+1 survives in front of the fill; fill: what the rest of the unsynced tail became.
\* The base root stays; an in-flight commit stays a candidate for recovery.
Crash(k, part, fill) ==
  /\ st = "open" /\ hasJ /\ ncrash < MaxCrashes
  /\ k \in synced..written
  /\ (part # "none" => k < written)
  /\ (k = written /\ part = "none" => fill = "dropped")
  /\ lastRec' = [kind |-> IF \A i \in 1..k : recs[i].ok THEN "crash" ELSE "damage", allowed |-> Allowed(base, infl),
                 fcw |-> mfl /\ (LastRootIdx(recs, 1, k) = 0 \/ recs[LastRootIdx(recs, 1, k)].id = NoRoot)]
  /\ st' = "down" /\ recs' = SubSeq(recs, 1, k) /\ written' = k /\ synced' = k
  /\ tail' = IF part = "none" /\ fill = "dropped" THEN NoTail ELSE [part |-> part, fill |-> fill]
  /\ mem' = <<>> /\ todo' = <<>> /\ unsyncd' = 0
  /\ ncrash' = ncrash + 1
  /\ UNCHANGED <<hasJ, curRoot, upRoot, cspec, jvis, man, rng, nov, indexed, ilog, ifile, wrOld, base, infl, mfl, nopen, ndamage>>
  /\ hist' = Rec("Crash", [k |-> k, cut |-> Off(recs, k), part |-> part, fill |-> fill, wend |-> Off(recs, written),
                           next |-> IF k < written THEN Sz(recs[k + 1]) ELSE 0])

\* media damage of record i of a journal at rest (clean tail)
Damage(i) ==
  /\ st = "down" /\ hasJ /\ tail = NoTail /\ ndamage < MaxDamage
  /\ i \in 1..Len(recs) /\ recs[i].ok
  /\ recs' = [recs EXCEPT ![i].ok = FALSE]
  /\ ndamage' = ndamage + 1
  /\ lastRec' = [kind |-> "damage"]
  /\ UNCHANGED <<st, written, synced, tail, hasJ, unsyncd, curRoot, mem, upRoot, cspec, jvis, man, todo, rng, nov, indexed, ilog, ifile, wrOld, base, infl, mfl, ncrash, nopen>>
  /\ hist' = Rec("Damage", [i |-> i, off |-> Off(recs, i - 1), sz |-> Sz(recs[i])])

\* ------------------------------------------------------------------ Open = NewLocalJournalingStore + load, exclusive lock obtained
\* withIdx = FALSE: journal.idx was deleted before opening.
BaseIdx(rs, n, root) == LET i == LastRootIdx(rs, 1, n) IN IF root # NoRoot /\ i > 0 /\ rs[i].id = root THEN i ELSE 0

Open(withIdx) ==
  /\ st = "down" /\ nopen < MaxOpens
  /\ nopen' = nopen + 1
  /\ IF ~hasJ
     THEN \* no journal file: the writer is created by the first Persist
          /\ st' = "open"
          /\ upRoot' = (IF man.ex THEN man.root ELSE NoRoot) /\ cspec' = (man.ex /\ man.jspec) /\ jvis' = FALSE
          /\ lastRec' = [kind |-> "open"]
          /\ base' = [root |-> IF man.ex THEN man.root ELSE NoRoot, reach |-> {}, idx |-> 0]
          /\ UNCHANGED <<recs, written, synced, tail, hasJ, unsyncd, curRoot, mem, man, todo, rng, nov, indexed, ilog, ifile, wrOld, infl, mfl>>
     ELSE LET ixf == IF withIdx THEN ifile ELSE [ex |-> FALSE, es |-> <<>>]
              o == RecoverOut(recs, tail, man, ixf, TRUE)
              prev == lastRec
              \* the classification of the image: set by the fault action, kept across a failed open, gone after a successful one
              \* a journal that (still) contains a damaged record - e.g. one a good index has been hiding - is a Damage image
              pk == IF \E i \in 1..Len(recs) : ~recs[i].ok THEN "damage"
                    ELSE IF prev.kind \in {"crash", "damage"} /\ ("err" \notin DOMAIN prev \/ prev.err # "none") THEN prev.kind ELSE "open"
              al == IF pk = "crash" THEN prev.allowed ELSE {[root |-> base.root, reach |-> base.reach]}
              hit == {a \in al : a.root = o.root}
          IN /\ lastRec' = [kind |-> pk,
                            err |-> o.err, root |-> o.root, allowed |-> al,
                            rootOK |-> hit # {}, reachOK |-> \E a \in hit : \A c \in a.reach : ReadOf(o, c) = "ok",
                            fcw |-> IF pk = "crash" THEN prev.fcw ELSE FALSE,
                            damaged |-> o.damaged, validAfter |-> o.validAfter,
                            rule |-> RecoverRule(recs, tail, man, ixf, TRUE).err,
                            idxUsed |-> o.idxUsed, tiny |-> Len(recs) > 0 /\ Sz(recs[Len(recs)]) < RootSz,
                            recsBefore |-> recs, tailBefore |-> tail, manBefore |-> man]
             /\ IF o.err # "none"
                THEN /\ st' = "failed"
                     /\ ifile' = o.ifile
                     /\ UNCHANGED <<recs, written, synced, tail, hasJ, unsyncd, curRoot, mem, upRoot, cspec, jvis, man, todo, rng, nov, indexed, ilog, wrOld, base, infl, mfl>>
                ELSE /\ st' = "open"
                     /\ recs' = o.recs /\ written' = o.n /\ synced' = o.n
                     /\ tail' = o.tail /\ man' = o.man /\ ifile' = o.ifile
                     /\ upRoot' = o.root /\ curRoot' = o.curRoot /\ cspec' = o.cspec /\ jvis' = o.jvis
                     /\ rng' = o.rng /\ nov' = o.nov /\ indexed' = o.indexed /\ ilog' = o.ilog
                     /\ unsyncd' = 0 /\ mem' = <<>> /\ todo' = <<>>
                     /\ base' = [root |-> o.root, idx |-> BaseIdx(o.recs, o.n, o.root),
                                 reach |-> UNION {{c \in a.reach : ReadOf(o, c) = "ok"} : a \in hit}]
                     /\ infl' = NoInfl /\ mfl' = FALSE
                     /\ UNCHANGED <<hasJ, wrOld>>
  /\ UNCHANGED <<ncrash, ndamage>>
  /\ hist' = Rec("Open", [idx |-> withIdx, kind |-> lastRec'.kind,
                           rule |-> IF "rule" \in DOMAIN lastRec' THEN lastRec'.rule ELSE "none",
                           allowed |-> IF "allowed" \in DOMAIN lastRec' THEN lastRec'.allowed ELSE {},
                           propOK |-> IF "rootOK" \in DOMAIN lastRec' THEN lastRec'.err = "none" /\ lastRec'.rootOK /\ lastRec'.reachOK ELSE TRUE,
                           fcw |-> IF "fcw" \in DOMAIN lastRec' THEN lastRec'.fcw ELSE FALSE,
                           zone |-> IF "rule" \in DOMAIN lastRec' THEN lastRec'.rule = "none" /\ lastRec'.validAfter > 0 ELSE FALSE,
                           tiny |-> IF "tiny" \in DOMAIN lastRec' THEN lastRec'.tiny ELSE FALSE])

\* read-only open (another process holds the lock) of a directory at rest, then close: a probe, nothing may change.
\* The outcome is computed by the same transcription with canWrite = FALSE.
ProbeOut(withIdx) == LET ixf == IF withIdx THEN ifile ELSE [ex |-> FALSE, es |-> <<>>]
                         o == RecoverOut(recs, tail, man, ixf, FALSE)
                     IN [err |-> o.err, root |-> o.root, reads |-> Reads(o), n |-> o.n, off |-> Off(recs, o.n)]
ProbeRO(withIdx) ==
  /\ st = "down" /\ hasJ /\ RecordHist
  /\ UNCHANGED <<st, recs, written, synced, tail, hasJ, unsyncd, curRoot, mem, upRoot, cspec, jvis, man, todo, rng, nov, indexed, ilog, ifile, wrOld, base, infl, mfl, lastRec, ncrash, nopen, ndamage>>
  /\ hist' = Rec("ProbeRO", [idx |-> withIdx, out |-> ProbeOut(withIdx)])

\* a failed open leaves the directory as it is; the operator may try again (e.g. after deleting the index)
Retry == /\ st = "failed" /\ st' = "down"
         /\ UNCHANGED <<recs, written, synced, tail, hasJ, unsyncd, curRoot, mem, upRoot, cspec, jvis, man, todo, rng, nov, indexed, ilog, ifile, wrOld, base, infl, mfl, lastRec, ncrash, nopen, ndamage>>
         /\ hist' = Rec("Retry", <<>>)

\* generator only: fill the behaviour up to length D when the budgets are used up
Pad == /\ RecordHist /\ st \in {"down", "failed"} /\ nopen >= MaxOpens
       /\ UNCHANGED <<st, recs, written, synced, tail, hasJ, unsyncd, curRoot, mem, upRoot, cspec, jvis, man, todo, rng, nov, indexed, ilog, ifile, wrOld, base, infl, mfl, lastRec, ncrash, nopen, ndamage>>
       /\ hist' = Append(hist, [a |-> "Pad"])

\* ------------------------------------------------------------------ next-state relation
Micro == \/ CreateJournal \/ WriteChunk \/ PutFlushed \/ ManifestFlush \/ AppendRoot \/ Flush \/ Sync \/ IndexFlush \/ Ack
         \/ CloseIndex \/ CloseManifest \/ CloseEnd
Ops == \/ \E c \in Chunks : Put(c)
       \/ \E r \in Chunks : Commit(r)
       \/ CommitNoop
       \/ Close
Faults == \/ \E k \in 0..MaxRecs + 2, p \in Parts, f \in Fills : Crash(k, p, f)
          \/ \E i \in 1..MaxRecs + 2 : Damage(i)
Opens == (\E wi \in BOOLEAN : Open(wi)) \/ Retry
JNext == Micro \/ Ops \/ Faults \/ Opens
Next == JNext
Spec == Init /\ [][Next]_vars

\* generator variant: stale commits and read-only probes now and then, a crash with probability ~1/6 per step
\* (the crash *table* of every state already lists all crash points; Crash steps exist to continue after recovery)
SimNext == \/ Micro \/ Ops \/ Retry \/ Pad
           \/ \E r \in {RandomElement(Chunks \cup {NoRoot})}, l \in {RandomElement(Chunks \cup {NoRoot})} : CommitStale(r, l)
           \/ (RandomElement(1..6) = 1 /\ \E k \in {RandomElement(synced..written)}, p \in {RandomElement(Parts)}, f \in {RandomElement(Fills)} : Crash(k, p, f))
           \/ \E i \in {RandomElement(1..(Len(recs) + 1))} : Damage(i)
           \/ \E wi \in BOOLEAN : Open(wi)
           \/ \E wi \in {RandomElement(BOOLEAN)} : ProbeRO(wi)

\* ------------------------------------------------------------------ what TLC checks (C03 on the model)
TypeOK == /\ st \in {"open", "down", "failed"} /\ written \in 0..Len(recs) /\ synced \in 0..written
          /\ (st # "open" => written = Len(recs))
          /\ unsyncd >= 0 /\ Buffered <= BufCap

\* a commit is acknowledged only after its root record was written and fsynced
AckOnlyAfterSync == (st = "open" /\ base.idx > 0) => (base.idx <= synced /\ recs[base.idx].k = "r" /\ recs[base.idx].id = base.root)

AfterCrashOpen == lastRec.kind = "crash" /\ "err" \in DOMAIN lastRec
AfterDamageOpen == lastRec.kind = "damage" /\ "err" \in DOMAIN lastRec

\* named deviation: first commit into a journal without a non-empty root record; ChunkJournal.Update puts the new root
\* into the manifest before the journal holds (let alone syncs) its chunks; recovery falls back to the manifest root.
DevFirstCommitWindow == AfterCrashOpen /\ lastRec.fcw
\* named deviation: possibleDataLossCheck stops scanning RootSz bytes before the end of the file, a shorter last record is missed
DevTinyTail == AfterDamageOpen /\ lastRec.rule = "dataloss" /\ lastRec.err = "none" /\ lastRec.tiny

\* a torn / partially written tail is discarded silently
TornTailSilent == AfterCrashOpen => lastRec.err = "none"
\* reopening shows the acknowledged root or the root of the commit in flight ...
RecoveredRootIsAckedOrInFlight == (AfterCrashOpen /\ ~DevFirstCommitWindow) => lastRec.rootOK
\* ... and everything reachable from it is readable
ReachableFromRecoveredRootReadable == (AfterCrashOpen /\ ~DevFirstCommitWindow) => lastRec.reachOK
\* damage followed by a root record and a further record is reported, never silently truncated
DamageThenValidRecordsReported == (AfterDamageOpen /\ ~lastRec.idxUsed /\ lastRec.rule = "dataloss") => (lastRec.err = "dataloss" \/ DevTinyTail)
\* an open that reports data loss leaves journal and manifest untouched
FailedOpenKeepsJournal == st = "failed" => (recs = lastRec.recsBefore /\ tail = lastRec.tailBefore /\ man = lastRec.manBefore)
\* a read-only open never modifies journal, index or manifest
ReadOnlyOpenWritesNothing ==
  (st = "down" /\ hasJ) => \A wi \in BOOLEAN :
     LET ixf == IF wi THEN ifile ELSE [ex |-> FALSE, es |-> <<>>]
         o == RecoverOut(recs, tail, man, ixf, FALSE)
     IN o.recs = recs /\ o.tail = tail /\ o.man = man /\ o.ifile = ixf
\* the index never changes the outcome of an open of an undamaged journal (writer-produced indexes; faults: JournalIndex.tla)
Undamaged == \A i \in 1..Len(recs) : recs[i].ok
SameOpen(a, b) == a.err = b.err /\ a.root = b.root /\ Reads(a) = Reads(b) /\ a.recs = b.recs /\ a.man = b.man /\ a.tail = b.tail
IndexTransparentHere ==
  (st = "down" /\ hasJ /\ Undamaged) =>
     \A cw \in BOOLEAN : SameOpen(RecoverOut(recs, tail, man, ifile, cw), RecoverOut(recs, tail, man, [ex |-> FALSE, es |-> <<>>], cw))

Emit == Len(hist) < D \/ PrintT(ToJson(hist))

\* ------------------------------------------------------------------ size tables for the configurations (cfg files cannot write tuples)
\* record size = 38 + data length for incompressible data shorter than 60 bytes, 39 + n below 128, 40 + n below 256
SzA == <<40, 80, 39>>          DatA == <<2, 42, 1>>
SzB == <<40, 80, 39, 120>>     DatB == <<2, 42, 1, 81>>
SzC == <<56, 100, 39, 61>>     DatC == <<18, 61, 1, 23>>
=============================================================================
