--------------------------- MODULE Constraints ---------------------------
(* C24: committed data always satisfies the declared constraints (PRIMARY KEY, UNIQUE, FOREIGN KEY, NOT NULL, CHECK)
   across concurrent SQL transactions and across dolt merges, unless the user explicitly disabled the checks; merges
   RECORD violations (dolt_constraint_violations_<t>) instead of keeping or dropping them silently.

   Schema (fixed; created by the engine in the first commit):
     p (pk INT PRIMARY KEY, u INT, UNIQUE KEY uq (u))
     c (pk INT PRIMARY KEY, f INT, n INT, a INT, CONSTRAINT ck CHECK (n + a < K), CONSTRAINT fk FOREIGN KEY (f) REFERENCES p (pk))
   The CHECK fails exactly for n = 2 /\ a = 2 (model values; NULL passes).  Column n becomes NOT NULL through the DDL
   action AlterNN (ALTER TABLE c MODIFY n INT NOT NULL), executed on ONE branch/transaction, so that a NOT NULL violation
   can only arise from COMBINING two histories.

   Code transcribed:
     sqle/writer/prolly_table_writer.go, prolly_index_writer.go   statement-level checks: duplicate primary key, unique key
                                                                 (IterRange over the prefix on the mutable index, i.e. against
                                                                 the pending edits of the same statement/transaction)
     go-mysql-server                                              FK RESTRICT (foreign_key_checks), NOT NULL, CHECK on write
     sqle/dsess/transactions.go  doCommit                         fast-forward or merge.MergeRoots(ours = persisted working
                                                                 root, theirs = session, ancestor = root at transaction start)
                                 validateWorkingSetForCommit:645  conflicts -> retry error; constraint violations -> error and
                                                                 rollback unless @@dolt_force_transaction_commit = 1
     merge/merge_rows.go:371  MaybeShortCircuit                   a table changed on one side only is taken wholesale
     merge/merge_prolly_rows.go:149 computeProllyTreePatches      per changed key, ascending: uniqValidator (:862), nullValidator
                                                                 (:1163), checkValidator (:667), then primary/secondary merge
     merge/violations_fk.go:61 RegisterForeignKeyViolations       diff ancestor -> merged: removed/modified parents without an
                                                                 equivalent parent left flag every child referencing them;
                                                                 added/modified child keys without a parent are flagged
     sqle/dprocedures/dolt_merge.go performMerge/mergeRootToWorking, env/actions/commit.go:150 (commit refuses violations
                                                                 unless --force)

   One action = one SQL statement of one session.  Sessions run in autocommit mode or inside START TRANSACTION ... COMMIT.

   Escapes ("unless the user explicitly disabled the checks") are explicit session flags: fkc = @@foreign_key_checks,
   force = @@dolt_force_transaction_commit, and the action CommitForce (dolt_commit --force).  The ghost variable esc
   collects what was written under an escape; the invariant CommittedSatisfiesConstraints allows violations only there
   or when they are RECORDED as artifacts.

   NAMED DEVIATION "stale-unique-entry" (merge_prolly_rows.go:862-931): uniqValidator keeps a mutable copy of OUR unique
   index; for a row MODIFIED by their side it inserts the new index entry but never removes the entry of the row's
   previous value.  A later key (of either side) that takes the freed value collides with the stale entry and a unique
   violation is recorded although no two rows share the value: a valid transaction is rolled back with a bogus constraint
   error / a clean merge is reported as violating.  UniqCode below transcribes the fold; UniqIdeal is the intended result.
   Generator configs follow the code (AsCode = TRUE) and ship the intended result in the step (args.dev, args.ideal).

   Named restrictions (not generated): DDL and dolt_* procedures only outside START TRANSACTION; REPLACE / INSERT .. ON
   DUPLICATE KEY UPDATE only when no child row references an affected parent row and at most one existing row clashes;
   row-level merges only when OUR side of the table carries no artifacts (artifact maps are three-way merged by
   prolly.MergeArtifactMaps, and uniqValidator.clearArtifact rewrites them: conflict-table territory, C43). *)
EXTENDS Integers, Sequences, FiniteSets, TLC, Json

CONSTANTS PKeys,      \* parent primary keys (positive integers)
          CKeys,      \* child primary keys (positive integers)
          UVals,      \* non-NULL values of p.u (positive integers); 0 = NULL
          NVals, AVals, \* values of c.n (subset of 0..2, 0 = NULL) and of c.a (subset of 1..2)
          Sessions, Branches,
          Acts,       \* enabled action names
          RareActs,   \* actions offered only now and then in simulation
          MaxOps,     \* exhaustive bound on the number of executed statements
          InitMode,   \* "empty": empty tables; "base": any valid root, all branches on it; "triples": any valid (base, main, b1)
          AsCode,     \* TRUE: the named deviation behaves as the code does
          LeakForce,  \* TRUE: dolt_commit --force leaves @@dolt_force_transaction_commit = 1 behind (the defect repaired by dd4a340)
          Sim,        \* TRUE: statement parameters are single random draws (simulation)
          D, RecordHist

VARIABLES store,   \* [Branches -> [head, work : Root, mrg : BOOLEAN, mth : Root, ahead : BOOLEAN]]
          base,    \* root of the merge base of the (two) branches
          sess,    \* [Sessions -> [br, open, fkc, force, dirty, snap, snaph, mine : Root]]  (snap/snaph = working/head root at START TRANSACTION)
          ops,     \* number of statements executed
          esc,     \* ghost: an explicit escape has been used to write or keep a violation (per branch)
          last,    \* outcome of the last statement (not part of the VIEW)
          hist

vars == <<store, base, sess, ops, esc, last, hist>>
view == <<store, base, sess, esc>>

-----------------------------------------------------------------------------
(* Data *)
NoP == -1                                 \* p.rows[k] = NoP: no row; 0: u IS NULL; else u
NoC == [f |-> -1, n |-> -1, a |-> -1]     \* c.rows[k] = NoC: no row; f = 0 / n = 0: NULL; a \in 1..2
CRows == [f : {0} \cup PKeys, n : NVals, a : AVals]
Kinds == {"fk", "uq", "ck", "nn"}          \* dolt violation_type 1, 2, 3, 4
EmptyP == [rows |-> [k \in PKeys |-> NoP], art |-> {}]
EmptyC == [rows |-> [k \in CKeys |-> NoC], art |-> {}, nn |-> FALSE]
EmptyRoot == [p |-> EmptyP, c |-> EmptyC]
Other(b) == CHOOSE x \in Branches : Cardinality(Branches) = 1 \/ x # b

PresP(t) == {k \in PKeys : t.rows[k] # NoP}
PresC(t) == {k \in CKeys : t.rows[k] # NoC}
HasArt(r) == r.p.art # {} \/ r.c.art # {}

RECURSIVE SortInts(_)
SortInts(S) == IF S = {} THEN <<>> ELSE LET m == CHOOSE x \in S : \A y \in S : x <= y IN <<m>> \o SortInts(S \ {m})
Reverse(q) == [i \in 1..Len(q) |-> q[Len(q) + 1 - i]]

\* ---- the constraints, evaluated independently on a root (what dolt_verify_constraints('--all') must agree with)
UqBad(r) == {k \in PresP(r.p) : r.p.rows[k] > 0 /\ \E k2 \in PresP(r.p) \ {k} : r.p.rows[k2] = r.p.rows[k]}
FkBad(r) == {k \in PresC(r.c) : r.c.rows[k].f > 0 /\ r.p.rows[r.c.rows[k].f] = NoP}
CkViol(row) == row.n = 2 /\ row.a = 2
CkBad(r) == {k \in PresC(r.c) : CkViol(r.c.rows[k])}
NnBad(r) == {k \in PresC(r.c) : r.c.nn /\ r.c.rows[k].n = 0}
Violates(r) == UqBad(r) # {} \/ FkBad(r) # {} \/ CkBad(r) # {} \/ NnBad(r) # {}
\* rows that violate although no artifact records them
Unrecorded(r) == {<<"p", k>> : k \in {x \in UqBad(r) : <<x, "uq">> \notin r.p.art}}
            \cup {<<"c", k>> : k \in {x \in FkBad(r) : <<x, "fk">> \notin r.c.art}}
            \cup {<<"c", k>> : k \in {x \in CkBad(r) : <<x, "ck">> \notin r.c.art}}
            \cup {<<"c", k>> : k \in NnBad(r)}

-----------------------------------------------------------------------------
(* Three-way merge of roots: merge.MergeRoots *)
\* ---- table p (one non-key column: every two-sided change of a key that is not convergent is a data conflict)
POp(l, r, b) == IF l = b /\ r = b THEN "none" ELSE IF r = b THEN "left" ELSE IF l = b THEN "right"
                ELSE IF l = r THEN "convergent" ELSE "conflict"
PMergedRows(L, R, B) == [k \in PKeys |-> IF POp(L.rows[k], R.rows[k], B.rows[k]) = "right" THEN R.rows[k] ELSE L.rows[k]]
PConflicts(L, R, B) == {k \in PKeys : POp(L.rows[k], R.rows[k], B.rows[k]) = "conflict"}

\* uniqValidator as written: state = our unique index (sec), our rows (clus), violating keys (v); keys ascending
UniqStep(st, k, L, R, B) ==
    LET l == L.rows[k]  r == R.rows[k]  b == B.rows[k]  op == POp(l, r, b) IN
    IF op = "right" /\ r = NoP          \* DiffOpRightDelete: removeRow, then clearArtifact: the row's own record and the records
    THEN LET sec2 == st.sec \ {<<b, k>>}   \* of the rows that collided with its value are deleted again
             others == IF b = 0 THEN {} ELSE {k2 \in PKeys \ {k} : <<b, k2>> \in sec2 /\ st.clus[k2] # NoP}
         IN [sec |-> sec2, clus |-> [st.clus EXCEPT ![k] = NoP],
             v |-> IF k \in st.v THEN st.v \ ({k} \cup others) ELSE st.v]
    ELSE IF (op = "right" /\ r # NoP) \/ (op = "left" /\ l # NoP)    \* Right/Left Add/Modify
    THEN LET val == IF op = "right" THEN r ELSE l
             coll == IF val = 0 THEN {} ELSE {k2 \in PKeys \ {k} : <<val, k2>> \in st.sec /\ st.clus[k2] # NoP}
         IN [sec |-> st.sec \cup {<<val, k>>},      \* insertRow: the entry of the previous value stays (named deviation)
             clus |-> [st.clus EXCEPT ![k] = val],
             v |-> IF coll = {} THEN st.v ELSE st.v \cup coll \cup {k}]
    ELSE st
RECURSIVE UniqFold(_, _, _, _, _)
UniqFold(st, ks, L, R, B) == IF ks = <<>> THEN st ELSE UniqFold(UniqStep(st, Head(ks), L, R, B), Tail(ks), L, R, B)
UniqCode(L, R, B) == UniqFold([sec |-> {<<L.rows[k], k>> : k \in PresP(L)}, clus |-> L.rows, v |-> {}], SortInts(PKeys), L, R, B).v
UniqIdeal(L, R, B) == LET m == PMergedRows(L, R, B) IN {k \in PKeys : m[k] > 0 /\ \E k2 \in PKeys \ {k} : m[k2] = m[k]}
UniqViol(L, R, B) == IF AsCode THEN UniqCode(L, R, B) ELSE UniqIdeal(L, R, B)

\* ---- table c (three non-key columns: cell-wise merge, valueMerger.TryMerge)
Cols == {"f", "n", "a"}
CTry(l, r, b) ==      \* both sides changed the key differently
    IF b = NoC \/ l = NoC \/ r = NoC THEN [ok |-> FALSE, row |-> l]
    ELSE IF \E x \in Cols : l[x] # b[x] /\ r[x] # b[x] /\ l[x] # r[x] THEN [ok |-> FALSE, row |-> l]
    ELSE [ok |-> TRUE, row |-> [x \in Cols |-> IF r[x] # b[x] THEN r[x] ELSE l[x]]]
COp(l, r, b) == IF l = b /\ r = b THEN "none" ELSE IF r = b THEN "left" ELSE IF l = b THEN "right"
                ELSE IF l = r THEN "convergent" ELSE IF CTry(l, r, b).ok THEN "resolved" ELSE "conflict"
\* one key of table c: nullValidator first (a violating right row is not applied, a violating left/merged row is REMOVED
\* from the table), then checkValidator (the row stays, the violation is recorded)
CKey(l, r, b, nn) ==
    LET op == COp(l, r, b)
        cand == CASE op = "right" -> r [] op = "resolved" -> CTry(l, r, b).row [] OTHER -> l
        nullv == nn /\ op \in {"left", "right", "resolved"} /\ cand # NoC /\ cand.n = 0
        row == IF nullv THEN (IF op = "right" THEN l ELSE NoC) ELSE cand
        ckv == ~nullv /\ op \in {"left", "right", "convergent", "resolved"} /\ cand # NoC /\ CkViol(cand)
    IN [row |-> row, conf |-> op = "conflict", nn |-> nullv, ck |-> ckv]

\* ---- tables: MaybeShortCircuit on the table VALUE (rows, schema, artifacts), else the row-level merge
MergeP(L, R, B) ==
    IF L = R \/ R = B THEN [t |-> L, conf |-> FALSE, rowlevel |-> FALSE]
    ELSE IF L = B THEN [t |-> R, conf |-> FALSE, rowlevel |-> FALSE]
    ELSE [t |-> [rows |-> PMergedRows(L, R, B), art |-> L.art \cup R.art \cup {<<k, "uq">> : k \in UniqViol(L, R, B)}],
          conf |-> PConflicts(L, R, B) # {}, rowlevel |-> TRUE]
MergeC(L, R, B) ==
    IF L = R \/ R = B THEN [t |-> L, conf |-> FALSE, rowlevel |-> FALSE, panics |-> FALSE]
    ELSE IF L = B THEN [t |-> R, conf |-> FALSE, rowlevel |-> FALSE, panics |-> FALSE]
    ELSE LET nn == L.nn \/ R.nn
             m == [k \in CKeys |-> CKey(L.rows[k], R.rows[k], B.rows[k], nn)]
         IN [t |-> [rows |-> [k \in CKeys |-> m[k].row], nn |-> nn,
                    art |-> L.art \cup R.art \cup {<<k, "nn">> : k \in {x \in CKeys : m[x].nn}} \cup {<<k, "ck">> : k \in {x \in CKeys : m[x].ck}}],
             conf |-> \E k \in CKeys : m[k].conf, rowlevel |-> TRUE,
             \* named restriction: a CONFLICTING key whose row on our side holds NULL in the column the other side made NOT NULL makes
             \* primaryMerger.merge panic ("cannot write NULL to non-NULL field", merge_prolly_rows.go:1467): the merge fails, nothing is kept
             panics |-> \E k \in CKeys : m[k].conf /\ nn /\ L.rows[k] # NoC /\ L.rows[k].n = 0]

\* ---- foreign keys: RegisterForeignKeyViolations(newRoot = merged, baseRoot = ancestor)
FkMergeViol(M, A) ==
    {k \in PresC(M.c) :
        LET f == M.c.rows[k].f IN
        /\ f > 0 /\ M.p.rows[f] = NoP
        /\ \/ A.p.rows[f] # NoP                                  \* the parent was removed between ancestor and merged
           \/ A.c.rows[k] = NoC \/ A.c.rows[k].f # f}             \* the child (index key f, pk) is new or changed
MergeRoots(O, T, A) ==
    LET mp == MergeP(O.p, T.p, A.p)
        mc == MergeC(O.c, T.c, A.c)
        m0 == [p |-> mp.t, c |-> mc.t]
        root == [m0 EXCEPT !.c.art = @ \cup {<<k, "fk">> : k \in FkMergeViol(m0, A)}]
    IN [root |-> root, conf |-> mp.conf \/ mc.conf,
        \* named restriction: a row-level merge with artifacts on our side of that table is not generated
        unsup |-> (mp.rowlevel /\ O.p.art # {}) \/ (mc.rowlevel /\ O.c.art # {}) \/ mc.panics,
        dev |-> IF ~(O.p = T.p \/ T.p = A.p \/ O.p = A.p) /\ UniqCode(O.p, T.p, A.p) # UniqIdeal(O.p, T.p, A.p) THEN "stale-unique-entry" ELSE ""]
\* the same merge with the intended unique check (for the step's `ideal`)
MergeRootsIdeal(O, T, A) ==
    LET mp == MergeP(O.p, T.p, A.p)
        mc == MergeC(O.c, T.c, A.c)
        pt == IF mp.rowlevel THEN [mp.t EXCEPT !.art = O.p.art \cup T.p.art \cup {<<k, "uq">> : k \in UniqIdeal(O.p, T.p, A.p)}] ELSE mp.t
        m0 == [p |-> pt, c |-> mc.t]
    IN [m0 EXCEPT !.c.art = @ \cup {<<k, "fk">> : k \in FkMergeViol(m0, A)}]

-----------------------------------------------------------------------------
(* Projections shipped with every step *)
PSeq(t) == LET ks == SortInts(PresP(t)) IN [i \in 1..Len(ks) |-> <<ks[i], t.rows[ks[i]]>>]
CSeq(t) == LET ks == SortInts(PresC(t)) IN [i \in 1..Len(ks) |-> <<ks[i], t.rows[ks[i]].f, t.rows[ks[i]].n, t.rows[ks[i]].a>>]
KindNo(kd) == CASE kd = "fk" -> 1 [] kd = "uq" -> 2 [] kd = "ck" -> 3 [] OTHER -> 4
ArtSeq(art) == LET q == SortInts({x[1] * 10 + KindNo(x[2]) : x \in art})      \* sorted by (key, kind)
               IN [i \in 1..Len(q) |-> <<q[i] \div 10, q[i] % 10>>]
RootProj(r) == [p |-> PSeq(r.p), pa |-> ArtSeq(r.p.art), c |-> CSeq(r.c), ca |-> ArtSeq(r.c.art), nn |-> r.c.nn,
                bad |-> Violates(r) \/ HasArt(r)]      \* dolt_verify_constraints('--all', '--output-only') returns 1
ViewIn(st, se, s) == IF se[s].open THEN se[s].mine ELSE st[se[s].br].work
ViewOf(s) == ViewIn(store, sess, s)
\* the projection of a state (hist keeps the states; they are projected only when a finished behaviour is emitted)
ProjOf(st, se) == [st |-> [b \in Branches |-> [h |-> RootProj(st[b].head), w |-> RootProj(st[b].work), mrg |-> st[b].mrg]],
                   ses |-> [s \in Sessions |-> [br |-> se[s].br, open |-> se[s].open, force |-> se[s].force, v |-> RootProj(ViewIn(st, se, s))]]]

-----------------------------------------------------------------------------
(* Bookkeeping *)
\* (RE mentions the variable ops on purpose: TLC caches constant-level expressions, which would freeze the draw)
RE(S) == RandomElement(IF ops >= -1 THEN S ELSE {})
Pick(S) == IF Sim THEN (IF S = {} THEN {} ELSE {RE(S)}) ELSE S
Rarely == ~Sim \/ RE(1..4) = 1
On(a) == a \in Acts /\ (a \in RareActs => Rarely) /\ ops >= 0 /\ ops < MaxOps
NoIdeal == <<>>
Fin(s, a, args, res, att) ==
    /\ ops' = ops + (IF a \in {"Begin", "Rollback", "SetFkc", "SetForce", "Checkout"} THEN 0 ELSE 1)   \* the bound counts data statements, commits and merges
    /\ last' = [s |-> s, a |-> a, args |-> args, res |-> res] @@ att
    /\ hist' = IF RecordHist THEN Append(hist, [a |-> a, s |-> s, args |-> args, res |-> res, st |-> store', se |-> sess']) ELSE hist
NoAtt == [att |-> FALSE, merged |-> FALSE]

Closed(rec) == [rec EXCEPT !.open = FALSE, !.dirty = FALSE, !.snap = EmptyRoot, !.snaph = EmptyRoot, !.mine = EmptyRoot]

(* DoltTransaction.doCommit for session record rec with view mine (dirty: the session wrote something):
   [res, w (new persisted working root), dev, ideal].  Fast-forward when the persisted working AND staged roots are those of
   the transaction's start (workingAndStagedEqual; the staged root of this model always equals the head root); otherwise
   the working roots are merged -- also when only the head moved: then every table is taken from the session, but
   AddForeignKeyViolations still runs over the session's own changes. *)
TxCommit(rec, mine, dirty) ==
    LET b == rec.br
        cur == store[b].work
        start == IF rec.open THEN rec.snap ELSE cur
        starth == IF rec.open THEN rec.snaph ELSE store[b].head
        No(res, w) == [res |-> res, w |-> w, merged |-> FALSE, dev |-> "", ideal |-> NoIdeal, unsup |-> FALSE]
    IN IF ~dirty THEN No("ok", cur)
       ELSE IF cur = start /\ store[b].head = starth      \* fast-forward
       THEN No(IF HasArt(mine) /\ ~rec.force THEN "constraint" ELSE "ok", mine)
       ELSE IF cur = mine THEN No(IF HasArt(mine) /\ ~rec.force THEN "constraint" ELSE "ok", mine)
       ELSE LET m == MergeRoots(cur, mine, start)
                mi == MergeRootsIdeal(cur, mine, start)
                res == IF m.conf THEN "retry" ELSE IF HasArt(m.root) /\ ~rec.force THEN "constraint" ELSE "ok"
                ires == IF m.conf THEN "retry" ELSE IF HasArt(mi) /\ ~rec.force THEN "constraint" ELSE "ok"
            IN [res |-> res, w |-> m.root, merged |-> TRUE, dev |-> m.dev, unsup |-> m.unsup,
                ideal |-> IF m.dev = "" THEN NoIdeal ELSE [res |-> ires, w |-> RootProj(mi)]]

SetWork(b, w) == store' = [store EXCEPT ![b].work = w]
EscIf(b, c) == esc' = IF c THEN [esc EXCEPT ![b] = TRUE] ELSE esc

(* An ordinary data statement of session s whose effect on the session's view is newv (= view on a statement error).
   usedEsc: the statement wrote something only foreign_key_checks = 0 allowed. *)
Stmt(s, a, args, newv, sres, usedEsc) ==
    LET rec == sess[s]  b == rec.br  wrote == newv # ViewOf(s) IN
    IF rec.open
    THEN /\ sess' = [sess EXCEPT ![s].mine = newv, ![s].dirty = @ \/ (sres = "ok" /\ wrote)]
         /\ UNCHANGED <<store, base>>
         /\ EscIf(b, usedEsc)
         /\ Fin(s, a, args, sres, NoAtt)
    ELSE LET tc == TxCommit(rec, newv, sres = "ok" /\ wrote) IN
         /\ ~tc.unsup
         /\ UNCHANGED <<sess, base>>
         /\ IF sres = "ok" /\ tc.res = "ok" THEN SetWork(b, tc.w) ELSE UNCHANGED store
         /\ EscIf(b, (usedEsc \/ (rec.force /\ HasArt(tc.w))) /\ sres = "ok" /\ tc.res = "ok")
         /\ Fin(s, a, args, IF sres # "ok" THEN sres ELSE tc.res, NoAtt)

-----------------------------------------------------------------------------
(* DML on p *)
UClash(t, k, u) == u > 0 /\ \E k2 \in PresP(t) \ {k} : t.rows[k2] = u
Refs(v, k) == {x \in PresC(v.c) : v.c.rows[x].f = k}
InsP(s, k, u) ==
    LET v == ViewOf(s)
        err == IF v.p.rows[k] # NoP THEN "duppk" ELSE IF UClash(v.p, k, u) THEN "dupuq" ELSE "ok"
    IN /\ On("InsP")
       /\ Stmt(s, "InsP", [k |-> k, u |-> u], IF err = "ok" THEN [v EXCEPT !.p.rows[k] = u] ELSE v, err, FALSE)
UpdP(s, k, u) ==
    LET v == ViewOf(s)
        err == IF v.p.rows[k] = NoP \/ v.p.rows[k] = u THEN "ok" ELSE IF UClash(v.p, k, u) THEN "dupuq" ELSE "ok"
    IN /\ On("UpdP") /\ v.p.rows[k] # NoP /\ v.p.rows[k] # u
       /\ Stmt(s, "UpdP", [k |-> k, u |-> u], IF err = "ok" THEN [v EXCEPT !.p.rows[k] = u] ELSE v, err, FALSE)
DelP(s, k) ==
    LET v == ViewOf(s)
        blocked == sess[s].fkc /\ Refs(v, k) # {}
    IN /\ On("DelP") /\ v.p.rows[k] # NoP
       /\ Stmt(s, "DelP", [k |-> k], IF blocked THEN v ELSE [v EXCEPT !.p.rows[k] = NoP], IF blocked THEN "fkparent" ELSE "ok",
               ~sess[s].fkc /\ Refs(v, k) # {})
\* REPLACE INTO p VALUES (k, u): delete the row with pk k and the row holding u, insert (k, u)
ReplP(s, k, u) ==
    LET v == ViewOf(s)
        gone == {k} \cup {k2 \in PresP(v.p) : u > 0 /\ v.p.rows[k2] = u}
    IN /\ On("ReplP") /\ \A x \in gone : Refs(v, x) = {}
       /\ Stmt(s, "ReplP", [k |-> k, u |-> u, n |-> Cardinality(gone \cap PresP(v.p))],
               [v EXCEPT !.p.rows = [x \in PKeys |-> IF x = k THEN u ELSE IF x \in gone THEN NoP ELSE v.p.rows[x]]], "ok", FALSE)
\* INSERT INTO p VALUES (k, u) ON DUPLICATE KEY UPDATE u = u2: the one clashing row gets u2
OdkuP(s, k, u, u2) ==
    LET v == ViewOf(s)
        clash == (IF v.p.rows[k] # NoP THEN {k} ELSE {}) \cup {k2 \in PresP(v.p) : u > 0 /\ v.p.rows[k2] = u}
        tgt == CHOOSE x \in clash : TRUE
        err == IF clash = {} THEN "ok" ELSE IF v.p.rows[tgt] # u2 /\ UClash(v.p, tgt, u2) THEN "dupuq" ELSE "ok"
    IN /\ On("OdkuP") /\ Cardinality(clash) <= 1
       /\ Stmt(s, "OdkuP", [k |-> k, u |-> u, u2 |-> u2, upd |-> clash # {}],
               IF err # "ok" THEN v ELSE IF clash = {} THEN [v EXCEPT !.p.rows[k] = u] ELSE [v EXCEPT !.p.rows[tgt] = u2], err, FALSE)
\* UPDATE p SET u = <rotation of the non-NULL values> WHERE u IS NOT NULL ORDER BY pk ASC|DESC: row by row against the
\* rows already rewritten by the same statement (pending edits); the first clash fails the whole statement
MaxU == CHOOSE x \in UVals : \A y \in UVals : y <= x
MinU == CHOOSE x \in UVals : \A y \in UVals : x <= y
Rot(u) == IF u = MaxU THEN MinU ELSE CHOOSE x \in UVals : x > u /\ \A y \in UVals : y > u => x <= y
RECURSIVE RotFold(_, _)
RotFold(rows, ks) ==
    IF ks = <<>> THEN [ok |-> TRUE, rows |-> rows]
    ELSE LET k == Head(ks)  nu == Rot(rows[k]) IN
         IF \E k2 \in PKeys \ {k} : rows[k2] = nu THEN [ok |-> FALSE, rows |-> rows]
         ELSE RotFold([rows EXCEPT ![k] = nu], Tail(ks))
RotP(s, asc) ==
    LET v == ViewOf(s)
        ks == SortInts({k \in PresP(v.p) : v.p.rows[k] > 0})
        f == RotFold(v.p.rows, IF asc THEN ks ELSE Reverse(ks))
    IN /\ On("RotP") /\ Len(ks) > 0 /\ Cardinality(UVals) > 1
       /\ Stmt(s, "RotP", [asc |-> asc, n |-> Len(ks)], IF f.ok THEN [v EXCEPT !.p.rows = f.rows] ELSE v, IF f.ok THEN "ok" ELSE "dupuq", FALSE)

(* DML on c *)
\* order of go-mysql-server: NOT NULL, CHECK, FOREIGN KEY; the table writer's duplicate-key check comes last
CErr(s, v, row) == IF v.c.nn /\ row.n = 0 THEN "notnull" ELSE IF CkViol(row) THEN "check"
                   ELSE IF sess[s].fkc /\ row.f > 0 /\ v.p.rows[row.f] = NoP THEN "fkchild" ELSE "ok"
Dangling(s, v, row) == ~sess[s].fkc /\ row.f > 0 /\ v.p.rows[row.f] = NoP
InsC(s, k, row) ==
    LET v == ViewOf(s)
        err == IF CErr(s, v, row) # "ok" THEN CErr(s, v, row) ELSE IF v.c.rows[k] # NoC THEN "duppk" ELSE "ok"
    IN /\ On("InsC")
       /\ Stmt(s, "InsC", [k |-> k, f |-> row.f, n |-> row.n, a |-> row.a], IF err = "ok" THEN [v EXCEPT !.c.rows[k] = row] ELSE v, err,
               err = "ok" /\ Dangling(s, v, row))
UpdC(s, k, col, x) ==
    LET v == ViewOf(s)
        row == [v.c.rows[k] EXCEPT ![col] = x]
        \* go-mysql-server re-validates the foreign key only when the FK column changes
        err == IF col = "f" THEN CErr(s, v, row) ELSE IF v.c.nn /\ row.n = 0 THEN "notnull" ELSE IF CkViol(row) THEN "check" ELSE "ok"
    IN /\ On("UpdC") /\ v.c.rows[k] # NoC /\ v.c.rows[k][col] # x
       /\ Stmt(s, "UpdC", [k |-> k, col |-> col, x |-> x], IF err = "ok" THEN [v EXCEPT !.c.rows[k] = row] ELSE v, err,
               err = "ok" /\ col = "f" /\ Dangling(s, v, row))
DelC(s, k) ==
    LET v == ViewOf(s) IN
    /\ On("DelC") /\ v.c.rows[k] # NoC
    /\ Stmt(s, "DelC", [k |-> k], [v EXCEPT !.c.rows[k] = NoC], "ok", FALSE)
\* ALTER TABLE c MODIFY n INT NOT NULL (autocommit sessions only; refused when a NULL exists)
AlterNN(s) ==
    LET v == ViewOf(s)
        bad == \E k \in PresC(v.c) : v.c.rows[k].n = 0
    IN /\ On("AlterNN") /\ ~sess[s].open /\ ~v.c.nn
       /\ Stmt(s, "AlterNN", <<>>, IF bad THEN v ELSE [v EXCEPT !.c.nn = TRUE], IF bad THEN "nullpresent" ELSE "ok", FALSE)

-----------------------------------------------------------------------------
(* Transaction control and session flags *)
Begin(s) ==
    /\ On("Begin") /\ ~sess[s].open
    /\ sess' = [sess EXCEPT ![s].open = TRUE, ![s].snap = store[sess[s].br].work, ![s].snaph = store[sess[s].br].head, ![s].mine = store[sess[s].br].work]
    /\ UNCHANGED <<store, base, esc>>
    /\ Fin(s, "Begin", <<>>, "ok", NoAtt)
Commit(s) ==
    LET rec == sess[s]  b == rec.br  tc == TxCommit(rec, rec.mine, rec.dirty) IN
    /\ On("Commit") /\ rec.open /\ ~tc.unsup
    /\ sess' = [sess EXCEPT ![s] = Closed(rec)]
    /\ IF tc.res = "ok" THEN SetWork(b, tc.w) ELSE UNCHANGED store
    /\ EscIf(b, tc.res = "ok" /\ rec.force /\ HasArt(tc.w))
    /\ UNCHANGED base
    /\ Fin(s, "Commit", [dev |-> tc.dev, ideal |-> tc.ideal], tc.res,
           [att |-> TRUE, merged |-> tc.merged, start |-> rec.snap, cur |-> store[b].work, mine |-> rec.mine, force |-> rec.force])
Rollback(s) ==
    /\ On("Rollback") /\ sess[s].open
    /\ sess' = [sess EXCEPT ![s] = Closed(sess[s])]
    /\ UNCHANGED <<store, base, esc>>
    /\ Fin(s, "Rollback", <<>>, "ok", NoAtt)
SetFkc(s, x) ==
    /\ On("SetFkc") /\ sess[s].fkc # x
    /\ sess' = [sess EXCEPT ![s].fkc = x] /\ UNCHANGED <<store, base, esc>>
    /\ Fin(s, "SetFkc", [x |-> x], "ok", NoAtt)
SetForce(s, x) ==
    /\ On("SetForce") /\ sess[s].force # x
    /\ sess' = [sess EXCEPT ![s].force = x] /\ UNCHANGED <<store, base, esc>>
    /\ Fin(s, "SetForce", [x |-> x], "ok", NoAtt)
Checkout(s, b2) ==
    /\ On("Checkout") /\ ~sess[s].open /\ b2 # sess[s].br
    /\ sess' = [sess EXCEPT ![s].br = b2] /\ UNCHANGED <<store, base, esc>>
    /\ Fin(s, "Checkout", [b |-> b2], "ok", NoAtt)

-----------------------------------------------------------------------------
(* dolt commits and merges (sessions outside START TRANSACTION) *)
\* after a commit that completes a merge of b2 into b: b2's head is the new merge base
AfterMergeCommit(b, root) ==
    LET b2 == Other(b) IN
    /\ store' = [store EXCEPT ![b] = [head |-> root, work |-> root, mrg |-> FALSE, mth |-> EmptyRoot, ahead |-> TRUE], ![b2].ahead = FALSE]
    /\ base' = store[b].mth
\* CALL dolt_commit('-A', '-m', ..) / with '--force'
\* REPAIRED DEVIATION "commit-force-leaks-session-flag" (dprocedures/dolt_commit.go:170-175, fixed by dd4a340): dolt_commit('--force') SET
\* the session variable @@dolt_force_transaction_commit = 1 and never reset it, whether the commit succeeded or not: every later
\* transaction of that session committed constraint violations (and conflicts) although the user asked to force ONE commit.
\* Constant LeakForce = TRUE re-creates that behaviour (used to show that the check sees a revert of the fix); all configs set FALSE.
DoltCommit(s, forced) ==
    LET rec == sess[s]  b == rec.br  st == store[b]  name == IF forced THEN "CommitForce" ELSE "DoltCommit"
        leak == LeakForce /\ forced /\ ~rec.force
        args == [dev |-> IF leak /\ AsCode THEN "commit-force-leaks-session-flag" ELSE "", ideal |-> NoIdeal] IN
    /\ On(name) /\ ~rec.open
    /\ sess' = IF leak /\ AsCode THEN [sess EXCEPT ![s].force = TRUE] ELSE sess
    /\ IF st.work = st.head /\ ~st.mrg THEN Rarely /\ UNCHANGED <<store, base, esc>> /\ Fin(s, name, args, "nothing", NoAtt)
       ELSE IF HasArt(st.work) /\ ~forced THEN UNCHANGED <<store, base, esc>> /\ Fin(s, name, args, "violations", NoAtt)
       ELSE /\ IF st.mrg THEN AfterMergeCommit(b, st.work)
               ELSE store' = [store EXCEPT ![b].head = st.work, ![b].ahead = TRUE] /\ UNCHANGED base
            /\ EscIf(b, forced /\ HasArt(st.work))
            /\ Fin(s, name, args, "ok", NoAtt)
\* CALL dolt_merge(b2) from a clean working set
Merge(s, b2) ==
    LET rec == sess[s]  b == rec.br  st == store[b]
        m == MergeRoots(st.work, store[b2].head, base)
        mi == MergeRootsIdeal(st.work, store[b2].head, base)
        args == [b |-> b2, dev |-> m.dev,
                 ideal |-> IF m.dev = "" THEN NoIdeal ELSE [res |-> IF m.conf THEN "conflict" ELSE IF HasArt(mi) THEN (IF rec.force THEN "violations" ELSE "constraint") ELSE "ok",
                                                            w |-> RootProj(mi)]]
        att == [att |-> FALSE, merged |-> TRUE, o |-> st.work, t |-> store[b2].head, anc |-> base, force |-> rec.force]
    IN
    /\ On("Merge") /\ ~rec.open /\ b2 # b /\ ~st.mrg /\ st.work = st.head
    /\ UNCHANGED sess
    /\ IF ~store[b2].ahead THEN Rarely /\ UNCHANGED <<store, base, esc>> /\ Fin(s, "Merge", [b |-> b2, dev |-> "", ideal |-> NoIdeal], "uptodate", NoAtt)
       ELSE IF ~st.ahead
       THEN /\ store' = [store EXCEPT ![b].head = store[b2].head, ![b].work = store[b2].head, ![b2].ahead = FALSE]
            /\ base' = store[b2].head
            /\ esc' = [esc EXCEPT ![b] = esc[b] \/ esc[b2]]
            /\ Fin(s, "Merge", [b |-> b2, dev |-> "", ideal |-> NoIdeal], "ff", NoAtt)
       ELSE /\ ~m.unsup
            /\ (m.conf => ~rec.force)     \* named restriction: with force a data conflict would be KEPT in the working set (conflict tables: C43)
            /\ IF m.conf      \* data conflict: the autocommit of the call is refused (dolt_allow_commit_conflicts = 0), nothing is kept
               THEN UNCHANGED <<store, base, esc>> /\ Fin(s, "Merge", args, "conflict", att)
               ELSE IF HasArt(m.root)
               THEN IF rec.force
                    THEN /\ store' = [store EXCEPT ![b].work = m.root, ![b].mrg = TRUE, ![b].mth = store[b2].head]
                         /\ UNCHANGED base
                         /\ esc' = [esc EXCEPT ![b] = TRUE]            \* violations kept on purpose (force)
                         /\ Fin(s, "Merge", args, "violations", att)
                    ELSE UNCHANGED <<store, base, esc>> /\ Fin(s, "Merge", args, "constraint", att)
               ELSE /\ store' = [store EXCEPT ![b] = [head |-> m.root, work |-> m.root, mrg |-> FALSE, mth |-> EmptyRoot, ahead |-> TRUE], ![b2].ahead = FALSE]
                    /\ base' = store[b2].head
                    /\ esc' = [esc EXCEPT ![b] = esc[b] \/ esc[b2]]
                    /\ Fin(s, "Merge", args, "ok", att)
\* CALL dolt_merge('--abort')
AbortMerge(s) ==
    LET b == sess[s].br IN
    /\ On("AbortMerge") /\ ~sess[s].open /\ store[b].mrg
    /\ store' = [store EXCEPT ![b].work = store[b].head, ![b].mrg = FALSE, ![b].mth = EmptyRoot]
    /\ UNCHANGED <<sess, base, esc>>
    /\ Fin(s, "AbortMerge", <<>>, "ok", NoAtt)
\* resolution by the user: delete the rows named by dolt_constraint_violations_<t>, then delete the violation records
\* (one statement each; modelled as one step of a force session so that the intermediate commit is accepted)
ResolveDel(s, t) ==
    LET rec == sess[s]  b == rec.br  w == store[b].work
        keys == {x[1] : x \in w[t].art}
        w2 == IF t = "p" THEN [w EXCEPT !.p.rows = [k \in PKeys |-> IF k \in keys THEN NoP ELSE w.p.rows[k]], !.p.art = {}]
              ELSE [w EXCEPT !.c.rows = [k \in CKeys |-> IF k \in keys THEN NoC ELSE w.c.rows[k]], !.c.art = {}]
    IN /\ On("ResolveDel") /\ ~rec.open /\ rec.force /\ w[t].art # {}
       /\ (t = "p" => \A k \in keys : Refs(w, k) = {} \/ ~rec.fkc)
       /\ SetWork(b, w2)
       /\ EscIf(b, t = "p" /\ \E k \in keys : Refs(w, k) # {})
       /\ UNCHANGED <<sess, base>>
       /\ Fin(s, "ResolveDel", [t |-> t], "ok", NoAtt)

-----------------------------------------------------------------------------
\* every root over the key space that satisfies all constraints (no artifacts)
AllPOf(acts) == {[rows |-> f, art |-> {}] : f \in [PKeys -> {NoP, 0} \cup UVals]}
AllCOf(acts) == {[rows |-> f, art |-> {}, nn |-> x] : f \in [CKeys -> {NoC} \cup CRows], x \in (IF "AlterNN" \in acts THEN BOOLEAN ELSE {FALSE})}
ValidRootsOf(acts) == {r \in {[p |-> x, c |-> y] : x \in AllPOf(acts), y \in AllCOf(acts)} : ~Violates(r)}
BranchAt(r, ah) == [head |-> r, work |-> r, mrg |-> FALSE, mth |-> EmptyRoot, ahead |-> ah]
Init == /\ \/ InitMode \in {"empty", "random"} /\ base = EmptyRoot /\ store = [b \in Branches |-> BranchAt(EmptyRoot, FALSE)]
           \/ InitMode = "base" /\ base \in ValidRootsOf(Acts) /\ store = [b \in Branches |-> BranchAt(base, FALSE)]
           \/ /\ InitMode = "triples" /\ base \in ValidRootsOf(Acts)
              /\ \E l \in ValidRootsOf(Acts), r \in ValidRootsOf(Acts) :
                    /\ (base.c.nn => l.c.nn /\ r.c.nn)
                    /\ (Sim => l # base /\ r # base /\ ~MergeRoots(l, r, base).conf /\ ~MergeRoots(l, r, base).unsup)   \* generator: merges that get through
                    /\ store = [b \in Branches |-> IF b = "main" THEN BranchAt(l, l # base) ELSE BranchAt(r, r # base)]
        /\ sess = [s \in Sessions |-> [br |-> "main", open |-> FALSE, fkc |-> TRUE, force |-> FALSE, dirty |-> FALSE, snap |-> EmptyRoot, snaph |-> EmptyRoot, mine |-> EmptyRoot]]
        /\ ops = IF InitMode = "random" THEN -1 ELSE 0
        /\ esc = [b \in Branches |-> FALSE]
        /\ last = [s |-> "", a |-> "Init", args |-> <<>>, res |-> "ok"] @@ NoAtt
        \* the first history record tells the engine which roots to set up
        /\ hist = IF RecordHist /\ InitMode # "random" THEN <<[a |-> "Init", s |-> "", args |-> [base |-> RootProj(base)], res |-> "ok", st |-> store, se |-> sess]>> ELSE <<>>


(* Simulation only (InitMode = "random"): the first step draws a random VALID base root and, with two branches, random valid
   heads derived from it (TLC's simulator enumerates the initial states once, so the draw cannot be part of Init).
   Draws are repaired into valid roots: a duplicate unique value becomes NULL, a dangling reference NULL, a CHECK-violating
   or NULL-under-NOT-NULL cell another value. Functions are built with EXCEPT (evaluated eagerly, one draw per key). *)
\* repair: a unique value already used by a smaller key becomes NULL
RECURSIVE FixP(_, _, _)
FixP(rows, ks, used) ==
    IF ks = <<>> THEN rows
    ELSE LET k == Head(ks)  v == rows[k] IN
         IF v > 0 /\ v \in used THEN FixP([rows EXCEPT ![k] = 0], Tail(ks), used)
         ELSE FixP(rows, Tail(ks), IF v > 0 THEN used \cup {v} ELSE used)
NonZero(S, avoid) == IF S \ {0, avoid} = {} THEN CHOOSE x \in S : TRUE ELSE CHOOSE x \in S \ {0, avoid} : TRUE
FixCRow(row, prows, nn) ==
    IF row = NoC THEN NoC
    ELSE LET f == IF row.f > 0 /\ prows[row.f] = NoP THEN 0 ELSE row.f
             n == IF nn /\ row.n = 0 THEN NonZero(NVals, 2) ELSE row.n
             a == IF n = 2 /\ row.a = 2 THEN NonZero(AVals, 2) ELSE row.a
         IN [f |-> f, n |-> n, a |-> a]
PVals == {NoP, 0} \cup UVals
Mix(from, draw, mask) == [k \in DOMAIN from |-> IF mask[k] = 1 THEN draw[k] ELSE from[k]]     \* a third of the keys are redrawn
\* child rows: a third redrawn, a third changed in ONE cell (so that the two sides often change different cells of one row)
MixC(from, draw, mask, col) ==
    [k \in DOMAIN from |-> IF mask[k] = 1 THEN draw[k]
                           ELSE IF mask[k] = 2 /\ from[k] # NoC /\ draw[k] # NoC THEN [from[k] EXCEPT ![col[k]] = draw[k][col[k]]]
                           ELSE from[k]]
MkRoot(pr, cr, nn) == [p |-> [rows |-> pr, art |-> {}], c |-> [rows |-> cr, art |-> {}, nn |-> nn]]
RandomSetup ==
    /\ InitMode = "random" /\ ops = -1
    /\ \E bpf \in {RE([PKeys -> PVals])}, lpf \in {RE([PKeys -> PVals])}, rpf \in {RE([PKeys -> PVals])} :
       \E bcr \in {RE([CKeys -> CRows])}, lcr \in {RE([CKeys -> CRows])}, rcr \in {RE([CKeys -> CRows])} :
       \E bcq \in {RE([CKeys -> 1..3])}, lcq \in {RE([CKeys -> 1..3])}, rcq \in {RE([CKeys -> 1..3])} :       \* a third of the drawn child rows are "no row"
       \E bcf \in {[k \in CKeys |-> IF bcq[k] = 1 THEN NoC ELSE bcr[k]]}, lcf \in {[k \in CKeys |-> IF lcq[k] = 1 THEN NoC ELSE lcr[k]]},
          rcf \in {[k \in CKeys |-> IF rcq[k] = 1 THEN NoC ELSE rcr[k]]} :
       \E lpm \in {RE([PKeys -> 1..3])}, rpm \in {RE([PKeys -> 1..3])}, lcm \in {RE([CKeys -> 1..3])}, rcm \in {RE([CKeys -> 1..3])} :
       \E lcol \in {RE([CKeys -> Cols])}, rcol \in {RE([CKeys -> Cols])} :
       \E lnn \in {"AlterNN" \in Acts /\ RE(1..3) = 1}, rnn \in {"AlterNN" \in Acts /\ RE(1..3) = 1} :
       \E triple \in {Cardinality(Branches) > 1 /\ RE(1..3) # 1} :
          LET ks == SortInts(PKeys)
              bp == FixP(bpf, ks, {})
              bc == [k \in CKeys |-> FixCRow(bcf[k], bp, FALSE)]
              lp == FixP(Mix(bp, lpf, lpm), ks, {})
              rp == FixP(Mix(bp, rpf, rpm), ks, {})
              lc == [k \in CKeys |-> FixCRow(MixC(bc, lcf, lcm, lcol)[k], lp, lnn)]
              rc == [k \in CKeys |-> FixCRow(MixC(bc, rcf, rcm, rcol)[k], rp, rnn)]
              b0 == MkRoot(bp, bc, FALSE)  l == MkRoot(lp, lc, lnn)  r == MkRoot(rp, rc, rnn) IN
          /\ base' = b0
          /\ store' = [b \in Branches |-> IF ~triple THEN BranchAt(b0, FALSE) ELSE IF b = "main" THEN BranchAt(l, l # b0) ELSE BranchAt(r, r # b0)]
    /\ ops' = 0 /\ UNCHANGED <<sess, esc, last>>
    /\ hist' = <<[a |-> "Init", s |-> "", args |-> [base |-> RootProj(base')], res |-> "ok", st |-> store', se |-> sess]>>

FreeP(s) == {k \in PKeys : ViewOf(s).p.rows[k] = NoP}
UsedP(s) == PresP(ViewOf(s).p)
UsedC(s) == PresC(ViewOf(s).c)
U0 == UVals \cup {0}
\* simulation: mostly statements that apply (a duplicate-key insert now and then)
InsKeysP(s) == IF ~Sim THEN PKeys ELSE IF FreeP(s) # {} /\ RE(1..6) # 1 THEN FreeP(s) ELSE IF RE(1..3) = 1 THEN PKeys ELSE {}
InsKeysC(s) == IF ~Sim THEN CKeys ELSE IF (CKeys \ UsedC(s)) # {} /\ RE(1..6) # 1 THEN CKeys \ UsedC(s) ELSE IF RE(1..3) = 1 THEN CKeys ELSE {}
ColVals(col) == IF col = "f" THEN {0} \cup PKeys ELSE IF col = "n" THEN NVals ELSE AVals
\* simulation steering: a session inside a transaction that has already written prefers to commit; autocommit statements
\* are offered less often than START TRANSACTION
Steer(s) == ~Sim \/ (IF sess[s].open THEN (~sess[s].dirty \/ RE(1..3) = 1) ELSE RE(1..(IF "Begin" \in Acts THEN 2 ELSE 4)) = 1)
Next ==
    \/ RandomSetup
    \/ \E s \in Pick(Sessions) :
        \/ /\ Steer(s)
           /\ \/ \E k \in Pick(InsKeysP(s)), u \in Pick(U0) : InsP(s, k, u)
              \/ \E k \in Pick(UsedP(s)), u \in Pick(U0) : UpdP(s, k, u)
              \/ \E k \in Pick(UsedP(s)) : DelP(s, k)
              \/ \E k \in Pick(PKeys), u \in Pick(U0) : ReplP(s, k, u)
              \/ \E k \in Pick(PKeys), u \in Pick(U0), u2 \in Pick(U0) : OdkuP(s, k, u, u2)
              \/ \E asc \in Pick(BOOLEAN) : RotP(s, asc)
              \/ \E k \in Pick(InsKeysC(s)), row \in Pick(CRows) : InsC(s, k, row)
              \/ \E k \in Pick(UsedC(s)), col \in Pick(Cols) : \E x \in Pick(ColVals(col)) : UpdC(s, k, col, x)
              \/ \E k \in Pick(UsedC(s)) : DelC(s, k)
              \/ AlterNN(s)
        \/ Begin(s) \/ Commit(s) \/ Rollback(s)
        \/ \E x \in Pick(BOOLEAN) : SetFkc(s, x) \/ SetForce(s, x)
        \/ \E b2 \in Pick(Branches) : Checkout(s, b2) \/ Merge(s, b2)
        \/ DoltCommit(s, FALSE) \/ DoltCommit(s, TRUE)
        \/ AbortMerge(s)
        \/ \E t \in Pick({"p", "c"}) : ResolveDel(s, t)
Spec == Init /\ [][Next]_vars

-----------------------------------------------------------------------------
(* What TLC checks on the model *)
RootOK(r) == /\ \A k \in PKeys : r.p.rows[k] \in {NoP, 0} \cup UVals
             /\ \A k \in CKeys : r.c.rows[k] = NoC \/ r.c.rows[k] \in CRows
             /\ r.p.art \subseteq PKeys \X Kinds /\ r.c.art \subseteq CKeys \X Kinds
TypeOK == /\ \A b \in Branches : RootOK(store[b].head) /\ RootOK(store[b].work)
          /\ RootOK(base)
          /\ \A s \in Sessions : sess[s].br \in Branches /\ RootOK(sess[s].mine) /\ (~sess[s].open => sess[s].mine = EmptyRoot /\ sess[s].snap = EmptyRoot)

(* C24: every persisted working set and every commit satisfies the constraints, except for rows that are RECORDED as
   violations (only possible after an explicit force) and what was written under an explicit escape. *)
CommittedSatisfiesConstraints ==
    \A b \in Branches : ~esc[b] =>
        /\ Unrecorded(store[b].work) = {} /\ Unrecorded(store[b].head) = {}
        /\ ~HasArt(store[b].work) /\ ~HasArt(store[b].head)
\* whatever escape was used: unique, CHECK and NOT NULL violations are never kept silently (only foreign keys can be
\* switched off); an unrecorded dangling child exists only on a branch where an escape was used
UnrecNonFk(r) == {k \in UqBad(r) : <<k, "uq">> \notin r.p.art} \cup {k \in CkBad(r) : <<k, "ck">> \notin r.c.art} \cup NnBad(r)
NoSilentNonFkViolation == \A b \in Branches : UnrecNonFk(store[b].work) = {} /\ UnrecNonFk(store[b].head) = {}

Br == sess[last'.s].br
(* Merges (transaction merges and dolt_merge) record exactly the violations of the result: stated on the intended
   semantics (exhaustive configs have AsCode = FALSE). *)
\* an accepted transaction merge of a session without force leaves a working set without violations or records
AcceptedTxMergeIsClean ==
    [][(last'.a = "Commit" /\ last'.merged /\ last'.res = "ok" /\ ~last'.force /\ ~esc'[Br])
          => (~Violates(store'[Br].work) /\ ~HasArt(store'[Br].work))]_vars
\* a refused commit or merge leaves nothing behind ...
RefusedLeavesNoTrace == [][(last'.res \in {"constraint", "retry", "conflict", "violations-kept"}) => store' = store]_vars
\* every artifact of a merge result m of (o, t) is inherited or names a row that violates that very constraint
\* (for NOT NULL: the NULL row of one side, which the merge dropped)
ArtsReal(m, o, t) ==
    /\ \A x \in m.p.art : x \in o.p.art \cup t.p.art \/ x[1] \in UqBad(m)
    /\ \A x \in m.c.art : \/ x \in o.c.art \cup t.c.art
                          \/ (x[2] = "fk" /\ x[1] \in FkBad(m)) \/ (x[2] = "ck" /\ x[1] \in CkBad(m))
                          \/ (x[2] = "nn" /\ m.c.nn /\ (o.c.rows[x[1]].n = 0 \/ t.c.rows[x[1]].n = 0))
\* ... and a transaction merge is refused for constraints only when the combination really violates one (or carries a record)
RefusalIsJustified ==
    [][(last'.a = "Commit" /\ last'.merged /\ last'.res = "constraint")
          => LET m == MergeRootsIdeal(last'.cur, last'.mine, last'.start) IN HasArt(m) /\ ArtsReal(m, last'.cur, last'.mine)]_vars
\* every violation a dolt_merge records is real
MergeViolationsAreReal ==
    [][(last'.a = "Merge" /\ last'.res \in {"violations", "constraint"})
          => LET m == MergeRootsIdeal(last'.o, last'.t, last'.anc) IN HasArt(m) /\ ArtsReal(m, last'.o, last'.t)]_vars
\* completeness: a merge of inputs without unrecorded violations has no unrecorded violation: nothing is kept silently;
\* and nothing is dropped silently: a row of either side that is missing from the result was deleted by the other side or is recorded
MergeKeepsNothingSilently ==
    [][(last'.a = "Merge" /\ last'.res \in {"ok", "violations"})
          => LET w == store'[Br].work IN
             /\ (Unrecorded(last'.o) = {} /\ Unrecorded(last'.t) = {} /\ Unrecorded(last'.anc) = {}) => Unrecorded(w) = {}
             /\ \A k \in CKeys : (w.c.rows[k] = NoC /\ (last'.o.c.rows[k] # NoC \/ last'.t.c.rows[k] # NoC))
                    => \/ <<k, "nn">> \in w.c.art
                       \/ (last'.anc.c.rows[k] # NoC /\ (last'.o.c.rows[k] = NoC \/ last'.t.c.rows[k] = NoC))
             /\ \A k \in PKeys : (w.p.rows[k] = NoP /\ (last'.o.p.rows[k] # NoP \/ last'.t.p.rows[k] # NoP))
                    => (last'.anc.p.rows[k] # NoP /\ (last'.o.p.rows[k] = NoP \/ last'.t.p.rows[k] = NoP))]_vars

Emit == Len(hist) < D \/ PrintT(ToJson([i \in 1..Len(hist) |-> [a |-> hist[i].a, s |-> hist[i].s, args |-> hist[i].args, res |-> hist[i].res,
                                                                       exp |-> ProjOf(hist[i].st, hist[i].se)]]))
=============================================================================
