--------------------------- MODULE Prune ---------------------------
(* The grace-period pruner of ANOTHER process on a bare local NBS directory
   (go/store/nbs/prune_grace.go pruneDirWithGrace / pruneDirAsOf / unlinkUnderManifestLock / unlinkCandidates,
   store.go PruneUnreferencedWithGrace, file_manifest.go LockManifest) running against the writers, conjoin and
   GC of ManifestFS.tla, with an integer clock for mtimes.

   Steps of one prune pass, as the code takes them:
     PProbe      drop .dolt_prune_probe_*; its mtime is "now" in the directory's time base; snapshot of the
                 pruning store's own upstream references (taken before any lock)
     PScan       ReadDir + stat: candidate snapshot (table files, temp table files, temp manifests) with mtimes,
                 newest mtime of ANY entry (probes excluded), mtime of the manifest     [_testPruneAfterSnapshotHook]
     PQuiesce    newest > probe - grace  => skip the whole pass
     PLock       LockManifest: dir/LOCK (busy => skip) + parse the manifest under the lock => keep set
     PRecheck    manifest mtime differs from the scan => skip                             [_testPruneUnderLockHook]
     PPick/PUnlink  per candidate: kept? gone? re-stat (mtime changed => abandon the pass) ; unlink
     PUnlock     release LOCK;   PReleaseProbe  remove the probe
   Tick advances the clock.  With GraceHolds the clock cannot advance while a writer that is in the middle of
   landing/publishing has been silent for Grace ticks (the assumption the grace period is sized for). *)
EXTENDS ManifestFS

CONSTANTS Grace, MaxClock, MaxPrunes,
          GraceHolds      \* TRUE: assume no writer stays silent for a whole grace period in mid-operation

VARIABLES ppc, pprobe, pcand, pnewest, pmm, pkeep, pup, pcur, nPrunes,
          pgate,          \* TRUE while the pruner sits at _testPruneUnderLockHook (after the re-check, before the first candidate)
          wlast,          \* [Writer -> clock of the writer's last directory activity]
          unlinked        \* tables unlinked by the pruner so far (history for the property)

pvars == <<ppc, pprobe, pcand, pnewest, pmm, pkeep, pup, pcur, nPrunes, pgate, wlast, unlinked>>
pview == <<view, ppc, pprobe, pcand, pnewest, pmm, pkeep, pup, pcur, nPrunes, pgate, wlast>>
allvars == <<vars, pvars>>

TempNames == {TmpM(w) : w \in Writer} \cup {TmpT(w) : w \in Writer}
IsTableName(n) == n[1] = "t"
MtimeOf(n) == IF vdir[n] = NoIno THEN 0 ELSE ino[vdir[n]].mtime
\* what the pruner remembers of a file to recognise a change: the real mtime has nanosecond resolution, so two
\* different writes never carry the same stamp even inside one tick of the model clock => <<tick, inode>>
Stamp(n) == IF vdir[n] = NoIno THEN <<0 - 1, 0>> ELSE <<ino[vdir[n]].mtime, vdir[n]>>
Max(S) == IF S = {} THEN 0 ELSE CHOOSE x \in S : \A y \in S : y <= x

PInit == /\ Init
         /\ ppc = "idle" /\ pprobe = 0 /\ pcand = {} /\ pnewest = 0 /\ pmm = <<0 - 1, 0>> /\ pkeep = {} /\ pup = {} /\ pcur = <<"p", "">>
         /\ nPrunes = 0 /\ pgate = FALSE /\ wlast = [w \in Writer |-> 0] /\ unlinked = {}

POnly == UNCHANGED <<fsvars, wvars, hvars, clock, cnt>>
KeepP == UNCHANGED <<pprobe, pcand, pnewest, pmm, pkeep, pup, pcur, nPrunes, unlinked>>
PRec(a) == hist' = IF RecordHist THEN Append(hist, [a |-> a, w |-> "pruner", args |-> [ppc |-> ppc', clock |-> clock'], exp |-> Proj]) ELSE hist

\* a writer step; activity that leaves an mtime in the directory is stamped for the grace assumption
WStep == /\ \E w \in Writer : /\ WriterStep(w)
                              /\ wlast' = IF nextIno' # nextIno THEN [wlast EXCEPT ![w] = clock] ELSE wlast   \* a file was written: its mtime shows
         /\ UNCHANGED <<ppc, pprobe, pcand, pnewest, pmm, pkeep, pup, pcur, nPrunes, pgate, unlinked>>

Tick == /\ clock < MaxClock
        /\ GraceHolds => \A w \in Writer : wpc[w] \notin {"idle", "done"} => (clock + 1) - wlast[w] < Grace
        /\ clock' = clock + 1
        /\ UNCHANGED <<fsvars, wvars, hvars, cnt, pvars>>
        /\ PRec("Tick")

PProbe ==
    /\ ppc = "idle" /\ nPrunes < MaxPrunes /\ holder # "pruner"
    /\ nPrunes' = nPrunes + 1
    /\ NewIno(DNone)
    /\ DirDo(<<OpCreate(Probe, nextIno)>>)
    /\ pprobe' = clock
    /\ pup' = ManifestOf(vdir).specs       \* upstreamReferences() of the pruning store (as it last rebased: here, now)
    /\ ppc' = "probed"
    /\ UNCHANGED <<ddir, holder, wvars, hvars, clock, cnt, pcand, pnewest, pmm, pkeep, pcur, pgate, wlast, unlinked>>
    /\ PRec("PProbe")

PScan ==
    /\ ppc = "probed"
    /\ pcand' = {<<n, Stamp(n)>> : n \in {x \in Names : vdir[x] # NoIno /\ (IsTableName(x) \/ x \in TempNames)}}
    /\ pnewest' = Max({MtimeOf(n) : n \in {x \in Names : vdir[x] # NoIno /\ x # Probe}})
    /\ pmm' = Stamp(Manifest)
    /\ ppc' = "scanned"
    /\ POnly /\ UNCHANGED <<pprobe, pkeep, pup, pcur, nPrunes, pgate, wlast, unlinked>> /\ PRec("PScan")

PQuiesce ==
    /\ ppc = "scanned"
    /\ ppc' = IF pnewest > pprobe - Grace \/ pcand = {} THEN "release" ELSE "lock"
    /\ POnly /\ KeepP /\ UNCHANGED <<wlast, pgate>> /\ PRec("PQuiesce")

PLock ==
    /\ ppc = "lock"
    /\ IF holder = "none"
       THEN /\ holder' = "pruner"
            /\ pkeep' = pup \cup ManifestOf(vdir).specs
            /\ ppc' = "recheck"
       ELSE /\ ppc' = "release" /\ UNCHANGED <<holder, pkeep>>     \* could not take the manifest lock
    /\ UNCHANGED <<vdir, ddir, pend, ino, nextIno, wvars, hvars, clock, cnt, pprobe, pcand, pnewest, pmm, pup, pcur, nPrunes, pgate, wlast, unlinked>>
    /\ PRec("PLock")

PRecheck ==
    /\ ppc = "recheck"
    /\ ppc' = IF Stamp(Manifest) # pmm THEN "unlock" ELSE "pick"
    /\ pgate' = (ppc' = "pick")
    /\ POnly /\ KeepP /\ UNCHANGED wlast /\ PRec("PRecheck")

\* next candidate: kept => drop; gone => drop; changed since the scan => abandon the pass; else unlink it next
PPick ==
    /\ ppc = "pick"
    /\ IF pcand = {} THEN ppc' = "unlock" /\ UNCHANGED <<pcand, pcur>>
       ELSE \E c \in pcand :
              /\ pcand' = pcand \ {c}
              /\ IF IsTableName(c[1]) /\ c[1][2] \in pkeep THEN ppc' = "pick" /\ UNCHANGED pcur
                 ELSE IF vdir[c[1]] = NoIno THEN ppc' = "pick" /\ UNCHANGED pcur
                 ELSE IF Stamp(c[1]) # c[2] THEN ppc' = "unlock" /\ UNCHANGED pcur
                 ELSE ppc' = "unlink" /\ pcur' = c[1]
    /\ pgate' = FALSE
    /\ POnly /\ UNCHANGED <<pprobe, pnewest, pmm, pkeep, pup, nPrunes, wlast, unlinked>> /\ PRec("PPick")

PUnlink ==
    /\ ppc = "unlink"
    /\ DirDo(<<OpUnlink(pcur)>>)
    /\ unlinked' = IF IsTableName(pcur) THEN unlinked \cup {pcur[2]} ELSE unlinked
    /\ ppc' = "pick"
    /\ UNCHANGED <<ddir, ino, nextIno, holder, wvars, hvars, clock, cnt, pprobe, pcand, pnewest, pmm, pkeep, pup, pcur, nPrunes, pgate, wlast>>
    /\ PRec("PUnlink")

PUnlock ==
    /\ ppc = "unlock" /\ holder = "pruner"
    /\ holder' = "none"
    /\ ppc' = "release"
    /\ UNCHANGED <<vdir, ddir, pend, ino, nextIno, wvars, hvars, clock, cnt, pprobe, pcand, pnewest, pmm, pkeep, pup, pcur, nPrunes, pgate, wlast, unlinked>>
    /\ PRec("PUnlock")

PReleaseProbe ==
    /\ ppc = "release"
    /\ DirDo(<<OpUnlink(Probe)>>)
    /\ ppc' = "idle"
    /\ UNCHANGED <<ddir, ino, nextIno, holder, wvars, hvars, clock, cnt, pprobe, pcand, pnewest, pmm, pkeep, pup, pcur, nPrunes, pgate, wlast, unlinked>>
    /\ PRec("PReleaseProbe")

\* ------------------------------------------------------------------ generator support (gated replay, mode G)
\* The real code can be stopped only where a seam exists: the writer at manifest.ParseIfExists (pc read), before dir/LOCK
\* (pc lock), at the writeHook (pc rup) and after Update; the pruner at _testPruneAfterSnapshotHook (scanned) and
\* _testPruneUnderLockHook (pick, pgate). Between two seams a process runs without interleaving, and the clock only
\* moves while the pruner is idle (ticks are realised by shifting every mtime in the directory).
BusyW(w) == wpc[w] \in {"land_sync", "land_ren", "wtemp", "stemp", "check", "rename", "dsync", "unlock", "stale", "missing"}
BusyP == ppc \in {"probed", "lock", "recheck", "unlink", "unlock", "release"} \/ (ppc = "pick" /\ ~pgate)
GCoarse == /\ \A w \in Writer : BusyW(w) => wpc'[w] # wpc[w]
           /\ ((\A w \in Writer : ~BusyW(w)) /\ BusyP) => <<ppc, pcand, pgate>>' # <<ppc, pcand, pgate>>
           /\ clock' # clock => ppc = "idle" /\ \A w \in Writer : ~BusyW(w)

PrunerStep == PProbe \/ PScan \/ PQuiesce \/ PLock \/ PRecheck \/ PPick \/ PUnlink \/ PUnlock \/ PReleaseProbe

PNext == WStep \/ PrunerStep \/ Tick
PSpec == PInit /\ [][PNext]_allvars

\* ------------------------------------------------------------------ properties
PTypeOK == /\ TypeOK /\ ppc \in {"idle", "probed", "scanned", "lock", "recheck", "pick", "unlink", "unlock", "release"}
           /\ (holder = "pruner") <=> (ppc \in {"recheck", "pick", "unlink", "unlock"})

\* the pruner never unlinks a table file the manifest references at that moment
PruneNeverUnlinksReferenced ==
    [][(ppc = "unlink" /\ ppc' = "pick" /\ IsTableName(pcur)) => pcur[2] \notin ManifestOf(vdir).specs]_allvars

\* with the grace assumption the pruner never makes a writer fail: no update dies on a missing table file,
\* no landing loses its temp file
PrunerNeverBreaksWriter == \A w \in Writer : wpc[w] # "missing"
=============================================================================
