------------------------------ MODULE RepoIndex ------------------------------
(* C25: secondary indexes always mirror their table, in every root (working, staged, head, every commit), after DML, DDL,
   merge, conflict resolution, cherry-pick, revert, rebase and reset.

   This module is the repository machine of Repo.tla (builder bI; same commit DAG / branches / working sets / three-way
   merge by table short-circuit then cell-wise row merge) re-stated over tables that CARRY THEIR INDEX DEFINITIONS, which
   Repo.tla's fixed table record cannot express:
     t (keyed)    pk INT PRIMARY KEY, c1 VARCHAR, [c2 INT]   with any subset of the index palette
                  i1 = KEY (c1)   u1 = UNIQUE KEY (c1)   p1 = KEY (c1(2)) (prefix)   i12 = KEY (c1, c2)   i2 = KEY (c2)
     k (keyless)  c1 INT, c2 INT (a bag of rows)              with k1 = KEY (c1)
   IndexOf(table, idx) is the image every secondary index must have; the engine reads the REAL secondary prolly maps
   (doltdb.Table.GetIndexRowData) of both tables in every root after every step and compares them with IndexOf of the
   model's rows (and the real rows / index definitions with the model's).

   Code transcribed (what decides the ROWS and the INDEX DEFINITIONS of every root; the index images follow from them):
     sqle/writer/prolly_table_writer.go:159-237        Insert/Update/Delete fan out to every secondary index writer
     sqle/writer/prolly_index_writer.go:413            unique check of u1 on the mutable index
     sqle/writer/prolly_index_writer_keyless.go        keyless secondary entries (index cols, row hash) -> cardinality
     sqle/alterschema.go, sqle/tables.go               CREATE / DROP INDEX (build from the rows), ADD / DROP COLUMN (a
                                                       dropped column takes every index that covers it with it)
     merge/merge_rows.go:371 MaybeShortCircuit         table taken wholesale when one side is unchanged
     merge/merge_schema.go                             three-way merge of the column and index sets
     merge/merge_prolly_rows.go:1566 secondaryMerger   right-side edits applied to OUR indexes
     merge/merge_prolly_indexes.go:39                  indexes missing on our side or changed are rebuilt from the merged rows
     dprocedures/dolt_conflicts_resolve.go             --ours / --theirs
     cherry_pick/cherry_pick.go, revert/revert.go, dprocedures/dolt_rebase.go, dolt_reset.go  (as in Repo.tla)

   One action = one SQL statement / procedure call of a session in autocommit mode with dolt_allow_commit_conflicts = 1.
   Everything is committed with dolt_commit('-A'), so the staged root differs from the head only while a merge with
   conflicts is in progress.

   Named restrictions (not generated; each belongs to another property's machine):
     two indexes over the same column set in one table (dolt's schema merge refuses them)
     merges whose result would violate u1, or in which one side created u1 while the other changed rows     (C24)
     row-level merges of t across a DROP COLUMN, and of the keyless table when both sides changed it        (C29 / C27)
     cherry-pick / revert / rebase that stop on a conflict                                                   (C31)  *)
EXTENDS Integers, Sequences, FiniteSets, TLC, Json

CONSTANTS Keys,        \* primary keys of t (positive integers)
          V1,          \* non-NULL values of t.c1 (positive integers; values 2j-1 and 2j share their 2-character prefix)
          V2,          \* non-NULL values of t.c2
          KV,          \* values of both columns of the keyless table (0 = NULL allowed if included)
          MaxMult,     \* largest multiplicity of a keyless row that DML builds
          Palette,     \* index names of t that DDL may create (subset of {"i1","u1","p1","i12","i2"})
          InitIx,      \* index set of t in the first commit
          MaxDml,      \* exhaustive bound on the number of data / DDL statements (version-control steps are bounded by MaxCommits)
          Branches, Sessions, MaxCommits, Acts, RareActs, Sim, D, RecordHist

VARIABLES commits,   \* sequence of [parents, root]; commit 1 = the set-up commit (both tables, empty)
          head,      \* [Branches -> commit id]
          ws,        \* [Branches -> [working, staged : Root, mk : "none"|"merge", mc : commit id, mpre : Root, conf : [Keys -> row]]]
          cur,       \* [Sessions -> Branches]
          ndml,      \* number of data / DDL statements so far (not part of the VIEW)
          last, hist

vars == <<commits, head, ws, cur, ndml, last, hist>>
view == <<commits, head, ws, cur>>

-----------------------------------------------------------------------------
(* Data *)
NoRow == [c1 |-> -1, c2 |-> -1]
Rows1 == [c1 : {0} \cup V1, c2 : {0}]                     \* rows while column c2 does not exist (c2 reads as NULL)
Rows2 == [c1 : {0} \cup V1, c2 : {0} \cup V2]
KRows == KV \X KV
AllIx == {"i1", "u1", "p1", "i12", "i2"}
NeedsC2(n) == n \in {"i12", "i2"}
\* dolt's schema merge identifies an index by its column set ("multiple indexes covering the same column set cannot be merged",
\* merge_schema.go:762): named restriction -- a table never carries two indexes over the same columns
ColSet(n) == IF n \in {"i1", "u1", "p1"} THEN 1 ELSE IF n = "i12" THEN 2 ELSE 3
OnePerColSet(ix) == \A m \in ix, n \in ix : ColSet(m) = ColSet(n) => m = n
EmptyT == [c2 |-> FALSE, ix |-> InitIx, rows |-> [k \in Keys |-> NoRow]]
EmptyK == [ix |-> {"k1"}, bag |-> [x \in KRows |-> 0]]
Root0 == [t |-> EmptyT, k |-> EmptyK]
NoConf == [k \in Keys |-> NoRow]
CleanWS(r) == [working |-> r, staged |-> r, mk |-> "none", mc |-> 0, mpre |-> Root0, conf |-> NoConf, cset |-> {}, compat |-> TRUE]

Pres(tb) == {k \in Keys : tb.rows[k] # NoRow}
Pre(v) == IF v <= 0 THEN v ELSE (v + 1) \div 2            \* prefix class of a c1 value
RECURSIVE SortInts(_)
SortInts(S) == IF S = {} THEN <<>> ELSE LET m == CHOOSE x \in S : \A y \in S : x <= y IN <<m>> \o SortInts(S \ {m})

(* IndexOf: the image of a secondary index = one entry per row, derived from the row's current values, nothing else.
   Keyed: <<indexed values..., pk>>.  Keyless: <<c1, row>> for every distinct row (the real key is (c1, hash of the row), the value is empty). *)
IndexOf(tb, n) ==
    CASE n \in {"i1", "u1"} -> {<<tb.rows[k].c1, k>> : k \in Pres(tb)}
      [] n = "p1"  -> {<<Pre(tb.rows[k].c1), k>> : k \in Pres(tb)}
      [] n = "i12" -> {<<tb.rows[k].c1, tb.rows[k].c2, k>> : k \in Pres(tb)}
      [] n = "i2"  -> {<<tb.rows[k].c2, k>> : k \in Pres(tb)}
KIndexOf(kt, n) == {<<x[1], x[1], x[2]>> : x \in {y \in KRows : kt.bag[y] > 0}}     \* one entry per DISTINCT row, whatever its multiplicity

UClash(tb, k, v) == v > 0 /\ \E k2 \in Pres(tb) \ {k} : tb.rows[k2].c1 = v
HasDup(tb) == \E k \in Pres(tb) : UClash(tb, k, tb.rows[k].c1)

RootOf(c) == commits[c].root
Parents(c) == commits[c].parents
Parent0(c) == commits[c].parents[1]
HeadRoot(b) == RootOf(head[b])
NCommits == Len(commits)
Cids == 1..NCommits
RECURSIVE AncSet(_)
AncSet(c) == {c} \cup UNION {AncSet(Parents(c)[i]) : i \in 1..Len(Parents(c))}
IsAnc(a, c) == a \in AncSet(c)
LCAs(a, b) == LET com == AncSet(a) \cap AncSet(b) IN {x \in com : ~\E y \in com : y # x /\ IsAnc(x, y)}

-----------------------------------------------------------------------------
(* Three-way merge *)
Set3(b, o, t) == {x \in b \cup o \cup t : IF x \in b THEN (x \in o /\ x \in t) ELSE TRUE}       \* three-way merge of sets
(* Row merge with a column that may be missing on a side (valueMerger.TryMerge / processBaseColumn / processColumn, as in
   RowMerge.tla): a row is extended with NoCol for c2 when its side's schema has no c2; "differs from base" is then TRUE for
   every row of a side that added the column (ThreeWayDiffInfo.*SchemaChange). *)
NoCol == -3
Ext(row, c2) == IF row = NoRow THEN NoRow ELSE [c1 |-> row.c1, c2 |-> IF c2 THEN row.c2 ELSE NoCol]
\* processColumn for column c; l and r present
PC(c, l, r, b) ==
    IF b = NoRow \/ b[c] = NoCol THEN
        IF r[c] = NoCol THEN [v |-> l[c], cf |-> FALSE] ELSE IF l[c] = NoCol THEN [v |-> r[c], cf |-> FALSE]
        ELSE IF l[c] = r[c] THEN [v |-> l[c], cf |-> FALSE] ELSE [v |-> 0, cf |-> TRUE]
    ELSE IF l[c] = r[c] THEN [v |-> l[c], cf |-> FALSE]
    ELSE IF l[c] # b[c] /\ r[c] # b[c] THEN [v |-> 0, cf |-> TRUE]
    ELSE IF l[c] # b[c] THEN [v |-> l[c], cf |-> FALSE] ELSE [v |-> r[c], cf |-> FALSE]
\* processBaseColumn for a column the base has: a delete against an edit of that column is a conflict
PBC(c, l, r, b) == b # NoRow /\ b[c] # NoCol /\ ((l = NoRow /\ r # NoRow /\ r[c] # NoCol /\ r[c] # b[c]) \/ (r = NoRow /\ l # NoRow /\ l[c] # NoCol /\ l[c] # b[c]))
TryMerge(l, r, b) ==
    IF PBC("c1", l, r, b) \/ PBC("c2", l, r, b) THEN [ok |-> FALSE, row |-> NoRow]
    ELSE IF b # NoRow /\ ((l = NoRow) # (r = NoRow)) THEN [ok |-> TRUE, row |-> NoRow]
    ELSE IF PC("c1", l, r, b).cf \/ PC("c2", l, r, b).cf THEN [ok |-> FALSE, row |-> NoRow]
    ELSE [ok |-> TRUE, row |-> [c1 |-> PC("c1", l, r, b).v, c2 |-> PC("c2", l, r, b).v]]
\* one key: rows already extended; result in the merged schema (a missing cell reads NULL)
Fill(row) == IF row = NoRow THEN NoRow ELSE [c1 |-> row.c1, c2 |-> IF row.c2 = NoCol THEN 0 ELSE row.c2]
MergeRow(b, o, t) ==
    IF (o = b /\ t = b) \/ t = b THEN [row |-> Fill(o), cf |-> FALSE]
    ELSE IF o = b THEN [row |-> Fill(t), cf |-> FALSE]
    ELSE IF o = NoRow /\ t = NoRow THEN [row |-> NoRow, cf |-> FALSE]
    ELSE IF o = t THEN [row |-> Fill(o), cf |-> FALSE]
    ELSE LET m == TryMerge(o, t, b) IN IF m.ok THEN [row |-> Fill(m.row), cf |-> FALSE] ELSE [row |-> Fill(o), cf |-> TRUE]

\* table t: [st, tbl, cf (conflicting keys -> their row)]
MT(st, tbl) == [st |-> st, tbl |-> tbl, cf |-> NoConf, cs |-> {}, compat |-> TRUE]
MergeT(B, O, T, cherry) ==
    IF O = T \/ T = B THEN MT("ok", O)
    ELSE IF ~cherry /\ O = B THEN MT("ok", T)
    ELSE IF B.c2 /\ (~O.c2 \/ ~T.c2) THEN MT("unsup", O)                         \* across a DROP COLUMN
    ELSE LET c2 == O.c2 \/ T.c2
             ix == {n \in Set3(B.ix, O.ix, T.ix) : NeedsC2(n) => c2}
             m == [k \in Keys |-> MergeRow(Ext(B.rows[k], B.c2), Ext(O.rows[k], O.c2), Ext(T.rows[k], T.c2))]
             tbl == [c2 |-> c2, ix |-> ix, rows |-> [k \in Keys |-> m[k].row]]
             cs == {k \in Keys : m[k].cf}
         IN IF ~OnePerColSet(ix) THEN MT("unsup", O)
            ELSE IF "u1" \in ix /\ (HasDup(tbl) \/ "u1" \notin O.ix \/ "u1" \notin T.ix) THEN MT("unsup", O)     \* C24 territory
            ELSE [st |-> IF cs = {} THEN "ok" ELSE "conf", tbl |-> tbl,
                  cf |-> [k \in Keys |-> IF k \in cs THEN T.rows[k] ELSE NoRow], cs |-> cs, compat |-> T.c2 = c2]
\* keyless table: only the table-level short circuits (see the named restrictions)
MergeK(B, O, T, cherry) ==
    IF T = B THEN MT("ok", O)
    ELSE IF O = B /\ ~cherry THEN MT("ok", T)
    ELSE IF O = B /\ cherry /\ O.ix = T.ix THEN MT("ok", T)      \* every diff is right-only: the rows become theirs
    ELSE MT("unsup", O)
MergeRoots(O, T, B, cherry) ==
    LET mt == MergeT(B.t, O.t, T.t, cherry)
        mk == MergeK(B.k, O.k, T.k, cherry)
    IN [st |-> IF mt.st = "unsup" \/ mk.st = "unsup" THEN "unsup" ELSE mt.st,
        root |-> [t |-> mt.tbl, k |-> mk.tbl], cf |-> mt.cf, cs |-> mt.cs, compat |-> mt.compat]

-----------------------------------------------------------------------------
(* Projection shipped to the engine *)
RowSeq(tb) == LET ks == SortInts(Pres(tb)) IN [i \in 1..Len(ks) |-> <<ks[i], tb.rows[ks[i]].c1, tb.rows[ks[i]].c2>>]
BagSet(kt) == {<<x[1], x[2], kt.bag[x]>> : x \in {y \in KRows : kt.bag[y] > 0}}
ProjRoot(r) == [t |-> [c2 |-> r.t.c2, ix |-> r.t.ix, rows |-> RowSeq(r.t), idx |-> [n \in r.t.ix |-> IndexOf(r.t, n)]],
                k |-> [ix |-> r.k.ix, bag |-> BagSet(r.k), idx |-> [n \in r.k.ix |-> KIndexOf(r.k, n)]]]
ProjState(cm, hd, w, cr, n0) ==
    [br |-> hd, cur |-> cr, nc |-> Len(cm),
     newc |-> [i \in 1..(Len(cm) - n0) |-> [id |-> n0 + i, p |-> cm[n0 + i].parents, root |-> ProjRoot(cm[n0 + i].root)]],
     ws |-> [b \in Branches |-> [w |-> ProjRoot(w[b].working), s |-> ProjRoot(w[b].staged), mk |-> w[b].mk, conf |-> w[b].cset]]]

-----------------------------------------------------------------------------
DataActs == {"Insert", "Update", "Delete", "Replace", "UpdC2Where", "UpdC1Where", "DelWhere", "AddIndex", "DropIndex", "AddC2", "DropC2",
             "KIns", "KDel", "KUpd", "KDropIndex", "KAddIndex"}
RE(S) == RandomElement(IF Len(hist) >= 0 THEN S ELSE {})
Pick(S) == IF Sim THEN (IF S = {} THEN {} ELSE {RE(S)}) ELSE S
Rarely == ~Sim \/ RE(1..4) = 1
On(a) == a \in Acts /\ (a \in RareActs => Rarely) /\ (a \in DataActs => ndml < MaxDml)
Rec(a, s, args, res) ==
    /\ ndml' = IF a \in DataActs THEN ndml + 1 ELSE ndml
    /\ last' = [a |-> a, s |-> s, args |-> args, res |-> res]
    /\ hist' = IF RecordHist THEN Append(hist, [a |-> a, s |-> s, args |-> args, res |-> res, cm |-> commits', hd |-> head', w |-> ws', cr |-> cur']) ELSE hist
Unch == UNCHANGED <<commits, head, ws, cur>>
Idle(b) == ws[b].mk = "none"
Room == NCommits < MaxCommits
W(s) == ws[cur[s]].working
SetT(s, tb) == ws' = [ws EXCEPT ![cur[s]].working.t = tb]
SetK(s, kt) == ws' = [ws EXCEPT ![cur[s]].working.k = kt]
Dml(s, a, args, ok, newT, errTag) ==
    /\ IF ok THEN SetT(s, newT) ELSE UNCHANGED ws
    /\ UNCHANGED <<commits, head, cur>>
    /\ Rec(a, s, args, IF ok THEN "ok" ELSE errTag)

(* DML on t (not generated while conflicts are unresolved: the conflict rows are inputs of Resolve) *)
NoCf(b) == ws[b].cset = {}
Insert(s, k, row) ==
    LET tb == W(s).t  dup == "u1" \in tb.ix /\ UClash(tb, k, row.c1) IN
    /\ On("Insert") /\ NoCf(cur[s]) /\ tb.rows[k] = NoRow /\ (row.c2 # 0 => tb.c2)
    /\ Dml(s, "Insert", [k |-> k, c1 |-> row.c1, c2 |-> row.c2], ~dup, [tb EXCEPT !.rows[k] = row], "dupuq")
Update(s, k, col, v) ==
    LET tb == W(s).t  dup == col = "c1" /\ "u1" \in tb.ix /\ UClash(tb, k, v) IN
    /\ On("Update") /\ NoCf(cur[s]) /\ tb.rows[k] # NoRow /\ tb.rows[k][col] # v /\ (col = "c2" => tb.c2)
    /\ Dml(s, "Update", [k |-> k, col |-> col, v |-> v], ~dup, [tb EXCEPT !.rows[k][col] = v], "dupuq")
Delete(s, k) ==
    LET tb == W(s).t IN
    /\ On("Delete") /\ NoCf(cur[s]) /\ tb.rows[k] # NoRow
    /\ Dml(s, "Delete", [k |-> k], TRUE, [tb EXCEPT !.rows[k] = NoRow], "")
\* REPLACE INTO t VALUES (k, c1, c2): removes the row with pk k and (under u1) the row holding c1
Replace(s, k, row) ==
    LET tb == W(s).t
        gone == {k} \cup (IF "u1" \in tb.ix /\ row.c1 > 0 THEN {k2 \in Pres(tb) : tb.rows[k2].c1 = row.c1} ELSE {}) IN
    /\ On("Replace") /\ NoCf(cur[s]) /\ (row.c2 # 0 => tb.c2)
    /\ Dml(s, "Replace", [k |-> k, c1 |-> row.c1, c2 |-> row.c2], TRUE,
           [tb EXCEPT !.rows = [x \in Keys |-> IF x = k THEN row ELSE IF x \in gone THEN NoRow ELSE tb.rows[x]]], "")
\* UPDATE t SET c2 = v WHERE c1 = w   (index-driven, several rows)
UpdC2Where(s, w, v) ==
    LET tb == W(s).t IN
    /\ On("UpdC2Where") /\ NoCf(cur[s]) /\ tb.c2
    /\ Dml(s, "UpdC2Where", [w |-> w, v |-> v, n |-> Cardinality({k \in Pres(tb) : tb.rows[k].c1 = w /\ tb.rows[k].c2 # v})], TRUE,
           [tb EXCEPT !.rows = [k \in Keys |-> IF tb.rows[k] # NoRow /\ tb.rows[k].c1 = w THEN [tb.rows[k] EXCEPT !.c2 = v] ELSE tb.rows[k]]], "")
\* UPDATE t SET c1 = v WHERE c1 = w   (rewrites the indexed column of several rows; under u1 a clash fails the statement)
UpdC1Where(s, w, v) ==
    LET tb == W(s).t
        hit == {k \in Pres(tb) : tb.rows[k].c1 = w}
        dup == "u1" \in tb.ix /\ v > 0 /\ hit # {} /\ (Cardinality(hit) > 1 \/ \E k \in Pres(tb) \ hit : tb.rows[k].c1 = v) IN
    /\ On("UpdC1Where") /\ NoCf(cur[s]) /\ w # v
    /\ Dml(s, "UpdC1Where", [w |-> w, v |-> v, n |-> Cardinality(hit)], ~dup,
           [tb EXCEPT !.rows = [k \in Keys |-> IF k \in hit THEN [tb.rows[k] EXCEPT !.c1 = v] ELSE tb.rows[k]]], "dupuq")
DelWhere(s, w) ==
    LET tb == W(s).t IN
    /\ On("DelWhere") /\ NoCf(cur[s])
    /\ Dml(s, "DelWhere", [w |-> w, n |-> Cardinality({k \in Pres(tb) : tb.rows[k].c1 = w})], TRUE,
           [tb EXCEPT !.rows = [k \in Keys |-> IF tb.rows[k] # NoRow /\ tb.rows[k].c1 = w THEN NoRow ELSE tb.rows[k]]], "")

(* DDL on t *)
AddIndex(s, n) ==
    LET tb == W(s).t  dup == n = "u1" /\ HasDup(tb) IN
    /\ On("AddIndex") /\ NoCf(cur[s]) /\ n \in Palette /\ OnePerColSet(tb.ix \cup {n}) /\ n \notin tb.ix /\ (NeedsC2(n) => tb.c2)
    /\ Dml(s, "AddIndex", [n |-> n], ~dup, [tb EXCEPT !.ix = @ \cup {n}], "dupuq")
DropIndex(s, n) ==
    LET tb == W(s).t IN
    /\ On("DropIndex") /\ NoCf(cur[s]) /\ n \in tb.ix
    /\ Dml(s, "DropIndex", [n |-> n], TRUE, [tb EXCEPT !.ix = @ \ {n}], "")
AddC2(s) ==
    LET tb == W(s).t IN
    /\ On("AddC2") /\ NoCf(cur[s]) /\ ~tb.c2
    /\ Dml(s, "AddC2", <<>>, TRUE, [tb EXCEPT !.c2 = TRUE], "")
\* ALTER TABLE t DROP COLUMN c2: every index covering c2 goes with it
DropC2(s) ==
    LET tb == W(s).t IN
    /\ On("DropC2") /\ NoCf(cur[s]) /\ tb.c2
    /\ Dml(s, "DropC2", <<>>, TRUE, [c2 |-> FALSE, ix |-> {n \in tb.ix : ~NeedsC2(n)},
                                      rows |-> [k \in Keys |-> IF tb.rows[k] = NoRow THEN NoRow ELSE [tb.rows[k] EXCEPT !.c2 = 0]]], "")

(* the keyless table *)
KDml(s, a, args, kt) == /\ SetK(s, kt) /\ UNCHANGED <<commits, head, cur>> /\ Rec(a, s, args, "ok")
KIns(s, x, n) ==
    LET kt == W(s).k IN
    /\ On("KIns") /\ kt.bag[x] + n <= MaxMult
    /\ KDml(s, "KIns", [c1 |-> x[1], c2 |-> x[2], n |-> n], [kt EXCEPT !.bag[x] = @ + n])
\* DELETE FROM k WHERE c1 = .. AND c2 = .. LIMIT n
KDel(s, x, n) ==
    LET kt == W(s).k  m == IF kt.bag[x] < n THEN kt.bag[x] ELSE n IN
    /\ On("KDel") /\ kt.bag[x] > 0
    /\ KDml(s, "KDel", [c1 |-> x[1], c2 |-> x[2], n |-> n], [kt EXCEPT !.bag[x] = @ - m])
\* UPDATE k SET c1 = v WHERE c1 = w
KUpd(s, w, v) ==
    LET kt == W(s).k
        nb == [y \in KRows |-> IF y[1] = w THEN 0 ELSE IF y[1] = v THEN kt.bag[y] + kt.bag[<<w, y[2]>>] ELSE kt.bag[y]] IN
    /\ On("KUpd") /\ w # v /\ \A y \in KRows : nb[y] <= MaxMult + 2
    /\ KDml(s, "KUpd", [w |-> w, v |-> v], [kt EXCEPT !.bag = nb])
KDropIndex(s) ==
    /\ On("KDropIndex") /\ "k1" \in W(s).k.ix
    /\ KDml(s, "KDropIndex", <<>>, [W(s).k EXCEPT !.ix = {}])
KAddIndex(s) ==
    /\ On("KAddIndex") /\ "k1" \notin W(s).k.ix
    /\ KDml(s, "KAddIndex", <<>>, [W(s).k EXCEPT !.ix = {"k1"}])

-----------------------------------------------------------------------------
(* Version control *)
NewCommit(b, parents, root, w) ==
    /\ commits' = Append(commits, [parents |-> parents, root |-> root])
    /\ head' = [head EXCEPT ![b] = NCommits + 1]
    /\ ws' = [ws EXCEPT ![b] = w]
\* CALL dolt_commit('-A', '-m', ..)
CommitAll(s) ==
    LET b == cur[s]  w == ws[b]  par == IF w.mk = "merge" THEN <<head[b], w.mc>> ELSE <<head[b]>> IN
    /\ On("CommitAll") /\ NoCf(b)
    /\ IF w.working = HeadRoot(b) /\ w.mk = "none" THEN Rarely /\ Unch /\ Rec("CommitAll", s, <<>>, "nothing")
       ELSE /\ Room /\ NewCommit(b, par, w.working, CleanWS(w.working)) /\ UNCHANGED cur /\ Rec("CommitAll", s, <<>>, "ok")
Checkout(s, b2) ==
    /\ On("Checkout") /\ b2 # cur[s] /\ (Sim => ws[cur[s]].working = HeadRoot(cur[s]))     \* simulation: commit first, then switch
    /\ cur' = [cur EXCEPT ![s] = b2] /\ UNCHANGED <<commits, head, ws>> /\ Rec("Checkout", s, [b |-> b2], "ok")
Clean(b) == ws[b].working = HeadRoot(b) /\ ws[b].staged = HeadRoot(b) /\ Idle(b)
\* CALL dolt_merge(b2) from a clean working set
Merge(s, b2) ==
    LET b == cur[s]  w == ws[b]  o == head[b]  t == head[b2]
        bs == CHOOSE x \in LCAs(o, t) : TRUE
        m == MergeRoots(w.working, RootOf(t), RootOf(bs), FALSE) IN
    /\ On("Merge") /\ b2 # b /\ Clean(b)
    /\ IF IsAnc(t, o) THEN Rarely /\ Unch /\ Rec("Merge", s, [b |-> b2], "uptodate")
       ELSE IF IsAnc(o, t)
       THEN /\ head' = [head EXCEPT ![b] = t] /\ ws' = [ws EXCEPT ![b] = CleanWS(RootOf(t))] /\ UNCHANGED <<commits, cur>>
            /\ Rec("Merge", s, [b |-> b2], "ff")
       ELSE /\ Cardinality(LCAs(o, t)) = 1 /\ m.st # "unsup"
            /\ IF m.st = "conf"
               THEN /\ ws' = [ws EXCEPT ![b] = [w EXCEPT !.working = m.root, !.mk = "merge", !.mc = t, !.mpre = w.working, !.conf = m.cf, !.cset = m.cs, !.compat = m.compat]]
                    /\ UNCHANGED <<commits, head, cur>> /\ Rec("Merge", s, [b |-> b2], "conflict")
               ELSE /\ Room /\ NewCommit(b, <<o, t>>, m.root, CleanWS(m.root)) /\ UNCHANGED cur /\ Rec("Merge", s, [b |-> b2], "ok")
Abort(s) ==
    LET b == cur[s]  w == ws[b] IN
    /\ On("Abort") /\ w.mk = "merge"
    /\ ws' = [ws EXCEPT ![b] = [CleanWS(HeadRoot(b)) EXCEPT !.working = w.mpre]]
    /\ UNCHANGED <<commits, head, cur>> /\ Rec("Abort", s, <<>>, "ok")
\* CALL dolt_conflicts_resolve('--ours' | '--theirs', 't'): rewrites the conflicted rows (and their index entries)
Resolve(s, side) ==
    LET b == cur[s]  w == ws[b]  tb == w.working.t
        nt == IF side = "ours" THEN tb ELSE [tb EXCEPT !.rows = [k \in Keys |-> IF k \in w.cset THEN w.conf[k] ELSE tb.rows[k]]] IN
    /\ On("Resolve") /\ w.cset # {}
    /\ (side = "theirs" => w.compat)                       \* --theirs is refused unless their schema is the table's (ErrConfSchIncompatible)
    /\ ("u1" \in nt.ix => ~HasDup(nt))                      \* named restriction (C24): taking theirs would collide under u1
    /\ ws' = [ws EXCEPT ![b] = [w EXCEPT !.working.t = nt, !.conf = NoConf, !.cset = {}]]
    /\ UNCHANGED <<commits, head, cur>> /\ Rec("Resolve", s, [side |-> side], "ok")
\* CALL dolt_cherry_pick(c) / dolt_revert(c) from a clean working set; only conflict-free ones are generated
CherryPick(s, c) ==
    LET b == cur[s]  m == MergeRoots(ws[b].working, RootOf(c), RootOf(Parent0(c)), TRUE) IN
    /\ On("CherryPick") /\ Clean(b) /\ Len(Parents(c)) = 1 /\ RootOf(c) # RootOf(Parent0(c))
    /\ m.st = "ok" /\ m.root # HeadRoot(b)
    /\ Room /\ NewCommit(b, <<head[b]>>, m.root, CleanWS(m.root)) /\ UNCHANGED cur /\ Rec("CherryPick", s, [c |-> c], "ok")
Revert(s, c) ==
    LET b == cur[s]  m == MergeRoots(ws[b].working, RootOf(Parent0(c)), RootOf(c), FALSE) IN
    /\ On("Revert") /\ Clean(b) /\ Len(Parents(c)) = 1
    /\ m.st = "ok" /\ m.root # HeadRoot(b)
    /\ Room /\ NewCommit(b, <<head[b]>>, m.root, CleanWS(m.root)) /\ UNCHANGED cur /\ Rec("Revert", s, [c |-> c], "ok")
\* CALL dolt_rebase(b2) (non-interactive = every commit picked): the first-parent chain of the branch above the merge base
\* is cherry-picked onto b2's head; a pick that changes nothing is dropped
RECURSIVE Chain(_, _)
Chain(c, up) == IF IsAnc(c, up) THEN <<>> ELSE Chain(Parent0(c), up) \o <<c>>
RECURSIVE ChainOK(_, _)
ChainOK(c, up) == IsAnc(c, up) \/ (Len(Parents(c)) = 1 /\ ChainOK(Parent0(c), up))
RECURSIVE Fold(_, _, _)
Fold(ch, i, acc) ==
    IF i > Len(ch) \/ acc.st # "ok" THEN acc
    ELSE LET m == MergeRoots(acc.root, RootOf(ch[i]), RootOf(Parent0(ch[i])), TRUE) IN
         IF m.st # "ok" THEN [acc EXCEPT !.st = m.st]
         ELSE IF m.root = acc.root THEN Fold(ch, i + 1, acc)
         ELSE Fold(ch, i + 1, [acc EXCEPT !.new = Append(acc.new, [parents |-> <<acc.tip>>, root |-> m.root]),
                                          !.tip = NCommits + Len(acc.new) + 1, !.root = m.root])
Rebase(s, b2) ==
    LET b == cur[s]  up == head[b2]  ch == Chain(head[b], up)
        f == Fold(ch, 1, [st |-> "ok", new |-> <<>>, tip |-> up, root |-> RootOf(up)]) IN
    /\ On("Rebase") /\ b2 # b /\ Clean(b) /\ ChainOK(head[b], up) /\ ch # <<>> /\ ~IsAnc(up, head[b])
    /\ f.st = "ok" /\ NCommits + Len(f.new) <= MaxCommits
    /\ commits' = commits \o f.new /\ head' = [head EXCEPT ![b] = f.tip] /\ ws' = [ws EXCEPT ![b] = CleanWS(f.root)]
    /\ UNCHANGED cur /\ Rec("Rebase", s, [b |-> b2, n |-> Len(f.new)], "ok")
\* CALL dolt_reset('--hard', c)
ResetHard(s, c) ==
    LET b == cur[s] IN
    /\ On("ResetHard") /\ Rarely /\ (c # head[b] \/ ~Clean(b))
    /\ head' = [head EXCEPT ![b] = c] /\ ws' = [ws EXCEPT ![b] = CleanWS(RootOf(c))]
    /\ UNCHANGED <<commits, cur>> /\ Rec("ResetHard", s, [c |-> c], "ok")

-----------------------------------------------------------------------------
Init == /\ commits = <<[parents |-> <<>>, root |-> Root0]>>
        /\ head = [b \in Branches |-> 1]
        /\ ws = [b \in Branches |-> CleanWS(Root0)]
        /\ cur = [s \in Sessions |-> "main"]
        /\ ndml = 0
        /\ last = [a |-> "Init", s |-> "", args |-> <<>>, res |-> "ok"]
        /\ hist = <<>>

RowsOf(s) == IF W(s).t.c2 THEN Rows2 ELSE Rows1
Free(s) == {k \in Keys : W(s).t.rows[k] = NoRow}
Used(s) == Pres(W(s).t)
\* simulation: WHERE c1 = w mostly with a value that some row holds
WhereVals(s) == IF Sim /\ RE(1..6) # 1 THEN {W(s).t.rows[k].c1 : k \in Used(s)} \ {0} ELSE V1
ColVals(col) == IF col = "c1" THEN {0} \cup V1 ELSE {0} \cup V2
\* simulation: data statements are offered half of the time so that version-control steps get their share
Steer == ~Sim \/ RE(1..2) = 1
Next ==
    \E s \in Pick(Sessions) :
        \/ /\ Steer
           /\ \/ \E k \in Pick(Free(s)), row \in Pick(RowsOf(s)) : Insert(s, k, row)
              \/ \E k \in Pick(Used(s)), col \in Pick({"c1", "c2"}) : \E v \in Pick(ColVals(col)) : Update(s, k, col, v)
              \/ \E k \in Pick(Used(s)) : Delete(s, k)
              \/ \E k \in Pick(Keys), row \in Pick(RowsOf(s)) : Replace(s, k, row)
              \/ \E w \in Pick(WhereVals(s)), v \in Pick({0} \cup V2) : UpdC2Where(s, w, v)
              \/ \E w \in Pick(WhereVals(s)), v \in Pick({0} \cup V1) : UpdC1Where(s, w, v)
              \/ \E w \in Pick(WhereVals(s)) : DelWhere(s, w)
              \/ \E x \in Pick(KRows), n \in Pick(1..2) : KIns(s, x, n) \/ KDel(s, x, n)
              \/ \E w \in Pick(KV), v \in Pick(KV) : KUpd(s, w, v)
        \/ \E n \in Pick(AllIx) : AddIndex(s, n) \/ DropIndex(s, n)
        \/ AddC2(s) \/ DropC2(s) \/ KDropIndex(s) \/ KAddIndex(s)
        \/ CommitAll(s) \/ Abort(s)
        \/ \E b2 \in Pick(Branches) : Checkout(s, b2) \/ Merge(s, b2) \/ Rebase(s, b2)
        \/ \E sd \in Pick({"ours", "theirs"}) : Resolve(s, sd)
        \/ \E c \in Pick(Cids \ {1}) : CherryPick(s, c) \/ Revert(s, c)
        \/ \E c \in Pick(Cids) : ResetHard(s, c)
Spec == Init /\ [][Next]_vars

-----------------------------------------------------------------------------
(* What TLC checks on the model *)
TableOK(tb) == /\ tb.ix \subseteq AllIx
               /\ \A k \in Keys : tb.rows[k] = NoRow \/ tb.rows[k] \in (IF tb.c2 THEN Rows2 ELSE Rows1)
AllRoots == {RootOf(c) : c \in Cids} \cup {ws[b].working : b \in Branches} \cup {ws[b].staged : b \in Branches}
TypeOK == /\ \A r \in AllRoots : TableOK(r.t) /\ r.k.ix \subseteq {"k1"} /\ \A x \in KRows : r.k.bag[x] >= 0
          /\ \A b \in Branches : head[b] \in Cids
          /\ \A c \in Cids : \A i \in 1..Len(Parents(c)) : Parents(c)[i] < c
\* C25 on the model: in EVERY root every index is defined over existing columns, IndexOf has exactly one entry per row
\* (entries of distinct rows are distinct because the primary key is part of the entry), the entry is derived from the
\* row's current values, and a unique index holds no two rows with the same non-NULL value
IndexMirrorsTable ==
    \A r \in AllRoots :
        /\ \A n \in r.t.ix : /\ (NeedsC2(n) => r.t.c2)
                             /\ Cardinality(IndexOf(r.t, n)) = Cardinality(Pres(r.t))
                             /\ \A e \in IndexOf(r.t, n) : LET k == e[Len(e)] IN r.t.rows[k] # NoRow /\
                                    (CASE n \in {"i1", "u1"} -> e[1] = r.t.rows[k].c1 [] n = "p1" -> e[1] = Pre(r.t.rows[k].c1)
                                       [] n = "i12" -> e[1] = r.t.rows[k].c1 /\ e[2] = r.t.rows[k].c2 [] OTHER -> e[1] = r.t.rows[k].c2)
        /\ ("u1" \in r.t.ix => ~HasDup(r.t))
\* conflicts exist only while a merge is in progress and the conflicted keys hold OUR rows until resolved
ConflictsOnlyInMerge == \A b \in Branches : ws[b].cset # {} => ws[b].mk = "merge"
\* history is immutable
HistoryImmutable == [][\A c \in Cids : commits'[c] = commits[c]]_vars
\* a merge result's index set is the three-way merge of the three index sets (restricted to existing columns)
MergeIndexSets ==
    [][(last'.a = "Merge" /\ last'.res \in {"ok", "conflict"}) =>
          LET b == cur[last'.s]  o == HeadRoot(b).t  t == HeadRoot(last'.args.b).t  m == ws'[b].working.t IN
          /\ \A n \in AllIx : (n \in o.ix /\ n \in t.ix) => (n \in m.ix \/ (NeedsC2(n) /\ ~m.c2))
          /\ \A n \in m.ix : n \in o.ix \/ n \in t.ix]_vars

Emit == Len(hist) < D \/ PrintT(ToJson([i \in 1..Len(hist) |->
            [a |-> hist[i].a, s |-> hist[i].s, args |-> hist[i].args, res |-> hist[i].res,
             exp |-> ProjState(hist[i].cm, hist[i].hd, hist[i].w, hist[i].cr, IF i = 1 THEN 1 ELSE Len(hist[i - 1].cm))]]))
=============================================================================
