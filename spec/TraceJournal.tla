---------------------------- MODULE TraceJournal ----------------------------
(* Trace validation for Journal.tla (mode S): the system calls of the real journaling store on the journal file and the
   manifest (strace: pwrite64, fsync, ftruncate, renameat of the manifest) interleaved with the harness' markers
   (operation begin, Commit acknowledged, operation end) must be a behaviour of Journal.tla: every pwrite is the flush the
   spec takes at that point with exactly its offset and length, every fsync is a Sync step, the manifest is renamed where the
   spec flushes it, and the acknowledgement comes after the Sync of the root record (AckOnlyAfterSync is an invariant here).
   Steps of the spec without a system call are silent.  Several traces are concatenated with {"ev":"reset"}. *)
EXTENDS Journal

VARIABLES i,       \* next event
          inOpen   \* the events of an Open (truncate, fsync, fallback root, manifest true-up) are being consumed
tvars == <<vars, i, inOpen>>

Tr == ndJsonDeserialize("trace.ndjson")
Ev == Tr[i]
Has == i <= Len(Tr)
Is(e) == Has /\ Ev.ev = e
Consume == i' = i + 1
Silent == i' = i

PwriteMatches == /\ Is("pwrite") /\ Ev.off = Off(recs, written) /\ Ev.len = Off(recs', written') - Off(recs, written) /\ Consume
MayFlush(A) == A /\ inOpen' = inOpen /\ IF written' > written THEN PwriteMatches ELSE Silent

TOp ==
  /\ Is("op") /\ ~inOpen /\ Consume
  /\ \/ Ev.a = "Put" /\ Put(Ev.c) /\ inOpen' = FALSE
     \/ Ev.a = "Commit" /\ Ev.l = upRoot /\ Commit(Ev.r) /\ inOpen' = FALSE
     \/ Ev.a = "CommitNoop" /\ Ev.l = upRoot /\ Ev.r = upRoot /\ CommitNoop /\ inOpen' = FALSE
     \/ Ev.a = "CommitStale" /\ CommitStale(Ev.r, Ev.l) /\ inOpen' = FALSE
     \/ Ev.a = "Close" /\ Close /\ inOpen' = FALSE
     \/ Ev.a = "Open" /\ Open(Ev.idx) /\ inOpen' = TRUE

TMicro ==
  \/ MayFlush(WriteChunk) \/ MayFlush(AppendRoot) \/ MayFlush(Flush)
  \* a new journal file is "recovered" like an old one: ftruncate(0) + fsync (one merged event)
  \/ (CreateJournal /\ ~man.ex /\ Is("trunc") /\ Ev.len = 0 /\ Consume /\ UNCHANGED inOpen)
  \/ (PutFlushed /\ Silent /\ UNCHANGED inOpen)
  \/ (IndexFlush /\ Silent /\ UNCHANGED inOpen)
  \/ (CloseIndex /\ Silent /\ UNCHANGED inOpen)
  \/ (CloseEnd /\ Silent /\ UNCHANGED inOpen)
  \/ (Sync /\ Is("fsync") /\ Consume /\ UNCHANGED inOpen)
  \/ (ManifestFlush /\ Is("man") /\ Ev.root = man'.root /\ Ev.jspec = man'.jspec /\ Consume /\ UNCHANGED inOpen)
  \/ (CloseManifest /\ UNCHANGED inOpen /\ IF man.ex THEN Is("man") /\ Ev.root = man'.root /\ Ev.jspec = man'.jspec /\ Consume ELSE Silent)
  \/ (Ack /\ Is("ack") /\ Ev.r = upRoot' /\ Consume /\ UNCHANGED inOpen)

\* system calls of an open: truncate to the valid prefix, fsync, (root-less journal with a manifest) root record + fsync, manifest true-up
TOpenSys ==
  /\ inOpen /\ Has /\ Consume /\ UNCHANGED vars /\ UNCHANGED inOpen
  /\ \/ Ev.ev = "trunc" /\ Ev.len \in {Bytes(recs), Bytes(recs) - RootSz} /\ "synced" \in DOMAIN Ev
     \/ Ev.ev = "fsync"
     \/ Ev.ev = "pwrite" /\ Ev.off + Ev.len = Bytes(recs) /\ Ev.len = RootSz
     \/ Ev.ev = "man" /\ man.ex /\ Ev.root = man.root /\ Ev.jspec = man.jspec

TEnd == /\ Is("end") /\ todo = <<>> /\ Consume /\ inOpen' = FALSE /\ UNCHANGED vars

TReset ==
  /\ Is("reset") /\ Consume /\ inOpen' = FALSE
  /\ st' = "open" /\ recs' = <<>> /\ written' = 0 /\ synced' = 0 /\ tail' = NoTail /\ hasJ' = FALSE
  /\ unsyncd' = 0 /\ curRoot' = NoRoot /\ mem' = <<>> /\ upRoot' = NoRoot /\ cspec' = FALSE /\ jvis' = FALSE
  /\ man' = [ex |-> FALSE, root |-> NoRoot, jspec |-> FALSE] /\ todo' = <<>> /\ rng' = NoneRng /\ nov' = {}
  /\ indexed' = 0 /\ ilog' = <<>> /\ ifile' = [ex |-> FALSE, es |-> <<>>] /\ wrOld' = FALSE
  /\ base' = [root |-> NoRoot, reach |-> {}, idx |-> 0] /\ infl' = NoInfl /\ mfl' = FALSE
  /\ lastRec' = [kind |-> "init"] /\ ncrash' = 0 /\ nopen' = 0 /\ ndamage' = 0 /\ hist' = <<>>

TInit == Init /\ i = 1 /\ inOpen = FALSE
TNext == TOp \/ TMicro \/ TOpenSys \/ TEnd \/ TReset
Matched == PrintT("TRACE_MATCHED " \o ToString(i - 1))
=============================================================================
