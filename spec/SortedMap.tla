--------------------------- MODULE SortedMap ---------------------------
(* Abstract machine of prolly.MutableMap / prolly.Map (go/store/prolly/tuple_mutable_map.go,
   tuple_map.go): a sorted dictionary over two-field keys with a bounded buffer of pending edits,
   checkpoint / revert, automatic flush (only Put flushes, when the number of buffered keys exceeds
   maxPending), GC deep flush, and every read operator of the public API.

   The *dictionary* (cur) is the specification of what every read must return; the buffer state
   (pend, cpPend, ...) is modelled only as far as it is observable (HasEdits) and as far as it decides
   WHEN the code flushes, so that TLC steers behaviours through every mix of buffered/flushed edits.

   Properties: C11 (reads agree with the dictionary), C12 (same cur => same tree: cross-behaviour
   relation checked by the engine, keyed on cur), C13 (Diff), C14 (Merge3) reuse Key/Val/order. *)
EXTENDS Integers, Sequences, FiniteSets, TLC, Json

CONSTANTS F1, F2,        \* field domains (finite sets of integers); keys are <<f1, f2>>
          NV,            \* values are 1..NV, 0 = absent
          MaxPendings,   \* set of candidate maxPending values (chosen at Init)
          D,             \* behaviour length at which the history is emitted
          RecordHist     \* FALSE in exhaustive configs: hist stays empty

VARIABLES cur,        \* [Key -> 0..NV] logical content
          pend,       \* set of keys with a buffered edit
          hasCp,      \* a checkpoint was taken (Revert enabled)
          cpCur,      \* content at the last checkpoint
          cpPend,     \* buffered keys at the last checkpoint
          maxPending,
          hist

vars == <<cur, pend, hasCp, cpCur, cpPend, maxPending, hist>>
view == <<cur, pend, hasCp, cpCur, cpPend, maxPending>>

Key == F1 \X F2
Val == 1..NV

KLess(a, b) == a[1] < b[1] \/ (a[1] = b[1] /\ a[2] < b[2])
KLeq(a, b) == a = b \/ KLess(a, b)

\* ascending sequence of a set of keys
RECURSIVE SortKeys(_)
SortKeys(S) == IF S = {} THEN <<>>
               ELSE LET m == CHOOSE x \in S : \A y \in S : KLeq(x, y)
                    IN <<m>> \o SortKeys(S \ {m})

AllKeys == SortKeys(Key)
Present(c) == {k \in Key : c[k] # 0}
Entries(c) == LET ks == SortKeys(Present(c)) IN [i \in 1..Len(ks) |-> <<ks[i][1], ks[i][2], c[ks[i]]>>]
Reverse(s) == [i \in 1..Len(s) |-> s[Len(s) + 1 - i]]

\* ------------------------------------------------------------------ read operators
Get(c, k) == c[k]
GetAll(c) == [i \in 1..Len(AllKeys) |-> c[AllKeys[i]]]
Count(c) == Cardinality(Present(c))
LastKey(c) == IF Present(c) = {} THEN <<>> ELSE LET s == SortKeys(Present(c)) IN s[Len(s)]

\* prefix lookup on the first field: first entry (in key order) whose f1 = p, or none
PrefixKeys(c, p) == {k \in Present(c) : k[1] = p}
GetPrefix(c, p) == IF PrefixKeys(c, p) = {} THEN <<>> ELSE
                      LET k == SortKeys(PrefixKeys(c, p))[1] IN <<k[1], k[2], c[k]>>
HasPrefix(c, p) == PrefixKeys(c, p) # {}

\* a bound is <<kind, value>>, kind \in {"none", "incl", "excl"}
BoundKinds == {"none", "incl", "excl"}
LoOk(x, b) == CASE b[1] = "none" -> TRUE [] b[1] = "incl" -> x >= b[2] [] OTHER -> x > b[2]
HiOk(x, b) == CASE b[1] = "none" -> TRUE [] b[1] = "incl" -> x <= b[2] [] OTHER -> x < b[2]
\* a range is a sequence (length 1 or 2) of per-field <<lo, hi>>; semantics: conjunction of the field predicates
InRange(k, r) == \A i \in 1..Len(r) : LoOk(k[i], r[i][1]) /\ HiOk(k[i], r[i][2])
RangeEntries(c, r) == Entries([k \in Key |-> IF InRange(k, r) THEN c[k] ELSE 0])

\* physical key range [start, stop), either end may be "none"
KeyRangeEntries(c, start, stop) ==
    Entries([k \in Key |-> IF (start = <<>> \/ KLeq(start, k)) /\ (stop = <<>> \/ KLess(k, stop)) THEN c[k] ELSE 0])
KeyRangeCard(c, start, stop) == Len(KeyRangeEntries(c, start, stop))

\* smallest ordinal with key >= q  (= number of present keys < q)
OrdinalOf(c, q) == Cardinality({k \in Present(c) : KLess(k, q)})
OrdinalRange(c, a, b) == LET e == Entries(c) IN [i \in 1..(b - a) |-> e[a + i]]

\* ------------------------------------------------------------------ projection shipped to the engine
Proj(c, p) == [get |-> GetAll(c), iter |-> Entries(c), count |-> Count(c), last |-> LastKey(c),
               hasEdits |-> p # {}, mp |-> maxPending]
Rec(a, args, q) == IF RecordHist THEN Append(hist, [a |-> a, args |-> args, exp |-> Proj(cur', pend'), q |-> q]) ELSE hist

\* ------------------------------------------------------------------ actions (one per public mutator)
Init == /\ cur = [k \in Key |-> 0] /\ pend = {} /\ hasCp = FALSE /\ cpCur = [k \in Key |-> 0] /\ cpPend = {}
        /\ maxPending \in MaxPendings /\ hist = <<>>

\* Put buffers the edit and flushes when the buffer exceeds maxPending (tuple_mutable_map.go:123)
Put(k, v) == /\ cur' = [cur EXCEPT ![k] = v]
             /\ pend' = IF Cardinality(pend \cup {k}) > maxPending THEN {} ELSE pend \cup {k}
             /\ UNCHANGED <<hasCp, cpCur, cpPend, maxPending>>
             /\ hist' = Rec("Put", [f1 |-> k[1], f2 |-> k[2], v |-> v, flush |-> Cardinality(pend \cup {k}) > maxPending], <<>>)

\* Delete buffers a tombstone (also for absent keys) and never flushes
Delete(k) == /\ cur' = [cur EXCEPT ![k] = 0]
             /\ pend' = pend \cup {k}
             /\ UNCHANGED <<hasCp, cpCur, cpPend, maxPending>>
             /\ hist' = Rec("Delete", [f1 |-> k[1], f2 |-> k[2]], <<>>)

Checkpoint == /\ hasCp' = TRUE /\ cpCur' = cur /\ cpPend' = pend
              /\ UNCHANGED <<cur, pend, maxPending>>
              /\ hist' = Rec("Checkpoint", <<>>, <<>>)

\* Revert discards every write made since the last checkpoint, flushed or not. The checkpoint stays.
Revert == /\ hasCp
          /\ cur' = cpCur /\ pend' = cpPend
          /\ UNCHANGED <<hasCp, cpCur, cpPend, maxPending>>
          /\ hist' = Rec("Revert", <<>>, <<>>)

\* VisitGCRoots: deep flush of pending edits (and of the checkpointed ones); content unchanged
GCFlush == /\ pend' = {} /\ cpPend' = {}
           /\ UNCHANGED <<cur, hasCp, cpCur, maxPending>>
           /\ hist' = Rec("GCFlush", <<>>, <<>>)

\* ------------------------------------------------------------------ read-only actions: queries with TLC-computed answers
Bounds(F) == {<<"none", 0>>} \cup {<<kd, x>> : kd \in {"incl", "excl"}, x \in F}
FieldRanges(F) == Bounds(F) \X Bounds(F)
Ranges == {<<r1>> : r1 \in FieldRanges(F1)} \cup {<<r1, r2>> : r1 \in FieldRanges(F1), r2 \in FieldRanges(F2)}

Query(q) == /\ RecordHist /\ UNCHANGED <<cur, pend, hasCp, cpCur, cpPend, maxPending>>
            /\ hist' = Append(hist, [a |-> "Query", args |-> <<>>, exp |-> Proj(cur, pend), q |-> q])

\* Query parameters. TLC's RandomElement is useless here (measured: 3 distinct ranges in 300 behaviours - the n-th call returns
\* the same element in every behaviour), so parameters are a function of a hash of the current state and the step number: different
\* behaviours visit different states and therefore ask different questions; one successor per query kind keeps queries from
\* swamping the mutators in simulation mode (TLC picks uniformly among successor states).
RECURSIVE SortInts(_)
SortInts(S) == IF S = {} THEN <<>> ELSE LET m == CHOOSE x \in S : \A y \in S : x <= y IN <<m>> \o SortInts(S \ {m})
BoundSeq(F) == LET fs == SortInts(F) n == Len(fs) IN
               << <<"none", 0>> >> \o [i \in 1..(2 * n) |-> <<IF i <= n THEN "incl" ELSE "excl", fs[((i - 1) % n) + 1]>>]
NthFieldRange(F, n) == LET bs == BoundSeq(F) nb == Len(bs) IN <<bs[(n % nb) + 1], bs[((n \div nb) % nb) + 1]>>
StateHash == LET ks == AllKeys IN
             Len(hist) * 7919 + Cardinality(pend) * 101 + (IF hasCp THEN 53 ELSE 0) + maxPending * 1009
             + (LET RECURSIVE Sum(_) Sum(i) == IF i = 0 THEN 0 ELSE cur[ks[i]] * (i * i * 31 + 17) + cpCur[ks[i]] * (i * 13 + 5) + Sum(i - 1) IN Sum(Len(ks)))
KeyOrNone == Key \cup {<<>>}
KeyOrNoneSeq == <<<<>>>> \o AllKeys \o <<<<>>>>
NthKeyOrNone(n) == KeyOrNoneSeq[(n % Len(KeyOrNoneSeq)) + 1]

\* every third range query is over the first field only (a prefix range)
QRange == LET h == StateHash
              r == IF h % 3 = 0 THEN <<NthFieldRange(F1, h \div 3)>>
                   ELSE <<NthFieldRange(F1, h \div 3), NthFieldRange(F2, h \div 87)>>
          IN Query([kind |-> "range", r |-> r, res |-> RangeEntries(cur, r)])
QKeyRange == LET h == StateHash s == NthKeyOrNone(h \div 2) t == NthKeyOrNone(h \div 14)
             IN Query([kind |-> "keyrange", start |-> s, stop |-> t, res |-> KeyRangeEntries(cur, s, t),
                       card |-> KeyRangeCard(cur, s, t)])
QOrdinal == LET k == AllKeys[(StateHash % Len(AllKeys)) + 1] IN Query([kind |-> "ordinal", k |-> k, res |-> OrdinalOf(cur, k)])
QOrdRange == LET h == StateHash a == h % (Count(cur) + 1) b == a + ((h \div 7) % (Count(cur) - a + 1))
             IN Query([kind |-> "ordrange", a |-> a, b |-> b, res |-> OrdinalRange(cur, a, b)])
QPrefix == LET p == SortInts(F1)[(StateHash % Cardinality(F1)) + 1]
           IN Query([kind |-> "prefix", p |-> p, res |-> GetPrefix(cur, p), has |-> HasPrefix(cur, p)])

Mutate == \/ \E k \in Key, v \in Val : Put(k, v)
          \/ \E k \in Key : Delete(k)
          \/ Checkpoint \/ Revert \/ GCFlush
Queries == QRange \/ QKeyRange \/ QOrdinal \/ QOrdRange \/ QPrefix

Next == Mutate \/ Queries
Spec == Init /\ [][Next]_vars

\* ------------------------------------------------------------------ what TLC checks on the model (C11 at design level)
TypeOK == /\ cur \in [Key -> 0..NV] /\ pend \subseteq Key /\ cpPend \subseteq Key /\ hasCp \in BOOLEAN
          /\ Cardinality(pend) <= maxPending + Cardinality(Key)

\* read operators are mutually consistent views of the same dictionary
ReadsConsistent ==
    LET e == Entries(cur) IN
    /\ Len(e) = Count(cur)
    /\ \A i \in 1..Len(e) : cur[<<e[i][1], e[i][2]>>] = e[i][3] /\ e[i][3] # 0
    /\ \A i \in 1..(Len(e) - 1) : KLess(<<e[i][1], e[i][2]>>, <<e[i + 1][1], e[i + 1][2]>>)
    /\ (Len(e) > 0 => LastKey(cur) = <<e[Len(e)][1], e[Len(e)][2]>>)
    /\ \A k \in Key : OrdinalOf(cur, k) <= Len(e)
                      /\ (cur[k] # 0 => e[OrdinalOf(cur, k) + 1][3] = cur[k])
                      /\ KeyRangeCard(cur, <<>>, k) = OrdinalOf(cur, k)
    /\ \A s \in KeyOrNone, t \in KeyOrNone : (s # <<>> /\ t # <<>> /\ KLeq(t, s)) => KeyRangeCard(cur, s, t) = 0
    /\ RangeEntries(cur, << <<<<"none", 0>>, <<"none", 0>>>> >>) = e
    /\ \A p \in F1 : HasPrefix(cur, p) <=> GetPrefix(cur, p) # <<>>

\* emission of finished behaviours in simulation mode
Emit == Len(hist) < D \/ PrintT(ToJson(hist))
=============================================================================
