--------------------------- MODULE IgnorePatterns ---------------------------
(* dolt_ignore pattern matching (go/libraries/doltcore/doltdb/ignore.go, table_name_patterns.go).

   A dolt_ignore table is a map pattern -> ignored (the pattern is the primary key).  A pattern is a string in which
   '*' and '%' stand for any run of characters and '?' for exactly one character (compilePattern).
   Documented rule (ignore.go:282 IsTableNameIgnored, table_name_patterns.go:106 "a pattern A is more specific than a
   pattern B if all names that match A also match pattern B, but not vice versa"):
     - no matching pattern with ignored = true  -> DontIgnore;  no matching pattern with ignored = false -> Ignore;
     - otherwise the most specific matching patterns decide; if they contradict each other -> Conflict.
   Result(ps, n) is that rule, with "more specific" = strict inclusion of the pattern languages.

   The code decides specificity syntactically (getMoreSpecificPatterns: the less specific pattern, read as a regular
   expression in which '?' stands for any character except '*', must match the TEXT of the more specific one) and
   returns Conflict as soon as a true and a false pattern have the same normal form (normalizePattern).  ResultAlg
   transcribes that; it is a NAMED DEVIATION: TLC enumerates exactly where it leaves Result (Deviation # "none"), the
   engine compares the real code with Result and uses Deviation/ResultAlg only to classify a mismatch.

   The state machine is the dolt_ignore table itself: Put / Remove of a pattern row; every distinct table of the bound is
   a state, and every state carries the verdict for every table name of the bound.  Properties: C46 (pattern half). *)
EXTENDS Integers, Sequences, FiniteSets, TLC, Json

CONSTANTS PatSyms,      \* symbols a pattern is made of, e.g. {"a", "b", "*", "?"}
          NameSyms,     \* letters a table name is made of, e.g. {"a", "b"}
          Fresh,        \* one more letter, used only to compare pattern languages
          MaxPatLen, MaxNameLen,
          LangLen,      \* pattern languages are compared on all strings up to this length over NameSyms + Fresh
          MaxPats,      \* rows in dolt_ignore
          Ordered,      \* TRUE: rows are only added in increasing pattern order (each table is reached once)
          EmitStates, D, RecordHist

VARIABLES ps,    \* set of <<pattern, ignored>>, at most one row per pattern
          hist
vars == <<ps, hist>>
view == <<ps>>

Wild == {"*", "%"}
RECURSIVE SeqsUpTo(_, _)
SeqsUpTo(S, n) == IF n = 0 THEN {<<>>}
                  ELSE LET P == SeqsUpTo(S, n - 1) IN P \cup {Append(s, x) : s \in {q \in P : Len(q) = n - 1}, x \in S}
Pats == SeqsUpTo(PatSyms, MaxPatLen) \ {<<>>}
Names == SeqsUpTo(NameSyms, MaxNameLen) \ {<<>>}
LangStrs == SeqsUpTo(NameSyms \cup {Fresh}, LangLen)

\* ------------------------------------------------------------------ compilePattern / MatchTablePattern
RECURSIVE Match(_, _)
Match(p, n) == IF p = <<>> THEN n = <<>>
               ELSE CASE Head(p) \in Wild -> \E i \in 0..Len(n) : Match(Tail(p), SubSeq(n, i + 1, Len(n)))
                      [] Head(p) = "?"   -> n # <<>> /\ Match(Tail(p), Tail(n))
                      [] OTHER           -> n # <<>> /\ Head(n) = Head(p) /\ Match(Tail(p), Tail(n))
MatchTab == [p \in Pats |-> {n \in Names : Match(p, n)}]
Lang == [p \in Pats |-> {n \in LangStrs : Match(p, n)}]
LangShort == [p \in Pats |-> {n \in Lang[p] : Len(n) < LangLen}]
\* the documented order: A is more specific than B
\* (evaluated once per pair of patterns: a constant table of the model)
Below == [b \in Pats |-> {a \in Pats : Lang[a] \subseteq Lang[b] /\ Lang[a] # Lang[b]}]
Same == [b \in Pats |-> {a \in Pats : Lang[a] = Lang[b]}]
MoreSpecific(a, b) == a \in Below[b]
EquallySpecific(a, b) == a \in Same[b]
\* the comparison does not depend on the length bound (checked once, at start-up)
ASSUME LangStable == \A a \in Pats, b \in Pats : (Lang[a] \subseteq Lang[b]) = (LangShort[a] \subseteq LangShort[b])

\* ------------------------------------------------------------------ the documented rule
Matching(S, n) == {x \in S : n \in MatchTab[x[1]]}
Minimal(M) == {x \in M : ~\E y \in M : MoreSpecific(y[1], x[1])}
Result(S, n) ==
    LET M == Matching(S, n)
        T == {x \in M : x[2]}
        F == {x \in M : ~x[2]} IN
    IF T = {} THEN "DontIgnore" ELSE IF F = {} THEN "Ignore"
    ELSE LET mn == Minimal(M) IN
         IF \A x \in mn : x[2] THEN "Ignore" ELSE IF \A x \in mn : ~x[2] THEN "DontIgnore" ELSE "Conflict"
\* the patterns a conflict is about
ConflictSets(S, n) == LET mn == Minimal(Matching(S, n)) IN
                      [t |-> {x[1] : x \in {y \in mn : y[2]}}, f |-> {x[1] : x \in {y \in mn : ~y[2]}}]

\* ------------------------------------------------------------------ named deviation: the syntactic decision of the code
\* getMoreSpecificPatterns(less).MatchString(text of p).  The code builds the regexp by three textual replacements in this order:
\*   "\?" -> "[^\*%]",  "\*" -> ".*",  "%" -> ".*"
\* and the 2nd and 3rd also rewrite the inside of the character class just inserted, which ends up as "[^.*.*]": a '?' of
\* `less` stands for one symbol other than '*' (and '.'), so it DOES match a '%' of the other pattern.
RECURSIVE MatchText(_, _)
MatchText(less, p) == IF less = <<>> THEN p = <<>>
                      ELSE CASE Head(less) \in Wild -> \E i \in 0..Len(p) : MatchText(Tail(less), SubSeq(p, i + 1, Len(p)))
                             [] Head(less) = "?"   -> p # <<>> /\ Head(p) # "*" /\ MatchText(Tail(less), Tail(p))
                             [] OTHER              -> p # <<>> /\ Head(p) = Head(less) /\ MatchText(Tail(less), Tail(p))
SynTab == [less \in Pats |-> {p \in Pats : MatchText(less, p)}]
RECURSIVE Normalize(_)
Normalize(p) == IF p = <<>> THEN <<>>
                ELSE LET h == IF Head(p) = "*" THEN "%" ELSE Head(p)
                         r == Normalize(Tail(p)) IN
                     IF h = "%" /\ r # <<>> /\ Head(r) = "%" THEN r ELSE <<h>> \o r
NormTab == [p \in Pats |-> Normalize(p)]
ResultAlg(S, n) ==
    LET M == Matching(S, n)
        T == {x[1] : x \in {y \in M : y[2]}}
        F == {x[1] : x \in {y \in M : ~y[2]}} IN
    IF T = {} THEN "DontIgnore" ELSE IF F = {} THEN "Ignore"
    ELSE IF \E t \in T, f \in F : NormTab[t] = NormTab[f] THEN "Conflict"
    ELSE LET tRem == {t \in T : \E f \in F : f \in SynTab[t]}
             fRem == {f \in F : \E t \in T : t \in SynTab[f]} IN
         IF tRem = T THEN "DontIgnore" ELSE IF fRem = F THEN "Ignore" ELSE "Conflict"
Deviation(S, n) ==
    IF ResultAlg(S, n) = Result(S, n) THEN "none"
    ELSE LET M == Matching(S, n) IN
         IF \E x \in M, y \in M : x[2] /\ ~y[2] /\ NormTab[x[1]] = NormTab[y[1]] THEN "same-normal-form-conflict-first"
         ELSE "syntactic-specificity"

\* ------------------------------------------------------------------ projection and actions
NameList == LET RECURSIVE Lst(_)
                Lst(S) == IF S = {} THEN <<>> ELSE LET x == CHOOSE y \in S : TRUE IN <<x>> \o Lst(S \ {x}) IN Lst(Names)
ResCode(r) == CASE r = "Ignore" -> 0 [] r = "DontIgnore" -> 1 [] OTHER -> 2
One(S, n) == LET M == Matching(S, n) IN
             IF (\A x \in M : x[2]) \/ (\A x \in M : ~x[2])       \* nothing to resolve: the common case
             THEN LET c == IF M # {} /\ (\A x \in M : x[2]) THEN 0 ELSE 1 IN [res |-> c, alg |-> c, dev |-> "none"]
             ELSE LET r == Result(M, n)
                      a == ResultAlg(M, n) IN
                  [res |-> ResCode(r), alg |-> ResCode(a), dev |-> IF a = r THEN "none" ELSE Deviation(M, n),
                   conf |-> IF r = "Conflict" THEN ConflictSets(M, n) ELSE [t |-> {}, f |-> {}]]
Proj(S) == [ps |-> S, v |-> [i \in 1..Len(NameList) |-> One(S, NameList[i])]]
Rec(a, args) == IF RecordHist THEN Append(hist, [a |-> a, args |-> args, exp |-> Proj(ps')]) ELSE hist

\* a total order on patterns, only used to reach each table once when Ordered
RECURSIVE Rank(_)
SymRank(c) == CASE c = "*" -> 1 [] c = "?" -> 2 [] c = "%" -> 3 [] c = "a" -> 4 [] c = "b" -> 5 [] OTHER -> 6
Rank(p) == IF p = <<>> THEN 0 ELSE SymRank(Head(p)) + 7 * Rank(Tail(p))     \* digits 1..6 in base 7: injective
\* (the first record of a behaviour carries the ordered name list the verdict vectors refer to)
Init == ps = {} /\ hist = IF RecordHist THEN <<[a |-> "Init", args |-> <<>>, exp |-> Proj({}), names |-> NameList]>> ELSE <<>>
\* INSERT / REPLACE INTO dolt_ignore
Put(p, b) == /\ (\E x \in ps : x[1] = p) \/ Cardinality(ps) < MaxPats
             /\ Ordered => \A x \in ps : Rank(x[1]) < Rank(p)
             /\ ps' = {x \in ps : x[1] # p} \cup {<<p, b>>}
             /\ hist' = Rec("Put", [p |-> p, ign |-> b])
\* DELETE FROM dolt_ignore
Remove(p) == /\ ~Ordered /\ \E x \in ps : x[1] = p
             /\ ps' = {x \in ps : x[1] # p}
             /\ hist' = Rec("Remove", [p |-> p])
Next == \/ \E p \in Pats, b \in BOOLEAN : Put(p, b)
        \/ \E p \in Pats : Remove(p)
\* simulation: the action kind is drawn first (one successor per step); Salt keeps TLC from folding the draws into constants
Salt == 0 * Cardinality(ps)
PatList == LET RECURSIVE Lst(_)
               Lst(S) == IF S = {} THEN <<>> ELSE LET x == CHOOSE y \in S : TRUE IN <<x>> \o Lst(S \ {x}) IN Lst(Pats)
PickPat == PatList[RandomElement(1..(Len(PatList) + Salt))]
PickBool == RandomElement(1..(2 + Salt)) = 1
NextSim == \E k \in {RandomElement(1..(5 + Salt))} :
           \/ (k \in {1, 2, 3} \/ ps = {}) /\ \E p \in {PickPat}, b \in {PickBool} :
                    IF Cardinality(ps) < MaxPats \/ \E x \in ps : x[1] = p THEN Put(p, b)
                    ELSE \E x \in {RandomElement(ps)} : Remove(x[1])
           \/ k = 4 /\ ps # {} /\ \E x \in {RandomElement(ps)} : Put(x[1], ~x[2])
           \/ k = 5 /\ ps # {} /\ \E x \in {RandomElement(ps)} : Remove(x[1])

\* ------------------------------------------------------------------ what TLC checks on the model
TypeOK == /\ \A x \in ps : x[1] \in Pats /\ x[2] \in BOOLEAN
          /\ \A x \in ps, y \in ps : x[1] = y[1] => x = y
          /\ Cardinality(ps) <= MaxPats
\* the documented rule is well defined and says what the statement says
RuleSound ==
    \A n \in Names :
      LET M == Matching(ps, n)
          r == Result(ps, n) IN
      /\ (r = "Ignore" => \E x \in M : x[2])
      /\ (r = "DontIgnore" => (\A x \in M : ~x[2]) \/ (\E x \in M : ~x[2]))
      \* a single most specific matching pattern wins
      /\ \A x \in M : (\A y \in M \ {x} : MoreSpecific(x[1], y[1])) => r = (IF x[2] THEN "Ignore" ELSE "DontIgnore")
      \* equally specific contradicting patterns that nothing more specific overrides are a conflict
      /\ \A x \in M, y \in M : (x[2] /\ ~y[2] /\ EquallySpecific(x[1], y[1]) /\ x \in Minimal(M)) => r = "Conflict"
      \* the verdict only depends on the matching rows
      /\ r = Result(M, n)
\* the syntactic decision of the code leaves the documented rule only where the deviation is named
DeviationNamed == \A n \in Names : (ResultAlg(ps, n) # Result(ps, n)) => (Deviation(ps, n) # "none" /\ Cardinality(Matching(ps, n)) >= 2)
\* where the syntactic order and the language order agree on the matching patterns, and no two contradicting patterns
\* share a normal form, the code's decision IS the documented rule
AlgAgreesWhereOrdersAgree ==
    \A n \in Names :
      LET M == Matching(ps, n) IN
      ((\A x \in M, y \in M : (x[2] # y[2]) => /\ NormTab[x[1]] # NormTab[y[1]]
                                               /\ (y[1] \in SynTab[x[1]]) = MoreSpecific(y[1], x[1])))
        => ResultAlg(ps, n) = Result(ps, n)
EmitState == EmitStates => /\ (ps # {} \/ PrintT(ToJson([names |-> NameList])))
                           /\ PrintT(ToJson(Proj(ps)))
Emit == Len(hist) < D \/ PrintT(ToJson(hist))

\* ------------------------------------------------------------------ pattern-level enumeration (mode "pat"): one row per pattern
PatRow(p) == [p |-> p, m |-> [i \in 1..Len(NameList) |-> IF NameList[i] \in MatchTab[p] THEN 1 ELSE 0]]
\* (state-level on purpose: TLC evaluates constant-level definitions at start-up of every configuration)
EmitPats == ps = {} => PrintT(ToJson([names |-> NameList, rows |-> {PatRow(p) : p \in Pats}]))
=============================================================================
