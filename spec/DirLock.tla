----------------------------- MODULE DirLock -----------------------------
(* Abstract machine of the exclusive database-directory lock of a journaling NomsBlockStore and of
   everything a process does to the files of the directory depending on whether it got the lock.

   Code modelled (go/store/nbs):
     store.go   NewLocalJournalingStoreWithOptions   Open:  newJournalLock is taken IMMEDIATELY, the store itself is
                                                     loaded lazily by the first access (loadThunk / ensureLoad)
     journal.go newJournalLock                       flock(LOCK_EX|LOCK_NB) on dir/LOCK, with the 100 ms retry window or
                                                     without (SkipLockFileTimeout), falling back to read-only or failing
                                                     with ErrDatabaseLocked (FailOnLockTimeout)
     journal.go bootstrapJournalWriter / trueUpBackingManifest / Update / flushToBackingManifest / Close
     journal_writer.go bootstrapJournal(canWrite) / loadJournalIndex(canWrite) / corruptIndexRecovery(canWrite)
     journal_record.go processJournalRecords(tryTruncate = canWrite)

   One action per public call (Open, Read, Write, Close); the lazy load is a sub-step of the first Read / Write
   (operator Load), exactly as in the code.  Every effect of Load / Write / Close on a file of the directory is
   written under the same guard the code uses (canWrite = the process holds the lock), so that the action property
   ReadOnlyNeverWrites is a statement about those guards and not a tautology.

   Environment / fault actions: Crash (kill -9 of any process; the kernel drops its flock), CrashMidWrite (the lock
   holder dies while appending: the journal keeps a torn tail after its last committed root record), DamageIndex /
   RemoveIndex (journal.idx is stale or corrupt: fails readJournalIndex validation, or is missing).

   Directory state is abstract but observable: the engine recomputes every field of `dir` from the real files after
   every step (journal parsed with the store's own record reader, manifest parsed, index existence) and compares.

   Deliberate deviations of the code from the "ideal" design, kept as they are:
     * a read-only process never refreshes: its root and its visible chunks are the snapshot taken when its journal
       was bootstrapped (ChunkJournal.ParseIfExists returns the cached contents);
     * a read-only process loaded BEFORE the writer created the journal is "unbound": it binds on the first Read after
       the manifest appeared, and then reports the MANIFEST's root (the root of the writer's first commit or of its
       last Close), not the journal's latest root, while its visible chunks are the journal's at binding time
       (named sub-step BindLate);
     * the lock is held from Open, not from the first access (a process that opened read-write and never touched the
       store still excludes everybody else). *)
EXTENDS Integers, Sequences, FiniteSets, TLC, Json

CONSTANTS Proc,        \* process names (strings)
          MaxWrites,   \* bound on committed roots
          Opts,        \* subset of {"wait","skip","failfast","skipfailfast"} offered to Open
          Faults,      \* BOOLEAN: environment fault actions enabled
          Scripted,    \* BOOLEAN: scripted mode = all interleavings of the fixed per-process programs below
          Programs,    \* [Proc -> Seq(<<op, opt>>)] (only used when Scripted)
          D, RecordHist

VARIABLES pst,      \* [Proc -> {"closed","rw","ro"}]   rw = holds the flock on dir/LOCK
          loaded,   \* [Proc -> BOOLEAN]                 the lazy load has run
          bound,    \* [Proc -> BOOLEAN]                 a journal writer object is attached (journal existed at load / bind)
          proot,    \* [Proc -> 0..MaxWrites]            index of the root the process reports (0 = empty root)
          pvis,     \* [Proc -> 0..MaxWrites]            chunks c1..c_pvis are readable by the process
          dir,      \* the directory, see DirInit
          pc,       \* [Proc -> Nat] program counter in scripted mode
          last,     \* the last step: [p, a, res, warn, ro]  (ro = the actor acted as a read-only process)
          hist

vars == <<pst, loaded, bound, proot, pvis, dir, pc, last, hist>>
view == <<pst, loaded, bound, proot, pvis, dir, pc, last>>

None == "none"
FailFast(o) == o \in {"failfast", "skipfailfast"}

DirInit == [lockFile |-> FALSE,   \* dir/LOCK exists
            jexists  |-> FALSE,   \* the journal file exists
            jroots   |-> 0,       \* committed root records r1..r_jroots (write i appends chunk c_i and root r_i)
            jtorn    |-> FALSE,   \* bytes after the last valid record (torn tail)
            mexists  |-> FALSE,   \* the manifest file exists
            mroot    |-> 0,       \* root recorded in the manifest
            idx      |-> "absent"] \* journal.idx: "absent" | "ok" (passes readJournalIndex) | "bad" (fails it)

Holder == {p \in Proc : pst[p] = "rw"}

\* ------------------------------------------------------------------ the lazy load (store.go:830, journal.go:155)
\* returns <<dir', proot, pvis, bound, warn>> for process mode m ("rw" = canWrite)
Load(m, d) ==
    LET canWrite == (m = "rw") IN
    IF ~d.jexists
    THEN \* no journal file: newChunkJournal does not bootstrap; nothing is created until the first write
         <<d, IF d.mexists THEN d.mroot ELSE 0, 0, FALSE, FALSE>>
    ELSE LET warn == (d.idx = "bad")
             d1 == IF canWrite
                   THEN [d EXCEPT !.idx = "ok",           \* created if absent; truncated to 0 if bad; partial tail dropped
                                  !.jtorn = FALSE,        \* processJournalRecords truncates + syncs (tryTruncate)
                                  !.mroot = IF d.jroots > 0 /\ d.mexists THEN d.jroots ELSE d.mroot]  \* trueUpBackingManifest
                   ELSE d                                 \* canWrite = FALSE: nothing on disk changes
             r == IF d.jroots > 0 THEN d.jroots ELSE IF d.mexists THEN d.mroot ELSE 0
         IN <<d1, r, d.jroots, TRUE, warn>>

\* a read-only process that loaded before the journal existed binds on the first Read after the manifest appeared
BindLate(d) == \* returns <<proot, pvis, bound, warn>>
    \* (a bad index is ignored here too, but this path - ChunkJournal.Open -> maybeInit - reports it through the logging
    \*  callback JournalParserLoggingWarningsCb, not through the callback the store was opened with: warn = FALSE)
    IF d.mexists /\ d.jexists THEN <<d.mroot, d.jroots, TRUE, FALSE>> ELSE <<0, 0, FALSE, FALSE>>

Rec(p, a, args, res, warn, ro) ==
    IF RecordHist
    THEN Append(hist, [a |-> a, p |-> p, args |-> args,
                       exp |-> [res |-> res, warn |-> warn, ro |-> ro, modes |-> pst', dir |-> dir',
                                root |-> IF p \in Proc THEN proot'[p] ELSE 0,
                                vis |-> IF p \in Proc THEN pvis'[p] ELSE 0]])
    ELSE hist

Step(p, a, res, warn, ro) == last' = [p |-> p, a |-> a, res |-> res, warn |-> warn, ro |-> ro]

\* scripted mode: process p may only perform the next op of its program
MayDo(p, op) == ~Scripted \/ (pc[p] < Len(Programs[p]) /\ Programs[p][pc[p] + 1][1] = op)
OptOf(p) == IF Scripted THEN {Programs[p][pc[p] + 1][2]} ELSE Opts
Adv(p) == pc' = IF Scripted THEN [pc EXCEPT ![p] = @ + 1] ELSE pc

\* ------------------------------------------------------------------ Open (store.go:806 / journal.go:642)
Open(p, o) ==
    /\ pst[p] = "closed" /\ MayDo(p, "Open") /\ o \in OptOf(p)
    /\ LET res == IF Holder = {} THEN "rw" ELSE IF FailFast(o) THEN "locked" ELSE "ro" IN
       /\ pst' = [pst EXCEPT ![p] = IF res = "locked" THEN "closed" ELSE res]
       /\ dir' = [dir EXCEPT !.lockFile = TRUE]          \* fslock opens dir/LOCK with O_CREATE in every case
       /\ loaded' = [loaded EXCEPT ![p] = FALSE] /\ bound' = [bound EXCEPT ![p] = FALSE]
       /\ proot' = [proot EXCEPT ![p] = 0] /\ pvis' = [pvis EXCEPT ![p] = 0]
       /\ Adv(p) /\ Step(p, "Open", res, FALSE, res = "ro")
       /\ hist' = Rec(p, "Open", [opt |-> o], res, FALSE, res = "ro")

\* ------------------------------------------------------------------ Read = Rebase + Root + Has(c1..cN)
Read(p) ==
    /\ pst[p] # "closed" /\ MayDo(p, "Read")
    /\ LET m == pst[p]
           L == Load(m, dir)
           B == BindLate(dir)
           late == loaded[p] /\ ~bound[p] /\ m = "ro"
           warn == IF ~loaded[p] THEN L[5] ELSE IF late THEN B[4] ELSE FALSE
       IN /\ dir' = IF loaded[p] THEN dir ELSE L[1]
          /\ loaded' = [loaded EXCEPT ![p] = TRUE]
          /\ proot' = [proot EXCEPT ![p] = IF ~loaded[p] THEN L[2] ELSE IF late THEN B[1]
                                            ELSE @]
          /\ pvis' = [pvis EXCEPT ![p] = IF ~loaded[p] THEN L[3] ELSE IF late THEN B[2] ELSE @]
          /\ bound' = [bound EXCEPT ![p] = IF ~loaded[p] THEN L[4] ELSE IF late THEN B[3] ELSE @]
          /\ UNCHANGED pst /\ Adv(p) /\ Step(p, "Read", "ok", warn, m = "ro")
          /\ hist' = Rec(p, "Read", <<>>, "ok", warn, m = "ro")

\* ------------------------------------------------------------------ Write = Put(c_i) + Commit(r_i, previous root)
\* read-only: Put lands in the memtable, Commit fails in Persist with errReadOnlyManifest; no file is touched.
Write(p) ==
    /\ pst[p] # "closed" /\ MayDo(p, "Write")
    /\ LET m == pst[p]
           L == Load(m, dir)
           d0 == IF loaded[p] THEN dir ELSE L[1]
           warn == IF loaded[p] THEN FALSE ELSE L[5]
       IN IF m = "ro"
          THEN /\ dir' = d0                                       \* d0 = dir: Load("ro", d)[1] = d
               /\ loaded' = [loaded EXCEPT ![p] = TRUE]
               /\ proot' = [proot EXCEPT ![p] = IF loaded[p] THEN @ ELSE L[2]]
               /\ pvis' = [pvis EXCEPT ![p] = IF loaded[p] THEN @ ELSE L[3]]
               /\ bound' = [bound EXCEPT ![p] = IF loaded[p] THEN @ ELSE L[4]]
               /\ UNCHANGED pst /\ Adv(p) /\ Step(p, "Write", "readonly", warn, TRUE)
               /\ hist' = Rec(p, "Write", [i |-> 0], "readonly", warn, TRUE)
          ELSE /\ d0.jroots < MaxWrites
               /\ LET i == d0.jroots + 1 IN
                  /\ dir' = [d0 EXCEPT !.jexists = TRUE, !.jroots = i,
                                       !.idx = IF d0.jexists THEN d0.idx ELSE "ok",      \* journal + index created by the first Persist
                                       !.mexists = TRUE,
                                       !.mroot = IF d0.mexists /\ d0.jexists THEN d0.mroot ELSE i]  \* table set changed: flushToBackingManifest
                  /\ loaded' = [loaded EXCEPT ![p] = TRUE] /\ bound' = [bound EXCEPT ![p] = TRUE]
                  /\ proot' = [proot EXCEPT ![p] = i] /\ pvis' = [pvis EXCEPT ![p] = i]
                  /\ UNCHANGED pst /\ Adv(p) /\ Step(p, "Write", "ok", warn, FALSE)
                  /\ hist' = Rec(p, "Write", [i |-> i], "ok", warn, FALSE)

\* ------------------------------------------------------------------ Close (store.go:1743, journal.go:552,776)
Close(p) ==
    /\ pst[p] # "closed" /\ MayDo(p, "Close")
    /\ LET m == pst[p] IN
       /\ dir' = IF m = "rw" /\ loaded[p] /\ bound[p] /\ dir.mexists
                 THEN [dir EXCEPT !.mroot = dir.jroots]          \* ChunkJournal.Close: flushToBackingManifest(j.contents)
                 ELSE dir
       /\ pst' = [pst EXCEPT ![p] = "closed"]
       /\ loaded' = [loaded EXCEPT ![p] = FALSE] /\ bound' = [bound EXCEPT ![p] = FALSE]
       /\ proot' = [proot EXCEPT ![p] = 0] /\ pvis' = [pvis EXCEPT ![p] = 0]
       /\ Adv(p) /\ Step(p, "Close", "ok", FALSE, m = "ro")
       /\ hist' = Rec(p, "Close", <<>>, "ok", FALSE, m = "ro")

\* ------------------------------------------------------------------ environment
Reset(p) == /\ pst' = [pst EXCEPT ![p] = "closed"]
            /\ loaded' = [loaded EXCEPT ![p] = FALSE] /\ bound' = [bound EXCEPT ![p] = FALSE]
            /\ proot' = [proot EXCEPT ![p] = 0] /\ pvis' = [pvis EXCEPT ![p] = 0]

\* kill -9: nothing that was committed is lost, nothing is flushed; the manifest keeps its old root
Crash(p) == /\ Faults /\ pst[p] # "closed" /\ MayDo(p, "Crash")
            /\ Reset(p) /\ UNCHANGED dir /\ Adv(p)
            /\ Step(p, "Crash", "ok", FALSE, FALSE)
            /\ hist' = Rec(p, "Crash", <<>>, "ok", FALSE, FALSE)

\* the lock holder dies in the middle of an append: torn tail after the last committed root
CrashMidWrite(p) == /\ Faults /\ pst[p] = "rw" /\ loaded[p] /\ bound[p] /\ dir.jroots >= 1 /\ MayDo(p, "CrashMidWrite")
                    /\ Reset(p) /\ dir' = [dir EXCEPT !.jtorn = TRUE] /\ Adv(p)
                    /\ Step(p, "CrashMidWrite", "ok", FALSE, FALSE)
                    /\ hist' = Rec(p, "CrashMidWrite", <<>>, "ok", FALSE, FALSE)

\* journal.idx no longer matches the journal (stale copy / garbage / wrong checksum) while no loaded writer has it open
NoLoadedWriter == \A q \in Proc : ~(pst[q] = "rw" /\ loaded[q])
DamageIndex == /\ Faults /\ ~Scripted /\ dir.jexists /\ dir.jroots >= 1 /\ dir.idx # "bad" /\ NoLoadedWriter
               /\ dir' = [dir EXCEPT !.idx = "bad"]
               /\ UNCHANGED <<pst, loaded, bound, proot, pvis, pc>>
               /\ Step(None, "DamageIndex", "ok", FALSE, FALSE)
               /\ hist' = Rec(None, "DamageIndex", <<>>, "ok", FALSE, FALSE)
RemoveIndex == /\ Faults /\ ~Scripted /\ dir.jexists /\ dir.idx # "absent" /\ NoLoadedWriter
               /\ dir' = [dir EXCEPT !.idx = "absent"]
               /\ UNCHANGED <<pst, loaded, bound, proot, pvis, pc>>
               /\ Step(None, "RemoveIndex", "ok", FALSE, FALSE)
               /\ hist' = Rec(None, "RemoveIndex", <<>>, "ok", FALSE, FALSE)

\* scripted mode: an op that the process cannot perform in its current state is skipped (recorded, engine does nothing)
Skip(p) == /\ Scripted /\ pc[p] < Len(Programs[p])
           /\ LET op == Programs[p][pc[p] + 1][1] IN
                 \/ (op # "Open" /\ pst[p] = "closed")
                 \/ (op = "CrashMidWrite" /\ pst[p] # "closed" /\ ~(pst[p] = "rw" /\ loaded[p] /\ bound[p] /\ dir.jroots >= 1))
           /\ UNCHANGED <<pst, loaded, bound, proot, pvis, dir>> /\ Adv(p)
           /\ Step(p, "Skip", "ok", FALSE, FALSE)
           /\ hist' = Rec(p, "Skip", <<>>, "ok", FALSE, FALSE)

Init == /\ pst = [p \in Proc |-> "closed"] /\ loaded = [p \in Proc |-> FALSE] /\ bound = [p \in Proc |-> FALSE]
        /\ proot = [p \in Proc |-> 0] /\ pvis = [p \in Proc |-> 0]
        /\ dir = DirInit /\ pc = [p \in Proc |-> 0]
        /\ last = [p |-> None, a |-> "Init", res |-> "ok", warn |-> FALSE, ro |-> FALSE]
        /\ hist = <<>>

Next == \/ \E p \in Proc : \/ \E o \in Opts \cup {"wait", "skip", "failfast", "skipfailfast"} : Open(p, o)
                           \/ Read(p) \/ Write(p) \/ Close(p)
                           \/ Crash(p) \/ CrashMidWrite(p) \/ Skip(p)
        \/ DamageIndex \/ RemoveIndex

Spec == Init /\ [][Next]_vars

\* ------------------------------------------------------------------ what TLC checks on the model (C41 at design level)
TypeOK == /\ pst \in [Proc -> {"closed", "rw", "ro"}]
          /\ proot \in [Proc -> 0..MaxWrites] /\ pvis \in [Proc -> 0..MaxWrites]
          /\ dir.jroots \in 0..MaxWrites /\ dir.mroot \in 0..MaxWrites
          /\ dir.idx \in {"absent", "ok", "bad"}

AtMostOneWriter == Cardinality(Holder) <= 1

\* the second opener is read-only or refused, and refused exactly when it asked for fail-fast
SecondOpener == [][ (last'.a = "Open" /\ Holder # {}) => last'.res \in {"ro", "locked"} ]_vars
\* a process that holds no lock reports a read-only / closed mode, never "rw"
OpenResultIsMode == [][ last'.a = "Open" => ((last'.res = "locked" /\ pst'[last'.p] = "closed") \/ pst'[last'.p] = last'.res) ]_vars

\* a read-only process never changes any file of the directory (dir/LOCK creation by Open is scaffolding)
SameFiles(d1, d2) == [d1 EXCEPT !.lockFile = TRUE] = [d2 EXCEPT !.lockFile = TRUE]
ReadOnlyNeverWrites == [][ last'.ro => SameFiles(dir, dir') ]_vars
\* and, because a read-only process can only exist after somebody took the lock, dir/LOCK exists already
ReadOnlyHasLockFile == \A p \in Proc : pst[p] = "ro" => dir.lockFile

\* only the lock holder changes files; faults are the only other source of change
OnlyHolderWrites == [][ (~SameFiles(dir, dir') /\ last'.p \in Proc /\ last'.a \notin {"Crash", "CrashMidWrite"}) => pst[last'.p] = "rw" ]_vars

\* committed roots are never lost, by anybody, under any order / crash / index fault
NoLostCommit == [][ dir'.jroots >= dir.jroots /\ (dir.jexists => dir'.jexists) ]_vars
ManifestNeverAhead == dir.mroot <= dir.jroots
\* every process sees a committed prefix; the lock holder sees everything once it has loaded and bound
ViewsArePrefixes == \A p \in Proc : proot[p] <= dir.jroots /\ pvis[p] <= dir.jroots
WriterSeesAll == \A p \in Proc : (pst[p] = "rw" /\ loaded[p] /\ bound[p]) => (proot[p] = dir.jroots /\ pvis[p] = dir.jroots)
\* a torn tail can only exist while nobody holding the lock has loaded
TornOnlyWithoutLoadedWriter == dir.jtorn => NoLoadedWriter

\* ------------------------------------------------------------------ scripted programs (cfg: Programs <- ProgX)
ProgFree == [p \in Proc |-> <<>>]
OWRC(o) == << <<"Open", o>>, <<"Write", "">>, <<"Read", "">>, <<"Close", "">> >>
\* two processes, every interleaving of Open;Write;Read;Close (70), second opener waits / skips the wait / fails fast
ProgQWait == [p1 |-> OWRC("wait"), p2 |-> OWRC("wait")]
ProgQSkip == [p1 |-> OWRC("skip"), p2 |-> OWRC("skip")]
ProgQFail == [p1 |-> OWRC("wait"), p2 |-> OWRC("failfast")]
\* three processes, every interleaving of Open;Write;Close (1680), one option each
ProgT == [p1 |-> << <<"Open", "wait">>, <<"Write", "">>, <<"Close", "">> >>,
          p2 |-> << <<"Open", "skipfailfast">>, <<"Write", "">>, <<"Close", "">> >>,
          p3 |-> << <<"Open", "skip">>, <<"Write", "">>, <<"Close", "">> >>]
\* the holder dies mid-append; the others read the torn journal read-only or take over (1260 interleavings)
ProgCrash == [p1 |-> << <<"Open", "wait">>, <<"Write", "">>, <<"CrashMidWrite", "">> >>,
              p2 |-> << <<"Open", "wait">>, <<"Read", "">>, <<"Write", "">>, <<"Close", "">> >>,
              p3 |-> << <<"Open", "skip">>, <<"Read", "">> >>]

Done == Scripted /\ \A p \in Proc : pc[p] = Len(Programs[p])
\* scripted mode, exhaustive enumeration: every complete interleaving is printed once (hist is part of the state)
EmitDone == ~Done \/ PrintT(ToJson(hist))
\* simulation mode
Emit == Len(hist) < D \/ PrintT(ToJson(hist))
=============================================================================
