--------------------------- MODULE ClusterRole ---------------------------
(* The SQL face of a cluster member's role (C45: "the standby rejects writes"), statement-granular:
     go/libraries/doltcore/sqle/cluster/assume_role.go   (dolt_assume_cluster_role, dolt_cluster_transition_to_standby)
     go/libraries/doltcore/sqle/cluster/controller.go    (setRoleAndEpoch: role/epoch rules, persistVariables,
                                                          IsStandbyCallback -> provider.SetIsStandby + engine read-only)
     go/cmd/dolt/commands/engine/sqlengine.go            (the callback wiring)
   One server without standby remotes (so a graceful transition has nothing to wait for).  A role change ends the
   calling session ("this server transitioned cluster roles"); role and epoch are persisted and survive a restart.

   Properties: StandbyRejectsWrites (a write succeeds iff the role is primary), EpochMonotone. *)
EXTENDS Integers, Sequences, TLC, Json

CONSTANTS MaxEpoch, D, RecordHist
VARIABLES role, epoch, sessOK, hist
vars == <<role, epoch, sessOK, hist>>
Roles == {"primary", "standby"}

Init == role = "primary" /\ epoch = 1 /\ sessOK = TRUE /\ hist = <<>>

Rec(a, args, e) == IF RecordHist THEN Append(hist, [a |-> a, args |-> args, exp |-> e]) ELSE hist

\* call dolt_assume_cluster_role(r, e)  -> setRoleAndEpoch(r, e, graceful)
AssumeRes(r, e) ==
  IF ~sessOK THEN "err"
  ELSE IF e = epoch /\ r = role THEN "ok"            \* nothing to do
  ELSE IF r \notin Roles THEN "err"                  \* 'detected_broken_config' and unknown names are refused
  ELSE IF e <= epoch THEN "err"                      \* older epoch, or same epoch with another role
  ELSE "ok"
Assume(r, e) ==
  LET res == AssumeRes(r, e)
      changed == res = "ok" /\ r # role
  IN /\ role' = IF res = "ok" /\ r \in Roles THEN r ELSE role
     /\ epoch' = IF res = "ok" THEN e ELSE epoch
     /\ sessOK' = (sessOK /\ ~changed)               \* the calling connection can no longer be used
     /\ hist' = Rec("Assume", [role |-> r, epoch |-> e], [res |-> res, role |-> role', epoch |-> epoch'])

\* call dolt_cluster_transition_to_standby(e, 0).  Unlike dolt_assume_cluster_role this procedure is not marked
\* read-only, so a standby (whose engine is read-only) refuses the call before it runs.
ToStandbyRes(e) == IF ~sessOK \/ role = "standby" \/ e <= epoch THEN "err" ELSE "ok"
ToStandby(e) ==
  LET res == ToStandbyRes(e)
  IN /\ role' = IF res = "ok" THEN "standby" ELSE role
     /\ epoch' = IF res = "ok" THEN e ELSE epoch
     /\ sessOK' = (sessOK /\ res # "ok")
     /\ hist' = Rec("ToStandby", [epoch |-> e], [res |-> res, role |-> role', epoch |-> epoch'])

\* what a write is told in the current state (the expectation shipped with every Write step)
WriteRes == IF sessOK /\ role = "primary" THEN "ok" ELSE "err"
\* insert into t ... (autocommit) on the current session
Write == /\ UNCHANGED <<role, epoch, sessOK>>
         /\ hist' = Rec("Write", <<>>, [res |-> WriteRes, role |-> role, epoch |-> epoch])
Read == /\ UNCHANGED <<role, epoch, sessOK>>
        /\ hist' = Rec("Read", <<>>, [res |-> IF sessOK THEN "ok" ELSE "err", role |-> role, epoch |-> epoch])
\* a new client connection
Reconnect == /\ ~sessOK /\ sessOK' = TRUE /\ UNCHANGED <<role, epoch>>
             /\ hist' = Rec("Reconnect", <<>>, [res |-> "ok", role |-> role, epoch |-> epoch])
\* the server is stopped and started again with the same persisted configuration
Restart == /\ sessOK' = TRUE /\ UNCHANGED <<role, epoch>>
           /\ hist' = Rec("Restart", <<>>, [res |-> "ok", role |-> role, epoch |-> epoch])

Next == \/ \E r \in Roles \cup {"detected_broken_config"}, e \in 1..MaxEpoch : Assume(r, e)
        \/ \E e \in 1..MaxEpoch : ToStandby(e)
        \/ Write \/ Write \/ Read \/ Reconnect \/ Restart
SimNext == \/ \E r \in {RandomElement(Roles \cup {"detected_broken_config"})} : \E e \in {RandomElement(epoch..(epoch + 1))} : Assume(r, e)
           \/ \E r \in {RandomElement(Roles)} : \E e \in {RandomElement(1..MaxEpoch)} : Assume(r, e)
           \/ \E e \in {RandomElement(epoch..(epoch + 1))} : ToStandby(e)
           \/ Write \/ Write \/ Read \/ Reconnect \/ Restart
Spec == Init /\ [][Next]_vars
view == <<role, epoch, sessOK>>

TypeOK == role \in Roles /\ epoch \in 1..MaxEpoch /\ sessOK \in BOOLEAN
StandbyRejectsWrites == role # "primary" => WriteRes = "err"
EpochMonotone == [][epoch' >= epoch]_vars
Bounded == Len(hist) <= D
Emit == Len(hist) < D \/ PrintT(ToJson(hist))
=============================================================================
