--------------------------- MODULE TraceManifestCAS ---------------------------
(* Trace validation (mode T) for ManifestCAS.tla.

   Real, ungated clients (goroutines sharing a store, several stores on one directory, separate OS
   processes) append one line per *invocation* and one per *return* of a public call to a single
   O_APPEND file, so the file order is a total order consistent with real time.  Nothing inside a
   call is logged: this module re-uses the actions of ManifestCAS and lets TLC search for the
   internal steps (linearization points) between the logged events.  A trace is accepted iff TLC
   can consume every line; the high-water mark is printed as TRACE_MATCHED <n>.

   Events:
     {"ev":"invoke","c":client,"i":instance,"op":"put","addr":a}          {"ev":"return","c":..,"op":"put","res":"ok"}
     {"ev":"invoke","c":..,"i":..,"op":"commit","cur":r,"last":r}         {"ev":"return",..,"res":"true"|"false"|"err_..."}
     {"ev":"invoke",..,"op":"rebase"} / {"ev":"invoke",..,"op":"reopen"}  {"ev":"return",..,"res":"ok"}
     {"ev":"invoke",..,"op":"root"}                                        {"ev":"return",..,"root":r}
     {"ev":"invoke",..,"op":"has","addr":a}                                {"ev":"return",..,"res":"true"|"false"}
     {"ev":"invoke","c":..,"i":"-","op":"probe"}  (a fresh opener)         {"ev":"return",..,"root":r,"vis":[a..]}
     {"ev":"reset"}   start of the next trace of a batch (new directory, fresh instances)

   A client layer sits on top of the instances: an invoked call starts (TBegin) only when its
   instance is idle - nbs.mu serialises the calls of goroutines that share one store. *)
EXTENDS ManifestCAS, TLCExt

CONSTANTS Client
VARIABLES l,      \* next line of the trace
          cst,    \* [Client -> "idle" | "invoked" | "running" | "finished"]
          creq,   \* [Client -> invocation event]
          cres,   \* [Client -> result record]
          owner   \* [Inst -> client whose call the instance is executing, or None]

tvars == <<l, cst, creq, cres, owner>>
allvars == <<vars, tvars>>

TraceLog == ndJsonDeserialize("trace.ndjson")
N == Len(TraceLog)

NoReq == [ev |-> "none"]
Mark == IF l > TLCGet(1) THEN TLCSet(1, l) /\ PrintT("TRACE_MATCHED " \o ToString(l)) ELSE TRUE

TInit == /\ Init
         /\ l = 1
         /\ cst = [c \in Client |-> "idle"] /\ creq = [c \in Client |-> NoReq] /\ cres = [c \in Client |-> NoReq]
         /\ owner = [i \in Inst |-> None]
         /\ TLCSet(1, 0)

BaseUnchanged == UNCHANGED vars

\* ---- a logged invocation
TInvoke(c) ==
    /\ l <= N /\ TraceLog[l].ev = "invoke" /\ TraceLog[l].c = c
    /\ cst[c] = "idle"
    /\ cst' = [cst EXCEPT ![c] = "invoked"] /\ creq' = [creq EXCEPT ![c] = TraceLog[l]]
    /\ l' = l + 1 /\ Mark
    /\ UNCHANGED <<cres, owner>> /\ BaseUnchanged

\* ---- the call starts executing on its instance (takes nbs.mu)
TBegin(c) ==
    /\ cst[c] = "invoked"
    /\ LET e == creq[c] IN
       \/ /\ e.op = "put" /\ Put(e.i, e.addr)
          /\ cst' = [cst EXCEPT ![c] = "finished"] /\ cres' = [cres EXCEPT ![c] = [res |-> "ok"]]
          /\ UNCHANGED <<l, creq, owner>>
       \/ /\ e.op = "commit" /\ CommitCall(e.i, e.cur, e.last)
          /\ cst' = [cst EXCEPT ![c] = "running"] /\ owner' = [owner EXCEPT ![e.i] = c]
          /\ UNCHANGED <<l, creq, cres>>
       \/ /\ e.op = "rebase" /\ RebaseCall(e.i)
          /\ cst' = [cst EXCEPT ![c] = "running"] /\ owner' = [owner EXCEPT ![e.i] = c]
          /\ UNCHANGED <<l, creq, cres>>
       \/ /\ e.op = "reopen" /\ ReopenCall(e.i)
          /\ cst' = [cst EXCEPT ![c] = "running"] /\ owner' = [owner EXCEPT ![e.i] = c]
          /\ UNCHANGED <<l, creq, cres>>
       \/ /\ e.op = "root" /\ pc[e.i] = "idle"
          /\ cst' = [cst EXCEPT ![c] = "finished"] /\ cres' = [cres EXCEPT ![c] = [root |-> up[e.i].root]]
          /\ UNCHANGED <<l, creq, owner>> /\ BaseUnchanged
       \/ /\ e.op = "has" /\ pc[e.i] = "idle"
          /\ cst' = [cst EXCEPT ![c] = "finished"]
          /\ cres' = [cres EXCEPT ![c] = [res |-> IF e.addr \in Vis(e.i) THEN "true" ELSE "false"]]
          /\ UNCHANGED <<l, creq, owner>> /\ BaseUnchanged
       \/ /\ e.op = "probe"        \* a fresh opener reads the persisted manifest at one instant
          /\ cst' = [cst EXCEPT ![c] = "finished"]
          /\ cres' = [cres EXCEPT ![c] = [root |-> man.root, vis |-> ChunksOf(man.specs)]]
          /\ UNCHANGED <<l, creq, owner>> /\ BaseUnchanged

\* ---- unlogged internal steps of the instances
TInternal == /\ \E i \in Inst : Internal(i)
             /\ UNCHANGED tvars

\* ---- the call finishes (releases nbs.mu); its result is handed to the client
TEnd(c) ==
    /\ cst[c] = "running"
    /\ LET i == creq[c].i IN
       /\ owner[i] = c /\ pc[i] = "done"
       /\ cres' = [cres EXCEPT ![c] = [res |-> res[i]]]
       /\ Return(i)
       /\ owner' = [owner EXCEPT ![i] = None]
    /\ cst' = [cst EXCEPT ![c] = "finished"]
    /\ UNCHANGED <<l, creq>>

\* ---- a logged return: must agree with what the model computed
SetOf(s) == {s[k] : k \in 1..Len(s)}
TReturn(c) ==
    /\ l <= N /\ TraceLog[l].ev = "return" /\ TraceLog[l].c = c
    /\ cst[c] = "finished"
    /\ LET e == TraceLog[l] IN
       CASE creq[c].op \in {"put", "commit", "rebase", "reopen", "has"} -> e.res = cres[c].res
         [] creq[c].op = "root" -> e.root = cres[c].root
         [] creq[c].op = "probe" -> e.root = cres[c].root /\ SetOf(e.vis) = cres[c].vis
    /\ cst' = [cst EXCEPT ![c] = "idle"]
    /\ l' = l + 1 /\ Mark
    /\ UNCHANGED <<creq, cres, owner>> /\ BaseUnchanged

\* ---- next trace of the batch: everything back to the initial state
TReset ==
    /\ l <= N /\ TraceLog[l].ev = "reset"
    /\ \A c \in Client : cst[c] = "idle"
    /\ \A i \in Inst : pc[i] = "idle"
    /\ man' = NoMan /\ files' = {} /\ holder' = None
    /\ mem' = [i \in Inst |-> Empty] /\ novel' = [i \in Inst |-> {}] /\ up' = [i \in Inst |-> NoMan]
    /\ hasCache' = [i \in Inst |-> {}]
    /\ pc' = [i \in Inst |-> "idle"] /\ op' = [i \in Inst |-> "none"]
    /\ cur' = [i \in Inst |-> None] /\ last' = [i \in Inst |-> None]
    /\ ret' = [i \in Inst |-> NoMan] /\ res' = [i \in Inst |-> "none"]
    /\ changed' = [i \in Inst |-> FALSE] /\ via' = [i \in Inst |-> "none"]
    /\ pending' = [i \in Inst |-> {}] /\ durable' = {}
    /\ nCommits' = 0 /\ nPuts' = 0 /\ nReopens' = 0 /\ nRebases' = 0
    /\ hist' = hist
    /\ l' = l + 1 /\ Mark
    /\ UNCHANGED <<cst, creq, cres, owner>>

TNext == \/ \E c \in Client : TInvoke(c) \/ TBegin(c) \/ TEnd(c) \/ TReturn(c)
         \/ TInternal
         \/ TReset

TSpec == TInit /\ [][TNext]_allvars

tview == <<view, tvars>>

=============================================================================
