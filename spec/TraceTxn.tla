----------------------------- MODULE TraceTxn -----------------------------
(* Trace validation for Txn.tla (binding mode T): real goroutines run SQL sessions concurrently and log, with one global
   atomic counter, a "call" event before and a "ret" event after every statement.  A trace is accepted iff every
   statement can be given a linearization point between its call and its return such that the statement-atomic
   machine of Txn.tla produces exactly the logged results (result class, rows read, rows affected) and, at the end, the
   logged persisted state of every branch ("final table equals the fold of acknowledged transactions in some order
   consistent with real time"; reads inside transactions must be explained by the snapshot taken at a point
   consistent with real time).

   trace.ndjson: {"ev":"reset"} {"ev":"call","s":..,"a":..,"args":{..},"ri":n} {"ev":"ret","s":..,"res":..,"out":{..}}
                 {"ev":"final","store":{..}}; several traces are concatenated, each starts with reset.
   Every trace starts from Init with InitRowSets = {Rows} (singleton) and ACs = {FALSE}. *)
EXTENDS Txn

VARIABLES i,      \* next event
          pend    \* [Sessions -> [st: "none" | "called" | "done", a, args]]

TraceLog == ndJsonDeserialize("trace.ndjson")
N == Len(TraceLog)
ASSUME TLCSet(42, 0)

tvars == <<store, sess, last, hist, i, pend>>
NoPend == [st |-> "none", a |-> "", args |-> <<>>, ri |-> 0]

TInit == Init /\ i = 1 /\ pend = [s \in Sessions |-> NoPend]

Ev == TraceLog[i]
SpecUnchanged == UNCHANGED <<store, sess, last, hist>>

EvCall == /\ i <= N /\ Ev.ev = "call" /\ pend[Ev.s].st = "none"
          /\ pend' = [pend EXCEPT ![Ev.s] = [st |-> "called", a |-> Ev.a, args |-> Ev.args, ri |-> Ev.ri]]
          /\ i' = i + 1 /\ SpecUnchanged

\* the return event of the statement session s is executing: ri = position of that event in the log (every call event
\* carries it; it is filled in mechanically from the log itself: the next "ret" of the same session)
RetOf(s) == TraceLog[pend[s].ri]

Do(s, a, g) ==
    CASE a = "Read" -> Read(s, g.b)
      [] a = "Update" -> Update(s, g.b, g.r, g.i, g.v)
      [] a = "Insert" -> Insert(s, g.b, g.r, g.row)
      [] a = "Delete" -> Delete(s, g.b, g.r)
      [] a = "Begin" -> Begin(s)
      [] a = "Commit" -> Commit(s)
      [] a = "Rollback" -> Rollback(s)
      [] a = "DoltCommit" -> DoltCommit(s, g.all)
      [] a = "DoltAdd" -> DoltAdd(s)
      [] a = "Checkout" -> Checkout(s, g.b)
      [] a = "Savepoint" -> Savepoint(s)
      [] a = "RollbackTo" -> RollbackTo(s)
      [] a = "Release" -> Release(s)
      [] a = "Use" -> Use(s, g.b)
      [] a = "SetAutocommit" -> SetAutocommit(s, g.v)
      [] a = "SetTc" -> SetTc(s, g.v)

Lin(s) == /\ i <= N /\ pend[s].st = "called"
          /\ Do(s, pend[s].a, pend[s].args)
          /\ LET e == RetOf(s) IN
               /\ e.ev = "ret" /\ e.s = s
               /\ last'.res = e.res
               /\ pend[s].a = "Read" => last'.out = e.out
               /\ pend[s].a \in WriteKinds => last'.out.aff = e.out.aff
          /\ pend' = [pend EXCEPT ![s].st = "done"]
          /\ i' = i

EvRet == /\ i <= N /\ Ev.ev = "ret" /\ pend[Ev.s].st = "done"
         /\ pend' = [pend EXCEPT ![Ev.s] = NoPend]
         /\ i' = i + 1 /\ SpecUnchanged

EvFinal == /\ i <= N /\ Ev.ev = "final" /\ \A s \in Sessions : pend[s].st = "none"
           /\ StoreProj(store) = Ev.store
           /\ i' = i + 1 /\ UNCHANGED pend /\ SpecUnchanged

\* a new trace starts: everything back to the initial state
EvReset == /\ i <= N /\ Ev.ev = "reset" /\ \A s \in Sessions : pend[s].st = "none"
           /\ \E P \in InitRowSets : store' = [b \in Branches |-> BR(InitTable(P))]
           /\ \E f \in [Sessions -> ACs] :
                sess' = [s \in Sessions |-> [txn |-> "none", expl |-> FALSE, ac |-> f[s], tc |-> FALSE, co |-> Main, usedb |-> "base",
                                              snap |-> NilStore, mine |-> NilStore, dirty |-> {}, sp |-> NoSp]]
           /\ last' = [s |-> "none", a |-> "Init", res |-> "ok", att |-> FALSE]
           /\ i' = i + 1 /\ UNCHANGED <<pend, hist>>

TNext == EvCall \/ EvRet \/ EvFinal \/ EvReset \/ \E s \in Sessions : Lin(s)

\* high-water mark of consumed events (workers = 1)
HW == TLCSet(42, IF i - 1 > TLCGet(42) THEN i - 1 ELSE TLCGet(42))
Post == PrintT("TRACE_MATCHED " \o ToString(TLCGet(42)))
=============================================================================
