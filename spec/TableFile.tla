--------------------------- MODULE TableFile ---------------------------
(* Chunk sources as values (go/store/nbs table_writer.go, mem_table.go write(), archive_writer.go
   ArchiveStreamWriter, conjoiner.go conjoinTables, table_persister.go planTableConjoin, archive_writer.go
   planArchiveConjoin, table_reader.go, archive_reader.go).

   A file is a format plus a BAG of addresses:
     Write(ws, "table")    memtable + tableWriter: duplicate writes of an address collapse (memTable.addChunk chunkExists)
     Write(ws, "archive")  ArchiveStreamWriter fed the same writes, duplicates skipped (SeenChunk), as every caller does
     Conjoin(I)            range-copy of the chunk records of the files I: a bag union, duplicates are kept and counted;
                           the result is an archive as soon as one conjoinee is an archive
     ToArchive(i)          the chunks of file i streamed into a new archive (what a collection or a pull does with
                           the records of a table file); duplicates collapse again
   Read operators per file: Has, Get, Count (= number of records), Iter (multiplicity per address), Unc (sum of the
   uncompressed payload sizes of all records; table files only).

   C06: every file reads back exactly what went in, and nothing else.  The same algebra (tables as bags, conjoin =
   bag union) is what ChunkStore.tla uses for its table sets. *)
EXTENDS Integers, Sequences, FiniteSets, TLC, Json

CONSTANTS NAddr, Shapes,      \* subset of {"asc", "desc", "dup", "rot"}: write orders / duplicate patterns per subset
          Formats,            \* subset of {"table", "archive"}
          Plan,               \* "pair": Setup, Write, Write, Conjoin{1,2}, ToArchive(3)  (enumerated exhaustively)
                              \* "free": any sequence of Write / Conjoin / ToArchive       (simulation)
          MaxFiles, D, RecordHist, Sim

VARIABLES files, hist, n
vars == <<files, hist, n>>
view == <<files, n>>

AddrSeq == SubSeq(<<"a1", "a2", "a3", "a4", "a5", "a6", "a7", "a8">>, 1, NAddr)
Addr == {AddrSeq[i] : i \in DOMAIN AddrSeq}
None == "none"
Idx(a) == CHOOSE i \in DOMAIN AddrSeq : AddrSeq[i] = a
\* payload classes are fixed per address: tiny, compressible, incompressible, ...
KindOf(a) == <<"t", "c", "r">>[((Idx(a) - 1) % 3) + 1]
SizeOf(k) == CASE k = "t" -> 1 [] k = "c" -> 3 [] OTHER -> 2
Pick(S) == IF Sim THEN {RandomElement(S)} ELSE S

RECURSIVE Asc(_)
Asc(S) == IF S = {} THEN <<>> ELSE LET m == CHOOSE x \in S : \A y \in S : Idx(x) <= Idx(y) IN <<m>> \o Asc(S \ {m})
Rev(s) == [i \in 1..Len(s) |-> s[Len(s) + 1 - i]]
Shape(S, sh) == CASE sh = "asc" -> Asc(S)
                  [] sh = "desc" -> Rev(Asc(S))
                  [] sh = "dup" -> Asc(S) \o Rev(Asc(S))                        \* every address written twice
                  [] OTHER -> LET s == Asc(S) IN Tail(s) \o <<Head(s)>> \o <<Head(s)>>   \* rotated, first written twice
WriteSeqs == {Shape(S, sh) : S \in (SUBSET Addr) \ {{}}, sh \in Shapes}

EmptyBag == [a \in Addr |-> 0]
BagOfSeq(ws) == [a \in Addr |-> IF \E i \in DOMAIN ws : ws[i] = a THEN 1 ELSE 0]     \* duplicate writes collapse
BagSum(b1, b2) == [a \in Addr |-> b1[a] + b2[a]]
RECURSIVE SumBags(_, _)
SumBags(F, I) == IF I = {} THEN EmptyBag ELSE LET i == CHOOSE x \in I : TRUE IN BagSum(F[i].bag, SumBags(F, I \ {i}))
Flat(b) == [a \in Addr |-> IF b[a] > 0 THEN 1 ELSE 0]
RECURSIVE Total(_, _)
Total(b, S) == IF S = {} THEN 0 ELSE LET a == CHOOSE x \in S : TRUE IN b[a] + Total(b, S \ {a})
RECURSIVE Weighted(_, _)
Weighted(b, S) == IF S = {} THEN 0 ELSE LET a == CHOOSE x \in S : TRUE IN b[a] * SizeOf(KindOf(a)) + Weighted(b, S \ {a})

\* ------------------------------------------------------------------ read operators of one file
Has(f, a) == f.bag[a] > 0
Get(f, a) == IF f.bag[a] > 0 THEN KindOf(a) ELSE None
Count(f) == Total(f.bag, Addr)
Unc(f) == Weighted(f.bag, Addr)
ProjFile(f) == [fmt |-> f.fmt, get |-> [a \in Addr |-> Get(f, a)], count |-> Count(f), iter |-> f.bag, unc |-> Unc(f)]
Proj == [i \in DOMAIN files |-> ProjFile(files[i])]

Rec(a, args) == /\ n' = n + 1
                /\ hist' = IF RecordHist THEN Append(hist, [a |-> a, args |-> args, exp |-> Proj']) ELSE hist

Init == files = <<>> /\ hist = <<>> /\ n = 0

Setup == /\ n = 0 /\ UNCHANGED files
         /\ Rec("Setup", [kind |-> [a \in Addr |-> KindOf(a)]])

Write(ws, fmt) ==
    /\ n > 0 /\ Len(files) < MaxFiles
    /\ files' = Append(files, [fmt |-> fmt, bag |-> BagOfSeq(ws), src |-> {}, op |-> "write"])
    /\ Rec("Write", [ws |-> ws, fmt |-> fmt])

Conjoin(I) ==
    /\ n > 0 /\ Len(files) < MaxFiles
    /\ I \subseteq DOMAIN files /\ Cardinality(I) >= 2
    /\ files' = Append(files, [fmt |-> IF \E i \in I : files[i].fmt = "archive" THEN "archive" ELSE "table",
                               bag |-> SumBags(files, I), src |-> I, op |-> "conjoin"])
    /\ Rec("Conjoin", [of |-> I])

ToArchive(i) ==
    /\ n > 0 /\ Len(files) < MaxFiles
    /\ i \in DOMAIN files
    /\ files' = Append(files, [fmt |-> "archive", bag |-> Flat(files[i].bag), src |-> {i}, op |-> "toarchive"])
    /\ Rec("ToArchive", [of |-> i])

NextPair == \/ Setup
            \/ (n \in {1, 2} /\ \E ws \in Pick(WriteSeqs), f \in Pick(Formats) : Write(ws, f))
            \/ (n = 3 /\ Conjoin({1, 2}))
            \/ (n = 4 /\ ToArchive(3))
NextFree == \/ Setup
            \/ \E ws \in Pick(WriteSeqs), f \in Pick(Formats) : Write(ws, f)
            \/ (Len(files) >= 2 /\ \E I \in Pick({J \in SUBSET (DOMAIN files) : Cardinality(J) >= 2}) : Conjoin(I))
            \/ (Len(files) >= 1 /\ \E i \in Pick(DOMAIN files) : ToArchive(i))
Next == IF Plan = "pair" THEN NextPair ELSE NextFree
Spec == Init /\ [][Next]_vars

\* ------------------------------------------------------------------ what TLC checks on the model
TypeOK == \A i \in DOMAIN files : files[i].fmt \in {"table", "archive"} /\ files[i].bag \in [Addr -> Nat]

\* the algebra C06 states: a file holds exactly what went in
RoundTrip ==
    \A i \in DOMAIN files :
       LET f == files[i] IN
       /\ \A a \in Addr : (Has(f, a) <=> (Get(f, a) # None)) /\ (Has(f, a) <=> (f.bag[a] > 0))
       /\ Count(f) = Total(f.bag, Addr) /\ Count(f) >= Cardinality({a \in Addr : Has(f, a)})
       /\ (f.op = "conjoin" => (\A a \in Addr : f.bag[a] = Total([j \in f.src |-> files[j].bag[a]], f.src)))
       /\ (f.op = "conjoin" => Count(f) = Total([j \in f.src |-> Count(files[j])], f.src))
       /\ (f.op = "toarchive" => (\A j \in f.src : \A a \in Addr : (Has(f, a) <=> Has(files[j], a)) /\ f.bag[a] <= 1))
       /\ (f.op = "write" => \A a \in Addr : f.bag[a] <= 1)

Emit == Len(hist) < D \/ PrintT(ToJson(hist))
=============================================================================
