--------------------------- MODULE MapDiff ---------------------------
(* Diffs between two versions of a prolly map (go/store/prolly/tuple_map.go: DiffMaps, RangeDiffMaps,
   DiffMapsKeyRange; go/store/prolly/tree/diff.go: Differ.next; go/store/prolly/tuple_range.go: the physical
   partition of a Range).  Keys, values and the key order come from SortedMap.tla.

   Two formulations are given and TLC checks that they agree on every pair of maps:
     * declarative  - Diff(a, b, P) = ascending sequence of [k, type, from, to] over the keys inside P whose
                      presence or value differs (this is the property statement C13);
     * operational  - what the code does: two cursors walk the two sorted entry sequences between a start and a
                      stop position that are searched *separately in each map* (DifferFromCursors,
                      DiffKeyRangeOrderedTrees), emitting removed / added / modified, followed by the
                      canonical-tuple filter of makeDiffCallBack.
   Named deviations of the code that the spec keeps visible:
     * RawDiff        - tree.Differ compares bytes: two encodings of the same value (Twin) are "modified";
                        prolly.DiffMaps filters these out again when both maps have the same value descriptor;
     * DiffAllMod     - considerAllRowsModified (schema change): every key present on both sides is modified;
     * PhysIn         - RangeDiffMaps reports the diffs of the *physical partition* of a Range (aboveStart /
                        belowStop), which equals the logical range exactly when the range is contiguous.

   The state machine is the version history of one map: `from` is an older version, `to` the current one.
   C13 behaviours (simulation) carry the TLC-computed diff after every step and the answers to range queries;
   the generator configuration (GenInit) enumerates every pair of maps with every query. *)
EXTENDS Integers, Sequences, SequencesExt, FiniteSets, TLC, Json

CONSTANTS F1, F2,        \* field domains; keys are <<f1, f2>> (SortedMap)
          NV,            \* values 1..NV, 0 = absent
          Twin,          \* set of 2-element sets {v, w}: different encodings of the same logical value
          BlockCodes,    \* set of 10*f1+f2: keys that the binding realises as a run of whole chunks (model-transparent)
          D, RecordHist, \* behaviour length at which hist is emitted / FALSE in exhaustive configs
          NQ,            \* generator: Ranges attached to a case (0 = all); simulation: range-query successors per state
          Salt,          \* perturbs the pseudo-random choice of ranges (TLC's RandomElement repeats itself, see Pick)
          Shard, NShards \* generator: this TLC process emits the cases with CaseNo % NShards = Shard

VARIABLES from, to, hist

vars == <<from, to, hist>>
view == <<from, to>>

SM == INSTANCE SortedMap WITH MaxPendings <- {1}, cur <- to, pend <- {}, hasCp <- FALSE, cpCur <- to,
                              cpPend <- {}, maxPending <- 1, hist <- <<>>

Key == F1 \X F2                      \* = SM!Key (ASSUME below); restated so that TLC evaluates it once as a constant
Val == 1..NV
Maps == [Key -> 0..NV]
KLess(a, b) == SM!KLess(a, b)
KLeq(a, b) == SM!KLeq(a, b)
SortKeys(S) == SM!SortKeys(S)
Entries(c) == SM!Entries(c)          \* ascending <<f1, f2, v>>
BlockKeys == {k \in Key : (10 * k[1] + k[2]) \in BlockCodes}
PointKeys == Key \ BlockKeys

\* ------------------------------------------------------------------ values
LEq(x, y) == x = y \/ (x # 0 /\ y # 0 /\ {x, y} \in Twin)      \* logical equality (canonical tuples)
DType(x, y) == IF x = 0 THEN "added" ELSE IF y = 0 THEN "removed" ELSE "modified"
DRec(a, b, k) == [k |-> k, type |-> DType(a[k], b[k]), from |-> a[k], to |-> b[k]]

\* ------------------------------------------------------------------ declarative diffs (the statement)
DiffSeq(a, b, S) == LET ks == SortKeys(S) IN [i \in 1..Len(ks) |-> DRec(a, b, ks[i])]
Changed(a, b) == {k \in Key : ~LEq(a[k], b[k])}
ByteChanged(a, b) == {k \in Key : a[k] # b[k]}
Diff(a, b) == DiffSeq(a, b, Changed(a, b))
DiffIn(a, b, S) == DiffSeq(a, b, Changed(a, b) \cap S)
RawDiff(a, b) == DiffSeq(a, b, ByteChanged(a, b))
DiffAllMod(a, b) == DiffSeq(a, b, {k \in Key : a[k] # 0 \/ b[k] # 0})

ApplyDiff(a, d) == [k \in Key |-> IF \E i \in 1..Len(d) : d[i].k = k
                                  THEN (LET i == CHOOSE i \in 1..Len(d) : d[i].k = k IN d[i].to)
                                  ELSE a[k]]
Invert(d) == [i \in 1..Len(d) |-> [k |-> d[i].k, type |-> DType(d[i].to, d[i].from), from |-> d[i].to, to |-> d[i].from]]
Count(d, t) == Cardinality({i \in 1..Len(d) : d[i].type = t})

\* ------------------------------------------------------------------ ranges
\* A Range is a sequence (length 1 or 2) of per-field <<lo, hi>>, a bound is <<kind, value>> (SortedMap).
Bounds(F) == {<<"none", 0>>} \cup {<<kd, x>> : kd \in {"incl", "excl"}, x \in F}
FieldRanges(F) == Bounds(F) \X Bounds(F)
Ranges == {<<r1>> : r1 \in FieldRanges(F1)} \cup {<<r1, r2>> : r1 \in FieldRanges(F1), r2 \in FieldRanges(F2)}     \* = SM!Ranges
ASSUME Key = SM!Key /\ Ranges = SM!Ranges
InRange(k, r) == SM!InRange(k, r)                \* the logical predicate (Range.Matches)
BoundsEq(fr) == fr[1][1] = "incl" /\ fr[2][1] = "incl" /\ fr[1][2] = fr[2][2]     \* RangeField.BoundsAreEqual

\* tuple_range.go: Range.aboveStart / Range.belowStop - lexicographic search predicates of the physical partition
RECURSIVE AboveStartFrom(_, _, _)
AboveStartFrom(k, r, i) ==
    IF i > Len(r) THEN TRUE
    ELSE LET lo == r[i][1] IN
         IF lo[1] = "none" THEN TRUE
         ELSE IF k[i] < lo[2] THEN FALSE
         ELSE IF BoundsEq(r[i]) /\ k[i] = lo[2] THEN AboveStartFrom(k, r, i + 1)
         ELSE k[i] > lo[2] \/ lo[1] = "incl"
RECURSIVE BelowStopFrom(_, _, _)
BelowStopFrom(k, r, i) ==
    IF i > Len(r) THEN TRUE
    ELSE LET hi == r[i][2] IN
         IF hi[1] = "none" THEN TRUE
         ELSE IF k[i] > hi[2] THEN FALSE
         ELSE IF BoundsEq(r[i]) /\ k[i] = hi[2] THEN BelowStopFrom(k, r, i + 1)
         ELSE k[i] < hi[2] \/ hi[1] = "incl"
AboveStart(k, r) == AboveStartFrom(k, r, 1)
BelowStop(k, r) == BelowStopFrom(k, r, 1)
PhysIn(k, r) == AboveStart(k, r) /\ BelowStop(k, r)
PhysKeys(r) == {k \in Key : PhysIn(k, r)}

Restricted(fr) == fr[1][1] # "none" \/ fr[2][1] # "none"
\* Range.IsContiguous: equality restrictions, then at most one non-equality, then nothing
Contiguous(r) == Len(r) = 1 \/ BoundsEq(r[1]) \/ ~Restricted(r[2])

KeyOrNone == Key \cup {<<>>}
InKeyRange(k, s, t) == (s = <<>> \/ KLeq(s, k)) /\ (t = <<>> \/ KLess(k, t))
KeyRangeKeys(s, t) == {k \in Key : InKeyRange(k, s, t)}

\* ------------------------------------------------------------------ operational diff: the two-cursor walk of Differ.next
EK(e, i) == <<e[i][1], e[i][2]>>
\* sort.Search: smallest position whose key satisfies the (monotone) predicate, Len+1 if none
FirstPos(e, P(_)) == IF \E i \in 1..Len(e) : P(EK(e, i)) THEN (CHOOSE i \in 1..Len(e) : P(EK(e, i)) /\ \A j \in 1..(i - 1) : ~P(EK(e, j)))
                     ELSE Len(e) + 1

RECURSIVE Walk(_, _, _, _, _, _, _)
Walk(ea, eb, i, iStop, j, jStop, allMod) ==
    IF i < iStop /\ j < jStop THEN
        LET ka == EK(ea, i)
            kb == EK(eb, j)
        IN IF KLess(ka, kb) THEN <<[k |-> ka, type |-> "removed", from |-> ea[i][3], to |-> 0]>> \o Walk(ea, eb, i + 1, iStop, j, jStop, allMod)
           ELSE IF KLess(kb, ka) THEN <<[k |-> kb, type |-> "added", from |-> 0, to |-> eb[j][3]]>> \o Walk(ea, eb, i, iStop, j + 1, jStop, allMod)
           ELSE IF allMod \/ ea[i][3] # eb[j][3]
                THEN <<[k |-> ka, type |-> "modified", from |-> ea[i][3], to |-> eb[j][3]]>> \o Walk(ea, eb, i + 1, iStop, j + 1, jStop, allMod)
                ELSE Walk(ea, eb, i + 1, iStop, j + 1, jStop, allMod)      \* equal items: advance both, skipCommon
    ELSE IF i < iStop THEN <<[k |-> EK(ea, i), type |-> "removed", from |-> ea[i][3], to |-> 0]>> \o Walk(ea, eb, i + 1, iStop, j, jStop, allMod)
    ELSE IF j < jStop THEN <<[k |-> EK(eb, j), type |-> "added", from |-> 0, to |-> eb[j][3]]>> \o Walk(ea, eb, i, iStop, j + 1, jStop, allMod)
    ELSE <<>>

\* makeDiffCallBack: with equal value descriptors a "modified" whose two values compare equal is dropped
CanonFilter(d) == SelectSeq(d, LAMBDA x : ~(x.type = "modified" /\ LEq(x.from, x.to)))

DiffMapsOp(a, b, allMod, sameDesc) ==
    LET ea == Entries(a)
        eb == Entries(b)
        w == Walk(ea, eb, 1, Len(ea) + 1, 1, Len(eb) + 1, allMod)
    IN IF sameDesc THEN CanonFilter(w) ELSE w

RangeDiffOp(a, b, r) ==
    LET ea == Entries(a)
        eb == Entries(b)
        st(k) == AboveStart(k, r)
        sp(k) == ~BelowStop(k, r)
    IN CanonFilter(Walk(ea, eb, FirstPos(ea, st), FirstPos(ea, sp), FirstPos(eb, st), FirstPos(eb, sp), FALSE))

KeyRangeDiffOp(a, b, s, t) ==
    LET ea == Entries(a)
        eb == Entries(b)
        st(k) == KLeq(s, k)
        sp(k) == KLeq(t, k)
        i0 == IF s = <<>> THEN 1 ELSE FirstPos(ea, st)
        j0 == IF s = <<>> THEN 1 ELSE FirstPos(eb, st)
        i1 == IF t = <<>> THEN Len(ea) + 1 ELSE FirstPos(ea, sp)
        j1 == IF t = <<>> THEN Len(eb) + 1 ELSE FirstPos(eb, sp)
    IN CanonFilter(Walk(ea, eb, i0, i1, j0, j1, FALSE))

\* ------------------------------------------------------------------ what is shipped to the engine
Compact(d) == [i \in 1..Len(d) |-> <<d[i].k[1], d[i].k[2], d[i].type, d[i].from, d[i].to>>]
Proj(a, b) == [from |-> Entries(a), to |-> Entries(b), diff |-> Compact(DiffMapsOp(a, b, FALSE, TRUE)),
               raw |-> Compact(DiffMapsOp(a, b, FALSE, FALSE)), allmod |-> Compact(DiffMapsOp(a, b, TRUE, FALSE))]
QRangeRec(a, b, r) == [kind |-> "range", r |-> r, contig |-> Contiguous(r), res |-> Compact(RangeDiffOp(a, b, r))]
QKeyRangeRec(a, b, s, t) == [kind |-> "keyrange", start |-> s, stop |-> t, res |-> Compact(KeyRangeDiffOp(a, b, s, t))]
Rec(a, args, q) == IF RecordHist THEN Append(hist, [a |-> a, args |-> args, exp |-> Proj(from', to'), q |-> q]) ELSE hist

\* ------------------------------------------------------------------ actions
Empty == [k \in Key |-> 0]
Init == from = Empty /\ to = Empty /\ hist = <<>>

\* an edit made to both versions (history common to both, e.g. made before `from` was snapshotted)
Build(k, v) == /\ from' = [from EXCEPT ![k] = v] /\ to' = [to EXCEPT ![k] = v]
               /\ hist' = Rec("Build", [f1 |-> k[1], f2 |-> k[2], v |-> v], <<>>)
\* edits of the current version only (MutableMap.Put / Delete followed by Map())
Put(k, v) == /\ k \in PointKeys /\ to' = [to EXCEPT ![k] = v] /\ UNCHANGED from
             /\ hist' = Rec("Put", [f1 |-> k[1], f2 |-> k[2], v |-> v], <<>>)
Delete(k) == /\ k \in PointKeys /\ to' = [to EXCEPT ![k] = 0] /\ UNCHANGED from
             /\ hist' = Rec("Delete", [f1 |-> k[1], f2 |-> k[2]], <<>>)
\* whole chunks appear / are rewritten / disappear
BlockPut(k, v) == /\ k \in BlockKeys /\ to' = [to EXCEPT ![k] = v] /\ UNCHANGED from
                  /\ hist' = Rec("BlockPut", [f1 |-> k[1], f2 |-> k[2], v |-> v], <<>>)
BlockDelete(k) == /\ k \in BlockKeys /\ to' = [to EXCEPT ![k] = 0] /\ UNCHANGED from
                  /\ hist' = Rec("BlockDelete", [f1 |-> k[1], f2 |-> k[2]], <<>>)
\* the current version becomes the old one (diff of consecutive versions)
Snapshot == /\ from' = to /\ UNCHANGED to /\ hist' = Rec("Snapshot", <<>>, <<>>)
\* diff in the other direction
Swap == /\ from' = to /\ to' = from /\ hist' = Rec("Swap", <<>>, <<>>)
\* the current version is replaced by an unrelated map built from scratch (no shared history)
Rebuild(m) == /\ to' = m /\ UNCHANGED from /\ hist' = Rec("Rebuild", [m |-> Entries(m)], <<>>)

Query(q) == /\ RecordHist /\ UNCHANGED <<from, to>>
            /\ hist' = Append(hist, [a |-> "Query", args |-> <<>>, exp |-> Proj(from, to), q |-> q])
\* Pseudo-random parameters.  RandomElement is useless here: TLC re-seeds it for every evaluation of Next / Init, so the
\* n-th call always returns the same element.  Parameters are instead picked by a hash of the state (and Salt).
RECURSIVE MapNo(_, _)
MapNo(m, ks) == IF ks = <<>> THEN 0 ELSE m[Head(ks)] + (NV + 1) * MapNo(m, Tail(ks))
RECURSIVE Pow(_, _)
Pow(x, e) == IF e = 0 THEN 1 ELSE x * Pow(x, e - 1)
KeySeq == SortKeys(Key)
MapFromNo(n) == [k \in Key |-> LET i == CHOOSE j \in 1..Len(KeySeq) : KeySeq[j] = k IN (n \div Pow(NV + 1, i - 1)) % (NV + 1)]
RangeSeq == SetToSeq(Ranges)
KeyOrNoneSeq == SetToSeq(KeyOrNone)
Hash(a, b, n) == MapNo(a, KeySeq) * 7 + MapNo(b, KeySeq) * 13 + n * 29 + Salt
Pick(h, i) == RangeSeq[((h * 31 + i * 97 + i * i * 13) % Len(RangeSeq)) + 1]
KPick(h, i) == KeyOrNoneSeq[((h * 17 + i * 5 + i * i * 3) % Len(KeyOrNoneSeq)) + 1]

\* simulation: TLC picks uniformly among successor states; NQ range queries + NQ/2 key-range queries per state keep
\* queries about as likely as edits
Next == \/ \E k \in Key, v \in Val : Build(k, v) \/ Put(k, v) \/ BlockPut(k, v)
        \/ \E k \in Key : Delete(k) \/ BlockDelete(k)
        \/ Snapshot \/ Swap
        \/ \E m \in {MapFromNo((Hash(from, to, Len(hist)) * 37 + i * 101) % Pow(NV + 1, Len(KeySeq))) : i \in 1..2} : Rebuild(m)
        \/ \E r \in {Pick(Hash(from, to, Len(hist)), i) : i \in 1..NQ} : Query(QRangeRec(from, to, r))
        \/ \E st \in {<<KPick(Hash(from, to, Len(hist)), i), KPick(Hash(from, to, Len(hist)), i + 11)>> : i \in 1..(NQ \div 2)} : Query(QKeyRangeRec(from, to, st[1], st[2]))
\* exhaustive configs: edits only
NextExh == \/ \E k \in Key, v \in Val : Build(k, v) \/ Put(k, v) \/ BlockPut(k, v)
           \/ \E k \in Key : Delete(k) \/ BlockDelete(k)
           \/ Snapshot \/ Swap
Spec == Init /\ [][NextExh]_vars

\* ------------------------------------------------------------------ generator: every pair of maps, every query
CaseNo(a, b) == MapNo(a, KeySeq) + 7 * MapNo(b, KeySeq)
RangeSample(a, b) == IF NQ = 0 THEN Ranges ELSE {Pick(Hash(a, b, 0), i) : i \in 1..NQ}
AllQueries(a, b) ==
    LET rs == SetToSeq(RangeSample(a, b))
        ks == SetToSeq(KeyOrNone \X KeyOrNone)
    IN [i \in 1..Len(rs) |-> QRangeRec(a, b, rs[i])] \o [i \in 1..Len(ks) |-> QKeyRangeRec(a, b, ks[i][1], ks[i][2])]
GenInit == /\ from \in Maps /\ to \in Maps
           /\ CaseNo(from, to) % NShards = Shard
           /\ hist = <<[a |-> "Case", args |-> <<>>, exp |-> Proj(from, to), q |-> <<>>, qs |-> AllQueries(from, to)]>>
GenNext == FALSE /\ UNCHANGED vars      \* the cases are the initial states; nothing follows

\* ------------------------------------------------------------------ invariants: C13 on the model
TypeOK == from \in Maps /\ to \in Maps

Ascending(d) == \A i \in 1..(Len(d) - 1) : KLess(d[i].k, d[i + 1].k)      \* implies: no key twice
Faithful(a, b, d) == \A i \in 1..Len(d) : /\ d[i].from = a[d[i].k] /\ d[i].to = b[d[i].k]
                                          /\ d[i].type = DType(a[d[i].k], b[d[i].k])
                                          /\ (d[i].type = "added" <=> (a[d[i].k] = 0 /\ b[d[i].k] # 0))
                                          /\ (d[i].type = "removed" <=> (a[d[i].k] # 0 /\ b[d[i].k] = 0))
KeysOf(d) == {d[i].k : i \in 1..Len(d)}

\* the statement: exactly the differing keys, once, ascending, with the right values and type
DiffIsExact ==
    LET d == Diff(from, to) IN
    /\ Ascending(d) /\ Faithful(from, to, d)
    /\ KeysOf(d) = {k \in Key : ~LEq(from[k], to[k])}
    /\ \A k \in Key : LEq(ApplyDiff(from, d)[k], to[k])
    /\ ApplyDiff(from, RawDiff(from, to)) = to
    /\ Diff(to, from) = Invert(d)
    /\ Count(RawDiff(from, to), "added") - Count(RawDiff(from, to), "removed") = Len(Entries(to)) - Len(Entries(from))
    /\ (from = to <=> RawDiff(from, to) = <<>>)

\* the cursor walk of the code computes the declarative diff (whole key space)
WalkAgrees ==
    /\ DiffMapsOp(from, to, FALSE, TRUE) = Diff(from, to)
    /\ DiffMapsOp(from, to, FALSE, FALSE) = RawDiff(from, to)
    /\ DiffMapsOp(from, to, TRUE, FALSE) = DiffAllMod(from, to)
    /\ DiffMapsOp(from, to, TRUE, TRUE) = Diff(from, to)        \* the filter undoes considerAllRowsModified

\* ranges: the walk between separately searched start/stop positions = the diff restricted to the physical
\* partition; the partition contains the logical range and equals it for contiguous ranges
RangesAgree == \A r \in Ranges : RangeDiffOp(from, to, r) = DiffIn(from, to, PhysKeys(r))
\* state-independent facts about Ranges (checked once, as an ASSUME of the exhaustive models): the search predicates are
\* monotone in the key order (sort.Search is valid), the physical partition contains the logical range and equals
\* it for contiguous ranges
RangeFacts ==
    \A r \in Ranges :
        /\ \A k1 \in Key, k2 \in Key : KLess(k1, k2) => /\ (AboveStart(k1, r) => AboveStart(k2, r))
                                                        /\ (~BelowStop(k1, r) => ~BelowStop(k2, r))
        /\ \A k \in Key : InRange(k, r) => PhysIn(k, r)
        /\ Contiguous(r) => \A k \in Key : PhysIn(k, r) <=> InRange(k, r)
RangeFactsOnce == (from = Empty /\ to = Empty) => RangeFacts
KeyRangesAgree ==
    \A s \in KeyOrNone, t \in KeyOrNone :
        /\ KeyRangeDiffOp(from, to, s, t) = DiffIn(from, to, KeyRangeKeys(s, t))
        /\ ((s # <<>> /\ t # <<>> /\ KLeq(t, s)) => KeyRangeDiffOp(from, to, s, t) = <<>>)

\* a range diff is a contiguous piece of the whole diff
IsInfix(s, d) == \E o \in 0..(Len(d) - Len(s)) : \A i \in 1..Len(s) : d[o + i] = s[i]
RangeIsInfix == \A s \in KeyOrNone, t \in KeyOrNone : IsInfix(KeyRangeDiffOp(from, to, s, t), Diff(from, to))

\* emission
Emit == Len(hist) < D \/ PrintT(ToJson(hist))
EmitCase == PrintT(ToJson(hist))
=============================================================================
