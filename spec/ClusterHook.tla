--------------------------- MODULE ClusterHook ---------------------------
(* Abstract machine of dolt's cluster standby replication for ONE database and ONE standby:
     go/libraries/doltcore/sqle/cluster/commithook.go      (commithook: Execute, replicate, attemptReplicate,
                                                            attemptHeartbeat, setRole, setWaitNotify, NotifyWaitFailed)
     go/libraries/doltcore/sqle/cluster/progress_notifier.go (ProgressNotifier: Wait/BeginAttempt/RecordSuccess/RecordFailure)
     go/libraries/doltcore/sqle/cluster/controller.go      (setRoleAndEpoch, gracefulTransitionToStandby,
                                                            waitForHooksToReplicate, immediateTransitionToStandby,
                                                            transitionToPrimary, standbyCallback = provider read-only flag)
     go/libraries/doltcore/doltdb/hooksdatabase.go         (ExecuteCommitHooks after every successful dataset write)
     go/libraries/doltcore/sqle/dsess/transactions.go      (WaitForReplicationController: ack wait, timeout, NotifyWaitFailed)

   One action per critical section of the code (h.mu unless said otherwise).  Values:
     * the source database is the sequence |src| of noms root hashes it has had (position = version); the same
       hash may re-appear (ABA: a working set is set back to an earlier value) - the code compares hashes only;
     * a client call c = one dataset write on the primary followed by ExecuteCommitHooks -> commithook.Execute
       and (ack writes enabled) the wait function it returned.

   Deliberate deviations of the code from the ideal design are named and switchable:
     * AtomicExecute = FALSE (dolt before commit 6bdacfb; the exhaustive configs now use TRUE = the repaired code;
       the trace spec keeps the two-step form, which also describes the repaired code - read, then the locked part -
       and states the property with the Strict invariants): Execute reads the database root (db.NomsRoot) BEFORE it takes h.mu
       (commithook.go:505 vs :510), so a delayed call may overwrite nextHead with an OLDER root (action ExecLocked,
       history flag staleHappened).  AtomicExecute = TRUE models the proposed fix (read under h.mu).
     * InFlightAware = FALSE (the code): isCaughtUp() compares nextHead with lastPushedHead only.  While an
       attempt for another root is in flight (it may already have moved the standby's root) a write that brings the
       source back to the last pushed root hash (ABA) finds the hook "caught up": no wait function, graceful
       transition allowed - although the standby holds the in-flight root (history flag abaHappened).
       InFlightAware = TRUE models a fix (not caught up while an attempt for a different root is in flight).

   Properties (C45, cluster part): DestRootWasASrcRoot, AckImpliesReplicatedOrWarned,
   AfterGracefulTransitionNothingAckedMissing, StandbyProviderReadOnly, liveness EventuallyCaughtUp. *)
EXTENDS Integers, Sequences, FiniteSets, TLC

CONSTANTS Calls,          \* client write calls
          Hashes,         \* root hashes a write may produce
          InitRoot,       \* root of the source database when the hook starts
          D0,             \* root of the standby database before the first push
          None,
          AtomicExecute,  \* FALSE = the code as written
          InFlightAware,  \* FALSE = the code as written
          MaxClock,       \* fake clock (nowFunc) range 0..MaxClock
          MaxFaults,      \* budget of injected failures / standby outages
          MaxRoles        \* budget of role transitions

VARIABLES
  \* ---- source database and client calls
  src,          \* sequence of root hashes the source has had; current root = src[Len(src)]
  cst,          \* [Calls -> "idle"|"writing"|"committed"|"read"|"executed"|"notify"|"done"|"rejected"]
  cver,         \* [Calls -> position in src created by the call, 0 = none]
  cread,        \* [Calls -> root hash read by Execute (db.NomsRoot), None]
  creadPos,     \* [Calls -> position of that read]             (history)
  cwait,        \* [Calls -> "none"|"real"|"ff"|"lost"]  kind of wait function Execute returned
  cres,         \* [Calls -> "none"|"ack"|"warn"]       what the client was told
  cprobe,       \* [Calls -> BOOLEAN]  the wait is a circuit-breaker probe
  cstart,       \* [Calls -> clock reading at Execute]
  killed,       \* calls whose connection was killed by a role transition (killRunningQueries)
  \* ---- commithook (all under h.mu)
  role,         \* "primary" | "standby" | "broken"
  nextHead, lastPushed,   \* root hashes or None
  backoff,      \* nextPushAttempt is in the future
  fastFail, nextProbeAt, probeBudget,
  pend,         \* waiters whose channel is in progressNotifier.chs
  closed,       \* waiters whose channel has been closed (RecordSuccess)
  haveDest,     \* h.destDB # nil
  \* ---- replicate goroutine
  rpc,          \* "top" (holds h.mu at the loop head) | "attempt" | "wait" | "hb"
  att,          \* [toPush, ws, stage] of the attempt in flight
  shouldHB,     \* local variable shouldHeartbeat
  \* ---- standby
  destRoot, destUp,
  \* ---- controller (c.mu) and provider
  ctl,          \* "idle"|"setPrimary"|"setStandby"|"setBroken"|"graceInstall"|"graceWait"|"graceSet"|"graceFail"
  readOnly,     \* provider read-only flag set through the IsStandbyCallback
  grace,        \* h.waitNotify # nil
  graceCU,      \* res[i].caughtUp of waitForHooksToReplicate
  now,          \* fake clock
  \* ---- history / bounds (hidden by VIEW)
  destPosMax, hiExec, staleHappened, abaHappened, graceOK, graceDone, nFaults, nRoles

cvars  == <<src, cst, cver, cread, creadPos, cwait, cres, cprobe, cstart, killed>>
hvars  == <<role, nextHead, lastPushed, backoff, fastFail, nextProbeAt, probeBudget, pend, closed, haveDest>>
rvars  == <<rpc, att, shouldHB>>
dvars  == <<destRoot, destUp>>
ctvars == <<ctl, readOnly, grace, graceCU, now>>
histv  == <<destPosMax, hiExec, staleHappened, abaHappened, graceOK, graceDone, nFaults, nRoles>>
vars   == <<cvars, hvars, rvars, dvars, ctvars, histv>>
view   == <<src, cst, cver, cread, cwait, cres, cprobe, cstart, killed, hvars, rvars, dvars, ctvars, staleHappened, abaHappened, graceOK, nFaults, nRoles,
            destPosMax, hiExec, creadPos>>

Roles == {"primary", "standby", "broken"}
NoAtt == [toPush |-> None, ws |-> {}, stage |-> "none"]
Max(a, b) == IF a >= b THEN a ELSE b

CurRoot == src[Len(src)]
PosOf(h) == LET S == {j \in 1..Len(src) : src[j] = h} IN IF S = {} THEN 0 ELSE CHOOSE j \in S : \A k \in S : k <= j
PosIn(s, h) == LET S == {j \in 1..Len(s) : s[j] = h} IN IF S = {} THEN 0 ELSE CHOOSE j \in S : \A k \in S : k <= j
DestPos == PosOf(destRoot)

\* commithook.isCaughtUp / primaryNeedsInit / shouldReplicate  (commithook.go:239-262)
IsCaughtUpWith(r, nh, lp) == r # "primary" \/ (nh # None /\ nh = lp /\ (InFlightAware => (rpc # "attempt" \/ att.toPush = nh)))
IsCaughtUp == IsCaughtUpWith(role, nextHead, lastPushed)
NeedsInit == role = "primary" /\ nextHead = None
ShouldReplicate == ~IsCaughtUp /\ ~backoff

Acked(c) == cres[c] = "ack" \/ (cst[c] = "done" /\ cwait[c] = "none")
InFlight == {c \in Calls : cst[c] \in {"writing", "committed", "read", "executed", "notify"}}

\* every step keeps the high-water mark of what the standby has had
Track(dr, s) == destPosMax' = Max(destPosMax, PosIn(s, dr))

Init ==
  /\ src = <<InitRoot>>
  /\ cst = [c \in Calls |-> "idle"] /\ cver = [c \in Calls |-> 0] /\ cread = [c \in Calls |-> None]
  /\ creadPos = [c \in Calls |-> 0] /\ cwait = [c \in Calls |-> "none"] /\ cres = [c \in Calls |-> "none"]
  /\ cprobe = [c \in Calls |-> FALSE] /\ cstart = [c \in Calls |-> 0] /\ killed = {}
  /\ role \in {"primary", "standby"} /\ nextHead = None /\ lastPushed = None /\ backoff = FALSE
  /\ fastFail = FALSE /\ nextProbeAt = 0 /\ probeBudget = 0 /\ pend = {} /\ closed = {} /\ haveDest = FALSE
  /\ rpc = "top" /\ att = NoAtt /\ shouldHB = FALSE
  /\ destRoot = D0 /\ destUp \in BOOLEAN
  /\ ctl = "idle" /\ readOnly = (role # "primary") /\ grace = FALSE /\ graceCU = FALSE /\ now = 0
  /\ destPosMax = 0 /\ hiExec = 0 /\ staleHappened = FALSE /\ abaHappened = FALSE /\ graceOK = TRUE /\ graceDone = FALSE /\ nFaults = 0 /\ nRoles = 0

InitQuick == Init /\ role = "primary" /\ destUp

\* =========================================================================================== clients
\* A dataset write on the source (datas.database.update CAS; serialised by the chunk store).  The SQL layer
\* refuses it when the provider is read-only (standby).
ClientBegin(c) ==      \* the statement passes the provider's read-only check
  /\ cst[c] = "idle" /\ ~readOnly
  /\ cst' = [cst EXCEPT ![c] = "writing"]
  /\ UNCHANGED <<src, cver, cread, creadPos, cwait, cres, cprobe, cstart, killed, hvars, rvars, dvars, ctvars, histv>>

ClientWrite(c, h) ==
  /\ cst[c] = "writing" /\ h \in Hashes /\ h # CurRoot
  /\ src' = Append(src, h)
  /\ cver' = [cver EXCEPT ![c] = Len(src) + 1]
  /\ cst' = [cst EXCEPT ![c] = "committed"]
  /\ Track(destRoot, src')
  /\ UNCHANGED <<cread, creadPos, cwait, cres, cprobe, cstart, killed, hvars, rvars, dvars, ctvars, hiExec, staleHappened, abaHappened, graceOK, graceDone, nFaults, nRoles>>

WriteRejectedOnStandby(c) ==
  /\ cst[c] = "idle" /\ readOnly
  /\ cst' = [cst EXCEPT ![c] = "rejected"]
  /\ UNCHANGED <<src, cver, cread, creadPos, cwait, cres, cprobe, cstart, killed, hvars, rvars, dvars, ctvars, histv>>

\* commithook.Execute, first half: root, err := db.NomsRoot(ctx)  -- NOT under h.mu  (commithook.go:505)
ExecRead(c) ==
  /\ ~AtomicExecute
  /\ cst[c] = "committed"
  /\ cread' = [cread EXCEPT ![c] = CurRoot] /\ creadPos' = [creadPos EXCEPT ![c] = Len(src)]
  /\ cst' = [cst EXCEPT ![c] = "read"]
  /\ UNCHANGED <<src, cver, cwait, cres, cprobe, cstart, killed, hvars, rvars, dvars, ctvars, histv>>

\* commithook.Execute, second half, under h.mu (commithook.go:510-580)
ExecLockedWith(c, root, pos) ==
  IF role # "primary"
  THEN \* "received commit callback ... but we are not role primary; not replicating the commit, which is likely to be lost"
       /\ cwait' = [cwait EXCEPT ![c] = "lost"]
       /\ hiExec' = Max(hiExec, pos)          \* (history) a later Execute with an older read is stale whatever the role was
       /\ UNCHANGED <<cprobe, cstart, hvars, staleHappened, abaHappened>>
  ELSE LET changed == root # nextHead
           nh == IF changed THEN root ELSE nextHead
           cu == IsCaughtUpWith("primary", nh, lastPushed)
           ff == fastFail /\ now < nextProbeAt
       IN /\ nextHead' = nh
          /\ backoff' = IF changed THEN FALSE ELSE backoff
          /\ staleHappened' = (staleHappened \/ (changed /\ pos < hiExec))
          /\ hiExec' = Max(hiExec, pos)
          /\ abaHappened' = (abaHappened \/ (cu /\ rpc = "attempt" /\ att.toPush # nh))
          /\ IF cu THEN /\ cwait' = [cwait EXCEPT ![c] = "none"]
                        /\ UNCHANGED <<cprobe, cstart, nextProbeAt, pend>>
             ELSE IF ff THEN /\ cwait' = [cwait EXCEPT ![c] = "ff"]
                             /\ UNCHANGED <<cprobe, cstart, nextProbeAt, pend>>
             ELSE /\ cwait' = [cwait EXCEPT ![c] = "real"]
                  /\ cprobe' = [cprobe EXCEPT ![c] = fastFail]
                  /\ cstart' = [cstart EXCEPT ![c] = now]
                  /\ nextProbeAt' = IF fastFail THEN now + probeBudget ELSE nextProbeAt
                  /\ pend' = pend \cup {c}
          /\ UNCHANGED <<role, lastPushed, fastFail, probeBudget, closed, haveDest>>

ExecLocked(c) ==
  /\ cst[c] = IF AtomicExecute THEN "committed" ELSE "read"
  /\ LET root == IF AtomicExecute THEN CurRoot ELSE cread[c]
         pos  == IF AtomicExecute THEN Len(src) ELSE creadPos[c]
     IN /\ ExecLockedWith(c, root, pos)
        /\ cread' = [cread EXCEPT ![c] = root] /\ creadPos' = [creadPos EXCEPT ![c] = pos]
  /\ cst' = [cst EXCEPT ![c] = "executed"]
  /\ UNCHANGED <<src, cver, cres, killed, rvars, dvars, ctvars, destPosMax, graceOK, graceDone, nFaults, nRoles>>

\* The client's side of dsess.WaitForReplicationController.
\* no wait function (caught up already / not primary): the statement returns at once
ClientReturn(c) ==
  /\ cst[c] = "executed" /\ cwait[c] \in {"none", "lost"}
  /\ cres' = [cres EXCEPT ![c] = IF cwait[c] = "lost" THEN "warn" ELSE "none"]
  /\ cst' = [cst EXCEPT ![c] = "done"]
  /\ UNCHANGED <<src, cver, cread, creadPos, cwait, cprobe, cstart, killed, hvars, rvars, dvars, ctvars, histv>>

\* circuit breaker open: the wait function fails at once -> warning, NotifyWaitFailed is NOT called (no timeout happened)
ClientWaitFF(c) ==
  /\ cst[c] = "executed" /\ cwait[c] = "ff"
  /\ cres' = [cres EXCEPT ![c] = "warn"] /\ cst' = [cst EXCEPT ![c] = "done"]
  /\ UNCHANGED <<src, cver, cread, creadPos, cwait, cprobe, cstart, killed, hvars, rvars, dvars, ctvars, histv>>

\* the channel was closed: the wait closure re-takes h.mu and closes the breaker if it was the probe
ClientAck(c) ==
  /\ cst[c] = "executed" /\ cwait[c] = "real" /\ c \in closed
  /\ fastFail' = IF cprobe[c] THEN FALSE ELSE fastFail
  /\ cres' = [cres EXCEPT ![c] = "ack"] /\ cst' = [cst EXCEPT ![c] = "done"]
  /\ UNCHANGED <<src, cver, cread, creadPos, cwait, cprobe, cstart, killed, role, nextHead, lastPushed, backoff, nextProbeAt, probeBudget,
                 pend, closed, haveDest, rvars, dvars, ctvars, histv>>

\* the ack timeout fired first (context cancelled with ErrReplicationWaitFailed): learn the budget, schedule a probe
ClientTimeout(c) ==
  /\ cst[c] = "executed" /\ cwait[c] = "real"
  /\ probeBudget' = now - cstart[c]
  /\ nextProbeAt' = now + (now - cstart[c])
  /\ cres' = [cres EXCEPT ![c] = "warn"] /\ cst' = [cst EXCEPT ![c] = "notify"]
  /\ UNCHANGED <<src, cver, cread, creadPos, cwait, cprobe, cstart, killed, role, nextHead, lastPushed, backoff, fastFail, pend, closed,
                 haveDest, rvars, dvars, ctvars, histv>>

\* the connection was killed by a role transition: the wait's context is cancelled (not with
\* ErrReplicationWaitFailed), the closure changes nothing.  NotifyWaitFailed is called only when the ack timer
\* happened to fire as well before WaitForReplicationController looked (notify = TRUE).
ClientCanceled(c, notify) ==
  /\ cst[c] = "executed" /\ cwait[c] = "real" /\ c \in killed
  /\ cres' = [cres EXCEPT ![c] = "warn"] /\ cst' = [cst EXCEPT ![c] = IF notify THEN "notify" ELSE "done"]
  /\ UNCHANGED <<src, cver, cread, creadPos, cwait, cprobe, cstart, killed, hvars, rvars, dvars, ctvars, histv>>

\* commithook.NotifyWaitFailed (called by WaitForReplicationController after a timeout): open the breaker
ClientNotify(c) ==
  /\ cst[c] = "notify"
  /\ fastFail' = TRUE
  /\ cst' = [cst EXCEPT ![c] = "done"]
  /\ UNCHANGED <<src, cver, cread, creadPos, cwait, cres, cprobe, cstart, killed, role, nextHead, lastPushed, backoff, nextProbeAt, probeBudget,
                 pend, closed, haveDest, rvars, dvars, ctvars, histv>>

\* =========================================================================================== replicate goroutine
\* loop head, primaryNeedsInit: h.nextHead = cs.Root() of the source (h.mu held throughout)   (commithook.go:153-178)
ReplInit ==
  /\ rpc = "top" /\ NeedsInit
  /\ nextHead' = CurRoot
  /\ hiExec' = Max(hiExec, Len(src))
  /\ UNCHANGED <<cvars, role, lastPushed, backoff, fastFail, nextProbeAt, probeBudget, pend, closed, haveDest, rvars, dvars, ctvars,
                 destPosMax, staleHappened, abaHappened, graceOK, graceDone, nFaults, nRoles>>

\* attemptReplicate, first critical section: toPush := h.nextHead; attempt := BeginAttempt(); unlock  (commithook.go:317-330)
AttemptBegin ==
  /\ rpc = "top" /\ ~NeedsInit /\ ShouldReplicate
  /\ att' = [toPush |-> nextHead, ws |-> pend, stage |-> "begun"]
  /\ pend' = {}
  /\ rpc' = "attempt" /\ shouldHB' = FALSE
  /\ UNCHANGED <<cvars, role, nextHead, lastPushed, backoff, fastFail, nextProbeAt, probeBudget, closed, haveDest, dvars, ctvars, histv>>

\* quiescent branch: waitNotify(), close the breaker and notify ABA waiters when caught up, maybe heartbeat, cond.Wait
Quiesce ==                                                                             \* (commithook.go:182-224)
  /\ rpc = "top" /\ ~NeedsInit /\ ~ShouldReplicate
  /\ graceCU' = (graceCU \/ (grace /\ IsCaughtUp))
  /\ IF IsCaughtUp THEN /\ fastFail' = FALSE /\ closed' = closed \cup pend /\ pend' = {}
                   ELSE UNCHANGED <<fastFail, closed, pend>>
  /\ rpc' = IF shouldHB THEN "hb" ELSE "wait"
  /\ shouldHB' = (shouldHB \/ IsCaughtUp)
  /\ UNCHANGED <<cvars, role, nextHead, lastPushed, backoff, nextProbeAt, probeBudget, haveDest, att, dvars, ctl, readOnly, grace, now, histv>>

\* sqlCtxFactory for the attempt (outside h.mu)
AttemptCtx(ok) ==
  /\ rpc = "attempt" /\ att.stage = "begun"
  /\ (~ok => nFaults < MaxFaults)
  /\ att' = [att EXCEPT !.stage = IF ok THEN "ctx" ELSE "earlyfail"]
  /\ nFaults' = IF ok THEN nFaults ELSE nFaults + 1
  /\ UNCHANGED <<cvars, hvars, rpc, shouldHB, dvars, ctvars, destPosMax, hiExec, staleHappened, abaHappened, graceOK, graceDone, nRoles>>

\* lazily fetch the destination database through destDBF; on success h.destDB is set in its own critical section
DestFetch ==
  /\ rpc = "attempt" /\ att.stage = "ctx"
  /\ IF haveDest THEN att' = [att EXCEPT !.stage = "fetched"] /\ UNCHANGED haveDest
     ELSE IF destUp THEN att' = [att EXCEPT !.stage = "fetched"] /\ haveDest' = TRUE
     ELSE att' = [att EXCEPT !.stage = "earlyfail"] /\ UNCHANGED haveDest
  /\ UNCHANGED <<cvars, role, nextHead, lastPushed, backoff, fastFail, nextProbeAt, probeBudget, pend, closed, rpc, shouldHB, dvars, ctvars, histv>>

\* destDB.PullChunks(srcDB, toPush)
PullOK ==
  /\ rpc = "attempt" /\ att.stage = "fetched" /\ destUp
  /\ att' = [att EXCEPT !.stage = "pulled"]
  /\ UNCHANGED <<cvars, hvars, rpc, shouldHB, dvars, ctvars, histv>>

\* the pull or the root update fails: standby down, context cancelled by setRole / shutdown, injected error,
\* errDestDBRootHashMoved
PullFail ==
  /\ rpc = "attempt" /\ att.stage \in {"fetched", "pulled"}
  /\ (destUp => nFaults < MaxFaults)
  /\ att' = [att EXCEPT !.stage = "failed"]
  /\ nFaults' = IF destUp THEN nFaults + 1 ELSE nFaults
  /\ UNCHANGED <<cvars, hvars, rpc, shouldHB, dvars, ctvars, destPosMax, hiExec, staleHappened, abaHappened, graceOK, graceDone, nRoles>>

\* cs.Rebase; cs.Root; cs.Commit(toPush, cur) on the standby
DestCommit ==
  /\ rpc = "attempt" /\ att.stage = "pulled" /\ destUp
  /\ destRoot' = att.toPush
  /\ att' = [att EXCEPT !.stage = "committed"]
  /\ Track(att.toPush, src)
  /\ UNCHANGED <<cvars, hvars, rpc, shouldHB, destUp, ctvars, hiExec, staleHappened, abaHappened, graceOK, graceDone, nFaults, nRoles>>

\* failure before the pull (sql.Context / destDBF): note NO role check in these paths  (commithook.go:333-366)
AttemptEndEarly ==
  /\ rpc = "attempt" /\ att.stage = "earlyfail"
  /\ backoff' = IF att.toPush = nextHead THEN TRUE ELSE backoff
  /\ pend' = pend \cup att.ws                                  \* deferred RecordFailure
  /\ rpc' = "top" /\ att' = NoAtt
  /\ UNCHANGED <<cvars, role, nextHead, lastPushed, fastFail, nextProbeAt, probeBudget, closed, haveDest, shouldHB, dvars, ctvars, histv>>

\* attemptReplicate, last critical section  (commithook.go:386-408)
AttemptEndWith(ok) ==
  /\ IF role = "primary"
     THEN IF ok
          THEN /\ lastPushed' = att.toPush /\ backoff' = FALSE
               /\ closed' = closed \cup att.ws /\ UNCHANGED pend            \* RecordSuccess
          ELSE /\ backoff' = IF att.toPush = nextHead THEN TRUE ELSE backoff
               /\ pend' = pend \cup att.ws /\ UNCHANGED <<lastPushed, closed>>
     ELSE /\ pend' = pend \cup att.ws /\ UNCHANGED <<lastPushed, backoff, closed>>
  /\ rpc' = "top" /\ att' = NoAtt
  /\ UNCHANGED <<cvars, role, nextHead, fastFail, nextProbeAt, probeBudget, haveDest, shouldHB, dvars, ctvars, histv>>

AttemptEnd ==
  /\ rpc = "attempt" /\ att.stage \in {"committed", "failed"}
  /\ AttemptEndWith(att.stage = "committed")

\* cond.Wait returns (Signal from Execute / setRole, or the 1 s ticker)
Wake ==
  /\ rpc = "wait" /\ rpc' = "top"
  /\ UNCHANGED <<cvars, hvars, att, shouldHB, dvars, ctvars, histv>>

\* nextPushAttempt (1 s) passes
BackoffElapse ==
  /\ backoff /\ backoff' = FALSE
  /\ UNCHANGED <<cvars, role, nextHead, lastPushed, fastFail, nextProbeAt, probeBudget, pend, closed, haveDest, rvars, dvars, ctvars, histv>>

\* attemptHeartbeat: cs.Commit(head, head) on the standby, outside h.mu; never changes the standby's root
Heartbeat ==
  /\ rpc = "hb" /\ rpc' = "wait"
  /\ UNCHANGED <<cvars, hvars, att, shouldHB, dvars, ctvars, histv>>

\* =========================================================================================== controller (c.mu held from Begin to the final step)
HookSetRole(r) ==     \* commithook.setRole under h.mu  (commithook.go:438-460)
  /\ role' = r /\ nextHead' = None /\ lastPushed' = None /\ backoff' = FALSE
  /\ nextProbeAt' = 0 /\ probeBudget' = 0
  /\ UNCHANGED <<fastFail, pend, closed, haveDest>>

CtlBeginPrimary ==    \* transitionToPrimary: provider read-write again
  /\ ctl = "idle" /\ role # "primary" /\ nRoles < MaxRoles
  /\ readOnly' = FALSE /\ ctl' = "setPrimary" /\ nRoles' = nRoles + 1
  /\ killed' = killed \cup InFlight
  /\ UNCHANGED <<src, cst, cver, cread, creadPos, cwait, cres, cprobe, cstart, hvars, rvars, dvars, grace, graceCU, now, destPosMax, hiExec, staleHappened, abaHappened, graceOK, graceDone, nFaults>>

CtlBeginImmediate(r) ==   \* immediateTransitionToStandby (interceptors / detected_broken_config)
  /\ ctl = "idle" /\ role = "primary" /\ r \in {"standby", "broken"} /\ nRoles < MaxRoles
  /\ readOnly' = TRUE /\ ctl' = (IF r = "standby" THEN "setStandby" ELSE "setBroken") /\ nRoles' = nRoles + 1
  /\ killed' = killed \cup InFlight
  /\ UNCHANGED <<src, cst, cver, cread, creadPos, cwait, cres, cprobe, cstart, hvars, rvars, dvars, grace, graceCU, now, destPosMax, hiExec, staleHappened, abaHappened, graceOK, graceDone, nFaults>>

CtlGraceBegin ==      \* gracefulTransitionToStandby: setProviderIsStandby(true); killRunningQueries
  /\ ctl = "idle" /\ role = "primary" /\ nRoles < MaxRoles
  /\ readOnly' = TRUE /\ ctl' = "graceInstall" /\ nRoles' = nRoles + 1
  /\ killed' = killed \cup InFlight
  /\ UNCHANGED <<src, cst, cver, cread, creadPos, cwait, cres, cprobe, cstart, hvars, rvars, dvars, grace, graceCU, now, destPosMax, hiExec, staleHappened, abaHappened, graceOK, graceDone, nFaults>>

CtlGraceInstall ==    \* waitForHooksToReplicate: ch.setWaitNotify(f) calls f() at once under h.mu
  /\ ctl = "graceInstall"
  /\ grace' = TRUE /\ graceCU' = IsCaughtUp /\ ctl' = "graceWait"
  /\ UNCHANGED <<cvars, hvars, rvars, dvars, readOnly, now, histv>>

CtlGraceUninstall ==  \* done or timeout: ch.setWaitNotify(nil); outcome = res[i].caughtUp
  /\ ctl = "graceWait"
  /\ grace' = FALSE
  /\ ctl' = IF graceCU THEN "graceSet" ELSE "graceFail"
  /\ UNCHANGED <<cvars, hvars, rvars, dvars, readOnly, graceCU, now, histv>>

CtlGraceFailed ==     \* not caught up in time: setProviderIsStandby(c.role != RolePrimary); the server stays primary
  /\ ctl = "graceFail"
  /\ readOnly' = FALSE /\ ctl' = "idle"
  /\ UNCHANGED <<cvars, hvars, rvars, dvars, grace, graceCU, now, histv>>

CtlSetRole ==         \* h.setRole(c.role) for every hook
  /\ ctl \in {"setPrimary", "setStandby", "setBroken", "graceSet"}
  /\ HookSetRole(CASE ctl = "setPrimary" -> "primary" [] ctl = "setBroken" -> "broken" [] OTHER -> "standby")
  /\ graceOK' = IF ctl = "graceSet" THEN (graceOK /\ \A c \in Calls \ killed : Acked(c) => DestPos >= cver[c]) ELSE graceOK
  /\ graceDone' = (graceDone \/ ctl = "graceSet")
  /\ ctl' = "idle"
  /\ UNCHANGED <<cvars, rvars, dvars, readOnly, grace, graceCU, now, destPosMax, hiExec, staleHappened, abaHappened, nFaults, nRoles>>

\* =========================================================================================== environment
StandbyDown ==
  /\ destUp /\ nFaults < MaxFaults /\ destUp' = FALSE /\ nFaults' = nFaults + 1
  /\ UNCHANGED <<cvars, hvars, rvars, destRoot, ctvars, destPosMax, hiExec, staleHappened, abaHappened, graceOK, graceDone, nRoles>>
StandbyUp ==
  /\ ~destUp /\ destUp' = TRUE
  /\ UNCHANGED <<cvars, hvars, rvars, destRoot, ctvars, histv>>
Tick ==
  /\ now < MaxClock /\ now' = now + 1
  /\ UNCHANGED <<cvars, hvars, rvars, dvars, ctl, readOnly, grace, graceCU, histv>>

ClientNext == \E c \in Calls : \/ ClientBegin(c) \/ ClientCanceled(c, TRUE) \/ ClientCanceled(c, FALSE)
                              \/ \E h \in Hashes : ClientWrite(c, h)
                              \/ WriteRejectedOnStandby(c) \/ ExecRead(c) \/ ExecLocked(c) \/ ClientReturn(c)
                              \/ ClientWaitFF(c) \/ ClientAck(c) \/ ClientTimeout(c) \/ ClientNotify(c)
ReplNext == ReplInit \/ AttemptBegin \/ Quiesce \/ AttemptCtx(TRUE) \/ AttemptCtx(FALSE) \/ DestFetch \/ PullOK \/ PullFail
            \/ DestCommit \/ AttemptEndEarly \/ AttemptEnd \/ Wake \/ BackoffElapse \/ Heartbeat
CtlNext == CtlBeginPrimary \/ CtlBeginImmediate("standby") \/ CtlBeginImmediate("broken") \/ CtlGraceBegin \/ CtlGraceInstall
           \/ CtlGraceUninstall \/ CtlGraceFailed \/ CtlSetRole
EnvNext == StandbyDown \/ StandbyUp \/ Tick

Next == ClientNext \/ ReplNext \/ CtlNext \/ EnvNext
Spec == Init /\ [][Next]_vars

\* fairness for the liveness property: the replicate goroutine, the clients and the controller keep running, the
\* standby comes back; injected failures are bounded by MaxFaults
ReplProgress == ReplInit \/ AttemptBegin \/ Quiesce \/ AttemptCtx(TRUE) \/ DestFetch \/ PullOK \/ DestCommit \/ AttemptEndEarly
                \/ AttemptEnd \/ Wake \/ BackoffElapse \/ Heartbeat
Fairness == /\ WF_vars(ReplInit) /\ WF_vars(Quiesce) /\ WF_vars(AttemptCtx(TRUE)) /\ WF_vars(DestFetch) /\ WF_vars(AttemptEndEarly)
            /\ WF_vars(AttemptEnd) /\ WF_vars(Wake) /\ WF_vars(BackoffElapse) /\ WF_vars(Heartbeat)
            /\ SF_vars(AttemptBegin) /\ SF_vars(PullOK) /\ SF_vars(DestCommit)
            /\ WF_vars(StandbyUp) /\ WF_vars(CtlGraceInstall) /\ WF_vars(CtlGraceUninstall) /\ WF_vars(CtlGraceFailed) /\ WF_vars(CtlSetRole)
            /\ \A c \in Calls : /\ WF_vars(ExecRead(c)) /\ WF_vars(ExecLocked(c)) /\ WF_vars(ClientReturn(c))
                                 /\ WF_vars(ClientWaitFF(c)) /\ WF_vars(ClientNotify(c))
FairSpec == Spec /\ Fairness
LiveSpec == InitQuick /\ [][Next]_vars /\ Fairness

\* =========================================================================================== properties
TypeOK ==
  /\ Len(src) >= 1 /\ \A j \in 1..Len(src) : src[j] \in Hashes \cup {InitRoot}
  /\ role \in Roles /\ nextHead \in Hashes \cup {InitRoot, None} /\ lastPushed \in Hashes \cup {InitRoot, None}
  /\ destRoot \in Hashes \cup {InitRoot, D0}
  /\ pend \subseteq Calls /\ closed \subseteq Calls /\ att.ws \subseteq Calls
  /\ rpc \in {"top", "attempt", "wait", "hb"} /\ (rpc = "attempt" <=> att.stage # "none")
  /\ pend \cap closed = {} /\ att.ws \cap closed = {} /\ att.ws \cap pend = {}

\* the standby only ever holds a root the source had (never an invented or mixed state)
DestRootWasASrcRoot == destRoot = D0 \/ PosOf(destRoot) > 0

\* lastPushedHead is only ever a root that was committed on the standby
LastPushedIsOnStandbyOrOlder == lastPushed = None \/ PosOf(lastPushed) > 0

\* a commit that returned without a warning (acked by the wait function, or no wait because the hook was caught
\* up) is on the standby - unless the named deviation (stale root overwrite) happened.  Calls whose connection a
\* role transition killed are exempt: a hook that is no longer primary reports isCaughtUp() and releases every
\* outstanding waiter (Quiesce; commithook.go:187-205) - the killed client may see that as success or as a
\* cancelled wait; the SQL layer hands such a client a connection error either way.
Replicated(c) == destPosMax >= cver[c]
Deviated == staleHappened \/ abaHappened
AckImpliesReplicatedOrWarned == Deviated \/ \A c \in Calls \ killed : Acked(c) => Replicated(c)
\* the same, unconditionally (holds for AtomicExecute = TRUE only)
AckImpliesReplicatedStrict == \A c \in Calls \ killed : Acked(c) => Replicated(c)

\* at the instant a graceful transition switches the hook to standby every acknowledged write is on the standby
AfterGracefulTransitionNothingAckedMissing == Deviated \/ graceOK
AfterGracefulStrict == graceOK

\* while the hook is not primary the provider is read-only, except during the window in which the controller is
\* switching to primary (read-write first, hook role second - the write is then replicated by ReplInit)
StandbyProviderReadOnly == (role # "primary" /\ ctl # "setPrimary") => readOnly

\* a closed waiter channel always belongs to a call that really registered
ClosedWereRegistered == \A c \in closed : cwait[c] = "real"

\* when every Execute has run and the replicate goroutine of a primary is parked caught up, the standby holds
\* the source's current root (a quiescent primary has nothing left to push)
Executing == {c \in Calls : cst[c] \in {"writing", "committed", "read"}}
QuiescentConvergedStrict == (role = "primary" /\ rpc \in {"wait", "hb"} /\ IsCaughtUp /\ Executing = {} /\ ctl = "idle") => destRoot = CurRoot
QuiescentConverged == Deviated \/ QuiescentConvergedStrict

NoDeviation == ~Deviated

\* liveness: once writes stop and the standby stays up, a primary's standby converges to the source's current root
EventuallyCaughtUp == <>[](Deviated \/ role # "primary" \/ (destRoot = CurRoot))
EventuallyCaughtUpStrict == <>[](role # "primary" \/ (destRoot = CurRoot))
=============================================================================
