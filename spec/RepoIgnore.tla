----------------------------- MODULE RepoIgnore -----------------------------
(* C46, repository-level half: with dolt_ignore rules in force, dolt_add('.') / dolt_commit('-A') stage every change except
   NEW or DROPPED tables whose name is ignored (a conflict between equally specific patterns is an error), and dolt_clean
   removes exactly the untracked tables that are not ignored (all untracked ones with -x) and nothing that is tracked.

   The verdict for a table name comes from the pattern half: IgnorePatterns.tla (builder bN) is INSTANCEd and its
   documented rule Result(patterns, name) is used as is; pattern sets on which the code's syntactic decision (ResultAlg)
   leaves the documented rule are not generated here (they are the subject of the pattern half).

   Code transcribed:
     env/actions/staged.go:27,42   StageTables / StageAllTables(filterIgnoredTables): doltdb.FilterIgnoredTables over the names
                                   of the staged and the working root; any Conflict verdict is an error; only DontIgnore
                                   names are staged
     dprocedures/dolt_add.go:73    dolt_add('.') / dolt_add('-A')  -> StageAllTables(.., !force)
     dprocedures/dolt_commit.go:92 dolt_commit('-A')                -> StageAllTables(.., true), then the commit of the staged root
     env/actions/reset.go:271      CleanUntracked: working tables, minus ignored ones unless -x (doltdb.ExcludeIgnoredTables
                                   keeps names with a Conflict verdict), minus every table of the STAGED root
     doltdb/ignore.go:83           the patterns are read from dolt_ignore in the WORKING root

   A root is [table name -> 0 (absent) | 1, 2 (content version)] plus the content of the dolt_ignore table in that root
   (dolt_ignore is itself a tracked table; patterns made only of wildcards would match its own name and are not generated).

   NAMED DEVIATION "ignored-tracked-not-staged": FilterIgnoredTables filters by NAME only, so a MODIFIED table that is already
   tracked (present in the staged root) but whose name matches an ignore pattern is silently left out by dolt_add('.') and
   dolt_commit('-A') -- the statement (and the documentation: "dolt_ignore only affects new tables") stages it.  AsCode
   follows the code; the step carries the intended staged root (args.dev, args.ideal). *)
EXTENDS Integers, Sequences, FiniteSets, TLC, Json

CONSTANTS PatSyms, NameSyms, Fresh, MaxPatLen, MaxNameLen, LangLen, MaxPats, Ordered, EmitStates,   \* of IgnorePatterns
          TNames,      \* the table names of this model (subset of IgnorePatterns' Names: sequences of symbols)
          PatPalette,  \* patterns that may be put into dolt_ignore (each contains a letter)
          AsCode, Acts, Sim, D, RecordHist

VARIABLES head, staged, working,   \* [t : [TNames -> 0..2], ig : set of <<pattern, ignored>>]
          last, hist
ps == working.ig
IP == INSTANCE IgnorePatterns

vars == <<head, staged, working, last, hist>>
view == <<head, staged, working>>

Verdict(n) == IP!Result(working.ig, n)
NoPatternDeviation(S) == \A n \in TNames : IP!ResultAlg(S, n) = IP!Result(S, n)
Present(r) == {n \in TNames : r.t[n] # 0}
Union == Present(staged) \cup Present(working)
IsNewOrDropped(n) == (staged.t[n] = 0) # (working.t[n] = 0)

\* StageAllTables(filterIgnoredTables = TRUE): [res, staged', dev, ideal]
StageAll ==
    LET conflict == \E n \in Union : Verdict(n) = "Conflict"
        ideal == [t |-> [n \in TNames |-> IF Verdict(n) = "Ignore" /\ IsNewOrDropped(n) THEN staged.t[n] ELSE working.t[n]], ig |-> working.ig]
        code  == [t |-> [n \in TNames |-> IF Verdict(n) = "Ignore" THEN staged.t[n] ELSE working.t[n]], ig |-> working.ig]
    IN [res |-> IF conflict THEN "conflict" ELSE "ok",
        st |-> IF conflict THEN staged ELSE IF AsCode THEN code ELSE ideal,
        dev |-> IF ~conflict /\ code # ideal THEN "ignored-tracked-not-staged" ELSE "",
        ideal |-> ideal]

RE(S) == RandomElement(IF Len(hist) >= 0 THEN S ELSE {})
Pick(S) == IF Sim THEN (IF S = {} THEN {} ELSE {RE(S)}) ELSE S
On(a) == a \in Acts
RootProj(r) == [t |-> {<<n, r.t[n]>> : n \in Present(r)}, ig |-> r.ig]
Proj == [h |-> RootProj(head), s |-> RootProj(staged), w |-> RootProj(working),
         v |-> {<<n, Verdict(n)>> : n \in TNames}]
Rec(a, args, res) ==
    /\ last' = [a |-> a, args |-> args, res |-> res]
    /\ hist' = IF RecordHist THEN Append(hist, [a |-> a, args |-> args, res |-> res, exp |-> Proj']) ELSE hist

Init == /\ head = [t |-> [n \in TNames |-> 0], ig |-> {}] /\ staged = head /\ working = head
        /\ last = [a |-> "Init", args |-> <<>>, res |-> "ok"] /\ hist = <<>>

SetW(n, v) == working' = [working EXCEPT !.t[n] = v]
Create(n) == /\ On("Create") /\ working.t[n] = 0 /\ SetW(n, 1) /\ UNCHANGED <<head, staged>> /\ Rec("Create", [n |-> n], "ok")
DropT(n) ==  /\ On("DropT") /\ working.t[n] # 0 /\ SetW(n, 0) /\ UNCHANGED <<head, staged>> /\ Rec("DropT", [n |-> n], "ok")
Modify(n) == /\ On("Modify") /\ working.t[n] # 0 /\ SetW(n, 3 - working.t[n]) /\ UNCHANGED <<head, staged>> /\ Rec("Modify", [n |-> n], "ok")
\* RENAME TABLE n TO m
Rename(n, m) == /\ On("Rename") /\ working.t[n] # 0 /\ working.t[m] = 0
                /\ working' = [working EXCEPT !.t[m] = working.t[n], !.t[n] = 0]
                /\ UNCHANGED <<head, staged>> /\ Rec("Rename", [n |-> n, m |-> m], "ok")
\* REPLACE INTO dolt_ignore VALUES (p, b) / DELETE FROM dolt_ignore WHERE pattern = p
PutPat(p, b) ==
    LET S == {x \in working.ig : x[1] # p} \cup {<<p, b>>} IN
    /\ On("PutPat") /\ Cardinality(S) <= MaxPats /\ <<p, b>> \notin working.ig /\ NoPatternDeviation(S)
    /\ working' = [working EXCEPT !.ig = S] /\ UNCHANGED <<head, staged>> /\ Rec("PutPat", [p |-> p, ign |-> b], "ok")
DelPat(p) ==
    LET S == {x \in working.ig : x[1] # p} IN
    /\ On("DelPat") /\ S # working.ig /\ NoPatternDeviation(S)
    /\ working' = [working EXCEPT !.ig = S] /\ UNCHANGED <<head, staged>> /\ Rec("DelPat", [p |-> p], "ok")
\* CALL dolt_add('.')
AddAll ==
    LET r == StageAll IN
    /\ On("AddAll") /\ staged' = r.st /\ UNCHANGED <<head, working>>
    /\ Rec("AddAll", [dev |-> r.dev, ideal |-> IF r.dev = "" THEN <<>> ELSE RootProj(r.ideal)], r.res)
\* CALL dolt_commit('-A', '-m', ..)
CommitAll ==
    LET r == StageAll IN
    /\ On("CommitAll")
    /\ IF r.res # "ok" THEN UNCHANGED <<head, staged, working>> /\ Rec("CommitAll", [dev |-> "", ideal |-> <<>>], r.res)
       ELSE IF r.st = head THEN UNCHANGED <<head, staged, working>> /\ Rec("CommitAll", [dev |-> r.dev, ideal |-> IF r.dev = "" THEN <<>> ELSE RootProj(r.ideal)], "nothing")
       ELSE /\ head' = r.st /\ staged' = r.st /\ UNCHANGED working
            /\ Rec("CommitAll", [dev |-> r.dev, ideal |-> IF r.dev = "" THEN <<>> ELSE RootProj(r.ideal)], "ok")
\* CALL dolt_reset(): the staged root goes back to HEAD
ResetStaged == /\ On("ResetStaged") /\ staged # head /\ staged' = head /\ UNCHANGED <<head, working>> /\ Rec("ResetStaged", <<>>, "ok")
\* CALL dolt_clean() / dolt_clean('-x'): without -x the verdict of EVERY working table is computed first
\* (doltdb.ExcludeIgnoredTables returns the conflict error of IsTableNameIgnored): contradicting patterns fail the call
Clean(x) ==
    LET gone == {n \in Present(working) : staged.t[n] = 0 /\ (x \/ Verdict(n) # "Ignore")}
        conflict == ~x /\ \E n \in Present(working) : Verdict(n) = "Conflict" IN
    /\ On("Clean")
    /\ IF conflict THEN UNCHANGED <<head, staged, working>> /\ Rec("Clean", [x |-> x, n |-> 0], "conflict")
       ELSE /\ working' = [working EXCEPT !.t = [n \in TNames |-> IF n \in gone THEN 0 ELSE working.t[n]]]
            /\ UNCHANGED <<head, staged>> /\ Rec("Clean", [x |-> x, n |-> Cardinality(gone)], "ok")

\* simulation: modifications mostly hit tracked tables (the case in which an ignore pattern must NOT matter)
Tracked == {n \in TNames : staged.t[n] # 0 /\ working.t[n] # 0}
Next == \/ \E n \in Pick(TNames) : Create(n) \/ DropT(n) \/ (\E m \in Pick(TNames) : Rename(n, m))
        \/ \E n \in Pick(IF Sim /\ Tracked # {} THEN Tracked ELSE TNames) : Modify(n)
        \/ \E p \in Pick(PatPalette), b \in Pick(BOOLEAN) : PutPat(p, b)
        \/ \E p \in Pick({x[1] : x \in working.ig}) : DelPat(p)
        \/ AddAll \/ CommitAll \/ ResetStaged
        \/ \E x \in Pick(BOOLEAN) : Clean(x)
Spec == Init /\ [][Next]_vars

-----------------------------------------------------------------------------
(* What TLC checks (intended semantics: AsCode = FALSE) *)
TypeOK == /\ \A r \in {head, staged, working} : r.t \in [TNames -> 0..2] /\ Cardinality(r.ig) <= MaxPats
          /\ NoPatternDeviation(working.ig)
Staging == last'.a \in {"AddAll", "CommitAll"} /\ last'.res = "ok"      \* ("nothing to commit" fails the statement: nothing is kept)
\* an ignored new or dropped table is never staged ...
IgnoredNeverStaged ==
    [][Staging => \A n \in TNames : (Verdict(n) = "Ignore" /\ IsNewOrDropped(n)) => staged'.t[n] = staged.t[n]]_vars
\* ... while every other change is
EverythingElseStaged ==
    [][Staging => \A n \in TNames : ~(Verdict(n) = "Ignore" /\ IsNewOrDropped(n)) => staged'.t[n] = working.t[n]]_vars
\* contradicting equally specific patterns are reported and nothing is staged
ConflictIsReported ==
    [][(last'.a \in {"AddAll", "CommitAll"}) =>
          ((\E n \in Union : Verdict(n) = "Conflict") <=> last'.res = "conflict") /\ (last'.res = "conflict" => UNCHANGED view)]_vars
\* clean removes exactly the untracked non-ignored tables (all untracked ones with -x) and nothing that is tracked
CleanExact ==
    [][(last'.a = "Clean" /\ last'.res = "ok") =>
          /\ \A n \in TNames : staged.t[n] # 0 => working'.t[n] = working.t[n]
          /\ \A n \in TNames : (staged.t[n] = 0 /\ working.t[n] # 0) =>
                (working'.t[n] = 0 <=> (last'.args.x \/ Verdict(n) # "Ignore"))
          /\ staged' = staged /\ head' = head /\ working'.ig = working.ig]_vars
\* a commit -A commits exactly what add-all stages
CommitIsStaged == [][(last'.a = "CommitAll" /\ last'.res = "ok") => head' = staged' /\ working' = working]_vars

\* constant values for the configs (a .cfg file cannot spell tuples): TNames <- TN2, PatPalette <- PP1, ...
TN2 == {<<"a">>, <<"a", "b">>}
TN4 == {<<"a">>, <<"a", "b">>, <<"b">>, <<"b", "a">>}
PP1 == {<<"a", "*">>}
PP3 == {<<"a", "*">>, <<"a", "b">>, <<"a", "?">>}
PP6 == {<<"a", "*">>, <<"a", "b">>, <<"a", "?">>, <<"*", "a">>, <<"b">>, <<"?", "b">>}
Emit == Len(hist) < D \/ PrintT(ToJson(hist))
=============================================================================
