--------------------------- MODULE StorageFaults ---------------------------
(* Storage files as sequences of LOGICAL SITES, one fault per behaviour, and what a read may return afterwards.

   Files modelled (go/store/nbs):
     table     noms table file      table_writer.go / table_index.go / table_reader.go / file_table_reader.go
                 chunk records (snappy payload + CRC32C) | prefix tuples (prefix, ordinal) sorted by prefix |
                 lengths by ordinal | suffixes by ordinal | footer (chunk count, total uncompressed, magic)
     archive   dolt archive (.darc) archive_writer.go / archive_reader.go / archive_chunk_source.go
                 byte spans (dictionary, chunk data) | span index (end offsets) | prefixes | chunk refs (dict span id,
                 data span id) | suffixes | metadata | footer (index length, span count, chunk count, metadata
                 length, 192 unused checksum bytes, format version, signature)
     manifest  file_manifest.go     version:nbf:lock:root:gcgen(:table name:chunk count)*

   A behaviour is  Build(kind, how, order) ; CorruptFile(site, fault) ; ReadAll.
   Build chooses the file kind, its build history (`how`: table = persisted memtable or conjoin of two tables;
   archive = all snappy / all zstd with a shared dictionary / mixed; manifest = without / with gc generation / with two
   tables) and the stored chunks in insertion order (a sequence without repetition over Addr, so that ordinals differ
   from index positions).  CorruptFile is the fault action of property C10: it damages ONE logical site with one of
   the fault kinds {bitflip, byteset, truncate, extend}; the engine applies it byte-exhaustively inside the site.
   ReadAll reads every address of Addr (stored or not) through every read path.

   Guard(kind, cls) names the mechanism of the FORMAT that protects a site:
     "magic"    a constant that is compared at open                      -> every read fails
     "size"     a count that is checked against the manifest / the buffer size at open -> every read fails
     "crc"      CRC32C over the compressed chunk record                  -> reads of the owner fail
     "decode"   the decompressor rejects the bytes (zstd without frame checksum: NOT guaranteed)
     "lookup"   unprotected, but part of the search key: the owner is no longer found (never somebody else's bytes)
     "range"    unprotected integer used as an index / offset / length: an ideal reader bounds-checks it -> error
     "redirect" unprotected reference from an address to the bytes of a chunk: without verifying the content
                address the reader returns ANOTHER chunk's bytes
     "dead"     bytes nobody reads
     "syntax"   textual field with a validated syntax (hashes, numbers, separators)
     "opaque"   textual field that is accepted as it is when well-formed (lock, gc generation, format name, root)

   Allowed(...) is the set of outcomes of a read of one address after the fault, for an IDEAL reader of this format:
     "ok"      the stored bytes (or: correctly absent)      "err"  an error
     "absent"  a stored chunk is reported missing           "wrong" bytes that were not stored under that address
   The process-level outcomes panic / fatal / hang are never allowed.

   NeverMisread (C10 on the model): no site and no fault makes "wrong" an allowed outcome, PROVIDED the reader
   verifies content addresses wherever the format itself cannot (VerifyAddr = TRUE).  With VerifyAddr = FALSE - which
   is what the code does: NewCompressedChunk checks a CRC, gozstd.DecompressDict checks nothing, nobody re-hashes -
   TLC reports exactly the sites listed in Holes; HolesAreExactlyTheUnverifiedSites states that.  The engine then
   confirms or refutes every hole and every guard on the real readers. *)
EXTENDS Integers, Sequences, FiniteSets, TLC, Json

CONSTANTS Addr,         \* model addresses (strings); a1,a2,a4 share their 8-byte prefix, a3 = prefix + 1 (table files)
          MaxChunks,    \* stored chunks per file
          Kinds,        \* subset of {"table","archive","manifest"}
          FaultKinds,   \* subset of {"bitflip","byteset","truncate","extend"}
          VerifyAddr,   \* the reader re-hashes what it returns
          RecordHist

VARIABLES phase,   \* "init" | "built" | "faulted" | "read"
          file,    \* [kind, how, order]
          fault,   \* [cls, i, fk]
          result,  \* [Addr -> SUBSET outcomes] after ReadAll
          hist

vars == <<phase, file, fault, result, hist>>
view == <<phase, file, fault, result>>

Hows(kind) == CASE kind = "table"    -> {"persist", "conjoin"}
                [] kind = "archive"  -> {"snappy", "zstd", "mixed"}
                [] kind = "manifest" -> {"plain", "gcgen", "two"}

\* insertion orders: sequences without repetition over Addr of length 1..MaxChunks
NonEmptyOrders == {o \in UNION {[1..n -> Addr] : n \in 1..MaxChunks} : \A i, j \in 1..Len(o) : i # j => o[i] # o[j]}

Stored(f) == {f.order[i] : i \in 1..Len(f.order)}
N(f) == Len(f.order)
\* zstd-compressed chunks of an archive (positions in insertion order)
UsesDict(f, j) == f.kind = "archive" /\ (f.how = "zstd" \/ (f.how = "mixed" /\ j % 2 = 1))
NDict(f) == IF f.kind = "archive" /\ f.how # "snappy" THEN 1 ELSE 0
NTables(f) == IF f.how = "two" THEN 2 ELSE 1

\* ------------------------------------------------------------------ layout: the logical sites of a file, in file order
Site(c, i) == [cls |-> c, i |-> i]
SeqOf(c, n) == [j \in 1..n |-> Site(c, j)]
RECURSIVE Flatten(_)
Flatten(ss) == IF ss = <<>> THEN <<>> ELSE Head(ss) \o Flatten(Tail(ss))
Interleave(c1, c2, n) == Flatten([j \in 1..n |-> <<Site(c1, j), Site(c2, j)>>])

Sites(f) ==
  CASE f.kind = "table" ->
         Interleave("rec.data", "rec.crc", N(f)) \o Interleave("idx.prefix", "idx.ordinal", N(f))
         \o SeqOf("idx.length", N(f)) \o SeqOf("idx.suffix", N(f))
         \o <<Site("ftr.count", 0), Site("ftr.uncomp", 0), Site("ftr.magic", 0), Site("eof", 0)>>
    [] f.kind = "archive" ->
         SeqOf("span.dict", NDict(f)) \o SeqOf("span.data", N(f)) \o SeqOf("ix.spanend", N(f) + NDict(f))
         \o SeqOf("ix.prefix", N(f)) \o Interleave("ix.ref.dict", "ix.ref.data", N(f)) \o SeqOf("ix.suffix", N(f))
         \o <<Site("meta", 0), Site("ftr.indexlen", 0), Site("ftr.spancount", 0), Site("ftr.chunkcount", 0), Site("ftr.metalen", 0),
              Site("ftr.checksums", 0), Site("ftr.version", 0), Site("ftr.sig", 0), Site("eof", 0)>>
    [] f.kind = "manifest" ->
         <<Site("m.version", 0), Site("m.sep", 1), Site("m.nbf", 0), Site("m.sep", 2), Site("m.lock", 0), Site("m.sep", 3),
           Site("m.root", 0), Site("m.sep", 4), Site("m.gcgen", 0)>>
         \o Flatten([j \in 1..NTables(f) |-> <<Site("m.sep", 3 + 2 * j), Site("m.tname", j), Site("m.sep", 4 + 2 * j), Site("m.tcount", j)>>])
         \o <<Site("eof", 0)>>

SiteSet(f) == {Sites(f)[k] : k \in 1..Len(Sites(f))}

\* ------------------------------------------------------------------ which mechanism of the format guards a site
Guard(f, s) ==
  CASE s.cls \in {"ftr.magic", "ftr.sig"} -> "magic"
    [] s.cls \in {"ftr.count"} -> "size"
    [] s.cls \in {"rec.data", "rec.crc"} -> "crc"
    [] s.cls = "span.data" -> IF UsesDict(f, s.i) THEN "decode" ELSE "crc"
    [] s.cls = "span.dict" -> "decode"
    [] s.cls \in {"idx.prefix", "idx.suffix", "ix.prefix", "ix.suffix"} -> "lookup"
    [] s.cls \in {"idx.ordinal", "idx.length", "ix.spanend", "ftr.indexlen", "ftr.spancount", "ftr.chunkcount", "ftr.metalen", "ftr.version"} -> "range"
    [] s.cls \in {"ix.ref.dict", "ix.ref.data"} -> "redirect"
    [] s.cls \in {"ftr.uncomp", "ftr.checksums", "meta"} -> "dead"
    [] s.cls \in {"m.version", "m.sep", "m.tname", "m.tcount"} -> "syntax"
    [] s.cls \in {"m.nbf", "m.lock", "m.root", "m.gcgen"} -> "opaque"
    [] OTHER -> "eof"

\* Which addresses are the OWNERS of a site (their reads go through it; everybody else is "other"):
\*   rec.*, idx.suffix, span.data i      the chunk at file position i
\*   idx.length i                        the chunks at file positions >= i (offsets are prefix sums of the lengths)
\*   idx.prefix/ordinal, ix.prefix/ref/suffix i   the chunk at position i of the index sorted by address
\*   span.dict                           the zstd-compressed chunks
\*   dead sites                          nobody;   footers, eof, manifest fields: everybody
\* The sorted position of a model address depends on the concrete hashes, i.e. on the binding: the engine computes the
\* owner set from the real layout; the model distinguishes only the two roles.
Roles == {"owner", "other"}
HasOthers(f, s) == Guard(f, s) \notin {"magic", "size", "syntax", "opaque", "eof"} /\ s.cls \notin {"ix.spanend", "ftr.indexlen", "ftr.spancount", "ftr.chunkcount", "ftr.metalen", "ftr.version"}

\* ------------------------------------------------------------------ outcomes an ideal reader of this format may produce
Allowed(f, s, fk, role) ==
  LET g == Guard(f, s)
      own == role = "owner"
      wrongIfUnverified == IF VerifyAddr THEN {} ELSE {"wrong"}
  IN
  IF f.kind = "manifest" THEN
       CASE fk = "extend" -> {"err"}
         [] fk = "truncate" -> {"err", "ok", "absent"}   \* a cut at a field boundary may leave a shorter well-formed manifest (fewer or no
                                                         \* tables): the chunks of the dropped tables are missing, nothing is misread
         [] g = "syntax" -> {"err"}
         [] OTHER -> {"ok", "err"}              \* opaque fields: malformed -> error, well-formed -> accepted as they are
  ELSE CASE fk = "truncate" -> {"err"}           \* footers sit at the end of the file: every cut removes the magic / signature
         [] fk = "extend" -> {"err", "ok", "absent"}   \* appended bytes may themselves end in a well-formed footer (the index is not checksummed)
         [] g \in {"magic", "size"} -> {"err"}
         [] g = "dead" -> {"ok"}
         [] g = "crc" -> IF own THEN {"err"} ELSE {"ok"}
         [] g = "decode" -> IF own THEN {"err", "absent", "ok"} \cup wrongIfUnverified ELSE {"ok"}   \* some bits of a zstd frame do not influence the output
         [] g = "lookup" -> IF own THEN {"absent"} ELSE {"ok", "absent"}   \* a damaged prefix may also hide its neighbours from the binary search
         [] g = "redirect" -> IF own THEN {"err", "absent"} \cup wrongIfUnverified ELSE {"ok"}
         [] g = "range" -> IF s.cls = "idx.ordinal"
                           THEN (IF own THEN {"absent", "err"} ELSE {"ok", "err"})   \* a reader that validates the ordinals at open fails every read
                           ELSE (IF own THEN {"err", "ok", "absent"} ELSE {"ok", "err", "absent"})
         [] OTHER -> {"err", "ok", "absent"}

\* sites through which an unverifying reader can return bytes that were never stored under the address
Holes(f) == {s \in SiteSet(f) : \E fk \in FaultKinds, r \in Roles : "wrong" \in Allowed(f, s, fk, r)}

\* ------------------------------------------------------------------ actions
Init == /\ phase = "init" /\ file = [kind |-> "none", how |-> "none", order |-> <<>>]
        /\ fault = [cls |-> "none", i |-> 0, fk |-> "none"] /\ result = [r \in Roles |-> {}] /\ hist = <<>>

Build(k, h, o) == /\ phase = "init"
                  /\ (h = "conjoin" => Len(o) >= 2)
                  /\ file' = [kind |-> k, how |-> h, order |-> o] /\ phase' = "built"
                  /\ UNCHANGED <<fault, result>>
                  /\ hist' = IF RecordHist THEN Append(hist, [a |-> "Build", kind |-> k, how |-> h, order |-> o]) ELSE hist

CorruptFile(s, fk) == /\ phase = "built"
                      /\ (fk = "extend" <=> s.cls = "eof")
                      /\ fault' = [cls |-> s.cls, i |-> s.i, fk |-> fk] /\ phase' = "faulted"
                      /\ UNCHANGED <<file, result>>
                      /\ hist' = IF RecordHist
                                 THEN Append(hist, [a |-> "CorruptFile", site |-> s, fault |-> fk, guard |-> Guard(file, s)])
                                 ELSE hist

ReadAll == /\ phase = "faulted"
           /\ LET s == Site(fault.cls, fault.i) IN
              /\ result' = [r \in Roles |-> Allowed(file, s, fault.fk, r)]
              /\ hist' = IF RecordHist
                         THEN Append(hist, [a |-> "ReadAll", allowed |-> [r \in Roles |-> Allowed(file, s, fault.fk, r)]])
                         ELSE hist
           /\ phase' = "read" /\ UNCHANGED <<file, fault>>

Next == \/ \E k \in Kinds : \E h \in Hows(k) : \E o \in NonEmptyOrders : Build(k, h, o)
        \/ (phase = "built" /\ \E s \in SiteSet(file) : \E fk \in FaultKinds : CorruptFile(s, fk))
        \/ ReadAll

Spec == Init /\ [][Next]_vars

\* ------------------------------------------------------------------ what TLC checks on the model (C10 at design level)
Outcomes == {"ok", "err", "absent", "wrong"}
TypeOK == /\ phase \in {"init", "built", "faulted", "read"} /\ result \in [Roles -> SUBSET Outcomes]

\* every read after a fault returns an error or the stored value (or loses the chunk), never other bytes
NeverMisread == phase = "read" => \A r \in Roles : "wrong" \notin result[r]
\* a fault on one chunk's own bytes never changes what another address reads
FaultsAreLocal == phase = "read" =>
    LET s == Site(fault.cls, fault.i) IN
    (Guard(file, s) \in {"crc", "decode", "redirect"} /\ fault.fk \in {"bitflip", "byteset"}) => result["other"] = {"ok"}
\* an address that was never stored never yields a chunk: for it "ok" means absent, and "wrong" is excluded above
\* every site of every file is classified
EverySiteGuarded == phase # "init" => \A s \in SiteSet(file) : Guard(file, s) # "eof" \/ s.cls = "eof"
\* with an unverifying reader the misreads are confined to these sites (checked with VerifyAddr = FALSE)
HolesAreExactlyTheUnverifiedSites ==
    phase # "init" => Holes(file) = IF VerifyAddr THEN {}
                                    ELSE {s \in SiteSet(file) : s.cls \in {"ix.ref.dict", "ix.ref.data", "span.dict"} \/ (s.cls = "span.data" /\ UsesDict(file, s.i))}

\* exhaustive enumeration of the fault plan: every complete behaviour is printed once (hist is part of the state)
EmitDone == phase # "read" \/ PrintT(ToJson(hist))
=============================================================================
