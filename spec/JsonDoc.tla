--------------------------- MODULE JsonDoc ---------------------------
(* JSON documents, MySQL path edits and the three-way JSON merge of dolt.

   Code modelled
     oracle     go-mysql-server sql/types/json_value.go   JSONDocument.{Insert,Set,Replace,Remove,ArrayInsert,ArrayAppend}
                (walkPathAndUpdate / updateObject / updateArray / updateObjectTreatAsArray / parseIndex), lookupJson
     stored     go/store/prolly/tree/json_indexed_document.go   IndexedJsonDocument.{Lookup,Insert,Set,Replace,Remove,...}
                (json_cursor.go, json_location.go, json_scanner.go, json_chunker.go)
     merge      go/libraries/doltcore/merge/merge_prolly_rows.go:2373 MergeJSON,
                three_way_json_differ.go ThreeWayJsonDiffer.Next, store/prolly/tree/json_diff.go, indexed_json_diff.go

   Property C17 names the in-memory JSONDocument as the oracle of the stored document; this module is the
   *generator* of cases and a third opinion: Apply(op, doc, path, val) transcribes the oracle's rules
   (insert never overwrites, replace requires existence, scalars and objects auto-wrap as one-element arrays
   for index legs, out-of-range indexes append for SET/INSERT/ARRAY_INSERT, `last`/`last-N`), including the
   oracle's deliberate or accidental deviations from MySQL as *named* operators (TreatAsArray ignores the
   remaining path; an overflowing index appends whatever legs follow; SET through an underflowing last-N
   writes element 0).

   Two state machines share the operators:
     ops    (INIT OpsInit,   NEXT OpsNext)    state = one document; every transition is one path edit
     merge  (INIT MergeInit, NEXT MergeNext)  state = (base, left, right) reached by <= MaxEdits edits per side

   Documents are tagged records [t, x]:  "s" scalar (x \in 0..NScal, 0 = JSON null), "o" object (x = function
   from a finite set of keys to documents), "a" array (x = sequence of documents).  Keys are sequences of
   character codes (1 = '"', 2 = '.', 3 = 'a', 4 = 'b', 5 = 'c' ...) so that byte order, prefix relations and
   the need for quoting/escaping are expressible in the model; the engine prints them as strings. *)
EXTENDS Integers, Sequences, FiniteSets, TLC, Json

CONSTANTS Keys,        \* keys that may occur in documents and as member legs (set of code sequences)
          DKeys,       \* keys used for a second dangling leg (small subset of Keys)
          NScal,       \* scalars are 0..NScal (0 = null)
          MaxIdx,      \* index legs 0..MaxIdx
          MaxBack,     \* last-N legs for N \in 0..MaxBack  (last-0 is `last`)
          MaxNodes, MaxDepth, MaxPath,
          NVals,       \* how many of the candidate values are used for edits (1..5)
          MaxEdits,    \* merge machine: edits of the right side
          MaxEditsL,   \* merge machine: edits of the left side
          MBases,      \* merge machine: which base documents (subset of 1..NumBases)
          D,           \* length of emitted behaviours (simulation)
          RecordHist,
          EmitMod      \* exhaustive emission: a state emits its cases iff EmitMod = 1 or a random draw of 1..EmitMod is 1

VARIABLES doc,            \* ops machine: the current document
          mb, ml, mr,     \* merge machine: base, left, right
          nl, nr,         \* merge machine: number of edits applied to each side
          hist

vars == <<doc, mb, ml, mr, nl, nr, hist>>
view == <<doc, mb, ml, mr, nl, nr>>

\* ------------------------------------------------------------------ documents
S(v) == [t |-> "s", x |-> v]
O(m) == [t |-> "o", x |-> m]
A(e) == [t |-> "a", x |-> e]
Null == S(0)
EmptyMap == [k \in {} |-> Null]
Put(m, k, v) == [j \in DOMAIN m \cup {k} |-> IF j = k THEN v ELSE m[j]]
Del(m, k) == [j \in DOMAIN m \ {k} |-> m[j]]
One(k, v) == Put(EmptyMap, k, v)

RECURSIVE Nodes(_), Depth(_)
SumSeq(s) == LET RECURSIVE Sm(_) Sm(i) == IF i = 0 THEN 0 ELSE s[i] + Sm(i - 1) IN Sm(Len(s))
MaxSeq(s) == LET RECURSIVE Mx(_) Mx(i) == IF i = 0 THEN 0 ELSE IF s[i] > Mx(i - 1) THEN s[i] ELSE Mx(i - 1) IN Mx(Len(s))
SetToSeq(T) == LET RECURSIVE F(_) F(U) == IF U = {} THEN <<>> ELSE LET e == CHOOSE e \in U : TRUE IN <<e>> \o F(U \ {e}) IN F(T)
Kids(d) == IF d.t = "o" THEN LET ks == SetToSeq(DOMAIN d.x) IN [i \in 1..Len(ks) |-> d.x[ks[i]]]
           ELSE IF d.t = "a" THEN d.x ELSE <<>>
Nodes(d) == LET k == Kids(d) IN 1 + SumSeq([i \in 1..Len(k) |-> Nodes(k[i])])
Depth(d) == IF d.t = "s" THEN 0 ELSE LET k == Kids(d) IN 1 + MaxSeq([i \in 1..Len(k) |-> Depth(k[i])])
InBound(d) == Nodes(d) <= MaxNodes /\ Depth(d) <= MaxDepth

\* ------------------------------------------------------------------ key order (bytes.Compare on the key strings)
RECURSIVE SeqLess(_, _)
SeqLess(a, b) == IF b = <<>> THEN FALSE ELSE IF a = <<>> THEN TRUE
                 ELSE IF a[1] # b[1] THEN a[1] < b[1] ELSE SeqLess(Tail(a), Tail(b))
SeqCmp(a, b) == IF a = b THEN 0 ELSE IF SeqLess(a, b) THEN -1 ELSE 1
IsSeqPrefix(p, s) == Len(p) <= Len(s) /\ SubSeq(s, 1, Len(p)) = p
RECURSIVE SortKeys(_)
SortKeys(T) == IF T = {} THEN <<>> ELSE LET m == CHOOSE x \in T : \A y \in T : x = y \/ SeqLess(x, y) IN <<m>> \o SortKeys(T \ {m})

\* ------------------------------------------------------------------ paths
MLeg(k) == [k |-> "m", s |-> k, n |-> 0]        \* .key
ILeg(i) == [k |-> "i", s |-> <<>>, n |-> i]     \* [i]
LLeg(b) == [k |-> "l", s |-> <<>>, n |-> b]     \* [last-b]
\* the smallest one-character key (a)
AKey == CHOOSE k \in Keys : Len(k) = 1 /\ \A j \in Keys : Len(j) = 1 => k[1] <= j[1]
Legs == {MLeg(k) : k \in Keys} \cup {ILeg(i) : i \in 0..MaxIdx} \cup {LLeg(b) : b \in 0..MaxBack}
DLegs == {MLeg(k) : k \in DKeys} \cup {ILeg(0), ILeg(1)}
HasLast(p) == \E i \in 1..Len(p) : p[i].k = "l"

\* strict resolution of one leg, with the auto-wrap reading of [0] / [last] on a non-array
Yes(d) == [ok |-> TRUE, d |-> d]
No == [ok |-> FALSE, d |-> Null]
Child(d, leg) ==
    IF leg.k = "m" THEN (IF d.t = "o" /\ leg.s \in DOMAIN d.x THEN Yes(d.x[leg.s]) ELSE No)
    ELSE IF d.t = "a" THEN LET i == IF leg.k = "i" THEN leg.n ELSE Len(d.x) - 1 - leg.n
                           IN IF i >= 0 /\ i < Len(d.x) THEN Yes(d.x[i + 1]) ELSE No
    ELSE IF leg.n = 0 THEN Yes(d) ELSE No

\* paths worth trying on d: every path that resolves, every path that leaves the document by one leg, and
\* those with one more (dangling) leg after that
\* (a member leg that misses gets every dangling second leg; an index leg that misses or auto-wraps gets one,
\*  which is enough to visit the oracle's named deviations without drowning the regular cases)
RECURSIVE Rel(_, _)
Rel(d, n) == {<<>>} \cup
    (IF n = 0 THEN {} ELSE UNION { LET c == Child(d, leg) IN
         IF c.ok /\ (leg.k = "m" \/ d.t = "a") THEN {<<leg>> \o q : q \in Rel(c.d, n - 1)}
         ELSE {<<leg>>} \cup (IF n > 1 THEN {<<leg, dl>> : dl \in (IF leg.k = "m" THEN DLegs ELSE {MLeg(AKey)})} ELSE {}) : leg \in Legs })

\* ------------------------------------------------------------------ the oracle's edit rules
\* result of an edit: document, changed flag, error flag, and q = "a NAMED DEVIATION of the oracle from the MySQL
\* rules was exercised" (such cases are outside the comparison domain of C17: the stored document follows MySQL there)
Res(d, c) == [d |-> d, c |-> c, e |-> FALSE, q |-> FALSE]
ResQ(d, c, q) == [d |-> d, c |-> c, e |-> FALSE, q |-> q]
Err == [d |-> Null, c |-> FALSE, e |-> TRUE, q |-> FALSE]
ErrQ(q) == [d |-> Null, c |-> FALSE, e |-> TRUE, q |-> q]

\* parseIndex(indexStr, lastIndex): `last` clamps to 0 on an empty array and never overflows; last-N underflows
\* to 0; a plain index beyond lastIndex is clamped to lastIndex with overflow
ParseIdx(leg, lastIndex) ==
    IF leg.k = "l" THEN
        IF leg.n = 0 THEN [i |-> IF lastIndex < 0 THEN 0 ELSE lastIndex, under |-> FALSE, over |-> FALSE]
        ELSE IF lastIndex - leg.n < 0 THEN [i |-> 0, under |-> TRUE, over |-> FALSE]
        ELSE [i |-> lastIndex - leg.n, under |-> FALSE, over |-> FALSE]
    ELSE IF leg.n > lastIndex THEN [i |-> lastIndex, under |-> FALSE, over |-> TRUE]
    ELSE [i |-> leg.n, under |-> FALSE, over |-> FALSE]

SeqSet(s, i, v) == [s EXCEPT ![i] = v]
SeqDel(s, i) == SubSeq(s, 1, i - 1) \o SubSeq(s, i + 1, Len(s))
SeqIns(s, i, v) == SubSeq(s, 1, i - 1) \o <<v>> \o SubSeq(s, i, Len(s))

\* updateObjectTreatAsArray: an index leg applied to a scalar or object.
\* NAMED DEVIATION IgnoresRest (oracle): the legs after the index are ignored.
TreatAsArray(leg, rest, d, v, mode) ==
    LET ix == ParseIdx(leg, 0) q == rest # <<>> IN
    IF ix.under THEN (IF mode \in {"set", "insert"} THEN ResQ(A(<<v, d>>), TRUE, q) ELSE ResQ(d, FALSE, q))
    ELSE IF ix.over THEN (IF mode \in {"set", "insert"} THEN ResQ(A(<<d, v>>), TRUE, q) ELSE ResQ(d, FALSE, q))
    ELSE IF mode \in {"set", "replace"} THEN ResQ(v, TRUE, q)
    ELSE IF mode = "append" THEN ResQ(A(<<d, v>>), TRUE, q)
    ELSE ResQ(d, FALSE, q)

RECURSIVE Walk(_, _, _, _)
\* updateArray.
\* NAMED DEVIATION UnderflowSet (oracle): SET through an underflowing last-N goes on with index 0.
\* NAMED DEVIATION OverflowAppendsAnyway (oracle): an index beyond the end appends for SET/INSERT/ARRAY_INSERT
\*                 even when more legs follow.
UpdArray(leg, rest, d, v, mode) ==
    LET ix == ParseIdx(leg, Len(d.x) - 1) uq == ix.under /\ mode = "set" IN
    IF ix.under /\ mode # "set" THEN Res(d, FALSE)
    ELSE IF Len(d.x) > ix.i /\ ~ix.over THEN
        IF rest = <<>> /\ mode # "append" THEN
            CASE mode \in {"set", "replace"} -> ResQ(A(SeqSet(d.x, ix.i + 1, v)), TRUE, uq)
              [] mode = "remove" -> Res(A(SeqDel(d.x, ix.i + 1)), TRUE)
              [] mode = "ainsert" -> Res(A(SeqIns(d.x, ix.i + 1, v)), TRUE)
              [] OTHER -> Res(d, FALSE)
        ELSE LET r == Walk(rest, d.x[ix.i + 1], v, mode) IN
             IF r.e THEN ErrQ(r.q \/ uq) ELSE IF r.c THEN ResQ(A(SeqSet(d.x, ix.i + 1, r.d)), TRUE, r.q \/ uq) ELSE ResQ(d, FALSE, r.q \/ uq)
    ELSE IF mode \in {"set", "insert", "ainsert"} THEN ResQ(A(Append(d.x, v)), TRUE, rest # <<>> \/ uq)
    ELSE ResQ(d, FALSE, rest # <<>> \/ uq)

\* updateObject; NAMED DEVIATION AbsentIsNull (oracle): an absent member is walked into as JSON null (doc[name] of a
\* Go map), which matters when the next leg is an index (null then auto-wraps)
UpdObject(name, rest, d, v, mode) ==
    LET has == name \in DOMAIN d.x IN
    IF rest = <<>> THEN
        IF mode = "append" THEN
            (IF ~has THEN Res(d, FALSE)
             ELSE LET r == Walk(<<>>, d.x[name], v, mode) IN Res(O(Put(d.x, name, r.d)), TRUE))
        ELSE IF mode = "ainsert" THEN Err
        ELSE IF mode = "set" \/ (~has /\ mode = "insert") \/ (has /\ mode = "replace") THEN Res(O(Put(d.x, name, v)), TRUE)
        ELSE IF has /\ mode = "remove" THEN Res(O(Del(d.x, name)), TRUE)
        ELSE Res(d, FALSE)
    ELSE LET r == Walk(rest, IF has THEN d.x[name] ELSE Null, v, mode)
             q == r.q \/ (~has /\ Head(rest).k # "m") IN
         IF r.e THEN ErrQ(q) ELSE IF r.c THEN ResQ(O(Put(d.x, name, r.d)), TRUE, q) ELSE ResQ(d, FALSE, q)

Walk(p, d, v, mode) ==
    IF p = <<>> THEN
        CASE mode \in {"set", "replace"} -> Res(v, TRUE)
          [] mode = "insert" -> Res(d, FALSE)
          [] mode = "append" -> (IF d.t = "a" THEN Res(A(Append(d.x, v)), TRUE) ELSE Res(A(<<d, v>>), TRUE))
          [] OTHER -> Err
    ELSE LET leg == Head(p) rest == Tail(p) IN
        IF leg.k = "m" THEN
            IF d.t # "o" THEN (IF mode = "ainsert" THEN Err ELSE Res(d, FALSE))
            ELSE UpdObject(leg.s, rest, d, v, mode)
        ELSE IF d.t = "a" THEN UpdArray(leg, rest, d, v, mode)
        ELSE TreatAsArray(leg, rest, d, v, mode)

Ops == {"insert", "set", "replace", "remove", "ainsert", "append"}
\* `$` is rejected by Remove and ArrayInsert before any walking
Apply(op, d, p, v) == IF p = <<>> /\ op \in {"remove", "ainsert"} THEN Err ELSE Walk(p, d, v, op)

\* ------------------------------------------------------------------ lookup (oracle: lookupJson over the jsonpath library)
\* result kinds: "val" (x = document), "none" (SQL NULL), "err" (path not supported: any last leg),
\* "undef" (the oracle panics: index leg applied to JSON null below the root)
LVal(d) == [r |-> "val", d |-> d, q |-> FALSE]
LNone == [r |-> "none", d |-> Null, q |-> FALSE]
RECURSIVE LookStrict(_, _)
LookStrict(d, p) ==
    IF p = <<>> THEN LVal(d)
    ELSE LET leg == Head(p) IN
        IF leg.k = "m" THEN (IF d.t = "o" /\ leg.s \in DOMAIN d.x THEN LookStrict(d.x[leg.s], Tail(p)) ELSE LNone)
        ELSE IF d.t = "a" THEN (IF leg.n < Len(d.x) THEN LookStrict(d.x[leg.n + 1], Tail(p)) ELSE LNone)
        ELSE IF d = Null THEN [r |-> "undef", d |-> Null, q |-> TRUE]
        ELSE LNone
\* NAMED DEVIATION DropsEmptyLeg (oracle): the jsonpath tokenizer drops an empty quoted member leg ($."" reads as $),
\* but only after memberAccessOnNonObject has looked at the path as written
DropEmpty(p) == SelectSeq(p, LAMBDA l : ~(l.k = "m" /\ l.s = <<>>))
RECURSIVE MemberOnNonObject(_, _)
MemberOnNonObject(d, p) ==
    IF p = <<>> THEN FALSE
    ELSE LET leg == Head(p) IN
        IF leg.k = "m" THEN (IF d.t # "o" THEN TRUE ELSE IF leg.s \notin DOMAIN d.x THEN FALSE ELSE MemberOnNonObject(d.x[leg.s], Tail(p)))
        ELSE IF d.t # "a" THEN (IF leg.n # 0 THEN FALSE ELSE MemberOnNonObject(d, Tail(p)))
        ELSE IF leg.n >= Len(d.x) THEN FALSE ELSE MemberOnNonObject(d.x[leg.n + 1], Tail(p))
\* NAMED DEVIATION QuoteInKey (oracle): the jsonpath tokenizer does not understand \" inside a quoted member name;
\* what it answers is not modelled (r = "any")
HasQuoteKey(p) == \E i \in 1..Len(p) : p[i].k = "m" /\ \E j \in 1..Len(p[i].s) : p[i].s[j] = 1
Lookup(d, p) ==
    IF p = <<>> THEN LVal(d)                        \* LookupJSONValue special-cases "$"
    ELSE IF d = Null THEN LNone
    ELSE IF HasQuoteKey(p) THEN [r |-> "any", d |-> Null, q |-> TRUE]
    ELSE IF HasLast(p) THEN [r |-> "err", d |-> Null, q |-> FALSE]
    ELSE IF d.t = "s" THEN LNone
    ELSE IF MemberOnNonObject(d, p) THEN [LNone EXCEPT !.q = DropEmpty(p) # p]
    ELSE IF DropEmpty(p) # p /\ LookStrict(d, DropEmpty(p)).r # "val"
         THEN [r |-> "any", d |-> Null, q |-> TRUE]          \* what the library does with the shortened path on a miss is not modelled
    ELSE [LookStrict(d, DropEmpty(p)) EXCEPT !.q = @ \/ DropEmpty(p) # p]

\* resolution with auto-wrap and last, used only by the sanity invariants
RECURSIVE Resolve(_, _)
Resolve(d, p) == IF p = <<>> THEN Yes(d) ELSE LET c == Child(d, Head(p)) IN IF c.ok THEN Resolve(c.d, Tail(p)) ELSE No

\* ------------------------------------------------------------------ values used by edits
ValSeq == <<S(2), O(One(AKey, S(1))), A(<<S(1)>>), O(EmptyMap), S(0)>>
Vals == {ValSeq[i] : i \in 1..NVals}

\* ------------------------------------------------------------------ JSON-friendly rendering for the engine
RECURSIVE Out(_)
Out(d) == IF d.t = "s" THEN [s |-> d.x]
          ELSE IF d.t = "a" THEN [a |-> [i \in 1..Len(d.x) |-> Out(d.x[i])]]
          ELSE LET ks == SortKeys(DOMAIN d.x) IN [o |-> [i \in 1..Len(ks) |-> [k |-> ks[i], v |-> Out(d.x[ks[i]])]]]
OutLeg(l) == IF l.k = "m" THEN [m |-> l.s] ELSE IF l.k = "i" THEN [i |-> l.n] ELSE [l |-> l.n]
OutPath(p) == [i \in 1..Len(p) |-> OutLeg(p[i])]
OutRes(r) == [doc |-> Out(r.d), changed |-> r.c, err |-> r.e, quirk |-> r.q]
OutLook(r) == [r |-> r.r, doc |-> Out(r.d), quirk |-> r.q]

\* key sets for the configs (cfg files cannot write tuples): 1 = '"', 2 = '.', 3 = 'a', 4 = 'b', 5 = 'c'
KeysQ == {<<3>>, <<3, 2, 4>>, <<>>}                         \* a, "a.b", ""
KeysT == {<<3>>, <<4>>, <<3, 2, 4>>, <<>>, <<3, 1>>}        \* a, b, "a.b", "", a"
KeysM == {<<3>>, <<3, 4>>, <<4>>, <<5>>}                    \* merge machine: a, ab, b, c
DKeysQ == {<<3>>}

\* ================================================================== ops machine
InitDocs == {S(1), O(EmptyMap), A(<<>>)}
OpsInit == /\ doc \in InitDocs /\ mb = Null /\ ml = Null /\ mr = Null /\ nl = 0 /\ nr = 0 /\ hist = <<>>

Edit(op, p, v) ==
    LET r == Apply(op, doc, p, v) IN
    /\ ~r.e => InBound(r.d)
    /\ doc' = IF r.e THEN doc ELSE r.d
    /\ hist' = IF RecordHist THEN Append(hist, [a |-> op, pre |-> Out(doc), path |-> OutPath(p), val |-> Out(v), exp |-> OutRes(r)]) ELSE hist
    /\ UNCHANGED <<mb, ml, mr, nl, nr>>

Look(p) == /\ RecordHist /\ UNCHANGED <<doc, mb, ml, mr, nl, nr>>
           /\ hist' = Append(hist, [a |-> "lookup", pre |-> Out(doc), path |-> OutPath(p), val |-> Out(Null), exp |-> OutLook(Lookup(doc, p))])

\* richer starting points for simulated edit chains (keys a, b, "a.b" must be in Keys)
SimInitDocs == {O(EmptyMap), S(1), A(<<O(One(<<3>>, S(1))), S(2)>>),
                O(One(<<3>>, A(<<S(1), S(2)>>))),
                O(Put(One(<<3>>, O(One(<<4>>, S(1)))), <<3, 2, 4>>, S(2)))}
OpsSimInit == /\ doc \in SimInitDocs /\ mb = Null /\ ml = Null /\ mr = Null /\ nl = 0 /\ nr = 0 /\ hist = <<>>

OpsNext == \E op \in Ops, p \in Rel(doc, MaxPath), v \in Vals : Edit(op, p, v)

\* simulation: one successor per operation kind, parameters drawn once (see HOWTO: RandomElement under \E over a singleton)
OpsSimNext == \/ \E op \in Ops : \E p \in {RandomElement(Rel(doc, MaxPath))} : \E v \in {RandomElement(Vals)} : Edit(op, p, v)
              \/ \E p \in {RandomElement(Rel(doc, MaxPath))} : Look(p)
              \/ \E p \in {RandomElement(Rel(doc, MaxPath))} : Look(p)

\* ---- what TLC checks on every reachable document (algebraic sanity of the rules)
NoUnder(d, p) == \* no leg of p underflows (last-N with N > last index) along its resolution in d
    LET RECURSIVE F(_, _)
        F(x, q) == IF q = <<>> THEN TRUE
                   ELSE LET leg == Head(q)
                            under == leg.k = "l" /\ leg.n > 0 /\ (IF x.t = "a" THEN Len(x.x) - 1 - leg.n < 0 ELSE TRUE)
                            c == Child(x, leg)
                        IN ~under /\ (c.ok => F(c.d, Tail(q)))
    IN F(d, p)

TypeOK == /\ doc.t \in {"s", "o", "a"} /\ InBound(doc)

RA(op, p, v) == Apply(op, doc, p, v)
AllMembers(p) == \A i \in 1..Len(p) : p[i].k = "m"
ForAllCases(P(_, _)) == \A p \in Rel(doc, MaxPath), v \in Vals : P(p, v)
\* only Remove and ArrayInsert can fail
SanErr == ForAllCases(LAMBDA p, v : \A op \in {"insert", "set", "replace", "append"} : ~RA(op, p, v).e)
\* an unchanged flag means an unchanged document
SanFlag == ForAllCases(LAMBDA p, v : \A op \in Ops : LET r == RA(op, p, v) IN (~r.e /\ ~r.c) => r.d = doc)
\* insert never overwrites / replace requires existence: never both
SanExcl == ForAllCases(LAMBDA p, v : ~(RA("insert", p, v).c /\ RA("replace", p, v).c))
\* Set = Replace where the location exists, Insert where it does not (except through an underflowing last-N)
SanSet == ForAllCases(LAMBDA p, v : LET ins == RA("insert", p, v) set == RA("set", p, v) rep == RA("replace", p, v) IN
              NoUnder(doc, p) => /\ set.c = (ins.c \/ rep.c)
                                 /\ (rep.c => set.d = rep.d) /\ (ins.c => set.d = ins.d))
\* Replace through member legs writes exactly the addressed value, and happens whenever the path resolves
SanRep == ForAllCases(LAMBDA p, v : LET rep == RA("replace", p, v) IN
              (AllMembers(p) /\ p # <<>>) => /\ rep.c = Resolve(doc, p).ok
                                             /\ (rep.c => Resolve(rep.d, p) = Yes(v)))
\* Remove after a member Insert restores the document
SanInsRem == ForAllCases(LAMBDA p, v : LET ins == RA("insert", p, v) IN
              (ins.c /\ p # <<>> /\ AllMembers(p)) => LET back == Apply("remove", ins.d, p, v) IN back.c /\ back.d = doc)
\* Remove really removes a member
SanRem == ForAllCases(LAMBDA p, v : LET rem == RA("remove", p, v) IN
              (rem.c /\ AllMembers(p)) => ~Resolve(rem.d, p).ok)
\* ArrayAppend leaves an array whose last element is the value
SanApp == ForAllCases(LAMBDA p, v : LET app == RA("append", p, v) IN
              (app.c /\ AllMembers(p)) => LET a == Resolve(app.d, p) IN a.ok /\ a.d.t = "a" /\ a.d.x[Len(a.d.x)] = v)
\* Lookup of a path that strictly resolves returns that value
SanLook == ForAllCases(LAMBDA p, v : (~HasLast(p) /\ doc.t # "s" /\ DropEmpty(p) = p /\ LookStrict(doc, p).r = "val") => Lookup(doc, p).d = Resolve(doc, p).d)

\* ---- exhaustive emission: all cases of one document on one line
AllCases(d) == LET ps == SetToSeq(Rel(d, MaxPath)) vs == SetToSeq(Vals) os == SetToSeq(Ops) IN
    [doc |-> Out(d),
     edits |-> [i \in 1..(Len(ps) * Len(vs) * Len(os)) |->
                  LET p == ps[((i - 1) \div (Len(vs) * Len(os))) + 1]
                      v == vs[(((i - 1) \div Len(os)) % Len(vs)) + 1]
                      op == os[((i - 1) % Len(os)) + 1]
                  IN [a |-> op, path |-> OutPath(p), val |-> Out(v), exp |-> OutRes(Apply(op, d, p, v))]],
     lookups |-> [i \in 1..Len(ps) |-> [a |-> "lookup", path |-> OutPath(ps[i]), exp |-> OutLook(Lookup(d, ps[i]))]]]
EmitAll == (EmitMod > 1 /\ RandomElement(1..EmitMod) # 1) \/ PrintT(ToJson(AllCases(doc)))

Emit == Len(hist) < D \/ PrintT(ToJson(hist))

\* ================================================================== merge machine
\* ---- the property statement, read declaratively: path-wise three-way merge
Ok(d) == [d |-> d, conflict |-> FALSE]
Conflict == [d |-> Null, conflict |-> TRUE]
Absent == [t |-> "none", x |-> 0]
Get(m, k) == IF k \in DOMAIN m THEN m[k] ELSE Absent

RECURSIVE M3(_, _, _)
M3(b, l, r) ==
    IF l = r THEN Ok(l) ELSE IF l = b THEN Ok(r) ELSE IF r = b THEN Ok(l)
    ELSE IF b.t = "o" /\ l.t = "o" /\ r.t = "o" THEN
        LET ks == DOMAIN b.x \cup DOMAIN l.x \cup DOMAIN r.x
            sub == [k \in ks |-> LET bv == Get(b.x, k) lv == Get(l.x, k) rv == Get(r.x, k) IN
                       IF lv = rv THEN Ok(lv) ELSE IF lv = bv THEN Ok(rv) ELSE IF rv = bv THEN Ok(lv)
                       ELSE IF bv # Absent /\ lv # Absent /\ rv # Absent THEN M3(bv, lv, rv) ELSE Conflict]
        IN IF \E k \in ks : sub[k].conflict THEN Conflict
           ELSE Ok(O([k \in {j \in ks : sub[j].d # Absent} |-> sub[k].d]))
    ELSE Conflict

\* ---- what the code does: two diff streams merge-joined by bytes.Compare of the encoded location keys
\* location key of a path: 0xFF key-bytes for a member, 0xFE varint for an index; OBJ/ARR stand for the markers
OBJ == 1000
ARR == 999
RECURSIVE Enc(_)
Enc(p) == IF p = <<>> THEN <<>> ELSE (IF Head(p).k = "m" THEN <<OBJ>> \o Head(p).s ELSE <<ARR, Head(p).n>>) \o Enc(Tail(p))
\* JsonKeysModifySameArray: the common prefix of the two keys contains an array marker
SameArray(x, y) == \E i \in 1..Len(x) : i <= Len(y) /\ x[i] = ARR /\ SubSeq(x, 1, i) = SubSeq(y, 1, i)
\* IsJsonKeyPrefix(path, prefix)
KeyPrefix(path, prefix) == Len(prefix) < Len(path) /\ SubSeq(path, 1, Len(prefix)) = prefix /\ path[Len(prefix) + 1] \in {OBJ, ARR}

\* json_diff.go / indexed_json_diff.go: ordered diff stream; containers of the same kind are descended into
RECURSIVE DiffSeq(_, _, _)
Flat(ss) == LET RECURSIVE F(_) F(i) == IF i > Len(ss) THEN <<>> ELSE ss[i] \o F(i + 1) IN F(1)
DiffSeq(p, f, t) ==
    IF f.t = "o" /\ t.t = "o" THEN
        LET ks == SortKeys(DOMAIN f.x \cup DOMAIN t.x) IN
        Flat([i \in 1..Len(ks) |-> LET k == ks[i] q == Append(p, MLeg(k)) IN
                IF k \notin DOMAIN f.x THEN <<[p |-> q, ty |-> "add", f |-> Absent, t |-> t.x[k]]>>
                ELSE IF k \notin DOMAIN t.x THEN <<[p |-> q, ty |-> "rem", f |-> f.x[k], t |-> Absent]>>
                ELSE DiffSeq(q, f.x[k], t.x[k])])
    ELSE IF f.t = "a" /\ t.t = "a" THEN
        LET n == IF Len(f.x) > Len(t.x) THEN Len(f.x) ELSE Len(t.x) IN
        Flat([i \in 1..n |-> LET q == Append(p, ILeg(i - 1)) IN
                IF i > Len(f.x) THEN <<[p |-> q, ty |-> "add", f |-> Absent, t |-> t.x[i]]>>
                ELSE IF i > Len(t.x) THEN <<[p |-> q, ty |-> "rem", f |-> f.x[i], t |-> Absent]>>
                ELSE DiffSeq(q, f.x[i], t.x[i])])
    ELSE IF f = t THEN <<>>
    ELSE <<[p |-> p, ty |-> "mod", f |-> f, t |-> t]>>

\* SetWithKey / RemoveWithKey on the merged document
SetAt(d, p, v) == Walk(p, d, v, "set").d
RemAt(d, p) == LET r == Walk(p, d, Null, "remove") IN IF r.e THEN d ELSE r.d

RECURSIVE MJ(_, _, _), TW(_, _, _)
\* ThreeWayJsonDiffer.Next driven by MergeJSON's loop.  ls, rs: remaining diffs (head = current), m: merged so far
TW(ls, rs, m) ==
    IF rs = <<>> THEN Ok(m)                                      \* right exhausted: remaining left diffs are already in m
    ELSE LET R == Head(rs) IN
    IF ls = <<>> THEN TW(ls, Tail(rs), IF R.ty = "rem" THEN RemAt(m, R.p) ELSE SetAt(m, R.p, R.t))
    ELSE LET L == Head(ls) c == SeqCmp(Enc(L.p), Enc(R.p)) IN
        IF c # 0 /\ SameArray(Enc(L.p), Enc(R.p)) THEN Conflict   \* NAMED DEVIATION: two edits below one array always conflict
        ELSE IF c > 0 THEN (IF KeyPrefix(Enc(L.p), Enc(R.p)) THEN Conflict
                            ELSE TW(ls, Tail(rs), IF R.ty = "rem" THEN RemAt(m, R.p) ELSE SetAt(m, R.p, R.t)))
        ELSE IF c < 0 THEN (IF KeyPrefix(Enc(R.p), Enc(L.p)) THEN Conflict ELSE TW(Tail(ls), rs, m))
        ELSE IF L.f = Absent THEN (IF L.t = R.t THEN TW(Tail(ls), Tail(rs), SetAt(m, R.p, R.t)) ELSE Conflict)
        ELSE IF L.t = Absent /\ R.t = Absent THEN TW(Tail(ls), Tail(rs), RemAt(m, R.p))
        ELSE IF L.t = Absent \/ R.t = Absent THEN Conflict
        ELSE LET sub == MJ(L.f, L.t, R.t) IN
             IF sub.conflict THEN Conflict ELSE TW(Tail(ls), Tail(rs), SetAt(m, R.p, R.t))   \* writes Right, not sub.d
MJ(b, l, r) ==
    IF ~(b.t = "o" /\ l.t = "o" /\ r.t = "o") THEN (IF l = r THEN Ok(l) ELSE Conflict)     \* NAMED: NonObjectFallback
    ELSE TW(DiffSeq(<<>>, b, l), DiffSeq(<<>>, b, r), l)

\* classes of triples
RECURSIVE HasArray(_)
HasArray(d) == d.t = "a" \/ (d.t = "o" /\ \E k \in DOMAIN d.x : HasArray(d.x[k]))
Sorted(ds) == \A i \in 1..(Len(ds) - 1) : SeqLess(Enc(ds[i].p), Enc(ds[i + 1].p))
\* the merge-join assumes both streams ascend in bytes.Compare order; they do not when a key is a proper prefix
\* of a sibling key and has changes below it ($.a.x is emitted before $.ab but encodes greater)
OrderHazard(b, l, r) == ~Sorted(DiffSeq(<<>>, b, l)) \/ ~Sorted(DiffSeq(<<>>, b, r))
AllObjects(b, l, r) == b.t = "o" /\ l.t = "o" /\ r.t = "o"
Strict(b, l, r) == AllObjects(b, l, r) /\ ~HasArray(b) /\ ~HasArray(l) /\ ~HasArray(r)
Class(b, l, r) == IF ~AllObjects(b, l, r) THEN "nonobject"
                  ELSE IF ~Strict(b, l, r) THEN "array"
                  ELSE IF OrderHazard(b, l, r) THEN "hazard" ELSE "strict"

\* base documents (k1 is a proper prefix of k2: shared prefixes, the quantifier of C17)
K1 == <<3>>
K2 == <<3, 4>>
K3 == <<4>>
KX == <<5>>
BaseSeq == << O(Put(Put(One(K1, O(Put(One(KX, S(1)), K3, S(1)))), K2, S(1)), K3, S(1))),      \* {a:{b:1,c:1}, ab:1, b:1}
              O(Put(One(K1, S(1)), K3, A(<<S(1), S(1)>>))),                                    \* {a:1, b:[1,1]}
              O(EmptyMap),
              O(Put(One(K1, O(One(K1, O(One(K1, S(1)))))), K2, O(One(K1, S(1))))),             \* {a:{a:{a:1}}, ab:{a:1}}
              A(<<S(1), O(One(K1, S(1)))>>),
              S(1) >>
NumBases == Len(BaseSeq)
MPaths == { <<MLeg(K1)>>, <<MLeg(K2)>>, <<MLeg(K3)>>, <<MLeg(KX)>>, <<MLeg(K1), MLeg(KX)>>, <<MLeg(K1), MLeg(K3)>>, <<MLeg(K1), MLeg(K1)>>,
            <<MLeg(K2), MLeg(K1)>>, <<MLeg(K3), ILeg(0)>>, <<MLeg(K3), ILeg(1)>>, <<MLeg(K3), ILeg(2)>>, <<ILeg(0)>>, <<ILeg(1), MLeg(K1)>>, <<>> }
MVals == {S(2), S(3), O(One(KX, S(2))), A(<<S(2)>>)}

MergeInit == /\ doc = Null /\ \E i \in MBases : mb = BaseSeq[i] /\ ml = BaseSeq[i] /\ mr = BaseSeq[i]
             /\ nl = 0 /\ nr = 0 /\ hist = <<>>
MEdit(side, op, p, v) ==
    LET cur == IF side = "l" THEN ml ELSE mr
        r == Apply(op, cur, p, v) IN
    /\ ~r.e /\ r.c /\ InBound(r.d)
    /\ IF side = "l" THEN nl < MaxEditsL /\ nr = 0 /\ ml' = r.d /\ nl' = nl + 1 /\ UNCHANGED <<mr, nr>>
                     ELSE nr < MaxEdits /\ mr' = r.d /\ nr' = nr + 1 /\ UNCHANGED <<ml, nl>>
    /\ UNCHANGED <<doc, mb, hist>>
MergeNext == \E side \in {"l", "r"}, op \in {"set", "remove"}, p \in MPaths, v \in MVals :
                 (op = "remove" => v = S(2)) /\ MEdit(side, op, p, v)

\* ---- what TLC checks on every triple
\* where the statement is unambiguous (objects only, streams ordered) the code's algorithm IS the declarative merge
MergeAgrees == Class(mb, ml, mr) = "strict" => MJ(mb, ml, mr) = M3(mb, ml, mr)
\* laws of the declarative merge (the statement): unchanged side, convergent sides, symmetry of conflicts
MergeLaws == /\ M3(mb, ml, mb) = Ok(ml) /\ M3(mb, mb, mr) = Ok(mr) /\ M3(mb, ml, ml) = Ok(ml)
             /\ M3(mb, ml, mr).conflict = M3(mb, mr, ml).conflict
             /\ (~M3(mb, ml, mr).conflict => M3(mb, ml, mr) = M3(mb, mr, ml))
\* the code's algorithm never invents a conflict the statement does not have, outside the named deviations
NoSpuriousConflict == (Class(mb, ml, mr) = "strict" /\ MJ(mb, ml, mr).conflict) => M3(mb, ml, mr).conflict
\* (NOT an invariant - kept as the design-level suspicion the engine must confirm on real code:)
\* HazardLosesEdit == Class(mb,ml,mr) = "hazard" => MJ(mb,ml,mr) = M3(mb,ml,mr)

\* small edit alphabet that reaches the hazard class with two left edits (cfg: MPaths <- MPathsH, MVals <- MValsH)
MPathsH == { <<MLeg(K1), MLeg(KX)>>, <<MLeg(K1), MLeg(K3)>>, <<MLeg(K2)>>, <<MLeg(K3)>>, <<MLeg(K1)>> }
MValsH == {S(2), S(3)}

MergeCase == [base |-> Out(mb), left |-> Out(ml), right |-> Out(mr), class |-> Class(mb, ml, mr),
              decl |-> [doc |-> Out(M3(mb, ml, mr).d), conflict |-> M3(mb, ml, mr).conflict],
              join |-> [doc |-> Out(MJ(mb, ml, mr).d), conflict |-> MJ(mb, ml, mr).conflict]]
EmitMerge == (EmitMod > 1 /\ RandomElement(1..EmitMod) # 1) \/ PrintT(ToJson(MergeCase))

\* the same checks evaluated once per state (M3 and MJ are computed once), plus the emission of the case
MergeCheck ==
    LET d == M3(mb, ml, mr) j == MJ(mb, ml, mr) c == Class(mb, ml, mr) sw == M3(mb, mr, ml) IN
    /\ c = "strict" => j = d
    /\ M3(mb, ml, mb) = Ok(ml) /\ M3(mb, mb, mr) = Ok(mr) /\ M3(mb, ml, ml) = Ok(ml)
    /\ d.conflict = sw.conflict /\ (~d.conflict => d = sw)
    /\ (EmitMod = 0 \/ (EmitMod > 1 /\ RandomElement(1..EmitMod) # 1)
          \/ PrintT(ToJson([base |-> Out(mb), left |-> Out(ml), right |-> Out(mr), class |-> c,
                            decl |-> [doc |-> Out(d.d), conflict |-> d.conflict],
                            join |-> [doc |-> Out(j.d), conflict |-> j.conflict]])))
=============================================================================
