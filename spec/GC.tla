--------------------------------- MODULE GC ---------------------------------
(* Online garbage collection of a dolt database with concurrent sessions (property C08).

   What is modelled, and the code each part transcribes (tree pinned in /repo):

     chunk store      nbs.GenerationalNBS = old generation + new generation (upstream tables) + novel chunks (memtable
                      and novel tables / journal) of the new generation; root of the new generation's manifest
                      (go/store/nbs/store.go: addChunk :1034, Get :1106, hasManyDep :1386, commit :1570, BeginGC :2248,
                      EndGC :2297, beginRead :2325, markAndSweepChunks :2362 (ErrNothingToCollect precheck),
                      markAndSweeper.SaveHashes :2474, swapTables :2705; generational_chunk_store.go BeginGC :552)
     value store      types.ValueStore: gcState, gcOut, gcNewAddrs, the decoded-value cache
                      (go/store/types/value_store.go: WriteValue :324, waitForNotFinalizingGC :414, transitionTo* :444-510,
                      gcAddChunk :512 (the keeper), readAndResetNewGenToVisit :525, Commit :542, GC :568, gc :740)
     root set         doltdb.DoltDB.GC (go/libraries/doltcore/doltdb/doltdb.go:2051): datasets read BEFORE the collection
                      starts, heads of branch/remote/internal refs -> old generation roots, everything else -> new
     safepoints       dprocedures.sessionAwareSafepointController (dolt_gc.go:169-206) on top of
                      gcctx.GCSafepointController (gc_safepoint_controller.go: Waiter :141, Wait :212,
                      SessionCommandBegin :256, SessionCommandEnd :304) and DoltSession.VisitGCRoots (dsess/session.go:873)
     sessions         SQL sessions: commands bracketed by SessionCommandBegin/End; inside a command they read chunks
                      (every read of a chunk of a collected generation takes a GC dependency through the keeper), write
                      chunks through ValueStore.WriteValue (bracketed by waitForNotFinalizingGC) or through
                      tree.NodeStore.Write (straight to ChunkStore.Put, NOT bracketed), and commit a new root.

   One action per critical section of the code. The collector is one thread with a program counter gpc; its actions
   are, in order: StartGC (doltdb.GC reads the datasets), ToOldGen, BeginGC, SafepointBegin, ReadRoot, MarkOld,
   ToNewGen, AddOldGenFiles, MarkNew, PreFinalize, MarkNext, SetFinalizing, TakeFinal (waits gcOut = 0), FinalMark,
   PostFinalize, Swap, EndGC (waits for outstanding reads), ToNoGC; CancelGC / CancelSafepoint / FinishCancel are the
   error path (also taken when the root is empty or nothing changed since the last collection).
   Session actions: CmdBegin, CmdEnd, RootRead, ReadBegin/ReadEnd (cache hit: ReadCached), PutTry/PutEnter/PutDo/PutEnd
   (WriteValue), PutRaw (NodeStore.Write), CommitTry/CommitEnter/CommitDo/CommitEnd, Resume (waitForGC returned),
   VisitDo (the safepoint controller's visit of a quiesced session), Forget.

   Every touch of a chunk of a generation that is being collected goes through Keeper(h) = gcAddChunk: it either
   records h (it will be marked before the swap) or -- gcState = Finalizing and gcOut = 0 -- tells the caller to block
   until the collection is over.

   Constant Bug selects a deliberately broken variant ("none" = the code as it is); the variants listed in the configs
   c08_gc_bug_*.cfg must violate NoLoss / NoErrs (non-vacuity of the invariants, and documentation of what each step of
   the protocol is for). *)
EXTENDS Integers, Sequences, FiniteSets, TLC, Json

CONSTANTS N,          \* chunks are 1..N; a chunk references only lower-numbered chunks
          Sessions,   \* SQL sessions (strings)
          Callers,    \* sessions that may call dolt_gc()
          Writers,    \* sessions that read and write chunks (the others only run commands and call dolt_gc)
          OldKind,    \* chunks that are "commits": when a dataset head, they are old-generation roots
          Modes,      \* subset of {"default", "full"}
          MaxGC,      \* collections that may be started
          Dag,        \* "all": every DAG over 1..N; otherwise the name of a fixed shape (see RefsOf)
          InitRoots,  \* the initial store roots considered (0 = empty store)
          RawPuts,    \* include NodeStore.Write-style puts (not bracketed by waitForNotFinalizingGC)
          ExtReads,   \* include reads of addresses that come from outside the store
          UseCache,   \* model the decoded-value / node caches (purged when a collection begins)
          Bug,        \* "none" | "skipFinalMark" | "skipVisit" | "noWaitGcOut" | "noKeeperOnCommit" | "noRecordInOldGen"
                      \* | "noAddOldGen" | "noKeeperOnRead" | "noPurge"
          Cancels,    \* include failing / cancelled collections
          Gated,      \* TRUE in generator configs: only interleavings that the engine can drive through its gates
          Coarse,     \* TRUE (with Gated) for the SQL-level engine: the real dolt_gc procedure has fewer park points and a
                      \* SQL statement is one unit (see CoarseAuto)
          D, RecordHist

Chunks == 1..N

VARIABLES
    refs,       \* [Chunks -> SUBSET Chunks], chosen in Init, never changes
    oldgen, newgen, novel,   \* chunk sets: old generation, upstream tables of the new generation, memtable + novel tables
    root,       \* root of the store (0 = empty)
    dirty,      \* hasLocalGCNovelty / manifest differs from the last gcGen
    lastGen,    \* mode recorded in the manifest's gcGen by the last swap ("none" at first)
    gcState, gcOut, gcNew,   \* ValueStore: gcState, gcOut, gcNewAddrs
    keeperOn, keeperOld,     \* NomsBlockStore.keeperFunc installed on the new generation / also on the old one (full)
    outReads,   \* gcOutstandingReads
    cache,      \* addresses whose decoded value is cached (ValueStore.decodedChunks / nodeStore cache)
    gpc, gmode, caller, oldRefs, newRefs, markedOld, markedNew, pend, waitFor, gcsLeft,
    cmd,        \* [Sessions -> BOOLEAN]: a command is outstanding (gcctx OutstandingCommand)
    know,       \* [Sessions -> SUBSET Chunks]: addresses the session holds in memory and may still use
    seen,       \* [Sessions -> 0..N]: the store root the session's next commit is based on
    op,         \* [Sessions -> operation in flight]
    visiting,   \* [Sessions -> BOOLEAN]: a visit of the session's roots is outstanding (QuiesceCallbackDone open)
    cb,         \* [Sessions -> BOOLEAN]: CommandEndCallback registered
    errs,       \* sticky set of things that must never happen: "stale" (a read returned a chunk the swap removed),
                \* "missing" (a chunk a session holds is not in the store), "dangling" (a commit or a mark found a dangling reference)
    last, hist

vars == <<refs, oldgen, newgen, novel, root, dirty, lastGen, gcState, gcOut, gcNew, keeperOn, keeperOld, outReads, cache,
          gpc, gmode, caller, oldRefs, newRefs, markedOld, markedNew, pend, waitFor, gcsLeft,
          cmd, know, seen, op, visiting, cb, errs, last, hist>>
view == <<refs, oldgen, newgen, novel, root, dirty, lastGen, gcState, gcOut, gcNew, keeperOn, keeperOld, outReads, cache,
          gpc, gmode, caller, oldRefs, newRefs, markedOld, markedNew, pend, waitFor, gcsLeft,
          cmd, know, seen, op, visiting, cb, errs>>

store == <<oldgen, newgen, novel, root, dirty, lastGen>>
vsv == <<gcState, gcOut, gcNew>>
nbsv == <<keeperOn, keeperOld, outReads>>
gcsets == <<oldRefs, newRefs, markedOld, markedNew, pend>>
gcctl == <<gpc, gmode, caller, waitFor, gcsLeft>>
gcv == <<gcsets, gcctl>>
sessv == <<cmd, know, seen, op, visiting, cb>>

-----------------------------------------------------------------------------
(* Reference graphs *)
AllDags == [Chunks -> SUBSET Chunks]
IsDag(r) == \A c \in Chunks : \A d \in r[c] : d < c
\* fixed shapes for the larger configs
RefsOf(name) ==
    CASE name = "chain"   -> [c \in Chunks |-> IF c = 1 THEN {} ELSE {c - 1}]
      [] name = "tree"    -> [c \in Chunks |-> IF c <= 2 THEN {} ELSE IF c = 3 THEN {1, 2} ELSE {c - 1}]
      \* 1,2 leaves; 3 = "commit" over 1; 4 = "working set value" over 2; 5 = root over 3 and 4; 6 = another root over 3
      [] name = "repo"    -> [c \in Chunks |-> CASE c = 3 -> {1} [] c = 4 -> {2} [] c = 5 -> {3, 4} [] c = 6 -> {3} [] OTHER -> {}]
      \* two values with a leaf each, a root over both
      [] name = "two"     -> [c \in Chunks |-> CASE c = 3 -> {1} [] c = 4 -> {2} [] c = 5 -> {3, 4} [] OTHER -> {}]
      [] OTHER            -> [c \in Chunks |-> {}]

RECURSIVE ClosureR(_, _)
ClosureR(S, acc) == LET new == S \ acc
                    IN IF new = {} THEN acc ELSE ClosureR(UNION {refs[c] : c \in new}, acc \cup new)
Closure(S) == ClosureR(S, {})
\* the mark phase of markAndSweeper.SaveHashes: start from S, never visit (nor descend into) chunks of stop
RECURSIVE WalkR(_, _, _)
WalkR(S, stop, acc) == LET new == (S \ stop) \ acc
                       IN IF new = {} THEN acc ELSE WalkR(UNION {refs[c] : c \in new}, stop, acc \cup new)
Walk(S, stop) == WalkR(S, stop, {})

Present == oldgen \cup newgen \cup novel
RootSet == IF root = 0 THEN {} ELSE {root}

-----------------------------------------------------------------------------
(* Operation records *)
NoOp == [k |-> "none", c |-> 0, st |-> "", rk |-> FALSE, rs |-> FALSE, ex |-> FALSE]
Op(k, c, st) == [k |-> k, c |-> c, st |-> st, rk |-> FALSE, rs |-> FALSE, ex |-> FALSE]
Idle(s) == op[s] = NoOp
InCmd(s) == cmd[s] /\ Idle(s)
Blocked(s) == op[s].st \in {"waitfin", "blocked"}

(* The keeper = ValueStore.gcAddChunk *)
KBlocks == gcState = "Finalizing" /\ gcOut = 0
Records == ~(Bug = "noRecordInOldGen" /\ gcState = "OldGen")
\* which keeper sees a read: GenerationalNBS.Get asks the old generation first (generational_chunk_store.go:89)
KeeperFor(c) == IF c \in oldgen THEN keeperOld ELSE keeperOn
Recorded(S) == IF Records THEN gcNew \cup S ELSE gcNew
Cached(S) == IF UseCache THEN cache \cup S ELSE cache

-----------------------------------------------------------------------------
(* History *)
SessSt(s) == IF op[s].k = "none" THEN (IF cmd[s] THEN "cmd" ELSE "idle") ELSE op[s].k \o ":" \o op[s].st
Proj == [gs |-> gcState, out |-> gcOut, new |-> gcNew, kp |-> keeperOn, kpo |-> keeperOld, rd |-> outReads,
         root |-> root, pres |-> Present, old |-> oldgen, nov |-> novel, gpc |-> gpc, mode |-> gmode,
         ss |-> [s \in Sessions |-> SessSt(s)], vis |-> {s \in Sessions : visiting[s]}, cb |-> {s \in Sessions : cb[s]},
         know |-> know, seen |-> seen, refs |-> refs, mo |-> markedOld, mn |-> markedNew]
Step(a, s, args, res) == [a |-> a, s |-> s, args |-> args, res |-> res]
Rec(st) == /\ last' = st
           /\ hist' = IF RecordHist THEN Append(hist, [a |-> st.a, s |-> st.s, args |-> st.args, res |-> st.res, exp |-> Proj']) ELSE hist
NoArgs == <<>>

\* simulation steering (RecordHist = TRUE): one draw per parameter, derived from the state and the step number (TLC's
\* RandomElement repeats the same sequence of draws in every behaviour); salt separates the draw sites of one state.
\* Exhaustive configs (RecordHist = FALSE) take every value.
Mix(salt) == Len(hist) * 7919 + gcOut * 131 + Cardinality(newgen) * 31 + Cardinality(novel) * 17 + Cardinality(gcNew) * 13
             + Cardinality(markedNew) * 7 + Cardinality(UNION {know[s] : s \in Sessions}) * 5 + Cardinality({s \in Sessions : cmd[s]}) * 3
             + Cardinality(cache) * 11 + root + salt * 97 + salt * salt * 13
Rnd(n, salt) == (Mix(salt) % n) + 1
RECURSIVE NthOf(_, _)
NthOf(S, n) == LET x == CHOOSE y \in S : TRUE IN IF n <= 1 THEN x ELSE NthOf(S \ {x}, n - 1)
Pick(S, salt) == IF RecordHist THEN (IF S = {} THEN {} ELSE {NthOf(S, Rnd(Cardinality(S), salt))}) ELSE S
Rarely(n, salt) == ~RecordHist \/ Rnd(n, salt) = 1

-----------------------------------------------------------------------------
Init ==
    /\ refs \in (IF Dag = "all" THEN {r \in AllDags : IsDag(r)} ELSE {RefsOf(Dag)})
    /\ root \in InitRoots
    /\ \E old \in {{}, Closure(IF root = 0 THEN {} ELSE refs[root] \cap OldKind)} :
       \E g \in {{}} \cup {{c} : c \in {x \in Chunks : x \notin Closure(RootSet) /\ refs[x] \subseteq Closure(RootSet)}} :
          /\ oldgen = old
          /\ newgen = (Closure(RootSet) \cup g) \ old
    /\ novel = {}
    /\ dirty = TRUE /\ lastGen = "none"
    /\ gcState = "NoGC" /\ gcOut = 0 /\ gcNew = {}
    /\ keeperOn = FALSE /\ keeperOld = FALSE /\ outReads = 0
    /\ cache = {}
    /\ gpc = "idle" /\ gmode = "default" /\ caller = CHOOSE s \in Callers : TRUE
    /\ oldRefs = {} /\ newRefs = {} /\ markedOld = {} /\ markedNew = {} /\ pend = {} /\ waitFor = {}
    /\ gcsLeft = MaxGC
    /\ cmd = [s \in Sessions |-> FALSE]
    /\ know = [s \in Sessions |-> {}]
    /\ seen = [s \in Sessions |-> 0]
    /\ op = [s \in Sessions |-> NoOp]
    /\ visiting = [s \in Sessions |-> FALSE]
    /\ cb = [s \in Sessions |-> FALSE]
    /\ errs = {}
    /\ last = Step("Init", "", NoArgs, "ok")
    /\ hist = IF RecordHist THEN <<[a |-> "Init", s |-> "", args |-> NoArgs, res |-> "ok", exp |-> Proj]>> ELSE <<>>

-----------------------------------------------------------------------------
(* Sessions: commands *)
\* gcctx.SessionCommandBegin: blocks while a visit of this session is outstanding
CmdBegin(s) ==
    /\ ~cmd[s] /\ ~visiting[s]
    /\ cmd' = [cmd EXCEPT ![s] = TRUE]
    /\ UNCHANGED <<refs, store, vsv, nbsv, cache, gcv, know, seen, op, visiting, cb, errs>>
    /\ Rec(Step("CmdBegin", s, NoArgs, "ok"))
\* gcctx.SessionCommandEnd: runs the CommandEndCallback (the visit starts: BeginOutstandingVisitCall + goroutine)
CmdEnd(s) ==
    /\ InCmd(s)
    /\ cmd' = [cmd EXCEPT ![s] = FALSE]
    /\ visiting' = [visiting EXCEPT ![s] = cb[s]]
    /\ cb' = [cb EXCEPT ![s] = FALSE]
    /\ UNCHANGED <<refs, store, vsv, nbsv, cache, gcv, know, seen, op, errs>>
    /\ Rec(Step("CmdEnd", s, NoArgs, "ok"))
\* the goroutine started by Waiter / SessionCommandEnd: sess.VisitGCRoots(ctx, db, keeper): every root goes to the keeper
\* (DoltSession.VisitGCRoots panics if the keeper says "block": it cannot, the collector is not finalizing yet).
\* After a cancelled collection (gpc = "cancel") the visit still completes (Wait blocks for started callbacks).
VisitDo(s) ==
    /\ visiting[s]
    /\ visiting' = [visiting EXCEPT ![s] = FALSE]
    /\ waitFor' = waitFor \ {s}
    /\ gcNew' = IF keeperOn /\ Bug # "skipVisit" THEN Recorded(know[s]) ELSE gcNew
    /\ UNCHANGED <<refs, store, gcState, gcOut, nbsv, cache, gcsets, gpc, gmode, caller, gcsLeft, cmd, know, seen, op, cb, errs>>
    /\ Rec(Step("VisitDo", s, [roots |-> know[s]], "ok"))
\* the session drops what it holds (rollback, end of transaction)
Forget(s) ==
    /\ InCmd(s) /\ know[s] # {}
    /\ know' = [know EXCEPT ![s] = {}]
    /\ UNCHANGED <<refs, store, vsv, nbsv, cache, gcv, cmd, seen, op, visiting, cb, errs>>
    /\ Rec(Step("Forget", s, NoArgs, "ok"))

(* Sessions: reads *)
\* ChunkStore.Root(): no keeper involved. NAMED GAP of the protocol: the address of the root chunk is handed out without
\* a GC dependency; the session is protected only from the moment it READS that chunk (datas.database reads it right
\* after Root()). Until then the address is like one that came from outside: if another commit replaces the root and a
\* collection finalizes in between, the read finds nothing (datas: "root hash doesn't exist", the command fails).
RootRead(s) ==
    /\ InCmd(s) /\ seen[s] # root
    /\ seen' = [seen EXCEPT ![s] = root]
    /\ UNCHANGED <<refs, store, vsv, nbsv, cache, gcv, cmd, know, op, visiting, cb, errs>>
    /\ Rec(Step("RootRead", s, NoArgs, "ok"))
\* ValueStore.ReadValue / NodeStore.Read served from the cache: the chunk store is not asked, no keeper
ReadCached(s, c) ==
    /\ InCmd(s) /\ c \in know[s] /\ c \in cache /\ ~(refs[c] \subseteq know[s])
    /\ know' = [know EXCEPT ![s] = know[s] \cup refs[c]]
    /\ UNCHANGED <<refs, store, vsv, nbsv, cache, gcv, cmd, seen, op, visiting, cb, errs>>
    /\ Rec(Step("ReadCached", s, [c |-> c], "ok"))
\* NomsBlockStore.Get, first half (under nbs.mu): capture keeperFunc, beginRead, acquire the table set.
\* ext = the address did not come from the store but from outside (a hash typed by the user: AS OF '<hash>', dolt_checkout
\* <hash>, ...): such a read may legitimately find nothing; if it finds the chunk the keeper protects it from then on.
ReadBegin(s, c, ext) ==
    /\ InCmd(s) /\ c \notin cache /\ (IF ext THEN c \notin know[s] ELSE c \in know[s] /\ ~(refs[c] \subseteq know[s]))
    /\ op' = [op EXCEPT ![s] = [Op("read", c, "inflight") EXCEPT !.rk = KeeperFor(c), !.ex = ext]]
    /\ outReads' = IF KeeperFor(c) THEN outReads + 1 ELSE outReads
    /\ UNCHANGED <<refs, store, vsv, keeperOn, keeperOld, cache, gcv, cmd, know, seen, visiting, cb, errs>>
    /\ Rec(Step("ReadBegin", s, [c |-> c, ext |-> ext], "ok"))
\* second half (unlocked): look the chunk up in the acquired tables, call the captured keeper on it, endRead.
\* rs = the swap happened in between: the acquired (old) tables still hold a chunk the swap dropped.
ReadEnd(s) ==
    LET o == op[s]  c == o.c
        found == c \in Present \/ o.rs
        kcall == o.rk /\ found /\ Bug # "noKeeperOnRead"
    IN
    /\ o.k = "read" /\ o.st = "inflight"
    /\ UNCHANGED <<refs, store, gcState, gcOut, keeperOn, keeperOld, gcv, cmd, seen, visiting, cb>>
    /\ outReads' = IF o.rk THEN outReads - 1 ELSE outReads
    /\ IF kcall /\ KBlocks
       THEN \* gcBehavior_Block: endRead, waitForGC, retry
            /\ op' = [op EXCEPT ![s] = [Op("read", c, "blocked") EXCEPT !.ex = o.ex]]
            /\ UNCHANGED <<gcNew, know, cache, errs>>
            /\ Rec(Step("ReadEnd", s, [c |-> c], "blocked"))
       ELSE /\ op' = [op EXCEPT ![s] = NoOp]
            /\ gcNew' = IF kcall THEN Recorded({c}) ELSE gcNew
            /\ IF found
               THEN /\ know' = [know EXCEPT ![s] = know[s] \cup {c} \cup refs[c]]
                    /\ cache' = Cached({c})
                    /\ errs' = IF c \notin Present THEN errs \cup {"stale"} ELSE errs
                    /\ Rec(Step("ReadEnd", s, [c |-> c], "ok"))
               ELSE /\ UNCHANGED <<know, cache>>
                    /\ errs' = IF o.ex THEN errs ELSE errs \cup {"missing"}
                    /\ Rec(Step("ReadEnd", s, [c |-> c], IF o.ex THEN "notfound" ELSE "missing"))

(* Sessions: ValueStore.WriteValue = waitForNotFinalizingGC { ChunkStore.Put } *)
CanWrite(s, c) == InCmd(s) /\ refs[c] \subseteq know[s]
PutTry(s, c) ==
    /\ CanWrite(s, c)
    /\ UNCHANGED <<refs, store, gcState, gcNew, nbsv, cache, gcv, cmd, know, seen, visiting, cb, errs>>
    /\ IF gcState = "Finalizing"
       THEN /\ op' = [op EXCEPT ![s] = Op("putvs", c, "waitfin")] /\ UNCHANGED gcOut
            /\ Rec(Step("PutTry", s, [c |-> c, refs |-> refs[c]], "waitfin"))
       ELSE /\ op' = [op EXCEPT ![s] = Op("putvs", c, "in")] /\ gcOut' = gcOut + 1
            /\ Rec(Step("PutTry", s, [c |-> c, refs |-> refs[c]], "in"))
\* waitForNotFinalizingGC returns: gcState left Finalizing
WriteEnter(s) ==
    /\ op[s].st = "waitfin" /\ gcState # "Finalizing"
    /\ op' = [op EXCEPT ![s].st = "in"]
    /\ gcOut' = gcOut + 1
    /\ UNCHANGED <<refs, store, gcState, gcNew, nbsv, cache, gcv, cmd, know, seen, visiting, cb, errs>>
    /\ Rec(Step("WriteEnter", s, [k |-> op[s].k], "ok"))
\* NomsBlockStore.addChunk under nbs.mu: memtable.addChunk, keeper(h). Inside the bracket gcOut > 0, so the keeper records.
PutDo(s) ==
    LET c == op[s].c IN
    /\ op[s].k = "putvs" /\ op[s].st = "in"
    /\ novel' = novel \cup {c}
    /\ dirty' = TRUE
    /\ gcNew' = IF keeperOn THEN Recorded({c}) ELSE gcNew
    /\ UNCHANGED cache
    /\ op' = [op EXCEPT ![s].st = "done"]
    /\ know' = [know EXCEPT ![s] = know[s] \cup {c}]
    /\ UNCHANGED <<refs, oldgen, newgen, root, lastGen, gcState, gcOut, nbsv, gcv, cmd, seen, visiting, cb, errs>>
    /\ Rec(Step("PutDo", s, [c |-> c], "ok"))
\* WriteValue caches the value it wrote (after ChunkStore.Put returned), then the finalizer returned by
\* waitForNotFinalizingGC runs
WriteEnd(s) ==
    /\ op[s].k \in {"putvs", "commit"} /\ op[s].st = "done"
    /\ gcOut' = gcOut - 1
    /\ cache' = IF op[s].k = "putvs" THEN Cached({op[s].c}) ELSE cache
    /\ op' = [op EXCEPT ![s] = NoOp]
    /\ UNCHANGED <<refs, store, gcState, gcNew, nbsv, gcv, cmd, know, seen, visiting, cb, errs>>
    /\ Rec(Step("WriteEnd", s, [k |-> op[s].k], "ok"))

\* tree.NodeStore.Write: ChunkStore.Put without the bracket. memtable.addChunk first, then the keeper; if it says block:
\* waitForGC and retry (after a swap the memtable is gone and the chunk is added again). (The node cache is not modelled
\* separately: cache stands for ValueStore.decodedChunks.)
PutRaw(s, c) ==
    /\ RawPuts /\ CanWrite(s, c)
    /\ UNCHANGED <<refs, oldgen, newgen, root, lastGen, gcState, gcOut, nbsv, gcv, cmd, seen, visiting, cb, errs>>
    /\ novel' = novel \cup {c}
    /\ dirty' = TRUE
    /\ IF keeperOn /\ KBlocks
       THEN /\ op' = [op EXCEPT ![s] = Op("putns", c, "blocked")]
            /\ UNCHANGED <<gcNew, know, cache>>
            /\ Rec(Step("PutRaw", s, [c |-> c, refs |-> refs[c]], "blocked"))
       ELSE /\ gcNew' = IF keeperOn THEN Recorded({c}) ELSE gcNew
            /\ know' = [know EXCEPT ![s] = know[s] \cup {c}]
            /\ UNCHANGED <<op, cache>>
            /\ Rec(Step("PutRaw", s, [c |-> c, refs |-> refs[c]], "ok"))
\* waitForGC returned (the cycle is over): the blocked call retries, now without a keeper
Resume(s) ==
    LET c == op[s].c IN
    /\ op[s].st = "blocked" /\ ~keeperOn
    /\ UNCHANGED <<refs, oldgen, newgen, root, lastGen, vsv, nbsv, gcv, cmd, seen, visiting, cb>>
    /\ op' = [op EXCEPT ![s] = NoOp]
    /\ IF op[s].k = "putns"
       THEN /\ novel' = novel \cup {c} /\ dirty' = TRUE
            /\ know' = [know EXCEPT ![s] = know[s] \cup {c}]
            /\ UNCHANGED <<errs, cache>>
            /\ Rec(Step("Resume", s, [k |-> "putns", c |-> c], "ok"))
       ELSE \* read: look again in the current tables
            /\ UNCHANGED <<novel, dirty>>
            /\ IF c \in Present
               THEN /\ know' = [know EXCEPT ![s] = know[s] \cup {c} \cup refs[c]] /\ cache' = Cached({c}) /\ UNCHANGED errs
                    /\ Rec(Step("Resume", s, [k |-> "read", c |-> c], "ok"))
               ELSE /\ UNCHANGED <<know, cache>>
                    /\ errs' = IF op[s].ex THEN errs ELSE errs \cup {"missing"}
                    /\ Rec(Step("Resume", s, [k |-> "read", c |-> c], IF op[s].ex THEN "notfound" ELSE "missing"))

(* Sessions: ValueStore.Commit = waitForNotFinalizingGC { NomsBlockStore.commit } *)
CommitTry(s, r) ==
    /\ InCmd(s) /\ r \in know[s] /\ r # seen[s]
    /\ UNCHANGED <<refs, store, gcState, gcNew, nbsv, cache, gcv, cmd, know, seen, visiting, cb, errs>>
    /\ IF gcState = "Finalizing"
       THEN /\ op' = [op EXCEPT ![s] = Op("commit", r, "waitfin")] /\ UNCHANGED gcOut
            /\ Rec(Step("CommitTry", s, [r |-> r, last |-> seen[s]], "waitfin"))
       ELSE /\ op' = [op EXCEPT ![s] = Op("commit", r, "in")] /\ gcOut' = gcOut + 1
            /\ Rec(Step("CommitTry", s, [r |-> r, last |-> seen[s]], "in"))
\* nbs.commit under nbs.mu: keeper(current); last # root: fail (the caller rebases); flush the memtable with the
\* dangling-reference check; errorIfDangling(current); manifest update: novel tables become upstream
CommitDo(s) ==
    LET r == op[s].c
        dangling == (\E c \in novel \cup {r} : ~(refs[c] \subseteq Present)) \/ r \notin Present
    IN
    /\ op[s].k = "commit" /\ op[s].st = "in"
    /\ UNCHANGED <<refs, gcState, gcOut, nbsv, cache, gcv, cmd, visiting, cb>>
    /\ op' = [op EXCEPT ![s].st = "done"]
    \* keeper(current); and, when the memtable is flushed (tableSet.append -> Persist with the table set as "haver"): a
    \* memtable chunk that the new generation's tables already hold is not written again -- the keeper is told about the
    \* existing copy instead
    /\ gcNew' = IF ~keeperOn THEN gcNew
              ELSE Recorded((IF Bug # "noKeeperOnCommit" THEN {r} ELSE {}) \cup (IF root = seen[s] /\ ~dangling THEN novel \cap newgen ELSE {}))
    /\ IF root # seen[s]
       THEN /\ seen' = [seen EXCEPT ![s] = root]
            /\ UNCHANGED <<oldgen, newgen, novel, root, dirty, lastGen, errs, know>>
            /\ Rec(Step("CommitDo", s, [r |-> r], "moved"))
       ELSE IF dangling
       THEN \* ErrDanglingRef: the memtable is thrown away
            /\ novel' = {} /\ UNCHANGED <<oldgen, newgen, root, dirty, lastGen, seen, know>>
            /\ errs' = errs \cup {"dangling"}
            /\ Rec(Step("CommitDo", s, [r |-> r], "dangling"))
       ELSE /\ root' = r /\ newgen' = newgen \cup novel /\ novel' = {} /\ dirty' = TRUE
            /\ seen' = [seen EXCEPT ![s] = r]
            /\ UNCHANGED <<oldgen, lastGen, know, errs>>
            /\ Rec(Step("CommitDo", s, [r |-> r], "ok"))

-----------------------------------------------------------------------------
(* The collector *)
SU == UNCHANGED <<refs, cmd, know, seen, visiting, cb>>      \* session state no collector step but SafepointBegin / FinishCancel touches

\* doltdb.DoltDB.GC: datasets.IterAll over the CURRENT root: branch/remote/internal heads -> oldGen, the rest -> newGen
StartGC(s, m) ==
    /\ gpc = "idle" /\ gcsLeft > 0 /\ s \in Callers /\ m \in Modes /\ InCmd(s)
    /\ gpc' = "toOld" /\ gmode' = m /\ caller' = s /\ gcsLeft' = gcsLeft - 1
    /\ oldRefs' = IF root = 0 THEN {} ELSE refs[root] \cap OldKind
    /\ newRefs' = IF root = 0 THEN {} ELSE refs[root] \ OldKind
    /\ op' = [op EXCEPT ![s] = Op("gc", 0, "run")]
    /\ UNCHANGED <<store, vsv, nbsv, cache, markedOld, markedNew, pend, waitFor, errs>> /\ SU
    /\ Rec(Step("StartGC", s, [mode |-> m, old |-> oldRefs', new |-> newRefs'], "ok"))
GStep(name, res) == Rec(Step(name, caller, NoArgs, res))
\* transitionToOldGenGC (waits for NoGC)
ToOldGen ==
    /\ gpc = "toOld" /\ gcState = "NoGC"
    /\ gcState' = "OldGen" /\ gpc' = "begin"
    /\ UNCHANGED <<store, gcOut, gcNew, nbsv, cache, gcsets, gmode, caller, waitFor, gcsLeft, op, errs>> /\ SU
    /\ GStep("ToOldGen", "ok")
\* GenerationalNBS.BeginGC: keeper on the new generation; full: on the old one too
BeginGC ==
    /\ gpc = "begin"
    /\ keeperOn' = TRUE /\ keeperOld' = (gmode = "full") /\ gpc' = "sp"
    /\ UNCHANGED <<store, vsv, outReads, cache, gcsets, gmode, caller, waitFor, gcsLeft, op, errs>> /\ SU
    /\ GStep("BeginGC", "ok")
\* sessionAwareSafepointController.BeginGC: PurgeCaches; visit the calling session; Waiter: quiesced sessions are
\* visited at once (their visit starts), sessions with an outstanding command get a CommandEndCallback
SafepointBegin ==
    LET others == Sessions \ {caller} IN
    /\ gpc = "sp"
    /\ cache' = IF Bug = "noPurge" THEN cache ELSE {}
    /\ gcNew' = IF Bug = "skipVisit" THEN gcNew ELSE Recorded(know[caller])
    /\ visiting' = [s \in Sessions |-> IF s \in others /\ ~cmd[s] THEN TRUE ELSE visiting[s]]
    /\ cb' = [s \in Sessions |-> IF s \in others /\ cmd[s] THEN TRUE ELSE cb[s]]
    /\ waitFor' = others
    /\ gpc' = "root"
    /\ UNCHANGED <<store, gcState, gcOut, nbsv, gcsets, gmode, caller, gcsLeft, op, refs, cmd, know, seen, errs>>
    /\ Rec(Step("SafepointBegin", caller, [roots |-> know[caller]], "ok"))
\* lvs.Root(); an empty root ends the collection at once
ReadRoot ==
    /\ gpc = "root"
    /\ UNCHANGED <<store, vsv, nbsv, cache, oldRefs, markedOld, markedNew, pend, gmode, caller, waitFor, gcsLeft, op, errs>> /\ SU
    /\ IF root = 0 THEN gpc' = "cancel" /\ UNCHANGED newRefs /\ GStep("ReadRoot", "empty")
       ELSE gpc' = "markOld" /\ newRefs' = newRefs \cup {root} /\ GStep("ReadRoot", "ok")
\* MarkAndSweepChunks precheck + SaveHashes(oldGenRefs): copy into a table file for the old generation everything
\* reachable from the old roots that the old generation lacks (full: everything reachable)
NothingToCollect == ~dirty /\ (lastGen = "full" \/ (lastGen = "default" /\ gmode = "default"))
OldFilter == IF gmode = "full" THEN {} ELSE oldgen
MarkOld ==
    /\ gpc = "markOld"
    /\ UNCHANGED <<store, vsv, nbsv, cache, oldRefs, newRefs, markedNew, pend, gmode, caller, waitFor, gcsLeft, op>> /\ SU
    /\ IF NothingToCollect
       THEN gpc' = "cancel" /\ UNCHANGED <<markedOld, errs>> /\ GStep("MarkOld", "nothing")
       ELSE IF ~(Walk(oldRefs, OldFilter) \subseteq Present)
       THEN gpc' = "cancel" /\ UNCHANGED markedOld /\ errs' = errs \cup {"dangling"} /\ GStep("MarkOld", "err:dangling")
       ELSE gpc' = "toNew" /\ markedOld' = Walk(oldRefs, OldFilter) /\ UNCHANGED errs /\ GStep("MarkOld", "ok")
\* transitionToNewGenGC: the addresses the keeper collected so far become new-generation roots
ToNewGen ==
    /\ gpc = "toNew"
    /\ gcState' = "NewGen" /\ newRefs' = newRefs \cup gcNew /\ gcNew' = {} /\ gpc' = "addOld"
    /\ UNCHANGED <<store, gcOut, nbsv, cache, oldRefs, markedOld, markedNew, pend, gmode, caller, waitFor, gcsLeft, op, errs>> /\ SU
    /\ GStep("ToNewGen", "ok")
\* oldGenFinalizer.AddChunksToStore: the new table file joins the old generation's manifest
AddOldGenFiles ==
    /\ gpc = "addOld"
    /\ oldgen' = IF Bug = "noAddOldGen" THEN oldgen ELSE oldgen \cup markedOld
    /\ gpc' = "markNew"
    /\ UNCHANGED <<newgen, novel, root, dirty, lastGen, vsv, nbsv, cache, gcsets, gmode, caller, waitFor, gcsLeft, op, errs>> /\ SU
    /\ GStep("AddOldGenFiles", "ok")
\* the filter of the second pass: default: whatever the old generation holds now; full: the file just written
NewFilter == IF gmode = "full" THEN markedOld ELSE (IF Bug = "noAddOldGen" THEN oldgen \cup markedOld ELSE oldgen)
MarkMore(S, next) ==
    IF ~(Walk(S, NewFilter \cup markedNew) \subseteq Present)
    THEN gpc' = "cancel" /\ UNCHANGED markedNew /\ errs' = errs \cup {"dangling"}
    ELSE gpc' = next /\ markedNew' = markedNew \cup Walk(S, NewFilter \cup markedNew) /\ UNCHANGED errs
MarkNew ==
    /\ gpc = "markNew"
    /\ MarkMore(newRefs, "preFin")
    /\ UNCHANGED <<store, vsv, nbsv, cache, oldRefs, newRefs, markedOld, pend, gmode, caller, waitFor, gcsLeft, op>> /\ SU
    /\ GStep("MarkNew", IF gpc' = "cancel" THEN "err:dangling" ELSE "ok")
\* EstablishPreFinalizeSafepoint = waiter.Wait: every session known when the waiter was made has been visited; then
\* readAndResetNewGenToVisit takes what the keeper has collected so far
PreFinalize ==
    /\ gpc = "preFin" /\ (waitFor = {} \/ Bug = "skipVisit")
    /\ gpc' = "markNext" /\ pend' = gcNew /\ gcNew' = {}
    /\ UNCHANGED <<store, gcState, gcOut, nbsv, cache, oldRefs, newRefs, markedOld, markedNew, gmode, caller, waitFor, gcsLeft, op, errs>> /\ SU
    /\ GStep("PreFinalize", "ok")
\* SaveHashes of those
MarkNext ==
    /\ gpc = "markNext"
    /\ MarkMore(pend, "toFin")
    /\ pend' = {}
    /\ UNCHANGED <<store, vsv, nbsv, cache, oldRefs, newRefs, markedOld, gmode, caller, waitFor, gcsLeft, op>> /\ SU
    /\ GStep("MarkNext", IF gpc' = "cancel" THEN "err:dangling" ELSE "ok")
\* transitionToFinalizingGC, first half: new brackets cannot be entered any more
SetFinalizing ==
    /\ gpc = "toFin"
    /\ gcState' = "Finalizing" /\ gpc' = "waitOut"
    /\ UNCHANGED <<store, gcOut, gcNew, nbsv, cache, gcsets, gmode, caller, waitFor, gcsLeft, op, errs>> /\ SU
    /\ GStep("SetFinalizing", "ok")
\* second half: wait until every bracket that was open has closed, then take what the keeper collected
TakeFinal ==
    /\ gpc = "waitOut" /\ (gcOut = 0 \/ Bug = "noWaitGcOut")
    /\ pend' = gcNew /\ gcNew' = {} /\ gpc' = "finalMark"
    /\ UNCHANGED <<store, gcState, gcOut, nbsv, cache, oldRefs, newRefs, markedOld, markedNew, gmode, caller, waitFor, gcsLeft, op, errs>> /\ SU
    /\ GStep("TakeFinal", "ok")
FinalMark ==
    /\ gpc = "finalMark"
    /\ IF Bug = "skipFinalMark" THEN gpc' = "postFin" /\ UNCHANGED <<markedNew, errs>> ELSE MarkMore(pend, "postFin")
    /\ UNCHANGED <<store, vsv, nbsv, cache, oldRefs, newRefs, markedOld, pend, gmode, caller, waitFor, gcsLeft, op>> /\ SU
    /\ GStep("FinalMark", IF gpc' = "cancel" THEN "err:dangling" ELSE "ok")
\* EstablishPostFinalizeSafepoint (a no-op of the session-aware controller)
PostFinalize ==
    /\ gpc = "postFin"
    /\ gpc' = "swap"
    /\ UNCHANGED <<store, vsv, nbsv, cache, gcsets, gmode, caller, waitFor, gcsLeft, op, errs>> /\ SU
    /\ GStep("PostFinalize", "ok")
\* sweeper.Finalize + SwapChunksInStore = swapTables: the new generation becomes exactly the table file(s) written by the
\* marks; novel tables and the memtable are dropped; reads that hold the old table set are stale from now on. Full: the
\* old generation is swapped to its new file as well.
Swap ==
    /\ gpc = "swap"
    /\ newgen' = markedNew /\ novel' = {}
    /\ oldgen' = IF gmode = "full" THEN markedOld ELSE oldgen
    /\ dirty' = FALSE /\ lastGen' = gmode
    /\ op' = [s \in Sessions |-> IF op[s].k = "read" /\ op[s].st = "inflight" /\ op[s].c \in Present THEN [op[s] EXCEPT !.rs = TRUE] ELSE op[s]]
    /\ gpc' = "endgc"
    /\ UNCHANGED <<root, vsv, nbsv, cache, gcsets, gmode, caller, waitFor, gcsLeft, errs>> /\ SU
    /\ GStep("Swap", "ok")
\* GenerationalNBS.EndGC: waits for outstanding reads; keeper removed; waiters of waitForGC wake up
EndGC ==
    /\ gpc = "endgc" /\ outReads = 0
    /\ keeperOn' = FALSE /\ keeperOld' = FALSE /\ gpc' = "noGC"
    /\ UNCHANGED <<store, vsv, outReads, cache, gcsets, gmode, caller, waitFor, gcsLeft, op, errs>> /\ SU
    /\ GStep("EndGC", "ok")
\* PruneTableFiles + transitionToNoGC
ToNoGC ==
    /\ gpc = "noGC"
    /\ gcState' = "NoGC" /\ gcNew' = {} /\ gpc' = "idle"
    /\ oldRefs' = {} /\ newRefs' = {} /\ markedOld' = {} /\ markedNew' = {} /\ pend' = {}
    /\ op' = [op EXCEPT ![caller] = NoOp]
    /\ UNCHANGED <<store, gcOut, nbsv, cache, gmode, caller, waitFor, gcsLeft, errs>> /\ SU
    /\ GStep("ToNoGC", "ok")
\* error / cancellation at any point before the swap: CancelSafepoint (callbacks dropped, started visits complete),
\* EndGC, transitionToNoGC. Nothing was removed.
CancelGC ==
    /\ gpc \in {"begin", "sp", "root", "markOld", "toNew", "addOld", "markNew", "preFin", "markNext", "finalMark", "postFin", "swap"}
    /\ Cancels /\ Rarely(40, 3)
    /\ gpc' = "cancel"
    /\ UNCHANGED <<store, vsv, nbsv, cache, gcsets, gmode, caller, waitFor, gcsLeft, op, errs>> /\ SU
    /\ GStep("CancelGC", "ok")
\* the deferred CancelSafepoint: waiter.Wait with a cancelled context drops the registered CommandEnd callbacks at once
\* (then waits for the visits that have started)
CancelSafepoint ==
    /\ gpc = "cancel"
    /\ cb' = [s \in Sessions |-> FALSE] /\ gpc' = "cancelWait"
    /\ UNCHANGED <<store, vsv, nbsv, cache, gcsets, gmode, caller, waitFor, gcsLeft, op, errs, refs, cmd, know, seen, visiting>>
    /\ GStep("CancelSafepoint", "ok")
FinishCancel ==
    /\ gpc = "cancelWait" /\ outReads = 0 /\ \A s \in Sessions : ~visiting[s]
    /\ UNCHANGED cb /\ waitFor' = {}
    /\ keeperOn' = FALSE /\ keeperOld' = FALSE
    /\ gcState' = "NoGC" /\ gcNew' = {} /\ gpc' = "idle"
    /\ oldRefs' = {} /\ newRefs' = {} /\ markedOld' = {} /\ markedNew' = {} /\ pend' = {}
    /\ op' = [op EXCEPT ![caller] = NoOp]
    /\ UNCHANGED <<store, gcOut, outReads, cache, gmode, caller, gcsLeft, refs, cmd, know, seen, visiting, errs>>
    /\ GStep("FinishCancel", "ok")

GCNext == \/ ToOldGen \/ BeginGC \/ SafepointBegin \/ ReadRoot \/ MarkOld \/ ToNewGen \/ AddOldGenFiles \/ MarkNew
          \/ PreFinalize \/ MarkNext \/ SetFinalizing \/ TakeFinal \/ FinalMark \/ PostFinalize \/ Swap \/ EndGC \/ ToNoGC
          \/ CancelGC \/ CancelSafepoint \/ FinishCancel

\* Gated = TRUE (generator configs of the G binding): steps that the real code takes by itself as soon as they are
\* enabled, and steps between which the engine has no park point, happen at once:
\*   the second half of NomsBlockStore.Get follows the first; transitionToFinalizingGC follows the SaveHashes before it and
\*   takes the final addresses the moment gcOut = 0; a call blocked in waitForGC retries when EndGC broadcasts; a call
\*   blocked in waitForNotFinalizingGC enters its bracket when the state leaves Finalizing.
ReadInFlight == \E s \in Sessions : op[s].k = "read" /\ op[s].st = "inflight"
AutoGC == gpc = "toFin" \/ (gpc = "waitOut" /\ gcOut = 0) \/ gpc = "cancel" \/ (gpc = "cancelWait" /\ \A s \in Sessions : ~visiting[s])
\* Coarse: doltdb.GC runs from the dataset read to BeginGC in one go; the real safepoint controller begins, visits
\* quiesced sessions and waits without any park point; PostFinalize is a no-op; a write is a whole SQL statement.
CoarseGC == Coarse /\ (gpc \in {"toOld", "sp", "postFin"} \/ (gpc = "preFin" /\ waitFor = {}))
CoarseVisit == Coarse /\ \E s \in Sessions : visiting[s]
CoarseWrite == Coarse /\ \E s \in Sessions : op[s].st \in {"in", "done"}
AutoResume == \E s \in Sessions : op[s].st = "blocked" /\ ~keeperOn
AutoEnter == \E s \in Sessions : op[s].st = "waitfin" /\ gcState # "Finalizing"
\* In simulation one kind of operation is drawn per step (TLC picks uniformly among successor STATES: a session with ten
\* enabled operations would otherwise leave the collector one chance in ten).
Kinds == 1..12
\* two random kinds, plus the continuation of a call in flight and the command bracket (so that a step always exists)
KindDraw == IF RecordHist THEN {Rnd(12, 1), Rnd(12, 2), Rnd(12, 14), 9, 11, 12} ELSE Kinds
WriterNext(s, k) ==
    \/ (k = 1 /\ Rarely(3, 4) /\ Forget(s))
    \/ (k = 2 /\ RootRead(s))
    \/ (k = 3 /\ \E c \in Pick(know[s] \cap cache, 5) : ReadCached(s, c))
    \/ (k = 4 /\ \E c \in Pick(know[s] \ cache, 6) : ReadBegin(s, c, FALSE))
    \/ (k = 4 /\ seen[s] \notin know[s] \cup {0} /\ ReadBegin(s, seen[s], TRUE))          \* the root chunk just learnt
    \/ (k = 5 /\ ExtReads /\ \E c \in Pick(Chunks \ (know[s] \cup cache \cup {seen[s]}), 7) : ReadBegin(s, c, TRUE))
    \/ (k = 6 /\ ReadEnd(s))
    \/ (k = 7 /\ \E c \in Pick({x \in Chunks : refs[x] \subseteq know[s]}, 8) : PutTry(s, c))
    \/ (k = 8 /\ \E c \in Pick({x \in Chunks : refs[x] \subseteq know[s]}, 9) : PutRaw(s, c))
    \/ (k = 9 /\ (WriteEnter(s) \/ PutDo(s) \/ WriteEnd(s) \/ Resume(s) \/ CommitDo(s)))
    \/ (k = 10 /\ \E r \in Pick(know[s] \ {seen[s]}, 10) : CommitTry(s, r))
SessionNext(s, k) ==
    \/ (k = 11 /\ (CmdBegin(s) \/ (Rarely(3, 12) /\ CmdEnd(s))))
    \/ (k = 12 /\ VisitDo(s))
    \/ (s \in Writers /\ WriterNext(s, k))
    \/ (k = 11 /\ \E m \in Pick(Modes, 13) : StartGC(s, m))
Next ==
    IF Gated /\ ReadInFlight THEN \E s \in Sessions : ReadEnd(s)
    ELSE IF Gated /\ AutoGC THEN SetFinalizing \/ TakeFinal \/ CancelSafepoint \/ FinishCancel
    ELSE IF Gated /\ CoarseWrite THEN \E s \in Sessions : PutDo(s) \/ CommitDo(s) \/ WriteEnd(s)
    ELSE IF Gated /\ CoarseVisit THEN \E s \in Sessions : VisitDo(s)
    ELSE IF Gated /\ CoarseGC THEN ToOldGen \/ SafepointBegin \/ PostFinalize \/ PreFinalize
    ELSE IF Gated /\ AutoResume THEN \E s \in Sessions : Resume(s)
    ELSE IF Gated /\ AutoEnter THEN \E s \in Sessions : WriteEnter(s)
    ELSE \/ GCNext
         \/ \E s \in Sessions : \E k \in KindDraw : SessionNext(s, k)

Spec == Init /\ [][Next]_vars

\* fairness for the liveness properties: the collector keeps going, sessions finish what they started and end their
\* commands (a command that never ends holds the collector at the pre-finalize safepoint for ever -- that is the design)
Fairness ==
    /\ WF_vars(ToOldGen) /\ WF_vars(BeginGC) /\ WF_vars(SafepointBegin) /\ WF_vars(ReadRoot) /\ WF_vars(MarkOld)
    /\ WF_vars(ToNewGen) /\ WF_vars(AddOldGenFiles) /\ WF_vars(MarkNew) /\ WF_vars(PreFinalize) /\ WF_vars(MarkNext)
    /\ WF_vars(SetFinalizing) /\ WF_vars(TakeFinal) /\ WF_vars(FinalMark) /\ WF_vars(PostFinalize) /\ WF_vars(Swap)
    \* EndGC waits on a condition variable for gcOutstandingReads = 0 while new reads may still begin: it is enabled again and
    \* again rather than continuously (Go's mutex hands over to a starving waiter): strong fairness
    /\ SF_vars(EndGC) /\ WF_vars(ToNoGC) /\ WF_vars(CancelSafepoint) /\ SF_vars(FinishCancel)
    /\ \A s \in Sessions : /\ WF_vars(VisitDo(s)) /\ WF_vars(ReadEnd(s)) /\ WF_vars(WriteEnter(s)) /\ WF_vars(PutDo(s))
                           /\ WF_vars(CommitDo(s)) /\ WF_vars(WriteEnd(s)) /\ WF_vars(Resume(s))
                           /\ SF_vars(CmdEnd(s) /\ cb[s])
LiveSpec == Spec /\ Fairness

-----------------------------------------------------------------------------
(* What TLC checks *)
TypeOK ==
    /\ IsDag(refs)
    /\ oldgen \subseteq Chunks /\ newgen \subseteq Chunks /\ novel \subseteq Chunks /\ root \in 0..N
    /\ gcState \in {"NoGC", "OldGen", "NewGen", "Finalizing"} /\ gcOut \in 0..Cardinality(Sessions) /\ gcNew \subseteq Chunks
    /\ outReads \in 0..Cardinality(Sessions)
    /\ \A s \in Sessions : know[s] \subseteq Chunks /\ seen[s] \in 0..N

\* C08 on the model: whatever is reachable from the store root or from anything a live session still holds is in the
\* store -- at every moment, in particular after the swap
Live == RootSet \cup UNION {know[s] : s \in Sessions} \cup UNION {(IF op[s].k \in {"putvs", "putns"} THEN refs[op[s].c] ELSE {}) : s \in Sessions}
NoLoss == Closure(Live) \subseteq Present
\* no read returns a chunk that was already swept; nothing a session may read is missing; no commit and no mark finds
\* a dangling reference
NoErrs == errs = {}
\* the store is closed under references (C07's invariant, preserved by the collector)
StoreClosed == \A c \in Present : refs[c] \subseteq Present
OldGenClosed == \A c \in oldgen : refs[c] \subseteq oldgen
\* the keeper is never installed while the value store thinks no collection runs (gcAddChunk would panic)
KeeperOnlyDuringGC == keeperOn => gcState # "NoGC"
\* gcOut counts exactly the open brackets
GcOutCounts == gcOut = Cardinality({s \in Sessions : op[s].k \in {"putvs", "commit"} /\ op[s].st \in {"in", "done"}})
\* nobody is inside a bracket when the collector takes the final addresses, marks them and swaps
QuietFinalize == gpc \in {"finalMark", "postFin", "swap"} => gcOut = 0
\* the mark is an over-approximation at swap time: everything live is marked or in the (surviving) old generation
LiveMarkedAtSwap == gpc = "swap" => Closure(Live) \subseteq (markedNew \cup (IF gmode = "full" THEN markedOld ELSE oldgen))
\* after the swap the new generation is exactly what was marked: garbage is gone (the collector does collect)
SwapExact == [][gpc = "swap" /\ gpc' = "endgc" => newgen' = markedNew /\ novel' = {}]_vars
\* a collection never changes the root
GCKeepsRoot == [][last'.a \in {"Swap", "AddOldGenFiles", "EndGC", "ToNoGC", "CancelSafepoint", "FinishCancel"} => root' = root]_vars

\* liveness (LiveSpec): a writer that blocks on the collector proceeds, a collection ends
WritersEventuallyProceed == \A s \in Sessions : Blocked(s) ~> ~Blocked(s)
GCTerminates == (gpc # "idle") ~> (gpc = "idle")

Emit == Len(hist) < D \/ PrintT(ToJson(hist))
=============================================================================
