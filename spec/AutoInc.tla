----------------------------- MODULE AutoInc -----------------------------
(* AUTO_INCREMENT in a running dolt sql-server: one global sequence tracker per database, shared by every session
   and every branch (go/libraries/doltcore/sqle/dsess/sequence_tracker.go, auto_increment_tracker.go; called from
   writer/prolly_table_writer.go GetNextAutoIncrementValue / table() and go-mysql-server expression.AutoIncrement).

     SequenceTracker.Next(table, given)   per-table mutex (lock mode "interleaved", the default) ; load state ;
                                          given = NULL/0: hand out cur, store cur+1 ;
                                          given >= cur : store given+1, return given ; given < cur: return given
     SequenceTracker.Set(table, new)      ALTER TABLE ... AUTO_INCREMENT = new, always under the mutex:
                                          new > cur: store new ; otherwise deepSet (only if new exceeds every row of the
                                          session's table; recomputes the maximum over the other branches)
   The tracker lives outside transactions: ROLLBACK does not give values back, branches share it.

   Two granularities (constant Atomic):
     Atomic = TRUE   one action per SQL statement (this is what the statement-granular replay drives),
     Atomic = FALSE  Next is split into Lock ; Load ; Store ; Unlock steps of the calling goroutine so that TLC
                     interleaves two callers inside Next.  UseLock = FALSE removes the mutex: TLC must then find the
                     duplicate (the checks run that configuration as a negative control of the invariants).

   Sessions carry the transaction machinery of Txn.tla in reduced form (snapshot, own view, dirty branches, commit =
   fast-forward or row-set merge, ErrDirtyWorkingSets) because generated ids must also be compared in the tables.
   Rows are identified by their id only (the other column is constant), so commits never conflict.

   Invariants (C28): GeneratedValuesUnique, MonotonePerTable, ExplicitLargerAdvancesAllBranches.
   Not generated: ALTER TABLE ... AUTO_INCREMENT = n with MaxRow < n <= current value (deepSet lowers the tracker to the
   maximum of n and the PERSISTED values of the other branches, ignoring uncommitted inserts of other sessions and
   committed ones on the same branch; documented in the code as "ignoring the current in-memory tracker value"). *)
EXTENDS Integers, Sequences, FiniteSets, TLC, Json

CONSTANTS Sessions, Branches, Main, Tables,
          MaxSeq,        \* bound on the sequence value (state constraint)
          ExplicitIds,   \* candidate explicit ids / ALTER values
          ACs,           \* candidate initial autocommit settings
          Atomic, UseLock,
          Acts, Sim, D, RecordHist

VARIABLES seq,     \* [Tables -> Nat]  tracker: the next value to hand out
          lock,    \* [Tables -> Sessions \cup {"free"}]  per-table mutex (mutexmap)
          store,   \* [Branches -> [Tables -> SUBSET Nat]]  persisted ids per branch
          sess,    \* [Sessions -> record]
          gen,     \* history: [Tables -> SUBSET Nat] every generated value handed out so far
          expl,    \* history: [Tables -> SUBSET Nat] every explicit value whose Next has completed
          bad,     \* history flags
          hist

vars == <<seq, lock, store, sess, gen, expl, bad, hist>>
view == <<seq, lock, store, sess, gen, expl, bad>>

\* ------------------------------------------------------------------ the sequential semantics of the tracker (shared with TraceAutoInc)
GenNext(cur) == [id |-> cur, next |-> cur + 1]
ExplNext(cur, n) == [id |-> n, next |-> IF n >= cur THEN n + 1 ELSE cur]
Max(S) == IF S = {} THEN 0 ELSE CHOOSE x \in S : \A y \in S : y <= x

EmptyT == [t \in Tables |-> {}]
NilStore == [b \in Branches |-> EmptyT]
SetSeq(S) == LET RECURSIVE Srt(_)
                 Srt(X) == IF X = {} THEN <<>> ELSE LET m == CHOOSE x \in X : \A y \in X : x <= y IN <<m>> \o Srt(X \ {m})
             IN Srt(S)
StoreProj(st) == [b \in Branches |-> [t \in Tables |-> SetSeq(st[b][t])]]

Init == /\ seq = [t \in Tables |-> 1] /\ lock = [t \in Tables |-> "free"]
        /\ store = NilStore
        /\ \E f \in [Sessions -> ACs] :
             sess = [s \in Sessions |-> [txn |-> "none", ac |-> f[s], co |-> Main, snap |-> NilStore, mine |-> NilStore, dirty |-> {},
                                          lid |-> 0, pc |-> "idle", op |-> <<>>, ld |-> 0, errt |-> {}]]
        /\ gen = EmptyT /\ expl = EmptyT
        /\ bad = [dup |-> FALSE, nonmono |-> FALSE]
        /\ hist = IF RecordHist THEN <<[a |-> "Init", s |-> "none", args |-> [ac |-> [s \in Sessions |-> sess[s].ac]],
                                        exp |-> [res |-> "ok", out |-> <<>>, store |-> StoreProj(store)]]>> ELSE <<>>

Open(s) == sess[s].txn = "open"
Snap(s) == IF Open(s) THEN sess[s].snap ELSE store
Mine(s) == IF Open(s) THEN sess[s].mine ELSE store
Dirty(s) == IF Open(s) THEN sess[s].dirty ELSE {}
Idle(s) == sess[s].pc = "idle"

\* commit of a row-set working root: fast-forward or three-way merge of sets (identical rows never conflict)
MergeSet(start, cur, my) == (cur \ (start \ my)) \cup (my \ start)
CommitResult(sn, m, d) ==
    IF d = {} THEN [res |-> "ok", closed |-> TRUE, st |-> store]
    ELSE IF Cardinality(d) > 1 THEN [res |-> "dirty2", closed |-> FALSE, st |-> store]
    ELSE LET b == CHOOSE x \in d : TRUE IN
         [res |-> "ok", closed |-> TRUE,
          st |-> [store EXCEPT ![b] = [t \in Tables |-> MergeSet(sn[b][t], store[b][t], m[b][t])]]]

Rec(a, s, args, exp) == IF RecordHist THEN Append(hist, [a |-> a, s |-> s, args |-> args, exp |-> exp]) ELSE hist
Closed(rec) == [rec EXCEPT !.txn = "none", !.snap = NilStore, !.mine = NilStore, !.dirty = {}]
Opened(rec, sn, m, d) == [rec EXCEPT !.txn = "open", !.snap = sn, !.mine = m, !.dirty = d]

Finish(s, a, args, rec, st, res, out) ==
    /\ sess' = [sess EXCEPT ![s] = rec]
    /\ store' = st
    /\ hist' = Rec(a, s, args, [res |-> res, out |-> out, store |-> StoreProj(st)])

\* statement epilogue: autocommit (or the implicit commit of DDL) -- refused commits are not generated (see Txn.tla).
\* vt # "none": the statement's result also carries the session's view of table vt on its branch afterwards.
Stmt(s, a, args, rec, m2, d2, sres, out, implicit, vt) ==
    LET V(fin) == IF vt = "none" THEN out ELSE [view |-> SetSeq(fin[rec.co][vt])] @@ out IN
    IF rec.ac \/ implicit
    THEN LET cr == CommitResult(Snap(s), m2, d2) IN
         /\ cr.closed
         /\ Finish(s, a, args, Closed(rec), cr.st, sres, V(cr.st))
    ELSE Finish(s, a, args, Opened(rec, Snap(s), m2, d2), store, sres, V(m2))

\* history bookkeeping when value g is handed out as a GENERATED value of t
NoteGen(t, g) == /\ gen' = [gen EXCEPT ![t] = @ \cup {g}]
                 /\ bad' = [dup |-> bad.dup \/ g \in gen[t], nonmono |-> bad.nonmono \/ g <= Max(gen[t])]

\* ------------------------------------------------------------------ Atomic = TRUE: one action per statement
\* INSERT INTO t (x) VALUES (0) [,(0)]: k generated ids; LAST_INSERT_ID() = the first of them
InsertGen(s, t, k) ==
    LET b == sess[s].co
        ids == seq[t]..(seq[t] + k - 1)
        m == Mine(s)
    IN /\ Atomic /\ Idle(s)
       /\ seq' = [seq EXCEPT ![t] = @ + k]
       /\ gen' = [gen EXCEPT ![t] = @ \cup ids]
       /\ bad' = [dup |-> bad.dup \/ ids \cap gen[t] # {}, nonmono |-> bad.nonmono \/ seq[t] <= Max(gen[t])]
       /\ UNCHANGED <<lock, expl>>
       /\ Stmt(s, "InsertGen", [t |-> t, k |-> k], [sess[s] EXCEPT !.lid = seq[t], !.errt = @ \ {t}], [m EXCEPT ![b][t] = @ \cup ids], Dirty(s) \cup {b},
               "ok", [ids |-> SetSeq(ids), lid |-> seq[t]], FALSE, t)

\* INSERT INTO t (id, x) VALUES (n, 0): Next(n) runs before the row is written, so a duplicate key still advances the sequence
InsertExplicit(s, t, n) ==
    LET b == sess[s].co
        m == Mine(s)
        dupk == n \in m[b][t]
    IN /\ Atomic /\ Idle(s)
       /\ seq' = [seq EXCEPT ![t] = ExplNext(@, n).next]
       /\ expl' = [expl EXCEPT ![t] = @ \cup {n}]
       /\ UNCHANGED <<lock, gen, bad>>
       /\ Stmt(s, "InsertExplicit", [t |-> t, n |-> n], [sess[s] EXCEPT !.errt = IF dupk THEN @ \cup {t} ELSE @ \ {t}],
               IF dupk THEN m ELSE [m EXCEPT ![b][t] = @ \cup {n}],
               IF dupk THEN Dirty(s) ELSE Dirty(s) \cup {b}, IF dupk THEN "dup" ELSE "ok", [lid |-> sess[s].lid], FALSE, t)

Delete(s, t, n) ==
    LET b == sess[s].co
        m == Mine(s)
    IN /\ Idle(s)
       /\ UNCHANGED <<seq, lock, gen, expl, bad>>
       /\ Stmt(s, "Delete", [t |-> t, n |-> n], [sess[s] EXCEPT !.errt = @ \ {t}], [m EXCEPT ![b][t] = @ \ {n}],
               IF n \in m[b][t] THEN Dirty(s) \cup {b} ELSE Dirty(s), "ok", [aff |-> IF n \in m[b][t] THEN 1 ELSE 0], FALSE, t)

(* ALTER TABLE t AUTO_INCREMENT = n (SequenceTracker.Set; DDL commits implicitly).  Generated only for
   n > current value (the tracker moves up for every branch) and for n <= largest id of the session's table (no effect).
   Not generated while the session's last data statement on t failed with a duplicate key (errt): the table writer keeps
   that error (prollyTableWriter.errEncountered) and the ALTER, which never calls StatementBegin on it, reports it as its
   own -- a spurious error unrelated to C28, see LEADS.md. *)
AlterAI(s, t, n) ==
    LET b == sess[s].co
        m == Mine(s)
        raise == n > seq[t]
    IN /\ Idle(s) /\ lock[t] = "free"
       /\ t \notin sess[s].errt
       /\ raise \/ n <= Max(m[b][t])
       /\ Dirty(s) \subseteq {b}
       /\ seq' = [seq EXCEPT ![t] = IF raise THEN n ELSE @]
       /\ expl' = IF raise THEN [expl EXCEPT ![t] = @ \cup {n - 1}] ELSE expl   \* every value below n counts as used
       /\ UNCHANGED <<lock, gen, bad>>
       /\ Stmt(s, "AlterAI", [t |-> t, n |-> n], sess[s], m, IF raise THEN Dirty(s) \cup {b} ELSE Dirty(s), "ok", <<>>, TRUE, "none")

Read(s, b) ==
    /\ Idle(s) /\ UNCHANGED <<seq, lock, gen, expl, bad>>
    /\ Stmt(s, "Read", [b |-> b, q |-> b # sess[s].co], sess[s], Mine(s), Dirty(s), "ok",
            [rows |-> [t \in Tables |-> SetSeq(Mine(s)[b][t])], lid |-> sess[s].lid], FALSE, "none")

Commit(s) ==
    LET cr == CommitResult(Snap(s), Mine(s), Dirty(s)) IN
    /\ Idle(s) /\ UNCHANGED <<seq, lock, gen, expl, bad>>
    /\ IF cr.closed THEN Finish(s, "Commit", <<>>, Closed(sess[s]), cr.st, cr.res, <<>>)
                    ELSE Finish(s, "Commit", <<>>, Opened(sess[s], Snap(s), Mine(s), Dirty(s)), store, cr.res, <<>>)

\* ROLLBACK: the rows go, the handed-out values are not given back
Rollback(s) ==
    /\ Idle(s) /\ UNCHANGED <<seq, lock, gen, expl, bad>>
    /\ Finish(s, "Rollback", <<>>, Closed(sess[s]), store, "ok", <<>>)

Checkout(s, b) ==
    /\ Idle(s) /\ UNCHANGED <<seq, lock, gen, expl, bad>>
    /\ Stmt(s, "Checkout", [b |-> b], [sess[s] EXCEPT !.co = b], Mine(s), Dirty(s), "ok", [already |-> b = sess[s].co], FALSE, "none")

\* ------------------------------------------------------------------ Atomic = FALSE: SequenceTracker.Next as steps of one goroutine
\* op = <<kind, table, given>>; the statement inserts one row
NLock(s, t, given) ==
    /\ ~Atomic /\ Idle(s)
    /\ IF UseLock THEN lock[t] = "free" /\ lock' = [lock EXCEPT ![t] = s] ELSE UNCHANGED lock
    /\ sess' = [sess EXCEPT ![s].pc = "locked", ![s].op = <<t, given>>]
    /\ UNCHANGED <<seq, store, gen, expl, bad, hist>>
NLoad(s) ==
    /\ sess[s].pc = "locked"
    /\ sess' = [sess EXCEPT ![s].pc = "loaded", ![s].ld = seq[sess[s].op[1]]]
    /\ UNCHANGED <<seq, lock, store, gen, expl, bad, hist>>
\* compute + Store + (deferred) Unlock + the row insert and statement epilogue
NStore(s) ==
    LET t == sess[s].op[1]
        given == sess[s].op[2]
        r == IF given = 0 THEN GenNext(sess[s].ld) ELSE ExplNext(sess[s].ld, given)
        b == sess[s].co
        m == Mine(s)
        dupk == r.id \in m[b][t]
        rec == [sess[s] EXCEPT !.pc = "idle", !.op = <<>>, !.ld = 0, !.lid = IF given = 0 THEN r.id ELSE @,
                               !.errt = IF dupk THEN @ \cup {t} ELSE @ \ {t}]
    IN /\ sess[s].pc = "loaded"
       /\ seq' = [seq EXCEPT ![t] = IF given = 0 \/ given >= sess[s].ld THEN r.next ELSE @]
       /\ lock' = IF UseLock THEN [lock EXCEPT ![t] = "free"] ELSE lock
       /\ IF given = 0 THEN NoteGen(t, r.id) /\ UNCHANGED expl
                       ELSE expl' = [expl EXCEPT ![t] = @ \cup {given}] /\ UNCHANGED <<gen, bad>>
       /\ Stmt(s, IF given = 0 THEN "InsertGen" ELSE "InsertExplicit", [t |-> t, n |-> given], rec,
               IF dupk THEN m ELSE [m EXCEPT ![b][t] = @ \cup {r.id}], IF dupk THEN Dirty(s) ELSE Dirty(s) \cup {b},
               IF dupk THEN "dup" ELSE "ok", [ids |-> <<r.id>>, lid |-> rec.lid], FALSE, t)

\* ------------------------------------------------------------------
Pick(S) == IF Sim THEN {RandomElement(S)} ELSE S
Coin(n) == ~Sim \/ RandomElement(1..n) = 1
On(a) == a \in Acts

Next == \E s \in Sessions :
          \/ On("InsertGen") /\ \E t \in Pick(Tables), k \in Pick({1, 2}) : InsertGen(s, t, k)
          \/ On("InsertExplicit") /\ Coin(2) /\ \E t \in Pick(Tables), n \in Pick(ExplicitIds) : InsertExplicit(s, t, n)
          \/ On("Delete") /\ Coin(4) /\ \E t \in Pick(Tables), n \in Pick(ExplicitIds) : Delete(s, t, n)
          \/ On("AlterAI") /\ Coin(4) /\ \E t \in Pick(Tables), n \in Pick(ExplicitIds) : AlterAI(s, t, n)
          \/ On("Read") /\ Coin(3) /\ \E b \in Pick(Branches) : Read(s, b)
          \/ On("Commit") /\ Coin(2) /\ Commit(s)
          \/ On("Rollback") /\ Coin(4) /\ Rollback(s)
          \/ On("Checkout") /\ Coin(3) /\ \E b \in Pick(Branches) : Checkout(s, b)
          \/ On("Steps") /\ \E t \in Tables, g \in {0} \cup ExplicitIds : NLock(s, t, g)
          \/ On("Steps") /\ (NLoad(s) \/ NStore(s))

Spec == Init /\ [][Next]_vars

\* ------------------------------------------------------------------ C28
GeneratedValuesUnique == ~bad.dup
MonotonePerTable == ~bad.nonmono
(* Every value handed out so far -- generated on any branch by any session (committed, uncommitted or rolled back) or
   inserted explicitly -- lies below the tracker, so the next generated value on EVERY branch is larger. *)
ExplicitLargerAdvancesAllBranches == \A t \in Tables : \A n \in gen[t] \cup expl[t] : n < seq[t]
\* rows only ever carry values that were handed out
RowsAreHandedOut ==
    \A t \in Tables : \A b \in Branches :
        /\ store[b][t] \subseteq gen[t] \cup expl[t]
        /\ \A s \in Sessions : Open(s) => sess[s].mine[b][t] \subseteq gen[t] \cup expl[t]
TypeOK == /\ seq \in [Tables -> Nat] /\ \A t \in Tables : lock[t] \in Sessions \cup {"free"}
          /\ \A s \in Sessions : sess[s].pc \in {"idle", "locked", "loaded"}

Bound == \A t \in Tables : seq[t] <= MaxSeq
Emit == Len(hist) < D \/ PrintT(ToJson(hist))
=============================================================================
