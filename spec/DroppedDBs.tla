----------------------------- MODULE DroppedDBs -----------------------------
(* C47: a dropped database can be restored intact until dropped databases are purged, and a restore never overwrites an
   existing database of the same (case-insensitive) name.

   Code transcribed (go/libraries/doltcore/sqle):
     database_provider.go:651  CreateDatabase / checkDatabaseNameAvailable     names are unique case-insensitively
     database_provider.go:1141 DropDatabase                                     unregisters the database, closes it, then
     dropped_databases.go:53   droppedDatabaseManager.DropDatabase              moves <dir> to .dolt_dropped_databases/<name>; a dropped
                                                                                database already there is first renamed
                                                                                <name>.backup.<millis> (prepareToMoveDroppedDatabase)
     dropped_databases.go:106,194 UndropDatabase / validateUndropDatabase       case-insensitive lookup among the dropped ones; refused
                                                                                when a directory with the same case-insensitive name
                                                                                exists; moves the directory back and registers it
     dropped_databases.go:128  PurgeAllDroppedDatabases                         deletes everything under .dolt_dropped_databases
     dprocedures/dolt_undrop.go, dolt_purge_dropped_databases.go

   A database's CONTENT is abstracted to a fingerprint id (fresh on CREATE and on every Modify); the engine binds an id to the
   real logical fingerprint of the database (every branch head, tag, working and staged root hash, table rows of every
   branch, status) when the id first appears and demands that very fingerprint whenever the model says the id is live.
   The root database of the server directory ("db", whose .dolt directory lives in the server's root, with the other
   databases nested in that directory) is one of the names: constant Root.

   Named restriction: a database is not dropped while a dropped database with the same case-insensitive name but another
   spelling waits in the holding directory (validateUndropDatabase would pick one of the two by directory order). *)
EXTENDS Integers, Sequences, FiniteSets, TLC, Json

CONSTANTS Names,      \* base (lower-case) database names
          Root,       \* the name of the server's root database (it exists initially), or "" for none
          MaxFp,      \* bound on the number of fingerprints (contents) ever created
          Acts, Sim, D, RecordHist

VARIABLES live,      \* [Names -> [fp, sp]]: fp = 0: no such database; sp = spelling (0 = lower case, 1 = upper case)
          dropped,   \* [Names -> [fp, sp]]: the dropped database that dolt_undrop(name) would restore
          backups,   \* bag of older dropped databases, renamed <name>.backup.<ts>: [Names -> number]
          nfp,       \* number of fingerprints created
          atroot,    \* the root database still lives in the server's root directory (until it is dropped for the first time)
          last, hist

vars == <<live, dropped, backups, nfp, atroot, last, hist>>
view == <<live, dropped, backups, nfp, atroot>>

None == [fp |-> 0, sp |-> 0]
Rec(a, args, res) ==
    /\ last' = [a |-> a, args |-> args, res |-> res]
    /\ hist' = IF RecordHist THEN Append(hist, [a |-> a, args |-> args, res |-> res,
                                                exp |-> [live |-> live', dropped |-> dropped', backups |-> backups']]) ELSE hist
RE(S) == RandomElement(IF nfp >= 0 THEN S ELSE {})
Pick(S) == IF Sim THEN (IF S = {} THEN {} ELSE {RE(S)}) ELSE S
On(a) == a \in Acts

Init == /\ live = [n \in Names |-> IF n = Root THEN [fp |-> 1, sp |-> 0] ELSE None]
        /\ dropped = [n \in Names |-> None]
        /\ backups = [n \in Names |-> 0]
        /\ nfp = IF Root = "" THEN 0 ELSE 1
        /\ atroot = (Root # "")
        /\ last = [a |-> "Init", args |-> <<>>, res |-> "ok"]
        /\ hist = <<>>

\* CREATE DATABASE <n spelled sp> (+ content: the engine fills it with data determined by the new fingerprint id)
CreateDB(n, sp) ==
    /\ On("CreateDB")
    /\ IF live[n].fp # 0 THEN UNCHANGED <<live, dropped, backups, nfp, atroot>> /\ Rec("CreateDB", [n |-> n, sp |-> sp], "exists")
       ELSE /\ nfp < MaxFp
            /\ live' = [live EXCEPT ![n] = [fp |-> nfp + 1, sp |-> sp]] /\ nfp' = nfp + 1
            /\ UNCHANGED <<dropped, backups, atroot>> /\ Rec("CreateDB", [n |-> n, sp |-> sp, fp |-> nfp + 1], "ok")
\* more commits, another branch, uncommitted changes: the content changes
Modify(n) ==
    /\ On("Modify") /\ live[n].fp # 0 /\ nfp < MaxFp
    /\ live' = [live EXCEPT ![n].fp = nfp + 1] /\ nfp' = nfp + 1
    /\ UNCHANGED <<dropped, backups, atroot>> /\ Rec("Modify", [n |-> n, fp |-> nfp + 1], "ok")
\* DROP DATABASE <n> (argument spelled asp; names are case-insensitive)
DropDB(n, asp) ==
    /\ On("DropDB")
    /\ IF live[n].fp = 0 THEN UNCHANGED <<live, dropped, backups, nfp, atroot>> /\ Rec("DropDB", [n |-> n, asp |-> asp], "notfound")
       ELSE \* the holding directory is named after the database directory -- except for the root database, whose holding
            \* directory takes the spelling of the DROP statement (dropped_databases.go:80): restored, it carries that spelling
            LET nsp == IF n = Root /\ atroot THEN asp ELSE live[n].sp IN
            /\ (dropped[n].fp # 0 => dropped[n].sp = nsp)         \* named restriction
            /\ dropped' = [dropped EXCEPT ![n] = [fp |-> live[n].fp, sp |-> nsp]]
            /\ backups' = IF dropped[n].fp # 0 THEN [backups EXCEPT ![n] = @ + 1] ELSE backups
            /\ live' = [live EXCEPT ![n] = None]
            /\ atroot' = (atroot /\ n # Root)
            /\ UNCHANGED nfp /\ Rec("DropDB", [n |-> n, asp |-> asp], "ok")
\* CALL dolt_undrop(<n spelled asp>)
Undrop(n, asp) ==
    /\ On("Undrop")
    /\ IF dropped[n].fp = 0 THEN UNCHANGED <<live, dropped, backups, nfp, atroot>> /\ Rec("Undrop", [n |-> n, asp |-> asp], "nodropped")
       ELSE IF live[n].fp # 0 THEN UNCHANGED <<live, dropped, backups, nfp, atroot>> /\ Rec("Undrop", [n |-> n, asp |-> asp], "exists")
       ELSE /\ live' = [live EXCEPT ![n] = dropped[n]]
            /\ dropped' = [dropped EXCEPT ![n] = None]
            /\ UNCHANGED <<backups, nfp, atroot>> /\ Rec("Undrop", [n |-> n, asp |-> asp], "ok")
\* CALL dolt_purge_dropped_databases()
Purge ==
    /\ On("Purge") /\ (Sim => RE(1..5) = 1)
    /\ dropped' = [n \in Names |-> None] /\ backups' = [n \in Names |-> 0]
    /\ UNCHANGED <<live, nfp, atroot>> /\ Rec("Purge", <<>>, "ok")

\* simulation: mostly statements that apply
LiveN == {n \in Names : live[n].fp # 0}
DroppedN == {n \in Names : dropped[n].fp # 0}
Mostly(S) == IF Sim /\ RE(1..4) # 1 THEN S ELSE Names
Next == \/ \E n \in Pick(Mostly(Names \ LiveN)), sp \in Pick({0, 1}) : CreateDB(n, sp)
        \/ \E n \in Pick(Mostly(LiveN)), sp \in Pick({0, 1}) : DropDB(n, sp)
        \/ \E n \in Pick(Mostly(DroppedN)), sp \in Pick({0, 1}) : Undrop(n, sp)
        \/ \E n \in Pick(Names) : Modify(n)
        \/ Purge
Spec == Init /\ [][Next]_vars

-----------------------------------------------------------------------------
TypeOK == /\ \A n \in Names : live[n].fp \in 0..MaxFp /\ dropped[n].fp \in 0..MaxFp /\ backups[n] >= 0
          /\ nfp \in 0..MaxFp
\* a content lives in at most one place
NoDuplication == \A n, m \in Names : (live[n].fp # 0 /\ dropped[m].fp # 0) => live[n].fp # dropped[m].fp
\* C47: restoring brings back exactly what was dropped under that name (its most recent drop) ...
UndropRestoresExactly ==
    [][(last'.a = "Undrop" /\ last'.res = "ok") =>
          LET n == last'.args.n IN live'[n] = dropped[n] /\ dropped[n].fp # 0 /\ live[n].fp = 0
                                   /\ \A m \in Names \ {n} : live'[m] = live[m] /\ dropped'[m] = dropped[m]]_vars
\* ... a restore never overwrites (or otherwise changes) a live database ...
UndropNeverOverwrites ==
    [][last'.a = "Undrop" => \A n \in Names : live[n].fp # 0 => live'[n] = live[n]]_vars
\* ... a dropped database stays restorable, unchanged, until it is purged or replaced by a newer drop of the same name ...
DroppedKeptUntilPurge ==
    [][\A n \in Names : (dropped[n].fp # 0 /\ dropped'[n] # dropped[n]) =>
          \/ last'.a = "Purge"
          \/ (last'.a = "Undrop" /\ last'.res = "ok" /\ last'.args.n = n)
          \/ (last'.a = "DropDB" /\ last'.res = "ok" /\ last'.args.n = n /\ backups'[n] = backups[n] + 1)]_vars
\* ... and only CREATE / Modify / Undrop / DROP change what is live
LiveChangesOnlyByItsOwnStatement ==
    [][\A n \in Names : live'[n] # live[n] => (last'.args.n = n /\ last'.res = "ok" /\ last'.a \in {"CreateDB", "Modify", "DropDB", "Undrop"})]_vars

\* exhaustive configs: the number of renamed older drops is bounded too
Bound == \A n \in Names : backups[n] <= 2
Emit == Len(hist) < D \/ PrintT(ToJson(hist))
=============================================================================
