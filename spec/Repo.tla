------------------------------- MODULE Repo -------------------------------
(* Abstract machine of one dolt repository (database) as seen through SQL sessions: the CORE that the
   repository-level properties share (C31 cherry-pick/revert/rebase, C32 diff/patch, C33 historical reads,
   C34 stash/reset/checkout; later builders extend it for C08 C09 C25 C35 C37 C43 C46 C47).

   State: tables as [key -> row] over tiny domains, roots = [table name -> table], a commit DAG whose commits
   carry a root, branches with a head commit and ONE working set each (working root, staged root, merge /
   cherry-pick / revert state with its conflicts), the current branch of every SQL session, stashes, tags.

   Every action is one SQL statement / dolt_* procedure call of the code (autocommit sessions with
   @@dolt_allow_commit_conflicts = 1); the comment at each action names the Go function it transcribes:
     DML/DDL ............. sqle writer on the session's working root
     Add, Commit ......... actions.StageTables, actions.GetCommitStaged + DoltSession.DoltCommit
     Merge ............... dprocedures/dolt_merge.go + merge.MergeRoots (merge/merge.go:169, merge_rows.go:371)
     CherryPick .......... cherry_pick/cherry_pick.go:76,376
     Revert .............. revert/revert.go:47,440,606
     Rebase .............. dprocedures/dolt_rebase.go:279,657 + rebase/rebase.go (plan), atomic here
     Reset* .............. dprocedures/dolt_reset.go + env/actions/reset.go
     Stash* .............. dprocedures/dolt_stash.go:113,164
     Checkout* ........... dprocedures/dolt_checkout.go, dolt_checkout_helpers.go:31, env/actions/checkout.go:124,278
   Deviations of the code from the intended design are NAMED (constant AsCode; "stash-overwrites-untracked" in
   StashPush, "revert-abort-wipes-dirty" in Abort; the former "drop-lost" of CheckoutMove was repaired in dolt, ecacb8c): generator configs follow the code (AsCode = TRUE) and
   the step record carries the intended result as well (args.dev, args.ideal), so that the engine reports the code's
   deviation as a known finding and still follows the behaviour; exhaustive configs check the properties on the
   intended semantics (AsCode = FALSE).

   Row-level three-way merge: RowMerge.tla (builder bH, C29) did not exist when this module was written; the
   cell-wise merge is therefore defined locally (MergeRow/MergeRows) for tables whose three versions have the
   same schema. Merges that would need a schema merge at row level are not generated (status "unsup" disables
   the action) -- that territory belongs to RowMerge.tla. *)
EXTENDS Integers, Sequences, FiniteSets, TLC, Json

CONSTANTS Tables,      \* table names (strings)
          Keys,        \* primary-key values (integers)
          NV,          \* non-key cell values are 0..NV, 0 = NULL
          MaxCols,     \* 1: tables have the single non-key column c1;  2: AddColumn may add c2
          Branches,    \* branch names (strings); "main" must be one of them
          Sessions,    \* SQL sessions (strings)
          TagNames,    \* tag names (strings)
          MaxCommits,  \* bound on Len(commits)
          MaxStash,    \* bound on Len(stashes)
          MaxPlan,     \* bound on the length of a rebase plan
          Acts,        \* names of the enabled actions (the action mix of a config)
          RareActs,    \* actions that the simulator takes only now and then (always-enabled ones would swamp the rest)
          AsCode,      \* TRUE: named deviations behave as the code does; FALSE: as intended
          D,           \* behaviour length at which the history is emitted (simulation)
          RecordHist   \* FALSE in exhaustive configs: hist stays empty

VARIABLES commits,   \* sequence of [parents : Seq(Nat), root : Root]; commit id = index; commit 1 = initial commit
          head,      \* [Branches -> 0..MaxCommits], 0 = branch does not exist
          ws,        \* [Branches -> WorkingSet]
          cur,       \* [Sessions -> Branches] current branch of a session
          stashes,   \* sequence, index 1 = stash@{0}
          tags,      \* [TagNames -> 0..MaxCommits], 0 = no such tag
          last,      \* record of the last action (for action properties; not part of the VIEW)
          hist

vars == <<commits, head, ws, cur, stashes, tags, last, hist>>
view == <<commits, head, ws, cur, stashes, tags>>

-----------------------------------------------------------------------------
(* Data *)
NoRow == [c1 |-> -1, c2 |-> -1]                      \* "no row under this key"
Row(a, b) == [c1 |-> a, c2 |-> b]
IsRow(r) == r # NoRow
EmptyRows == [k \in Keys |-> NoRow]
NoTable == [ex |-> FALSE, nc |-> 1, rows |-> EmptyRows]     \* "no table under this name"
NewTable == [ex |-> TRUE, nc |-> 1, rows |-> EmptyRows]
EmptyRoot == [t \in Tables |-> NoTable]
NoCf == [b |-> NoRow, o |-> NoRow, t |-> NoRow]             \* "no conflict under this key"
NoConf == [t \in Tables |-> [k \in Keys |-> NoCf]]
CleanWS(r) == [working |-> r, staged |-> r, mkind |-> "none", mcommit |-> 0, mpre |-> EmptyRoot, conf |-> NoConf]

RootOf(c) == commits[c].root
Parents(c) == commits[c].parents
Parent0(c) == commits[c].parents[1]
HeadRoot(b) == RootOf(head[b])
Exists(b) == head[b] # 0
NCommits == Len(commits)
Cids == 1..NCommits

RECURSIVE AncSet(_)
AncSet(c) == {c} \cup UNION {AncSet(Parents(c)[i]) : i \in 1..Len(Parents(c))}
IsAnc(a, c) == a \in AncSet(c)                      \* reflexive
\* first-parent ancestor HEAD~n (0 if it does not exist)
RECURSIVE FirstAnc(_, _)
FirstAnc(c, n) == IF n = 0 THEN c ELSE IF Len(Parents(c)) = 0 THEN 0 ELSE FirstAnc(Parent0(c), n - 1)
\* lowest common ancestors
LCAs(a, b) == LET com == AncSet(a) \cap AncSet(b)
              IN {x \in com : ~\E y \in com : y # x /\ IsAnc(x, y)}

HasConf(w, t) == \E k \in Keys : w.conf[t][k] # NoCf
AnyConf(w) == \E t \in Tables : HasConf(w, t)
ConfTables(w) == {t \in Tables : HasConf(w, t)}
Dirty(b) == ws[b].working # HeadRoot(b) \/ ws[b].staged # HeadRoot(b) \/ AnyConf(ws[b])

-----------------------------------------------------------------------------
(* Three-way merge: rows (local definition, see header), tables (merge_rows.go MaybeShortCircuit), roots *)
Cell(b, o, t) == IF o = t THEN o ELSE IF o = b THEN t ELSE IF t = b THEN o ELSE -2
MergeRow(b, o, t) ==
    IF o = t THEN [row |-> o, cf |-> FALSE]
    ELSE IF o = b THEN [row |-> t, cf |-> FALSE]
    ELSE IF t = b THEN [row |-> o, cf |-> FALSE]
    ELSE IF b = NoRow \/ o = NoRow \/ t = NoRow THEN [row |-> o, cf |-> TRUE]   \* both inserted / delete vs modify
    ELSE LET x1 == Cell(b.c1, o.c1, t.c1)  x2 == Cell(b.c2, o.c2, t.c2)
         IN IF x1 = -2 \/ x2 = -2 THEN [row |-> o, cf |-> TRUE] ELSE [row |-> Row(x1, x2), cf |-> FALSE]

MergeRows(B, O, T) ==   \* three tables of one schema; on a conflict ours stays in the table
    LET m == [k \in Keys |-> MergeRow(B.rows[k], O.rows[k], T.rows[k])]
        cf == [k \in Keys |-> IF m[k].cf THEN [b |-> B.rows[k], o |-> O.rows[k], t |-> T.rows[k]] ELSE NoCf]
    IN [st |-> IF \E k \in Keys : m[k].cf THEN "conf" ELSE "ok",
        tbl |-> [ex |-> TRUE, nc |-> O.nc, rows |-> [k \in Keys |-> m[k].row]],
        cf |-> cf, op |-> "mod"]

MTRes(st, tbl, op) == [st |-> st, tbl |-> tbl, cf |-> [k \in Keys |-> NoCf], op |-> op]

\* MergeTable: ours O, theirs T, ancestor B of one table name; cherry = mergeOpts.IsCherryPick
MergeTbl(B, O, T, cherry) ==
    IF ~O.ex /\ ~T.ex THEN MTRes("ok", NoTable, "unmod")                       \* name not visited by the merge
    ELSE IF O.ex /\ T.ex /\ O = T THEN MTRes("ok", O, "unmod")                    \* nothing changed / identical changes
    ELSE IF ~B.ex THEN
        IF O.ex /\ T.ex THEN (IF O.nc # T.nc THEN MTRes("twice", O, "unmod")       \* ErrSameTblAddedTwice
                              ELSE MergeRows(NewTable, O, T))                  \* same schema: ancestor = empty table
        ELSE IF O.ex THEN MTRes("ok", O, "unmod")
        ELSE MTRes("ok", T, "added")
    ELSE IF ~O.ex \/ ~T.ex THEN
        LET child == IF T.ex THEN T ELSE O
        IN IF child # B THEN MTRes("moddel", O, "mod")                         \* ErrTableDeletedAndModified
           ELSE MTRes("ok", NoTable, "removed")
    ELSE IF T = B THEN MTRes("ok", O, "unmod")                                 \* changes only in ours
    ELSE IF ~cherry /\ O = B THEN MTRes("ok", T, "mod")                        \* changes only in theirs
    ELSE IF O.nc = T.nc /\ O.nc = B.nc THEN MergeRows(B, O, T)
    ELSE MTRes("unsup", O, "mod")                                              \* row merge with a schema merge: RowMerge.tla

MergeRoots(O, T, B, cherry) ==
    LET m == [t \in Tables |-> MergeTbl(B[t], O[t], T[t], cherry)]
        bad(s) == \E t \in Tables : m[t].st = s
    \* the code merges table by table and returns the FIRST error; which of two different errors that is depends on the
    \* order of the names -- roots with both kinds of error are not generated
    IN [st |-> IF bad("unsup") \/ (bad("moddel") /\ bad("twice")) THEN "unsup" ELSE IF bad("moddel") THEN "moddel" ELSE IF bad("twice") THEN "twice"
               ELSE IF bad("conf") THEN "conf" ELSE "ok",
        root |-> [t \in Tables |-> m[t].tbl],
        cf |-> [t \in Tables |-> m[t].cf],
        op |-> [t \in Tables |-> m[t].op],
        art |-> {t \in Tables : m[t].st = "conf"}]

-----------------------------------------------------------------------------
(* Observers (read operators shipped with every behaviour step) *)
KeySeq == LET RECURSIVE S(_)
              S(X) == IF X = {} THEN <<>> ELSE LET m == CHOOSE x \in X : \A y \in X : x <= y IN <<m>> \o S(X \ {m})
          IN S(Keys)
\* rows of a table as a sequence of <<key, c1, c2>> in key order
TableRows(tb) == LET ks == SelectSeq(KeySeq, LAMBDA k : IsRow(tb.rows[k]))
                 IN [i \in 1..Len(ks) |-> <<ks[i], tb.rows[ks[i]].c1, tb.rows[ks[i]].c2>>]
ProjTable(tb) == [nc |-> tb.nc, rows |-> TableRows(tb)]
ProjRoot(r) == [t \in {x \in Tables : r[x].ex} |-> ProjTable(r[t])]
TableAt(c, t) == RootOf(c)[t]

\* dolt_diff(from, to, t): one entry per key whose row differs
DiffKind(f, t) == IF f = NoRow THEN "added" ELSE IF t = NoRow THEN "removed" ELSE "modified"
TblDiff(A, B) == LET ks == SelectSeq(KeySeq, LAMBDA k : A.rows[k] # B.rows[k])
                 IN [i \in 1..Len(ks) |-> [k |-> ks[i], ty |-> DiffKind(A.rows[ks[i]], B.rows[ks[i]]),
                                            f |-> <<A.rows[ks[i]].c1, A.rows[ks[i]].c2>>,
                                            t |-> <<B.rows[ks[i]].c1, B.rows[ks[i]].c2>>]]
TableDiff(ra, rb) == [t \in {x \in Tables : ra[x].ex \/ rb[x].ex} |->
                        [fex |-> ra[t].ex, tex |-> rb[t].ex, fnc |-> ra[t].nc, tnc |-> rb[t].nc, rows |-> TblDiff(ra[t], rb[t])]]
\* applying a diff to its source yields its target (the patch round trip, on the model)
ApplyTblDiff(A, dt) ==
    IF ~dt.tex THEN NoTable
    ELSE [ex |-> TRUE, nc |-> dt.tnc,
          rows |-> [k \in Keys |-> IF \E i \in 1..Len(dt.rows) : dt.rows[i].k = k
                                   THEN LET i == CHOOSE i \in 1..Len(dt.rows) : dt.rows[i].k = k
                                        IN IF dt.rows[i].ty = "removed" THEN NoRow ELSE Row(dt.rows[i].t[1], dt.rows[i].t[2])
                                   ELSE A.rows[k]]]
ApplyDiff(ra, d) == [t \in Tables |-> IF t \in DOMAIN d THEN ApplyTblDiff(ra[t], d[t]) ELSE ra[t]]

\* dolt_status of a branch: set of <<table, staged?, status>>
Delta(a, b) == IF ~a.ex /\ b.ex THEN "new table" ELSE IF a.ex /\ ~b.ex THEN "deleted" ELSE IF a # b THEN "modified" ELSE "same"
Status(b) == {<<t, 1, Delta(HeadRoot(b)[t], ws[b].staged[t])>> : t \in {x \in Tables : Delta(HeadRoot(b)[x], ws[b].staged[x]) # "same"}}
        \cup {<<t, 0, Delta(ws[b].staged[t], ws[b].working[t])>> : t \in {x \in Tables : Delta(ws[b].staged[x], ws[b].working[x]) # "same"}}
        \cup {<<t, 0, "conflict">> : t \in ConfTables(ws[b])}
Untracked(b) == {t \in Tables : ws[b].working[t].ex /\ ~ws[b].staged[t].ex}

\* dolt_history_<t> on branch b: for every ancestor commit of the head in which t exists, its rows
History(b, t) == [c \in {x \in AncSet(head[b]) : RootOf(x)[t].ex} |-> TableRows(RootOf(c)[t])]

ProjConf(w) == [t \in ConfTables(w) |->
                  LET ks == SelectSeq(KeySeq, LAMBDA k : w.conf[t][k] # NoCf)
                  IN [i \in 1..Len(ks) |-> [k |-> ks[i],
                                            b |-> <<w.conf[t][ks[i]].b.c1, w.conf[t][ks[i]].b.c2>>,
                                            o |-> <<w.conf[t][ks[i]].o.c1, w.conf[t][ks[i]].o.c2>>,
                                            t |-> <<w.conf[t][ks[i]].t.c1, w.conf[t][ks[i]].t.c2>>]]]
ProjWS(b) == [w |-> ProjRoot(ws[b].working), s |-> ProjRoot(ws[b].staged), mk |-> ws[b].mkind, mc |-> ws[b].mcommit,
              conf |-> ProjConf(ws[b]), status |-> Status(b)]
\* the projection of the whole repository that the engine compares after EVERY step
Proj == [br |-> [b \in {x \in Branches : Exists(x)} |-> head[b]],
         ws |-> [b \in {x \in Branches : Exists(x)} |-> ProjWS(b)],
         cm |-> [c \in Cids |-> [p |-> Parents(c), root |-> ProjRoot(RootOf(c))]],
         cur |-> cur,
         st |-> [i \in 1..Len(stashes) |-> [br |-> stashes[i].branch, hd |-> stashes[i].head]],
         tg |-> [n \in {x \in TagNames : tags[x] # 0} |-> tags[n]]]

-----------------------------------------------------------------------------
(* History / last-action bookkeeping *)
Step(a, s, args, res, q) == [a |-> a, s |-> s, args |-> args, res |-> res, q |-> q, pre |-> <<>>]
Rec(st) == /\ last' = st
           /\ hist' = IF RecordHist THEN Append(hist, [a |-> st.a, s |-> st.s, args |-> st.args, res |-> st.res, q |-> st.q, exp |-> Proj'])
                      ELSE hist
\* Simulation steering (RecordHist = TRUE). TLC's simulator picks uniformly among the successor states, so an action
\* with many parameter values swamps the others: in simulation every parameter is ONE random draw (Pick), and failing
\* calls are generated only now and then (Rarely). Exhaustive configs (RecordHist = FALSE) take every value and every outcome.
\* (Both mention the variable hist on purpose: TLC evaluates constant-level expressions once and caches them,
\* which would freeze the random draw.)
Pick(S) == IF RecordHist THEN (IF S = {} THEN {} ELSE {RandomElement(IF Len(hist) >= 0 THEN S ELSE {})}) ELSE S
Rarely == ~RecordHist \/ RandomElement(1..(IF Len(hist) >= 0 THEN 4 ELSE 1)) = 1
On(a) == a \in Acts /\ (a \in RareActs => Rarely)
Unchanged == UNCHANGED <<commits, head, ws, cur, stashes, tags>>
NoQ == <<>>

SetWS(b, w) == ws' = [ws EXCEPT ![b] = w]
\* a new commit on branch b; the working set w is installed with it
NewCommit(b, parents, root, w) ==
    /\ commits' = Append(commits, [parents |-> parents, root |-> root])
    /\ head' = [head EXCEPT ![b] = NCommits + 1]
    /\ SetWS(b, w)
Room == NCommits < MaxCommits
Idle(b) == ws[b].mkind = "none" /\ ~AnyConf(ws[b])

Init == /\ commits = <<[parents |-> <<>>, root |-> EmptyRoot]>>
        /\ head = [b \in Branches |-> IF b = "main" THEN 1 ELSE 0]
        /\ ws = [b \in Branches |-> CleanWS(EmptyRoot)]
        /\ cur = [s \in Sessions |-> "main"]
        /\ stashes = <<>>
        /\ tags = [n \in TagNames |-> 0]
        /\ last = Step("Init", "", <<>>, "ok", NoQ)
        /\ hist = <<>>

-----------------------------------------------------------------------------
(* DML and DDL on the working root of the session's branch. Not generated while an operation is in progress
   on that branch (named restriction: conflict tables are read-only inputs of this core model). *)
SetTbl(b, t, tb) == SetWS(b, [ws[b] EXCEPT !.working[t] = tb])
Insert(s, t, k, v) ==
    LET b == cur[s]  tb == ws[b].working[t] IN
    /\ On("Insert") /\ Idle(b) /\ tb.ex /\ tb.rows[k] = NoRow
    /\ SetTbl(b, t, [tb EXCEPT !.rows[k] = Row(v, 0)])
    /\ UNCHANGED <<commits, head, cur, stashes, tags>>
    /\ Rec(Step("Insert", s, [t |-> t, k |-> k, v |-> v], "ok", NoQ))
Update(s, t, k, c, v) ==
    LET b == cur[s]  tb == ws[b].working[t] IN
    /\ On("Update") /\ Idle(b) /\ tb.ex /\ tb.rows[k] # NoRow
    /\ (c = "c2" => tb.nc = 2)
    /\ tb.rows[k][c] # v
    /\ SetTbl(b, t, [tb EXCEPT !.rows[k][c] = v])
    /\ UNCHANGED <<commits, head, cur, stashes, tags>>
    /\ Rec(Step("Update", s, [t |-> t, k |-> k, c |-> c, v |-> v], "ok", NoQ))
Delete(s, t, k) ==
    LET b == cur[s]  tb == ws[b].working[t] IN
    /\ On("Delete") /\ Idle(b) /\ tb.ex /\ tb.rows[k] # NoRow
    /\ SetTbl(b, t, [tb EXCEPT !.rows[k] = NoRow])
    /\ UNCHANGED <<commits, head, cur, stashes, tags>>
    /\ Rec(Step("Delete", s, [t |-> t, k |-> k], "ok", NoQ))
CreateTable(s, t) ==
    LET b == cur[s] IN
    /\ On("CreateTable") /\ Idle(b) /\ ~ws[b].working[t].ex
    /\ SetTbl(b, t, NewTable)
    /\ UNCHANGED <<commits, head, cur, stashes, tags>>
    /\ Rec(Step("CreateTable", s, [t |-> t], "ok", NoQ))
DropTable(s, t) ==
    LET b == cur[s] IN
    /\ On("DropTable") /\ Idle(b) /\ ws[b].working[t].ex
    /\ SetTbl(b, t, NoTable)
    /\ UNCHANGED <<commits, head, cur, stashes, tags>>
    /\ Rec(Step("DropTable", s, [t |-> t], "ok", NoQ))
AddColumn(s, t) ==
    LET b == cur[s]  tb == ws[b].working[t] IN
    /\ On("AddColumn") /\ MaxCols = 2 /\ Idle(b) /\ tb.ex /\ tb.nc = 1
    /\ SetTbl(b, t, [tb EXCEPT !.nc = 2])
    /\ UNCHANGED <<commits, head, cur, stashes, tags>>
    /\ Rec(Step("AddColumn", s, [t |-> t], "ok", NoQ))

-----------------------------------------------------------------------------
(* Staging and committing *)
Add(s, t) ==      \* dolt_add('t')
    LET b == cur[s] IN
    /\ On("Add") /\ ~HasConf(ws[b], t)
    /\ ws[b].working[t] # ws[b].staged[t]
    /\ SetWS(b, [ws[b] EXCEPT !.staged[t] = ws[b].working[t]])
    /\ UNCHANGED <<commits, head, cur, stashes, tags>>
    /\ Rec(Step("Add", s, [t |-> t], "ok", NoQ))
AddAll(s) ==      \* dolt_add('-A')
    LET b == cur[s] IN
    /\ On("AddAll") /\ ~AnyConf(ws[b])
    /\ ws[b].working # ws[b].staged
    /\ SetWS(b, [ws[b] EXCEPT !.staged = ws[b].working])
    /\ UNCHANGED <<commits, head, cur, stashes, tags>>
    /\ Rec(Step("AddAll", s, <<>>, "ok", NoQ))

\* dolt_commit('-m'): commits the staged root. With a merge in progress (dolt_merge) the commit gets the merged
\* commit as second parent and may be empty. all = TRUE is dolt_commit('-A','-m').
DoCommit(s, all, name) ==
    LET b == cur[s]  w == ws[b]
        staged == IF all THEN w.working ELSE w.staged
        par == IF w.mkind = "merge" THEN <<head[b], w.mcommit>> ELSE <<head[b]>>
    IN
    /\ On(name) /\ w.mkind \in {"none", "merge"} /\ ~AnyConf(w)
    /\ IF staged = HeadRoot(b) /\ w.mkind = "none"
       THEN Rarely /\ Unchanged /\ Rec(Step(name, s, <<>>, "err:nothing", NoQ))
       ELSE /\ Room
            /\ NewCommit(b, par, staged, [w EXCEPT !.staged = staged, !.mkind = "none", !.mcommit = 0, !.mpre = EmptyRoot])
            /\ UNCHANGED <<cur, stashes, tags>>
            /\ Rec(Step(name, s, <<>>, "ok", NoQ))
Commit(s) == DoCommit(s, FALSE, "Commit")
CommitAll(s) == DoCommit(s, TRUE, "CommitAll")

-----------------------------------------------------------------------------
(* Branches and tags *)
Branch(s, b2, c) ==    \* dolt_branch(b2, c)
    /\ On("Branch") /\ ~Exists(b2) /\ c \in Cids
    /\ head' = [head EXCEPT ![b2] = c]
    /\ SetWS(b2, CleanWS(RootOf(c)))
    /\ UNCHANGED <<commits, cur, stashes, tags>>
    /\ Rec(Step("Branch", s, [b |-> b2, c |-> c], "ok", NoQ))
Tag(s, n, c) ==        \* dolt_tag(n, c); an existing name is an error
    /\ On("Tag") /\ c \in Cids
    /\ IF tags[n] # 0 THEN Rarely /\ Unchanged /\ Rec(Step("Tag", s, [n |-> n, c |-> c], "err:exists", NoQ))
       ELSE /\ tags' = [tags EXCEPT ![n] = c] /\ UNCHANGED <<commits, head, ws, cur, stashes>>
            /\ Rec(Step("Tag", s, [n |-> n, c |-> c], "ok", NoQ))
DeleteTag(s, n) ==
    /\ On("DeleteTag") /\ tags[n] # 0
    /\ tags' = [tags EXCEPT ![n] = 0] /\ UNCHANGED <<commits, head, ws, cur, stashes>>
    /\ Rec(Step("DeleteTag", s, [n |-> n], "ok", NoQ))

-----------------------------------------------------------------------------
(* Checkout. Two actions because the code has two:
   CheckoutSession = dolt_checkout(b): DoltSession.SwitchWorkingSet, every branch keeps its own working set;
   CheckoutMove    = dolt_checkout('--move', b) (what the CLI does): MoveWorkingSetToBranch + CleanOldWorkingSet. *)
CheckoutSession(s, b2) ==
    /\ On("CheckoutSession") /\ Exists(b2) /\ b2 # cur[s]
    /\ cur' = [cur EXCEPT ![s] = b2]
    /\ UNCHANGED <<commits, head, ws, stashes, tags>>
    /\ Rec(Step("CheckoutSession", s, [b |-> b2], "ok", NoQ))

\* actions.moveModifiedTables + writeTableHashes for one table name: old head, new head, changed (working or staged).
\* "cf" = ErrCheckoutWouldOverwrite.
MoveTblIdeal(old, new, ch) ==
    IF new.ex THEN (IF old = ch THEN [cf |-> FALSE, tb |-> new] ELSE IF old = new THEN [cf |-> FALSE, tb |-> ch] ELSE [cf |-> TRUE, tb |-> new])
    ELSE IF ch.ex THEN (IF ~old.ex THEN [cf |-> FALSE, tb |-> ch] ELSE IF old # ch THEN [cf |-> TRUE, tb |-> ch] ELSE [cf |-> FALSE, tb |-> NoTable])
    ELSE [cf |-> FALSE, tb |-> NoTable]
\* NAMED DEVIATION "drop-lost" (checkout.go:301-304 with writeTableHashes:545-548): when the table is unchanged
\* between the two heads and was DROPPED in the changed root, resultMap gets the empty hash and writeTableHashes
\* skips empty hashes without removing the table from the new head: the uncommitted DROP TABLE is lost.
MoveTblAsCode(old, new, ch) ==
    IF new.ex /\ old # ch /\ old = new /\ ~ch.ex THEN [cf |-> FALSE, tb |-> new] ELSE MoveTblIdeal(old, new, ch)
\* repaired in dolt by ecacb8c (writeTableHashes treats an empty hash as a drop): the code now IS MoveTblIdeal; MoveTblAsCode
\* is kept as the record of the former behaviour (a regression to it is a plain mismatch at CheckoutMove)
MoveTbl(old, new, ch) == MoveTblIdeal(old, new, ch)
MoveRoot(oldR, newR, chR, F(_, _, _)) == [t \in Tables |-> F(oldR[t], newR[t], chR[t])]
HasChanges(b) == ws[b].working # ws[b].staged \/ ws[b].staged # HeadRoot(b)

CheckoutMove(s, b2) ==
    LET b == cur[s]  src == ws[b]  dst == ws[b2]
        mw == MoveRoot(HeadRoot(b), HeadRoot(b2), src.working, MoveTbl)
        ms == MoveRoot(HeadRoot(b), HeadRoot(b2), src.staged, MoveTbl)
        iw == MoveRoot(HeadRoot(b), HeadRoot(b2), src.working, MoveTblIdeal)
        is == MoveRoot(HeadRoot(b), HeadRoot(b2), src.staged, MoveTblIdeal)
        cf == \E t \in Tables : mw[t].cf \/ ms[t].cf
        dev == IF (\E t \in Tables : mw[t] # iw[t] \/ ms[t] # is[t]) THEN "drop-lost" ELSE ""
        args == [b |-> b2, dev |-> dev,
                 ideal |-> IF dev = "" THEN <<>> ELSE [res |-> "ok", same |-> FALSE, b |-> b2,
                                                        w |-> ProjRoot([t \in Tables |-> iw[t].tb]), s |-> ProjRoot([t \in Tables |-> is[t].tb])]]
    IN
    /\ On("CheckoutMove") /\ Exists(b2) /\ b2 # b /\ Idle(b) /\ Idle(b2)
    /\ IF HasChanges(b) /\ HasChanges(b2) /\ (src.working # dst.working \/ src.staged # dst.staged)
       THEN Unchanged /\ Rec(Step("CheckoutMove", s, [b |-> b2, dev |-> "", ideal |-> <<>>], "err:bothws", NoQ))
       ELSE IF ~HasChanges(b)
       THEN /\ cur' = [cur EXCEPT ![s] = b2] /\ UNCHANGED <<commits, head, ws, stashes, tags>>
            /\ Rec(Step("CheckoutMove", s, [b |-> b2, dev |-> "", ideal |-> <<>>], "ok", NoQ))
       ELSE IF cf
       THEN Unchanged /\ Rec(Step("CheckoutMove", s, [b |-> b2, dev |-> "", ideal |-> <<>>], "err:overwrite", NoQ))
       ELSE /\ cur' = [cur EXCEPT ![s] = b2]
            /\ ws' = [ws EXCEPT ![b2] = [dst EXCEPT !.working = [t \in Tables |-> mw[t].tb], !.staged = [t \in Tables |-> ms[t].tb]],
                                ![b] = CleanWS(HeadRoot(b))]
            /\ UNCHANGED <<commits, head, stashes, tags>>
            /\ Rec(Step("CheckoutMove", s, args, "ok", NoQ))

\* dolt_checkout('t'): restore the working table from the staged root (actions.MoveTablesFromHeadToWorking);
\* only for tables known to the index or HEAD
CheckoutTable(s, t) ==
    LET b == cur[s]  w == ws[b] IN
    /\ On("CheckoutTable") /\ Idle(b)
    /\ (w.staged[t].ex \/ HeadRoot(b)[t].ex) /\ w.working[t] # w.staged[t]
    /\ SetWS(b, [w EXCEPT !.working[t] = IF w.staged[t].ex THEN w.staged[t] ELSE HeadRoot(b)[t]])
    /\ UNCHANGED <<commits, head, cur, stashes, tags>>
    /\ Rec(Step("CheckoutTable", s, [t |-> t], "ok", NoQ))

-----------------------------------------------------------------------------
(* Reset *)
\* dolt_reset('--hard', c): actions.resetHardTables: HEAD, staged := c; working := c + untracked tables
\* (in working, not in staged) whose name is free in c (MoveUntrackedTables); any operation in progress is cleared.
HardRoots(w, c) ==
    [w EXCEPT !.working = [t \in Tables |-> IF RootOf(c)[t].ex THEN RootOf(c)[t]
                                           ELSE IF w.working[t].ex /\ ~w.staged[t].ex THEN w.working[t] ELSE NoTable],
              !.staged = RootOf(c), !.mkind = "none", !.mcommit = 0, !.mpre = EmptyRoot, !.conf = NoConf]
ResetHard(s, c) ==
    LET b == cur[s] IN
    /\ On("ResetHard") /\ c \in Cids
    /\ head' = [head EXCEPT ![b] = c]
    /\ SetWS(b, HardRoots(ws[b], c))
    /\ UNCHANGED <<commits, cur, stashes, tags>>
    /\ Rec(Step("ResetHard", s, [c |-> c], "ok", NoQ))
\* dolt_reset('--soft', c): actions.MoveHeadToRef only; index and working tables untouched
ResetSoft(s, c) ==
    LET b == cur[s] IN
    /\ On("ResetSoft") /\ c \in Cids /\ Idle(b) /\ c # head[b]
    /\ head' = [head EXCEPT ![b] = c]
    /\ UNCHANGED <<commits, ws, cur, stashes, tags>>
    /\ Rec(Step("ResetSoft", s, [c |-> c], "ok", NoQ))
\* dolt_reset(c) (mixed): HEAD and staged := c, working untouched
ResetMixed(s, c) ==
    LET b == cur[s] IN
    /\ On("ResetMixed") /\ c \in Cids /\ Idle(b) /\ c # head[b]
    /\ head' = [head EXCEPT ![b] = c]
    /\ SetWS(b, [ws[b] EXCEPT !.staged = RootOf(c)])
    /\ UNCHANGED <<commits, cur, stashes, tags>>
    /\ Rec(Step("ResetMixed", s, [c |-> c], "ok", NoQ))
\* dolt_reset() / dolt_reset('t'): actions.ResetSoftTables: staged tables := HEAD ("soft reset" of the statement)
ResetStaged(s, T) ==
    LET b == cur[s]  w == ws[b] IN
    /\ On("ResetStaged") /\ T # {}
    /\ \E t \in T : w.staged[t] # HeadRoot(b)[t]
    /\ SetWS(b, [w EXCEPT !.staged = [t \in Tables |-> IF t \in T THEN HeadRoot(b)[t] ELSE w.staged[t]]])
    /\ UNCHANGED <<commits, head, cur, stashes, tags>>
    /\ Rec(Step("ResetStaged", s, [ts |-> T], "ok", NoQ))

-----------------------------------------------------------------------------
(* Stash (dolt_stash('push'|'pop'|'drop', name)) *)
StashPush(s) ==
    LET b == cur[s]  w == ws[b]  h == HeadRoot(b)
        onlyUntracked == \A t \in Tables : w.working[t] # w.staged[t] => ~w.staged[t].ex      \* every unstaged delta is an add
        nochg == w.staged = h /\ (w.working = h \/ onlyUntracked)
        \* actions.StageModifiedAndDeletedTables
        s1 == [t \in Tables |-> IF w.staged[t].ex /\ w.working[t] # w.staged[t] THEN w.working[t] ELSE w.staged[t]]
        st == {t \in Tables : s1[t] # h[t]}
        added == {t \in st : ~h[t].ex}
        \* NAMED DEVIATION "stash-overwrites-untracked" (dolt_stash.go:128,156): the set of stashed tables is computed by NAME
        \* from the staged deltas; when the DROP of a table is staged and a table of that name exists in the working root
        \* (untracked), MoveTablesFromHeadToWorking overwrites it with HEAD's table although the stash only holds the
        \* drop: its rows are in neither place afterwards (and push;pop ends with the table dropped from the working
        \* root even when it was identical to HEAD's). Intended here: such a push is refused.
        clash == {t \in st : ~s1[t].ex /\ w.working[t].ex}
        dev == IF clash # {} THEN "stash-overwrites-untracked" ELSE ""
    IN
    /\ On("StashPush") /\ Idle(b)
    /\ IF nochg THEN Rarely /\ Unchanged /\ Rec(Step("StashPush", s, [dev |-> "", ideal |-> <<>>], "err:nochanges", NoQ))
       ELSE IF clash # {} /\ ~AsCode THEN Unchanged /\ Rec(Step("StashPush", s, [dev |-> "", ideal |-> <<>>], "err:untracked-clash", NoQ))
       ELSE /\ Len(stashes) < MaxStash
            /\ stashes' = <<[root |-> s1, head |-> head[b], branch |-> b, stage |-> added]>> \o stashes
            /\ SetWS(b, [w EXCEPT !.staged = h, !.working = [t \in Tables |-> IF t \in st THEN h[t] ELSE w.working[t]]])
            /\ UNCHANGED <<commits, head, cur, tags>>
            /\ Rec([Step("StashPush", s, [dev |-> dev, ideal |-> IF dev = "" THEN <<>> ELSE [res |-> "err:untracked-clash", same |-> TRUE]], "ok", NoQ)
                     EXCEPT !.pre = [working |-> w.working, staged |-> w.staged]])
RemoveAt(sq, i) == [j \in 1..(Len(sq) - 1) |-> IF j < i THEN sq[j] ELSE sq[j + 1]]
\* doStashPop: three-way merge of the stash root into the CURRENT working root with the stash's head commit as base;
\* tables that were new in the stash are staged again (and only those)
StashPop(s, i) ==
    LET b == cur[s]  w == ws[b]  e == stashes[i]
        m == MergeRoots(w.working, e.root, RootOf(e.head), FALSE)
    IN
    /\ On("StashPop") /\ i \in 1..Len(stashes) /\ Idle(b) /\ m.st # "unsup"
    /\ IF m.st \in {"moddel", "twice"} THEN Unchanged /\ Rec(Step("StashPop", s, [i |-> i - 1], "err:" \o m.st, NoQ))
       ELSE IF m.st = "conf" THEN Unchanged /\ Rec(Step("StashPop", s, [i |-> i - 1], "err:conflict", NoQ))
       ELSE /\ SetWS(b, [w EXCEPT !.working = m.root,
                                  !.staged = [t \in Tables |-> IF t \in e.stage THEN m.root[t] ELSE w.staged[t]]])
            /\ stashes' = RemoveAt(stashes, i)
            /\ UNCHANGED <<commits, head, cur, tags>>
            /\ Rec(Step("StashPop", s, [i |-> i - 1], "ok", NoQ))
StashDrop(s, i) ==
    /\ On("StashDrop") /\ i \in 1..Len(stashes)
    /\ stashes' = RemoveAt(stashes, i)
    /\ UNCHANGED <<commits, head, ws, cur, tags>>
    /\ Rec(Step("StashDrop", s, [i |-> i - 1], "ok", NoQ))

-----------------------------------------------------------------------------
(* Merge (dolt_merge(b2)), generated from a clean working set and when the merge base is unique *)
InProgress(w, kind, c, pre, m, stageAll) ==
    \* stageAll: cherry-pick/revert stage every merged table without artifacts; dolt_merge stages nothing on conflicts
    [w EXCEPT !.working = m.root,
              !.staged = IF stageAll THEN [t \in Tables |-> IF t \in m.art \/ (kind = "revert" /\ m.op[t] = "unmod") THEN w.staged[t] ELSE m.root[t]]
                         ELSE w.staged,
              !.mkind = kind, !.mcommit = c, !.mpre = pre, !.conf = m.cf]
Merge(s, b2) ==
    LET b == cur[s]  w == ws[b]  o == head[b]  t == head[b2]
        base == CHOOSE x \in LCAs(o, t) : TRUE
        m == MergeRoots(w.working, RootOf(t), RootOf(base), FALSE)
    IN
    /\ On("Merge") /\ Exists(b2) /\ b2 # b /\ Idle(b) /\ ~Dirty(b)
    /\ IF IsAnc(t, o) THEN Rarely /\ Unchanged /\ Rec(Step("Merge", s, [b |-> b2], "uptodate", NoQ))
       ELSE IF IsAnc(o, t)
       THEN /\ head' = [head EXCEPT ![b] = t] /\ SetWS(b, CleanWS(RootOf(t)))
            /\ UNCHANGED <<commits, cur, stashes, tags>>
            /\ Rec(Step("Merge", s, [b |-> b2], "ff", NoQ))
       ELSE \* a table modified on one side and dropped on the other is a SCHEMA conflict that dolt_merge keeps in the merge
            \* state (KeepSchemaConflicts); schema conflicts are not part of this core model: not generated
            /\ Cardinality(LCAs(o, t)) = 1 /\ m.st \notin {"unsup", "moddel"}
            /\ IF m.st = "twice" THEN Unchanged /\ Rec(Step("Merge", s, [b |-> b2], "err:" \o m.st, NoQ))
               ELSE IF m.st = "conf"
               THEN /\ SetWS(b, InProgress(w, "merge", t, w.working, m, FALSE))
                    /\ UNCHANGED <<commits, head, cur, stashes, tags>>
                    /\ Rec(Step("Merge", s, [b |-> b2], "conflict", NoQ))
               ELSE /\ Room
                    /\ NewCommit(b, <<o, t>>, m.root, CleanWS(m.root))
                    /\ UNCHANGED <<cur, stashes, tags>>
                    /\ Rec(Step("Merge", s, [b |-> b2], "ok", NoQ))

\* merge.AbortMerge (dolt_merge/dolt_cherry_pick/dolt_revert --abort): staged := HEAD, working := pre-merge working.
\* NAMED DEVIATION "revert-abort-wipes-dirty" (revert/revert.go:388-425): AbortRevert afterwards sets working and staged to
\* the root of the HEAD the revert started from ("so the working set is clean") -- but dolt_revert accepts a working set
\* with unstaged changes in tables the reverted commit does not touch (dirtyTablesConflictWithRevert), and those
\* uncommitted changes (new tables, edited rows) are wiped by --abort.
Abort(s) ==
    LET b == cur[s]  w == ws[b]
        ideal == [CleanWS(HeadRoot(b)) EXCEPT !.working = w.mpre]
        ascode == IF w.mkind = "revert" THEN CleanWS(HeadRoot(b)) ELSE ideal
        dev == IF AsCode /\ ascode # ideal THEN "revert-abort-wipes-dirty" ELSE ""
    IN
    /\ On("Abort") /\ w.mkind # "none"
    /\ SetWS(b, IF AsCode THEN ascode ELSE ideal)
    /\ UNCHANGED <<commits, head, cur, stashes, tags>>
    /\ Rec(Step("Abort", s, [kind |-> w.mkind, dev |-> dev,
                             ideal |-> IF dev = "" THEN <<>> ELSE [res |-> "ok", same |-> FALSE, b |-> b,
                                                                    w |-> ProjRoot(ideal.working), s |-> ProjRoot(ideal.staged)]], "ok", NoQ))

\* dolt_conflicts_resolve('--ours'|'--theirs', t)
Resolve(s, t, side) ==
    LET b == cur[s]  w == ws[b]  tb == w.working[t] IN
    /\ On("Resolve") /\ HasConf(w, t)
    /\ SetWS(b, [w EXCEPT !.conf[t] = [k \in Keys |-> NoCf],
                          !.working[t] = IF side = "ours" THEN tb
                                         ELSE [tb EXCEPT !.rows = [k \in Keys |-> IF w.conf[t][k] # NoCf THEN w.conf[t][k].t ELSE tb.rows[k]]]])
    /\ UNCHANGED <<commits, head, cur, stashes, tags>>
    /\ Rec(Step("Resolve", s, [t |-> t, side |-> side], "ok", NoQ))

\* dolt_cherry_pick('--continue') / dolt_revert('--continue')
Continue(s) ==
    LET b == cur[s]  w == ws[b] IN
    /\ On("Continue") /\ w.mkind \in {"cherry", "revert"}
    /\ IF AnyConf(w) THEN Unchanged /\ Rec(Step("Continue", s, [kind |-> w.mkind], "conflict", NoQ))
       ELSE IF w.staged # w.working THEN Unchanged /\ Rec(Step("Continue", s, [kind |-> w.mkind], "err:unstaged", NoQ))
       ELSE /\ Room
            /\ NewCommit(b, <<head[b]>>, w.staged, CleanWS(w.staged))
            /\ UNCHANGED <<cur, stashes, tags>>
            /\ Rec(Step("Continue", s, [kind |-> w.mkind], "ok", NoQ))

-----------------------------------------------------------------------------
(* Cherry-pick: CherryPick(c) = Merge3(base: parent(c), ours: HEAD/working, theirs: c) *)
CherryPick(s, c) ==
    LET b == cur[s]  w == ws[b]
        m == MergeRoots(w.working, RootOf(c), RootOf(Parent0(c)), TRUE)
        E(r) == Rarely /\ Unchanged /\ Rec(Step("CherryPick", s, [c |-> c], r, NoQ))
    IN
    /\ On("CherryPick") /\ c \in Cids /\ w.mkind = "none" /\ ~AnyConf(w)
    /\ IF w.working # HeadRoot(b) \/ w.staged # HeadRoot(b) THEN E("err:dirty")
       ELSE IF Len(Parents(c)) > 1 THEN E("err:mergecommit")
       ELSE IF Len(Parents(c)) = 0 THEN E("err:noparent")
       ELSE IF RootOf(c) = RootOf(Parent0(c)) THEN E("err:empty")
       ELSE /\ m.st # "unsup"
            /\ IF m.st \in {"moddel", "twice"} THEN E("err:" \o m.st)
               ELSE IF m.st = "ok" /\ m.root = HeadRoot(b) THEN E("err:nochange")
               ELSE IF m.st = "conf"
               THEN /\ SetWS(b, InProgress(w, "cherry", c, w.working, m, TRUE))
                    /\ UNCHANGED <<commits, head, cur, stashes, tags>>
                    /\ Rec(Step("CherryPick", s, [c |-> c], "conflict", NoQ))
               ELSE /\ Room
                    /\ NewCommit(b, <<head[b]>>, m.root, CleanWS(m.root))
                    /\ UNCHANGED <<cur, stashes, tags>>
                    /\ Rec(Step("CherryPick", s, [c |-> c], "ok", NoQ))

(* Revert: Revert(c) = Merge3(base: c, ours: working, theirs: parent(c)); unlike cherry-pick the working set may
   be dirty as long as nothing is staged and no dirty table is touched by c (dirtyTablesConflictWithRevert) *)
Revert(s, c) ==
    LET b == cur[s]  w == ws[b]
        dirtyT == {t \in Tables : w.working[t] # w.staged[t]}
        touched == IF Len(Parents(c)) = 0 THEN Tables ELSE {t \in Tables : RootOf(c)[t] # RootOf(Parent0(c))[t]}
        m == MergeRoots(w.working, RootOf(Parent0(c)), RootOf(c), FALSE)
        staged2 == [t \in Tables |-> IF m.op[t] = "unmod" THEN w.staged[t] ELSE m.root[t]]
        E(r) == Rarely /\ Unchanged /\ Rec(Step("Revert", s, [c |-> c], r, NoQ))
    IN
    /\ On("Revert") /\ c \in Cids /\ w.mkind = "none" /\ ~AnyConf(w)
    /\ IF w.staged # HeadRoot(b) THEN E("err:dirty")
       ELSE IF dirtyT \cap touched # {} THEN E("err:dirty")
       ELSE IF Len(Parents(c)) = 0 THEN E("err:noparent")
       ELSE /\ m.st # "unsup"
            /\ IF m.st \in {"moddel", "twice"} THEN E("err:" \o m.st)
               ELSE IF m.st = "conf"
               THEN /\ SetWS(b, InProgress(w, "revert", c, w.working, m, TRUE))
                    /\ UNCHANGED <<commits, head, cur, stashes, tags>>
                    /\ Rec(Step("Revert", s, [c |-> c], "conflict", NoQ))
               ELSE IF staged2 = HeadRoot(b) THEN E("err:nothing")
               ELSE /\ Room
                    /\ NewCommit(b, <<head[b]>>, staged2, [CleanWS(staged2) EXCEPT !.working = m.root])
                    /\ UNCHANGED <<cur, stashes, tags>>
                    /\ Rec(Step("Revert", s, [c |-> c], "ok", NoQ))

-----------------------------------------------------------------------------
(* Rebase, atomically: dolt_rebase('-i', up); UPDATE dolt_rebase ...; dolt_rebase('--continue'); and, if the
   continue stops (invalid plan, conflict), dolt_rebase('--abort'). The plan is the list of the branch's commits
   not reachable from up (oldest first, a first-parent chain without merge commits -- named restriction) with
   one action each. Every pick is the cherry-pick above with rebase's empty-commit rule: a commit whose merge
   changes nothing is dropped; squash/fixup amend the previous commit. *)
RECURSIVE Chain(_, _)
Chain(c, up) == IF IsAnc(c, up) THEN <<>> ELSE Chain(Parent0(c), up) \o <<c>>        \* oldest first
RECURSIVE ChainOK(_, _)
ChainOK(c, up) == IsAnc(c, up) \/ (Len(Parents(c)) = 1 /\ ChainOK(Parent0(c), up))
PlanActs == {"pick", "squash", "fixup", "drop", "reword"}
PlanValid(pl) == \A i \in 1..Len(pl) : pl[i] \in {"squash", "fixup"} => \E j \in 1..(i - 1) : pl[j] \in {"pick", "reword"}
\* state of the fold: cp = parents of the commit being built on top of, cr = its root, new = commits created so far
\* (each [parents, root]; parent id 0-k = the k-th new commit), cid = id of the current tip (negative: new commit)
RECURSIVE Fold(_, _, _, _)
Fold(ch, pl, i, acc) ==
    IF i > Len(ch) \/ acc.st # "ok" THEN acc
    ELSE LET c == ch[i]  a == pl[i]
             m == MergeRoots(acc.root, RootOf(c), RootOf(Parent0(c)), TRUE)
         IN IF a = "drop" THEN Fold(ch, pl, i + 1, acc)
            ELSE IF m.st # "ok" THEN [acc EXCEPT !.st = m.st]
            ELSE IF m.root = acc.root THEN Fold(ch, pl, i + 1, acc)
                 \* nothing to commit: dropped. (CommitBecomesEmptyHandling = drop sets SkipEmpty, and GetCommitStaged tests
                 \* SkipEmpty before AllowEmpty / Amend: also a commit that was empty from the start and a squash that changes
                 \* nothing leave HEAD as it is.)
            ELSE IF a \in {"pick", "reword"}
                 THEN Fold(ch, pl, i + 1, [acc EXCEPT !.new = Append(acc.new, [parents |-> <<acc.tip>>, root |-> m.root]),
                                                     !.tip = NCommits + Len(acc.new) + 1, !.root = m.root])
                 ELSE \* squash / fixup: amend the tip (the upstream commit itself if nothing was created yet)
                      IF acc.new = <<>>
                      THEN Fold(ch, pl, i + 1, [acc EXCEPT !.new = <<[parents |-> Parents(acc.tip), root |-> m.root]>>,
                                                          !.tip = NCommits + 1, !.root = m.root])
                      ELSE Fold(ch, pl, i + 1, [acc EXCEPT !.new[Len(acc.new)].root = m.root, !.root = m.root])
Rebase(s, up, pl) ==
    LET b == cur[s]  w == ws[b]
        ch == Chain(head[b], up)
        f == Fold(ch, pl, 1, [st |-> "ok", new |-> <<>>, tip |-> up, root |-> RootOf(up)])
        E(r) == Rarely /\ Unchanged /\ Rec(Step("Rebase", s, [up |-> up, plan |-> pl, chain |-> ch], r, NoQ))
    IN
    /\ On("Rebase") /\ up \in Cids /\ w.mkind = "none" /\ ~AnyConf(w)
    /\ ChainOK(head[b], up)
    /\ Len(pl) = Len(ch)
    /\ IF w.working # HeadRoot(b) \/ w.staged # HeadRoot(b) THEN pl = [i \in 1..Len(ch) |-> "pick"] /\ E("err:dirty")
       ELSE IF ch = <<>> THEN E("err:nocommits")
       ELSE IF ~PlanValid(pl) THEN E("err:plan")
       ELSE /\ f.st # "unsup"
            /\ IF f.st = "conf" THEN E("conflict-aborted")
               ELSE IF f.st \in {"moddel", "twice"} THEN E("err:" \o f.st)
               ELSE /\ NCommits + Len(f.new) <= MaxCommits
                    /\ commits' = commits \o f.new
                    /\ head' = [head EXCEPT ![b] = f.tip]
                    /\ SetWS(b, CleanWS(f.root))
                    /\ UNCHANGED <<cur, stashes, tags>>
                    /\ Rec(Step("Rebase", s, [up |-> up, plan |-> pl, chain |-> ch], "ok", NoQ))

-----------------------------------------------------------------------------
(* Read-only query steps: answers computed by TLC, asked of the real repository by the engine *)
Query(a, s, args, q) == /\ RecordHist /\ On(a) /\ Unchanged /\ Rec(Step(a, s, args, "ok", q))
ChildrenIn(a, h) == {x \in AncSet(h) : \E i \in 1..Len(Parents(x)) : Parents(x)[i] = a}
DiffTableLists(s, a, b) == IsAnc(b, head[cur[s]]) /\ Parents(b) = <<a>>
DiffTableTables(s, b) == {t \in Tables : \A x \in AncSet(head[cur[s]]) : IsAnc(b, x) => RootOf(x)[t].ex}
\* C32: dolt_diff(), dolt_diff_<t> (to_commit = b, when a is b's first parent), dolt_commit_diff_<t>, dolt_patch()
QDiff(s) == \E a \in {RandomElement(Cids)} : \E b \in {RandomElement(Cids)} :
              Query("QDiff", s, [from |-> a, to |-> b],
                    [d |-> TableDiff(RootOf(a), RootOf(b)), to |-> ProjRoot(RootOf(b)),
                     \* tables for which dolt_diff_<t> (the history of the CURRENT table, walked back from HEAD until the table
                     \* is missing) lists this very diff: b is a non-merge commit of the session's history, a its parent, and the
                     \* table exists in b and in every commit between b and HEAD. dt: a has no other child in that history;
                     \* dtfork: it has (a fork that was merged back) -- see the engine: DiffPartitions keeps ONE child per parent.
                     dt |-> IF DiffTableLists(s, a, b) /\ Cardinality(ChildrenIn(a, head[cur[s]])) = 1 THEN DiffTableTables(s, b) ELSE {},
                     dtfork |-> IF DiffTableLists(s, a, b) /\ Cardinality(ChildrenIn(a, head[cur[s]])) > 1 THEN DiffTableTables(s, b) ELSE {}])
\* C33: dolt_history_<t> of the session's branch
QHistory(s) == Query("QHistory", s, <<>>, [t \in {x \in Tables : ws[cur[s]].working[x].ex} |->
                                              [nc |-> ws[cur[s]].working[t].nc, h |-> History(cur[s], t)]])
\* C33: HEAD~n of the session's branch
QAncestor(s) == \E n \in {RandomElement(0..3)} : Query("QAncestor", s, [n |-> n], [c |-> FirstAnc(head[cur[s]], n)])

-----------------------------------------------------------------------------
Plans(n) == [1..n -> PlanActs]
\* simulation draws one plan (all plans would swamp the other actions); exhaustive configs take every plan
PlanChoice(n) == IF RecordHist THEN {RandomElement(Plans(n))} ELSE Plans(n)
\* parameter choices of the DML actions: only values for which the statement applies
WTables(s) == {t \in Tables : ws[cur[s]].working[t].ex}
FreeKeys(s, t) == {k \in Keys : ws[cur[s]].working[t].rows[k] = NoRow}
UsedKeys(s, t) == {k \in Keys : ws[cur[s]].working[t].rows[k] # NoRow}
ColsOf(s, t) == IF ws[cur[s]].working[t].nc = 2 THEN {"c1", "c2"} ELSE {"c1"}
Next ==
    \E s \in Pick(Sessions) :
       \/ \E t \in Pick(WTables(s)) : \E k \in Pick(FreeKeys(s, t)) : \E v \in Pick(0..NV) : Insert(s, t, k, v)
       \/ \E t \in Pick(WTables(s)) : \E k \in Pick(UsedKeys(s, t)) : \E c \in Pick(ColsOf(s, t)) :
             \E v \in Pick((0..NV) \ {ws[cur[s]].working[t].rows[k][c]}) : Update(s, t, k, c, v)
       \/ \E t \in Pick(WTables(s)) : \E k \in Pick(UsedKeys(s, t)) : Delete(s, t, k)
       \/ \E t \in Pick(Tables) :
            \/ CreateTable(s, t) \/ DropTable(s, t) \/ AddColumn(s, t) \/ Add(s, t) \/ CheckoutTable(s, t)
            \/ ResetStaged(s, {t}) \/ (\E sd \in Pick({"ours", "theirs"}) : Resolve(s, t, sd))
       \/ AddAll(s) \/ Commit(s) \/ CommitAll(s) \/ ResetStaged(s, Tables)
       \/ \E b2 \in Pick(Branches) : CheckoutSession(s, b2) \/ CheckoutMove(s, b2) \/ Merge(s, b2)
                                     \/ (\E c \in Pick(Cids) : Branch(s, b2, c))
       \/ \E c \in Pick(Cids) : ResetHard(s, c)
       \/ \E c \in Pick(Cids) : ResetSoft(s, c)
       \/ \E c \in Pick(Cids) : ResetMixed(s, c)
       \/ \E c \in Pick(Cids) : CherryPick(s, c)
       \/ \E c \in Pick(Cids) : Revert(s, c)
       \/ \E c \in Pick(Cids) : \E n \in Pick(TagNames) : Tag(s, n, c)
       \/ \E c \in Pick(Cids) : (ChainOK(head[cur[s]], c) /\ Len(Chain(head[cur[s]], c)) <= MaxPlan
                                  /\ \E pl \in PlanChoice(Len(Chain(head[cur[s]], c))) : Rebase(s, c, pl))
       \/ \E n \in Pick(TagNames) : DeleteTag(s, n)
       \/ StashPush(s) \/ (\E i \in Pick(1..Len(stashes)) : StashPop(s, i) \/ StashDrop(s, i))
       \/ Abort(s) \/ Continue(s)
       \/ QDiff(s) \/ QHistory(s) \/ QAncestor(s)

Spec == Init /\ [][Next]_vars

-----------------------------------------------------------------------------
(* What TLC checks on the model *)
RowOK(r, nc) == r = NoRow \/ (r.c1 \in 0..NV /\ r.c2 \in 0..NV /\ (nc = 1 => r.c2 = 0))
TableOK(tb) == IF tb.ex THEN \A k \in Keys : RowOK(tb.rows[k], tb.nc) ELSE tb = NoTable
RootOK(r) == \A t \in Tables : TableOK(r[t])
TypeOK ==
    /\ \A c \in Cids : RootOK(RootOf(c)) /\ \A i \in 1..Len(Parents(c)) : Parents(c)[i] \in 1..(c - 1)
    /\ \A b \in Branches : head[b] \in 0..NCommits
    /\ \A b \in Branches : Exists(b) => RootOK(ws[b].working) /\ RootOK(ws[b].staged)
    /\ \A s \in Sessions : Exists(cur[s])
    /\ \A i \in 1..Len(stashes) : stashes[i].head \in Cids /\ RootOK(stashes[i].root)
    /\ \A n \in TagNames : tags[n] \in 0..NCommits
    \* conflicts exist only while an operation is in progress; a conflicted key still holds ours
    /\ \A b \in Branches : AnyConf(ws[b]) => ws[b].mkind # "none"
    /\ \A b \in Branches, t \in Tables, k \in Keys : ws[b].conf[t][k] # NoCf => ws[b].working[t].rows[k] = ws[b].conf[t][k].o

\* C32 on the model: the diff of two roots applied to the first yields the second -- for all pairs of commit roots
\* and working roots of the state
AllRoots == {RootOf(c) : c \in Cids} \cup {ws[b].working : b \in {x \in Branches : Exists(x)}}
DiffApplies == \A ra \in AllRoots, rb \in AllRoots : ApplyDiff(ra, TableDiff(ra, rb)) = rb
DiffMinimal == \A ra \in AllRoots, rb \in AllRoots : \A t \in DOMAIN TableDiff(ra, rb) :
                  LET d == TableDiff(ra, rb)[t] IN
                  \A k \in Keys : (\E i \in 1..Len(d.rows) : d.rows[i].k = k) <=> ra[t].rows[k] # rb[t].rows[k]

\* Action properties. They are stated on (last', state, state') and therefore checked on every transition TLC
\* generates. Each has the shape [][antecedent => Holds(consequent)]_vars; Holds marks the consequent so that the
\* check can read from TLC's coverage how often the antecedent was true (vacuity guard).
Holds(e) ==
    e
Did(a, r) == last'.a = a /\ last'.res = r
\* next-state versions of the read operators (B0 below is already an action-level expression)
RootOfP(c) == commits'[c].root
HeadRootP(b) == commits'[head'[b]].root
ParentsP(c) == commits'[c].parents
DirtyP(b) == ws'[b].working # HeadRootP(b) \/ ws'[b].staged # HeadRootP(b) \/ AnyConf(ws'[b])
B0 == cur[last'.s]                       \* branch of the acting session before the step

\* ---- C31
\* reverting the latest commit (clean working set) restores its parent's data
RevertLatestRestoresParent ==
    [][(Did("Revert", "ok") /\ last'.args.c = head[B0] /\ ~Dirty(B0))
         => Holds(HeadRootP(B0) = RootOf(Parent0(head[B0])) /\ ws'[B0].working = RootOf(Parent0(head[B0])))]_vars
\* cherry-picking a commit onto its own parent reproduces its data
CherryPickOntoParentReproduces ==
    [][(Did("CherryPick", "ok") /\ Parent0(last'.args.c) = head[B0]) => Holds(HeadRootP(B0) = RootOf(last'.args.c))]_vars
\* a successful cherry-pick / revert appends exactly one commit whose only parent is the old HEAD and whose data is the
\* three-way merge of the definition, without conflicts; the working set follows
CherryPickIsMerge3 ==
    [][Did("CherryPick", "ok") =>
         Holds(LET c == last'.args.c  m == MergeRoots(ws[B0].working, RootOf(c), RootOf(Parent0(c)), TRUE) IN
               /\ NCommits' = NCommits + 1 /\ ParentsP(head'[B0]) = <<head[B0]>>
               /\ m.st = "ok" /\ HeadRootP(B0) = m.root /\ ~DirtyP(B0))]_vars
RevertIsMerge3 ==
    [][Did("Revert", "ok") =>
         Holds(LET c == last'.args.c  m == MergeRoots(ws[B0].working, RootOf(Parent0(c)), RootOf(c), FALSE) IN
               /\ NCommits' = NCommits + 1 /\ ParentsP(head'[B0]) = <<head[B0]>>
               /\ m.st = "ok" /\ ws'[B0].working = m.root
               \* only tables the revert touched were committed
               /\ \A t \in Tables : HeadRootP(B0)[t] \in {m.root[t], HeadRoot(B0)[t]})]_vars
\* a conflicting cherry-pick / revert creates no commit, remembers the pre-state for --abort and keeps ours in the table
ConflictLeavesInProgress ==
    [][(Did("CherryPick", "conflict") \/ Did("Revert", "conflict")) =>
         Holds(head' = head /\ commits' = commits /\ ws'[B0].mpre = ws[B0].working /\ AnyConf(ws'[B0])
               /\ ws'[B0].mkind \in {"cherry", "revert"})]_vars
\* --abort restores the working set the operation started from
AbortRestores ==
    [][Did("Abort", "ok") => Holds(ws'[B0].working = ws[B0].mpre /\ ws'[B0].staged = HeadRoot(B0) /\ ~AnyConf(ws'[B0]) /\ head' = head)]_vars
\* rebase: the branch ends clean on new commits above `up`, other branches untouched
RebaseShape ==
    [][Did("Rebase", "ok") =>
         Holds(/\ ~DirtyP(B0)
               /\ \A b \in Branches : b # B0 => head'[b] = head[b] /\ ws'[b] = ws[b]
               /\ NCommits' >= NCommits)]_vars
\* a plan of picks/rewords = cherry-picking the kept commits in plan order (folded independently of Fold here)
RECURSIVE PickAll(_, _, _)
PickAll(ch, i, r) == IF i > Len(ch) THEN r
                     ELSE PickAll(ch, i + 1, MergeRoots(r, RootOf(ch[i]), RootOf(Parent0(ch[i])), TRUE).root)
RebaseIsCherryPicks ==
    [][(Did("Rebase", "ok") /\ \A i \in 1..Len(last'.args.plan) : last'.args.plan[i] # "drop") =>
         Holds(HeadRootP(B0) = PickAll(last'.args.chain, 1, RootOf(last'.args.up)))]_vars
\* dropping everything leaves the branch on `up`; rebasing onto an ancestor with picks only changes no data
RebaseDropAll ==
    [][(Did("Rebase", "ok") /\ \A i \in 1..Len(last'.args.plan) : last'.args.plan[i] = "drop") => Holds(head'[B0] = last'.args.up)]_vars

\* ---- C33 (model side): history is immutable -- a commit keeps its parents and data for ever, refs point to commits
HistoryImmutable == [][Holds(\A c \in Cids : commits'[c] = commits[c])]_vars

\* ---- C34
\* stash push immediately followed by pop of that entry restores the working contents exactly, and the staged
\* contents up to the documented git-like rule (every table is either as staged before, as in HEAD, or as in working)
PopAfterPushRestores ==
    [][(Did("StashPop", "ok") /\ last.a = "StashPush" /\ last.res = "ok" /\ last'.args.i = 0 /\ last.s = last'.s)
         => Holds(\E pre \in {last.pre} :
              /\ ws'[B0].working = pre.working
              /\ \A t \in Tables : /\ ws'[B0].staged[t] \in {pre.staged[t], pre.working[t], HeadRoot(B0)[t]}
                                   /\ (~HeadRoot(B0)[t].ex /\ pre.staged[t] = pre.working[t]) => ws'[B0].staged[t] = pre.staged[t])]_vars
\* a push leaves the tracked tables of the working set equal to HEAD and nothing staged; untracked tables stay
PushCleans ==
    [][Did("StashPush", "ok") =>
         Holds(ws'[B0].staged = HeadRoot(B0)
               /\ \A t \in Tables : /\ ws'[B0].working[t] \in {HeadRoot(B0)[t], ws[B0].working[t]}
                                    /\ (ws[B0].staged[t].ex \/ HeadRoot(B0)[t].ex) => ws'[B0].working[t] = HeadRoot(B0)[t])]_vars
\* after a hard reset every tracked table of working and staged equals the target commit; untracked tables are untouched
HardResetEqualsCommit ==
    [][Did("ResetHard", "ok") =>
         Holds(LET c == last'.args.c  w2 == ws'[B0] IN
               /\ head'[B0] = c /\ w2.staged = RootOf(c) /\ w2.mkind = "none" /\ ~AnyConf(w2)
               /\ \A t \in Tables : IF RootOf(c)[t].ex \/ t \notin Untracked(B0) THEN w2.working[t] = RootOf(c)[t]
                                    ELSE w2.working[t] = ws[B0].working[t])]_vars
\* a soft reset never touches working tables: the table form changes only staged tables, --soft <rev> only HEAD, mixed HEAD + staged
SoftResetTouchesOnlyStaged ==
    [][Did("ResetStaged", "ok") =>
         Holds(head' = head /\ ws'[B0].working = ws[B0].working
               /\ \A t \in Tables : ws'[B0].staged[t] \in {ws[B0].staged[t], HeadRoot(B0)[t]})]_vars
SoftRefResetMovesOnlyHead == [][Did("ResetSoft", "ok") => Holds(ws' = ws /\ head'[B0] = last'.args.c)]_vars
MixedResetKeepsWorking ==
    [][Did("ResetMixed", "ok") => Holds(ws'[B0].working = ws[B0].working /\ ws'[B0].staged = RootOf(last'.args.c))]_vars
\* a checkout either carries every uncommitted change over (source left clean) or fails and leaves both working sets intact;
\* a session checkout never changes any working set
Carried(old, new, ch, res) == \A t \in Tables : IF ch[t] # old[t] THEN res[t] = ch[t] ELSE res[t] = new[t]
SessionCheckoutKeepsWorkingSets == [][last'.a = "CheckoutSession" => Holds(ws' = ws /\ head' = head)]_vars
CheckoutNeverLoses ==
    [][(Did("CheckoutMove", "ok") /\ HasChanges(B0)) =>
         Holds(LET b2 == last'.args.b IN
               /\ Carried(HeadRoot(B0), HeadRoot(b2), ws[B0].working, ws'[b2].working)
               /\ Carried(HeadRoot(B0), HeadRoot(b2), ws[B0].staged, ws'[b2].staged)
               /\ ~DirtyP(B0))]_vars
CheckoutFailureKeepsBoth ==
    [][(last'.a = "CheckoutMove" /\ last'.res # "ok") => Holds(ws' = ws /\ cur' = cur /\ head' = head)]_vars
\* every failing statement leaves no trace
ErrorsLeaveNoTrace == [][(last'.res \notin {"ok", "ff", "conflict"}) => Holds(UNCHANGED view)]_vars

\* emission of finished behaviours in simulation mode
Emit == Len(hist) < D \/ PrintT(ToJson(hist))
=============================================================================
