// Engine E9-query (C26): every query of a TLC-generated case is run on dolt (in-process SQL engine over an on-disk
// repository, through zz_verif/sqlh) AND on a go-mysql-server memory-engine instance holding the same data, in this
// process.  A *real* mismatch is dolt != memory engine (the oracle the property names).  The TLA+ expectation shipped
// with the case (spec/Query.tla, Eval) is the third opinion: both engines agreeing against it is a "spec" mismatch.
//
// case: {"data": {"t": [[pk,a,s]..], "u": [[pk,a,c]..], "t0": [...], "u0": [...]},       cells are SQL literal texts
//        "queries": [{"sql": "... {t} ... {u} ...", "asof": bool, "ordered": bool, "kind": "...", "exp": [[cell..]..]}],
//        "binding": {"filler": n, "seed": s}}
// {t}/{u} are replaced by `t` / `t AS OF 'c0'` on dolt and `t` / `t_c0` on the memory engine.
// Binding (amplification): `filler` extra rows with primary keys >= 1000 and a NULL / out-of-palette `a`, identical in both
// engines, so that dolt's tables and indexes span several chunks; every predicate of the generator is false or unknown on them
// only when the engine is told to (filler rows have a = 1000+, s = 'zz', and the queries get `AND t.pk < 1000` appended).
package main

import (
	"context"
	"fmt"
	"io"
	"math/rand"
	"os"
	"sort"
	"strings"

	gms "github.com/dolthub/go-mysql-server"
	"github.com/dolthub/go-mysql-server/memory"
	"github.com/dolthub/go-mysql-server/sql"

	"github.com/dolthub/dolt/go/zz_verif/common"
	"github.com/dolthub/dolt/go/zz_verif/sqlh"
)

type memEngine struct {
	eng *gms.Engine
	ctx *sql.Context
}

func newMem() *memEngine {
	db := memory.NewDatabase("db1")
	pro := memory.NewDBProvider(db)
	eng := gms.NewDefault(pro)
	sess := memory.NewSession(sql.NewBaseSession(), pro)
	ctx := sql.NewContext(context.Background(), sql.WithSession(sess))
	ctx.SetCurrentDatabase("db1")
	return &memEngine{eng: eng, ctx: ctx}
}

func (m *memEngine) query(q string) (rows [][]any, err error) {
	defer func() {
		if p := recover(); p != nil {
			err = fmt.Errorf("PANIC in memory engine for %q: %v", q, p)
		}
	}()
	sch, it, _, err := m.eng.Query(m.ctx, q)
	if err != nil {
		return nil, err
	}
	for {
		r, err := it.Next(m.ctx)
		if err == io.EOF {
			break
		}
		if err != nil {
			it.Close(m.ctx)
			return nil, err
		}
		row := make([]any, len(r))
		for i, v := range r {
			row[i] = sqlh.Norm(m.ctx, v, sch, i)
		}
		rows = append(rows, row)
	}
	return rows, it.Close(m.ctx)
}

func (m *memEngine) must(q string) {
	if _, err := m.query(q); err != nil {
		panic(fmt.Sprintf("memory engine set-up failed: %s: %v", q, err))
	}
}

const ddlT = "(pk INT PRIMARY KEY, a INT NULL, s VARCHAR(8) NULL, KEY ia (a))"
const ddlU = "(pk INT PRIMARY KEY, a INT NULL, c INT NULL, KEY ua (a))"

func insertSQL(table string, rows []any, filler [][]string) string {
	var vals []string
	for _, r := range rows {
		cells := r.([]any)
		cs := make([]string, len(cells))
		for i, c := range cells {
			cs[i] = c.(string)
		}
		vals = append(vals, "("+strings.Join(cs, ", ")+")")
	}
	for _, f := range filler {
		vals = append(vals, "("+strings.Join(f, ", ")+")")
	}
	if len(vals) == 0 {
		return ""
	}
	return "INSERT INTO " + table + " VALUES " + strings.Join(vals, ", ")
}

// countNull counts SQL NULLs in column col of the model rows and the filler rows, capped at 2
func countNull(rows []any, filler [][]string, col int) int {
	n := 0
	for _, r := range rows {
		if r.([]any)[col].(string) == "NULL" {
			n++
		}
	}
	for _, f := range filler {
		if f[col] == "NULL" {
			n++
		}
	}
	if n > 2 {
		n = 2
	}
	return n
}

func canonRows(rows [][]any, ordered bool) []string {
	out := make([]string, len(rows))
	for i, r := range rows {
		parts := make([]string, len(r))
		for j, v := range r {
			switch x := v.(type) {
			case nil:
				parts[j] = "NULL"
			case string:
				parts[j] = x
			case float64:
				if x == float64(int64(x)) {
					parts[j] = fmt.Sprint(int64(x))
				} else {
					parts[j] = fmt.Sprint(x)
				}
			default:
				parts[j] = fmt.Sprint(v)
			}
		}
		out[i] = strings.Join(parts, ",")
	}
	if !ordered {
		sort.Strings(out)
	}
	return out
}

func expRows(exp any, ordered bool) []string {
	rows := exp.([]any)
	out := make([]string, len(rows))
	for i, r := range rows {
		cells := r.([]any)
		parts := make([]string, len(cells))
		for j, c := range cells {
			parts[j] = strings.Trim(c.(string), "'")
		}
		out[i] = strings.Join(parts, ",")
	}
	if !ordered {
		sort.Strings(out)
	}
	return out
}

type mismatch struct {
	Kind   string `json:"kind"`
	Fp     string `json:"fp"`
	Detail string `json:"detail"`
	Query  int    `json:"query"`
}

func run(c map[string]any) common.Result {
	data := c["data"].(map[string]any)
	bi, _ := c["binding"].(map[string]any)
	nfill := 0
	seed := int64(1)
	if bi != nil {
		if v, ok := bi["filler"]; ok {
			nfill = common.Int(v)
		}
		if v, ok := bi["seed"]; ok {
			seed = int64(common.Int(v))
		}
	}
	rng := rand.New(rand.NewSource(seed))
	var fillT, fillU [][]string
	for i := 0; i < nfill; i++ {
		pk := 1000 + i
		a := "NULL"
		if rng.Intn(3) > 0 {
			a = fmt.Sprint(1000 + rng.Intn(50))
		}
		fillT = append(fillT, []string{fmt.Sprint(pk), a, "'zz'"})
		cc := "NULL"
		if rng.Intn(3) > 0 {
			cc = fmt.Sprint(1000 + rng.Intn(50))
		}
		fillU = append(fillU, []string{fmt.Sprint(pk), a, cc})
	}

	// ---- dolt
	dir, err := os.MkdirTemp(os.Getenv("VERIF_WORK"), "c26-")
	if err != nil {
		panic(err)
	}
	defer os.RemoveAll(dir)
	srv, err := sqlh.NewRepoServer(dir, "db1")
	if err != nil {
		return common.Result{"ok": false, "fp": "setup", "detail": "cannot create the dolt repository: " + err.Error()}
	}
	defer srv.Close()
	ds, err := srv.NewSession("s")
	if err != nil {
		return common.Result{"ok": false, "fp": "setup", "detail": err.Error()}
	}
	// ---- memory engine
	mem := newMem()

	both := func(q string) {
		if q == "" {
			return
		}
		ds.MustExec(q)
		mem.must(q)
	}
	both("CREATE TABLE t " + ddlT)
	both("CREATE TABLE u " + ddlU)
	// earlier commit c0 holds t0/u0 (dolt: a tag; memory engine: separate tables t_c0/u_c0)
	both(insertSQL("t", data["t0"].([]any), fillT))
	both(insertSQL("u", data["u0"].([]any), fillU))
	ds.MustExec("CALL dolt_commit('-Am', 'c0', '--allow-empty')")
	ds.MustExec("CALL dolt_tag('c0')")
	mem.must("CREATE TABLE t_c0 " + ddlT)
	mem.must("CREATE TABLE u_c0 " + ddlU)
	if q := insertSQL("t_c0", data["t0"].([]any), fillT); q != "" {
		mem.must(q)
	}
	if q := insertSQL("u_c0", data["u0"].([]any), fillU); q != "" {
		mem.must(q)
	}
	both("DELETE FROM t")
	both("DELETE FROM u")
	both(insertSQL("t", data["t"].([]any), fillT))
	both(insertSQL("u", data["u"].([]any), fillU))
	if rng.Intn(2) == 0 {
		ds.MustExec("CALL dolt_commit('-Am', 'c1', '--allow-empty')") // half of the runs read committed data, half the working set
	}

	var real, spec []mismatch
	evals, memErrs, nonEmpty := 0, 0, 0
	kinds := map[string]int{}
	for i, qa := range c["queries"].([]any) {
		q := qa.(map[string]any)
		text := q["sql"].(string)
		ordered := q["ordered"].(bool)
		asof, _ := q["asof"].(bool)
		kind, _ := q["kind"].(string)
		if nfill > 0 {
			// keep filler rows out of the result (mechanical: same text for both engines)
			if strings.Contains(text, " WHERE ") {
				text = strings.Replace(text, " WHERE ", " WHERE t.pk < 1000 AND ", 1)
			} else if !strings.HasPrefix(kind, "cnt") {
				text += " WHERE t.pk < 1000"
			}
		}
		dq, mq := text, text
		if asof {
			dq = strings.NewReplacer("{t}", "t AS OF 'c0'", "{u}", "u AS OF 'c0'").Replace(dq)
			mq = strings.NewReplacer("{t}", "t_c0", "{u}", "u_c0").Replace(mq)
		} else {
			dq = strings.NewReplacer("{t}", "t", "{u}", "u").Replace(dq)
			mq = dq
		}
		drows, derr := ds.Query(dq)
		mrows, merr := mem.query(mq)
		evals++
		kinds[kind]++
		fpq := kind
		if asof {
			fpq += ":asof"
		}
		// input class of a join on the nullable column: how many NULL join keys each side holds (2 = two or more)
		if kind == "ij" || kind == "lj" || kind == "ijc" || kind == "ljc" {
			tk, uk := "t", "u"
			if asof {
				tk, uk = "t0", "u0"
			}
			rcol := 1
			if strings.HasSuffix(kind, "c") {
				rcol = 2
			}
			fpq += fmt.Sprintf(":nullsL%dR%d", countNull(data[tk].([]any), fillT, 1), countNull(data[uk].([]any), fillU, rcol))
		}
		ctxs := fmt.Sprintf("query: %s\n data: t=%v u=%v t0=%v u0=%v filler=%d", dq, data["t"], data["u"], data["t0"], data["u0"], nfill)
		if merr != nil {
			memErrs++
			if derr == nil {
				real = append(real, mismatch{"real", "err:" + fpq + ":oracle-error", fmt.Sprintf("%s\n memory engine fails: %v\n dolt answers: %v", ctxs, merr, canonRows(drows, ordered)), i})
			}
			continue
		}
		if derr != nil {
			real = append(real, mismatch{"real", "err:" + fpq + ":dolt-error", fmt.Sprintf("%s\n dolt fails: %v\n memory engine answers: %v", ctxs, derr, canonRows(mrows, ordered)), i})
			continue
		}
		dc, mc := canonRows(drows, ordered), canonRows(mrows, ordered)
		if len(mc) > 0 {
			nonEmpty++
		}
		if strings.Join(dc, ";") != strings.Join(mc, ";") {
			real = append(real, mismatch{"real", "rows:" + fpq, fmt.Sprintf("%s\n dolt:          %v\n memory engine: %v", ctxs, dc, mc), i})
			continue
		}
		if exp, ok := q["exp"]; ok {
			ec := expRows(exp, ordered)
			if strings.HasPrefix(kind, "cnt") && nfill > 0 {
				continue // COUNT(*) of the whole table includes the filler rows; only the two engines are compared
			}
			if strings.Join(ec, ";") != strings.Join(mc, ";") {
				spec = append(spec, mismatch{"spec", "rows:" + fpq, fmt.Sprintf("%s\n Query.tla expects: %v\n both engines:     %v", ctxs, ec, mc), i})
			}
		}
	}
	r := common.Result{"ok": len(real) == 0, "evals": evals, "oracle_errors": memErrs, "non_empty": nonEmpty, "kinds": kinds, "real": real, "spec": spec}
	if len(spec) > 0 && os.Getenv("VERIF_STRICT_SPEC") == "1" {
		r["ok"] = false
		r["fp"] = "spec:" + spec[0].Fp
		r["detail"] = spec[0].Detail
	}
	if len(real) > 0 {
		r["fp"] = real[0].Fp
		r["detail"] = real[0].Detail
	}
	return r
}

func main() {
	common.Run(run)
}
