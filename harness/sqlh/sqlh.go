// Package sqlh: in-process dolt SQL engine on an on-disk repository, with several independent sessions.
// Used by the repository-level engines (E8, E9, E10). No dolt code is modified; this is the same
// construction `dolt sql` uses (engine.NewSqlEngineForEnv over a DoltEnv).
package sqlh

import (
	"context"
	"fmt"
	"io"
	"os"
	"path/filepath"
	"sort"
	"strings"
	"time"

	"github.com/dolthub/go-mysql-server/sql"
	gmstypes "github.com/dolthub/go-mysql-server/sql/types"

	"github.com/dolthub/dolt/go/cmd/dolt/commands/engine"
	"github.com/dolthub/dolt/go/libraries/doltcore/dbfactory"
	"github.com/dolthub/dolt/go/libraries/doltcore/doltdb"
	"github.com/dolthub/dolt/go/libraries/doltcore/env"
	"github.com/dolthub/dolt/go/libraries/utils/filesys"
	"github.com/dolthub/dolt/go/store/types"
)

type Server struct {
	Eng  *engine.SqlEngine
	DB   string
	Dir  string
	DEnv *env.DoltEnv
	Ctx  context.Context
}

type Session struct {
	S    *Server
	Sess sql.Session
	Name string
}

func init() {
	// a private HOME so that no global dolt config is read or written
	if os.Getenv("VERIF_HOME_SET") == "" {
		h, _ := os.MkdirTemp("", "verif-home-")
		os.Setenv("HOME", h)
		os.Setenv("VERIF_HOME_SET", h)
		os.Setenv("DOLT_ROOT_PATH", h)
	}
}

// InitRepo creates a new dolt repository named |name| under |parent| and returns its environment.
func InitRepo(ctx context.Context, parent, name string) (*env.DoltEnv, string, error) {
	dir := filepath.Join(parent, name)
	if err := os.MkdirAll(dir, 0o755); err != nil {
		return nil, "", err
	}
	fs, err := filesys.LocalFilesysWithWorkingDir(dir)
	if err != nil {
		return nil, "", err
	}
	dEnv := env.LoadWithoutDB(ctx, env.GetCurrentUserHomeDir, fs, doltdb.LocalDirDoltDB, "verif")
	if err := dEnv.InitRepoWithTime(ctx, types.Format_DOLT, "verif", "verif@example.com", "main", time.Unix(1700000000, 0)); err != nil {
		return nil, "", err
	}
	return dEnv, dir, nil
}

// LoadRepo opens an existing repository directory (bypassing the in-process singleton cache).
func LoadRepo(ctx context.Context, dir string) (*env.DoltEnv, error) {
	fs, err := filesys.LocalFilesysWithWorkingDir(dir)
	if err != nil {
		return nil, err
	}
	dEnv := env.Load(ctx, env.GetCurrentUserHomeDir, fs, doltdb.LocalDirDoltDB, "verif")
	if dEnv.DBLoadError != nil {
		return nil, dEnv.DBLoadError
	}
	return dEnv, nil
}

// NewRepoServer = InitRepo + engine.
func NewRepoServer(parent, name string, opts ...engine.ConfigOption) (*Server, error) {
	ctx := context.Background()
	dEnv, dir, err := InitRepo(ctx, parent, name)
	if err != nil {
		return nil, err
	}
	return ServerForEnv(ctx, dEnv, dir, opts...)
}

func ServerForEnv(ctx context.Context, dEnv *env.DoltEnv, dir string, opts ...engine.ConfigOption) (*Server, error) {
	// like sql-server: sessions start with autocommit on (SET autocommit = 0 per session turns it off)
	opts = append([]engine.ConfigOption{func(c *engine.SqlEngineConfig) { c.Autocommit = true }}, opts...)
	eng, db, err := engine.NewSqlEngineForEnv(ctx, dEnv, opts...)
	if err != nil {
		return nil, err
	}
	return &Server{Eng: eng, DB: db, Dir: dir, DEnv: dEnv, Ctx: ctx}, nil
}

// Close shuts the engine down and drops cached database handles so that the directory can be reopened.
func (s *Server) Close() {
	if s.Eng != nil {
		s.Eng.Close()
	}
	dbfactory.CloseAllLocalDatabases()
}

// NewSession opens an independent SQL session (like a new client connection), using database s.DB.
func (s *Server) NewSession(name string) (*Session, error) {
	ds, err := s.Eng.NewDoltSession(s.Ctx, sql.NewBaseSession())
	if err != nil {
		return nil, err
	}
	ds.SetClient(sql.Client{User: "root", Address: "%", Capabilities: 0})
	ss := &Session{S: s, Sess: ds, Name: name}
	if s.DB != "" {
		if _, err := ss.Query("use `" + s.DB + "`"); err != nil {
			return nil, err
		}
	}
	return ss, nil
}

// Query runs one statement to completion and returns its rows with normalised values.
func (ss *Session) Query(q string) (rows [][]any, err error) {
	ctx, err := ss.S.Eng.NewContext(ss.S.Ctx, ss.Sess)
	if err != nil {
		return nil, err
	}
	sql.SessionCommandBegin(ss.Sess)
	defer sql.SessionCommandEnd(ss.Sess)
	defer func() {
		if p := recover(); p != nil {
			err = fmt.Errorf("PANIC in query %q: %v", q, p)
		}
	}()
	sch, it, _, err := ss.S.Eng.Query(ctx, q)
	if err != nil {
		return nil, err
	}
	for {
		r, err := it.Next(ctx)
		if err == io.EOF {
			break
		}
		if err != nil {
			it.Close(ctx)
			return nil, err
		}
		row := make([]any, len(r))
		for i, v := range r {
			row[i] = Norm(ctx, v, sch, i)
		}
		rows = append(rows, row)
	}
	if err := it.Close(ctx); err != nil {
		return nil, err
	}
	return rows, nil
}

// Norm converts an engine value to a JSON-friendly Go value: nil, int64, float64, string.
func Norm(ctx *sql.Context, v any, sch sql.Schema, i int) any {
	switch x := v.(type) {
	case nil:
		return nil
	case bool:
		if x {
			return int64(1)
		}
		return int64(0)
	case int:
		return int64(x)
	case int8:
		return int64(x)
	case int16:
		return int64(x)
	case int32:
		return int64(x)
	case int64:
		return x
	case uint:
		return int64(x)
	case uint8:
		return int64(x)
	case uint16:
		return int64(x)
	case uint32:
		return int64(x)
	case uint64:
		return int64(x)
	case float32:
		return float64(x)
	case float64:
		return x
	case string:
		return x
	case []byte:
		return string(x)
	case time.Time:
		return x.UTC().Format("2006-01-02 15:04:05.999999")
	case gmstypes.OkResult:
		return fmt.Sprintf("OK(%d)", x.RowsAffected)
	case sql.JSONWrapper:
		s, err := gmstypes.JsonToMySqlString(ctx, x)
		if err != nil {
			return "JSONERR:" + err.Error()
		}
		return s
	}
	if i < len(sch) {
		if sv, _, err := gmstypes.LongText.Convert(ctx, v); err == nil {
			if s, ok := sv.(string); ok {
				return s
			}
		}
	}
	return fmt.Sprint(v)
}

// Exec runs a statement and discards rows.
func (ss *Session) Exec(q string) error {
	_, err := ss.Query(q)
	return err
}

// MustExec panics on error (for scenario set-up steps that must succeed).
func (ss *Session) MustExec(q string) {
	if err := ss.Exec(q); err != nil {
		panic(fmt.Sprintf("setup statement failed: %s: %v", q, err))
	}
}

// RowsString renders rows canonically (sorted unless ordered) for comparison and messages.
func RowsString(rows [][]any, sorted bool) string {
	ss := make([]string, len(rows))
	for i, r := range rows {
		parts := make([]string, len(r))
		for j, v := range r {
			if v == nil {
				parts[j] = "NULL"
			} else {
				parts[j] = fmt.Sprint(v)
			}
		}
		ss[i] = "(" + strings.Join(parts, ",") + ")"
	}
	if sorted {
		sort.Strings(ss)
	}
	return strings.Join(ss, " ")
}
