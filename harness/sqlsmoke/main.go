// sqlsmoke: self-test of the sqlh helper (used by bin/setup to warm the build cache).
package main

import (
	"fmt"
	"os"

	"github.com/dolthub/dolt/go/zz_verif/sqlh"
)

func main() {
	dir, _ := os.MkdirTemp("", "verif-smoke-")
	defer os.RemoveAll(dir)
	s, err := sqlh.NewRepoServer(dir, "db1")
	if err != nil {
		fmt.Println("ERR", err)
		os.Exit(1)
	}
	a, _ := s.NewSession("a")
	b, _ := s.NewSession("b")
	a.MustExec("create table t (pk int primary key, c int)")
	a.MustExec("insert into t values (1,1),(2,2)")
	a.MustExec("call dolt_commit('-Am','c1')")
	b.MustExec("set autocommit=0")
	b.MustExec("start transaction")
	a.MustExec("insert into t values (3,3)")
	r1, _ := b.Query("select count(*) from t")
	b.MustExec("commit")
	r2, _ := b.Query("select count(*) from t")
	r3, err := a.Query("select * from dolt_log")
	fmt.Println(sqlh.RowsString(r1, true), sqlh.RowsString(r2, true), len(r3), err)
	a.MustExec("call dolt_gc()")
	s.Close()
	if sqlh.RowsString(r1, true) != "(2)" || sqlh.RowsString(r2, true) != "(3)" {
		os.Exit(1)
	}
	fmt.Println("sqlsmoke ok")
}
