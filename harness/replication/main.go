// Engine E11 "replication", engine-level part: push-on-write replication (dolt_replicate_to_remote) and read replicas
// (dolt_read_replica_remote, pull on transaction start) over a file:// remote, driven statement by statement from
// behaviours that TLC generates from /verif/spec/ReadReplica.tla (which extends PushOnWrite.tla).
//
// One process hosts three things, exactly as three dolt installations would: a primary SQL engine whose database has
// the remote "backup1", the remote directory, and a replica SQL engine whose database has the same directory as remote
// "origin" and is a ReadReplicaDatabase.  The replication system variables are process-global in dolt; this driver is
// the only scheduler, so it sets them to the primary's / the replica's configuration around each statement.
//
// After every step the driver projects the real state (remote refs read from the remote directory, the replica's
// dolt_branches / dolt_tags as a replica session sees them, whether the statement raised a replication warning) and
// compares it with the projection TLC computed (field "exp").  Commit ids of the model are bound to real commit
// hashes when the commit is made.  Steps without "exp" are executed and their observation returned (probe mode).
package main

import (
	"bytes"
	"context"
	"fmt"
	"os"
	"path/filepath"
	"runtime/debug"
	"sort"
	"strings"
	"sync"
	"time"

	"github.com/dolthub/go-mysql-server/sql"
	"github.com/sirupsen/logrus"

	"github.com/dolthub/dolt/go/cmd/dolt/cli"
	"github.com/dolthub/dolt/go/libraries/doltcore/dbfactory"
	"github.com/dolthub/dolt/go/libraries/doltcore/doltdb"
	"github.com/dolthub/dolt/go/libraries/doltcore/sqle/dsess"
	"github.com/dolthub/dolt/go/store/types"
	"github.com/dolthub/dolt/go/zz_verif/common"
	"github.com/dolthub/dolt/go/zz_verif/sqlh"
)

// ---------------------------------------------------------------- warning capture

type warnSink struct {
	mu  sync.Mutex
	buf bytes.Buffer
	n   int
}

func (w *warnSink) Write(p []byte) (int, error) {
	w.mu.Lock()
	defer w.mu.Unlock()
	w.buf.Write(p)
	w.n++
	return len(p), nil
}

func (w *warnSink) take() (int, string) {
	w.mu.Lock()
	defer w.mu.Unlock()
	n, s := w.n, w.buf.String()
	w.n = 0
	w.buf.Reset()
	return n, s
}

type lrHook struct{ w *warnSink }

func (lrHook) Levels() []logrus.Level {
	return []logrus.Level{logrus.WarnLevel, logrus.ErrorLevel}
}
func (h lrHook) Fire(e *logrus.Entry) error {
	h.w.Write([]byte("logrus: " + e.Message + "\n"))
	return nil
}

var sink = &warnSink{}

func setGlobals(m map[string]any) {
	if err := sql.SystemVariables.AssignValues(m); err != nil {
		panic(err)
	}
}

// ---------------------------------------------------------------- the world of one case

type world struct {
	dir       string
	remoteDir string
	prim, rep *sqlh.Server
	ps, rs    *sqlh.Session
	commits   map[int]string // model commit id -> hash
	byHash    map[string]int
	nrow      int

	// modelled configuration
	cfgRemote string // "good" | "unknown" | "none"
	mode      string // "all" | "heads"
	heads     string
	force     bool
	skipErr   bool
	down      bool
	async     bool // dolt_async_replication: pushes are flushed by a background thread; the driver waits at a barrier
	nmark     int
}

func (w *world) primaryVars() {
	name := map[string]string{"good": "backup1", "unknown": "nosuch", "none": ""}[w.cfgRemote]
	setGlobals(map[string]any{dsess.ReplicateToRemote: name, dsess.ReadReplicaRemote: "", dsess.ReplicateAllHeads: int8(0),
		dsess.ReplicateHeads: "", dsess.SkipReplicationErrors: int8(0), dsess.AsyncReplication: b2i(w.async)})
}

func b2i(b bool) int8 {
	if b {
		return 1
	}
	return 0
}

func (w *world) replicaVars() {
	m := map[string]any{dsess.ReplicateToRemote: "", dsess.ReadReplicaRemote: "origin", dsess.ReadReplicaForcePull: b2i(w.force),
		dsess.SkipReplicationErrors: b2i(w.skipErr)}
	if w.mode == "all" {
		m[dsess.ReplicateAllHeads] = int8(1)
		m[dsess.ReplicateHeads] = ""
	} else {
		m[dsess.ReplicateAllHeads] = int8(0)
		m[dsess.ReplicateHeads] = w.heads
	}
	setGlobals(m)
}

func newWorld(async bool) (*world, error) {
	dir, err := os.MkdirTemp(os.Getenv("VERIF_WORK"), "c45-repl-")
	if err != nil {
		return nil, err
	}
	w := &world{dir: dir, remoteDir: filepath.Join(dir, "remote"), commits: map[int]string{}, byHash: map[string]int{},
		cfgRemote: "good", mode: "all", force: true, async: false}
	os.MkdirAll(w.remoteDir, 0o755)
	url := "file://" + w.remoteDir
	// primary
	setGlobals(map[string]any{dsess.ReplicateToRemote: "", dsess.ReadReplicaRemote: ""})
	if w.prim, err = sqlh.NewRepoServer(dir, "db"); err != nil {
		return nil, fmt.Errorf("primary: %w", err)
	}
	if w.ps, err = w.prim.NewSession("p"); err != nil {
		return nil, err
	}
	w.ps.MustExec("call dolt_remote('add','backup1','" + url + "')")
	w.ps.MustExec("create table t (pk int primary key, c int)")
	w.ps.MustExec("call dolt_commit('-Am','c0')")
	w.primaryVars()
	// the first replicated write creates the remote: an empty commit on main (model commit 0)
	w.ps.MustExec("call dolt_commit('--allow-empty','-m','c0 replicated')")
	h, err := w.headOf(w.ps, "main")
	if err != nil {
		return nil, err
	}
	w.bind(0, h)
	sink.take()
	// replica: a clone of the remote, configured as a read replica of it
	setGlobals(map[string]any{dsess.ReplicateToRemote: "", dsess.ReadReplicaRemote: ""})
	w.ps.MustExec("call dolt_clone('" + url + "','replica')")
	w.ps.MustExec("use db")
	w.prim.Close()
	// the clone was created inside the primary's directory; a replica is a separate installation
	if err := os.Rename(filepath.Join(dir, "db", "replica"), filepath.Join(dir, "replica")); err != nil {
		return nil, err
	}
	// re-open both as separate engines on their own directories
	pe, err := sqlh.LoadRepo(context.Background(), filepath.Join(dir, "db"))
	if err != nil {
		return nil, err
	}
	w.async = async
	w.primaryVars()
	if w.prim, err = sqlh.ServerForEnv(context.Background(), pe, filepath.Join(dir, "db")); err != nil {
		return nil, err
	}
	if w.ps, err = w.prim.NewSession("p"); err != nil {
		return nil, err
	}
	re, err := sqlh.LoadRepo(context.Background(), filepath.Join(dir, "replica"))
	if err != nil {
		return nil, fmt.Errorf("replica env: %w", err)
	}
	w.replicaVars()
	if w.rep, err = sqlh.ServerForEnv(context.Background(), re, filepath.Join(dir, "replica")); err != nil {
		return nil, fmt.Errorf("replica: %w", err)
	}
	if w.rs, err = w.rep.NewSession("r"); err != nil {
		return nil, err
	}
	sink.take()
	if w.async {
		// the branch the flush barrier commits to; it is filtered out of every projection
		w.primaryVars()
		w.ps.MustExec("call dolt_checkout('main')")
		w.ps.MustExec("call dolt_branch('zzsync','main')")
		if err := w.barrier(); err != nil {
			return w, err
		}
	}
	return w, nil
}

// barrier waits until the asynchronous pusher has flushed everything enqueued so far: two marker commits on the branch
// zzsync, each awaited on the remote (the second is enqueued after the first arrived, so the batch that carried the
// first - and everything enqueued before it - is complete).  A missed bound is inconclusive, never a mismatch.
func (w *world) barrier() error {
	for k := 0; k < 2; k++ {
		w.primaryVars()
		w.nmark++
		if err := w.ps.Exec("call dolt_checkout('zzsync')"); err != nil {
			return err
		}
		if err := w.ps.Exec(fmt.Sprintf("call dolt_commit('--allow-empty','-m','marker %d')", w.nmark)); err != nil {
			return err
		}
		h, err := w.headOf(w.ps, "zzsync")
		if err != nil {
			return err
		}
		ok := false
		for i := 0; i < 600 && !ok; i++ {
			if hs, err := w.rawRemoteHead("zzsync"); err == nil && hs == h {
				ok = true
			} else {
				time.Sleep(50 * time.Millisecond)
			}
		}
		if !ok {
			return fmt.Errorf("flush barrier: marker commit did not reach the remote within 30 s")
		}
	}
	return nil
}

func (w *world) rawRemoteHead(branch string) (string, error) {
	ctx := context.Background()
	ddb, err := doltdb.LoadDoltDB(ctx, types.Format_DOLT, "file://"+w.remoteDir, w.prim.DEnv.FS)
	if err != nil {
		return "", err
	}
	if err := ddb.Rebase(ctx); err != nil {
		return "", err
	}
	brs, err := ddb.GetBranchesWithHashes(ctx)
	if err != nil {
		return "", err
	}
	for _, b := range brs {
		if b.Ref.GetPath() == branch {
			return b.Hash.String(), nil
		}
	}
	return "", nil
}

func (w *world) close() {
	if w.rep != nil && w.rep.Eng != nil {
		w.rep.Eng.Close()
	}
	if w.prim != nil && w.prim.Eng != nil {
		w.prim.Eng.Close()
	}
	dbfactory.CloseAllLocalDatabases()
	os.RemoveAll(w.dir)
}

func (w *world) bind(id int, h string) {
	w.commits[id] = h
	w.byHash[h] = id
}

func (w *world) headOf(s *sqlh.Session, branch string) (string, error) {
	rows, err := s.Query("select hashof('" + branch + "')")
	if err != nil {
		return "", err
	}
	return fmt.Sprint(rows[0][0]), nil
}

func (w *world) idOf(h string) any {
	if id, ok := w.byHash[h]; ok {
		return id
	}
	return "?" + h
}

// heads as a replica session sees them (the statement itself starts a transaction => pull)
func (w *world) replicaHeads() (map[string]any, string, error) {
	w.replicaVars()
	rows, err := w.rs.Query("select name, hash from dolt_branches order by name")
	if err != nil {
		return nil, "err", err
	}
	out := map[string]any{}
	for _, r := range rows {
		if fmt.Sprint(r[0]) != "zzsync" {
			out["b:"+fmt.Sprint(r[0])] = w.idOf(fmt.Sprint(r[1]))
		}
	}
	trows, err := w.rs.Query("select tag_name, tag_hash from dolt_tags order by tag_name")
	if err != nil {
		return nil, "err", err
	}
	for _, r := range trows {
		out["t:"+fmt.Sprint(r[0])] = w.idOf(fmt.Sprint(r[1]))
	}
	return out, "ok", nil
}

func (w *world) primaryHeads() map[string]any {
	setGlobals(map[string]any{dsess.ReplicateToRemote: "", dsess.ReadReplicaRemote: ""})
	rows, _ := w.ps.Query("select name, hash from dolt_branches order by name")
	out := map[string]any{}
	for _, r := range rows {
		if fmt.Sprint(r[0]) != "zzsync" {
			out["b:"+fmt.Sprint(r[0])] = w.idOf(fmt.Sprint(r[1]))
		}
	}
	trows, _ := w.ps.Query("select tag_name, tag_hash from dolt_tags order by tag_name")
	for _, r := range trows {
		out["t:"+fmt.Sprint(r[0])] = w.idOf(fmt.Sprint(r[1]))
	}
	return out
}

func (w *world) remoteHeadsSQL() (map[string]any, error) {
	// read the remote directory through a throw-away clone-less path: the DoltDB API
	ctx := context.Background()
	ddb, err := doltdb.LoadDoltDB(ctx, types.Format_DOLT, "file://"+w.remoteDir, w.prim.DEnv.FS)
	if err != nil {
		return nil, err
	}
	if err := ddb.Rebase(ctx); err != nil {
		return nil, err
	}
	out := map[string]any{}
	brs, err := ddb.GetBranchesWithHashes(ctx)
	if err != nil {
		return nil, err
	}
	for _, b := range brs {
		if b.Ref.GetPath() != "zzsync" {
			out["b:"+b.Ref.GetPath()] = w.idOf(b.Hash.String())
		}
	}
	tags, err := ddb.GetTagsWithHashes(ctx)
	if err != nil {
		return nil, err
	}
	for _, t := range tags {
		out["t:"+t.Tag.Name] = w.idOf(t.Hash.String())
	}
	return out, nil
}

func sortedJSON(m map[string]any) string {
	ks := make([]string, 0, len(m))
	for k := range m {
		ks = append(ks, k)
	}
	sort.Strings(ks)
	var sb strings.Builder
	for _, k := range ks {
		fmt.Fprintf(&sb, "%s=%v ", k, m[k])
	}
	return sb.String()
}

// ---------------------------------------------------------------- steps

func str(v any) string { return fmt.Sprint(v) }

func (w *world) onBranch(b string) {
	w.ps.MustExec("call dolt_checkout('" + b + "')")
}

// step executes one model action and returns its observation
func (w *world) step(a string, args map[string]any) (obs map[string]any) {
	obs = map[string]any{}
	res := "ok"
	var errText string
	run := func(q string) {
		if res != "ok" {
			return
		}
		if err := w.ps.Exec(q); err != nil {
			res = "err"
			errText = err.Error()
		}
	}
	primary := true
	switch a {
	case "Commit":
		w.primaryVars()
		b := str(args["b"])
		w.nrow++
		run("call dolt_checkout('" + b + "')")
		run(fmt.Sprintf("insert into t values (%d, %d)", w.nrow, common.Int(args["c"])))
		run(fmt.Sprintf("call dolt_commit('-Am','c%d')", common.Int(args["c"])))
		if res == "ok" {
			if h, err := w.headOf(w.ps, b); err == nil {
				w.bind(common.Int(args["c"]), h)
			}
		}
	case "WsWrite":
		w.primaryVars()
		w.nrow++
		run("call dolt_checkout('" + str(args["b"]) + "')")
		run(fmt.Sprintf("insert into t values (%d, -1)", w.nrow))
		run(fmt.Sprintf("delete from t where pk = %d", w.nrow)) // a second working-set-only write; the working set is clean again
	case "CreateBranch":
		w.primaryVars()
		run("call dolt_checkout('main')")
		run("call dolt_branch('" + str(args["b"]) + "','" + str(args["from"]) + "')")
	case "DeleteBranch":
		w.primaryVars()
		run("call dolt_checkout('main')")
		run("call dolt_branch('-D','" + str(args["b"]) + "')")
	case "Tag":
		w.primaryVars()
		run("call dolt_tag('" + str(args["t"]) + "','" + str(args["b"]) + "')")
	case "Reset":
		w.primaryVars()
		run("call dolt_checkout('" + str(args["b"]) + "')")
		run("call dolt_reset('--hard','HEAD~1')")
	case "SetCfg":
		w.cfgRemote = str(args["v"])
	case "RemoteDown":
		if !w.down {
			if err := os.Rename(w.remoteDir, w.remoteDir+".down"); err != nil {
				res, errText = "err", err.Error()
			}
			w.down = true
		}
	case "RemoteUp":
		if w.down {
			if err := os.Rename(w.remoteDir+".down", w.remoteDir); err != nil {
				res, errText = "err", err.Error()
			}
			w.down = false
		}
	case "SetReplicaCfg":
		w.mode = str(args["mode"])
		w.heads = str(args["heads"])
		w.force = args["force"] == true
		w.skipErr = args["skip"] == true
	case "ReplicaRead":
		primary = false
		hs, r, err := w.replicaHeads()
		res = r
		if err != nil {
			errText = err.Error()
		} else {
			obs["rep"] = hs
		}
	default:
		res, errText = "err", "unknown action "+a
	}
	if w.async && primary && res == "ok" {
		if err := w.barrier(); err != nil {
			obs["barrier"] = err.Error()
		}
	}
	n, text := sink.take()
	obs["res"] = res
	obs["warned"] = n > 0
	if text != "" {
		obs["warnText"] = text
	}
	if errText != "" {
		obs["errText"] = errText
	}
	if primary {
		obs["local"] = w.primaryHeads()
	}
	if !w.down {
		if rr, err := w.remoteHeadsSQL(); err == nil {
			obs["remote"] = rr
		} else {
			obs["remoteErr"] = err.Error()
		}
	}
	sink.take()
	return obs
}

func runCase(c map[string]any) common.Result {
	w, err := newWorld(c["async"] == true)
	if err != nil {
		if w != nil {
			w.close()
		}
		return common.Result{"ok": false, "inconclusive": "setup: " + err.Error()}
	}
	defer w.close()
	steps, _ := c["steps"].([]any)
	var observed []any
	evals := 0
	for i, s := range steps {
		st := s.(map[string]any)
		a := str(st["a"])
		args, _ := st["args"].(map[string]any)
		obs := w.step(a, args)
		observed = append(observed, map[string]any{"a": a, "obs": obs})
		if b, bad := obs["barrier"]; bad {
			return common.Result{"ok": false, "inconclusive": "step " + fmt.Sprint(i) + ": " + fmt.Sprint(b)}
		}
		exp, has := st["exp"].(map[string]any)
		if !has {
			continue
		}
		for _, f := range []string{"res", "warned"} {
			if e, ok := exp[f]; ok {
				evals++
				if str(e) != str(obs[f]) {
					r := common.Fail(i, a, f, e, obs[f])
					r["obs"] = obs
					return r
				}
			}
		}
		for _, f := range []string{"remote", "rep", "local"} {
			e, ok := exp[f].(map[string]any)
			if !ok {
				continue
			}
			o, ok := obs[f].(map[string]any)
			if !ok {
				continue
			}
			evals++
			if sortedJSON(e) != sortedJSON(o) {
				r := common.Fail(i, a, f, sortedJSON(e), sortedJSON(o))
				r["obs"] = obs
				return r
			}
		}
	}
	return common.Result{"ok": true, "evals": evals, "observed": observed}
}

func main() {
	logrus.AddHook(lrHook{sink})
	cli.CliOut = sink
	cli.CliErr = sink
	debug.SetGCPercent(40)
	common.Run(func(c map[string]any) common.Result {
		// every case opens fresh repositories and SQL engines; what they leave behind is handed back at once
		// (the check also recycles the engine process every few cases)
		defer debug.FreeOSMemory()
		if c["mode"] == "role" {
			return runRoleCase(c)
		}
		return runCase(c)
	})
}
