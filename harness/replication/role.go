// Role mode of the engine-level part: the SQL face of a cluster member's role (spec/ClusterRole.tla).  A real
// cluster.Controller (no standby remotes, so nothing needs the network) is given to the real SQL engine exactly as
// sql-server does; dolt_assume_cluster_role / dolt_cluster_transition_to_standby, writes, reads, reconnects and
// restarts are replayed from TLC behaviours, the result of every statement and the role/epoch system variables are
// compared with the projection TLC computed.
package main

import (
	"context"
	"fmt"
	"io"
	"os"
	"path/filepath"

	"github.com/sirupsen/logrus"

	"github.com/dolthub/dolt/go/cmd/dolt/commands/engine"
	"github.com/dolthub/dolt/go/libraries/doltcore/servercfg"
	"github.com/dolthub/dolt/go/libraries/doltcore/sqle/cluster"
	"github.com/dolthub/dolt/go/libraries/doltcore/sqle/dsess"
	"github.com/dolthub/dolt/go/libraries/utils/config"
	"github.com/dolthub/dolt/go/zz_verif/common"
	"github.com/dolthub/dolt/go/zz_verif/sqlh"
)

type noRemotes struct{}

func (noRemotes) StandbyRemotes() []servercfg.ClusterStandbyRemoteConfig { return nil }
func (noRemotes) BootstrapRole() string                                 { return "primary" }
func (noRemotes) BootstrapEpoch() int                                   { return 1 }
func (noRemotes) RemotesAPIConfig() servercfg.ClusterRemotesAPIConfig   { return noAPI{} }

type noAPI struct{}

func (noAPI) Address() string                { return "127.0.0.1" }
func (noAPI) Port() int                      { return 0 }
func (noAPI) TLSKey() string                 { return "" }
func (noAPI) TLSCert() string                { return "" }
func (noAPI) TLSCA() string                  { return "" }
func (noAPI) ServerNameURLMatches() []string { return nil }
func (noAPI) ServerNameDNSMatches() []string { return nil }

type roleWorld struct {
	dir  string
	pcfg *config.MapConfig
	srv  *sqlh.Server
	sess *sqlh.Session
	nrow int
}

func (w *roleWorld) open(first bool) error {
	lgr := logrus.New()
	lgr.SetOutput(io.Discard)
	ctl, err := cluster.NewController(lgr, noRemotes{}, w.pcfg)
	if err != nil {
		return fmt.Errorf("NewController: %w", err)
	}
	opt := func(c *engine.SqlEngineConfig) { c.ClusterController = ctl }
	if first {
		w.srv, err = sqlh.NewRepoServer(w.dir, "db", opt)
	} else {
		var e2 error
		dEnv, e2 := sqlh.LoadRepo(context.Background(), filepath.Join(w.dir, "db"))
		if e2 != nil {
			return e2
		}
		w.srv, err = sqlh.ServerForEnv(context.Background(), dEnv, filepath.Join(w.dir, "db"), opt)
	}
	if err != nil {
		return err
	}
	w.sess, err = w.srv.NewSession("c")
	return err
}

func (w *roleWorld) observe() (string, int, error) {
	s, err := w.srv.NewSession("obs")
	if err != nil {
		return "", 0, err
	}
	rows, err := s.Query("select @@global.dolt_cluster_role, @@global.dolt_cluster_role_epoch")
	if err != nil {
		return "", 0, err
	}
	return fmt.Sprint(rows[0][0]), common.Int(int(rows[0][1].(int64))), nil
}

func runRoleCase(c map[string]any) common.Result {
	dir, err := os.MkdirTemp(os.Getenv("VERIF_WORK"), "c45-role-")
	if err != nil {
		return common.Result{"ok": false, "inconclusive": err.Error()}
	}
	defer os.RemoveAll(dir)
	setGlobals(map[string]any{dsess.ReplicateToRemote: "", dsess.ReadReplicaRemote: "", dsess.ReplicateAllHeads: int8(0), dsess.ReplicateHeads: ""})
	w := &roleWorld{dir: dir, pcfg: config.NewMapConfig(map[string]string{})}
	if err := w.open(true); err != nil {
		return common.Result{"ok": false, "inconclusive": "setup: " + err.Error()}
	}
	defer func() { w.srv.Close() }()
	if err := w.sess.Exec("create table t (pk int primary key, c int)"); err != nil {
		return common.Result{"ok": false, "inconclusive": "setup: " + err.Error()}
	}
	steps, _ := c["steps"].([]any)
	evals := 0
	var observed []any
	for i, s := range steps {
		st := s.(map[string]any)
		a := str(st["a"])
		args, _ := st["args"].(map[string]any)
		var serr error
		switch a {
		case "Assume":
			serr = w.sess.Exec(fmt.Sprintf("call dolt_assume_cluster_role('%s', %d)", str(args["role"]), common.Int(args["epoch"])))
		case "ToStandby":
			serr = w.sess.Exec(fmt.Sprintf("call dolt_cluster_transition_to_standby(%d, 0)", common.Int(args["epoch"])))
		case "Write":
			w.nrow++
			serr = w.sess.Exec(fmt.Sprintf("insert into t values (%d, %d)", w.nrow, w.nrow))
		case "Read":
			_, serr = w.sess.Query("select count(*) from t")
		case "Reconnect":
			w.sess, serr = w.srv.NewSession("c")
		case "Restart":
			w.srv.Close()
			serr = w.open(false)
			if serr != nil {
				return common.Result{"ok": false, "inconclusive": "restart: " + serr.Error()}
			}
		default:
			return common.Result{"ok": false, "inconclusive": "unknown action " + a}
		}
		res := "ok"
		if serr != nil {
			res = "err"
		}
		role, epoch, oerr := w.observe()
		if oerr != nil {
			return common.Result{"ok": false, "inconclusive": "observe: " + oerr.Error()}
		}
		obs := map[string]any{"res": res, "role": role, "epoch": epoch}
		if serr != nil {
			obs["errText"] = serr.Error()
		}
		observed = append(observed, map[string]any{"a": a, "obs": obs})
		exp, has := st["exp"].(map[string]any)
		if !has {
			continue
		}
		for _, f := range []string{"res", "role", "epoch"} {
			evals++
			if str(exp[f]) != str(obs[f]) {
				r := common.Fail(i, a, f, exp[f], obs[f])
				r["obs"] = obs
				return r
			}
		}
	}
	return common.Result{"ok": true, "evals": evals, "observed": observed}
}
