// Engine E7 "refstore": drives datas.Database (go/store/datas/database_common.go) with interleavings chosen by TLC
// from /verif/spec/RefStore.tla (mode "gated"), and records call/return histories of ungated concurrent runs that
// /verif/spec/TraceRefStore.tla validates (modes "stress", "procs").
//
// The datas.Database under test is built on a gating chunks.ChunkStore wrapper: Root() and Commit() -- the two calls
// database.update makes on the store root -- are the gates. Every client operation runs in its own goroutine and
// blocks at the gates; the driver opens one gate per spec step. After every step the persisted dataset map is decoded
// structurally (commit = root value + parents + author, tag, working set, tuple) and compared with the model; so is
// every returned error class and returned Dataset. After every successful store Commit the roots before and after are
// decoded for C21 (a CommitWithWorkingSet changes head and working set in one root change, exactly once).
//
// Expected values come from TLC only. This program maps model values to concrete ones (binding) and compares.
package main

import (
	"context"
	"encoding/json"
	"errors"
	"fmt"
	"math/rand"
	"os"
	"path/filepath"
	"reflect"
	"sort"
	"strings"
	"sync"
	"sync/atomic"
	"time"

	"github.com/dolthub/dolt/go/gen/fb/serial"
	"github.com/dolthub/dolt/go/store/chunks"
	"github.com/dolthub/dolt/go/store/datas"
	"github.com/dolthub/dolt/go/store/hash"
	"github.com/dolthub/dolt/go/store/nbs"
	"github.com/dolthub/dolt/go/store/prolly/tree"
	"github.com/dolthub/dolt/go/store/types"
	"github.com/dolthub/dolt/go/zz_verif/common"
)

type mval = map[string]any

var bg = context.Background()

type whoKey struct{}

func withWho(who string) context.Context { return context.WithValue(bg, whoKey{}, who) }
func whoOf(ctx context.Context) string {
	s, _ := ctx.Value(whoKey{}).(string)
	return s
}

func must(err error) {
	if err != nil {
		panic(err)
	}
}

// ------------------------------------------------------------------------------------------------ gating wrapper

type gate struct {
	kind    string
	release chan bool // true: the store call fails (fault injection, spec action StoreFault)
}

var errInjected = errors.New("verif: injected store fault")

type controller struct {
	gating atomic.Bool
	arr    map[string]chan *gate
}

func (c *controller) arrive(who, kind string) (fail bool) {
	if who == "" || !c.gating.Load() {
		return false
	}
	ch, ok := c.arr[who]
	if !ok {
		return false
	}
	g := &gate{kind, make(chan bool, 1)}
	ch <- g
	return <-g.release
}

type commitRec struct {
	Who       string
	Last, Cur hash.Hash
	OK        bool
	Err       string
}

type gateCS struct {
	chunks.ChunkStore
	w *world
}

func (g *gateCS) Root(ctx context.Context) (hash.Hash, error) {
	if g.w.ctl.arrive(whoOf(ctx), "Root") {
		return hash.Hash{}, errInjected
	}
	return g.ChunkStore.Root(ctx)
}

func (g *gateCS) Commit(ctx context.Context, cur, last hash.Hash) (bool, error) {
	who := whoOf(ctx)
	if g.w.ctl.arrive(who, "Commit") {
		return false, errInjected
	}
	ok, err := g.ChunkStore.Commit(ctx, cur, last)
	r := commitRec{Who: who, Last: last, Cur: cur, OK: ok}
	if err != nil {
		r.Err = err.Error()
	}
	g.w.cmu.Lock()
	g.w.commits = append(g.w.commits, r)
	g.w.cmu.Unlock()
	return ok, err
}

// ------------------------------------------------------------------------------------------------ world (store + binding)

type handleDB struct {
	cs  chunks.ChunkStore // underlying (ungated) store instance
	vs  *types.ValueStore
	db  datas.Database
	own bool
}

type world struct {
	backend string
	shared  bool
	dir     string
	storage *chunks.MemoryStorage
	ctl     *controller
	nbf     *types.NomsBinFormat

	setup  *handleDB
	reader *handleDB
	cdb    map[string]*handleDB // per client (all the same object when shared)
	closer []func()

	rootVals map[string]types.Value
	rootName map[hash.Hash]string
	memo     map[string]hash.Hash // canonical model commit -> address (guarded by memoMu: stress mode reads and writes it from several goroutines)
	memoMu   sync.RWMutex
	dmu      sync.Mutex
	dec      map[hash.Hash]mval

	names  []string          // model dataset names (real ids)
	filler map[string]string // real id -> address (string)

	cmu     sync.Mutex
	commits []commitRec
}

func realName(n any) string {
	a := n.([]any)
	k, s := a[0].(string), a[1].(string)
	switch k {
	case "h":
		return "refs/heads/" + s
	case "w":
		return "workingSets/heads/" + s
	case "t":
		return "refs/tags/" + s
	case "u":
		return "tuples/" + s
	}
	return ""
}

func key(v any) string {
	b, _ := json.Marshal(v)
	return string(b)
}

var fixedDate = datas.CommitDateAt(time.UnixMilli(1_700_000_000_000))

func commitMeta(author string) *datas.CommitMeta {
	id := datas.CommitIdent{Name: author, Email: author + "@verif", Date: fixedDate}
	return &datas.CommitMeta{Author: id, Committer: id, Description: "verif"}
}

var tagMeta = &datas.TagMeta{Name: "tagger", Email: "tagger@verif", Description: "verif", Timestamp: 1, UserTimestamp: 1}

func wsMeta(m int) *datas.WorkingSetMeta {
	if m == 0 {
		return nil
	}
	return &datas.WorkingSetMeta{Name: "wsmeta", Email: "ws@verif", Description: "verif", Timestamp: 7}
}

func (w *world) newHandle(cs chunks.ChunkStore, gated bool) *handleDB {
	var top chunks.ChunkStore = cs
	if gated {
		top = &gateCS{ChunkStore: cs, w: w}
	}
	vs := types.NewValueStore(top)
	ns := tree.NewNodeStore(top)
	return &handleDB{cs: cs, vs: vs, db: datas.NewTypesDatabase(vs, ns)}
}

func newWorld(backend string, clients []string, workdir string, gating bool) *world {
	w := &world{backend: backend, ctl: &controller{arr: map[string]chan *gate{}}, nbf: types.Format_DOLT,
		cdb: map[string]*handleDB{}, rootVals: map[string]types.Value{}, rootName: map[hash.Hash]string{},
		memo: map[string]hash.Hash{}, dec: map[hash.Hash]mval{}, filler: map[string]string{}}
	for _, c := range clients {
		w.ctl.arr[c] = make(chan *gate, 4)
	}
	w.ctl.gating.Store(gating)
	vers := types.Format_DOLT.VersionString()
	q := nbs.NewUnlimitedMemQuotaProvider()
	switch backend {
	case "memviews": // one MemoryStoreView (cached root) per client on one MemoryStorage
		w.storage = &chunks.MemoryStorage{}
		w.setup = w.newHandle(w.storage.NewViewWithDefaultFormat(), false)
	case "memshared": // all clients on one view
		w.shared = true
		w.storage = &chunks.MemoryStorage{}
		w.setup = w.newHandle(w.storage.NewViewWithDefaultFormat(), true)
	case "nbsshared", "journal":
		w.shared = true
		w.dir, _ = os.MkdirTemp(workdir, "refstore-")
		var st *nbs.NomsBlockStore
		var err error
		if backend == "journal" {
			st, err = nbs.NewLocalJournalingStore(bg, vers, w.dir, q, false, nil)
		} else {
			st, err = nbs.NewLocalStore(bg, vers, w.dir, 1<<20, q, false)
		}
		must(err)
		w.setup = w.newHandle(st, true)
		w.closer = append(w.closer, func() { st.Close() })
	case "nbsmulti": // one NomsBlockStore instance per client on one directory (what separate processes have)
		w.dir, _ = os.MkdirTemp(workdir, "refstore-")
		st, err := nbs.NewLocalStore(bg, vers, w.dir, 1<<20, q, false)
		must(err)
		w.setup = w.newHandle(st, false)
		w.closer = append(w.closer, func() { st.Close() })
	default:
		panic("unknown backend " + backend)
	}
	return w
}

// openClients is called after the initial root was committed through w.setup.
func (w *world) openClients(clients []string) {
	vers := types.Format_DOLT.VersionString()
	q := nbs.NewUnlimitedMemQuotaProvider()
	switch w.backend {
	case "memviews":
		for _, c := range clients {
			w.cdb[c] = w.newHandle(w.storage.NewViewWithDefaultFormat(), true)
		}
		w.reader = w.newHandle(w.storage.NewViewWithDefaultFormat(), false)
	case "memshared":
		for _, c := range clients {
			w.cdb[c] = w.setup
		}
		w.reader = w.newHandle(w.storage.NewViewWithDefaultFormat(), false)
	case "nbsshared", "journal":
		for _, c := range clients {
			w.cdb[c] = w.setup
		}
		w.reader = w.newHandle(w.setup.cs, false)
	case "nbsmulti":
		for _, c := range clients {
			st, err := nbs.NewLocalStore(bg, vers, w.dir, 1<<20, q, false)
			must(err)
			w.closer = append(w.closer, func() { st.Close() })
			w.cdb[c] = w.newHandle(st, true)
		}
		w.reader = w.setup
	}
}

func (w *world) closeStores() {
	for _, f := range w.closer {
		f()
	}
	w.closer = nil
}

func (w *world) close() {
	w.closeStores()
	if w.dir != "" {
		os.RemoveAll(w.dir)
	}
}

// persisted root hash, read without going through any client's instance
func (w *world) persistedRoot() hash.Hash {
	switch w.backend {
	case "memviews", "memshared":
		return w.storage.Root(bg)
	case "nbsshared", "journal":
		h, err := w.setup.cs.Root(bg)
		must(err)
		return h
	default:
		must(w.reader.cs.Rebase(bg))
		h, err := w.reader.cs.Root(bg)
		must(err)
		return h
	}
}

func (w *world) refreshReader() {
	if w.backend == "memviews" || w.backend == "memshared" || w.backend == "nbsmulti" {
		must(w.reader.cs.Rebase(bg))
	}
}

// ------------------------------------------------------------------------------------------------ binding: model value -> real value

func (w *world) initValues(rootVals []string) {
	for _, r := range rootVals {
		v := types.String("verif-root-value-" + r)
		ref, err := w.setup.vs.WriteValue(bg, v)
		must(err)
		w.rootVals[r] = v
		w.rootName[ref.TargetHash()] = r
	}
}

func (w *world) ref(r string) types.Ref {
	ref, err := types.NewRef(w.rootVals[r], w.nbf)
	must(err)
	return ref
}

// realize builds the pre-built commit described by the model value (recursively) through the setup handle.
func (w *world) realize(cv mval) hash.Hash {
	k := key(cv)
	w.memoMu.RLock()
	h, ok := w.memo[k]
	w.memoMu.RUnlock()
	if ok {
		return h
	}
	var parents []hash.Hash
	for _, p := range cv["ps"].([]any) {
		parents = append(parents, w.realize(p.(mval)))
	}
	ds := datas.NewHeadlessDataset(w.setup.db, "refs/internal/verif")
	cm, err := w.setup.db.BuildNewCommit(bg, ds, w.rootVals[cv["r"].(string)], datas.CommitOptions{Parents: parents, Meta: commitMeta(cv["a"].(string))})
	must(err)
	_, err = w.setup.vs.WriteValue(bg, cm.NomsValue())
	must(err)
	w.memoMu.Lock()
	w.memo[k] = cm.Addr()
	w.memoMu.Unlock()
	return cm.Addr()
}

func (w *world) addrOf(cv mval) (hash.Hash, error) {
	if cv["k"] == "n" {
		return hash.Hash{}, nil
	}
	w.memoMu.RLock()
	h, ok := w.memo[key(cv)]
	w.memoMu.RUnlock()
	if ok {
		return h, nil
	}
	return hash.Hash{}, fmt.Errorf("binding: model commit %s has no concrete counterpart yet", key(cv))
}

func (w *world) wsSpec(v mval) datas.WorkingSetSpec {
	return datas.WorkingSetSpec{Meta: wsMeta(common.Int(v["m"])), WorkingRoot: w.ref(v["w"].(string)), StagedRoot: w.ref(v["s"].(string))}
}

// ------------------------------------------------------------------------------------------------ decoding: real value -> model value

var noneVal = mval{"k": "n"}

func (w *world) decode(vr types.ValueReader, addr hash.Hash) mval {
	if addr.IsEmpty() {
		return noneVal
	}
	w.dmu.Lock()
	if d, ok := w.dec[addr]; ok {
		w.dmu.Unlock()
		return d
	}
	w.dmu.Unlock()
	v, err := vr.ReadValue(bg, addr)
	must(err)
	if v == nil {
		return mval{"k": "missing", "addr": addr.String()}
	}
	sm, ok := v.(types.SerialMessage)
	if !ok {
		return mval{"k": "notserial", "addr": addr.String()}
	}
	data := []byte(sm)
	var out mval
	switch serial.GetFileID(data) {
	case serial.CommitFileID:
		cm, err := serial.TryGetRootAsCommit(data, serial.MessagePrefixSz)
		must(err)
		ps := []any{}
		pb := cm.ParentAddrsBytes()
		for i := 0; i+hash.ByteLen <= len(pb); i += hash.ByteLen {
			ps = append(ps, w.decode(vr, hash.New(pb[i:i+hash.ByteLen])))
		}
		rn, ok := w.rootName[hash.New(cm.RootBytes())]
		if !ok {
			rn = "?" + hash.New(cm.RootBytes()).String()
		}
		out = mval{"k": "c", "r": rn, "ps": ps, "a": string(cm.Name())}
		w.dmu.Lock()
		w.dec[addr] = out
		w.memoMu.Lock()
		w.memo[key(out)] = addr
		w.memoMu.Unlock()
		w.dmu.Unlock()
	case serial.TagFileID:
		tg, err := serial.TryGetRootAsTag(data, serial.MessagePrefixSz)
		must(err)
		out = mval{"k": "t", "c": w.decode(vr, hash.New(tg.CommitAddrBytes()))}
	case serial.WorkingSetFileID:
		ws, err := serial.TryGetRootAsWorkingSet(data, serial.MessagePrefixSz)
		must(err)
		name := func(b []byte) string {
			if rn, ok := w.rootName[hash.New(b)]; ok {
				return rn
			}
			return "?" + hash.New(b).String()
		}
		m := 0.0
		if len(ws.Name()) > 0 {
			m = 1
		}
		out = mval{"k": "w", "w": name(ws.WorkingRootAddrBytes()), "s": name(ws.StagedRootAddrBytes()), "m": m}
	case serial.TupleFileID:
		tp, err := serial.TryGetRootAsTuple(data, serial.MessagePrefixSz)
		must(err)
		out = mval{"k": "u", "v": string(tp.ValueBytes())}
	default:
		out = mval{"k": "unknown:" + serial.GetFileID(data)}
	}
	return out
}

// decodeRoot returns the model projection {heads, ws, tags, tuples} of the dataset map stored under root hash h,
// and the non-model (filler) part as id -> address.
func (w *world) decodeRoot(hd *handleDB, h hash.Hash) (mval, map[string]string) {
	dm, err := hd.db.DatasetsByRootHash(bg, h)
	must(err)
	all := map[string]hash.Hash{}
	must(dm.IterAll(bg, func(id string, a hash.Hash) error { all[id] = a; return nil }))
	out := mval{"heads": mval{}, "ws": mval{}, "tags": mval{}, "tuples": mval{}}
	for _, id := range w.names {
		d := w.decode(hd.vs, all[id])
		delete(all, id)
		switch {
		case strings.HasPrefix(id, "refs/heads/"):
			out["heads"].(mval)[strings.TrimPrefix(id, "refs/heads/")] = d
		case strings.HasPrefix(id, "workingSets/heads/"):
			out["ws"].(mval)[strings.TrimPrefix(id, "workingSets/heads/")] = d
		case strings.HasPrefix(id, "refs/tags/"):
			out["tags"].(mval)[strings.TrimPrefix(id, "refs/tags/")] = d
		case strings.HasPrefix(id, "tuples/"):
			out["tuples"].(mval)[strings.TrimPrefix(id, "tuples/")] = d
		}
	}
	rest := map[string]string{}
	for id, a := range all {
		rest[id] = a.String()
	}
	return out, rest
}

// normalise the model's projection (TLC prints a function with an empty domain as an empty array)
func normProj(p any) mval {
	m, _ := p.(mval)
	out := mval{}
	for _, k := range []string{"heads", "ws", "tags", "tuples"} {
		if x, ok := m[k].(mval); ok {
			out[k] = x
		} else {
			out[k] = mval{}
		}
	}
	return out
}

func same(a, b any) bool { return reflect.DeepEqual(a, b) }

func (w *world) modelNames(proj mval) {
	w.names = nil
	pre := map[string]string{"heads": "refs/heads/", "ws": "workingSets/heads/", "tags": "refs/tags/", "tuples": "tuples/"}
	for k, p := range pre {
		for n := range proj[k].(mval) {
			w.names = append(w.names, p+n)
		}
	}
	sort.Strings(w.names)
}

// ------------------------------------------------------------------------------------------------ initial root

var allPre = []string{"P0", "P1", "P2", "P3", "P4"}

func preCommits() []mval {
	c := func(r string, a string, ps ...any) mval {
		if ps == nil {
			ps = []any{}
		}
		return mval{"k": "c", "r": r, "ps": ps, "a": a}
	}
	p0 := c("r0", "pre")
	p1 := c("r1", "pre", p0)
	p2 := c("r2", "pre", p0)
	p3 := c("r0", "pre", p1)
	p4 := c("r1", "pre", p1, p2)
	return []mval{p0, p1, p2, p3, p4}
}

func (w *world) setupInitial(init mval, nfill int, rng *rand.Rand) {
	w.initValues([]string{"r0", "r1", "r2", "r3"})
	pres := preCommits()
	for _, p := range pres {
		w.realize(p)
	}
	db := w.setup.db
	set := func(id string, v mval) {
		if v["k"] == "n" {
			return
		}
		ds, err := db.GetDataset(bg, id)
		must(err)
		switch v["k"] {
		case "c":
			_, err = db.SetHead(bg, ds, w.realize(v), "")
		case "t":
			_, err = db.Tag(bg, ds, w.realize(v["c"].(mval)), datas.TagOptions{Meta: tagMeta})
		case "w":
			_, err = db.UpdateWorkingSet(bg, ds, w.wsSpec(v), hash.Hash{})
		case "u":
			_, err = db.SetTuple(bg, ds, []byte(v["v"].(string)))
		}
		must(err)
	}
	// filler datasets around the model names so that the address map has several chunks
	for i := 0; i < nfill; i++ {
		var id string
		switch rng.Intn(4) {
		case 0:
			id = fmt.Sprintf("refs/heads/a%05d", rng.Intn(100000))
		case 1:
			id = fmt.Sprintf("refs/heads/zz%05d", rng.Intn(100000))
		case 2:
			id = fmt.Sprintf("refs/tags/s%05d", rng.Intn(100000))
		default:
			id = fmt.Sprintf("workingSets/heads/m%05d", rng.Intn(100000))
		}
		if _, dup := w.filler[id]; dup {
			continue
		}
		a := w.realize(pres[rng.Intn(len(pres))])
		ds, err := db.GetDataset(bg, id)
		must(err)
		_, err = db.SetHead(bg, ds, a, "")
		must(err)
		w.filler[id] = a.String()
	}
	for _, id := range w.names {
		var v mval
		switch {
		case strings.HasPrefix(id, "refs/heads/"):
			v = init["heads"].(mval)[strings.TrimPrefix(id, "refs/heads/")].(mval)
		case strings.HasPrefix(id, "workingSets/heads/"):
			v = init["ws"].(mval)[strings.TrimPrefix(id, "workingSets/heads/")].(mval)
		case strings.HasPrefix(id, "refs/tags/"):
			v = init["tags"].(mval)[strings.TrimPrefix(id, "refs/tags/")].(mval)
		case strings.HasPrefix(id, "tuples/"):
			v = init["tuples"].(mval)[strings.TrimPrefix(id, "tuples/")].(mval)
		}
		set(id, v)
	}
	// make sure everything written so far is persisted even if no dataset was set
	r, err := w.setup.cs.Root(bg)
	must(err)
	_, err = w.setup.cs.Commit(bg, r, r)
	must(err)
}

// ------------------------------------------------------------------------------------------------ client operations

type opResult struct {
	Class  string
	Err    string
	H, W   mval
	hds    datas.Dataset
	wds    datas.Dataset
	hasWds bool
	panicv any
}

func classify(err error) string {
	switch {
	case err == nil:
		return "ok"
	case errors.Is(err, datas.ErrMergeNeeded):
		return "merge"
	case errors.Is(err, datas.ErrOptimisticLockFailed):
		return "lock"
	case errors.Is(err, datas.ErrDirtyWorkspace):
		return "dirty"
	case errors.Is(err, datas.ErrAlreadyCommitted):
		return "already"
	case strings.Contains(err.Error(), "already exists and cannot be altered"):
		return "exists"
	case strings.Contains(err.Error(), "cannot change type of head"):
		return "type"
	}
	return "other"
}

type client struct {
	name    string
	hd      *handleDB
	handles map[string]datas.Dataset
	pending *gate
	running bool
	done    chan opResult
	last    opResult
	op      mval
	c0      int // index into world.commits at the start of the current op
}

func (w *world) refresh(cl *client) {
	for _, id := range w.names {
		ds, err := cl.hd.db.GetDataset(bg, id)
		must(err)
		cl.handles[id] = ds
	}
}

func headAddr(ds datas.Dataset) hash.Hash {
	a, _ := ds.MaybeHeadAddr()
	return a
}

// exec performs one public call of datas.Database for client cl. Only mechanical translation of the model's
// operation record; the handles (captured Datasets) are the client's own.
func (w *world) exec(cl *client, op mval) (res opResult) {
	defer func() {
		if p := recover(); p != nil {
			res = opResult{Class: "panic", Err: fmt.Sprint(p), panicv: p}
		}
	}()
	ctx := withWho(cl.name)
	db := cl.hd.db
	kind := op["kind"].(string)
	id := realName(op["ds"])
	ds := cl.handles[id]
	wsPath := ""
	if b, _ := op["wws"].(bool); b {
		wsPath = realName(op["ws"])
	}
	var out datas.Dataset
	var err error
	parents := func() []hash.Hash {
		var ps []hash.Hash
		for _, p := range op["ps"].([]any) {
			a, e := w.addrOf(p.(mval))
			must(e)
			ps = append(ps, a)
		}
		return ps
	}
	target := func() hash.Hash {
		a, e := w.addrOf(op["x"].(mval))
		must(e)
		return a
	}
	switch kind {
	case "Commit", "CommitForce", "Amend":
		opts := datas.CommitOptions{Parents: parents(), Meta: commitMeta(cl.name)}
		if kind == "CommitForce" {
			opts.Force = true
		}
		if kind == "Amend" {
			opts.AmendedCommit = headAddr(ds)
		}
		out, err = db.Commit(ctx, ds, w.rootVals[op["r"].(string)], opts)
	case "FF":
		out, err = db.FastForward(ctx, ds, target(), wsPath, op["dirty"].(bool))
	case "SetHead":
		out, err = db.SetHead(ctx, ds, target(), wsPath)
	case "Tag":
		out, err = db.Tag(ctx, ds, target(), datas.TagOptions{Meta: tagMeta})
	case "Delete":
		out, err = db.Delete(ctx, ds, wsPath)
	case "UpdWS":
		out, err = db.UpdateWorkingSet(ctx, ds, w.wsSpec(op["nws"].(mval)), headAddr(ds))
	case "CWW":
		wsid := realName(op["ws"])
		wds := cl.handles[wsid]
		opts := datas.CommitOptions{Parents: parents(), Meta: commitMeta(cl.name)}
		var o2 datas.Dataset
		out, o2, err = db.CommitWithWorkingSet(ctx, ds, wds, w.rootVals[op["r"].(string)], w.wsSpec(op["nws"].(mval)), headAddr(wds), opts)
		if err == nil {
			res.wds, res.hasWds = o2, true
			res.W = w.decode(cl.hd.vs, headAddr(o2))
		}
	case "SetTuple":
		out, err = db.SetTuple(ctx, ds, []byte(op["r"].(string)))
	case "Get":
		out, err = db.GetDataset(ctx, id)
	default:
		panic("unknown op kind " + kind)
	}
	res.Class = classify(err)
	if err != nil {
		res.Err = err.Error()
		return res
	}
	res.hds = out
	res.H = w.decode(cl.hd.vs, headAddr(out))
	if res.W == nil {
		res.W = noneVal
	}
	return res
}

func (w *world) start(cl *client, op mval) {
	cl.op = op
	cl.running = true
	w.cmu.Lock()
	cl.c0 = len(w.commits)
	w.cmu.Unlock()
	go func() { cl.done <- w.exec(cl, op) }()
}

var gateTimeout = 180 * time.Second

// wait until the client's goroutine reaches its next gate or returns
func (w *world) wait(cl *client) string {
	select {
	case g := <-w.ctl.arr[cl.name]:
		cl.pending = g
		return g.kind
	case r := <-cl.done:
		cl.running = false
		cl.last = r
		if r.Class == "ok" {
			cl.handles[realName(cl.op["ds"])] = r.hds
			if r.hasWds {
				cl.handles[realName(cl.op["ws"])] = r.wds
			}
		}
		return "done"
	case <-time.After(gateTimeout):
		return "timeout"
	}
}

func (w *world) releaseAll(cls map[string]*client) {
	w.ctl.gating.Store(false)
	for _, cl := range cls {
		for cl.running {
			if cl.pending != nil {
				cl.pending.release <- false
				cl.pending = nil
			}
			select {
			case g := <-w.ctl.arr[cl.name]:
				g.release <- false
			case <-cl.done:
				cl.running = false
			case <-time.After(gateTimeout):
				return
			}
		}
	}
}

func where(cl *client) string {
	if cl.pending != nil {
		return "gate:" + cl.pending.kind
	}
	if cl.running {
		return "running"
	}
	return "returned"
}

func wantWhere(pc string) string {
	switch pc {
	case "read", "post":
		return "gate:Root"
	case "cas":
		return "gate:Commit"
	}
	return "returned"
}

// ------------------------------------------------------------------------------------------------ gated replay

func clientsOf(c mval) []string {
	var out []string
	for _, x := range c["clients"].([]any) {
		out = append(out, x.(string))
	}
	sort.Strings(out)
	return out
}

func runGated(c mval) common.Result {
	steps := c["steps"].([]any)
	bd := c["binding"].(mval)
	backend := bd["backend"].(string)
	clients := clientsOf(c)
	rng := rand.New(rand.NewSource(int64(common.Int(bd["seed"]))))
	w := newWorld(backend, clients, os.Getenv("VERIF_WORK"), true)
	defer w.close()
	init := normProj(steps[0].(mval)["exp"].(mval)["root"])
	w.modelNames(init)
	w.setupInitial(init, common.Int(bd["filler"]), rng)
	w.openClients(clients)
	cls := map[string]*client{}
	for _, n := range clients {
		cl := &client{name: n, hd: w.cdb[n], handles: map[string]datas.Dataset{}, done: make(chan opResult, 1)}
		w.refresh(cl)
		cls[n] = cl
	}
	defer w.releaseAll(cls)
	evals := 0
	res := common.Result{"ok": true}
	var crit []string
	casFails, cwwRaces := 0, 0

	checkRoot := func(i int, act string, exp mval) common.Result {
		w.refreshReader()
		got, rest := w.decodeRoot(w.reader, w.persistedRoot())
		evals++
		if !same(got, normProj(exp["root"])) {
			return common.Fail(i, act, "persisted-dataset-map", normProj(exp["root"]), got)
		}
		if !same(rest, w.filler) {
			return common.Fail(i, act, "other-datasets-changed", len(w.filler), len(rest))
		}
		return nil
	}
	if r := checkRoot(0, "Init", steps[0].(mval)["exp"].(mval)); r != nil {
		return common.Result{"ok": nil, "skipped": true, "detail": "harness could not establish the initial root: " + fmt.Sprint(r["detail"])}
	}

	for i := 1; i < len(steps); i++ {
		st := steps[i].(mval)
		a, cn := st["a"].(string), st["c"].(string)
		exp := st["exp"].(mval)
		cl := cls[cn]
		act := a
		if cl.op != nil && a != "Begin" {
			act = a + "(" + cl.op["kind"].(string) + ")"
		}
		var ev string
		switch a {
		case "Begin":
			op := st["args"].(mval)
			act = "Begin(" + op["kind"].(string) + ")"
			if cl.running {
				return common.Fail(i, act, "client-still-running", "returned", where(cl))
			}
			w.start(cl, op)
			ev = w.wait(cl)
		case "ReadRoot", "PostRead":
			if cl.pending == nil || cl.pending.kind != "Root" {
				return common.Fail(i, act, "not-at-Root-gate", "gate:Root", where(cl))
			}
			g := cl.pending
			cl.pending = nil
			g.release <- false
			ev = w.wait(cl)
		case "CAS":
			if cl.pending == nil || cl.pending.kind != "Commit" {
				return common.Fail(i, act, "not-at-Commit-gate", "gate:Commit", where(cl))
			}
			w.cmu.Lock()
			n0 := len(w.commits)
			w.cmu.Unlock()
			rootBefore := w.persistedRoot()
			g := cl.pending
			cl.pending = nil
			g.release <- false
			ev = w.wait(cl)
			if ev == "timeout" {
				break
			}
			w.cmu.Lock()
			recs := append([]commitRec{}, w.commits[n0:]...)
			w.cmu.Unlock()
			if len(recs) != 1 || recs[0].Who != cn {
				return common.Fail(i, act, "store-commit-calls", 1, recs)
			}
			x := exp["x"].(mval)
			evals++
			if recs[0].Err != "" {
				return common.Fail(i, act, "store-commit-error", "none", recs[0].Err)
			}
			if recs[0].OK != x["casok"].(bool) {
				if x["noop"].(bool) {
					// named deviation CASNoopLenient / strict variant: both are legal for an edit that changes nothing
					res["truncated"] = "noop-cas-variant"
					res["evals"] = evals
					return res
				}
				if sm, has := x["same"].(bool); (sm || !has) && recs[0].OK && !w.shared && w.persistedRoot() == rootBefore && recs[0].Cur == rootBefore {
					// named deviation CASSameContents: the manifest already holds exactly what this instance proposed
					res["truncated"] = "same-contents-cas-variant"
					res["evals"] = evals
					return res
				}
				f := common.Fail(i, act, "cas-outcome", x["casok"], recs[0].OK)
				w.refreshReader()
				pr := w.persistedRoot()
				got, _ := w.decodeRoot(w.reader, pr)
				f["detail"] = fmt.Sprintf("%v\n  store commit: last=%s current=%s ok=%v; persisted root before the call=%s, after=%s\n  persisted dataset map now: %s\n  model: %s",
					f["detail"], recs[0].Last, recs[0].Cur, recs[0].OK, rootBefore, pr, key(got), key(normProj(exp["root"])))
				return f
			}
			if !recs[0].OK {
				casFails++
			}
			if recs[0].OK {
				// C21: inspect the persisted root this Commit produced (and the one it replaced)
				w.refreshReader()
				if recs[0].Last != rootBefore {
					return common.Fail(i, act, "cas-succeeded-against-other-root", rootBefore.String(), recs[0].Last.String())
				}
				if pr := w.persistedRoot(); pr != recs[0].Cur {
					return common.Fail(i, act, "persisted-root-is-not-what-was-committed", recs[0].Cur.String(), pr.String())
				}
				before, _ := w.decodeRoot(w.reader, recs[0].Last)
				after, _ := w.decodeRoot(w.reader, recs[0].Cur)
				if cl.op["kind"] == "CWW" {
					evals++
					b := cl.op["ds"].([]any)[1].(string)
					wantH, wantW := cl.op["n"], cl.op["nws"]
					gotH, gotW := after["heads"].(mval)[b], after["ws"].(mval)[b]
					if !same(gotH, wantH) || !same(gotW, wantW) {
						f := common.Fail(i, act, "C21-pair-torn", []any{wantH, wantW}, []any{gotH, gotW})
						f["fp"] = "C21:CWW:pair-torn"
						return f
					}
					if !same(before["heads"].(mval)[b], cl.op["vh"]) || !same(before["ws"].(mval)[b], cl.op["prev"]) {
						f := common.Fail(i, act, "C21-applied-to-unchecked-state", []any{cl.op["vh"], cl.op["prev"]}, []any{before["heads"].(mval)[b], before["ws"].(mval)[b]})
						f["fp"] = "C21:CWW:applied-to-unchecked-state"
						return f
					}
				}
			}
		case "StoreFault":
			if cl.pending == nil {
				return common.Fail(i, act, "not-at-a-gate", "gate", where(cl))
			}
			g := cl.pending
			cl.pending = nil
			g.release <- true
			ev = w.wait(cl)
		case "Refresh":
			w.refresh(cl)
			ev = where(cl)
		case "Rebase":
			must(cl.hd.cs.Rebase(bg))
			ev = where(cl)
		default:
			return common.Fail(i, a, "unknown-action", "", a)
		}
		if ev == "timeout" {
			return common.Result{"ok": nil, "skipped": true, "detail": fmt.Sprintf("step %d (%s): client %s neither reached a gate nor returned within %v", i, act, cn, gateTimeout)}
		}
		// where is the client now?
		pc := exp["pc"].(mval)[cn].(string)
		evals++
		if a != "Refresh" && a != "Rebase" {
			if got := where(cl); got != wantWhere(pc) {
				if got == "returned" {
					got += " " + cl.last.Class + " " + cl.last.Err
				}
				return common.Fail(i, act, "control-point", pc+" ("+wantWhere(pc)+")", got)
			}
			if pc == "done" {
				evals++
				if cl.last.Class == "panic" {
					f := common.Fail(i, act, "panic", exp["res"], cl.last.Err)
					return f
				}
				if cl.last.Class != exp["res"].(string) {
					return common.Fail(i, act, "result-class", exp["res"], cl.last.Class+": "+cl.last.Err)
				}
				// number of successful store commits of this op
				w.cmu.Lock()
				nok := 0
				for _, r := range w.commits[cl.c0:] {
					if r.Who == cn && r.OK {
						nok++
					}
				}
				w.cmu.Unlock()
				if cl.op["kind"] == "CWW" {
					evals++
					want := 0
					if cl.last.Class == "ok" {
						want = 1
						cwwRaces++
					}
					if nok != want {
						f := common.Fail(i, act, "C21-cas-count", want, nok)
						f["fp"] = "C21:CWW:cas-count"
						return f
					}
				} else if cl.last.Class != "ok" && nok != 0 {
					return common.Fail(i, act, "failed-op-changed-root", 0, nok)
				}
				if cl.last.Class == "ok" {
					evals++
					ret := exp["ret"].(mval)
					if !same(cl.last.H, ret["h"]) || !same(cl.last.W, ret["w"]) {
						return common.Fail(i, act, "returned-dataset", ret, mval{"h": cl.last.H, "w": cl.last.W})
					}
				}
			}
		}
		if a == "Refresh" || a == "PostRead" {
			// the client's captured Datasets
			evals++
			got := mval{"heads": mval{}, "ws": mval{}, "tags": mval{}, "tuples": mval{}}
			for _, id := range w.names {
				d := w.decode(cl.hd.vs, headAddr(cl.handles[id]))
				for p, k := range map[string]string{"refs/heads/": "heads", "workingSets/heads/": "ws", "refs/tags/": "tags", "tuples/": "tuples"} {
					if strings.HasPrefix(id, p) {
						got[k].(mval)[strings.TrimPrefix(id, p)] = d
					}
				}
			}
			if !same(got, normProj(exp["view"])) {
				return common.Fail(i, act, "captured-datasets", normProj(exp["view"]), got)
			}
		}
		if r := checkRoot(i, act, exp); r != nil {
			return r
		}
	}
	if casFails > 0 {
		crit = append(crit, "cas-failed")
	}
	res["evals"] = evals
	res["cas_fails"] = casFails
	res["cww_ok"] = cwwRaces
	res["crit"] = crit
	return res
}

// ------------------------------------------------------------------------------------------------ main

func main() {
	if len(os.Args) < 2 {
		fmt.Println("usage: refstore gated|stress|procs|child")
		os.Exit(3)
	}
	switch os.Args[1] {
	case "gated":
		common.Run(func(c map[string]any) common.Result { return runGated(c) })
	case "stress":
		common.Run(func(c map[string]any) common.Result { return runStress(c) })
	case "procs":
		common.Run(func(c map[string]any) common.Result { return runProcs(c) })
	case "child":
		childMain()
	case "crash":
		common.Run(func(c map[string]any) common.Result { return runCrash(c) })
	default:
		fmt.Println("unknown mode", os.Args[1])
		os.Exit(3)
	}
}

var _ = filepath.Join
