// T-mode with OS processes (procs/child) and crash cuts of a journal written by a CommitWithWorkingSet workload (crash).
package main

import (
	"bufio"
	"encoding/json"
	"fmt"
	"io"
	"math/rand"
	"os"
	"os/exec"
	"path/filepath"
	"sync"
	"time"

	"github.com/dolthub/dolt/go/store/chunks"
	"github.com/dolthub/dolt/go/store/datas"
	"github.com/dolthub/dolt/go/store/hash"
	"github.com/dolthub/dolt/go/store/nbs"
	"github.com/dolthub/dolt/go/store/types"
	"github.com/dolthub/dolt/go/zz_verif/common"
)

// ------------------------------------------------------------------------------------------------ child process
// The child owns one NomsBlockStore instance on the shared directory. It is driven over stdin/stdout, one JSON
// document per line: {"cmd":"choose"} -> {"op":...} (no store access besides the captured Datasets),
// {"cmd":"go"} -> result of executing the chosen operation, {"cmd":"quit"}.

type childInit struct {
	Dir      string            `json:"dir"`
	Name     string            `json:"name"`
	Names    []string          `json:"names"`
	Memo     map[string]string `json:"memo"`
	Seed     int64             `json:"seed"`
	Workload mval              `json:"workload"`
}

func childMain() {
	in := bufio.NewReaderSize(os.Stdin, 1<<20)
	out := json.NewEncoder(os.Stdout)
	var ci childInit
	line, err := in.ReadBytes('\n')
	must(err)
	must(json.Unmarshal(line, &ci))
	w := &world{backend: "child", ctl: &controller{arr: map[string]chan *gate{}}, nbf: types.Format_DOLT,
		cdb: map[string]*handleDB{}, rootVals: map[string]types.Value{}, rootName: map[hash.Hash]string{},
		memo: map[string]hash.Hash{}, dec: map[hash.Hash]mval{}, filler: map[string]string{}}
	st, err := nbs.NewLocalStore(bg, types.Format_DOLT.VersionString(), ci.Dir, 1<<20, nbs.NewUnlimitedMemQuotaProvider(), false)
	must(err)
	defer st.Close()
	hd := w.newHandle(st, true)
	w.cdb[ci.Name] = hd
	w.names = ci.Names
	for _, r := range []string{"r0", "r1", "r2", "r3"} {
		v := types.String("verif-root-value-" + r)
		ref, err := types.NewRef(v, w.nbf)
		must(err)
		w.rootVals[r] = v
		w.rootName[ref.TargetHash()] = r
	}
	for k, a := range ci.Memo {
		w.memo[k] = hash.Parse(a)
	}
	cl := &client{name: ci.Name, hd: hd, handles: map[string]datas.Dataset{}, done: make(chan opResult, 1)}
	w.refresh(cl)
	wl := newWorkload(ci.Workload)
	rng := rand.New(rand.NewSource(ci.Seed))
	must(out.Encode(mval{"ready": true}))
	var op mval
	for {
		line, err := in.ReadBytes('\n')
		if err == io.EOF {
			return
		}
		must(err)
		var cmd mval
		must(json.Unmarshal(line, &cmd))
		switch cmd["cmd"] {
		case "choose":
			op = wl.choose(w, cl, rng)
			cl.op = op
			must(out.Encode(mval{"op": op}))
		case "go":
			c0 := len(w.commits)
			r := w.exec(cl, op)
			if r.Class == "ok" {
				cl.handles[realName(op["ds"])] = r.hds
				if r.hasWds {
					cl.handles[realName(op["ws"])] = r.wds
				}
			}
			h, ws := r.H, r.W
			if h == nil {
				h, ws = noneVal, noneVal
			}
			var recs []mval
			for _, c := range w.commits[c0:] {
				recs = append(recs, mval{"ok": c.OK, "last": c.Last.String(), "cur": c.Cur.String(), "err": c.Err})
			}
			must(out.Encode(mval{"class": r.Class, "err": r.Err, "h": h, "w": ws, "commits": recs}))
		case "quit":
			return
		}
	}
}

// ------------------------------------------------------------------------------------------------ parent

type proc struct {
	name string
	cmd  *exec.Cmd
	in   io.WriteCloser
	out  *bufio.Reader
}

func (p *proc) call(req mval, timeout time.Duration) (mval, error) {
	b, _ := json.Marshal(req)
	if _, err := p.in.Write(append(b, '\n')); err != nil {
		return nil, err
	}
	type ans struct {
		m   mval
		err error
	}
	ch := make(chan ans, 1)
	go func() {
		line, err := p.out.ReadBytes('\n')
		if err != nil {
			ch <- ans{nil, err}
			return
		}
		var m mval
		err = json.Unmarshal(line, &m)
		ch <- ans{m, err}
	}()
	select {
	case a := <-ch:
		return a.m, a.err
	case <-time.After(timeout):
		return nil, fmt.Errorf("timeout")
	}
}

func runProcs(c mval) common.Result {
	clients := clientsOf(c)
	seed := int64(common.Int(c["seed"]))
	rng := rand.New(rand.NewSource(seed))
	w := newWorld("nbsmulti", nil, os.Getenv("VERIF_WORK"), false)
	defer w.close()
	init := normProj(c["init"])
	w.modelNames(init)
	w.setupInitial(init, common.Int(c["filler"]), rng)
	w.reader = w.setup
	start, _ := w.decodeRoot(w.reader, w.persistedRoot())
	if !same(start, init) {
		return common.Result{"ok": nil, "skipped": true, "detail": "harness could not establish the initial root"}
	}
	memo := map[string]string{}
	for k, a := range w.memo {
		memo[k] = a.String()
	}
	exe, _ := os.Executable()
	var procs []*proc
	defer func() {
		for _, p := range procs {
			p.in.Close()
			done := make(chan struct{})
			go func() { p.cmd.Wait(); close(done) }()
			select {
			case <-done:
			case <-time.After(10 * time.Second):
				p.cmd.Process.Kill()
			}
		}
	}()
	for i, n := range clients {
		cmd := exec.Command(exe, "child")
		cmd.Stderr = os.Stderr
		in, _ := cmd.StdinPipe()
		out, _ := cmd.StdoutPipe()
		if err := cmd.Start(); err != nil {
			return common.Result{"ok": nil, "skipped": true, "detail": "cannot start child: " + err.Error()}
		}
		p := &proc{n, cmd, in, bufio.NewReaderSize(out, 1<<20)}
		procs = append(procs, p)
		ci := childInit{Dir: w.dir, Name: n, Names: w.names, Memo: memo, Seed: seed*977 + int64(i), Workload: c}
		b, _ := json.Marshal(ci)
		p.in.Write(append(b, '\n'))
		line, err := p.out.ReadBytes('\n')
		if err != nil {
			return common.Result{"ok": nil, "skipped": true, "detail": "child did not start: " + err.Error() + string(line)}
		}
	}
	nops := common.Int(c["nops"])
	tr := &tracer{}
	tr.log(mval{"ev": "reset", "root": rootPairs(w, start), "shared": false})
	type opRec struct {
		who   string
		op    mval
		class string
		recs  []commitRec
	}
	var omu sync.Mutex
	var ops []opRec
	var wg sync.WaitGroup
	errs := make(chan string, len(procs))
	for _, p := range procs {
		wg.Add(1)
		go func() {
			defer wg.Done()
			for k := 0; k < nops; k++ {
				a, err := p.call(mval{"cmd": "choose"}, gateTimeout)
				if err != nil {
					errs <- p.name + ": choose: " + err.Error()
					return
				}
				op := a["op"].(mval)
				tr.log(mval{"ev": "call", "c": p.name, "op": op})
				r, err := p.call(mval{"cmd": "go"}, gateTimeout)
				if err != nil {
					errs <- p.name + ": " + key(op) + ": " + err.Error()
					return
				}
				tr.log(mval{"ev": "ret", "c": p.name, "res": r["class"], "h": r["h"], "w": r["w"], "err": r["err"]})
				var recs []commitRec
				if cs, ok := r["commits"].([]any); ok {
					for _, x := range cs {
						m := x.(mval)
						recs = append(recs, commitRec{Who: p.name, OK: m["ok"].(bool), Last: hash.Parse(m["last"].(string)), Cur: hash.Parse(m["cur"].(string))})
					}
				}
				omu.Lock()
				ops = append(ops, opRec{p.name, op, r["class"].(string), recs})
				omu.Unlock()
			}
			p.call(mval{"cmd": "quit"}, time.Second)
		}()
	}
	wg.Wait()
	select {
	case e := <-errs:
		if len(e) > 0 {
			return common.Result{"ok": nil, "skipped": true, "detail": "child process failed or timed out: " + e}
		}
	default:
	}
	final, rest := w.decodeRoot(w.reader, w.persistedRoot())
	tr.log(mval{"ev": "final", "root": rootPairs(w, final)})
	if !same(rest, w.filler) {
		return common.Result{"ok": false, "fp": "procs:other-datasets-changed", "detail": "datasets outside the workload changed"}
	}
	ncww, fails := 0, 0
	for _, o := range ops {
		for _, r := range o.recs {
			if !r.OK {
				fails++
			}
		}
		if o.class == "panic" {
			return common.Result{"ok": false, "fp": "panic", "detail": o.who + ": " + key(o.op) + " panicked"}
		}
		if o.op["kind"] != "CWW" {
			continue
		}
		ncww++
		if fp, what := c21Inspect(w, o.who, o.op, o.class, o.recs); fp != "" {
			return common.Result{"ok": false, "fp": fp, "detail": what, "trace": tr.evs}
		}
	}
	return common.Result{"ok": true, "trace": tr.evs, "events": len(tr.evs), "cww": ncww, "cas_fails": fails}
}

// ------------------------------------------------------------------------------------------------ crash cuts (C21)
// A CommitWithWorkingSet-heavy concurrent workload runs on a journaling store; every root persisted by a successful
// store commit is inspected (c21Inspect). Then the journal file is cut at many offsets (a crash leaves a prefix of
// the journal); each cut directory is opened with the real recovery code and the recovered root must be one of the
// inspected persisted roots (so its (head, working set) pairs are old/old or new/new).

func copyDir(src, dst string) error {
	return filepath.Walk(src, func(p string, info os.FileInfo, err error) error {
		if err != nil {
			return err
		}
		rel, _ := filepath.Rel(src, p)
		t := filepath.Join(dst, rel)
		if info.IsDir() {
			return os.MkdirAll(t, 0o755)
		}
		if !info.Mode().IsRegular() {
			return nil
		}
		b, err := os.ReadFile(p)
		if err != nil {
			return err
		}
		return os.WriteFile(t, b, 0o644)
	})
}

func runCrash(c mval) common.Result {
	clients := clientsOf(c)
	seed := int64(common.Int(c["seed"]))
	rng := rand.New(rand.NewSource(seed))
	w := newWorld("journal", clients, os.Getenv("VERIF_WORK"), false)
	defer w.close()
	init := normProj(c["init"])
	w.modelNames(init)
	w.setupInitial(init, common.Int(c["filler"]), rng)
	w.openClients(clients)
	wl := newWorkload(c)
	nops := common.Int(c["nops"])
	jpath := filepath.Join(w.dir, chunks.JournalFileID)
	fi, err := os.Stat(jpath)
	if err != nil {
		return common.Result{"ok": nil, "skipped": true, "detail": "no journal file: " + err.Error()}
	}
	startLen := fi.Size()
	type opRec struct {
		who    string
		op     mval
		class  string
		c0, c1 int
	}
	var omu sync.Mutex
	var ops []opRec
	var wg sync.WaitGroup
	for i, n := range clients {
		cl := &client{name: n, hd: w.cdb[n], handles: map[string]datas.Dataset{}, done: make(chan opResult, 1)}
		w.refresh(cl)
		crng := rand.New(rand.NewSource(seed*1000 + int64(i)))
		wg.Add(1)
		go func() {
			defer wg.Done()
			for k := 0; k < nops; k++ {
				op := wl.choose(w, cl, crng)
				w.cmu.Lock()
				c0 := len(w.commits)
				w.cmu.Unlock()
				r := w.exec(cl, op)
				w.cmu.Lock()
				c1 := len(w.commits)
				w.cmu.Unlock()
				if r.Class == "ok" {
					cl.handles[realName(op["ds"])] = r.hds
					if r.hasWds {
						cl.handles[realName(op["ws"])] = r.wds
					}
				}
				omu.Lock()
				ops = append(ops, opRec{n, op, r.Class, c0, c1})
				omu.Unlock()
			}
		}()
	}
	wg.Wait()
	recs := append([]commitRec{}, w.commits...)
	ncww := 0
	for _, o := range ops {
		if o.class == "panic" {
			return common.Result{"ok": false, "fp": "panic", "detail": o.who + ": " + key(o.op) + " panicked"}
		}
		if o.op["kind"] == "CWW" {
			ncww++
			if fp, what := c21Inspect(w, o.who, o.op, o.class, recs[o.c0:o.c1]); fp != "" {
				return common.Result{"ok": false, "fp": fp, "detail": what}
			}
		}
	}
	// roots that were persisted, in order; index of the CWW-produced ones
	persisted := map[hash.Hash]int{}
	for i, r := range recs {
		if r.OK {
			persisted[r.Cur] = i
		}
	}
	w.closeStores()
	fi, err = os.Stat(jpath)
	if err != nil {
		return common.Result{"ok": nil, "skipped": true, "detail": "journal vanished: " + err.Error()}
	}
	endLen := fi.Size()
	ncuts := common.Int(c["cuts"])
	cuts := map[int64]bool{endLen: true, startLen: true}
	for len(cuts) < ncuts && int64(len(cuts)) < endLen-startLen {
		cuts[startLen+rng.Int63n(endLen-startLen+1)] = true
	}
	checked, skippedCuts, distinct := 0, 0, map[hash.Hash]bool{}
	for off := range cuts {
		d, _ := os.MkdirTemp(os.Getenv("VERIF_WORK"), "refstore-cut-")
		if err := copyDir(w.dir, d); err != nil {
			os.RemoveAll(d)
			return common.Result{"ok": nil, "skipped": true, "detail": "copy failed: " + err.Error()}
		}
		must(os.Truncate(filepath.Join(d, chunks.JournalFileID), off))
		// the index file may describe more of the journal than the cut kept; a crash can leave it in any older state: drop it
		os.Remove(filepath.Join(d, "journal.idx"))
		st, err := nbs.NewLocalJournalingStore(bg, types.Format_DOLT.VersionString(), d, nbs.NewUnlimitedMemQuotaProvider(), false, nil)
		if err != nil {
			skippedCuts++
			os.RemoveAll(d)
			continue
		}
		root, err := st.Root(bg)
		if err != nil {
			st.Close()
			os.RemoveAll(d)
			skippedCuts++
			continue
		}
		checked++
		distinct[root] = true
		if _, ok := persisted[root]; !ok {
			st.Close()
			os.RemoveAll(d)
			return common.Result{"ok": false, "fp": "C21:crash:recovered-root-was-never-persisted",
				"detail": fmt.Sprintf("journal cut at %d of %d: recovered root %s is not a root that any successful store commit persisted", off, endLen, root)}
		}
		// the recovered root must be readable (head and working set of every branch decode)
		hd := w.newHandle(st, false)
		proj, _ := w.decodeRoot(hd, root)
		for _, k := range []string{"heads", "ws"} {
			for n, v := range proj[k].(mval) {
				if kk := v.(mval)["k"]; kk == "missing" || kk == "notserial" {
					st.Close()
					os.RemoveAll(d)
					return common.Result{"ok": false, "fp": "C21:crash:recovered-root-unreadable", "detail": fmt.Sprintf("cut at %d: %s/%s unreadable", off, k, n)}
				}
			}
		}
		st.Close()
		os.RemoveAll(d)
	}
	return common.Result{"ok": true, "cww": ncww, "cuts": checked, "cuts_skipped": skippedCuts, "distinct_roots": len(distinct), "evals": checked}
}
