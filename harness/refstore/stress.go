// T-mode of engine E7: ungated concurrent clients (goroutines, or OS processes in procs.go) on one store; every public
// call is logged at its start and at its return (one global sequence, taken under the logger's mutex) in the
// vocabulary of spec/RefStore.tla; spec/TraceRefStore.tla decides whether the history is a behaviour of the model.
// This program generates the workload (random choice of operations and parameters) and never judges the outcome,
// except for the C21 inspection of the roots persisted by successful store commits.
package main

import (
	"fmt"
	"math/rand"
	"os"
	"sort"
	"strings"
	"sync"

	"github.com/dolthub/dolt/go/store/datas"
	"github.com/dolthub/dolt/go/zz_verif/common"
)

type tracer struct {
	mu  sync.Mutex
	evs []mval
}

func (t *tracer) log(e mval) {
	t.mu.Lock()
	t.evs = append(t.evs, e)
	t.mu.Unlock()
}

// model name <<kind, id>> of a real dataset id
func modelName(id string) []any {
	for p, k := range map[string]string{"refs/heads/": "h", "workingSets/heads/": "w", "refs/tags/": "t", "tuples/": "u"} {
		if strings.HasPrefix(id, p) {
			return []any{k, strings.TrimPrefix(id, p)}
		}
	}
	return []any{"-", "-"}
}

var noName = []any{"-", "-"}

func rootPairs(w *world, proj mval) []any {
	var out []any
	for _, id := range w.names {
		mn := modelName(id)
		k := map[string]string{"h": "heads", "w": "ws", "t": "tags", "u": "tuples"}[mn[0].(string)]
		out = append(out, []any{mn, proj[k].(mval)[mn[1].(string)]})
	}
	return out
}

// mkOp builds an operation record of the shape of RefStore!MkOp
func mkOp(kind string, ds, ws []any, vh, prev, x mval, r string, ps []any, nws mval, wws, dirty, force, amend bool) mval {
	if ps == nil {
		ps = []any{}
	}
	return mval{"kind": kind, "ds": ds, "ws": ws, "vh": vh, "prev": prev, "x": x, "r": r, "ps": ps, "nws": nws,
		"wws": wws, "dirty": dirty, "force": force, "amend": amend, "n": noneVal}
}

type workload struct {
	branches, tags, tuples []string
	kinds                  []string
	vals                   []string
	pres                   []mval
}

// choose draws the next operation of a client from what the client currently holds. Pure workload generation.
func (wl *workload) choose(w *world, cl *client, rng *rand.Rand) mval {
	pick := func(s []string) string { return s[rng.Intn(len(s))] }
	pre := func() mval { return wl.pres[rng.Intn(len(wl.pres))] }
	view := func(id string) mval { return w.decode(cl.hd.vs, headAddr(cl.handles[id])) }
	for {
		kind := pick(wl.kinds)
		b := pick(wl.branches)
		h, ws := []any{"h", b}, []any{"w", b}
		vh := view("refs/heads/" + b)
		vw := view("workingSets/heads/" + b)
		r := pick(wl.vals)
		switch kind {
		case "Commit":
			var ps []any
			switch rng.Intn(4) {
			case 0:
				ps = []any{pre()}
			case 1:
				if vh["k"] == "n" {
					continue
				}
				ps = []any{vh, pre()}
			}
			return mkOp("Commit", h, noName, vh, noneVal, noneVal, r, ps, noneVal, false, false, false, false)
		case "CommitForce":
			return mkOp("CommitForce", h, noName, vh, noneVal, noneVal, r, []any{pre()}, noneVal, false, false, true, false)
		case "Amend":
			if vh["k"] != "c" {
				continue
			}
			return mkOp("Amend", h, noName, vh, noneVal, noneVal, r, vh["ps"].([]any), noneVal, false, false, false, true)
		case "FF":
			wws := rng.Intn(2) == 0
			wsn := noName
			if wws {
				wsn = ws
			}
			return mkOp("FF", h, wsn, vh, noneVal, pre(), "-", nil, noneVal, wws, rng.Intn(2) == 0, false, false)
		case "SetHead":
			if len(wl.tags) > 0 && rng.Intn(4) == 0 {
				t := pick(wl.tags)
				return mkOp("SetHead", []any{"t", t}, noName, view("refs/tags/"+t), noneVal, pre(), "-", nil, noneVal, false, false, false, false)
			}
			wws := rng.Intn(2) == 0
			wsn := noName
			if wws {
				wsn = ws
			}
			return mkOp("SetHead", h, wsn, vh, noneVal, pre(), "-", nil, noneVal, wws, false, false, false)
		case "Tag":
			if len(wl.tags) == 0 {
				continue
			}
			t := pick(wl.tags)
			return mkOp("Tag", []any{"t", t}, noName, view("refs/tags/"+t), noneVal, pre(), "-", nil, noneVal, false, false, false, false)
		case "Delete":
			if len(wl.tags) > 0 && rng.Intn(3) == 0 {
				t := pick(wl.tags)
				return mkOp("Delete", []any{"t", t}, noName, view("refs/tags/"+t), noneVal, noneVal, "-", nil, noneVal, false, false, false, false)
			}
			wws := rng.Intn(2) == 0
			wsn := noName
			if wws {
				wsn = ws
			}
			return mkOp("Delete", h, wsn, vh, noneVal, noneVal, "-", nil, noneVal, wws, false, false, false)
		case "UpdWS":
			nws := mval{"k": "w", "w": pick(wl.vals), "s": pick(wl.vals), "m": float64(rng.Intn(2))}
			return mkOp("UpdWS", ws, noName, noneVal, vw, noneVal, "-", nil, nws, false, false, false, false)
		case "CWW":
			var ps []any
			if rng.Intn(3) == 0 {
				ps = []any{pre()}
			}
			nws := mval{"k": "w", "w": r, "s": r, "m": float64(rng.Intn(2))}
			return mkOp("CWW", h, ws, vh, vw, noneVal, r, ps, nws, true, false, false, false)
		case "SetTuple":
			if len(wl.tuples) == 0 {
				continue
			}
			return mkOp("SetTuple", []any{"u", pick(wl.tuples)}, noName, noneVal, noneVal, noneVal, r, nil, noneVal, false, false, false, false)
		case "Get":
			id := w.names[rng.Intn(len(w.names))]
			return mkOp("Get", modelName(id), noName, noneVal, noneVal, noneVal, "-", nil, noneVal, false, false, false, false)
		}
	}
}

func strs(v any) []string {
	var out []string
	if a, ok := v.([]any); ok {
		for _, x := range a {
			out = append(out, x.(string))
		}
	}
	return out
}

func newWorkload(c mval) *workload {
	wl := &workload{branches: strs(c["branches"]), tags: strs(c["tags"]), tuples: strs(c["tuples"]), kinds: strs(c["kinds"]), vals: strs(c["vals"])}
	all := preCommits()
	for _, i := range common.Ints(c["pre"]) {
		wl.pres = append(wl.pres, all[i])
	}
	return wl
}

// c21Inspect: every successful store commit made during a CommitWithWorkingSet must change head and working set of that
// branch together (and nothing else); a successful CommitWithWorkingSet has exactly one, a failed one none.
func c21Inspect(w *world, who string, op mval, class string, recs []commitRec) (string, string) {
	nok := 0
	b := op["ds"].([]any)[1].(string)
	for _, r := range recs {
		if r.Who != who || !r.OK {
			continue
		}
		nok++
		before, _ := w.decodeRoot(w.reader, r.Last)
		after, _ := w.decodeRoot(w.reader, r.Cur)
		for _, k := range []string{"heads", "ws", "tags", "tuples"} {
			for n, v := range after[k].(mval) {
				changed := !same(v, before[k].(mval)[n])
				mine := n == b && (k == "heads" || k == "ws")
				if changed && !mine {
					return "C21:CWW:changed-other-dataset", fmt.Sprintf("%s/%s changed by a CommitWithWorkingSet on %s", k, n, b)
				}
			}
		}
		h := after["heads"].(mval)[b].(mval)
		if !same(after["ws"].(mval)[b], op["nws"]) || h["k"] != "c" || h["a"] != who || h["r"] != op["r"] || same(h, before["heads"].(mval)[b]) {
			return "C21:CWW:pair-torn", fmt.Sprintf("root %s persisted by CommitWithWorkingSet(%s): head=%s ws=%s, wanted a new commit by %s with root %s and ws %s",
				r.Cur, b, key(h), key(after["ws"].(mval)[b]), who, op["r"], key(op["nws"]))
		}
	}
	want := 0
	if class == "ok" {
		want = 1
	}
	if nok != want {
		return "C21:CWW:cas-count", fmt.Sprintf("CommitWithWorkingSet returned %s after %d successful store commits", class, nok)
	}
	return "", ""
}

func runStress(c mval) common.Result {
	backend := c["backend"].(string)
	clients := clientsOf(c)
	seed := int64(common.Int(c["seed"]))
	rng := rand.New(rand.NewSource(seed))
	w := newWorld(backend, clients, os.Getenv("VERIF_WORK"), false)
	defer w.close()
	init := normProj(c["init"])
	w.modelNames(init)
	w.setupInitial(init, common.Int(c["filler"]), rng)
	w.openClients(clients)
	wl := newWorkload(c)
	nops := common.Int(c["nops"])
	tr := &tracer{}
	w.refreshReader()
	start, _ := w.decodeRoot(w.reader, w.persistedRoot())
	if !same(start, init) {
		return common.Result{"ok": nil, "skipped": true, "detail": "harness could not establish the initial root"}
	}
	tr.log(mval{"ev": "reset", "root": rootPairs(w, start), "shared": w.shared})
	type opRec struct {
		who    string
		op     mval
		class  string
		c0, c1 int
	}
	var omu sync.Mutex
	var ops []opRec
	var wg sync.WaitGroup
	panics := make(chan string, len(clients))
	for i, n := range clients {
		cl := &client{name: n, hd: w.cdb[n], handles: map[string]datas.Dataset{}, done: make(chan opResult, 1)}
		w.refresh(cl)
		crng := rand.New(rand.NewSource(seed*1000 + int64(i)))
		wg.Add(1)
		go func() {
			defer wg.Done()
			for k := 0; k < nops; k++ {
				op := wl.choose(w, cl, crng)
				cl.op = op
				w.cmu.Lock()
				c0 := len(w.commits)
				w.cmu.Unlock()
				tr.log(mval{"ev": "call", "c": cl.name, "op": op})
				r := w.exec(cl, op)
				if r.Class == "panic" {
					panics <- fmt.Sprintf("%s: %s panicked: %s", cl.name, key(op), r.Err)
					return
				}
				h, ws := r.H, r.W
				if h == nil {
					h, ws = noneVal, noneVal
				}
				tr.log(mval{"ev": "ret", "c": cl.name, "res": r.Class, "h": h, "w": ws, "err": r.Err})
				w.cmu.Lock()
				c1 := len(w.commits)
				w.cmu.Unlock()
				if r.Class == "ok" {
					cl.handles[realName(op["ds"])] = r.hds
					if r.hasWds {
						cl.handles[realName(op["ws"])] = r.wds
					}
				}
				omu.Lock()
				ops = append(ops, opRec{cl.name, op, r.Class, c0, c1})
				omu.Unlock()
			}
		}()
	}
	wg.Wait()
	select {
	case p := <-panics:
		return common.Result{"ok": false, "fp": "panic", "detail": p}
	default:
	}
	w.refreshReader()
	final, rest := w.decodeRoot(w.reader, w.persistedRoot())
	tr.log(mval{"ev": "final", "root": rootPairs(w, final)})
	res := common.Result{"ok": true, "trace": tr.evs, "events": len(tr.evs)}
	if !same(rest, w.filler) {
		return common.Result{"ok": false, "fp": "stress:other-datasets-changed", "detail": "datasets outside the workload changed"}
	}
	// C21 inspection of persisted roots
	ncww := 0
	w.cmu.Lock()
	recs := append([]commitRec{}, w.commits...)
	w.cmu.Unlock()
	for _, o := range ops {
		if o.op["kind"] != "CWW" {
			continue
		}
		ncww++
		if fp, what := c21Inspect(w, o.who, o.op, o.class, recs[o.c0:o.c1]); fp != "" {
			return common.Result{"ok": false, "fp": fp, "detail": what, "trace": tr.evs}
		}
	}
	failed := 0
	for _, r := range recs {
		if r.Who != "" && !r.OK {
			failed++
		}
	}
	res["cww"] = ncww
	res["cas_fails"] = failed
	sort.Strings(clients)
	return res
}
