// Mode "cons" (C24): replays behaviours of /verif/spec/Constraints.tla statement by statement on an in-process dolt SQL
// engine with one SQL session per model session, and compares after EVERY step
//   - the outcome class of the statement (ok / duplicate key / FK / NOT NULL / CHECK error / commit refused with a
//     constraint error / retry / merge outcome),
//   - the persisted head and working rows of p and c on every branch, the recorded violations
//     (dolt_constraint_violations_p / _c) of the working set, the NOT NULL flag of c.n and the merge-in-progress flag,
//   - dolt_verify_constraints('--all', '--output-only') on every working set (independent evaluator; expectation =
//     TLC's Violates(root) \/ recorded artifacts),
//   - the uncommitted view of every session.
//
// All expectations come from the behaviour (TLC); this file binds model values to SQL values and compares.
package main

import (
	"fmt"
	"regexp"
	"sort"
	"strings"

	"github.com/dolthub/dolt/go/zz_verif/common"
	"github.com/dolthub/dolt/go/zz_verif/sqlh"
)

const consFillerBase = 1000

type consBinding struct {
	UType   string // "int" | "varchar"
	Filler  int    // filler rows in p and c (pk >= 1000)
	KeyMode string // "small" | "spread"
}

type consEngine struct {
	srv      *sqlh.Server
	sess     map[string]*sqlh.Session
	insp     *sqlh.Session
	bd       consBinding
	evals    int
	stats    map[string]int
	soft     []any
	stepNo   int
	branches []string
	uvals    []int
	sessions []string
}

func (e *consEngine) pk(k int) int {
	if e.bd.KeyMode == "spread" {
		return []int{0, -300, 7, 64, 511, 999}[k%6] // monotonic: the model's key order is the SQL key order
	}
	return k
}
func (e *consEngine) unpk(x any) (int, bool) {
	v, ok := x.(int64)
	if !ok {
		return 0, false
	}
	for k := 1; k <= 5; k++ {
		if int64(e.pk(k)) == v {
			return k, true
		}
	}
	return 0, false
}
func (e *consEngine) ulit(u int) string {
	if u == 0 {
		return "NULL"
	}
	if e.bd.UType == "varchar" {
		return fmt.Sprintf("'v%d''x'", u*10)
	}
	return fmt.Sprint(u * 10)
}
func (e *consEngine) unu(x any) int {
	if x == nil {
		return 0
	}
	switch v := x.(type) {
	case int64:
		if v%10 == 0 && v > 0 && v <= 50 {
			return int(v / 10)
		}
	case string:
		for u := 1; u <= 5; u++ {
			if v == fmt.Sprintf("v%d'x", u*10) {
				return u
			}
		}
	}
	return -9
}
func nlit(n int) string {
	if n == 0 {
		return "NULL"
	}
	return fmt.Sprint(n * 10)
}
func unn(x any) int {
	if x == nil {
		return 0
	}
	if v, ok := x.(int64); ok && v%10 == 0 && v > 0 && v <= 20 {
		return int(v / 10)
	}
	return -9
}
func (e *consEngine) flit(f int) string {
	if f == 0 {
		return "NULL"
	}
	return fmt.Sprint(e.pk(f))
}

// ---- model-side projection (decoded from TLC's JSON)
type consRoot struct {
	P   [][2]int `json:"p"`
	PA  [][2]int `json:"pa"`
	C   [][4]int `json:"c"`
	CA  [][2]int `json:"ca"`
	NN  bool     `json:"nn"`
	Bad bool     `json:"bad"`
}

func decInts(v any, n int) [][]int {
	var out [][]int
	if a, ok := v.([]any); ok {
		for _, r := range a {
			out = append(out, common.Ints(r))
		}
	}
	return out
}
func decRoot(v any) consRoot {
	m := amap(v)
	var r consRoot
	for _, x := range decInts(m["p"], 2) {
		r.P = append(r.P, [2]int{x[0], x[1]})
	}
	for _, x := range decInts(m["pa"], 2) {
		r.PA = append(r.PA, [2]int{x[0], x[1]})
	}
	for _, x := range decInts(m["c"], 4) {
		r.C = append(r.C, [4]int{x[0], x[1], x[2], x[3]})
	}
	for _, x := range decInts(m["ca"], 2) {
		r.CA = append(r.CA, [2]int{x[0], x[1]})
	}
	r.NN, _ = m["nn"].(bool)
	r.Bad, _ = m["bad"].(bool)
	return r
}
func (r consRoot) String() string {
	return fmt.Sprintf("p=%v viol_p=%v c=%v viol_c=%v nn=%v", r.P, r.PA, r.C, r.CA, r.NN)
}
func (r consRoot) dataEq(o consRoot) bool {
	return fmt.Sprint(r.P, r.PA, r.C, r.CA, r.NN) == fmt.Sprint(o.P, o.PA, o.C, o.CA, o.NN)
}

func amap(v any) map[string]any {
	if m, ok := v.(map[string]any); ok {
		return m
	}
	return map[string]any{}
}
func strs(v any) []string {
	var out []string
	if a, ok := v.([]any); ok {
		for _, x := range a {
			out = append(out, x.(string))
		}
	}
	sort.Strings(out)
	return out
}

// readRoot reads a root through session ss. asOf "" = the session's working root, else " as of '<rev>'" (head roots).
// Violation tables are only read for the working root.
func (e *consEngine) readRoot(ss *sqlh.Session, db string, asOf string) (consRoot, error) {
	var r consRoot
	q := func(s string) ([][]any, error) { return ss.Query(s) }
	pfx := ""
	if db != "" {
		pfx = "`" + db + "`."
	}
	ao := ""
	if asOf != "" {
		ao = " as of '" + asOf + "'"
	}
	rows, err := q("select pk, u from " + pfx + "p" + ao + " order by pk")
	if err != nil {
		return r, err
	}
	filler := 0
	for _, row := range rows {
		if v, ok := row[0].(int64); ok && v >= consFillerBase {
			filler++
			continue
		}
		k, ok := e.unpk(row[0])
		if !ok {
			return r, fmt.Errorf("p row with a key outside the binding: %v", row)
		}
		r.P = append(r.P, [2]int{k, e.unu(row[1])})
	}
	if filler != e.bd.Filler {
		return r, fmt.Errorf("p%s: %d filler rows, %d inserted", ao, filler, e.bd.Filler)
	}
	sort.Slice(r.P, func(i, j int) bool { return r.P[i][0] < r.P[j][0] })
	rows, err = q("select pk, f, n, a from " + pfx + "c" + ao + " order by pk")
	if err != nil {
		return r, err
	}
	filler = 0
	for _, row := range rows {
		if v, ok := row[0].(int64); ok && v >= consFillerBase {
			filler++
			continue
		}
		k, ok := e.unpk(row[0])
		if !ok {
			return r, fmt.Errorf("c row with a key outside the binding: %v", row)
		}
		f := 0
		if row[1] != nil {
			if f, ok = e.unpk(row[1]); !ok {
				return r, fmt.Errorf("c row with a foreign key outside the binding: %v", row)
			}
		}
		r.C = append(r.C, [4]int{k, f, unn(row[2]), unn(row[3])})
	}
	if filler != e.bd.Filler {
		return r, fmt.Errorf("c%s: %d filler rows, %d inserted", ao, filler, e.bd.Filler)
	}
	sort.Slice(r.C, func(i, j int) bool { return r.C[i][0] < r.C[j][0] })
	rows, err = q("show create table " + pfx + "c" + ao)
	if err != nil {
		return r, err
	}
	r.NN = strings.Contains(fmt.Sprint(rows[0][1]), "`n` int NOT NULL")
	if asOf == "" {
		for _, t := range []string{"p", "c"} {
			rows, err = q("select pk, violation_type from " + pfx + "dolt_constraint_violations_" + t)
			if err != nil {
				return r, err
			}
			var arts [][2]int
			for _, row := range rows {
				k, ok := e.unpk(row[0])
				if !ok {
					return r, fmt.Errorf("violation row of %s with a key outside the binding: %v", t, row)
				}
				ty := map[string]int{"foreign key": 1, "unique index": 2, "check constraint": 3, "not null": 4}[fmt.Sprint(row[1])]
				if ty == 0 {
					if v, ok := row[1].(int64); ok {
						ty = int(v)
					}
				}
				arts = append(arts, [2]int{k, ty})
			}
			sort.Slice(arts, func(i, j int) bool { return arts[i][0]*10+arts[i][1] < arts[j][0]*10+arts[j][1] })
			if t == "p" {
				r.PA = arts
			} else {
				r.CA = arts
			}
		}
	}
	return r, nil
}

var consErrClasses = []struct {
	tag string
	re  *regexp.Regexp
}{
	{"constraint", regexp.MustCompile(`(?i)resulted in a working set with constraint violations`)},
	{"retry", regexp.MustCompile(`(?i)serialization failure|try restarting transaction`)},
	{"conflict", regexp.MustCompile(`(?i)Merge conflict detected|unresolved conflicts`)},
	{"duppk", regexp.MustCompile(`(?i)duplicate primary key`)},
	{"dupuq", regexp.MustCompile(`(?i)duplicate unique key`)},
	{"fkparent", regexp.MustCompile(`(?i)cannot delete or update a parent row`)},
	{"fkchild", regexp.MustCompile(`(?i)cannot add or update a child row`)},
	{"notnull", regexp.MustCompile(`(?i)column name 'n' is non-nullable|cannot be null`)},
	{"nullpresent", regexp.MustCompile(`(?i)Invalid use of NULL|non-nullable but attempted to set a value of null|cannot be null`)},
	{"check", regexp.MustCompile(`(?i)check constraint`)},
	{"nothing", regexp.MustCompile(`(?i)nothing to commit`)},
	{"violations", regexp.MustCompile(`(?i)have constraint violations`)},
}

func consClassify(a string, err error) string {
	if err == nil {
		return "ok"
	}
	msg := err.Error()
	for _, c := range consErrClasses {
		if c.re.MatchString(msg) {
			if a == "AlterNN" && c.tag == "notnull" {
				return "nullpresent"
			}
			return c.tag
		}
	}
	return "err:?" + msg
}

func (e *consEngine) fail(a, what string, exp, got any) common.Result {
	f := common.Fail(e.stepNo, a, what, exp, got)
	f["stats"] = e.stats
	f["evals"] = e.evals
	return f
}

// makeRoot turns the working root of the branch checked out by ss into |want| (set-up only: the result is verified
// against TLC's projection by the caller's first comparison).
func (e *consEngine) makeRoot(ss *sqlh.Session, want consRoot) {
	ss.MustExec("set foreign_key_checks = 0")
	ss.MustExec(fmt.Sprintf("delete from c where pk < %d", consFillerBase))
	ss.MustExec(fmt.Sprintf("delete from p where pk < %d", consFillerBase))
	for _, r := range want.P {
		ss.MustExec(fmt.Sprintf("insert into p values (%d, %s)", e.pk(r[0]), e.ulit(r[1])))
	}
	for _, r := range want.C {
		ss.MustExec(fmt.Sprintf("insert into c values (%d, %s, %s, %s)", e.pk(r[0]), e.flit(r[1]), nlit(r[2]), nlit(r[3])))
	}
	if want.NN {
		rows, err := ss.Query("show create table c")
		if err != nil {
			panic(err)
		}
		if !strings.Contains(fmt.Sprint(rows[0][1]), "`n` int NOT NULL") {
			ss.MustExec("alter table c modify n int not null")
		}
	}
	ss.MustExec("set foreign_key_checks = 1")
}

func runCons(c map[string]any) common.Result {
	b := amap(c["binding"])
	e := &consEngine{sess: map[string]*sqlh.Session{}, stats: map[string]int{}}
	e.bd.UType, _ = b["utype"].(string)
	e.bd.KeyMode, _ = b["keys"].(string)
	if f, ok := b["filler"]; ok {
		e.bd.Filler = common.Int(f)
	}
	e.branches = strs(c["branches"])
	e.sessions = strs(c["sessions"])
	e.uvals = common.Ints(c["uvals"])
	sort.Ints(e.uvals)
	dir, err := mkWork("cons-")
	if err != nil {
		return common.Result{"ok": false, "fp": "setup", "detail": err.Error()}
	}
	defer rmWork(dir)
	srv, err := sqlh.NewRepoServer(dir, "db")
	if err != nil {
		return common.Result{"ok": false, "fp": "setup", "detail": err.Error()}
	}
	defer srv.Close()
	e.srv = srv
	if e.insp, err = srv.NewSession("_insp"); err != nil {
		return common.Result{"ok": false, "fp": "setup", "detail": err.Error()}
	}
	for _, s := range e.sessions {
		if e.sess[s], err = srv.NewSession(s); err != nil {
			return common.Result{"ok": false, "fp": "setup", "detail": err.Error()}
		}
	}
	steps := c["steps"].([]any)
	init := steps[0].(map[string]any)
	if init["a"] != "Init" {
		return common.Result{"ok": false, "fp": "setup", "detail": "first step is not Init"}
	}
	// ---- set-up: schema, filler, base commit, branches, (triples mode) the two heads
	su := e.insp
	utype := "int"
	if e.bd.UType == "varchar" {
		utype = "varchar(20)"
	}
	su.MustExec("create table p (pk int primary key, u " + utype + ", unique key uq (u))")
	su.MustExec("create table c (pk int primary key, f int, n int, a int, constraint ck check (n + a < 40), constraint fk foreign key (f) references p (pk))")
	if e.bd.Filler > 0 {
		var sp, sc strings.Builder
		sp.WriteString("insert into p values ")
		sc.WriteString("insert into c values ")
		for i := 0; i < e.bd.Filler; i++ {
			if i > 0 {
				sp.WriteString(",")
				sc.WriteString(",")
			}
			u := fmt.Sprint(100000 + i*7)
			if e.bd.UType == "varchar" {
				u = fmt.Sprintf("'w%d'", 100000+i*7)
			}
			fmt.Fprintf(&sp, "(%d,%s)", consFillerBase+i, u)
			fmt.Fprintf(&sc, "(%d,%d,10,10)", consFillerBase+i, consFillerBase+(i*3)%e.bd.Filler)
		}
		su.MustExec(sp.String())
		su.MustExec(sc.String())
	}
	su.MustExec("call dolt_commit('-A', '-m', 'schema')")
	base := decRoot(amap(init["args"])["base"])
	e.makeRoot(su, base)
	su.Exec("call dolt_commit('-A', '-m', 'base')")
	expInit := amap(init["exp"])
	for _, br := range e.branches {
		if br != "main" {
			su.MustExec("call dolt_branch('" + br + "')")
		}
	}
	for _, br := range e.branches {
		want := decRoot(amap(amap(expInit["st"])[br])["h"])
		if !want.dataEq(base) {
			su.MustExec("call dolt_checkout('" + br + "')")
			e.makeRoot(su, want)
			su.MustExec("call dolt_commit('-A', '-m', 'head of " + br + "')")
		}
	}
	su.MustExec("call dolt_checkout('main')")
	if f := e.compare("Init", expInit); f != nil {
		f["fp"] = "setup"
		return f
	}
	truncated := -1
	for i := 1; i < len(steps); i++ {
		e.stepNo = i
		st := steps[i].(map[string]any)
		stop, f := e.step(st)
		if f != nil {
			return f
		}
		e.stats[st["a"].(string)+":"+st["res"].(string)]++
		if stop {
			truncated = i
			break
		}
	}
	res := common.Result{"ok": true, "evals": e.evals, "stats": e.stats, "truncated": truncated}
	if len(e.soft) > 0 {
		res["soft"] = e.soft
	}
	return res
}

// compare reads the whole persisted state and every session's view and compares with TLC's projection.
func (e *consEngine) compare(a string, exp map[string]any) common.Result {
	st := amap(exp["st"])
	for _, br := range e.branches {
		eb := amap(st[br])
		db := "db/" + br
		wantW, wantH := decRoot(eb["w"]), decRoot(eb["h"])
		gotW, err := e.readRoot(e.insp, db, "")
		if err != nil {
			return e.fail(a, "reading the working set of "+br+" failed", wantW.String(), err.Error())
		}
		e.evals++
		if !gotW.dataEq(wantW) {
			return e.fail(a, "persisted working set of "+br, wantW.String(), gotW.String())
		}
		gotH, err := e.readRoot(e.insp, db, "HEAD")
		if err != nil {
			return e.fail(a, "reading the head of "+br+" failed", wantH.String(), err.Error())
		}
		gotH.PA, gotH.CA = wantH.PA, wantH.CA // violation records of a commit are not readable AS OF; compared through the working set
		e.evals++
		if !gotH.dataEq(wantH) {
			return e.fail(a, "head commit of "+br, wantH.String(), gotH.String())
		}
		rows, err := e.insp.Query("select is_merging from `" + db + "`.dolt_merge_status")
		if err != nil {
			return e.fail(a, "dolt_merge_status of "+br, nil, err.Error())
		}
		mrg := len(rows) > 0 && fmt.Sprint(rows[0][0]) == "1"
		e.evals++
		if want, _ := eb["mrg"].(bool); want != mrg {
			return e.fail(a, "merge in progress on "+br, want, mrg)
		}
		// independent evaluator
		if _, err := e.insp.Query("use `" + db + "`"); err != nil {
			return e.fail(a, "use "+db, nil, err.Error())
		}
		rows, err = e.insp.Query("call dolt_verify_constraints('--all', '--output-only')")
		e.insp.Query("use `db`")
		if err != nil {
			return e.fail(a, "dolt_verify_constraints failed on "+br, nil, err.Error())
		}
		bad := fmt.Sprint(rows[0][0]) != "0"
		e.evals++
		if bad != wantW.Bad {
			return e.fail(a, "dolt_verify_constraints('--all') on the working set of "+br+" (1 = violations)", wantW.Bad, bad)
		}
		if wantW.Bad {
			e.stats["verify:bad"]++
		} else {
			e.stats["verify:clean"]++
		}
	}
	for _, s := range e.sessions {
		es := amap(amap(exp["ses"])[s])
		ss := e.sess[s]
		rows, err := ss.Query("select active_branch()")
		if err != nil {
			return e.fail(a, "active_branch() of "+s, nil, err.Error())
		}
		e.evals++
		if fmt.Sprint(rows[0][0]) != fmt.Sprint(es["br"]) {
			return e.fail(a, "branch of session "+s, es["br"], rows[0][0])
		}
		frows, err := ss.Query("select @@dolt_force_transaction_commit")
		if err != nil {
			return e.fail(a, "@@dolt_force_transaction_commit of "+s, nil, err.Error())
		}
		e.evals++
		if wf, _ := es["force"].(bool); (fmt.Sprint(frows[0][0]) == "1") != wf {
			return e.fail(a, "@@dolt_force_transaction_commit of session "+s, wf, frows[0][0])
		}
		want := decRoot(es["v"])
		got, err := e.readRoot(ss, "", "")
		if err != nil {
			return e.fail(a, "reading the view of session "+s+" failed", want.String(), err.Error())
		}
		e.evals++
		if !got.dataEq(want) {
			return e.fail(a, "view of session "+s, want.String(), got.String())
		}
	}
	return nil
}

func (e *consEngine) step(st map[string]any) (stop bool, fail common.Result) {
	a := st["a"].(string)
	args := amap(st["args"])
	expRes := st["res"].(string)
	ss := e.sess[st["s"].(string)]
	var err error
	var rows [][]any
	res := ""
	call := func(q string) { rows, err = ss.Query(q) }
	ki := func(n string) int { return common.Int(args[n]) }
	switch a {
	case "InsP":
		call(fmt.Sprintf("insert into p values (%d, %s)", e.pk(ki("k")), e.ulit(ki("u"))))
	case "UpdP":
		call(fmt.Sprintf("update p set u = %s where pk = %d", e.ulit(ki("u")), e.pk(ki("k"))))
	case "DelP":
		call(fmt.Sprintf("delete from p where pk = %d", e.pk(ki("k"))))
	case "ReplP":
		call(fmt.Sprintf("replace into p values (%d, %s)", e.pk(ki("k")), e.ulit(ki("u"))))
	case "OdkuP":
		call(fmt.Sprintf("insert into p values (%d, %s) on duplicate key update u = %s", e.pk(ki("k")), e.ulit(ki("u")), e.ulit(ki("u2"))))
	case "RotP":
		uv := e.uvals
		var sb strings.Builder
		sb.WriteString("update p set u = case u")
		for i, u := range uv {
			fmt.Fprintf(&sb, " when %s then %s", e.ulit(u), e.ulit(uv[(i+1)%len(uv)]))
		}
		dir := "asc"
		if asc, _ := args["asc"].(bool); !asc {
			dir = "desc"
		}
		fmt.Fprintf(&sb, " end where u is not null and pk < %d order by pk %s", consFillerBase, dir)
		call(sb.String())
	case "InsC":
		call(fmt.Sprintf("insert into c values (%d, %s, %s, %s)", e.pk(ki("k")), e.flit(ki("f")), nlit(ki("n")), nlit(ki("a"))))
	case "UpdC":
		col := args["col"].(string)
		v := nlit(ki("x"))
		if col == "f" {
			v = e.flit(ki("x"))
		}
		call(fmt.Sprintf("update c set %s = %s where pk = %d", col, v, e.pk(ki("k"))))
	case "DelC":
		call(fmt.Sprintf("delete from c where pk = %d", e.pk(ki("k"))))
	case "AlterNN":
		call("alter table c modify n int not null")
	case "Begin":
		call("start transaction")
	case "Commit":
		call("commit")
	case "Rollback":
		call("rollback")
	case "SetFkc":
		call(fmt.Sprintf("set foreign_key_checks = %d", b2i(args["x"])))
	case "SetForce":
		call(fmt.Sprintf("set dolt_force_transaction_commit = %d", b2i(args["x"])))
	case "Checkout":
		call(fmt.Sprintf("call dolt_checkout('%s')", args["b"]))
	case "DoltCommit":
		call(fmt.Sprintf("call dolt_commit('-A', '-m', 'm%d')", e.stepNo))
	case "CommitForce":
		call(fmt.Sprintf("call dolt_commit('-A', '-m', 'm%d', '--force')", e.stepNo))
	case "Merge":
		call(fmt.Sprintf("call dolt_merge('%s')", args["b"]))
		if err == nil {
			row := rows[0]
			switch {
			case fmt.Sprint(row[2]) != "0":
				res = "violations"
			case fmt.Sprint(row[1]) == "1":
				res = "ff"
			case row[0] == nil || fmt.Sprint(row[0]) == "":
				res = "uptodate"
			default:
				res = "ok"
			}
		}
	case "AbortMerge":
		call("call dolt_merge('--abort')")
	case "ResolveDel":
		t := args["t"].(string)
		var ks [][]any
		ks, err = ss.Query("select pk from dolt_constraint_violations_" + t)
		if err == nil {
			var in []string
			for _, r := range ks {
				in = append(in, fmt.Sprint(r[0]))
			}
			call(fmt.Sprintf("delete from %s where pk in (%s)", t, strings.Join(in, ",")))
			if err == nil {
				call("delete from dolt_constraint_violations_" + t)
			}
		}
	default:
		return false, e.fail(a, "unknown action", a, nil)
	}
	if res == "" {
		res = consClassify(a, err)
	}
	dev, _ := args["dev"].(string)
	ideal := amap(args["ideal"])
	exp := amap(st["exp"])
	if res != expRes {
		if dev != "" && res == fmt.Sprint(ideal["res"]) {
			// the model follows a named deviation of the code, the code gave the INTENDED outcome: check the intended
			// state of the acting session's branch and stop following this behaviour
			if f := e.checkIdeal(a, st, ideal); f != nil {
				return false, f
			}
			e.stats["ideal:"+dev]++
			return true, nil
		}
		return false, e.fail(a, "outcome", expRes, res)
	}
	e.evals++
	if f := e.compare(a, exp); f != nil {
		if dev != "" && e.checkIdeal(a, st, ideal) == nil {
			e.stats["ideal:"+dev]++
			return true, nil
		}
		return false, f
	}
	if dev != "" {
		f := common.Fail(e.stepNo, a, dev, ideal, "the code behaves as the named deviation describes: outcome "+res)
		e.soft = append(e.soft, f)
	}
	return false, nil
}

// checkIdeal: the working set of the acting session's branch equals the intended result of a deviating step.
func (e *consEngine) checkIdeal(a string, st map[string]any, ideal map[string]any) common.Result {
	if dev, _ := amap(st["args"])["dev"].(string); dev == "commit-force-leaks-session-flag" {
		// intended: the session variable is untouched by dolt_commit --force
		rows, err := e.sess[st["s"].(string)].Query("select @@dolt_force_transaction_commit")
		if err != nil || fmt.Sprint(rows[0][0]) != "0" {
			return e.fail(a, "session flag after dolt_commit --force", 0, fmt.Sprint(rows, err))
		}
		return nil
	}
	exp := amap(st["exp"])
	br := fmt.Sprint(amap(amap(exp["ses"])[st["s"].(string)])["br"])
	want := decRoot(ideal["w"])
	res := fmt.Sprint(ideal["res"])
	if res == "constraint" || res == "retry" || res == "conflict" {
		return nil // refused: nothing persisted; the next comparison of a followed behaviour is not made (we stop)
	}
	got, err := e.readRoot(e.insp, "db/"+br, "")
	if err != nil {
		return e.fail(a, "reading the working set failed", want.String(), err.Error())
	}
	if !got.dataEq(want) {
		return e.fail(a, "neither the code's named deviation nor the intended result: working set of "+br, want.String(), got.String())
	}
	return nil
}

func b2i(v any) int {
	if b, _ := v.(bool); b {
		return 1
	}
	return 0
}
