// Mode "dropdb" (C47): replays behaviours of /verif/spec/DroppedDBs.tla on a server directory whose root database is "db"
// and whose other databases are nested directories. CREATE DATABASE / DROP DATABASE / dolt_undrop / dolt_purge_dropped_databases
// run through SQL; after EVERY step
//   - SHOW DATABASES must list exactly the model's live databases (exact spelling),
//   - the databases offered by dolt_undrop() must be exactly the model's dropped ones (plus its count of renamed backups),
//   - the logical fingerprint of every live database (every branch head, tag, working / staged / head root hash of every
//     branch, dolt_status and the rows of every table on every branch) must be the one recorded when the model's
//     fingerprint id first appeared: a restored database is exactly what was dropped, a refused restore changed nothing.
package main

import (
	"crypto/sha1"
	"encoding/hex"
	"fmt"
	"os"
	"path/filepath"
	"regexp"
	"sort"
	"strings"

	"github.com/dolthub/dolt/go/zz_verif/common"
	"github.com/dolthub/dolt/go/zz_verif/sqlh"
)

type ddEngine struct {
	srv    *sqlh.Server
	ss     *sqlh.Session
	fps    map[int]string // model fingerprint id -> real fingerprint
	evals  int
	stats  map[string]int
	stepNo int
	names  []string
	soft   []any
	stop   bool
}

func spell(n string, sp int) string {
	if sp == 1 {
		return strings.ToUpper(n)
	}
	return n
}

func (e *ddEngine) q(s string) ([][]any, error) { return e.ss.Query(s) }
func (e *ddEngine) must(s string) [][]any {
	rows, err := e.ss.Query(s)
	if err != nil {
		panic(fmt.Sprintf("set-up statement failed: %s: %v", s, err))
	}
	return rows
}

// fill gives database |db| the content that belongs to fingerprint id |fp|: commits on main, a second branch with its own
// commit, a tag, a staged change, an unstaged change and an untracked table.
func (e *ddEngine) fill(db string, fp int, fresh bool) {
	e.must("use `" + db + "`")
	if fresh {
		e.must("create table t (pk int primary key, v int)")
	}
	e.must(fmt.Sprintf("insert into t values (%d, %d), (%d, %d)", fp*10+1, fp*100, fp*10+2, fp*100+1))
	e.must(fmt.Sprintf("call dolt_commit('-A', '-m', 'content %d')", fp))
	e.must(fmt.Sprintf("call dolt_branch('br%d')", fp))
	e.must(fmt.Sprintf("call dolt_checkout('br%d')", fp))
	e.must(fmt.Sprintf("insert into t values (%d, %d)", fp*10+3, fp*100+2))
	e.must(fmt.Sprintf("call dolt_commit('-A', '-m', 'branch content %d')", fp))
	e.must(fmt.Sprintf("insert into t values (%d, %d)", fp*10+4, fp*100+3)) // uncommitted on the side branch
	e.must("call dolt_checkout('main')")
	e.must(fmt.Sprintf("call dolt_tag('tag%d', 'HEAD')", fp))
	e.must(fmt.Sprintf("create table s%d (pk int primary key)", fp))
	e.must(fmt.Sprintf("call dolt_add('s%d')", fp))                      // staged new table
	e.must(fmt.Sprintf("update t set v = v + 1 where pk = %d", fp*10+1)) // unstaged modification
	e.must(fmt.Sprintf("create table u%d (pk int primary key, w varchar(10))", fp))
	e.must(fmt.Sprintf("insert into u%d values (1, 'x%d')", fp, fp)) // untracked table
	e.must("use information_schema")
}

// fingerprint of a live database
func (e *ddEngine) fingerprint(db string) (string, error) {
	var sb strings.Builder
	add := func(q string) error {
		rows, err := e.q(q)
		if err != nil {
			return fmt.Errorf("%s: %w", q, err)
		}
		sb.WriteString(q + " => " + sqlh.RowsString(rows, true) + "\n")
		return nil
	}
	if _, err := e.q("use `" + db + "`"); err != nil {
		return "", err
	}
	defer e.q("use information_schema")
	if err := add("select name, hash from dolt_branches"); err != nil {
		return "", err
	}
	if err := add("select tag_name, tag_hash from dolt_tags"); err != nil {
		return "", err
	}
	brs, err := e.q("select name from dolt_branches order by name")
	if err != nil {
		return "", err
	}
	for _, b := range brs {
		if _, err := e.q(fmt.Sprintf("use `%s/%s`", db, b[0])); err != nil {
			return "", err
		}
		sb.WriteString("branch " + fmt.Sprint(b[0]) + "\n")
		for _, qq := range []string{"select dolt_hashof_db('WORKING'), dolt_hashof_db('STAGED'), dolt_hashof_db('HEAD')",
			"select table_name, staged, status from dolt_status", "select count(*) from dolt_log"} {
			if err := add(qq); err != nil {
				return "", err
			}
		}
		tbls, err := e.q("show tables")
		if err != nil {
			return "", err
		}
		for _, t := range tbls {
			if err := add(fmt.Sprintf("select * from `%s`", t[0])); err != nil {
				return "", err
			}
		}
	}
	h := sha1.Sum([]byte(sb.String()))
	return hex.EncodeToString(h[:8]) + fmt.Sprintf("/%d", sb.Len()), nil
}

func (e *ddEngine) fail(a, what string, exp, got any) common.Result {
	f := common.Fail(e.stepNo, a, what, exp, got)
	f["stats"] = e.stats
	f["evals"] = e.evals
	return f
}

var undropListRe = regexp.MustCompile(`(?i)available databases that can be undropped: (.*)$`)

func (e *ddEngine) compare(a string, exp map[string]any) common.Result {
	// live databases
	rows, err := e.q("show databases")
	if err != nil {
		return e.fail(a, "show databases", nil, err.Error())
	}
	var got []string
	for _, r := range rows {
		n := fmt.Sprint(r[0])
		if n != "information_schema" && n != "mysql" && n != "sys" && n != "performance_schema" {
			got = append(got, n)
		}
	}
	sort.Strings(got)
	var want []string
	live := amap(exp["live"])
	for _, n := range e.names {
		l := amap(live[n])
		if common.Int(l["fp"]) != 0 {
			want = append(want, spell(n, common.Int(l["sp"])))
		}
	}
	sort.Strings(want)
	e.evals++
	if fmt.Sprint(got) != fmt.Sprint(want) {
		return e.fail(a, "live databases (SHOW DATABASES)", want, got)
	}
	// dropped databases as offered by dolt_undrop()
	_, err = e.q("call dolt_undrop()")
	if err == nil {
		return e.fail(a, "dolt_undrop() without arguments", "error listing the dropped databases", "no error")
	}
	var offered []string
	if m := undropListRe.FindStringSubmatch(strings.TrimSpace(err.Error())); m != nil {
		for _, x := range strings.Split(m[1], ",") {
			if x = strings.TrimSpace(x); x != "" {
				offered = append(offered, x)
			}
		}
	} else if !strings.Contains(err.Error(), "no databases") && !strings.Contains(err.Error(), "there are no") {
		return e.fail(a, "dolt_undrop() message not understood", nil, err.Error())
	}
	gotDropped := []string{}
	gotBackups := map[string]int{}
	for _, x := range offered {
		if i := strings.Index(x, ".backup."); i >= 0 {
			gotBackups[strings.ToLower(x[:i])]++
		} else {
			gotDropped = append(gotDropped, x)
		}
	}
	sort.Strings(gotDropped)
	wantDropped := []string{}
	wantBackups := map[string]int{}
	for _, n := range e.names {
		d := amap(amap(exp["dropped"])[n])
		if common.Int(d["fp"]) != 0 {
			wantDropped = append(wantDropped, spell(n, common.Int(d["sp"])))
		}
		if k := common.Int(amap(exp["backups"])[n]); k > 0 {
			wantBackups[n] = k
		}
	}
	sort.Strings(wantDropped)
	e.evals += 2
	if fmt.Sprint(gotDropped) != fmt.Sprint(wantDropped) {
		return e.fail(a, "databases that dolt_undrop offers", wantDropped, offered)
	}
	if fmt.Sprint(gotBackups) != fmt.Sprint(wantBackups) {
		return e.fail(a, "renamed older dropped databases", wantBackups, offered)
	}
	// content of every live database
	for _, n := range e.names {
		l := amap(live[n])
		fp := common.Int(l["fp"])
		if fp == 0 {
			continue
		}
		real, err := e.fingerprint(spell(n, common.Int(l["sp"])))
		if err != nil {
			return e.fail(a, "reading database "+n, nil, err.Error())
		}
		e.evals++
		if known, ok := e.fps[fp]; !ok {
			if a != "CreateDB" && a != "Modify" && a != "Init" {
				return e.fail(a, fmt.Sprintf("database %s holds a content the model never created (fingerprint id %d)", n, fp), nil, real)
			}
			e.fps[fp] = real
		} else if known != real {
			return e.fail(a, fmt.Sprintf("content of database %s (fingerprint id %d)", n, fp), known, real)
		}
	}
	return nil
}

func runDropDB(c map[string]any) common.Result {
	e := &ddEngine{fps: map[int]string{}, stats: map[string]int{}}
	e.names = strs(c["names"])
	dir, err := mkWork("dropdb-")
	if err != nil {
		return common.Result{"ok": false, "fp": "setup", "detail": err.Error()}
	}
	defer rmWork(dir)
	srv, err := newServer(dir)
	if err != nil {
		return common.Result{"ok": false, "fp": "setup", "detail": err.Error()}
	}
	defer srv.Close()
	e.srv = srv
	if e.ss, err = srv.NewSession("ctl"); err != nil {
		return common.Result{"ok": false, "fp": "setup", "detail": err.Error()}
	}
	e.fill("db", 1, true)
	steps := c["steps"].([]any)
	first := steps[0].(map[string]any)
	// state before the first step = Init: check it through the first step's pre-image only implicitly (fingerprint 1 is bound now)
	real, err := e.fingerprint("db")
	if err != nil {
		return common.Result{"ok": false, "fp": "setup", "detail": err.Error()}
	}
	e.fps[1] = real
	_ = first
	truncated := -1
	for i, sv := range steps {
		e.stepNo = i
		st := sv.(map[string]any)
		if f := e.step(st); f != nil {
			return f
		}
		if e.stop {
			truncated = i
			break
		}
		e.stats[st["a"].(string)+":"+st["res"].(string)]++
	}
	res := common.Result{"ok": true, "evals": e.evals, "stats": e.stats, "truncated": truncated}
	if len(e.soft) > 0 {
		res["soft"] = e.soft
	}
	return res
}

func (e *ddEngine) step(st map[string]any) common.Result {
	a := st["a"].(string)
	args := amap(st["args"])
	expRes := st["res"].(string)
	n, _ := args["n"].(string)
	var err error
	switch a {
	case "CreateDB":
		name := spell(n, common.Int(args["sp"]))
		_, err = e.q("create database `" + name + "`")
		if err == nil {
			e.fill(name, common.Int(args["fp"]), true)
		}
	case "Modify":
		rows, qerr := e.q("show databases")
		if qerr != nil {
			return e.fail(a, "show databases", nil, qerr.Error())
		}
		name := n
		for _, r := range rows {
			if strings.EqualFold(fmt.Sprint(r[0]), n) {
				name = fmt.Sprint(r[0])
			}
		}
		e.fill(name, common.Int(args["fp"]), false)
	case "DropDB":
		_, err = e.q("drop database `" + spell(n, common.Int(args["asp"])) + "`")
	case "Undrop":
		_, err = e.q("call dolt_undrop('" + spell(n, common.Int(args["asp"])) + "')")
	case "Purge":
		_, err = e.q("call dolt_purge_dropped_databases()")
	default:
		return e.fail(a, "unknown action", a, nil)
	}
	res := "ok"
	if err != nil {
		msg := strings.ToLower(err.Error())
		switch {
		case strings.Contains(msg, "no database named"):
			res = "nodropped"
		case strings.Contains(msg, "already exists") || strings.Contains(msg, "database exists") || strings.Contains(msg, "can't create database"):
			res = "exists"
		case strings.Contains(msg, "database not found") || strings.Contains(msg, "can't drop database") || strings.Contains(msg, "unable to drop database"):
			res = "notfound"
		default:
			res = "err:?" + err.Error()
		}
	}
	if a == "Undrop" && expRes == "ok" && res == "exists" {
		// candidate known finding: nothing live has that name, but a stray directory <name>/.dolt holding ONLY the statistics
		// store has re-appeared in the server directory after the drop and validateUndropDatabase takes it for a database
		exact := spell(n, common.Int(amap(amap(amap(st["exp"])["live"])[n])["sp"]))
		if ents, derr := os.ReadDir(filepath.Join(e.srv.Dir, exact, ".dolt")); derr == nil && len(ents) == 1 && ents[0].Name() == "stats" {
			e.soft = append(e.soft, common.Fail(e.stepNo, a, "stray-stats-directory-blocks-undrop", "restored", err.Error()))
			e.stop = true
			return nil
		}
	}
	if a == "CreateDB" && expRes == "ok" && err != nil && strings.Contains(err.Error(), "incomplete database directory") {
		// same candidate known finding: the stray statistics directory of a database dropped earlier blocks CREATE DATABASE
		for _, cand := range []string{n, strings.ToUpper(n)} {
			if ents, derr := os.ReadDir(filepath.Join(e.srv.Dir, cand, ".dolt")); derr == nil && len(ents) == 1 && ents[0].Name() == "stats" {
				e.soft = append(e.soft, common.Fail(e.stepNo, a, "stray-stats-directory-blocks-create", "created", err.Error()))
				e.stop = true
				return nil
			}
		}
	}
	if res != expRes {
		msg := ""
		if err != nil {
			msg = ": " + err.Error()
		}
		return e.fail(a, "outcome", expRes, res+msg)
	}
	e.evals++
	return e.compare(a, amap(st["exp"]))
}
