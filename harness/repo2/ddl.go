// Mode "ddl" (C37): replays behaviours of /verif/spec/SchemaDDL.tla. Lines are branches of database "db" and a second
// database "d2". Every DDL statement is followed by dolt_commit('-A'); after EVERY step the schema of table s on every line
// is reloaded in a FRESH SQL session (SHOW CREATE TABLE, parsed back into columns / types / NOT NULL / defaults / collation /
// indexes / checks) and compared with the model's; for every pair of lines that ran the same statements the column tags and
// the schema hash (doltdb API) must be identical; Merge between such branches must succeed without conflicts.
package main

import (
	"context"
	"fmt"
	"path/filepath"
	"regexp"
	"sort"
	"strings"

	"github.com/dolthub/dolt/go/libraries/doltcore/doltdb"
	"github.com/dolthub/dolt/go/libraries/doltcore/ref"
	"github.com/dolthub/dolt/go/zz_verif/common"
	"github.com/dolthub/dolt/go/zz_verif/sqlh"
)

type ddlCol struct {
	N  string
	Ty string
	NN bool
	Df int
}
type ddlSch struct {
	Ex   bool
	Cols []ddlCol
	Ix   []string
	Ck   []string
}

func (s ddlSch) String() string {
	return fmt.Sprintf("exists=%v cols=%v indexes=%v checks=%v", s.Ex, s.Cols, s.Ix, s.Ck)
}

func decSch(v any) ddlSch {
	m := amap(v)
	var s ddlSch
	s.Ex, _ = m["ex"].(bool)
	for _, cv := range anys(m["cols"]) {
		c := amap(cv)
		nn, _ := c["nn"].(bool)
		s.Cols = append(s.Cols, ddlCol{N: fmt.Sprint(c["n"]), Ty: fmt.Sprint(c["ty"]), NN: nn, Df: common.Int(c["df"])})
	}
	s.Ix = strs(m["ix"])
	s.Ck = strs(m["ck"])
	if s.Ix == nil {
		s.Ix = []string{}
	}
	if s.Ck == nil {
		s.Ck = []string{}
	}
	return s
}

var sqlType = map[string]string{"int": "int", "bigint": "bigint", "vc10": "varchar(10)", "vc20": "varchar(20)",
	"vcci": "varchar(10) collate utf8mb4_0900_ai_ci", "dec": "decimal(10,2)", "dt": "datetime"}

func defLit(ty string) string {
	switch ty {
	case "int", "bigint":
		return "7"
	case "dec":
		return "1.50"
	case "dt":
		return "'2020-01-01 00:00:00'"
	}
	return "'x'"
}

func colDef(c ddlCol) string {
	s := "`" + c.N + "` " + sqlType[c.Ty]
	if c.NN {
		s += " not null"
	}
	if c.Df == 1 {
		s += " default " + defLit(c.Ty)
	}
	return s
}

type ddlEngine struct {
	srv    *sqlh.Server
	sess   map[string]*sqlh.Session
	prev   map[string]ddlSch
	lines  []string
	evals  int
	stats  map[string]int
	stepNo int
	ctx    context.Context
	d2db   *doltdb.DoltDB
}

var colRe = regexp.MustCompile("^`(\\w+)` (\\w+(?:\\([\\d,]+\\))?)( COLLATE (\\S+))?( NOT NULL)?( DEFAULT (.+))?$")
var keyRe = regexp.MustCompile("^(UNIQUE )?KEY `(\\w+)` \\(`(\\w+)`\\)$")
var ckRe = regexp.MustCompile("^CONSTRAINT `(\\w+)` CHECK ")

// target: how a fresh session addresses the line
func target(line string) string {
	if line == "d2" {
		return "d2"
	}
	return "db/" + line
}

// reload reads the schema of table s on |line| in a fresh session and parses SHOW CREATE TABLE.
func (e *ddlEngine) reload(line string) (ddlSch, string, error) {
	ss, err := e.srv.NewSession("fresh")
	if err != nil {
		return ddlSch{}, "", err
	}
	if _, err := ss.Query("use `" + target(line) + "`"); err != nil {
		return ddlSch{}, "", err
	}
	rows, err := ss.Query("show create table s")
	if err != nil {
		if strings.Contains(err.Error(), "not found") {
			return ddlSch{Ix: []string{}, Ck: []string{}}, "", nil
		}
		return ddlSch{}, "", err
	}
	text := fmt.Sprint(rows[0][1])
	s := ddlSch{Ex: true, Ix: []string{}, Ck: []string{}}
	for _, ln := range strings.Split(text, "\n") {
		ln = strings.TrimSuffix(strings.TrimSpace(ln), ",")
		switch {
		case strings.HasPrefix(ln, "CREATE TABLE"), strings.HasPrefix(ln, ")"), strings.HasPrefix(ln, "PRIMARY KEY"):
		case keyRe.MatchString(ln):
			s.Ix = append(s.Ix, keyRe.FindStringSubmatch(ln)[3])
		case ckRe.MatchString(ln):
			s.Ck = append(s.Ck, ckRe.FindStringSubmatch(ln)[1])
		case colRe.MatchString(ln):
			m := colRe.FindStringSubmatch(ln)
			c := ddlCol{N: m[1], NN: m[5] != ""}
			switch {
			case m[2] == "varchar(10)" && m[4] == "utf8mb4_0900_ai_ci":
				c.Ty = "vcci"
			case m[4] != "":
				c.Ty = m[2] + " COLLATE " + m[4]
			case m[2] == "varchar(10)":
				c.Ty = "vc10"
			case m[2] == "varchar(20)":
				c.Ty = "vc20"
			case m[2] == "decimal(10,2)":
				c.Ty = "dec"
			case m[2] == "datetime":
				c.Ty = "dt"
			default:
				c.Ty = m[2]
			}
			if m[6] != "" {
				c.Df = 1
				want := strings.Trim(defLit(c.Ty), "'")
				if !strings.Contains(m[7], want) {
					c.Df = -1 // a default, but not the one that was declared
					c.Ty += " DEFAULT " + m[7]
				}
			}
			s.Cols = append(s.Cols, c)
		default:
			return s, text, fmt.Errorf("SHOW CREATE TABLE line not understood: %q", ln)
		}
	}
	sort.Strings(s.Ix)
	sort.Strings(s.Ck)
	return s, text, nil
}

// identity reads the column tags and the schema hash of table s at the head of |line| (doltdb API)
func (e *ddlEngine) identity(line string) (string, error) {
	ddb := e.srv.DEnv.DoltDB(e.ctx)
	br := line
	if line == "d2" {
		if e.d2db == nil {
			env, err := sqlh.LoadRepo(e.ctx, filepath.Join(e.srv.Dir, "d2"))
			if err != nil {
				return "", err
			}
			e.d2db = env.DoltDB(e.ctx)
		}
		ddb, br = e.d2db, "main"
	}
	cm, err := ddb.ResolveCommitRef(e.ctx, ref.NewBranchRef(br))
	if err != nil {
		return "", err
	}
	root, err := cm.GetRootValue(e.ctx)
	if err != nil {
		return "", err
	}
	tbl, ok, err := root.GetTable(e.ctx, doltdb.TableName{Name: "s"})
	if err != nil {
		return "", err
	}
	if !ok {
		return "no table", nil
	}
	sch, err := tbl.GetSchema(e.ctx)
	if err != nil {
		return "", err
	}
	var parts []string
	for _, c := range sch.GetAllCols().GetColumns() {
		parts = append(parts, fmt.Sprintf("%s:%d", c.Name, c.Tag))
	}
	h, err := tbl.GetSchemaHash(e.ctx)
	if err != nil {
		return "", err
	}
	return strings.Join(parts, " ") + " schema-hash=" + h.String(), nil
}

func (e *ddlEngine) fail(a, what string, exp, got any) common.Result {
	f := common.Fail(e.stepNo, a, what, exp, got)
	f["stats"] = e.stats
	f["evals"] = e.evals
	return f
}

func runDDL(c map[string]any) common.Result {
	e := &ddlEngine{sess: map[string]*sqlh.Session{}, prev: map[string]ddlSch{}, stats: map[string]int{}, ctx: context.Background()}
	e.lines = strs(c["lines"])
	dir, err := mkWork("ddl-")
	if err != nil {
		return common.Result{"ok": false, "fp": "setup", "detail": err.Error()}
	}
	defer rmWork(dir)
	srv, err := newServer(dir)
	if err != nil {
		return common.Result{"ok": false, "fp": "setup", "detail": err.Error()}
	}
	defer srv.Close()
	e.srv = srv
	su, err := srv.NewSession("setup")
	if err != nil {
		return common.Result{"ok": false, "fp": "setup", "detail": err.Error()}
	}
	for _, l := range e.lines {
		ss, err := srv.NewSession(l)
		if err != nil {
			return common.Result{"ok": false, "fp": "setup", "detail": err.Error()}
		}
		switch {
		case l == "d2":
			su.MustExec("create database d2")
			ss.MustExec("use d2")
		case l != "main":
			su.MustExec("call dolt_branch('" + l + "')")
			ss.MustExec("call dolt_checkout('" + l + "')")
		}
		e.sess[l] = ss
		e.prev[l] = ddlSch{}
	}
	for i, sv := range c["steps"].([]any) {
		e.stepNo = i
		st := sv.(map[string]any)
		if f := e.step(st); f != nil {
			return f
		}
		e.stats[st["a"].(string)+":"+st["res"].(string)]++
	}
	return common.Result{"ok": true, "evals": e.evals, "stats": e.stats}
}

func (e *ddlEngine) findCol(s ddlSch, n string) ddlCol {
	for _, c := range s.Cols {
		if c.N == n {
			return c
		}
	}
	panic("model column " + n + " not in the previous schema")
}

func (e *ddlEngine) step(st map[string]any) common.Result {
	a := st["a"].(string)
	args := amap(st["args"])
	line := st["l"].(string)
	ss := e.sess[line]
	prev := e.prev[line]
	cn := fmt.Sprint(args["c"])
	argCol := func() ddlCol {
		nn, _ := args["nn"].(bool)
		return ddlCol{N: cn, Ty: fmt.Sprint(args["ty"]), NN: nn, Df: common.Int(args["df"])}
	}
	var err error
	var rows [][]any
	q := func(s string) { rows, err = ss.Query(s) }
	switch a {
	case "CreateTable":
		q("create table s (pk int primary key, " + colDef(argCol()) + ")")
	case "AddColumn":
		pos := map[string]string{"first": " first", "afterpk": " after pk", "last": ""}[fmt.Sprint(args["pos"])]
		q("alter table s add column " + colDef(argCol()) + pos)
	case "DropColumn":
		q("alter table s drop column `" + cn + "`")
	case "ModifyType":
		c := e.findCol(prev, cn)
		c.Ty = fmt.Sprint(args["ty"])
		q("alter table s modify column " + colDef(c))
	case "RenameColumn":
		q("alter table s rename column `" + cn + "` to r1")
	case "AddIndex":
		q("create index `i_" + cn + "` on s (`" + cn + "`)")
	case "DropIndex":
		var idx [][]any
		idx, err = ss.Query("select index_name from information_schema.statistics where table_schema = database() and table_name = 's' and column_name = '" + cn + "' and index_name <> 'PRIMARY'")
		if err == nil {
			if len(idx) != 1 {
				return e.fail(a, "indexes covering column "+cn, 1, len(idx))
			}
			q(fmt.Sprintf("drop index `%s` on s", idx[0][0]))
		}
	case "AddCheck":
		k := fmt.Sprint(args["k"])
		q("alter table s add constraint " + k + " check " + map[string]string{"ck1": "(pk > 0)", "ck2": "(pk < 1000)"}[k])
	case "DropCheck":
		q("alter table s drop constraint " + fmt.Sprint(args["k"]))
	case "SetDefault":
		if common.Int(args["df"]) == 1 {
			q("alter table s alter column `" + cn + "` set default " + defLit(e.findCol(prev, cn).Ty))
		} else {
			q("alter table s alter column `" + cn + "` drop default")
		}
	case "Merge":
		q("call dolt_merge('" + fmt.Sprint(args["m"]) + "')")
		if err == nil && fmt.Sprint(rows[0][2]) != "0" {
			return e.fail(a, "merge of branches that ran the same DDL reports conflicts", "no conflict", fmt.Sprint(rows[0]))
		}
	default:
		return e.fail(a, "unknown action", a, nil)
	}
	if err != nil {
		return e.fail(a, "statement failed", st["res"], err.Error())
	}
	if a != "Merge" {
		if _, err := ss.Query(fmt.Sprintf("call dolt_commit('-A', '-m', '%s step %d')", line, e.stepNo)); err != nil {
			return e.fail(a, "dolt_commit after the statement failed", "ok", err.Error())
		}
	}
	e.evals++
	exp := amap(st["exp"])
	for _, l := range e.lines {
		want := decSch(amap(exp["sch"])[l])
		got, text, err := e.reload(l)
		if err != nil {
			return e.fail(a, "reloading the schema of line "+l+" failed", want.String(), err.Error()+"\n"+text)
		}
		e.evals++
		if got.String() != want.String() {
			return e.fail(a, "schema of line "+l+" reloaded by a fresh session", want.String(), got.String()+"\n"+text)
		}
		e.prev[l] = want
	}
	for _, pv := range anys(exp["same"]) {
		p := anys(pv)
		l, m := fmt.Sprint(p[0]), fmt.Sprint(p[1])
		if l >= m {
			continue
		}
		il, err := e.identity(l)
		if err != nil {
			return e.fail(a, "reading tags of "+l, nil, err.Error())
		}
		im, err := e.identity(m)
		if err != nil {
			return e.fail(a, "reading tags of "+m, nil, err.Error())
		}
		e.evals++
		e.stats["same_ddl_pairs"]++
		if il != im {
			return e.fail(a, fmt.Sprintf("lines %s and %s ran the same DDL but differ in column tags / schema hash", l, m), il, im)
		}
	}
	return nil
}
