// Engine "repo2" (builder bJ): repository-level engines for C24 (Constraints.tla), C25 (RepoIndex.tla), C47 (DroppedDBs.tla),
// C46 repository half (RepoIgnore.tla) and C37 (SchemaDDL.tla). One binary, one mode per spec:
//
//	repo2 script   exploration / hand-written repros: {"stmts":["s1: sql", ...]}
//	repo2 cons     C24 step replay
//	repo2 index    C25 step replay
//	repo2 dropdb   C47 step replay
//	repo2 ignore   C46 (repository level) step replay
//	repo2 ddl      C37 step replay
//
// Expected values come only from the behaviours TLC emitted; this program binds model values to SQL and compares.
package main

import (
	"context"
	"fmt"
	"os"
	"strings"

	"github.com/dolthub/dolt/go/zz_verif/common"
	"github.com/dolthub/dolt/go/zz_verif/sqlh"
)

func main() {
	mode := ""
	if len(os.Args) > 1 {
		mode = os.Args[1]
	}
	switch mode {
	case "script":
		common.Run(runScript)
	case "cons":
		common.Run(runCons)
	case "index":
		common.Run(runIndex)
	case "dropdb":
		common.Run(runDropDB)
	case "ignore":
		common.Run(runIgnore)
	case "ddl":
		common.Run(runDDL)
	default:
		fmt.Println("unknown mode", mode)
		os.Exit(3)
	}
}

func runScript(c map[string]any) common.Result {
	dir, _ := os.MkdirTemp(os.Getenv("VERIF_WORK"), "repo2-script-")
	if os.Getenv("VERIF_KEEP") == "" {
		defer os.RemoveAll(dir)
	}
	srv, err := newServer(dir)
	if err != nil {
		return common.Result{"ok": false, "fp": "setup", "detail": err.Error()}
	}
	defer srv.Close()
	sess := map[string]*sqlh.Session{}
	var out []any
	for _, qv := range c["stmts"].([]any) {
		line := qv.(string)
		i := strings.Index(line, ":")
		sn, q := strings.TrimSpace(line[:i]), strings.TrimSpace(line[i+1:])
		ss, ok := sess[sn]
		if !ok {
			if ss, err = srv.NewSession(sn); err != nil {
				return common.Result{"ok": false, "fp": "setup", "detail": err.Error()}
			}
			sess[sn] = ss
		}
		rows, err := ss.Query(q)
		es := ""
		if err != nil {
			es = err.Error()
		}
		out = append(out, map[string]any{"q": line, "rows": sqlh.RowsString(rows, false), "err": es})
	}
	return common.Result{"ok": true, "out": out}
}

func mkWork(prefix string) (string, error) {
	return os.MkdirTemp(os.Getenv("VERIF_WORK"), "repo2-"+prefix)
}

// newServer = sqlh.NewRepoServer, with user.name / user.email put into the configuration the SQL sessions read
// (CREATE DATABASE initialises the new repository with the session's user name).
func newServer(dir string) (*sqlh.Server, error) {
	ctx := context.Background()
	dEnv, d, err := sqlh.InitRepo(ctx, dir, "db")
	if err != nil {
		return nil, err
	}
	if err := dEnv.Config.WriteableConfig().SetStrings(map[string]string{"user.name": "verif", "user.email": "verif@example.com"}); err != nil {
		return nil, err
	}
	return sqlh.ServerForEnv(ctx, dEnv, d)
}

func rmWork(dir string) { os.RemoveAll(dir) }
