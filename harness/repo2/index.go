// Mode "index" (C25): replays behaviours of /verif/spec/RepoIndex.tla and, after EVERY step, reads straight from storage
// (doltdb.Table.GetRowData / GetIndexRowData, no SQL in between) the primary map and every secondary prolly map of the
// tables t (keyed) and k (keyless) in every root: working and staged root of every branch, and the root of every commit
// (a commit is immutable: it is read when it is first bound to a model commit). Each secondary map must hold exactly the
// image TLC computed with the spec operator IndexOf / KIndexOf from the model's rows; the index definitions and the rows
// themselves must equal the model's too.
package main

import (
	"context"
	"encoding/hex"
	"fmt"
	"io"
	"sort"
	"strings"

	"github.com/dolthub/dolt/go/libraries/doltcore/doltdb"
	"github.com/dolthub/dolt/go/libraries/doltcore/doltdb/durable"
	"github.com/dolthub/dolt/go/libraries/doltcore/ref"
	"github.com/dolthub/dolt/go/libraries/doltcore/schema"
	"github.com/dolthub/dolt/go/store/hash"
	"github.com/dolthub/dolt/go/store/prolly/tree"
	"github.com/dolthub/dolt/go/store/val"
	"github.com/dolthub/dolt/go/zz_verif/common"
	"github.com/dolthub/dolt/go/zz_verif/sqlh"
)

const idxFillerBase = 1000

type idxEngine struct {
	srv      *sqlh.Server
	sess     map[string]*sqlh.Session
	insp     *sqlh.Session
	filler   int
	evals    int
	stats    map[string]int
	stepNo   int
	branches []string
	sessions []string
	hashOf   map[int]string // model commit id -> hash
	parents  map[int][]int  // model commit id -> parents
	ctx      context.Context
}

// ---- binding of values
func c1lit(v int) string {
	if v == 0 {
		return "NULL"
	}
	return "'" + c1str(v) + "'"
}
func c1str(v int) string { return fmt.Sprintf("a%c%d", 'a'+(v+1)/2-1, v) }
func unc1(x any) int {
	if x == nil {
		return 0
	}
	s, ok := x.(string)
	if !ok {
		return -9
	}
	for v := 1; v <= 8; v++ {
		if s == c1str(v) {
			return v
		}
	}
	return -9
}
func unc1pre(x any) int { // 2-character prefix -> prefix class
	if x == nil {
		return 0
	}
	s, ok := x.(string)
	if !ok || len(s) != 2 || s[0] != 'a' {
		return -9
	}
	return int(s[1]-'a') + 1
}
func i10(v int) string {
	if v == 0 {
		return "NULL"
	}
	return fmt.Sprint(v * 10)
}
func un10(x any) int {
	if x == nil {
		return 0
	}
	var n int64
	switch t := x.(type) {
	case int32:
		n = int64(t)
	case int64:
		n = t
	default:
		return -9
	}
	if n%10 == 0 && n > 0 && n < 100 {
		return int(n / 10)
	}
	return -9
}
func toI64(x any) (int64, bool) {
	switch t := x.(type) {
	case int32:
		return int64(t), true
	case int64:
		return t, true
	}
	return 0, false
}

// ---- image of a root as read from storage (model values)
type tblImg struct {
	C2   bool
	Ix   []string
	Rows [][]int            // k, c1, c2
	Idx  map[string][][]int // index name -> entries (indexed values..., pk)
}
type klImg struct {
	Ix  []string
	Bag [][]int            // c1, c2, n
	Idx map[string][][]int // c1, c1, c2
}
type rootImg struct {
	T tblImg
	K klImg
}

func sortTuples(t [][]int) {
	sort.Slice(t, func(i, j int) bool { return fmt.Sprint(t[i]) < fmt.Sprint(t[j]) })
}
func (r rootImg) String() string {
	return fmt.Sprintf("t{c2=%v ix=%v rows=%v idx=%v} k{ix=%v bag=%v idx=%v}", r.T.C2, r.T.Ix, r.T.Rows, r.T.Idx, r.K.Ix, r.K.Bag, r.K.Idx)
}

func decTuples(v any) [][]int {
	out := [][]int{}
	if a, ok := v.([]any); ok {
		for _, x := range a {
			out = append(out, common.Ints(x))
		}
	}
	sortTuples(out)
	return out
}
func decIdx(v any) map[string][][]int {
	out := map[string][][]int{}
	for n, x := range amap(v) {
		out[n] = decTuples(x)
	}
	return out
}
func decRootImg(v any) rootImg {
	m := amap(v)
	t, k := amap(m["t"]), amap(m["k"])
	var r rootImg
	r.T.C2, _ = t["c2"].(bool)
	r.T.Ix = strs(t["ix"])
	r.T.Rows = decTuples(t["rows"])
	r.T.Idx = decIdx(t["idx"])
	r.K.Ix = strs(k["ix"])
	r.K.Bag = decTuples(k["bag"])
	r.K.Idx = decIdx(k["idx"])
	if r.T.Ix == nil {
		r.T.Ix = []string{}
	}
	if r.K.Ix == nil {
		r.K.Ix = []string{}
	}
	return r
}

func iterMap(ctx context.Context, idx durable.Index, fn func(k, v val.Tuple, kd, vd *val.TupleDesc, ns tree.NodeStore) error) error {
	m, err := durable.ProllyMapFromIndex(idx)
	if err != nil {
		return err
	}
	it, err := m.IterAll(ctx)
	if err != nil {
		return err
	}
	for {
		k, v, err := it.Next(ctx)
		if err == io.EOF {
			return nil
		}
		if err != nil {
			return err
		}
		if err := fn(k, v, m.KeyDesc(), m.ValDesc(), m.NodeStore()); err != nil {
			return err
		}
	}
}

// readRootImg reads both tables and all their secondary maps from |root|.
func (e *idxEngine) readRootImg(root doltdb.RootValue) (rootImg, error) {
	var r rootImg
	ctx := e.ctx
	// ---- keyed table t
	tbl, ok, err := root.GetTable(ctx, doltdb.TableName{Name: "t"})
	if err != nil || !ok {
		return r, fmt.Errorf("table t: %v %v", ok, err)
	}
	sch, err := tbl.GetSchema(ctx)
	if err != nil {
		return r, err
	}
	nonPK := sch.GetNonPKCols().GetColumnNames()
	for _, n := range nonPK {
		if n == "c2" {
			r.T.C2 = true
		}
	}
	rd, err := tbl.GetRowData(ctx)
	if err != nil {
		return r, err
	}
	filler := 0
	r.T.Rows = [][]int{}
	err = iterMap(ctx, rd, func(k, v val.Tuple, kd, vd *val.TupleDesc, ns tree.NodeStore) error {
		pkv, err := tree.GetField(ctx, kd, 0, k, ns)
		if err != nil {
			return err
		}
		pk, _ := toI64(pkv)
		if pk >= idxFillerBase {
			filler++
			return nil
		}
		row := []int{int(pk), 0, 0}
		for i, n := range nonPK {
			var fv any
			if i < v.Count() { // trailing NULLs may be truncated
				if fv, err = tree.GetField(ctx, vd, i, v, ns); err != nil {
					return err
				}
			}
			switch n {
			case "c1":
				row[1] = unc1(fv)
			case "c2":
				row[2] = un10(fv)
			}
		}
		r.T.Rows = append(r.T.Rows, row)
		return nil
	})
	if err != nil {
		return r, err
	}
	if filler != e.filler {
		return r, fmt.Errorf("primary map of t: %d filler rows, %d inserted", filler, e.filler)
	}
	sortTuples(r.T.Rows)
	r.T.Idx = map[string][][]int{}
	r.T.Ix = []string{}
	for _, def := range sch.Indexes().AllIndexes() {
		name := def.Name()
		r.T.Ix = append(r.T.Ix, name)
		if err := e.checkDef(def); err != nil {
			return r, err
		}
		ird, err := tbl.GetIndexRowData(ctx, name)
		if err != nil {
			return r, fmt.Errorf("index %s of t: %w", name, err)
		}
		entries := [][]int{}
		filler := 0
		cols := def.ColumnNames()
		err = iterMap(ctx, ird, func(k, v val.Tuple, kd, vd *val.TupleDesc, ns tree.NodeStore) error {
			if v.Count() != 0 {
				return fmt.Errorf("index %s of t: entry with a non-empty value tuple", name)
			}
			n := kd.Count()
			if n != len(cols)+1 {
				return fmt.Errorf("index %s of t: key has %d fields, want %d", name, n, len(cols)+1)
			}
			pkv, err := tree.GetField(ctx, kd, n-1, k, ns)
			if err != nil {
				return err
			}
			pk, _ := toI64(pkv)
			if pk >= idxFillerBase {
				filler++
				return nil
			}
			ent := []int{}
			for i, c := range cols {
				fv, err := tree.GetField(ctx, kd, i, k, ns)
				if err != nil {
					return err
				}
				switch {
				case c == "c1" && name == "p1":
					ent = append(ent, unc1pre(fv))
				case c == "c1":
					ent = append(ent, unc1(fv))
				default:
					ent = append(ent, un10(fv))
				}
			}
			entries = append(entries, append(ent, int(pk)))
			return nil
		})
		if err != nil {
			return r, err
		}
		if filler != e.filler {
			return r, fmt.Errorf("index %s of t: %d entries of filler rows, %d filler rows", name, filler, e.filler)
		}
		sortTuples(entries)
		r.T.Idx[name] = entries
	}
	sort.Strings(r.T.Ix)
	// ---- keyless table k
	kt, ok, err := root.GetTable(ctx, doltdb.TableName{Name: "k"})
	if err != nil || !ok {
		return r, fmt.Errorf("table k: %v %v", ok, err)
	}
	ksch, err := kt.GetSchema(ctx)
	if err != nil {
		return r, err
	}
	krd, err := kt.GetRowData(ctx)
	if err != nil {
		return r, err
	}
	byID := map[string][]int{} // row id -> c1, c2, n
	r.K.Bag = [][]int{}
	kfill := 0
	err = iterMap(ctx, krd, func(k, v val.Tuple, kd, vd *val.TupleDesc, ns tree.NodeStore) error {
		id := hex.EncodeToString(kd.GetField(0, k))
		card, _ := vd.GetUint64(0, v)
		var f [2]any
		for i := 0; i < 2; i++ {
			if i+1 < v.Count() {
				if f[i], err = tree.GetField(ctx, vd, i+1, v, ns); err != nil {
					return err
				}
			}
		}
		if n, ok := toI64(f[0]); ok && n >= idxFillerBase {
			kfill += int(card)
			byID[id] = []int{-1, -1, int(card)}
			return nil
		}
		row := []int{un10(f[0]), un10(f[1]), int(card)}
		byID[id] = row
		r.K.Bag = append(r.K.Bag, row)
		return nil
	})
	if err != nil {
		return r, err
	}
	if kfill != e.filler {
		return r, fmt.Errorf("primary map of k: %d filler rows, %d inserted", kfill, e.filler)
	}
	sortTuples(r.K.Bag)
	r.K.Idx = map[string][][]int{}
	r.K.Ix = []string{}
	for _, def := range ksch.Indexes().AllIndexes() {
		name := def.Name()
		r.K.Ix = append(r.K.Ix, name)
		ird, err := kt.GetIndexRowData(ctx, name)
		if err != nil {
			return r, fmt.Errorf("index %s of k: %w", name, err)
		}
		entries := [][]int{}
		kfill := 0
		err = iterMap(ctx, ird, func(k, v val.Tuple, kd, vd *val.TupleDesc, ns tree.NodeStore) error {
			if kd.Count() != 2 {
				return fmt.Errorf("index %s of k: key has %d fields, want 2", name, kd.Count())
			}
			fv, err := tree.GetField(ctx, kd, 0, k, ns)
			if err != nil {
				return err
			}
			id := hex.EncodeToString(kd.GetField(1, k))
			if v.Count() != 0 {
				return fmt.Errorf("index %s of k: entry with a non-empty value tuple", name)
			}
			row, ok := byID[id]
			if !ok {
				return fmt.Errorf("index %s of k: entry (%v, %s) refers to a row id that is not in the table", name, fv, id)
			}
			if row[0] == -1 {
				kfill++
				return nil
			}
			entries = append(entries, []int{un10(fv), row[0], row[1]})
			return nil
		})
		if err != nil {
			return r, err
		}
		if kfill != e.filler {
			return r, fmt.Errorf("index %s of k: entries of %d filler rows, %d filler rows", name, kfill, e.filler)
		}
		sortTuples(entries)
		r.K.Idx[name] = entries
	}
	sort.Strings(r.K.Ix)
	return r, nil
}

// checkDef: the definition stored in the schema is the palette's
func (e *idxEngine) checkDef(def schema.Index) error {
	want := map[string]string{"i1": "c1", "u1": "c1", "p1": "c1", "i12": "c1,c2", "i2": "c2"}[def.Name()]
	if got := strings.Join(def.ColumnNames(), ","); got != want {
		return fmt.Errorf("index %s is defined over (%s), want (%s)", def.Name(), got, want)
	}
	if def.IsUnique() != (def.Name() == "u1") {
		return fmt.Errorf("index %s: unique = %v", def.Name(), def.IsUnique())
	}
	pl := def.PrefixLengths()
	if (def.Name() == "p1") != (len(pl) == 1 && pl[0] == 2) {
		return fmt.Errorf("index %s: prefix lengths %v", def.Name(), pl)
	}
	return nil
}

func (e *idxEngine) fail(a, what string, exp, got any) common.Result {
	f := common.Fail(e.stepNo, a, what, exp, got)
	f["stats"] = e.stats
	f["evals"] = e.evals
	return f
}

func (e *idxEngine) cmpRoot(a, what string, root doltdb.RootValue, want rootImg) common.Result {
	got, err := e.readRootImg(root)
	if err != nil {
		return e.fail(a, what+": reading the maps failed", want.String(), err.Error())
	}
	e.evals += 2 + len(want.T.Ix) + len(want.K.Ix)
	if got.String() == want.String() {
		e.stats["index_maps_compared"] += len(want.T.Ix) + len(want.K.Ix)
		for _, es := range want.T.Idx {
			e.stats["index_entries"] += len(es)
		}
		return nil
	}
	// name the first difference
	switch {
	case got.T.C2 != want.T.C2:
		return e.fail(a, what+": column c2 of t", want.T.C2, got.T.C2)
	case fmt.Sprint(got.T.Ix) != fmt.Sprint(want.T.Ix):
		return e.fail(a, what+": index definitions of t", want.T.Ix, got.T.Ix)
	case fmt.Sprint(got.T.Rows) != fmt.Sprint(want.T.Rows):
		return e.fail(a, what+": rows of t (primary map)", want.T.Rows, got.T.Rows)
	case fmt.Sprint(got.K.Ix) != fmt.Sprint(want.K.Ix):
		return e.fail(a, what+": index definitions of k", want.K.Ix, got.K.Ix)
	case fmt.Sprint(got.K.Bag) != fmt.Sprint(want.K.Bag):
		return e.fail(a, what+": rows of k (primary map)", want.K.Bag, got.K.Bag)
	}
	for n, es := range want.T.Idx {
		if fmt.Sprint(es) != fmt.Sprint(got.T.Idx[n]) {
			return e.fail(a, fmt.Sprintf("%s: secondary index %s of t does not mirror the table (rows %v)", what, n, want.T.Rows), es, got.T.Idx[n])
		}
	}
	for n, es := range want.K.Idx {
		if fmt.Sprint(es) != fmt.Sprint(got.K.Idx[n]) {
			return e.fail(a, fmt.Sprintf("%s: secondary index %s of k does not mirror the table (rows %v)", what, n, want.K.Bag), es, got.K.Idx[n])
		}
	}
	return e.fail(a, what, want.String(), got.String())
}

func (e *idxEngine) ddb() *doltdb.DoltDB { return e.srv.DEnv.DoltDB(e.ctx) }

func (e *idxEngine) commitRoot(h string) (doltdb.RootValue, []string, error) {
	oc, err := e.ddb().ResolveHash(e.ctx, hash.Parse(h))
	if err != nil {
		return nil, nil, err
	}
	cm, ok := oc.ToCommit()
	if !ok {
		return nil, nil, fmt.Errorf("ghost commit %s", h)
	}
	root, err := cm.GetRootValue(e.ctx)
	if err != nil {
		return nil, nil, err
	}
	var ps []string
	for i := 0; i < cm.NumParents(); i++ {
		p, err := e.ddb().ResolveParent(e.ctx, cm, i)
		if err != nil {
			return nil, nil, err
		}
		ps = append(ps, p.Addr.String())
	}
	return root, ps, nil
}

// bind unifies model commit id with the real hash, recursively through the parents; a commit bound for the first time has
// its root compared with the model's.
func (e *idxEngine) bind(a string, id int, h string, roots map[int]rootImg) common.Result {
	if known, ok := e.hashOf[id]; ok {
		if known != h {
			return e.fail(a, "commit graph", fmt.Sprintf("c%d = %s", id, known), h)
		}
		return nil
	}
	root, ps, err := e.commitRoot(h)
	if err != nil {
		return e.fail(a, "reading commit", id, err.Error())
	}
	mp := e.parents[id]
	if len(mp) != len(ps) {
		return e.fail(a, fmt.Sprintf("parents of new commit c%d", id), mp, ps)
	}
	e.hashOf[id] = h
	for i := range mp {
		if f := e.bind(a, mp[i], ps[i], roots); f != nil {
			return f
		}
	}
	want, ok := roots[id]
	if !ok {
		return e.fail(a, "model commit without a root in this step", id, h)
	}
	e.stats["commit_roots"]++
	return e.cmpRoot(a, fmt.Sprintf("root of commit c%d", id), root, want)
}

func (e *idxEngine) compare(a string, exp map[string]any) common.Result {
	roots := map[int]rootImg{}
	for _, nv := range anys(exp["newc"]) {
		n := amap(nv)
		id := common.Int(n["id"])
		e.parents[id] = common.Ints(n["p"])
		roots[id] = decRootImg(n["root"])
	}
	br := amap(exp["br"])
	for _, b := range e.branches {
		rows, err := e.insp.Query("select hashof('" + b + "')")
		if err != nil {
			return e.fail(a, "hashof("+b+")", nil, err.Error())
		}
		e.evals++
		if f := e.bind(a, common.Int(br[b]), fmt.Sprint(rows[0][0]), roots); f != nil {
			return f
		}
	}
	if nc := common.Int(exp["nc"]); len(e.hashOf) != nc {
		return e.fail(a, "number of commits reachable from the branches that the model knows", nc, len(e.hashOf))
	}
	for _, b := range e.branches {
		ew := amap(amap(exp["ws"])[b])
		wsRef, err := ref.WorkingSetRefForHead(ref.NewBranchRef(b))
		if err != nil {
			return e.fail(a, "working set ref", nil, err.Error())
		}
		rws, err := e.ddb().ResolveWorkingSet(e.ctx, wsRef)
		if err != nil {
			return e.fail(a, "working set of "+b, nil, err.Error())
		}
		if f := e.cmpRoot(a, "working root of "+b, rws.WorkingRoot(), decRootImg(ew["w"])); f != nil {
			return f
		}
		if f := e.cmpRoot(a, "staged root of "+b, rws.StagedRoot(), decRootImg(ew["s"])); f != nil {
			return f
		}
		mk := "none"
		if rws.MergeActive() {
			mk = "merge"
		}
		e.evals++
		if mk != fmt.Sprint(ew["mk"]) {
			return e.fail(a, "merge in progress on "+b, ew["mk"], mk)
		}
		rows, err := e.insp.Query("select coalesce(our_pk, their_pk, base_pk) from `db/" + b + "`.dolt_conflicts_t")
		var got []int
		if err == nil {
			for _, r := range rows {
				if v, ok := r[0].(int64); ok {
					got = append(got, int(v))
				}
			}
		} else if !strings.Contains(err.Error(), "not found") {
			return e.fail(a, "dolt_conflicts_t of "+b, nil, err.Error())
		}
		sort.Ints(got)
		want := common.Ints(ew["conf"])
		sort.Ints(want)
		e.evals++
		if fmt.Sprint(got) != fmt.Sprint(want) {
			return e.fail(a, "conflicted keys of t on "+b, want, got)
		}
	}
	for _, s := range e.sessions {
		rows, err := e.sess[s].Query("select active_branch()")
		if err != nil {
			return e.fail(a, "active_branch()", nil, err.Error())
		}
		if want := fmt.Sprint(amap(exp["cur"])[s]); fmt.Sprint(rows[0][0]) != want {
			return e.fail(a, "branch of session "+s, want, rows[0][0])
		}
	}
	return nil
}

func anys(v any) []any {
	a, _ := v.([]any)
	return a
}

func runIndex(c map[string]any) common.Result {
	b := amap(c["binding"])
	e := &idxEngine{sess: map[string]*sqlh.Session{}, stats: map[string]int{}, hashOf: map[int]string{}, parents: map[int][]int{}, ctx: context.Background()}
	if f, ok := b["filler"]; ok {
		e.filler = common.Int(f)
	}
	e.branches = strs(c["branches"])
	e.sessions = strs(c["sessions"])
	dir, err := mkWork("index-")
	if err != nil {
		return common.Result{"ok": false, "fp": "setup", "detail": err.Error()}
	}
	defer rmWork(dir)
	srv, err := sqlh.NewRepoServer(dir, "db")
	if err != nil {
		return common.Result{"ok": false, "fp": "setup", "detail": err.Error()}
	}
	defer srv.Close()
	e.srv = srv
	if e.insp, err = srv.NewSession("_insp"); err != nil {
		return common.Result{"ok": false, "fp": "setup", "detail": err.Error()}
	}
	for _, s := range e.sessions {
		if e.sess[s], err = srv.NewSession(s); err != nil {
			return common.Result{"ok": false, "fp": "setup", "detail": err.Error()}
		}
		e.sess[s].MustExec("set @@dolt_allow_commit_conflicts = 1")
	}
	su := e.insp
	ddl := "create table t (pk int primary key, c1 varchar(20)"
	for _, n := range strs(c["initix"]) {
		ddl += ", " + map[string]string{"i1": "key i1 (c1)", "u1": "unique key u1 (c1)", "p1": "key p1 (c1(2))"}[n]
	}
	su.MustExec(ddl + ")")
	su.MustExec("create table k (c1 int, c2 int, key k1 (c1))")
	if e.filler > 0 {
		var st, sk strings.Builder
		st.WriteString("insert into t values ")
		sk.WriteString("insert into k values ")
		for i := 0; i < e.filler; i++ {
			if i > 0 {
				st.WriteString(",")
				sk.WriteString(",")
			}
			fmt.Fprintf(&st, "(%d,'zz%05d')", idxFillerBase+i, i*7)
			fmt.Fprintf(&sk, "(%d,%d)", idxFillerBase+i, i%5)
		}
		su.MustExec(st.String())
		su.MustExec(sk.String())
	}
	su.MustExec("call dolt_commit('-A', '-m', 'setup')")
	for _, br := range e.branches {
		if br != "main" {
			su.MustExec("call dolt_branch('" + br + "')")
		}
	}
	rows, err := su.Query("select hashof('main')")
	if err != nil {
		return common.Result{"ok": false, "fp": "setup", "detail": err.Error()}
	}
	e.hashOf[1] = fmt.Sprint(rows[0][0])
	e.parents[1] = nil
	steps := c["steps"].([]any)
	for i, sv := range steps {
		e.stepNo = i
		st := sv.(map[string]any)
		if f := e.step(st); f != nil {
			return f
		}
		e.stats[st["a"].(string)+":"+st["res"].(string)]++
	}
	return common.Result{"ok": true, "evals": e.evals, "stats": e.stats, "commits": len(e.hashOf)}
}

func (e *idxEngine) hasC2(ss *sqlh.Session) bool {
	rows, err := ss.Query("show columns from t")
	if err != nil {
		panic(err)
	}
	for _, r := range rows {
		if fmt.Sprint(r[0]) == "c2" {
			return true
		}
	}
	return false
}

func (e *idxEngine) step(st map[string]any) common.Result {
	a := st["a"].(string)
	args := amap(st["args"])
	expRes := st["res"].(string)
	ss := e.sess[st["s"].(string)]
	var err error
	var rows [][]any
	res := ""
	call := func(q string) { rows, err = ss.Query(q) }
	ki := func(n string) int { return common.Int(args[n]) }
	rowVals := func() string {
		if e.hasC2(ss) {
			return fmt.Sprintf("(pk, c1, c2) values (%d, %s, %s)", ki("k"), c1lit(ki("c1")), i10(ki("c2")))
		}
		return fmt.Sprintf("(pk, c1) values (%d, %s)", ki("k"), c1lit(ki("c1")))
	}
	hashArg := func(n string) string {
		h, ok := e.hashOf[ki(n)]
		if !ok {
			panic(fmt.Sprintf("model commit c%d is not bound", ki(n)))
		}
		return h
	}
	switch a {
	case "Insert":
		call("insert into t " + rowVals())
	case "Replace":
		call("replace into t " + rowVals())
	case "Update":
		v := i10(ki("v"))
		if args["col"] == "c1" {
			v = c1lit(ki("v"))
		}
		call(fmt.Sprintf("update t set %s = %s where pk = %d", args["col"], v, ki("k")))
	case "Delete":
		call(fmt.Sprintf("delete from t where pk = %d", ki("k")))
	case "UpdC2Where":
		call(fmt.Sprintf("update t set c2 = %s where c1 = %s", i10(ki("v")), c1lit(ki("w"))))
	case "UpdC1Where":
		call(fmt.Sprintf("update t set c1 = %s where c1 = %s", c1lit(ki("v")), c1lit(ki("w"))))
	case "DelWhere":
		call(fmt.Sprintf("delete from t where c1 = %s", c1lit(ki("w"))))
	case "AddIndex":
		n := args["n"].(string)
		call(map[string]string{"i1": "create index i1 on t (c1)", "u1": "create unique index u1 on t (c1)", "p1": "create index p1 on t (c1(2))",
			"i12": "create index i12 on t (c1, c2)", "i2": "create index i2 on t (c2)"}[n])
	case "DropIndex":
		call(fmt.Sprintf("drop index %s on t", args["n"]))
	case "AddC2":
		call("alter table t add column c2 int")
	case "DropC2":
		call("alter table t drop column c2")
	case "KIns":
		var vs []string
		for i := 0; i < ki("n"); i++ {
			vs = append(vs, fmt.Sprintf("(%s, %s)", i10(ki("c1")), i10(ki("c2"))))
		}
		call("insert into k values " + strings.Join(vs, ", "))
	case "KDel":
		call(fmt.Sprintf("delete from k where c1 <=> %s and c2 <=> %s limit %d", i10(ki("c1")), i10(ki("c2")), ki("n")))
	case "KUpd":
		call(fmt.Sprintf("update k set c1 = %s where c1 <=> %s", i10(ki("v")), i10(ki("w"))))
	case "KDropIndex":
		call("drop index k1 on k")
	case "KAddIndex":
		call("create index k1 on k (c1)")
	case "CommitAll":
		call(fmt.Sprintf("call dolt_commit('-A', '-m', 'm%d')", e.stepNo))
	case "Checkout":
		call(fmt.Sprintf("call dolt_checkout('%s')", args["b"]))
	case "Merge":
		call(fmt.Sprintf("call dolt_merge('%s')", args["b"]))
		if err == nil {
			row := rows[0]
			switch {
			case fmt.Sprint(row[2]) != "0":
				res = "conflict"
			case fmt.Sprint(row[1]) == "1":
				res = "ff"
			case row[0] == nil || fmt.Sprint(row[0]) == "":
				res = "uptodate"
			default:
				res = "ok"
			}
		}
	case "Abort":
		call("call dolt_merge('--abort')")
	case "Resolve":
		call(fmt.Sprintf("call dolt_conflicts_resolve('--%s', 't')", args["side"]))
	case "CherryPick":
		call(fmt.Sprintf("call dolt_cherry_pick('%s')", hashArg("c")))
	case "Revert":
		call(fmt.Sprintf("call dolt_revert('%s')", hashArg("c")))
	case "Rebase":
		call(fmt.Sprintf("call dolt_rebase('%s')", args["b"]))
	case "ResetHard":
		call(fmt.Sprintf("call dolt_reset('--hard', '%s')", hashArg("c")))
	default:
		return e.fail(a, "unknown action", a, nil)
	}
	if res == "" {
		switch {
		case err == nil:
			res = "ok"
		case strings.Contains(strings.ToLower(err.Error()), "duplicate unique key") || strings.Contains(strings.ToLower(err.Error()), "duplicate key"):
			res = "dupuq"
		case strings.Contains(strings.ToLower(err.Error()), "nothing to commit"):
			res = "nothing"
		default:
			res = "err:?" + err.Error()
		}
	}
	if res != expRes {
		return e.fail(a, "outcome", expRes, res)
	}
	e.evals++
	return e.compare(a, amap(st["exp"]))
}
