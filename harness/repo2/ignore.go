// Mode "ignore" (C46, repository-level half): replays behaviours of /verif/spec/RepoIgnore.tla: tables are created / dropped /
// modified / renamed, dolt_ignore rows are written, and dolt_add('.'), dolt_commit('-A'), dolt_reset(), dolt_clean() and
// dolt_clean('-x') are called; after EVERY step the table names and contents of the HEAD, STAGED and WORKING roots and the
// dolt_ignore rows of each of them are compared with the model's.
package main

import (
	"fmt"
	"sort"
	"strings"

	"github.com/dolthub/dolt/go/zz_verif/common"
	"github.com/dolthub/dolt/go/zz_verif/sqlh"
)

type ignEngine struct {
	ss     *sqlh.Session
	evals  int
	stats  map[string]int
	soft   []any
	stepNo int
}

func symName(v any) string {
	var sb strings.Builder
	for _, x := range anys(v) {
		sb.WriteString(fmt.Sprint(x))
	}
	return sb.String()
}

type ignRoot struct {
	T  map[string]int
	Ig []string
}

func (r ignRoot) String() string {
	var ks []string
	for k, v := range r.T {
		ks = append(ks, fmt.Sprintf("%s:v%d", k, v))
	}
	sort.Strings(ks)
	return fmt.Sprintf("tables{%s} dolt_ignore%v", strings.Join(ks, " "), r.Ig)
}

// decIgnRoot decodes RootProj: {"t": {name-as-json-key...}|[], "ig": [[pattern, bool]...]}. TLC renders a function whose
// domain is a set of sequences as an array of [key, value] pairs or an object keyed by the printed tuple; both are handled.
func decIgnRoot(v any) ignRoot {
	m := amap(v)
	r := ignRoot{T: map[string]int{}, Ig: []string{}}
	switch t := m["t"].(type) {
	case map[string]any:
		for k, x := range t {
			name := strings.NewReplacer("<<", "", ">>", "", "\"", "", ",", "", " ", "").Replace(k)
			r.T[name] = common.Int(x)
		}
	case []any:
		for _, kv := range t {
			p := anys(kv)
			if len(p) == 2 {
				r.T[symName(p[0])] = common.Int(p[1])
			}
		}
	}
	for _, row := range anys(m["ig"]) {
		p := anys(row)
		b, _ := p[1].(bool)
		r.Ig = append(r.Ig, fmt.Sprintf("%s=%v", symName(p[0]), b))
	}
	sort.Strings(r.Ig)
	return r
}

func (e *ignEngine) readRoot(asOf string) (ignRoot, error) {
	r := ignRoot{T: map[string]int{}, Ig: []string{}}
	ao := ""
	if asOf != "" {
		ao = " as of '" + asOf + "'"
	}
	rows, err := e.ss.Query("show tables" + ao)
	if err != nil {
		return r, err
	}
	for _, row := range rows {
		n := fmt.Sprint(row[0])
		if strings.HasPrefix(n, "dolt_") {
			continue
		}
		cnt, err := e.ss.Query("select count(*) from `" + n + "`" + ao)
		if err != nil {
			return r, err
		}
		r.T[n] = 1 + int(cnt[0][0].(int64))
	}
	rows, err = e.ss.Query("select pattern, ignored from dolt_ignore" + ao)
	if err != nil {
		if strings.Contains(err.Error(), "not found") {
			return r, nil
		}
		return r, err
	}
	for _, row := range rows {
		if fmt.Sprint(row[0]) == "zzzz" {
			continue
		}
		r.Ig = append(r.Ig, fmt.Sprintf("%s=%v", row[0], fmt.Sprint(row[1]) == "1"))
	}
	sort.Strings(r.Ig)
	return r, nil
}

func (e *ignEngine) fail(a, what string, exp, got any) common.Result {
	f := common.Fail(e.stepNo, a, what, exp, got)
	f["stats"] = e.stats
	f["evals"] = e.evals
	return f
}

func (e *ignEngine) compare(a string, exp map[string]any) common.Result {
	for _, rt := range [][2]string{{"w", ""}, {"s", "STAGED"}, {"h", "HEAD"}} {
		want := decIgnRoot(exp[rt[0]])
		got, err := e.readRoot(rt[1])
		if err != nil {
			return e.fail(a, "reading root "+rt[0], want.String(), err.Error())
		}
		e.evals++
		if got.String() != want.String() {
			return e.fail(a, map[string]string{"w": "working root", "s": "staged root", "h": "head root"}[rt[0]], want.String(), got.String())
		}
	}
	return nil
}

func runIgnore(c map[string]any) common.Result {
	e := &ignEngine{stats: map[string]int{}}
	dir, err := mkWork("ignore-")
	if err != nil {
		return common.Result{"ok": false, "fp": "setup", "detail": err.Error()}
	}
	defer rmWork(dir)
	srv, err := sqlh.NewRepoServer(dir, "db")
	if err != nil {
		return common.Result{"ok": false, "fp": "setup", "detail": err.Error()}
	}
	defer srv.Close()
	if e.ss, err = srv.NewSession("s1"); err != nil {
		return common.Result{"ok": false, "fp": "setup", "detail": err.Error()}
	}
	// dolt_ignore is a tracked table from the start (the model's roots carry its content)
	e.ss.MustExec("insert into dolt_ignore values ('zzzz', true)")
	e.ss.MustExec("call dolt_commit('-A', '-m', 'setup')")
	truncated := -1
	steps := c["steps"].([]any)
	for i, sv := range steps {
		e.stepNo = i
		st := sv.(map[string]any)
		stop, f := e.step(st)
		if f != nil {
			return f
		}
		e.stats[st["a"].(string)+":"+st["res"].(string)]++
		if stop {
			truncated = i
			break
		}
	}
	res := common.Result{"ok": true, "evals": e.evals, "stats": e.stats, "truncated": truncated}
	if len(e.soft) > 0 {
		res["soft"] = e.soft
	}
	return res
}

func (e *ignEngine) step(st map[string]any) (bool, common.Result) {
	a := st["a"].(string)
	args := amap(st["args"])
	expRes := st["res"].(string)
	n := symName(args["n"])
	var err error
	q := func(s string) { _, err = e.ss.Query(s) }
	switch a {
	case "Create":
		q("create table `" + n + "` (pk int primary key)")
	case "DropT":
		q("drop table `" + n + "`")
	case "Modify":
		rows, qerr := e.ss.Query("select count(*) from `" + n + "`")
		if qerr != nil {
			return false, e.fail(a, "count", nil, qerr.Error())
		}
		if rows[0][0].(int64) == 0 {
			q("insert into `" + n + "` values (1)")
		} else {
			q("delete from `" + n + "`")
		}
	case "Rename":
		q("rename table `" + n + "` to `" + symName(args["m"]) + "`")
	case "PutPat":
		b, _ := args["ign"].(bool)
		q(fmt.Sprintf("replace into dolt_ignore values ('%s', %v)", symName(args["p"]), b))
	case "DelPat":
		q(fmt.Sprintf("delete from dolt_ignore where pattern = '%s'", symName(args["p"])))
	case "AddAll":
		q("call dolt_add('.')")
	case "CommitAll":
		q(fmt.Sprintf("call dolt_commit('-A', '-m', 'm%d')", e.stepNo))
	case "ResetStaged":
		q("call dolt_reset()")
	case "Clean":
		if x, _ := args["x"].(bool); x {
			q("call dolt_clean('-x')")
		} else {
			q("call dolt_clean()")
		}
	default:
		return false, e.fail(a, "unknown action", a, nil)
	}
	res := "ok"
	if err != nil {
		msg := strings.ToLower(err.Error())
		switch {
		case strings.Contains(msg, "nothing to commit"):
			res = "nothing"
		case strings.Contains(msg, "conflict"):
			res = "conflict"
		default:
			res = "err:?" + err.Error()
		}
	}
	dev, _ := args["dev"].(string)
	exp := amap(st["exp"])
	if res != expRes {
		if dev != "" && (res == "ok" || res == "nothing") {
			// the intended semantics stages more: a commit may succeed where the code's has nothing to commit
			if f := e.checkIdeal(a, args); f == nil {
				e.stats["ideal:"+dev]++
				return true, nil
			}
		}
		return false, e.fail(a, "outcome", expRes, res)
	}
	e.evals++
	if f := e.compare(a, exp); f != nil {
		if dev != "" && e.checkIdeal(a, args) == nil {
			e.stats["ideal:"+dev]++
			return true, nil
		}
		return false, f
	}
	if dev != "" {
		e.soft = append(e.soft, common.Fail(e.stepNo, a, dev, decIgnRoot(args["ideal"]).String(), "the code behaves as the named deviation describes"))
	}
	return false, nil
}

// checkIdeal: the staged root equals the intended one of a deviating step
func (e *ignEngine) checkIdeal(a string, args map[string]any) common.Result {
	want := decIgnRoot(args["ideal"])
	got, err := e.readRoot("STAGED")
	if err != nil {
		return e.fail(a, "reading the staged root", want.String(), err.Error())
	}
	if got.String() != want.String() {
		return e.fail(a, "neither the code's named deviation nor the intended staged root", want.String(), got.String())
	}
	return nil
}
