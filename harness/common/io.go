// Package common: case/result plumbing shared by all /verif engines.
// Engines read one JSON case per line from $VERIF_IN and write one JSON result per line to $VERIF_OUT.
package common

import (
	"bufio"
	"encoding/json"
	"fmt"
	"os"
	"runtime/debug"
	"strconv"
)

type Result map[string]any

// Run feeds every case of $VERIF_IN to fn. fn returns a result map; "ok" must be set.
// A panic inside fn is reported as a failed case (panics are behaviour of the real code).
func Run(fn func(c map[string]any) Result) {
	in, err := os.Open(os.Getenv("VERIF_IN"))
	if err != nil {
		fmt.Println("cannot open VERIF_IN:", err)
		os.Exit(3)
	}
	defer in.Close()
	out, err := os.Create(os.Getenv("VERIF_OUT"))
	if err != nil {
		fmt.Println("cannot create VERIF_OUT:", err)
		os.Exit(3)
	}
	defer out.Close()
	w := bufio.NewWriter(out)
	sc := bufio.NewScanner(in)
	sc.Buffer(make([]byte, 1<<20), 1<<30)
	for sc.Scan() {
		var c map[string]any
		if err := json.Unmarshal(sc.Bytes(), &c); err != nil {
			fmt.Println("bad case:", err)
			os.Exit(3)
		}
		r := safe(fn, c)
		r["n"] = c["n"]
		b, _ := json.Marshal(r)
		w.Write(b)
		w.WriteByte('\n')
		w.Flush()
	}
}

func safe(fn func(c map[string]any) Result, c map[string]any) (r Result) {
	defer func() {
		if p := recover(); p != nil {
			r = Result{"ok": false, "panic": true, "fp": "panic", "detail": fmt.Sprintf("panic: %v\n%s", p, debug.Stack())}
		}
	}()
	return fn(c)
}

func Seed() int64 {
	s, _ := strconv.ParseInt(os.Getenv("VERIF_SEED"), 10, 64)
	return s
}

// Int reads a JSON number.
func Int(v any) int {
	switch x := v.(type) {
	case float64:
		return int(x)
	case int:
		return x
	case json.Number:
		i, _ := x.Int64()
		return int(i)
	}
	panic(fmt.Sprintf("not a number: %#v", v))
}

func Ints(v any) []int {
	if v == nil {
		return nil
	}
	a := v.([]any)
	out := make([]int, len(a))
	for i := range a {
		out[i] = Int(a[i])
	}
	return out
}

func Fail(step int, action string, what string, exp, got any) Result {
	return Result{"ok": false, "step": step, "step_action": action, "fp": action + ":" + what,
		"detail": fmt.Sprintf("step %d (%s): %s\n  expected (spec): %v\n  observed (code): %v", step, action, what, js(exp), js(got))}
}

func js(v any) string {
	b, _ := json.Marshal(v)
	return string(b)
}

func JS(v any) string { return js(v) }
